#![allow(dead_code)]
#[path = "/repo/bio-seq-derive/src/seqarray.rs"]
mod seqarray;
#[path = "/repo/bio-seq-derive/src/codec.rs"]
mod codec;

use proc_macro2::Span;
use syn::LitStr;

fn main() {
    for s in ["ACGT", "ACGX", "", "AC\u{e9}", "acgt"] {
        let lit = LitStr::new(s, Span::call_site());
        match seqarray::dna_seq(&lit) {
            Ok((n, bits)) => println!("dna {s:?} -> ok {n} {bits:?}"),
            Err(e) => println!("dna {s:?} -> err {e}"),
        }
        match seqarray::iupac_seq(&lit) {
            Ok((n, bits)) => println!("iupac {s:?} -> ok {n} {bits:?}"),
            Err(e) => println!("iupac {s:?} -> err {e}"),
        }
    }
    for m in [0u8, 1, 2, 3, 4, 7, 8, 15, 16, 127, 128, 254] {
        println!("width({m}) = {:?}", codec::parse_width(&vec![], m).map_err(|e| e.to_string()));
    }
    let r = std::panic::catch_unwind(|| codec::parse_width(&vec![], 255).map_err(|e| e.to_string()));
    println!("width(255) = {:?}", r);
    let e: syn::ItemEnum = syn::parse_str("#[bits(3)] enum E { #[display('*')] #[alt(5,6)] A = 0b01, B = b'a', Cc = 0x03 }").unwrap();
    let v = codec::parse_variants(&e.variants).unwrap();
    println!("max {} alts {:?}", v.max_discriminant, v.alts.iter().map(|t| t.to_string()).collect::<Vec<_>>());
    println!("to_chars {:?}", v.to_chars.iter().map(|t| t.to_string()).collect::<Vec<_>>());
    println!("from_chars {:?}", v.from_chars.iter().map(|t| t.to_string()).collect::<Vec<_>>());
    println!("width {:?}", codec::parse_width(&e.attrs, v.max_discriminant).map_err(|e| e.to_string()));
}
