#![allow(dead_code, unused)]
use bio_seq::prelude::*;
use bio_seq::codec::{text, masked, degenerate};
use bio_seq::translation::{STANDARD, TranslationTable, PartialTranslationTable, CodonTable, TranslationError};
use std::collections::HashMap;
struct Rng(u64);
impl Rng { fn next(&mut self)->u64{ self.0^=self.0<<13; self.0^=self.0>>7; self.0^=self.0<<17; self.0 } fn below(&mut self,n:usize)->usize{ (self.next()%(n as u64)) as usize } }
static mut CATS: Option<std::collections::BTreeMap<String,(usize,String)>> = None;
fn fail(msg: String) { unsafe { let key: String = msg.chars().map(|c| if c.is_ascii_digit() {'#'} else {c}).collect(); let m = CATS.get_or_insert_with(Default::default); let e = m.entry(key).or_insert((0,msg.clone())); e.0+=1; } }
macro_rules! ck { ($c:expr, $($a:tt)*) => { if !($c) { fail(format!($($a)*)); } } }
fn syms<A: Codec>(s: &SeqSlice<A>) -> Vec<A> { (0..s.len()).map(|i| s.nth(i)).collect() }
fn text_of<A: Codec>(v: &[A]) -> String { v.iter().map(|a| a.to_char()).collect() }
fn rand_syms<A: Codec>(r: &mut Rng, n: usize) -> Vec<A> { let items: Vec<A> = A::items().collect(); (0..n).map(|_| items[r.below(items.len())]).collect() }
fn mk<A: Codec>(v:&[A])->Seq<A>{ Seq::try_from(text_of(v).as_str()).unwrap() }

fn main(){
    std::panic::set_hook(Box::new(|_| {}));
    let mut r=Rng(0x1234567);
    // C12
    for n in [0usize,1,2,15,16,17,31,32,33,40] { for oa in 0..18 { for ob in 0..18 {
        let pa=rand_syms::<Iupac>(&mut r, oa+n+1); let pb=rand_syms::<Iupac>(&mut r, ob+n+1);
        let sa=mk(&pa); let sb=mk(&pb); let a=&sa[oa..oa+n]; let b=&sb[ob..ob+n];
        let or = a | b; let and = a & b;
        let eo: Vec<u8> = (0..n).map(|i| pa[oa+i].to_bits() | pb[ob+i].to_bits()).collect();
        let ea: Vec<u8> = (0..n).map(|i| pa[oa+i].to_bits() & pb[ob+i].to_bits()).collect();
        ck!(syms(&or).iter().map(|s| s.to_bits()).collect::<Vec<_>>()==eo, "or oa={oa} ob={ob} n={n}");
        ck!(syms(&and).iter().map(|s| s.to_bits()).collect::<Vec<_>>()==ea, "and oa={oa} ob={ob} n={n}");
        let ao=a.to_owned(); let bo=b.to_owned();
        ck!(ao.clone().bit_or(bo.clone())==or && ao.clone().bit_and(bo.clone())==and, "owned bitops");
        let sub = (0..n).all(|i| pb[ob+i].to_bits() & pa[oa+i].to_bits() == pb[ob+i].to_bits());
        ck!(a.contains(b)==sub, "slice contains"); ck!(ao.contains(b)==sub, "seq contains");
        if n>0 { ck!(!a.contains(&sb[ob..ob+n-1]) || n-1==n, "contains len mismatch"); }
    }}}
    // C13 / C14
    let ncbi: Vec<char> = "FFLLSSSSYY**CC*WLLLLPPPPHHQQRRRRIIIMTTTTNNKKSSRRVVVVAAAADDEEGGGG".chars().collect();
    let idx = |d: Dna| match d { Dna::T=>0, Dna::C=>1, Dna::A=>2, Dna::G=>3 };
    let dn=[Dna::A,Dna::C,Dna::G,Dna::T];
    for a in dn { for b in dn { for c in dn { for off in 0..35 {
        let mut p=rand_syms::<Dna>(&mut r, off); p.extend([a,b,c]); p.extend(rand_syms::<Dna>(&mut r,3));
        let s=mk(&p); let am=STANDARD.to_amino(&s[off..off+3]);
        ck!(am.to_char()==ncbi[16*idx(a)+4*idx(b)+idx(c)], "to_amino {a:?}{b:?}{c:?} off={off}");
    }}}}
    let iu: Vec<Iupac> = Iupac::items().collect();
    let mem = |d: Dna, u: Iupac| Iupac::from(d).to_bits() & u.to_bits() != 0;
    for a in &iu { for b in &iu { for c in &iu { 
        let off=r.below(17); let mut p=rand_syms::<Iupac>(&mut r, off); p.extend([*a,*b,*c]);
        let s=mk(&p); let res=STANDARD.try_to_amino(&s[off..off+3]);
        let mut set=std::collections::BTreeSet::new();
        for x in dn { for y in dn { for z in dn { if mem(x,*a)&&mem(y,*b)&&mem(z,*c) { set.insert(ncbi[16*idx(x)+4*idx(y)+idx(z)]); } }}}
        let gapfree = a.to_bits()!=0 && b.to_bits()!=0 && c.to_bits()!=0;
        if gapfree { match &res { Ok(am) => ck!(set.len()==1 && set.contains(&am.to_char()), "try_to_amino sound {a:?}{b:?}{c:?}"), Err(TranslationError::AmbiguousTranslation(_)) => ck!(set.len()>1, "try_to_amino complete {a:?}{b:?}{c:?}"), _ => fail(format!("try_to_amino other err")) } }
    }}}
    for l in [0usize,1,2,4,5] { let p=rand_syms::<Iupac>(&mut r,l); ck!(matches!(STANDARD.try_to_amino(&mk(&p)), Err(TranslationError::InvalidCodon(_))), "invalid len {l}"); }
    for am in Amino::items() { match STANDARD.try_to_codon(am) {
        Ok(c) => { // codon matches all and only
            let mut all=true; let mut only=true; let cs=syms(&c);
            for x in dn { for y in dn { for z in dn { let m= mem(x,cs[0])&&mem(y,cs[1])&&mem(z,cs[2]); let codes = ncbi[16*idx(x)+4*idx(y)+idx(z)]==am.to_char(); if codes && !m {all=false;} if m && !codes {only=false;} }}}
            ck!(all&&only, "try_to_codon exact {am:?}"); ck!(STANDARD.try_to_amino(&c)==Ok(am), "codon back {am:?}"); }
        Err(TranslationError::AmbiguousCodon(_)) => { // there must be no single iupac codon
            let mut exists=false; for a in &iu { for b in &iu { for c in &iu { if a.to_bits()==0||b.to_bits()==0||c.to_bits()==0 {continue;} let mut ok=true; for x in dn { for y in dn { for z in dn { let m= mem(x,*a)&&mem(y,*b)&&mem(z,*c); let codes = ncbi[16*idx(x)+4*idx(y)+idx(z)]==am.to_char(); if m!=codes {ok=false;} }}} if ok {exists=true;} }}}
            ck!(!exists, "try_to_codon ambiguous but exact codon exists {am:?}"); }
        _ => fail(format!("try_to_codon other")) } }
    // C15
    let ams: Vec<Amino>=Amino::items().collect();
    for _ in 0..300 { let n=r.below(12); let mut entries: Vec<(Seq<Dna>,Amino)>=vec![]; let mut model: HashMap<String,Amino>=HashMap::new();
        for _ in 0..n { let l=1+r.below(4); let c=rand_syms::<Dna>(&mut r,l); let a=ams[r.below(5)]; if model.contains_key(&text_of(&c)) {continue;} model.insert(text_of(&c),a); entries.push((mk(&c),a)); }
        for _rep in 0..4 { let hm: HashMap<Seq<Dna>,Amino> = entries.iter().cloned().collect(); let t=CodonTable::from_map(hm);
            for _ in 0..10 { let l=1+r.below(4); let off=r.below(33); let mut p=rand_syms::<Dna>(&mut r,off); let q= if r.below(2)==0 && !entries.is_empty() { syms(&entries[r.below(entries.len())].0) } else { rand_syms::<Dna>(&mut r,l) }; p.extend(q.iter().copied()); let s=mk(&p); let res=t.try_to_amino(&s[off..]);
                match model.get(&text_of(&q)) { Some(a)=> ck!(res==Ok(*a), "codontable key hit"), None=> ck!(matches!(res, Err(TranslationError::InvalidCodon(_))), "codontable miss") } }
            for a in &ams { let pre: Vec<&String>=model.iter().filter(|(_,v)| *v==a).map(|(k,_)| k).collect(); let res=t.try_to_codon(*a);
                match pre.len() { 0=> ck!(matches!(res,Err(TranslationError::InvalidAmino(_))),"inv amino"), 1=> ck!(res.as_ref().map(|s| s.to_string()).ok().as_ref()==Some(pre[0]),"unique codon"), _=> ck!(matches!(res,Err(TranslationError::AmbiguousCodon(_))),"ambig codon") } } } }
    // C20
    for n in [0usize,1,11,12,13,14,25,26,27,40] { let p=rand_syms::<masked::Iupac>(&mut r,n); let s=mk(&p);
        let m=s.to_mask(); let u=s.to_unmask();
        ck!(m.to_string()==s.to_string().to_lowercase().replace('-',"."), "mi mask n={n} {} {}", s, m);
        ck!(u.to_string()==s.to_string().to_uppercase().replace('.',"-"), "mi unmask");
        ck!(m.to_mask()==m && u.to_unmask()==u && m.to_unmask()==u, "mi idem");
        ck!(s.to_comp().to_mask()==m.to_comp() && s.to_rev().to_mask()==m.to_rev() && s.to_revcomp().to_mask()==m.to_revcomp(), "mi commute");
        let p=rand_syms::<masked::Dna>(&mut r,n); let s=mk(&p); let m=s.to_mask();
        ck!(m.to_mask()==s && m.len()==s.len(), "md involution"); 
        let sw: String = s.to_string().chars().map(|c| if "ACGTN".contains(c) {c.to_ascii_lowercase()} else if "acgtn".contains(c) {c.to_ascii_uppercase()} else if c=='?' {'!'} else if c=='!' {'?'} else {c}).collect();
        ck!(m.to_string()==sw, "md toggles {} {}", s, m);
        ck!(s.to_comp().to_mask()==m.to_comp(), "md commute");
    }
    // C19
    for _ in 0..200 { let n=r.below(80); let off=r.below(33); let p=rand_syms::<Dna>(&mut r,off+n); let s=mk(&p); let sl=&s[off..];
        let i: Seq<Iupac>=sl.into(); let t: Seq<text::Dna>=sl.into(); ck!(i.to_string()==sl.to_string() && t.to_string()==sl.to_string() && i.len()==n, "conv"); }
    // C18
    for _ in 0..200 { let n=r.below(80); let off=r.below(33); let p=rand_syms::<Amino>(&mut r,off+n); let s=mk(&p); let o=s[off..].to_owned();
        let j=serde_json::to_string(&o).unwrap(); let b: Seq<Amino>=serde_json::from_str(&j).unwrap(); ck!(b==o && b.to_string()==o.to_string(), "json rt");
        let bi=bincode::serialize(&o).unwrap(); let b: Seq<Amino>=bincode::deserialize(&bi).unwrap(); ck!(b==o, "bincode rt"); }
    let k: Kmer<Dna,64,u128> = "ACGTACGTACGTACGTACGTACGTACGTACGTTTTTACGTACGTACGTACGTACGTACGTACGG".parse().unwrap();
    let j=serde_json::to_string(&k).unwrap(); let b: Result<Kmer<Dna,64,u128>,_>=serde_json::from_str(&j); ck!(b.as_ref().ok()==Some(&k), "kmer u128 json {j} {:?}", b.as_ref().err());
    let bi=bincode::serialize(&k).unwrap(); let b: Kmer<Dna,64,u128>=bincode::deserialize(&bi).unwrap(); ck!(b==k,"kmer u128 bincode");
    unsafe { for (k,(n,ex)) in CATS.get_or_insert_with(Default::default).iter() { println!("{n:6}  {k}   e.g. {ex}"); } println!("done"); }
}
