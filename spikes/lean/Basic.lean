namespace Spike

abbrev Bits := List Bool

/-- little-endian bits of `n`, exactly `w` of them -/
def toBitsLE : Nat → Nat → Bits
  | 0, _ => []
  | w+1, n => (n % 2 == 1) :: toBitsLE w (n / 2)

def ofBitsLE : Bits → Nat
  | [] => 0
  | b :: bs => (if b then 1 else 0) + 2 * ofBitsLE bs

@[simp] theorem length_toBitsLE (w n : Nat) : (toBitsLE w n).length = w := by
  induction w generalizing n with
  | zero => rfl
  | succ w ih => simp [toBitsLE, ih]

theorem ofBitsLE_toBitsLE (w n : Nat) (h : n < 2^w) : ofBitsLE (toBitsLE w n) = n := by
  induction w generalizing n with
  | zero => simp [toBitsLE, ofBitsLE] at *; omega
  | succ w ih =>
    have h2 : n / 2 < 2^w := by
      rw [Nat.pow_succ] at h; omega
    simp only [toBitsLE, ofBitsLE, ih _ h2]
    split <;> rename_i hb <;> simp at hb <;> omega

/-- pack a list of codes with width w -/
def pack (w : Nat) (cs : List Nat) : Bits := cs.flatMap (toBitsLE w)

/-- unpack: chunks of w bits; needs fuel = number of symbols -/
def unpack (w : Nat) : Nat → Bits → List Nat
  | 0, _ => []
  | n+1, bs => ofBitsLE (bs.take w) :: unpack w n (bs.drop w)

theorem unpack_pack (w : Nat) (cs : List Nat) (h : ∀ c ∈ cs, c < 2^w) :
    unpack w cs.length (pack w cs) = cs := by
  induction cs with
  | nil => rfl
  | cons c cs ih =>
    have hc : c < 2^w := h c (by simp)
    have ih' := ih (fun x hx => h x (by simp [hx]))
    simp only [pack, List.flatMap_cons, List.length_cons, unpack]
    rw [List.take_left' (length_toBitsLE w c), List.drop_left' (length_toBitsLE w c)]
    rw [ofBitsLE_toBitsLE w c hc]
    simp only [pack] at ih'
    rw [ih']

theorem pack_length (w : Nat) (cs : List Nat) : (pack w cs).length = w * cs.length := by
  induction cs with
  | nil => simp [pack]
  | cons c cs ih => simp only [pack, List.flatMap_cons, List.length_append, length_toBitsLE, List.length_cons] at *; rw [ih]; rw [Nat.mul_succ]; omega

theorem drop_pack (w : Nat) (cs : List Nat) (a : Nat) :
    (pack w cs).drop (w * a) = pack w (cs.drop a) := by
  induction a generalizing cs with
  | zero => simp
  | succ a ih =>
    cases cs with
    | nil => simp [pack]
    | cons c cs =>
      simp only [pack, List.flatMap_cons, List.drop_succ_cons]
      rw [Nat.mul_succ, Nat.add_comm, ← List.drop_drop]
      rw [List.drop_left' (length_toBitsLE w c)]
      exact ih cs

end Spike
