namespace PM
/-- model of CodonTable::from_map's inverse construction, entries visited in the given order -/
def step (inv : List (Nat × Option Nat)) (e : Nat × Nat) : List (Nat × Option Nat) :=
  -- e = (codon id, amino); inv maps amino ↦ Some codon | None (ambiguous); insert overrides
  if inv.any (·.1 == e.2) then (e.2, none) :: inv.filter (·.1 != e.2) else (e.2, some e.1) :: inv
def build (es : List (Nat × Nat)) : List (Nat × Option Nat) := es.foldl step []
def look (inv : List (Nat × Option Nat)) (a : Nat) : Option (Option Nat) := (inv.find? (·.1 == a)).map (·.2)

/-- order-free characterisation -/
def specLook (es : List (Nat × Nat)) (a : Nat) : Option (Option Nat) :=
  match es.filter (·.2 == a) with
  | [] => none
  | [e] => some (some e.1)
  | _ => some none

#eval (build [(1,7),(2,8),(3,7),(4,9)], look (build [(1,7),(2,8),(3,7),(4,9)]) 7, specLook [(1,7),(2,8),(3,7),(4,9)] 7)
example : List.Perm [1,2,3] [3,1,2] := by decide
end PM
