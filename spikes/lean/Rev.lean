import Spike.Basic
namespace Spike

/-- model of `for chunk in bv.rchunks_exact_mut(w) { chunk.reverse() }` when len is a multiple of w:
    same as reversing every aligned chunk (fuel = number of chunks) -/
def mapChunks (w : Nat) (f : Bits → Bits) : Nat → Bits → Bits
  | 0, _ => []
  | n+1, bs => f (bs.take w) ++ mapChunks w f n (bs.drop w)

/-- `ReverseMut::rev` as implemented: reverse all bits, then reverse each chunk back. -/
def revImpl (w n : Nat) (bs : Bits) : Bits := mapChunks w List.reverse n bs.reverse

theorem mapChunks_flatMap (w : Nat) (f : Bits → Bits) (xs : List Bits) (h : ∀ x ∈ xs, x.length = w) :
    mapChunks w f xs.length (xs.flatMap id) = xs.flatMap f := by
  induction xs with
  | nil => rfl
  | cons x xs ih =>
    have hx : x.length = w := h x (by simp)
    simp only [List.flatMap_cons, List.length_cons, mapChunks, id]
    rw [List.take_left' hx, List.drop_left' hx, ih (fun y hy => h y (by simp [hy]))]

theorem rev_pack (w : Nat) (cs : List Nat) :
    revImpl w cs.length (pack w cs) = pack w cs.reverse := by
  unfold revImpl pack
  have h1 : (cs.flatMap (toBitsLE w)).reverse = (cs.reverse.map (fun c => (toBitsLE w c).reverse)).flatMap id := by
    induction cs with
    | nil => rfl
    | cons c cs ih => simp [List.flatMap_cons, List.reverse_append, ih, List.flatMap_append]
  rw [h1]
  have hl : cs.length = (cs.reverse.map (fun c => (toBitsLE w c).reverse)).length := by simp
  rw [hl, mapChunks_flatMap]
  · rw [List.flatMap_map]; congr 1; funext c; simp
  · intro x hx; simp at hx; obtain ⟨a, _, rfl⟩ := hx; simp

end Spike
