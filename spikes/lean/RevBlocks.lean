namespace RB

/-- n little-endian digits of x in base 2^w -/
def digits (w : Nat) : Nat → Nat → List Nat
  | 0, _ => []
  | n+1, x => (x % 2^w) :: digits w n (x / 2^w)

def ofDigits (w : Nat) : List Nat → Nat
  | [] => 0
  | d :: ds => d + 2^w * ofDigits w ds

theorem digits_length (w n x) : (digits w n x).length = n := by
  induction n generalizing x <;> simp [digits, *]

theorem ofDigits_digits (w n x : Nat) (h : x < 2^(w*n)) : ofDigits w (digits w n x) = x := by
  induction n generalizing x with
  | zero => simp [digits, ofDigits] at *; omega
  | succ n ih =>
    have hpos : 0 < 2^w := Nat.two_pow_pos w
    have h2 : x / 2^w < 2^(w*n) := by
      rw [Nat.mul_succ, Nat.pow_add] at h
      exact Nat.div_lt_of_lt_mul (by rw [Nat.mul_comm]; exact h)
    simp only [digits, ofDigits, ih _ h2]
    have := Nat.mod_add_div x (2^w)
    omega

/-- digits of width 2 grouped by bytes: 4m base-4 digits = m base-256 digits each split in 4 -/
theorem digits_group (m x : Nat) :
    digits 2 (4*m) x = (digits 8 m x).flatMap (digits 2 4) := by
  induction m generalizing x with
  | zero => rfl
  | succ m ih =>
    have e : 4 * (m+1) = (4*m) + 1 + 1 + 1 + 1 := by omega
    rw [e]
    simp only [digits, List.flatMap_cons, List.cons_append, List.nil_append]
    have h1 : x % 2^8 % 2^2 = x % 2^2 := by omega
    have h2 : x % 2^8 / 2^2 % 2^2 = x / 2^2 % 2^2 := by omega
    have h3 : x % 2^8 / 2^2 / 2^2 % 2^2 = x / 2^2 / 2^2 % 2^2 := by omega
    have h4 : x % 2^8 / 2^2 / 2^2 / 2^2 % 2^2 = x / 2^2 / 2^2 / 2^2 % 2^2 := by omega
    have h5 : x / 2^2 / 2^2 / 2^2 / 2^2 = x / 2^8 := by omega
    rw [h1, h2, h3, h4, h5, ih]
    simp [digits]

/-- the REV_2BIT table as the const fn computes it -/
def rev2 (i : Nat) : Nat :=
  ((i &&& 0xC0) >>> 6) ||| ((i &&& 0x30) >>> 2) ||| ((i &&& 0x0C) <<< 2) ||| ((i &&& 0x03) <<< 6)

def rev2Fails : List Nat := (List.range 256).filter fun b => digits 2 4 (rev2 b) != (digits 2 4 b).reverse || !(rev2 b < 256)
theorem rev2_ok : rev2Fails = [] := by decide +kernel

theorem rev2_spec (b : Nat) (h : b < 256) : digits 2 4 (rev2 b) = (digits 2 4 b).reverse ∧ rev2 b < 256 := by
  have hm : b ∈ List.range 256 := List.mem_range.mpr h
  have : b ∉ rev2Fails := by rw [rev2_ok]; simp
  simp only [rev2Fails, List.mem_filter, hm, true_and, Bool.or_eq_true, bne_iff_ne, ne_eq, Bool.not_eq_true', decide_eq_false_iff_not, not_or, Decidable.not_not] at this
  simpa using this

/-- swap_bytes().to_le_bytes() = reversed little-endian bytes; map table; from_le_bytes -/
def revBlocks2 (x : Nat) : Nat := ofDigits 8 (((digits 8 8 x).reverse).map rev2)

theorem digits_lt (w n x) : ∀ d ∈ digits w n x, d < 2^w := by
  induction n generalizing x with
  | zero => simp [digits]
  | succ n ih =>
    intro d hd
    simp only [digits, List.mem_cons] at hd
    rcases hd with rfl | hd
    · exact Nat.mod_lt _ (Nat.two_pow_pos w)
    · exact ih _ d hd

end RB
