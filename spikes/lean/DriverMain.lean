import Spike.Basic
open Spike

def step (line : String) : String :=
  match line.trimAscii.toString.splitOn " " with
  | ["pack", w, cs] =>
    match w.toNat? with
    | some w =>
      let codes := (cs.splitOn ",").filterMap String.toNat?
      let bits := pack w codes
      String.ofList (bits.map fun b => if b then '1' else '0') ++ " " ++ toString (ofBitsLE bits)
    | none => "bad-op"
  | _ => "bad-op"

partial def loop (h : IO.FS.Stream) (out : IO.FS.Stream) : IO Unit := do
  let line ← h.getLine
  if line.isEmpty then return ()
  out.putStrLn (step line)
  loop h out

def main : IO Unit := do loop (← IO.getStdin) (← IO.getStdout)
