namespace Codon

/-- NCBI table 1, order TCAG for each position (first base slowest). Amino letters as chars. -/
def ncbi : List Char := "FFLLSSSSYY**CC*WLLLLPPPPHHQQRRRRIIIMTTTTNNKKSSRRVVVVAAAADDEEGGGG".toList

/-- nucleotide index in TCAG order: T=0 C=1 A=2 G=3. Our DNA codes A=0 C=1 G=2 T=3 -/
def tcagIdx : Nat → Nat
  | 0 => 2 | 1 => 1 | 2 => 3 | _ => 0

def specAmino (b0 b1 b2 : Nat) : Char :=
  ncbi.getD (16 * tcagIdx b0 + 4 * tcagIdx b1 + tcagIdx b2) '?'

/-- IUPAC one-hot: A=8 C=4 G=2 T=1 ; member test of dna code d (A0 C1 G2 T3) in iupac code u -/
def mem (d u : Nat) : Bool := (u >>> (3 - d)) % 2 == 1

def rows : List (Nat × Nat × Nat × Char) := [
  (2,4,15,'A'), (1,2,5,'C'), (2,8,5,'D'), (2,8,10,'E'), (1,1,5,'F'), (2,2,15,'G'), (4,8,5,'H'),
  (8,1,13,'I'), (8,8,10,'K'), (4,1,15,'L'), (1,1,10,'L'), (4,1,5,'L'), (5,1,10,'L'), (8,1,2,'M'),
  (8,8,5,'N'), (4,4,15,'P'), (4,8,10,'Q'), (4,2,15,'R'), (8,2,10,'R'), (4,2,5,'R'), (12,2,10,'R'),
  (1,4,15,'S'), (8,2,5,'S'), (8,4,15,'T'), (2,1,15,'V'), (1,2,2,'W'), (1,8,5,'Y'), (1,8,10,'*'), (1,10,8,'*')]

def sub (x p : Nat) : Bool := (x &&& p) == x

def tryToAmino (c0 c1 c2 : Nat) : Option Char :=
  (rows.find? (fun r => sub c0 r.1 && sub c1 r.2.1 && sub c2 r.2.2.1)).map (·.2.2.2)

def concrete (c0 c1 c2 : Nat) : List Char :=
  (List.range 4).flatMap fun d0 => (List.range 4).flatMap fun d1 => (List.range 4).filterMap fun d2 =>
    if mem d0 c0 && mem d1 c1 && mem d2 c2 then some (specAmino d0 d1 d2) else none

def specTry (c0 c1 c2 : Nat) : Option Char :=
  match concrete c0 c1 c2 with
  | [] => none
  | x :: xs => if xs.all (· == x) then some x else none

def checkAll : Bool :=
  (List.range 15).all fun i => (List.range 15).all fun j => (List.range 15).all fun k =>
    tryToAmino (i+1) (j+1) (k+1) == specTry (i+1) (j+1) (k+1)

theorem sound_complete : checkAll = true := by decide +kernel

end Codon
