import Spike.RevBlocks
namespace CX
open RB

/-- colexicographic comparison of two equal-length digit lists: last digit most significant -/
def colexLt : List Nat → List Nat → Bool
  | [], [] => false
  | a :: as, b :: bs => colexLt as bs || (as == bs && decide (a < b))
  | _, _ => false

theorem ofDigits_lt (w : Nat) (ds : List Nat) (h : ∀ d ∈ ds, d < 2^w) : ofDigits w ds < 2^(w * ds.length) := by
  induction ds with
  | nil => simp [ofDigits]
  | cons d ds ih =>
    have hd := h d (by simp)
    have ih' := ih (fun x hx => h x (by simp [hx]))
    simp only [ofDigits, List.length_cons, Nat.mul_succ, Nat.pow_add]
    have : 2 ^ w * ofDigits w ds + 2^w ≤ 2^w * 2 ^ (w * ds.length) := by
      have := Nat.mul_le_mul_left (2^w) (Nat.succ_le_of_lt ih')
      rw [Nat.mul_succ] at this; exact this
    rw [Nat.mul_comm (2 ^ (w * ds.length))]
    omega

theorem ofDigits_inj (w : Nat) (as bs : List Nat) (hl : as.length = bs.length)
    (ha : ∀ d ∈ as, d < 2^w) (hb : ∀ d ∈ bs, d < 2^w) (h : ofDigits w as = ofDigits w bs) : as = bs := by
  induction as generalizing bs with
  | nil => cases bs <;> simp_all
  | cons a as ih =>
    cases bs with
    | nil => simp at hl
    | cons b bs =>
      simp only [ofDigits] at h
      have ha0 := ha a (by simp); have hb0 := hb b (by simp)
      have hpos : 0 < 2^w := Nat.two_pow_pos w
      have hmod : a = b := by
        have h1 : (a + 2^w * ofDigits w as) % 2^w = a := by rw [Nat.add_mul_mod_self_left]; exact Nat.mod_eq_of_lt ha0
        have h2 : (b + 2^w * ofDigits w bs) % 2^w = b := by rw [Nat.add_mul_mod_self_left]; exact Nat.mod_eq_of_lt hb0
        rw [← h1, ← h2, h]
      subst hmod
      have : ofDigits w as = ofDigits w bs := by
        have : 2^w * ofDigits w as = 2^w * ofDigits w bs := by omega
        exact Nat.eq_of_mul_eq_mul_left hpos this
      rw [ih bs (by simpa using hl) (fun x hx => ha x (by simp [hx])) (fun x hx => hb x (by simp [hx])) this]

theorem lt_iff_colex (w : Nat) (as bs : List Nat) (hl : as.length = bs.length)
    (ha : ∀ d ∈ as, d < 2^w) (hb : ∀ d ∈ bs, d < 2^w) :
    ofDigits w as < ofDigits w bs ↔ colexLt as bs = true := by
  induction as generalizing bs with
  | nil => cases bs <;> simp_all [ofDigits, colexLt]
  | cons a as ih =>
    cases bs with
    | nil => simp at hl
    | cons b bs =>
      have hl' : as.length = bs.length := by simpa using hl
      have ha0 := ha a (by simp); have hb0 := hb b (by simp)
      have ha' : ∀ d ∈ as, d < 2^w := fun x hx => ha x (by simp [hx])
      have hb' : ∀ d ∈ bs, d < 2^w := fun x hx => hb x (by simp [hx])
      have IH := ih bs hl' ha' hb'
      simp only [ofDigits, colexLt, Bool.or_eq_true, Bool.and_eq_true, beq_iff_eq, decide_eq_true_eq]
      rw [← IH]
      have hpos : 0 < 2^w := Nat.two_pow_pos w
      constructor
      · intro h
        by_cases hlt : ofDigits w as < ofDigits w bs
        · exact Or.inl hlt
        · by_cases heq : ofDigits w as = ofDigits w bs
          · right
            refine ⟨ofDigits_inj w as bs hl' ha' hb' heq, ?_⟩
            rw [heq] at h; omega
          · exfalso
            have hgt : ofDigits w bs + 1 ≤ ofDigits w as := by omega
            have := Nat.mul_le_mul_left (2^w) hgt
            rw [Nat.mul_succ] at this
            omega
      · rintro (hlt | ⟨rfl, hab⟩)
        · have := Nat.mul_le_mul_left (2^w) (Nat.succ_le_of_lt hlt)
          rw [Nat.mul_succ] at this
          omega
        · omega
end CX
