namespace CH
structure Chunks where
  n : Nat
  width : Nat
  skip : Nat
  index : Nat

/-- `SeqChunks::next` with both bounds tests as in the source; yields the symbol range -/
def Chunks.next (c : Chunks) : Option ((Nat × Nat) × Chunks) :=
  if c.index + c.width > c.n then none
  else
    let i := c.index
    let c' := { c with index := c.index + c.skip }
    if i + c.width > c.n then none else some ((i, i + c.width), c')

def collect : Nat → Chunks → List (Nat × Nat)
  | 0, _ => []
  | f+1, c => match c.next with
    | none => []
    | some (x, c') => x :: collect f c'

/-- windows from index i: generalised statement -/
theorem windows_from (n w i fuel : Nat) (hfuel : n + 1 ≤ fuel + i) :
    collect fuel ⟨n, w, 1, i⟩ = (List.range' i (n + 1 - w - i)).map (fun j => (j, j + w)) := by
  induction fuel generalizing i with
  | zero =>
    have : n + 1 - w - i = 0 := by omega
    simp [collect, this]
  | succ f ih =>
    simp only [collect, Chunks.next]
    by_cases h : i + w > n
    · have : n + 1 - w - i = 0 := by omega
      simp [h, this]
    · have h' : ¬ (i + w > n) := h
      simp only [h', if_false]
      rw [ih (i+1) (by omega)]
      have e : n + 1 - w - i = (n + 1 - w - (i+1)) + 1 := by omega
      rw [e, List.range'_succ]
      simp

theorem windows_spec (n w : Nat) :
    collect (n+1) ⟨n, w, 1, 0⟩ = (List.range (n + 1 - w)).map (fun j => (j, j + w)) := by
  rw [windows_from n w 0 (n+1) (by omega), List.range_eq_range']
  simp

/-- chunks from the j-th chunk on -/
theorem chunks_from (n w j fuel : Nat) (hw : 1 ≤ w) (hfuel : n / w + 1 ≤ fuel + j) :
    collect fuel ⟨n, w, w, j * w⟩ = (List.range' j (n / w - j)).map (fun k => (k * w, k * w + w)) := by
  induction fuel generalizing j with
  | zero =>
    have : n / w - j = 0 := by omega
    simp [collect, this]
  | succ f ih =>
    simp only [collect, Chunks.next]
    by_cases h : j * w + w > n
    · have hj : n / w ≤ j := by
        apply Nat.le_of_lt_succ
        rw [Nat.div_lt_iff_lt_mul (by omega)]
        rw [Nat.succ_mul]; omega
      have : n / w - j = 0 := by omega
      simp [h, this]
    · have h' : ¬ (j * w + w > n) := h
      simp only [h', if_false]
      have hj : j < n / w := by
        rw [Nat.lt_div_iff_mul_lt (by omega)]
        have : (j + 1) * w ≤ n := by rw [Nat.succ_mul]; omega
        rw [Nat.succ_mul] at this
        omega
      have e1 : j * w + w = (j + 1) * w := by rw [Nat.succ_mul]
      rw [e1, ih (j+1) (by omega)]
      have e : n / w - j = (n / w - (j+1)) + 1 := by omega
      rw [e, List.range'_succ]
      simp [Nat.succ_mul]

end CH
