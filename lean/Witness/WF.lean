/- failing-input search for the codec well-formedness facts used by most properties -/
import BioSeq.Checks.WF
open BioSeq

def main : IO Unit := do
  for (pn, p) in [("debug", Profile.debug), ("release", Profile.release)] do
    let tabs : List (String × Codec × List (Option Nat)) := match p with
      | .debug => [("dna", Gen.dna_debug, Gen.dna_debug_tryFromAscii), ("iupac", Gen.iupac_debug, Gen.iupac_debug_tryFromAscii),
          ("amino", Gen.amino_debug, Gen.amino_debug_tryFromAscii), ("text", Gen.text_debug, Gen.text_debug_tryFromAscii),
          ("mdna", Gen.mdna_debug, Gen.mdna_debug_tryFromAscii), ("miupac", Gen.miupac_debug, Gen.miupac_debug_tryFromAscii),
          ("deg", Gen.deg_debug, Gen.deg_debug_tryFromAscii)]
      | .release => [("dna", Gen.dna_release, Gen.dna_release_tryFromAscii), ("iupac", Gen.iupac_release, Gen.iupac_release_tryFromAscii),
          ("amino", Gen.amino_release, Gen.amino_release_tryFromAscii), ("text", Gen.text_release, Gen.text_release_tryFromAscii),
          ("mdna", Gen.mdna_release, Gen.mdna_release_tryFromAscii), ("miupac", Gen.miupac_release, Gen.miupac_release_tryFromAscii),
          ("deg", Gen.deg_release, Gen.deg_release_tryFromAscii)]
    for (n, c, t) in tabs do
      for w in (wfFailures c t).take 5 do
        IO.println s!"WITNESS codec={n} profile={pn} : {w}"
