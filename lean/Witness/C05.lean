/- failing-input search for C05: prints the offending table entries of the extracted graphs -/
import BioSeq.Checks.C05
open BioSeq

def profName : Profile → String | .debug => "debug" | .release => "release"

def main : IO Unit := do
  for p in [Profile.debug, Profile.release] do
    let cs : List (String × Codec × List Spec.SymSpec) := [
      ("dna", Gen.dna p, Spec.dna), ("text", Gen.text p, Spec.text), ("deg", Gen.deg p, Spec.deg),
      ("iupac", Gen.iupac p, Spec.ofDecl? Gen.decl_iupac), ("amino", Gen.amino p, Spec.ofDecl? Gen.decl_amino),
      ("mdna", Gen.mdna p, Spec.ofDecl? Gen.decl_mdna), ("miupac", Gen.miupac p, Spec.ofDecl? Gen.decl_miupac)]
    for (n, c, spec) in cs do
      for (what, b) in (C05.failures c spec).take 6 do
        IO.println s!"WITNESS codec={n} profile={profName p} input={b} : {what}"
    for b in (C05.iupacSetFailures (Gen.iupac p)).take 4 do
      IO.println s!"WITNESS codec=iupac profile={profName p} code={b} : code is not the one-hot code of its letter's nucleotide set"
    for b in (C05.aminoCodonFailures (Gen.amino p)).take 4 do
      IO.println s!"WITNESS codec=amino profile={profName p} bits={b} : decoding differs from the standard genetic code"
    for (n, c) in [("dna", Gen.dna p), ("iupac", Gen.iupac p), ("mdna", Gen.mdna p), ("miupac", Gen.miupac p), ("deg", Gen.deg p)] do
      for b in (C05.compFailures c).take 4 do
        IO.println s!"WITNESS codec={n} profile={profName p} symbol={b} : complement is not the documented pair"
    for b in (C05.iupacCompSetFailures (Gen.iupac p)).take 4 do
      IO.println s!"WITNESS codec=iupac profile={profName p} symbol={b} : complement is not the complement of each member"
