/-
  The *default* methods of `core::iter::Iterator`, as the standard library defines them in terms of
  `next`, over the step-function model of `BioSeq/Iter.lean` (`next : σ → Option (α × σ)`).

  The crate's iterators (`SeqIter`, `RevIter`, `SeqChunks`, `KmerIter`) implement `next` only, so
  these defaults are what runs when a caller writes `.nth(n)`, `.count()`, `.last()`, `.fold(..)`,
  `.skip(n)`, `.take(n)`, `.step_by(k)`.  `BioSeq/Props/C11Std.lean` proves that each of them is a
  function of the list that `collect` yields ("list + cursor position"); an override that deviates
  from that (a wrong `nth`, `count`, `last`, `fold`, …) is a deviation from this model.

  Conventions of the step-function model (as in `Iter.lean`):
  * a `none` step carries no successor state: the state is unchanged by it (in the Rust source every
    `return None` of the four iterators precedes the index update);
  * loops that run "until `None`" (`fold`, and `count` / `last` which std defines through `fold`)
    are fuel bounded like `Iter.collect`; `Fused` below provides the measure that makes a fuel
    sufficient, and `C11Std` proves that every sufficient fuel gives the same answer.

  std sources mirrored here (library/core/src/iter):
  * `Iterator::advance_by`:  `for i in 0..n { if self.next().is_none() { return Err(n - i) } } Ok(())`
  * `Iterator::nth`:         `self.advance_by(n).ok()?; self.next()`
  * `Iterator::fold`:        `let mut a = init; while let Some(x) = self.next() { a = f(a, x) } a`
  * `Iterator::count`:       `self.fold(0, |c, _| c + 1)`
  * `Iterator::last`:        `self.fold(None, |_, x| Some(x))`
  * `Skip::next`:            `if self.n > 0 { self.iter.nth(take(&mut self.n)) } else { self.iter.next() }`
  * `Take::next`:            `if self.n != 0 { self.n -= 1; self.iter.next() } else { None }`
  * `StepBy::next`:          `let k = if self.first_take { 0 } else { self.step_minus_one };
                               self.first_take = false; self.iter.nth(k)`
-/
import BioSeq.Iter
import BioSeq.Kmer
namespace BioSeq
namespace Iter

variable {σ : Type} {α : Type} {β : Type}

/-! ### by-reference methods: `advance_by`, `nth` -/

/-- the state after `n` calls of `next`, stopping at the first `none` (`advance_by(n)`, state only) -/
def advance (next : σ → Option (α × σ)) : Nat → σ → σ
  | 0, s => s
  | n+1, s => match next s with
    | none => s
    | some (_, s') => advance next n s'

/-- `Iterator::advance_by(n)`: `true` for `Ok(())`, `false` when a `None` was met first -/
def advanceBy (next : σ → Option (α × σ)) : Nat → σ → Bool × σ
  | 0, s => (true, s)
  | n+1, s => match next s with
    | none => (false, s)
    | some (_, s') => advanceBy next n s'

/-- `Iterator::nth(n)`: up to `n + 1` calls of `next`; the first `none` ends it (result `none`,
    and the state reached); otherwise the item of call `n + 1` -/
def nthD (next : σ → Option (α × σ)) : Nat → σ → Option α × σ
  | 0, s => match next s with
    | none => (none, s)
    | some (x, s') => (some x, s')
  | n+1, s => match next s with
    | none => (none, s)
    | some (_, s') => nthD next n s'

/-- `nth` literally as std writes it: `advance_by(n).ok()?; next()` (proved equal to `nthD`) -/
def nthStd (next : σ → Option (α × σ)) (n : Nat) (s : σ) : Option α × σ :=
  match advanceBy next n s with
  | (false, s') => (none, s')
  | (true, s') => match next s' with
    | none => (none, s')
    | some (x, s'') => (some x, s'')

/-! ### consuming methods: `fold`, `count`, `last` -/

/-- `Iterator::fold(init, f)` -/
def foldD (next : σ → Option (α × σ)) : Nat → (β → α → β) → β → σ → β
  | 0, _, init, _ => init
  | fuel+1, f, init, s => match next s with
    | none => init
    | some (x, s') => foldD next fuel f (f init x) s'

/-- `Iterator::count()` = `fold(0, |c, _| c + 1)` -/
def countD (next : σ → Option (α × σ)) (fuel : Nat) (s : σ) : Nat :=
  foldD next fuel (fun c _ => c + 1) 0 s

/-- `Iterator::last()` = `fold(None, |_, x| Some(x))` -/
def lastD (next : σ → Option (α × σ)) (fuel : Nat) (s : σ) : Option α :=
  foldD next fuel (fun _ x => some x) none s

/-! ### adapters: `skip`, `take`, `step_by` (again step functions, so every method above applies)

  On a `none` step the std adapters still update their own counters (`Skip` zeroes `n`, `Take`
  decrements `n`, `StepBy` clears `first_take`) and the inner iterator has been driven to its
  end; in this model a `none` step leaves the whole adapter state as it was.  Because the inner
  iterator keeps returning `none` (`Fused`), both versions return `none` on every later call, so
  the difference is not observable.  `collect` here is the plain `while let Some(x) = it.next()`
  loop; std's internal specialisations of `collect`/`fold` for these adapters are std's business. -/

/-- `Skip::next`; state = (`n`, inner state) -/
def skipNext (next : σ → Option (α × σ)) : Nat × σ → Option (α × (Nat × σ))
  | (n, s) =>
    if n > 0 then
      match nthD next n s with
      | (none, _) => none
      | (some x, s') => some (x, (0, s'))
    else
      match next s with
      | none => none
      | some (x, s') => some (x, (0, s'))

/-- `Take::next`; state = (`n`, inner state) -/
def takeNext (next : σ → Option (α × σ)) : Nat × σ → Option (α × (Nat × σ))
  | (n, s) =>
    if n ≠ 0 then
      match next s with
      | none => none
      | some (x, s') => some (x, (n - 1, s'))
    else none

/-- `StepBy::next` for `step_by(k)` (std asserts `k != 0` and stores `k - 1`);
    state = (`first_take`, inner state) -/
def stepByNext (next : σ → Option (α × σ)) (k : Nat) : Bool × σ → Option (α × (Bool × σ))
  | (first, s) =>
    match nthD next (if first then 0 else k - 1) s with
    | (none, _) => none
    | (some x, s') => some (x, (false, s'))

/-- `it.skip(n).collect()` -/
def skipCollect (next : σ → Option (α × σ)) (fuel n : Nat) (s : σ) : List α :=
  collect (skipNext next) fuel (n, s)

/-- `it.take(n).collect()` -/
def takeCollect (next : σ → Option (α × σ)) (fuel n : Nat) (s : σ) : List α :=
  collect (takeNext next) fuel (n, s)

/-- `it.step_by(k).collect()` -/
def stepByCollect (next : σ → Option (α × σ)) (fuel k : Nat) (s : σ) : List α :=
  collect (stepByNext next k) fuel (true, s)

/-! ### termination measure / fusedness -/

/-- `Fused next μ Inv`: on the states satisfying the invariant `Inv` (default: all states),
    * `Inv` is preserved by every `some` step,
    * the measure `μ` strictly decreases on every `some` step (so after at most `μ s` items `next`
      returns `none`: fuel `μ s`, a fortiori `μ s + 1`, always suffices),
    * once `next s = none`, the state reached by any further driving is `s` itself and `next`
      keeps returning `none` there (`FusedIterator`).
    The third field is a consequence of the model's convention that a `none` step does not move
    the state (`Fused.of_decr` in `IterStdLemmas` derives it); it is kept as a field so that the
    predicate says what the name says. -/
structure Fused (next : σ → Option (α × σ)) (μ : σ → Nat) (Inv : σ → Prop := fun _ => True) : Prop where
  inv : ∀ s x s', Inv s → next s = some (x, s') → Inv s'
  decr : ∀ s x s', Inv s → next s = some (x, s') → μ s' < μ s
  stuck : ∀ s, next s = none → ∀ n, advance next n s = s ∧ next (advance next n s) = none

/-- the list the iterator yields from state `s` (fuel `μ s + 1`) -/
def toList (next : σ → Option (α × σ)) (μ : σ → Nat) (s : σ) : List α :=
  collect next (μ s + 1) s

/-! ### a driver for arbitrary sequences of by-reference calls, and its list specification -/

/-- the calls that leave the iterator usable (`&mut self` methods) -/
inductive Cmd
  | next
  | nth (n : Nat)
  | advanceBy (n : Nat)
  deriving DecidableEq, Repr

/-- what a call returns -/
inductive Out (α : Type)
  | item (x : Option α)
  | adv (ok : Bool)
  deriving DecidableEq, Repr

/-- run one call on the concrete iterator -/
def runCmd (next : σ → Option (α × σ)) : Cmd → σ → Out α × σ
  | .next, s => match next s with
    | none => (.item none, s)
    | some (x, s') => (.item (some x), s')
  | .nth n, s => let r := nthD next n s; (.item r.1, r.2)
  | .advanceBy n, s => let r := advanceBy next n s; (.adv r.1, r.2)

/-- run a sequence of calls, collecting what they return -/
def runCmds (next : σ → Option (α × σ)) : List Cmd → σ → List (Out α) × σ
  | [], s => ([], s)
  | c :: cs, s =>
    let r := runCmd next c s
    let rs := runCmds next cs r.2
    (r.1 :: rs.1, rs.2)

/-- the abstract specification: the same call on "the list of remaining items" -/
def specCmd : Cmd → List α → Out α × List α
  | .next, l => (.item l.head?, l.drop 1)
  | .nth n, l => (.item l[n]?, l.drop (n + 1))
  | .advanceBy n, l => (.adv (decide (n ≤ l.length)), l.drop n)

def specCmds : List Cmd → List α → List (Out α) × List α
  | [], l => ([], l)
  | c :: cs, l =>
    let r := specCmd c l
    let rs := specCmds cs r.2
    (r.1 :: rs.1, rs.2)

/-- countdown helper of `everyNth`: skip `c` items, keep one, then skip `k - 1` between keeps -/
def everyNthAux (k : Nat) : Nat → List α → List α
  | _, [] => []
  | 0, x :: xs => x :: everyNthAux k (k - 1) xs
  | c+1, _ :: xs => everyNthAux k c xs

/-- the items at indices `0, k, 2k, …` of a list (list specification of `step_by(k)`, `k ≥ 1`;
    `C11Std.everyNth_getElem?` : `(everyNth k l)[j]? = l[j * k]?`) -/
def everyNth (k : Nat) (l : List α) : List α := everyNthAux k 0 l

/-- the refinement relation: "state `s` of the iterator stands in front of the items `l`".
    `B` bounds the measure, so that every fuel `≥ B` drains the iterator from `s` and from every
    state reached later. -/
structure Cursor (next : σ → Option (α × σ)) (μ : σ → Nat) (Inv : σ → Prop) (B : Nat)
    (s : σ) (l : List α) : Prop where
  fused : Fused next μ Inv
  inv : Inv s
  bound : μ s ≤ B
  list : toList next μ s = l

end Iter
end BioSeq
