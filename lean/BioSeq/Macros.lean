/-
  Model of the literal macros `dna!`, `iupac!`, `kmer!` (bio-seq-derive/src/lib.rs,
  seqarray.rs; bio-seq/src/seq/array.rs; kmer.rs).  The per-character bit lists are the
  extracted tables `Gen.macro_dna_* / macro_iupac_*` (`dna_seq` / `iupac_seq` evaluated on
  every one-character ASCII literal).
-/
import BioSeq.Kmer
import BioSeq.Generated.MacroTables
namespace BioSeq
namespace Macros

inductive MacroErr
  | nonAscii
  | invalid (pos : Nat) (cp : Nat)
  deriving DecidableEq, Repr

abbrev CharTable := List (Option (Nat × List Bool))

def charEntry (t : CharTable) (cp : Nat) : Option (Nat × List Bool) := (t.getD cp none)

/-- the loop of `dna_seq` / `iupac_seq`: per character, append its bits, count one base;
    the first character outside the table is the error -/
def seqLoop (t : CharTable) : Nat → List Nat → Nat × Bits → Except MacroErr (Nat × Bits)
  | _, [], acc => .ok acc
  | pos, cp :: rest, (n, bits) =>
    match charEntry t cp with
    | some (k, b) => seqLoop t (pos + 1) rest (n + k, bits ++ b)
    | none => .error (.invalid pos cp)

/-- `dna!(lit)` / `iupac!(lit)`: ASCII check, then the loop; the value is a `SeqArray<_, N, W>`
    whose deref is the first `N * BITS` bits of the bit array -/
def macroSeq (t : CharTable) (width : Nat) (cps : List Nat) : Except MacroErr (Nat × Bits) :=
  if cps.any (fun c => decide (c ≥ 128)) then .error .nonAscii
  else match seqLoop t 0 cps (0, []) with
    | .ok (n, bits) => .ok (n, bits.take (n * width))
    | .error e => .error e

/-- `kmer!(lit)` / `kmer!(lit, S)`: `Kmer::<Dna, {lit.len()}, S>::unsafe_from_seqslice(dna!(lit))` -/
def macroKmer (p : Profile) (c : Codec) (t : CharTable) (st : Storage) (cps : List Nat) : Except MacroErr (Res Nat) :=
  match macroSeq t c.width cps with
  | .ok (_, bits) => .ok (Kmer.unsafeFrom p c cps.length st bits)
  | .error e => .error e

def dnaTable : Profile → CharTable
  | .debug => Gen.macro_dna_debug
  | .release => Gen.macro_dna_release

def iupacTable : Profile → CharTable
  | .debug => Gen.macro_iupac_debug
  | .release => Gen.macro_iupac_release

end Macros
end BioSeq
