/- GENERATED on every run by tools/gen_lean.py from the compiled crate. Do not edit. -/

namespace BioSeq.Gen

structure VariantDecl where
  ident : String
  disc : Option Nat
  display : Option Nat
  alts : List Nat
  deriving Repr, DecidableEq

structure EnumDecl where
  name : String
  bits : Option Nat
  variants : List VariantDecl
  deriving Repr, DecidableEq

def decl_iupac : Option EnumDecl := some { name := "Iupac", bits := some 4, variants := [
  { ident := "A", disc := some 8, display := none, alts := [] },
  { ident := "C", disc := some 4, display := none, alts := [] },
  { ident := "G", disc := some 2, display := none, alts := [] },
  { ident := "T", disc := some 1, display := none, alts := [] },
  { ident := "R", disc := some 10, display := none, alts := [] },
  { ident := "Y", disc := some 5, display := none, alts := [] },
  { ident := "S", disc := some 6, display := none, alts := [] },
  { ident := "W", disc := some 9, display := none, alts := [] },
  { ident := "K", disc := some 3, display := none, alts := [] },
  { ident := "M", disc := some 12, display := none, alts := [] },
  { ident := "B", disc := some 7, display := none, alts := [] },
  { ident := "D", disc := some 11, display := none, alts := [] },
  { ident := "H", disc := some 13, display := none, alts := [] },
  { ident := "V", disc := some 14, display := none, alts := [] },
  { ident := "N", disc := some 15, display := none, alts := [] },
  { ident := "X", disc := some 0, display := some 45, alts := [] }] }
def decl_amino : Option EnumDecl := some { name := "Amino", bits := some 6, variants := [
  { ident := "A", disc := some 6, display := none, alts := [54, 22, 38] },
  { ident := "C", disc := some 27, display := none, alts := [59] },
  { ident := "D", disc := some 18, display := none, alts := [50] },
  { ident := "E", disc := some 2, display := none, alts := [34] },
  { ident := "F", disc := some 31, display := none, alts := [63] },
  { ident := "G", disc := some 10, display := none, alts := [42, 26, 58] },
  { ident := "H", disc := some 17, display := none, alts := [49] },
  { ident := "I", disc := some 12, display := none, alts := [28, 60] },
  { ident := "K", disc := some 0, display := none, alts := [32] },
  { ident := "L", disc := some 13, display := none, alts := [15, 47, 61, 29, 45] },
  { ident := "M", disc := some 44, display := none, alts := [] },
  { ident := "N", disc := some 16, display := none, alts := [48] },
  { ident := "P", disc := some 5, display := none, alts := [21, 37, 53] },
  { ident := "Q", disc := some 1, display := none, alts := [33] },
  { ident := "R", disc := some 8, display := none, alts := [40, 57, 25, 9, 41] },
  { ident := "S", disc := some 24, display := none, alts := [55, 23, 7, 39, 56] },
  { ident := "T", disc := some 4, display := none, alts := [52, 20, 36] },
  { ident := "V", disc := some 14, display := none, alts := [30, 62, 46] },
  { ident := "W", disc := some 43, display := none, alts := [] },
  { ident := "Y", disc := some 19, display := none, alts := [51] },
  { ident := "X", disc := some 3, display := some 42, alts := [11, 35] }] }
def decl_mdna : Option EnumDecl := some { name := "Dna", bits := some 4, variants := [
  { ident := "A", disc := some 8, display := none, alts := [] },
  { ident := "C", disc := some 4, display := none, alts := [] },
  { ident := "G", disc := some 2, display := none, alts := [] },
  { ident := "T", disc := some 1, display := none, alts := [] },
  { ident := "AMasked", disc := some 7, display := some 97, alts := [] },
  { ident := "CMasked", disc := some 11, display := some 99, alts := [] },
  { ident := "GMasked", disc := some 13, display := some 103, alts := [] },
  { ident := "TMasked", disc := some 14, display := some 116, alts := [] },
  { ident := "N", disc := some 0, display := none, alts := [] },
  { ident := "NMasked", disc := some 15, display := some 110, alts := [] },
  { ident := "Gap", disc := some 12, display := some 45, alts := [3] },
  { ident := "Pad", disc := some 10, display := some 46, alts := [5] },
  { ident := "Unknown1", disc := some 6, display := some 63, alts := [] },
  { ident := "Unknown2", disc := some 9, display := some 33, alts := [] }] }
def decl_miupac : Option EnumDecl := some { name := "Iupac", bits := some 5, variants := [
  { ident := "A", disc := some 16, display := none, alts := [] },
  { ident := "C", disc := some 8, display := none, alts := [] },
  { ident := "G", disc := some 2, display := none, alts := [] },
  { ident := "T", disc := some 1, display := none, alts := [] },
  { ident := "Y", disc := some 9, display := none, alts := [] },
  { ident := "R", disc := some 18, display := none, alts := [] },
  { ident := "W", disc := some 17, display := none, alts := [] },
  { ident := "S", disc := some 10, display := none, alts := [] },
  { ident := "K", disc := some 3, display := none, alts := [] },
  { ident := "M", disc := some 24, display := none, alts := [] },
  { ident := "D", disc := some 19, display := none, alts := [] },
  { ident := "V", disc := some 26, display := none, alts := [] },
  { ident := "H", disc := some 25, display := none, alts := [] },
  { ident := "B", disc := some 11, display := none, alts := [] },
  { ident := "N", disc := some 27, display := none, alts := [] },
  { ident := "X", disc := some 0, display := some 45, alts := [] },
  { ident := "AMasked", disc := some 20, display := some 97, alts := [] },
  { ident := "CMasked", disc := some 12, display := some 99, alts := [] },
  { ident := "GMasked", disc := some 6, display := some 103, alts := [] },
  { ident := "TMasked", disc := some 5, display := some 116, alts := [] },
  { ident := "YMasked", disc := some 13, display := some 121, alts := [] },
  { ident := "RMasked", disc := some 22, display := some 114, alts := [] },
  { ident := "WMasked", disc := some 21, display := some 119, alts := [] },
  { ident := "SMasked", disc := some 14, display := some 115, alts := [] },
  { ident := "KMasked", disc := some 7, display := some 107, alts := [] },
  { ident := "MMasked", disc := some 28, display := some 109, alts := [] },
  { ident := "DMasked", disc := some 23, display := some 100, alts := [] },
  { ident := "VMasked", disc := some 30, display := some 118, alts := [] },
  { ident := "HMasked", disc := some 29, display := some 104, alts := [] },
  { ident := "BMasked", disc := some 15, display := some 98, alts := [] },
  { ident := "NMasked", disc := some 31, display := some 110, alts := [] },
  { ident := "XMasked", disc := some 4, display := some 46, alts := [] }] }
def iupacAminoRows : Option (List (String × String)) := some [("GCN", "A"), ("TGY", "C"), ("GAY", "D"), ("GAR", "E"), ("TTY", "F"), ("GGN", "G"), ("CAY", "H"), ("ATH", "I"), ("AAR", "K"), ("CTN", "L"), ("TTR", "L"), ("CTY", "L"), ("YTR", "L"), ("ATG", "M"), ("AAY", "N"), ("CCN", "P"), ("CAR", "Q"), ("CGN", "R"), ("AGR", "R"), ("CGY", "R"), ("MGR", "R"), ("TCN", "S"), ("AGY", "S"), ("ACN", "T"), ("GTN", "V"), ("TGG", "W"), ("TAY", "Y"), ("TAR", "X"), ("TRA", "X")]
end BioSeq.Gen
