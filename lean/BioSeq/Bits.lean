/-
  Bit-level core of the model: `Bits = List Bool` stands for bitvec's
  `BitSlice<usize, Lsb0>` (index 0 = first bit).  Definitions and the basic
  algebra of packing `w`-bit little-endian chunks.  Core Lean only.
-/
namespace BioSeq

abbrev Bits := List Bool

/-- `w` little-endian bits of `n` (bitvec `store`, `view_bits::<Lsb0>()[..w]`). -/
def toBitsLE : Nat → Nat → Bits
  | 0, _ => []
  | w+1, n => (n % 2 == 1) :: toBitsLE w (n / 2)

/-- little-endian value of a bit list (bitvec `load_le`). -/
def ofBitsLE : Bits → Nat
  | [] => 0
  | b :: bs => (if b then 1 else 0) + 2 * ofBitsLE bs

/-- pack a list of codes, `w` bits each, symbol `i` at bits `[i*w, (i+1)*w)`. -/
def pack (w : Nat) (cs : List Nat) : Bits := cs.flatMap (toBitsLE w)

/-- read `n` chunks of `w` bits. -/
def unpack (w : Nat) : Nat → Bits → List Nat
  | 0, _ => []
  | n+1, bs => ofBitsLE (bs.take w) :: unpack w n (bs.drop w)

/-- the list of symbol codes held by an aligned bit string (abstraction function). -/
def syms (w : Nat) (bs : Bits) : List Nat := unpack w (bs.length / w) bs

/-- apply `f` to each of `n` consecutive `w`-bit chunks (`chunks_exact_mut(w)`). -/
def mapChunks (w : Nat) (f : Bits → Bits) : Nat → Bits → Bits
  | 0, _ => []
  | n+1, bs => f (bs.take w) ++ mapChunks w f n (bs.drop w)

/-! ### basic lemmas -/

@[simp] theorem length_toBitsLE (w n : Nat) : (toBitsLE w n).length = w := by
  induction w generalizing n with
  | zero => rfl
  | succ w ih => simp [toBitsLE, ih]

theorem ofBitsLE_toBitsLE (w n : Nat) (h : n < 2^w) : ofBitsLE (toBitsLE w n) = n := by
  induction w generalizing n with
  | zero => simp [toBitsLE, ofBitsLE] at *; omega
  | succ w ih =>
    have h2 : n / 2 < 2^w := by
      rw [Nat.pow_succ] at h; omega
    simp only [toBitsLE, ofBitsLE, ih _ h2]
    split <;> rename_i hb <;> simp at hb <;> omega

theorem ofBitsLE_lt (bs : Bits) : ofBitsLE bs < 2 ^ bs.length := by
  induction bs with
  | nil => simp [ofBitsLE]
  | cons b bs ih =>
    simp only [ofBitsLE, List.length_cons, Nat.pow_succ]
    split <;> omega

theorem toBitsLE_ofBitsLE (bs : Bits) : toBitsLE bs.length (ofBitsLE bs) = bs := by
  induction bs with
  | nil => rfl
  | cons b bs ih =>
    simp only [List.length_cons, toBitsLE, ofBitsLE]
    have h1 : ((if b = true then 1 else 0) + 2 * ofBitsLE bs) / 2 = ofBitsLE bs := by
      split <;> omega
    rw [h1, ih]
    congr 1
    cases b <;> simp <;> omega

/-- `toBitsLE` only looks at the value modulo `2^w`. -/
theorem toBitsLE_mod (w n : Nat) : toBitsLE w (n % 2^w) = toBitsLE w n := by
  induction w generalizing n with
  | zero => rfl
  | succ w ih =>
    simp only [toBitsLE]
    have h1 : n % 2 ^ (w + 1) % 2 = n % 2 := by
      rw [Nat.pow_succ, Nat.mul_comm]
      exact Nat.mod_mul_right_mod n 2 (2 ^ w)
    have h2 : n % 2 ^ (w + 1) / 2 = (n / 2) % 2 ^ w := by
      rw [Nat.pow_succ, Nat.mul_comm, Nat.mod_mul_right_div_self]
    rw [h1, h2, ih]

/-- taking a prefix of a wider little-endian view = the narrower view. -/
theorem take_toBitsLE (v w n : Nat) (h : w ≤ v) : (toBitsLE v n).take w = toBitsLE w n := by
  induction w generalizing v n with
  | zero => simp [toBitsLE]
  | succ w ih =>
    cases v with
    | zero => omega
    | succ v =>
      simp only [toBitsLE, List.take_succ_cons]
      rw [ih v (n/2) (by omega)]

theorem ofBitsLE_append (a b : Bits) : ofBitsLE (a ++ b) = ofBitsLE a + 2 ^ a.length * ofBitsLE b := by
  induction a with
  | nil => simp [ofBitsLE]
  | cons x a ih =>
    simp only [List.cons_append, ofBitsLE, ih, List.length_cons, Nat.pow_succ]
    rw [Nat.mul_add, ← Nat.mul_assoc, Nat.mul_comm 2 (2 ^ a.length)]
    omega

theorem ofBitsLE_inj (a b : Bits) (hl : a.length = b.length) (h : ofBitsLE a = ofBitsLE b) : a = b := by
  have ha := toBitsLE_ofBitsLE a
  have hb := toBitsLE_ofBitsLE b
  rw [← ha, ← hb, hl, h]

@[simp] theorem pack_nil (w : Nat) : pack w [] = [] := rfl

@[simp] theorem pack_cons (w c : Nat) (cs : List Nat) : pack w (c :: cs) = toBitsLE w c ++ pack w cs := by
  simp [pack]

theorem pack_append (w : Nat) (a b : List Nat) : pack w (a ++ b) = pack w a ++ pack w b := by
  simp [pack]

@[simp] theorem pack_length (w : Nat) (cs : List Nat) : (pack w cs).length = w * cs.length := by
  induction cs with
  | nil => simp
  | cons c cs ih => simp only [pack_cons, List.length_append, length_toBitsLE, List.length_cons, ih, Nat.mul_succ]; omega

theorem unpack_pack (w : Nat) (cs : List Nat) (h : ∀ c ∈ cs, c < 2^w) :
    unpack w cs.length (pack w cs) = cs := by
  induction cs with
  | nil => rfl
  | cons c cs ih =>
    have hc : c < 2^w := h c (by simp)
    have ih' := ih (fun x hx => h x (by simp [hx]))
    simp only [pack_cons, List.length_cons, unpack]
    rw [List.take_left' (length_toBitsLE w c), List.drop_left' (length_toBitsLE w c)]
    rw [ofBitsLE_toBitsLE w c hc, ih']

@[simp] theorem unpack_length (w n : Nat) (bs : Bits) : (unpack w n bs).length = n := by
  induction n generalizing bs with
  | zero => rfl
  | succ n ih => simp [unpack, ih]

/-- an aligned bit string is the packing of its chunks. -/
theorem pack_unpack (w n : Nat) (bs : Bits) (h : bs.length = w * n) : pack w (unpack w n bs) = bs := by
  induction n generalizing bs with
  | zero => simp at h; simp [unpack, h]
  | succ n ih =>
    simp only [unpack, pack_cons]
    have hl : (bs.take w).length = w := by
      rw [List.length_take, h, Nat.mul_succ]; omega
    have hd : (bs.drop w).length = w * n := by
      rw [List.length_drop, h, Nat.mul_succ]; omega
    rw [ih _ hd]
    have : toBitsLE w (ofBitsLE (bs.take w)) = bs.take w := by
      have := toBitsLE_ofBitsLE (bs.take w)
      rwa [hl] at this
    rw [this, List.take_append_drop]

theorem unpack_lt (w n : Nat) (bs : Bits) (h : bs.length = w * n) : ∀ c ∈ unpack w n bs, c < 2^w := by
  induction n generalizing bs with
  | zero => simp [unpack]
  | succ n ih =>
    intro c hc
    simp only [unpack, List.mem_cons] at hc
    have hl : (bs.take w).length = w := by
      rw [List.length_take, h, Nat.mul_succ]; omega
    rcases hc with rfl | hc
    · have := ofBitsLE_lt (bs.take w); rwa [hl] at this
    · exact ih (bs.drop w) (by rw [List.length_drop, h, Nat.mul_succ]; omega) c hc

theorem drop_pack (w : Nat) (cs : List Nat) (a : Nat) :
    (pack w cs).drop (w * a) = pack w (cs.drop a) := by
  induction a generalizing cs with
  | zero => simp
  | succ a ih =>
    cases cs with
    | nil => simp
    | cons c cs =>
      simp only [pack_cons, List.drop_succ_cons]
      rw [Nat.mul_succ, Nat.add_comm, ← List.drop_drop]
      rw [List.drop_left' (length_toBitsLE w c)]
      exact ih cs

theorem take_pack (w : Nat) (cs : List Nat) (a : Nat) :
    (pack w cs).take (w * a) = pack w (cs.take a) := by
  induction a generalizing cs with
  | zero => simp
  | succ a ih =>
    cases cs with
    | nil => simp
    | cons c cs =>
      simp only [pack_cons, List.take_succ_cons]
      rw [Nat.mul_succ, Nat.add_comm]
      rw [List.take_append, length_toBitsLE]
      have : (toBitsLE w c).take (w + w * a) = toBitsLE w c := by
        apply List.take_of_length_le; simp
      rw [this]
      congr 1
      have : w + w * a - w = w * a := by omega
      rw [this]; exact ih cs

/-- `syms` of a packing of in-range codes is the codes (1 ≤ w). -/
theorem syms_pack (w : Nat) (hw : 1 ≤ w) (cs : List Nat) (h : ∀ c ∈ cs, c < 2^w) :
    syms w (pack w cs) = cs := by
  unfold syms
  rw [pack_length, Nat.mul_div_cancel_left _ (by omega)]
  exact unpack_pack w cs h

theorem pack_syms (w : Nat) (hw : 1 ≤ w) (bs : Bits) (h : w ∣ bs.length) : pack w (syms w bs) = bs := by
  unfold syms
  obtain ⟨n, hn⟩ := h
  apply pack_unpack
  rw [hn, Nat.mul_div_cancel_left _ (by omega)]

theorem syms_lt (w : Nat) (hw : 1 ≤ w) (bs : Bits) (h : w ∣ bs.length) : ∀ c ∈ syms w bs, c < 2^w := by
  unfold syms
  obtain ⟨n, hn⟩ := h
  apply unpack_lt
  rw [hn, Nat.mul_div_cancel_left _ (by omega)]

@[simp] theorem syms_length (w : Nat) (bs : Bits) : (syms w bs).length = bs.length / w := by
  simp [syms]

theorem mapChunks_flatMap (w : Nat) (f : Bits → Bits) (xs : List Bits) (h : ∀ x ∈ xs, x.length = w) :
    mapChunks w f xs.length (xs.flatMap id) = xs.flatMap f := by
  induction xs with
  | nil => rfl
  | cons x xs ih =>
    have hx : x.length = w := h x (by simp)
    simp only [List.flatMap_cons, List.length_cons, mapChunks, id]
    rw [List.take_left' hx, List.drop_left' hx, ih (fun y hy => h y (by simp [hy]))]

/-- mapping a chunk function over a packing. -/
theorem mapChunks_pack (w : Nat) (f : Bits → Bits) (cs : List Nat) :
    mapChunks w f cs.length (pack w cs) = cs.flatMap (fun c => f (toBitsLE w c)) := by
  have h := mapChunks_flatMap w f (cs.map (toBitsLE w)) (by intro x hx; simp at hx; obtain ⟨a, _, rfl⟩ := hx; simp)
  simp only [List.length_map, List.flatMap_map, id] at h
  simpa [pack] using h

end BioSeq
