/-
  `CodecWF` for the seven extracted codecs in both build profiles (helper facts used by
  most property theorems).  Decided by the kernel over the whole tables, then lifted.
-/
import BioSeq.Lemmas.SeqLemmas
import BioSeq.Generated.Tables
namespace BioSeq

theorem lookup_mem (t : List (Option Nat)) (b s : Nat) (h : lookup t b = some s) : some s ∈ t := by
  unfold lookup at h
  rw [List.getD_eq_getElem?_getD] at h
  cases hb : t[b]? with
  | none => simp [hb] at h
  | some e =>
    simp [hb] at h
    rw [← h]
    exact List.mem_of_getElem? hb

def wfOk (c : Codec) (asciiTable : List (Option Nat)) : Bool :=
  decide (1 ≤ c.width) && decide (c.width ≤ 8)
  && asciiTable.all (fun e => match e with | none => true | some s => c.items.contains s)
  && c.items.all (fun s => decide (s < 2 ^ c.width))
  && c.items.all (fun s => c.unsafeFromBits s == some s)
  && c.items.all (fun s => c.tryFromAscii (c.toChar s) == some s)

theorem wf_of_ok (c : Codec) (t : List (Option Nat)) (ht : c.tryFromAscii = lookup t) (h : wfOk c t = true) :
    CodecWF c := by
  simp only [wfOk, Bool.and_eq_true, decide_eq_true_eq, List.all_eq_true, beq_iff_eq] at h
  obtain ⟨⟨⟨⟨⟨h1, h2⟩, h3⟩, h4⟩, h5⟩, h6⟩ := h
  refine ⟨h1, h2, ?_, h4, h5, h6⟩
  intro b s hb
  rw [ht] at hb
  have := h3 _ (lookup_mem t b s hb)
  simpa using this

theorem wf_dna (p : Profile) : CodecWF (Gen.dna p) := by
  cases p
  · exact wf_of_ok _ Gen.dna_debug_tryFromAscii rfl (by decide +kernel)
  · exact wf_of_ok _ Gen.dna_release_tryFromAscii rfl (by decide +kernel)
theorem wf_iupac (p : Profile) : CodecWF (Gen.iupac p) := by
  cases p
  · exact wf_of_ok _ Gen.iupac_debug_tryFromAscii rfl (by decide +kernel)
  · exact wf_of_ok _ Gen.iupac_release_tryFromAscii rfl (by decide +kernel)
theorem wf_amino (p : Profile) : CodecWF (Gen.amino p) := by
  cases p
  · exact wf_of_ok _ Gen.amino_debug_tryFromAscii rfl (by decide +kernel)
  · exact wf_of_ok _ Gen.amino_release_tryFromAscii rfl (by decide +kernel)
theorem wf_text (p : Profile) : CodecWF (Gen.text p) := by
  cases p
  · exact wf_of_ok _ Gen.text_debug_tryFromAscii rfl (by decide +kernel)
  · exact wf_of_ok _ Gen.text_release_tryFromAscii rfl (by decide +kernel)
theorem wf_mdna (p : Profile) : CodecWF (Gen.mdna p) := by
  cases p
  · exact wf_of_ok _ Gen.mdna_debug_tryFromAscii rfl (by decide +kernel)
  · exact wf_of_ok _ Gen.mdna_release_tryFromAscii rfl (by decide +kernel)
theorem wf_miupac (p : Profile) : CodecWF (Gen.miupac p) := by
  cases p
  · exact wf_of_ok _ Gen.miupac_debug_tryFromAscii rfl (by decide +kernel)
  · exact wf_of_ok _ Gen.miupac_release_tryFromAscii rfl (by decide +kernel)
theorem wf_deg (p : Profile) : CodecWF (Gen.deg p) := by
  cases p
  · exact wf_of_ok _ Gen.deg_debug_tryFromAscii rfl (by decide +kernel)
  · exact wf_of_ok _ Gen.deg_release_tryFromAscii rfl (by decide +kernel)

/-- every built-in codec, both profiles -/
theorem wf_all : ∀ c ∈ Gen.allCodecs, ∀ p, CodecWF (c p) := by
  intro c hc p
  simp only [Gen.allCodecs, List.mem_cons, List.mem_nil_iff, or_false] at hc
  rcases hc with rfl | rfl | rfl | rfl | rfl | rfl | rfl
  · exact wf_dna p
  · exact wf_iupac p
  · exact wf_amino p
  · exact wf_text p
  · exact wf_mdna p
  · exact wf_miupac p
  · exact wf_deg p

/-- failing-input search: which clause of `CodecWF` a codec violates -/
def wfFailures (c : Codec) (t : List (Option Nat)) : List String :=
  (if 1 ≤ c.width ∧ c.width ≤ 8 then [] else ["width outside 1..8"])
  ++ (t.filterMap fun e => match e with
      | none => none
      | some s => if c.items.contains s then none else some s!"try_from_ascii yields code {s} which is not in items()")
  ++ (c.items.filter (fun s => !decide (s < 2 ^ c.width))).map (fun s => s!"item code {s} does not fit the width")
  ++ (c.items.filter (fun s => c.unsafeFromBits s != some s)).map (fun s => s!"unsafe_from_bits({s}) is not the symbol with code {s}")
  ++ (c.items.filter (fun s => c.tryFromAscii (c.toChar s) != some s)).map (fun s => s!"display character of symbol {s} does not parse back to it")

end BioSeq
