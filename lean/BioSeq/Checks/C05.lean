/-
  Definitions and the lifting lemma for C05 (the theorems are in Props/C05.lean).
  C05 — every codec's tables are mutually consistent and match the documented alphabet.
  The tables are the function graphs extracted from the compiled crate on this run
  (both build profiles); the documented alphabets are `Spec/Alphabets.lean` and, for
  the derived codecs, the enum declarations parsed from the source (`Generated/Decls`).
  The domain is finite, so every statement is decided over the *whole* table by the
  kernel and lifted to the quantified form by `laws_of_ok`.
-/
import BioSeq.Spec.Alphabets
import BioSeq.Generated.Tables
namespace BioSeq
namespace C05
open Spec

/-- the C05 laws of one codec (in one build profile) against its documented table -/
structure Laws (c : Codec) (spec : List SymSpec) : Prop where
  /-- the symbol list is the documented one, in order -/
  items_eq : c.items = spec.map (·.code)
  /-- every code fits in the declared width -/
  fits : ∀ s ∈ spec, s.code < 2 ^ c.width
  /-- decoding a symbol's code gives the symbol back -/
  bits_rt : ∀ s ∈ spec, c.tryFromBits s.code = some s.code
  /-- so does every documented alternative code -/
  alts_rt : ∀ s ∈ spec, ∀ a ∈ s.altCodes, c.tryFromBits a = some s.code
  /-- the display character is the documented one and parses back to the symbol -/
  char_rt : ∀ s ∈ spec, c.toChar s.code = s.char ∧ c.tryFromAscii s.char = some s.code
  altchars_rt : ∀ s ∈ spec, ∀ a ∈ s.altChars, c.tryFromAscii a = some s.code
  /-- distinct symbols have distinct codes and distinct display characters -/
  codes_nodup : (spec.map (·.code)).Nodup
  chars_nodup : (spec.map (·.char)).Nodup
  /-- bit patterns outside the documented table are refused by `try_from_bits` -/
  bits_refused : ∀ b, b < 256 → ∀ x, c.tryFromBits b = some x →
    ∃ s ∈ spec, s.code = x ∧ (b = s.code ∨ b ∈ s.altCodes)
  /-- bytes outside the documented table are refused by `try_from_ascii` -/
  ascii_refused : ∀ b, b < 256 → ∀ x, c.tryFromAscii b = some x →
    ∃ s ∈ spec, s.code = x ∧ (b = s.char ∨ b ∈ s.altChars)
  /-- the unchecked decoders agree with the fallible ones wherever those succeed -/
  unsafe_bits : ∀ b, b < 256 → ∀ x, c.tryFromBits b = some x → c.unsafeFromBits b = some x
  unsafe_ascii : ∀ b, b < 256 → ∀ x, c.tryFromAscii b = some x → c.unsafeFromAscii b = some x

/-- executable form of `Laws`, evaluated by the kernel over the whole table -/
def lawsOk (c : Codec) (spec : List SymSpec) : Bool :=
  decide (c.items = spec.map (·.code))
  && spec.all (fun s => decide (s.code < 2 ^ c.width))
  && spec.all (fun s => c.tryFromBits s.code == some s.code)
  && spec.all (fun s => s.altCodes.all fun a => c.tryFromBits a == some s.code)
  && spec.all (fun s => c.toChar s.code == s.char && c.tryFromAscii s.char == some s.code)
  && spec.all (fun s => s.altChars.all fun a => c.tryFromAscii a == some s.code)
  && decide (spec.map (·.code)).Nodup
  && decide (spec.map (·.char)).Nodup
  && (List.range 256).all (fun b => match c.tryFromBits b with
      | none => true
      | some x => spec.any fun s => s.code == x && (b == s.code || s.altCodes.contains b))
  && (List.range 256).all (fun b => match c.tryFromAscii b with
      | none => true
      | some x => spec.any fun s => s.code == x && (b == s.char || s.altChars.contains b))
  && (List.range 256).all (fun b => match c.tryFromBits b with
      | none => true
      | some x => c.unsafeFromBits b == some x)
  && (List.range 256).all (fun b => match c.tryFromAscii b with
      | none => true
      | some x => c.unsafeFromAscii b == some x)

/-- witnesses for the failure search: (clause, offending byte / code) -/
def failures (c : Codec) (spec : List SymSpec) : List (String × Nat) :=
  (if c.items = spec.map (·.code) then [] else [("items differ from the documented symbol list", 0)])
  ++ (spec.filter (fun s => !decide (s.code < 2 ^ c.width))).map (fun s => ("code does not fit width", s.code))
  ++ (spec.filter (fun s => c.tryFromBits s.code != some s.code)).map (fun s => ("try_from_bits(code) is not the symbol", s.code))
  ++ (spec.flatMap fun s => (s.altCodes.filter fun a => c.tryFromBits a != some s.code).map fun a => ("documented alternative code does not decode to its symbol", a))
  ++ (spec.filter (fun s => !(c.toChar s.code == s.char && c.tryFromAscii s.char == some s.code))).map (fun s => ("display character wrong or does not parse back", s.code))
  ++ (spec.flatMap fun s => (s.altChars.filter fun a => c.tryFromAscii a != some s.code).map fun a => ("documented alternative character does not parse to its symbol", a))
  ++ (if (spec.map (·.code)).Nodup then [] else [("duplicate codes", 0)])
  ++ (if (spec.map (·.char)).Nodup then [] else [("duplicate display characters", 0)])
  ++ ((List.range 256).filter (fun b => match c.tryFromBits b with
      | none => false
      | some x => !(spec.any fun s => s.code == x && (b == s.code || s.altCodes.contains b)))).map (fun b => ("try_from_bits accepts a bit pattern outside the documented table", b))
  ++ ((List.range 256).filter (fun b => match c.tryFromAscii b with
      | none => false
      | some x => !(spec.any fun s => s.code == x && (b == s.char || s.altChars.contains b)))).map (fun b => ("try_from_ascii accepts a byte outside the documented table", b))
  ++ ((List.range 256).filter (fun b => match c.tryFromBits b with
      | none => false
      | some x => c.unsafeFromBits b != some x)).map (fun b => ("unsafe_from_bits disagrees with try_from_bits", b))
  ++ ((List.range 256).filter (fun b => match c.tryFromAscii b with
      | none => false
      | some x => c.unsafeFromAscii b != some x)).map (fun b => ("unsafe_from_ascii disagrees with try_from_ascii", b))

theorem laws_of_ok (c : Codec) (spec : List SymSpec) (h : lawsOk c spec = true) : Laws c spec := by
  simp only [lawsOk, Bool.and_eq_true, decide_eq_true_eq, List.all_eq_true, beq_iff_eq, List.mem_range] at h
  obtain ⟨⟨⟨⟨⟨⟨⟨⟨⟨⟨⟨h1, h2⟩, h3⟩, h4⟩, h5⟩, h6⟩, h7⟩, h8⟩, h9⟩, h10⟩, h11⟩, h12⟩ := h
  refine ⟨h1, h2, h3, h4, ?_, h6, h7, h8, ?_, ?_, ?_, ?_⟩
  · intro s hs; simpa using h5 s hs
  · intro b hb x hx
    have := h9 b hb
    rw [hx] at this
    simp only [List.any_eq_true, Bool.and_eq_true, beq_iff_eq, Bool.or_eq_true, List.contains_eq_mem,
      decide_eq_true_eq] at this
    obtain ⟨s, hs, h⟩ := this
    exact ⟨s, hs, h⟩
  · intro b hb x hx
    have := h10 b hb
    rw [hx] at this
    simp only [List.any_eq_true, Bool.and_eq_true, beq_iff_eq, Bool.or_eq_true, List.contains_eq_mem,
      decide_eq_true_eq] at this
    obtain ⟨s, hs, h⟩ := this
    exact ⟨s, hs, h⟩
  · intro b hb x hx
    have := h11 b hb
    rw [hx] at this
    simpa using this
  · intro b hb x hx
    have := h12 b hb
    rw [hx] at this
    simpa using this

/-- every 4-bit IUPAC code is the one-hot code of the nucleotide set of its letter -/
def iupacSetFailures (c : Codec) : List Nat :=
  c.items.filter fun s => s != Spec.setCode (Spec.iupacSet (c.toChar s))

/-- 6-bit amino codes are codons: a bit pattern decodes to an amino acid exactly when the
    standard genetic code assigns that amino acid (or stop) to the codon with that packed value -/
def aminoCodonFailures (c : Codec) : List Nat :=
  (List.range 256).filter fun b =>
    if b < 64 then (c.tryFromBits b).map c.toChar != some (Spec.aminoOfPacked b)
    else (c.tryFromBits b).isSome

/-- complements pair A-T, C-G (IUPAC-aware, case preserving) for every complementable codec -/
def compFailures (c : Codec) : List Nat :=
  c.items.filter fun s => (c.comp s).map c.toChar != some (Spec.compChar (c.toChar s))

/-- the complement of an IUPAC code is the code of the complemented set -/
def iupacCompSetFailures (c : Codec) : List Nat :=
  c.items.filter fun s =>
    (c.comp s) != some (Spec.setCode ((Spec.iupacSet (c.toChar s)).map fun b => Char.ofNat (Spec.compChar b.toNat)))

/-- the two build profiles agree on every fallible table -/
def profileDiffs (c : Profile → Codec) : List Nat :=
  (List.range 256).filter fun b =>
    (c .debug).tryFromBits b != (c .release).tryFromBits b || (c .debug).tryFromAscii b != (c .release).tryFromAscii b
    || (c .debug).toChar b != (c .release).toChar b

end C05
end BioSeq
