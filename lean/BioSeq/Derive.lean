/-
  Model of `#[derive(Codec)]` (bio-seq-derive/src/lib.rs `codec_derive`, codec.rs
  `parse_variants` / `parse_width`): from an enum declaration to the generated impl,
  with rustc's first-matching-arm semantics for the generated `match`es.
-/
import BioSeq.Codec
import BioSeq.Generated.Decls
namespace BioSeq
namespace Derive
open Gen (EnumDecl VariantDecl)

inductive DeriveErr
  | missingDiscriminant (ident : String)
  | widthTooSmall (min : Nat)
  | noVariants
  | panic
  deriving DecidableEq, Repr

/-- least `k` with `n ≤ 2^k`, i.e. `ceil(log2 n)` for `n ≥ 1` (fuel-bounded search; `n ≤ 256` here) -/
def clog2Go (n : Nat) : Nat → Nat → Nat
  | 0, k => k
  | fuel+1, k => if n ≤ 2 ^ k then k else clog2Go n fuel (k + 1)

def clog2 (n : Nat) : Nat := clog2Go n 9 0

/-- `parse_width(attrs, max_variant)`: `min_width = ceil(log2(max + 1))`; a declared `#[bits(n)]`
    below it is an error, otherwise it is taken as is -/
def parseWidth (declared : Option Nat) (maxDisc : Nat) : Except DeriveErr Nat :=
  let minW := clog2 (maxDisc + 1)
  match declared with
  | none => .ok minW
  | some w => if w < minW then .error (.widthTooSmall minW) else .ok w

/-- display byte of a variant: `#[display('c')]` (as `u8`), else the first byte of the identifier -/
def charRepr (v : VariantDecl) : Nat :=
  match v.display with
  | some c => c % 256
  | none => (v.ident.toList.headD 'A').toNat % 256

structure Parsed where
  idents : List String
  /-- match arms `pattern => variant discriminant`, in generation order: per variant its
      discriminant first, then its `#[alt]` literals -/
  bitArms : List (Nat × Nat)
  /-- arms `display byte => variant discriminant` -/
  charArms : List (Nat × Nat)
  /-- `to_char`: variant discriminant ↦ display byte -/
  toChars : List (Nat × Nat)
  discs : List Nat
  maxDisc : Nat

/-- `parse_variants` -/
def parseVariants : List VariantDecl → Except DeriveErr Parsed
  | [] => .ok ⟨[], [], [], [], [], 0⟩
  | v :: rest =>
    match v.disc with
    | none => .error (.missingDiscriminant v.ident)
    | some d =>
      if d > 255 then .error .panic else
      match parseVariants rest with
      | .error e => .error e
      | .ok r => .ok
        { idents := v.ident :: r.idents
          bitArms := (d, d) :: (v.alts.map fun a => (a, d)) ++ r.bitArms
          charArms := (charRepr v, d) :: r.charArms
          toChars := (d, charRepr v) :: r.toChars
          discs := d :: r.discs
          maxDisc := max d r.maxDisc }

/-- first matching arm of a generated `match` -/
def firstArm (arms : List (Nat × Nat)) (x : Nat) : Option Nat :=
  (arms.find? (fun a => a.1 == x)).map (·.2)

/-- the generated `impl Codec` -/
def derive (name : String) (d : EnumDecl) : Except DeriveErr Codec :=
  match parseVariants d.variants with
  | .error e => .error e
  | .ok r =>
    match parseWidth d.bits r.maxDisc with
    | .error e => .error e
    | .ok w => .ok
      { name := name
        width := w
        items := r.discs
        tryFromBits := fun b => if b < 256 then firstArm r.bitArms b else none
        unsafeFromBits := fun b => if b < 256 then firstArm r.bitArms b else none
        tryFromAscii := fun c => if c < 256 then firstArm r.charArms c else none
        unsafeFromAscii := fun c => if c < 256 then firstArm r.charArms c else none
        toChar := fun s => ((r.toChars.find? (fun a => a.1 == s)).map (·.2)).getD 0
        comp := fun _ => none
        mask := fun _ => none
        unmask := fun _ => none }

end Derive
end BioSeq
