/-
  The standard translation table as declared in translation/standard.rs: the 29
  `(iupac!("..."), Amino::X)` rows are read from the source on every run
  (`Generated/Decls.lean`) and packed here with the extracted IUPAC / amino tables.
-/
import BioSeq.Translation
import BioSeq.Generated.Tables
import BioSeq.Generated.Decls
namespace BioSeq
namespace Standard

/-- canonical code of the amino variant with this identifier (from the enum declaration) -/
def aminoCodeOfIdent (id : String) : Option Nat :=
  match Gen.decl_amino with
  | some d => match d.variants.find? (fun v => v.ident == id) with
    | some v => v.disc
    | none => none
  | none => none

def okOr {α} (d : α) : Res α → α
  | .ok a => a
  | .error _ => d

/-- the rows of `initialise_iupac_to_amino`, packed: (pattern bits, amino code) -/
def rows (p : Profile) : List (Bits × Nat) :=
  match Gen.iupacAminoRows with
  | none => []
  | some rs => rs.filterMap fun (pat, id) =>
    match Seq.parseBytes (Gen.iupac p) (pat.toList.map Char.toNat), aminoCodeOfIdent id with
    | .ok bs, some a => some (bs, a)
    | _, _ => none

def convTable (p : Profile) (target : String) : List (Nat × Nat) :=
  match p, target with
  | .debug, "iupac" => Gen.conv_debug_dnaIupac
  | .release, "iupac" => Gen.conv_release_dnaIupac
  | .debug, "text" => Gen.conv_debug_dnaText
  | .release, "text" => Gen.conv_release_dnaText
  | _, _ => []

/-- `Seq::<B>::from(&SeqSlice<A>)`: `slice.iter().map(Into::into).collect()` -/
def convert (p : Profile) (src dst : Codec) (table : List (Nat × Nat)) (bs : Bits) : Res Bits := do
  let ss ← Seq.iterSyms p src bs
  let ts ← ss.mapM fun s => match table.find? (·.1 == s) with
    | some e => (.ok e.2 : Res Nat)
    | none => .error .panic
  .ok (Seq.extend dst [] ts)

end Standard
end BioSeq
