/-
  Independent specification of the documented alphabets (part of the *statements*
  of C05/C12/C13/C20; written from the module docs, the README and the standard
  IUPAC / NCBI tables — not from the code's tables).
-/
import BioSeq.Codec
import BioSeq.Generated.Decls
namespace BioSeq
namespace Spec

/-- one documented symbol: canonical code, display character, documented
    alternative codes and documented alternative input characters. -/
structure SymSpec where
  code : Nat
  char : Nat
  altCodes : List Nat := []
  altChars : List Nat := []
  deriving Repr, DecidableEq

def ch (c : Char) : Nat := c.toNat

/-- `codec::dna`: "2-bit DNA representation: A: 00, C: 01, G: 10, T: 11" -/
def dna : List SymSpec := [⟨0, ch 'A', [], []⟩, ⟨1, ch 'C', [], []⟩, ⟨2, ch 'G', [], []⟩, ⟨3, ch 'T', [], []⟩]

/-- `codec::text`: the bytes A C G T N stand for themselves -/
def text : List SymSpec := [⟨65, 65, [], []⟩, ⟨67, 67, [], []⟩, ⟨71, 71, [], []⟩, ⟨84, 84, [], []⟩, ⟨78, 78, [], []⟩]

/-- `codec::degenerate`: S(trong) = 1 accepts S C G, W(eak) = 0 accepts W A T -/
def deg : List SymSpec := [⟨1, ch 'S', [], [ch 'C', ch 'G']⟩, ⟨0, ch 'W', [], [ch 'A', ch 'T']⟩]

/-- a derived codec is documented by its declaration: discriminant, `#[alt]`, `#[display]` or first letter -/
def ofDecl (d : Gen.EnumDecl) : List SymSpec :=
  d.variants.map fun v =>
    { code := v.disc.getD 0
      char := match v.display with
        | some c => c
        | none => (v.ident.toList.headD 'A').toNat
      altCodes := v.alts
      altChars := [] }

def ofDecl? : Option Gen.EnumDecl → List SymSpec
  | some d => ofDecl d
  | none => []

/-! ### IUPAC nucleotide sets (standard ambiguity codes) -/

/-- members of an IUPAC letter as a list over A C G T (upper or lower case; gap/other = empty) -/
def iupacSet (c : Nat) : List Char :=
  let u := if 97 ≤ c ∧ c ≤ 122 then c - 32 else c
  match Char.ofNat u with
  | 'A' => ['A'] | 'C' => ['C'] | 'G' => ['G'] | 'T' => ['T']
  | 'R' => ['A', 'G'] | 'Y' => ['C', 'T'] | 'S' => ['C', 'G'] | 'W' => ['A', 'T']
  | 'K' => ['G', 'T'] | 'M' => ['A', 'C']
  | 'B' => ['C', 'G', 'T'] | 'D' => ['A', 'G', 'T'] | 'H' => ['A', 'C', 'T'] | 'V' => ['A', 'C', 'G']
  | 'N' => ['A', 'C', 'G', 'T']
  | _ => []

/-- one-hot weight of a base in the 4-bit IUPAC code: A=8 C=4 G=2 T=1 -/
def oneHot : Char → Nat
  | 'A' => 8 | 'C' => 4 | 'G' => 2 | 'T' => 1 | _ => 0

def setCode (s : List Char) : Nat := (s.map oneHot).foldl (· + ·) 0

/-- Watson-Crick complement on letters (IUPAC-aware, case preserving); other characters are fixed -/
def compChar (c : Nat) : Nat :=
  let lower := 97 ≤ c ∧ c ≤ 122
  let u := if lower then c - 32 else c
  let r := match Char.ofNat u with
    | 'A' => 'T' | 'T' => 'A' | 'C' => 'G' | 'G' => 'C'
    | 'R' => 'Y' | 'Y' => 'R' | 'K' => 'M' | 'M' => 'K'
    | 'B' => 'V' | 'V' => 'B' | 'D' => 'H' | 'H' => 'D'
    | x => x
  if lower then r.toNat + 32 else r.toNat

/-! ### the standard genetic code (NCBI translation table 1) -/

/-- amino letters in NCBI order: bases T C A G, first base slowest -/
def ncbi : List Char := "FFLLSSSSYY**CC*WLLLLPPPPHHQQRRRRIIIMTTTTNNKKSSRRVVVVAAAADDEEGGGG".toList

/-- index of a 2-bit DNA code (A0 C1 G2 T3) in NCBI's T C A G order -/
def tcag : Nat → Nat
  | 0 => 2 | 1 => 1 | 2 => 3 | _ => 0

/-- amino letter of the codon `b0 b1 b2` (2-bit DNA codes) -/
def aminoOf (b0 b1 b2 : Nat) : Nat := (ncbi.getD (16 * tcag b0 + 4 * tcag b1 + tcag b2) '?').toNat

/-- amino letter of a packed codon value `v = b0 + 4*b1 + 16*b2` (the layout of C04) -/
def aminoOfPacked (v : Nat) : Nat := aminoOf (v % 4) (v / 4 % 4) (v / 16 % 4)

end Spec
end BioSeq
