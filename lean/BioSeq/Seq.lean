/-
  Model of `Seq<A>` / `&SeqSlice<A>` (bio-seq/src/seq.rs, seq/slice.rs,
  seq/index.rs).  Both are modelled by their bit content `Bits`; an owned
  sequence additionally has a raw word image.  Every function is named after
  the Rust item it mirrors and follows its control flow.
-/
import BioSeq.Codec
namespace BioSeq

/-! ### bitvec primitives (documented semantics, assumed) -/

/-- `&bs[s..e]`: panics unless `s ≤ e ≤ len`. -/
def bitRange (bs : Bits) (s e : Nat) : Res Bits :=
  if s ≤ e ∧ e ≤ bs.length then .ok ((bs.take e).drop s) else .error .panic

/-- `load_le::<M>()` for an `mbits`-bit integer: panics on an empty or too long slice. -/
def loadLE (mbits : Nat) (bs : Bits) : Res Nat :=
  if 1 ≤ bs.length ∧ bs.length ≤ mbits then .ok (ofBitsLE bs) else .error .panic

/-- `lhs &= rhs` / `lhs |= rhs` on bit-slices: result has the length of `lhs`,
    `rhs` is zero-extended (bitvec `sp_bitop_assign`). -/
def bitop (f : Bool → Bool → Bool) : Bits → Bits → Bits
  | [], _ => []
  | x :: xs, [] => f x false :: bitop f xs []
  | x :: xs, y :: ys => f x y :: bitop f xs ys

/-- monadic `chunks_exact_mut(w)` loop: `n` chunks, then the untouched remainder. -/
def mapChunksM (w : Nat) (f : Bits → Res Bits) : Nat → Bits → Res Bits
  | 0, bs => .ok bs
  | n+1, bs => do
    let c ← f (bs.take w)
    let rest ← mapChunksM w f n (bs.drop w)
    .ok (c ++ rest)

/-- words of the raw image: 64-bit little-endian words covering the bits (dead bits = 0). -/
def wordsOf : Nat → Bits → List Nat
  | 0, _ => []
  | n+1, bs => ofBitsLE (bs.take 64) :: wordsOf n (bs.drop 64)

/-- `BitVec::from_slice(words)` -/
def bitsOfWords (ws : List Nat) : Bits := ws.flatMap (toBitsLE 64)

namespace Seq

/-- `SeqSlice::len` -/
def len (c : Codec) (bs : Bits) : Nat := bs.length / c.width

/-- the seven `Index` impls of seq/index.rs -/
inductive RangeForm
  | range | rangeTo | rangeToIncl | rangeIncl | rangeFrom | full | single
  deriving DecidableEq, Repr

def index (p : Profile) (c : Codec) (bs : Bits) (f : RangeForm) (a b : Nat) : Res Bits :=
  match f with
  | .range => do
    let s ← umul p a c.width; let e ← umul p b c.width; bitRange bs s e
  | .rangeTo => do
    let e ← umul p b c.width; bitRange bs 0 e
  | .rangeToIncl => do
    let b1 ← uadd p b 1; let e ← umul p b1 c.width; bitRange bs 0 e
  | .rangeIncl => do
    let s ← umul p a c.width; let b1 ← uadd p b 1; let e ← umul p b1 c.width; bitRange bs s e
  | .rangeFrom => do
    let s ← umul p a c.width; bitRange bs s bs.length
  | .full => .ok bs
  | .single => do
    let s ← umul p a c.width; let e ← uadd p s c.width; bitRange bs s e

/-- `From<&SeqSlice> for u8` -/
def toU8 (bs : Bits) : Res Nat := loadLE 8 bs

/-- `TryFrom<&SeqSlice> for usize` -/
def toUsize (bs : Bits) : Res Nat :=
  if bs.length ≤ 64 then loadLE 64 bs else .error .sequenceTooLong

/-- `From<Seq> for usize` -/
def ownedToUsize (bs : Bits) : Res Nat := loadLE 64 bs

/-- `A::unsafe_from_bits(self[i].into())` -/
def nth (p : Profile) (c : Codec) (bs : Bits) (i : Nat) : Res Nat := do
  let ch ← index p c bs .single i 0
  let v ← toU8 ch
  optToRes (c.unsafeFromBits v)

/-- `SeqSlice::get` -/
def get (p : Profile) (c : Codec) (bs : Bits) (i : Nat) : Res (Option Nat) :=
  if i ≥ len c bs then .ok none else (nth p c bs i).map some

/-- the symbols yielded by `iter()` / `into_iter()` -/
def iterSyms (p : Profile) (c : Codec) (bs : Bits) : Res (List Nat) :=
  (List.range (len c bs)).mapM (nth p c bs)

/-- the symbols yielded by `rev_iter()` -/
def revIterSyms (p : Profile) (c : Codec) (bs : Bits) : Res (List Nat) :=
  (List.range (len c bs)).reverse.mapM (nth p c bs)

/-- `String::from(&SeqSlice)` / `Display`: code points -/
def display (p : Profile) (c : Codec) (bs : Bits) : Res (List Nat) :=
  (iterSyms p c bs).map (·.map c.toChar)

/-- `Seq::push` -/
def push (c : Codec) (bs : Bits) (sym : Nat) : Bits := bs ++ (toBitsLE 8 sym).take c.width

/-- `Seq::extend` / `FromIterator<A>` -/
def extend (c : Codec) (bs : Bits) (syms : List Nat) : Bits := syms.foldl (push c) bs

/-- `TryFrom<Vec<u8>>`: map `try_from_ascii`, short-circuiting collect. -/
def parseBytes (c : Codec) (bytes : List Nat) : Res Bits :=
  bytes.foldlM (fun acc b => match c.tryFromAscii b with
    | some s => .ok (push c acc s)
    | none => .error (.unrecognisedBase b)) []

/-- `Seq::trim_u8` -/
def trim (c : Codec) (v : List Nat) : Res Bits :=
  let ok := fun b => (c.tryFromAscii b).isSome
  let start := (v.findIdx? ok).getD v.length
  let tail := v.drop start
  -- rposition over v[start..]
  let endRel := match (tail.reverse.findIdx? ok) with
    | some j => tail.length - j
    | none => 0
  parseBytes c (tail.take endRel)

def append (bs other : Bits) : Bits := bs ++ other
def prepend (bs other : Bits) : Bits := other ++ bs

/-- `Seq::insert` -/
def insert (p : Profile) (c : Codec) (bs : Bits) (i : Nat) (other : Bits) : Res Bits :=
  if i ≤ len c bs then do
    let k ← umul p i c.width
    let pre ← bitRange bs 0 k
    let post ← bitRange bs k bs.length
    .ok (pre ++ other ++ post)
  else .error .panic

inductive Bound | incl (n : Nat) | excl (n : Nat) | unb
  deriving DecidableEq, Repr

/-- `Seq::bit_range` followed by `drain` -/
def remove (p : Profile) (c : Codec) (bs : Bits) (sb eb : Bound) : Res Bits := do
  let s ← match sb with
    | .incl n => pure n
    | .excl n => uadd p n 1
    | .unb => pure 0
  let e ← match eb with
    | .incl n => uadd p n 1
    | .excl n => pure n
    | .unb => pure (len c bs)
  -- debug_assert!(s <= e); debug_assert!(e <= len)
  if p = .debug ∧ ¬ (s ≤ e ∧ e ≤ len c bs) then .error .panic else do
  let sbit ← umul p s c.width
  let ebit ← umul p e c.width
  -- drain(s..e) asserts the range
  if sbit ≤ ebit ∧ ebit ≤ bs.length then .ok (bs.take sbit ++ bs.drop ebit) else .error .panic

/-- `Seq::truncate` -/
def truncate (p : Profile) (c : Codec) (bs : Bits) (n : Nat) : Res Bits := do
  let k ← umul p n c.width
  .ok (bs.take k)

/-- `Seq::from_raw` -/
def fromRaw (c : Codec) (n : Nat) (ws : List Nat) : Option Bits :=
  let bv := bitsOfWords ws
  if n * c.width < W64 ∧ n * c.width ≤ bv.length then some (bv.take (n * c.width)) else none

/-- `Seq::into_raw` (live bits; the dead bits of the last word are not observable content) -/
def intoRaw (bs : Bits) : List Nat := wordsOf ((bs.length + 63) / 64) bs

/-- `ReverseMut::rev`: reverse all bits, then reverse each chunk back. -/
def rev (c : Codec) (bs : Bits) : Bits :=
  let rb := bs.reverse
  let r := bs.length % c.width
  rb.take r ++ mapChunks c.width List.reverse (bs.length / c.width) (rb.drop r)

/-- one step of the per-chunk loops of `ComplementMut` / `MaskableMut for Seq` -/
def chunkOp (p : Profile) (c : Codec) (op : Nat → Option Nat) (chunk : Bits) : Res Bits := do
  let v ← loadLE 8 chunk
  let s ← optToRes (c.unsafeFromBits v)
  let s' ← optToRes (op s)
  .ok (toBitsLE chunk.length s')

def comp (p : Profile) (c : Codec) (bs : Bits) : Res Bits :=
  mapChunksM c.width (chunkOp p c c.comp) (len c bs) bs

def mask (p : Profile) (c : Codec) (bs : Bits) : Res Bits :=
  mapChunksM c.width (chunkOp p c c.mask) (len c bs) bs

def unmask (p : Profile) (c : Codec) (bs : Bits) : Res Bits :=
  mapChunksM c.width (chunkOp p c c.unmask) (len c bs) bs

/-- default `ReverseComplementMut::revcomp`: `comp` then `rev` -/
def revcomp (p : Profile) (c : Codec) (bs : Bits) : Res Bits :=
  (comp p c bs).map (rev c)

/-- `BitAnd for &SeqSlice`, `Seq::bit_and` -/
def bitAnd (a b : Bits) : Bits := bitop (· && ·) a b
def bitOr (a b : Bits) : Bits := bitop (· || ·) a b

/-- events fed to a `Hasher` (one per `Hasher` method call). -/
inductive HashEv | u8 (n : Nat) | usize (n : Nat)
  deriving DecidableEq, Repr

/-- `Hash for SeqSlice` (and `Seq`, which delegates): every bit as a `bool`, then `len()`. -/
def hashEvents (c : Codec) (bs : Bits) : List HashEv :=
  bs.map (fun b => HashEv.u8 (if b then 1 else 0)) ++ [HashEv.usize (len c bs)]

/-- `SeqSlice == &str`: length test, then a lazy zip of `iter()` with the bytes. -/
def eqStrLoop (p : Profile) (c : Codec) (bs : Bits) : Nat → List Nat → Res Bool
  | _, [] => .ok true
  | i, ch :: rest => do
    let a ← nth p c bs i
    match c.tryFromAscii ch with
    | some b => if a = b then eqStrLoop p c bs (i+1) rest else .ok false
    | none => .ok false

def eqStr (p : Profile) (c : Codec) (bs : Bits) (text : List Nat) : Res Bool :=
  if text.length ≠ len c bs then .ok false else eqStrLoop p c bs 0 text

/-- derived/explicit `Ord for Seq`: compares from the last bit backwards. -/
def cmpBits : Bits → Bits → Ordering
  | [], [] => .eq
  | [], _ :: _ => .lt
  | _ :: _, [] => .gt
  | a :: as, b :: bs => if a = b then cmpBits as bs else if a = false then .lt else .gt

def cmp (a b : Bits) : Ordering := cmpBits a.reverse b.reverse

end Seq
end BioSeq
