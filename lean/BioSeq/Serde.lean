/-
  Model of the serde representation of `Seq` (bitvec's `BitVec<usize, Lsb0>` serde impl:
  `{ order, head: { width, index }, bits, data }`) and of `Kmer` (its storage integer).
  Only bitvec's mapping between a bit vector and these fields is modelled; the concrete
  formats (bincode, serde_json) are third-party and assumed lossless on the serde data
  model — they are exercised by the differential runs.
-/
import BioSeq.Seq
namespace BioSeq
namespace Serde

structure BitSeqRepr where
  order : String
  headWidth : Nat
  headIndex : Nat
  bits : Nat
  data : List Nat
  deriving DecidableEq, Repr

def orderName : String := "bitvec::order::Lsb0"

/-- `Serialize for BitVec`: owned sequences built by the crate start at bit 0 (head index 0) -/
def ser (bs : Bits) : BitSeqRepr :=
  { order := orderName, headWidth := 64, headIndex := 0, bits := bs.length, data := Seq.intoRaw bs }

/-- `Serialize for BitVec` of a vector whose live bits start `head` bits into its first word (only the unstable
    `From<&BitSlice>` / `From<BitVec>` constructors make such owned sequences): `dead` are the `head` bits below the
    live region, whatever they hold; the data words cover dead and live bits -/
def serAt (dead : Bits) (bs : Bits) : BitSeqRepr :=
  { order := orderName, headWidth := 64, headIndex := dead.length, bits := bs.length,
    data := Seq.intoRaw (dead ++ bs) }

/-- `Deserialize for BitVec`: validates the type name, head and length, then views the words -/
def de (r : BitSeqRepr) : Except String Bits :=
  if r.order ≠ orderName then .error "order"
  else if r.headWidth ≠ 64 ∨ r.headIndex ≥ 64 then .error "head"
  else if r.headIndex + r.bits > 64 * r.data.length then .error "bits"
  else .ok (((bitsOfWords r.data).drop r.headIndex).take r.bits)

/-- `Kmer` serialises as its storage integer -/
def serKmer (v : Nat) : Nat := v
def deKmer (v : Nat) : Nat := v

end Serde
end BioSeq
