/-
  Model of `Kmer<A, K, S>` (bio-seq/src/kmer.rs, kmer/integral64.rs).
  The storage integer is a `Nat` below `2^sbits` (`sbits` = 64 for `usize`/`u64`,
  128 for `u128`); `to_bitarray` / `from_bitslice` are `toBitsLE` / `loadLE`.
-/
import BioSeq.Seq
namespace BioSeq

/-- storage type of a k-mer -/
inductive Storage | usize | u64 | u128
  deriving DecidableEq, Repr

def Storage.bits : Storage → Nat
  | .usize => 64 | .u64 => 64 | .u128 => 128

namespace Kmer

/-- `KmerStorage::to_bitarray` -/
def toBitarray (st : Storage) (v : Nat) : Bits := toBitsLE st.bits v

/-- `KmerStorage::from_bitslice` (`usize` carries an extra `debug_assert!`, implied by `load_le`'s own check) -/
def fromBitslice (st : Storage) (bs : Bits) : Res Nat := loadLE st.bits bs

/-- `Kmer::unsafe_from` / `unsafe_from_seqslice` -/
def unsafeFrom (p : Profile) (c : Codec) (K : Nat) (st : Storage) (bs : Bits) : Res Nat :=
  if p = .debug ∧ K ≠ Seq.len c bs then .error .panic else fromBitslice st bs

/-- `TryFrom<&SeqSlice> for Kmer` -/
def tryFrom (p : Profile) (c : Codec) (K : Nat) (st : Storage) (bs : Bits) : Res Nat :=
  if Seq.len c bs = K then do
    let s ← Seq.index p c bs .range 0 K
    unsafeFrom p c K st s
  else .error .mismatchedLength

/-- `FromStr for Kmer` -/
def fromStr (p : Profile) (c : Codec) (K : Nat) (st : Storage) (text : List Nat) : Res Nat :=
  if text.length ≠ K then .error .mismatchedLength else do
    let s ← Seq.parseBytes c text
    tryFrom p c K st s

/-- `Deref for Kmer<A,K,usize>`: the first `K*BITS` bits of the word -/
def deref (c : Codec) (K : Nat) (v : Nat) : Bits := (toBitsLE 64 v).take (K * c.width)

/-- live bits of any k-mer (`ba[0..K*BITS]`) -/
def bits (c : Codec) (K : Nat) (st : Storage) (v : Nat) : Bits := (toBitarray st v).take (K * c.width)

/-- `Display for Kmer`: chunks of the first `K*BITS` bits -/
def displayChunks (p : Profile) (c : Codec) : Nat → Bits → Res (List Nat)
  | 0, _ => .ok []
  | n+1, bs => do
    let v ← loadLE 8 (bs.take c.width)
    let s ← optToRes (c.unsafeFromBits v)
    let rest ← displayChunks p c n (bs.drop c.width)
    .ok (c.toChar s :: rest)

def display (p : Profile) (c : Codec) (K : Nat) (st : Storage) (v : Nat) : Res (List Nat) :=
  displayChunks p c K (bits c K st v)

/-- `rotated_left(n)`: `bs[..BITS].rotate_left((n % K) * w)` -/
def rotatedLeft (c : Codec) (K : Nat) (st : Storage) (v n : Nat) : Res Nat :=
  let r := (n % K) * c.width
  let b := bits c K st v
  fromBitslice st (b.drop r ++ b.take r)

def rotatedRight (c : Codec) (K : Nat) (st : Storage) (v n : Nat) : Res Nat :=
  let r := (n % K) * c.width
  let b := bits c K st v
  fromBitslice st (b.drop (b.length - r) ++ b.take (b.length - r))

/-- `pushr(base)`: rotate left by one symbol, overwrite the last symbol, reload the whole array -/
def pushr (c : Codec) (K : Nat) (st : Storage) (v sym : Nat) : Res Nat := do
  let r ← rotatedLeft c K st v 1
  let ba := toBitarray st r
  let start := K * c.width - c.width
  fromBitslice st (ba.take start ++ toBitsLE c.width sym ++ ba.drop (start + c.width))

/-- `pushl(base)`: rotate right by one symbol, overwrite the first symbol -/
def pushl (c : Codec) (K : Nat) (st : Storage) (v sym : Nat) : Res Nat := do
  let r ← rotatedRight c K st v 1
  let ba := toBitarray st r
  fromBitslice st (toBitsLE c.width sym ++ ba.drop c.width)

/-- `KmerStorage::complement(mask)` for `usize`: xor with the low `K*BITS` bits set -/
def complement (c : Codec) (K : Nat) (v : Nat) : Nat :=
  let m := K * c.width
  if m ≥ 64 then v ^^^ (2^64 - 1) else v ^^^ (2^m - 1)

/-- the `REV_2BIT` byte table, as computed by `make_2bit_table` -/
def rev2 (i : Nat) : Nat :=
  ((i &&& 0xC0) >>> 6) ||| ((i &&& 0x30) >>> 2) ||| ((i &&& 0x0C) <<< 2) ||| ((i &&& 0x03) <<< 6)

/-- little-endian base-`2^w` digits -/
def digits (w : Nat) : Nat → Nat → List Nat
  | 0, _ => []
  | n+1, x => (x % 2^w) :: digits w n (x / 2^w)

def ofDigits (w : Nat) : List Nat → Nat
  | [] => 0
  | d :: ds => d + 2^w * ofDigits w ds

/-- `usize::rev_blocks_2`: swap bytes, map each byte through `REV_2BIT` -/
def revBlocks2 (x : Nat) : Nat := ofDigits 8 (((digits 8 8 x).reverse).map rev2)

/-- `ReverseMut for Kmer<A,K,usize>`: 2-bit fast path, generic chunk reversal otherwise -/
def rev (c : Codec) (K : Nat) (v : Nat) : Res Nat :=
  if c.width = 2 then .ok (revBlocks2 v >>> (64 - 2 * K))
  else fromBitslice .usize (Seq.rev c (deref c K v))

/-- default `revcomp` = `comp` then `rev` (only `Kmer<Dna,K,usize>`) -/
def revcomp (c : Codec) (K : Nat) (v : Nat) : Res Nat := rev c K (complement c K v)

/-- `Hash for Kmer`: the `K*BITS` content bits, then `K` -/
def hashEvents (c : Codec) (K : Nat) (st : Storage) (v : Nat) : List Seq.HashEv :=
  (bits c K st v).map (fun b => Seq.HashEv.u8 (if b then 1 else 0)) ++ [Seq.HashEv.usize K]

/-- `Kmer == SeqSlice` (and the `Seq`, `SeqArray` variants): length test then repack -/
def eqSlice (p : Profile) (c : Codec) (K : Nat) (st : Storage) (v : Nat) (bs : Bits) : Res Bool :=
  if Seq.len c bs ≠ K then .ok false else do
    let o ← unsafeFrom p c K st bs
    .ok (o == v)

/-- `Kmer == &str`: compares the displayed text -/
def eqStr (p : Profile) (c : Codec) (K : Nat) (st : Storage) (v : Nat) (text : List Nat) : Res Bool := do
  let d ← display p c K st v
  .ok (d == text)

/-- `From<Kmer<A,K,usize>> for Seq<A>`: `extend(kmer.iter())` -/
def toSeq (p : Profile) (c : Codec) (K : Nat) (v : Nat) : Res Bits := do
  let ss ← Seq.iterSyms p c (deref c K v)
  .ok (Seq.extend c [] ss)

/-- `KmerIter` state: `(index)`; `len` and the slice are fixed. -/
def iterNext (p : Profile) (c : Codec) (K : Nat) (bs : Bits) (len idx : Nat) : Option (Res Nat × Nat) :=
  if idx + K > len then none
  else some ((do let s ← Seq.index p c bs .range idx (idx + K); unsafeFrom p c K .usize s), idx + 1)

def iterCollect (p : Profile) (c : Codec) (K : Nat) (bs : Bits) (len : Nat) : Nat → Nat → List (Res Nat)
  | 0, _ => []
  | fuel+1, idx => match iterNext p c K bs len idx with
    | none => []
    | some (x, idx') => x :: iterCollect p c K bs len fuel idx'

/-- `slice.kmers::<K>().collect()` -/
def kmers (p : Profile) (c : Codec) (K : Nat) (bs : Bits) : List (Res Nat) :=
  iterCollect p c K bs (Seq.len c bs) (Seq.len c bs + 1) 0

end Kmer
end BioSeq
