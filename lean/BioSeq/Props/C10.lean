/-
  C10 — ordering is colexicographic = numeric order of the packed integer (minimisers).

  `Kmer` derives `Ord` from its storage integer, so k-mers of one type are ordered by the
  `Nat` order of `ofBitsLE (pack w codes)`.  We show this is exactly the colexicographic
  order on the symbol codes (last symbol most significant), that it is total and
  consistent with equality, that the numeric minimum over a sequence's k-mers is its
  colexicographic minimiser, and that `Ord for Seq` (`Seq.cmp`: compare bits from the last
  one backwards) agrees with the k-mer order on equal-length content and is a total order
  on sequences of arbitrary lengths.
-/
import BioSeq.Lemmas.PackLemmas
namespace BioSeq
namespace C10
open BioSeq.Seq

/-! ### 1. colexicographic order = numeric order of the packed integer -/

/-- strict colexicographic order on equal-length code lists: the last symbol is the most significant
    (`false` on lists of different lengths) -/
def colexLt : List Nat → List Nat → Bool
  | [], [] => false
  | a :: as, b :: bs => colexLt as bs || (as == bs && decide (a < b))
  | _, _ => false

/-- three-way colexicographic comparison: decide on the tail first, then on the head;
    a proper prefix (by position from the front) of missing high symbols compares smaller -/
def colexCmp : List Nat → List Nat → Ordering
  | [], [] => .eq
  | [], _ :: _ => .lt
  | _ :: _, [] => .gt
  | a :: as, b :: bs => (colexCmp as bs).then (compare a b)

theorem ofDigitsLE_lt_iff_colex (w : Nat) (as bs : List Nat) (hl : as.length = bs.length)
    (ha : Fits w as) (hb : Fits w bs) :
    ofDigitsLE w as < ofDigitsLE w bs ↔ colexLt as bs = true := by
  induction as generalizing bs with
  | nil => cases bs <;> simp_all [ofDigitsLE, colexLt]
  | cons a as ih =>
    cases bs with
    | nil => simp at hl
    | cons b bs =>
      have hl' : as.length = bs.length := by simpa using hl
      have ha0 := ha a (by simp); have hb0 := hb b (by simp)
      have ha' : Fits w as := fun x hx => ha x (by simp [hx])
      have hb' : Fits w bs := fun x hx => hb x (by simp [hx])
      have IH := ih bs hl' ha' hb'
      simp only [ofDigitsLE, colexLt, Bool.or_eq_true, Bool.and_eq_true, beq_iff_eq, decide_eq_true_eq]
      rw [← IH]
      constructor
      · intro h
        by_cases hlt : ofDigitsLE w as < ofDigitsLE w bs
        · exact Or.inl hlt
        · by_cases heq : ofDigitsLE w as = ofDigitsLE w bs
          · right
            refine ⟨ofDigitsLE_inj w as bs hl' ha' hb' heq, ?_⟩
            rw [heq] at h; omega
          · exfalso
            have hgt : ofDigitsLE w bs + 1 ≤ ofDigitsLE w as := by omega
            have := Nat.mul_le_mul_left (2 ^ w) hgt
            rw [Nat.mul_succ] at this
            omega
      · rintro (hlt | ⟨rfl, hab⟩)
        · have := Nat.mul_le_mul_left (2 ^ w) (Nat.succ_le_of_lt hlt)
          rw [Nat.mul_succ] at this
          omega
        · omega

/-- **k-mer order = colex order**: the storage integers compare like the code lists, last symbol
    most significant -/
theorem kmer_lt_iff_colex (w : Nat) (as bs : List Nat) (hl : as.length = bs.length)
    (ha : Fits w as) (hb : Fits w bs) :
    ofBitsLE (pack w as) < ofBitsLE (pack w bs) ↔ colexLt as bs = true := by
  rw [ofBitsLE_pack w as ha, ofBitsLE_pack w bs hb]
  exact ofDigitsLE_lt_iff_colex w as bs hl ha hb

/-- **consistency with equality**: equal storage integers ⇔ equal symbols -/
theorem kmer_eq_iff (w : Nat) (as bs : List Nat) (hl : as.length = bs.length)
    (ha : Fits w as) (hb : Fits w bs) :
    ofBitsLE (pack w as) = ofBitsLE (pack w bs) ↔ as = bs := by
  constructor
  · intro h
    rw [ofBitsLE_pack w as ha, ofBitsLE_pack w bs hb] at h
    exact ofDigitsLE_inj w as bs hl ha hb h
  · intro h; rw [h]

/-- **totality / trichotomy** of the colex order on k-mers of one type -/
theorem colex_trichotomy (w : Nat) (as bs : List Nat) (hl : as.length = bs.length)
    (ha : Fits w as) (hb : Fits w bs) :
    (colexLt as bs = true ∧ as ≠ bs ∧ colexLt bs as = false) ∨
    (colexLt as bs = false ∧ as = bs ∧ colexLt bs as = false) ∨
    (colexLt as bs = false ∧ as ≠ bs ∧ colexLt bs as = true) := by
  have h1 := kmer_lt_iff_colex w as bs hl ha hb
  have h2 := kmer_lt_iff_colex w bs as hl.symm hb ha
  have h3 := kmer_eq_iff w as bs hl ha hb
  rcases Nat.lt_trichotomy (ofBitsLE (pack w as)) (ofBitsLE (pack w bs)) with h | h | h
  · left
    refine ⟨h1.mp h, fun e => ?_, ?_⟩
    · have := h3.mpr e; omega
    · cases hc : colexLt bs as with
      | false => rfl
      | true => have := h2.mpr hc; omega
  · right; left
    refine ⟨?_, h3.mp h, ?_⟩
    · cases hc : colexLt as bs with
      | false => rfl
      | true => have := h1.mpr hc; omega
    · cases hc : colexLt bs as with
      | false => rfl
      | true => have := h2.mpr hc; omega
  · right; right
    refine ⟨?_, fun e => ?_, h2.mp h⟩
    · cases hc : colexLt as bs with
      | false => rfl
      | true => have := h1.mpr hc; omega
    · have := h3.mpr e; omega

theorem colexLt_irrefl (as : List Nat) : colexLt as as = false := by
  induction as with
  | nil => rfl
  | cons a as ih => simp [colexLt, ih]

theorem colexLt_trans (w : Nat) (as bs cs : List Nat) (h1 : as.length = bs.length) (h2 : bs.length = cs.length)
    (ha : Fits w as) (hb : Fits w bs) (hc : Fits w cs)
    (hab : colexLt as bs = true) (hbc : colexLt bs cs = true) : colexLt as cs = true := by
  rw [← kmer_lt_iff_colex w _ _ (h1.trans h2) ha hc]
  have := (kmer_lt_iff_colex w _ _ h1 ha hb).mpr hab
  have := (kmer_lt_iff_colex w _ _ h2 hb hc).mpr hbc
  omega

/-- `colexCmp` is consistent with equality (any lengths) -/
theorem colexCmp_eq_iff (as bs : List Nat) : colexCmp as bs = .eq ↔ as = bs := by
  induction as generalizing bs with
  | nil => cases bs <;> simp [colexCmp]
  | cons a as ih =>
    cases bs with
    | nil => simp [colexCmp]
    | cons b bs =>
      have IH := ih bs
      simp only [colexCmp, List.cons.injEq]
      cases hc : colexCmp as bs with
      | eq =>
        have e := IH.mp hc
        simp [Ordering.then, e]
      | lt =>
        have hne : as ≠ bs := fun e => by rw [IH.mpr e] at hc; cases hc
        simp [Ordering.then, hne]
      | gt =>
        have hne : as ≠ bs := fun e => by rw [IH.mpr e] at hc; cases hc
        simp [Ordering.then, hne]

/-- `colexLt` is the strict part of `colexCmp` on equal lengths -/
theorem colexCmp_lt_iff (as bs : List Nat) (hl : as.length = bs.length) :
    colexCmp as bs = .lt ↔ colexLt as bs = true := by
  induction as generalizing bs with
  | nil => cases bs <;> simp_all [colexCmp, colexLt]
  | cons a as ih =>
    cases bs with
    | nil => simp at hl
    | cons b bs =>
      have hl' : as.length = bs.length := by simpa using hl
      have IH := ih bs hl'
      have heq := colexCmp_eq_iff as bs
      simp only [colexCmp, colexLt, Bool.or_eq_true, Bool.and_eq_true, beq_iff_eq, decide_eq_true_eq]
      cases hc : colexCmp as bs with
      | lt => simp [Ordering.then, IH.mp hc]
      | eq =>
        have e := heq.mp hc
        subst e
        simp [Ordering.then, colexLt_irrefl, Nat.compare_eq_lt]
      | gt =>
        have hne : as ≠ bs := fun e => by rw [heq.mpr e] at hc; cases hc
        have hnl : ¬ colexLt as bs = true := fun e => by rw [IH.mpr e] at hc; cases hc
        simp [Ordering.then, hne, hnl]

/-- the derived `Ord` of k-mers (compare the storage integers) is `colexCmp` on the codes -/
theorem kmer_compare_eq_colexCmp (w : Nat) (as bs : List Nat) (hl : as.length = bs.length)
    (ha : Fits w as) (hb : Fits w bs) :
    compare (ofBitsLE (pack w as)) (ofBitsLE (pack w bs)) = colexCmp as bs := by
  rw [ofBitsLE_pack w as ha, ofBitsLE_pack w bs hb]
  induction as generalizing bs with
  | nil =>
    cases bs with
    | nil => rfl
    | cons _ _ => simp at hl
  | cons a as ih =>
    cases bs with
    | nil => simp at hl
    | cons b bs =>
      have hl' : as.length = bs.length := by simpa using hl
      have ha0 := ha a (by simp); have hb0 := hb b (by simp)
      have ha' : Fits w as := fun x hx => ha x (by simp [hx])
      have hb' : Fits w bs := fun x hx => hb x (by simp [hx])
      have IH := ih bs hl' ha' hb'
      simp only [colexCmp, ofDigitsLE, ← IH]
      rcases Nat.lt_trichotomy (ofDigitsLE w as) (ofDigitsLE w bs) with h | h | h
      · rw [Nat.compare_eq_lt.mpr h]
        simp only [Ordering.then]
        apply Nat.compare_eq_lt.mpr
        have := Nat.mul_le_mul_left (2 ^ w) (Nat.succ_le_of_lt h)
        rw [Nat.mul_succ] at this
        omega
      · rw [h, Nat.compare_eq_eq.mpr rfl]
        simp only [Ordering.then]
        rcases Nat.lt_trichotomy a b with h' | h' | h'
        · rw [Nat.compare_eq_lt.mpr h']; apply Nat.compare_eq_lt.mpr; omega
        · rw [h']; simp
        · rw [Nat.compare_eq_gt.mpr h']; apply Nat.compare_eq_gt.mpr; omega
      · rw [Nat.compare_eq_gt.mpr h]
        simp only [Ordering.then]
        apply Nat.compare_eq_gt.mpr
        have := Nat.mul_le_mul_left (2 ^ w) (Nat.succ_le_of_lt h)
        rw [Nat.mul_succ] at this
        omega

/-! ### 2. `Ord for Seq` -/

/-- on equal-length bit strings `Seq::cmp` is the numeric order of the little-endian values -/
theorem seq_cmp_eq_compare (a b : Bits) (hl : a.length = b.length) :
    Seq.cmp a b = compare (ofBitsLE a) (ofBitsLE b) := cmp_eq_compare_ofBitsLE a b hl

/-- **equal-length owned sequences order like the k-mers with the same content** -/
theorem seq_cmp_eq_kmer_cmp (w : Nat) (as bs : List Nat) (hl : as.length = bs.length) :
    Seq.cmp (pack w as) (pack w bs) = compare (ofBitsLE (pack w as)) (ofBitsLE (pack w bs)) :=
  cmp_eq_compare_ofBitsLE _ _ (by rw [pack_length, pack_length, hl])

/-- ... hence colexicographically by symbol code -/
theorem seq_cmp_eq_colexCmp (w : Nat) (as bs : List Nat) (hl : as.length = bs.length)
    (ha : Fits w as) (hb : Fits w bs) :
    Seq.cmp (pack w as) (pack w bs) = colexCmp as bs := by
  rw [seq_cmp_eq_kmer_cmp w as bs hl, kmer_compare_eq_colexCmp w as bs hl ha hb]

theorem seq_lt_iff_colex (w : Nat) (as bs : List Nat) (hl : as.length = bs.length)
    (ha : Fits w as) (hb : Fits w bs) :
    Seq.cmp (pack w as) (pack w bs) = .lt ↔ colexLt as bs = true := by
  rw [seq_cmp_eq_kmer_cmp w as bs hl, Nat.compare_eq_lt]
  exact kmer_lt_iff_colex w as bs hl ha hb

/-- `Seq::cmp` is consistent with equality, for arbitrary lengths -/
theorem seq_cmp_eq_iff (a b : Bits) : Seq.cmp a b = .eq ↔ a = b := by
  unfold Seq.cmp
  rw [cmpBits_eq_iff, List.reverse_inj]

/-- swapping the arguments swaps the outcome -/
theorem seq_cmp_swap (a b : Bits) : Seq.cmp b a = (Seq.cmp a b).swap := by
  unfold Seq.cmp; exact cmpBits_swap _ _

/-- antisymmetry -/
theorem seq_cmp_lt_iff_gt (a b : Bits) : Seq.cmp a b = .lt ↔ Seq.cmp b a = .gt := by
  rw [seq_cmp_swap a b]
  cases Seq.cmp a b <;> simp [Ordering.swap]

/-- transitivity -/
theorem seq_cmp_trans (a b c : Bits) (h1 : Seq.cmp a b = .lt) (h2 : Seq.cmp b c = .lt) : Seq.cmp a c = .lt := by
  unfold Seq.cmp at *
  exact cmpBits_trans _ _ _ h1 h2

/-- totality: exactly one of `<`, `=`, `>` -/
theorem seq_cmp_total (a b : Bits) :
    (Seq.cmp a b = .lt ∧ a ≠ b) ∨ (Seq.cmp a b = .eq ∧ a = b) ∨ (Seq.cmp a b = .gt ∧ a ≠ b ∧ Seq.cmp b a = .lt) := by
  have he := seq_cmp_eq_iff a b
  have hs := seq_cmp_swap a b
  cases hc : Seq.cmp a b with
  | lt => left; exact ⟨rfl, (fun e => by rw [he.mpr e] at hc; cases hc)⟩
  | eq => right; left; exact ⟨rfl, he.mp hc⟩
  | gt =>
    right; right
    refine ⟨rfl, (fun e => by rw [he.mpr e] at hc; cases hc), ?_⟩
    rw [hs, hc]; rfl

/-- for sequences of different lengths whose common high-order part ties, the shorter one is smaller
    (Rust's iterator `cmp` on the reversed bits) -/
theorem seq_cmp_suffix (pre a : Bits) (hne : pre ≠ []) : Seq.cmp a (pre ++ a) = .lt := by
  unfold Seq.cmp
  rw [List.reverse_append]
  generalize a.reverse = r
  have hne' : pre.reverse ≠ [] := by simpa using hne
  generalize pre.reverse = q at hne'
  induction r with
  | nil =>
    cases q with
    | nil => exact absurd rfl hne'
    | cons _ _ => rfl
  | cons x r ih => simp [cmpBits, ih]

/-! ### 3. minimisers -/

/-- the numeric minimum over the k-mer values of a non-empty collection of equal-length fitting
    k-mers is attained at a k-mer that no other k-mer precedes colexicographically, and that
    k-mer is the only such element (the colexicographic minimiser) -/
theorem minimiser (w K : Nat) (ks : List (List Nat)) (hne : ks ≠ [])
    (hlen : ∀ cs ∈ ks, cs.length = K) (hfit : ∀ cs ∈ ks, Fits w cs) :
    ∃ m ∈ ks, (ks.map (fun cs => ofBitsLE (pack w cs))).min? = some (ofBitsLE (pack w m))
      ∧ (∀ cs ∈ ks, ¬ colexLt cs m = true)
      ∧ (∀ m' ∈ ks, (∀ cs ∈ ks, ¬ colexLt cs m' = true) → m' = m) := by
  cases hmin : (ks.map (fun cs => ofBitsLE (pack w cs))).min? with
  | none =>
    rw [List.min?_eq_none_iff, List.map_eq_nil_iff] at hmin
    exact absurd hmin hne
  | some v =>
    rw [List.min?_eq_some_iff] at hmin
    obtain ⟨hv, hle⟩ := hmin
    rw [List.mem_map] at hv
    obtain ⟨m, hm, rfl⟩ := hv
    refine ⟨m, hm, rfl, ?_, ?_⟩
    · intro cs hcs hlt
      have h1 := (kmer_lt_iff_colex w cs m ((hlen cs hcs).trans (hlen m hm).symm) (hfit cs hcs) (hfit m hm)).mpr hlt
      have h2 := hle _ (List.mem_map.mpr ⟨cs, hcs, rfl⟩)
      omega
    · intro m' hm' hmin'
      have hl : m'.length = m.length := (hlen m' hm').trans (hlen m hm).symm
      have h1 := hle _ (List.mem_map.mpr ⟨m', hm', rfl⟩)
      have h2 : ¬ ofBitsLE (pack w m) < ofBitsLE (pack w m') := fun h =>
        hmin' m hm ((kmer_lt_iff_colex w m m' hl.symm (hfit m hm) (hfit m' hm')).mp h)
      exact (kmer_eq_iff w m' m hl (hfit m' hm') (hfit m hm)).mp (by omega)

/-! ### 4. non-vacuity -/

-- DNA "CA" < "AC": the last symbol decides
example : colexLt [1, 0] [0, 1] = true := by decide
example : colexCmp [1, 0] [0, 1] = .lt := by decide
example : Seq.cmp (pack 2 [1, 0]) (pack 2 [0, 1]) = .lt := by decide
example : ofBitsLE (pack 2 [1, 0]) = 1 ∧ ofBitsLE (pack 2 [0, 1]) = 4 := by decide
-- lexicographic order would say the opposite
example : ([1, 0] : List Nat) > [0, 1] := by decide
-- the minimiser of the 3-mers of "ACGTAC" (codes 0 1 2 3 0 1): ACG, CGT, GTA, TAC -> GTA = [2,3,0]
example : ([[0, 1, 2], [1, 2, 3], [2, 3, 0], [3, 0, 1]].map (fun cs => ofBitsLE (pack 2 cs))).min?
    = some (ofBitsLE (pack 2 [2, 3, 0])) := by decide
example : ∀ cs ∈ [[0, 1, 2], [1, 2, 3], [2, 3, 0], [3, 0, 1]], ¬ colexLt cs [2, 3, 0] = true := by decide
-- different lengths: the shorter sequence with equal high-order content is smaller
example : Seq.cmp (pack 2 [3]) (pack 2 [0, 3]) = .lt := by decide

end C10
end BioSeq
