/-
  C01 — text <-> packed sequence round trip is lossless; bad input is rejected exactly.
  Property theorems, for every codec satisfying `CodecWF` (proved for the seven extracted
  codecs in both build profiles in Checks/WF.lean) and every byte string.
-/
import BioSeq.Checks.WF
namespace BioSeq
namespace C01
open BioSeq.Seq

/-- a byte the codec's ASCII parser refuses -/
def bad (c : Codec) (b : Nat) : Bool := (c.tryFromAscii b).isNone

/-- the accepted symbols of a byte string, in order -/
def symbolsOf (c : Codec) (bytes : List Nat) : List Nat := bytes.filterMap c.tryFromAscii

theorem symbolsOf_canon (c : Codec) (wf : CodecWF c) (bytes : List Nat) : Canon c (symbolsOf c bytes) := by
  intro s hs
  simp only [symbolsOf, List.mem_filterMap] at hs
  obtain ⟨b, _, hb⟩ := hs
  exact wf.ascii_item b s hb

theorem symbolsOf_length (c : Codec) (bytes : List Nat) (h : ∀ b ∈ bytes, bad c b = false) :
    (symbolsOf c bytes).length = bytes.length := by
  induction bytes with
  | nil => rfl
  | cons b bs ih =>
    have hb := h b (by simp)
    simp only [bad, Option.isNone_eq_false_iff, Option.isSome_iff_exists] at hb
    obtain ⟨s, hs⟩ := hb
    have ih' := ih (fun x hx => h x (by simp [hx]))
    simp only [symbolsOf] at ih'
    simp [symbolsOf, List.filterMap_cons, hs, ih']

/-- the parser folds `push` over the bytes and stops at the first refused byte -/
theorem parse_go (c : Codec) (hw : c.width ≤ 8) (acc bytes : List Nat) :
    bytes.foldlM (fun acc b => match c.tryFromAscii b with
      | some s => (.ok (push c acc s) : Res Bits)
      | none => .error (.unrecognisedBase b)) (pack c.width acc)
    = match bytes.find? (bad c) with
      | none => .ok (pack c.width (acc ++ symbolsOf c bytes))
      | some b => .error (.unrecognisedBase b) := by
  induction bytes generalizing acc with
  | nil => simp [symbolsOf]; rfl
  | cons b bs ih =>
    rw [List.foldlM_cons]
    cases hb : c.tryFromAscii b with
    | none => simp [List.find?_cons, bad, hb]; rfl
    | some s =>
      have : bad c b = false := by simp [bad, hb]
      simp only [List.find?_cons, this]
      have e : (Except.ok (push c (pack c.width acc) s) : Res Bits) >>= (fun a => bs.foldlM (fun acc b => match c.tryFromAscii b with
          | some s => (.ok (push c acc s) : Res Bits)
          | none => .error (.unrecognisedBase b)) a)
        = bs.foldlM (fun acc b => match c.tryFromAscii b with
          | some s => (.ok (push c acc s) : Res Bits)
          | none => .error (.unrecognisedBase b)) (push c (pack c.width acc) s) := rfl
      rw [e, push_pack c hw, ih]
      simp [symbolsOf, List.filterMap_cons, hb]

/-- **parse, fully characterised**: the result is the packing of the bytes' symbols, or the
    first refused byte -/
theorem parse_spec (c : Codec) (wf : CodecWF c) (bytes : List Nat) :
    parseBytes c bytes = match bytes.find? (bad c) with
      | none => .ok (pack c.width (symbolsOf c bytes))
      | some b => .error (.unrecognisedBase b) := by
  have := parse_go c wf.width_le [] bytes
  simp only [pack_nil, List.nil_append] at this
  exact this

/-- parsing succeeds exactly when every byte is a symbol character -/
theorem parse_ok_iff (c : Codec) (wf : CodecWF c) (bytes : List Nat) :
    (∃ s, parseBytes c bytes = .ok s) ↔ ∀ b ∈ bytes, (c.tryFromAscii b).isSome := by
  rw [parse_spec c wf]
  cases h : bytes.find? (bad c) with
  | none =>
    simp only [List.find?_eq_none] at h
    constructor
    · intro _ b hb
      have := h b hb
      simp only [bad, Option.isNone_iff_eq_none, Bool.not_eq_true, decide_eq_false_iff_not] at this
      exact Option.isSome_iff_ne_none.mpr this
    · intro _; exact ⟨_, rfl⟩
  | some b =>
    have hb := List.find?_some h
    have hm := List.mem_of_find?_eq_some h
    constructor
    · rintro ⟨s, hs⟩; cases hs
    · intro hall
      have := hall b hm
      simp [bad] at hb
      simp [hb] at this

/-- on success: one symbol per byte, in order — the `i`-th symbol is the decoding of byte `i` -/
theorem parse_ok_symbols (c : Codec) (wf : CodecWF c) (bytes : List Nat) (s : Bits)
    (h : parseBytes c bytes = .ok s) :
    len c s = bytes.length ∧ syms c.width s = symbolsOf c bytes ∧
    bytes.map c.tryFromAscii = (syms c.width s).map some := by
  rw [parse_spec c wf] at h
  cases hf : bytes.find? (bad c) with
  | some b => rw [hf] at h; cases h
  | none =>
    rw [hf] at h
    injection h with h
    subst h
    have hall : ∀ b ∈ bytes, bad c b = false := by
      intro b hb
      have := (List.find?_eq_none.mp hf) b hb
      simpa using this
    have hcan := symbolsOf_canon c wf bytes
    refine ⟨?_, syms_pack c.width wf.width_pos _ (hcan.fits wf), ?_⟩
    · rw [len_pack c wf.width_pos, symbolsOf_length c bytes hall]
    · rw [syms_pack c.width wf.width_pos _ (hcan.fits wf)]
      clear hf hcan
      induction bytes with
      | nil => rfl
      | cons b bs ih =>
        have hb := hall b (by simp)
        simp only [bad, Option.isNone_eq_false_iff, Option.isSome_iff_exists] at hb
        obtain ⟨x, hx⟩ := hb
        simp [symbolsOf, List.filterMap_cons, hx]
        exact ih (fun y hy => hall y (by simp [hy]))

/-- on failure the error reports the first byte that is not a symbol character -/
theorem parse_err_first (c : Codec) (wf : CodecWF c) (bytes : List Nat) (e : Err)
    (h : parseBytes c bytes = .error e) :
    ∃ pre b post, bytes = pre ++ b :: post ∧ (∀ x ∈ pre, (c.tryFromAscii x).isSome) ∧
      c.tryFromAscii b = none ∧ e = .unrecognisedBase b := by
  rw [parse_spec c wf] at h
  cases hf : bytes.find? (bad c) with
  | none => rw [hf] at h; cases h
  | some b =>
    rw [hf] at h
    injection h with h
    obtain ⟨hb, pre, post, hsplit, hpre⟩ := List.find?_eq_some_iff_append.mp hf
    refine ⟨pre, b, post, hsplit, ?_, ?_, h.symm⟩
    · intro x hx
      have := hpre x hx
      cases hx' : c.tryFromAscii x <;> simp [bad, hx'] at this ⊢
    · simpa [bad] using hb

/-- the parsed sequence displays as the display characters of the bytes' symbols -/
theorem display_parse (p : Profile) (c : Codec) (wf : CodecWF c) (bytes : List Nat) (s : Bits)
    (h : parseBytes c bytes = .ok s) (hov : bytes.length * c.width < W64) :
    display p c s = .ok ((symbolsOf c bytes).map c.toChar) := by
  obtain ⟨hlen, _, _⟩ := parse_ok_symbols c wf bytes s h
  rw [parse_spec c wf] at h
  cases hf : bytes.find? (bad c) with
  | some b => rw [hf] at h; cases h
  | none =>
    rw [hf] at h
    injection h with h
    subst h
    have hcan := symbolsOf_canon c wf bytes
    have hl : (symbolsOf c bytes).length = bytes.length := by
      rw [← hlen, len_pack c wf.width_pos]
    unfold display
    rw [iterSyms_pack p c wf _ hcan (by rw [hl]; exact hov)]
    rfl

/-- display -> parse is the identity on canonical sequences (hence display -> parse -> display is) -/
theorem parse_display (c : Codec) (wf : CodecWF c) (cs : List Nat) (hc : Canon c cs) :
    parseBytes c (cs.map c.toChar) = .ok (pack c.width cs) := by
  rw [parse_spec c wf]
  have hall : ∀ b ∈ cs.map c.toChar, bad c b = false := by
    intro b hb
    simp only [List.mem_map] at hb
    obtain ⟨s, hs, rfl⟩ := hb
    simp [bad, wf.item_char s (hc s hs)]
  have hnone : (cs.map c.toChar).find? (bad c) = none := by
    rw [List.find?_eq_none]
    intro x hx; simp [hall x hx]
  rw [hnone]
  have : symbolsOf c (cs.map c.toChar) = cs := by
    clear hall hnone
    induction cs with
    | nil => rfl
    | cons x xs ih =>
      simp only [List.map_cons, symbolsOf, List.filterMap_cons, wf.item_char x (hc x (by simp))]
      congr 1
      exact ih (fun y hy => hc y (by simp [hy]))
  rw [this]

theorem display_parse_display (p : Profile) (c : Codec) (wf : CodecWF c) (cs : List Nat) (hc : Canon c cs)
    (hov : cs.length * c.width < W64) :
    ∃ s, parseBytes c (cs.map c.toChar) = .ok s ∧ display p c s = .ok (cs.map c.toChar) := by
  refine ⟨_, parse_display c wf cs hc, ?_⟩
  unfold display
  rw [iterSyms_pack p c wf cs hc hov]
  rfl

/-- the collecting entry points (`FromIterator`, `extend`, repeated `push`) build the same
    sequence as the strict parser -/
theorem collect_eq_parse (c : Codec) (wf : CodecWF c) (bytes : List Nat) (s : Bits)
    (h : parseBytes c bytes = .ok s) : extend c [] (symbolsOf c bytes) = s := by
  rw [parse_spec c wf] at h
  cases hf : bytes.find? (bad c) with
  | some b => rw [hf] at h; cases h
  | none =>
    rw [hf] at h
    injection h with h
    have := extend_pack c wf.width_le [] (symbolsOf c bytes)
    simpa [h] using this

/-- the laws hold for every built-in codec in both build profiles -/
theorem builtin_instances : ∀ c ∈ Gen.allCodecs, ∀ p, CodecWF (c p) := wf_all

/-- non-vacuity: a concrete mixed input on the extracted DNA codec -/
example : parseBytes (Gen.dna .debug) [65, 67, 71, 84] = .ok (pack 2 [0, 1, 2, 3]) := by decide +kernel
example : parseBytes (Gen.dna .release) [65, 67, 120, 84, 121] = .error (.unrecognisedBase 120) := by decide +kernel

end C01
end BioSeq
