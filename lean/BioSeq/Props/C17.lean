/-
  C17 — a derived codec implements exactly what its enum declaration says.
  Theorems about the model of `#[derive(Codec)]` (`Derive.derive`: `parse_variants`,
  `parse_width`, the `quote!` template with rustc's first-matching-arm semantics), for
  every well-formed declaration (`WellFormed`, decidable), and its agreement with
    * the extracted graph of the real `parse_width` (all 11 × 256 inputs, both profiles),
    * the extracted tables of the four derived codecs of the crate, re-derived by the model
      from their declarations as read from the source.
  That a macro `Err` / panic stops compilation and that `quote!` expands as modelled is
  rustc's behaviour (checked by compiling generated programs, not by a theorem).
-/
import BioSeq.Lemmas.C17Lemmas
import BioSeq.Checks.C05
import BioSeq.Props.C01
import BioSeq.Generated.Width
namespace BioSeq
namespace C17
open Derive
open Gen (EnumDecl VariantDecl)

/-! ### 1. `parse_width`: the model is the extracted graph of the real function -/

/-- the encoding of results used by the extracted graph: 1000 = `Err`, 1003 = panic -/
def encW : Except DeriveErr Nat → Nat
  | .ok w => w
  | .error .panic => 1003
  | .error _ => 1000

/-- row 0 = no `#[bits]`, row n+1 = `#[bits(n)]` -/
def declaredOfRow : Nat → Option Nat
  | 0 => none
  | n + 1 => some n

def graph : Profile → List (List Nat)
  | .debug => Gen.parseWidth_debug
  | .release => Gen.parseWidth_release

/-- one row, one linear walk: the columns where model and extracted graph differ -/
def rowFailures (declared : Option Nat) (row : List Nat) : List (Nat × Nat) :=
  ((List.range 256).zip row).filter fun mv => encW (parseWidth declared mv.1) != mv.2

/-- `(row, (max discriminant, extracted result))` of every cell where they differ -/
def widthFailures (g : List (List Nat)) : List (Nat × Nat × Nat) :=
  ((List.range 11).zip g).flatMap fun rr => (rowFailures (declaredOfRow rr.1) rr.2).map fun x => (rr.1, x)

def shapeOk (g : List (List Nat)) : Bool := g.length == 11 && g.all (·.length == 256)

/-- the model `Derive.parseWidth` agrees with the real `parse_width` on all 11 × 256 inputs -/
theorem parseWidth_table (p : Profile) : shapeOk (graph p) = true ∧ widthFailures (graph p) = [] := by
  cases p <;> decide +kernel

/-- quantified form: cell `(r, m)` of the extracted graph is the model's result -/
theorem parseWidth_graph (p : Profile) (r m : Nat) (hr : r < 11) (hm : m < 256) :
    ((graph p).getD r []).getD m 0 = encW (parseWidth (declaredOfRow r) m) := by
  obtain ⟨hs, hf⟩ := parseWidth_table p
  simp only [shapeOk, Bool.and_eq_true, beq_iff_eq, List.all_eq_true] at hs
  obtain ⟨hlen, hrows⟩ := hs
  have h1 := zip_range_mem [] (graph p) 11 r hlen hr
  have hrow : ((graph p).getD r []).length = 256 := hrows _ (List.of_mem_zip h1).2
  have h2 := zip_range_mem 0 ((graph p).getD r []) 256 m hrow hm
  have hr0 := List.map_eq_nil_iff.mp ((List.flatMap_eq_nil_iff.mp hf) _ h1)
  have := (List.filter_eq_nil_iff.mp hr0) _ h2
  simp only [bne_iff_ne, ne_eq, Decidable.not_not] at this
  exact this.symm

/-! ### 2. the width -/

/-- `clog2 n` is the least `k` with `n ≤ 2^k` (for every `n` the search can reach; the macro
    calls it with `n = max + 1 ≤ 256`) -/
theorem clog2_spec (n : Nat) (h : n ≤ 512) :
    n ≤ 2 ^ (clog2 n) ∧ (clog2 n = 0 ∨ 2 ^ (clog2 n - 1) < n) :=
  clog2Go_spec n 9 0 (by simpa using h) (Or.inl rfl)

theorem clog2_le_iff (n : Nat) (h : n ≤ 512) (k : Nat) : clog2 n ≤ k ↔ n ≤ 2 ^ k := by
  obtain ⟨h1, h2⟩ := clog2_spec n h
  constructor
  · intro hk
    exact Nat.le_trans h1 (Nat.pow_le_pow_right (by decide) hk)
  · intro hn
    apply Classical.byContradiction
    intro hk
    rcases h2 with h0 | hlt
    · omega
    · have : 2 ^ k ≤ 2 ^ (clog2 n - 1) := Nat.pow_le_pow_right (by decide) (by omega)
      omega

/-- no `#[bits]`: the width is the least `k` such that the largest discriminant is `< 2^k` -/
theorem parseWidth_default (m : Nat) (hm : m ≤ 255) :
    ∃ k, parseWidth none m = .ok k ∧ m < 2 ^ k ∧ ∀ j, m < 2 ^ j → k ≤ j := by
  refine ⟨clog2 (m + 1), rfl, ?_, ?_⟩
  · exact (clog2_spec (m + 1) (by omega)).1
  · intro j hj
    exact (clog2_le_iff (m + 1) (by omega) j).mpr hj

/-- `#[bits(w)]` with `w` at least the minimum: the width is `w` -/
theorem parseWidth_declared (w m : Nat) (hm : m ≤ 255) (h : m < 2 ^ w) : parseWidth (some w) m = .ok w := by
  have : clog2 (m + 1) ≤ w := (clog2_le_iff (m + 1) (by omega) w).mpr h
  simp only [parseWidth]
  rw [if_neg (by omega)]

/-- `#[bits(w)]` too small for the largest discriminant: an error naming the minimum -/
theorem parseWidth_rejects_small (w m : Nat) (hm : m ≤ 255) (h : 2 ^ w ≤ m) :
    ∃ k, parseWidth (some w) m = .error (.widthTooSmall k) ∧ w < k ∧ m < 2 ^ k ∧ ∀ j, m < 2 ^ j → k ≤ j := by
  have hlt : w < clog2 (m + 1) := by
    apply Classical.byContradiction
    intro hc
    have := (clog2_le_iff (m + 1) (by omega) w).mp (by omega)
    omega
  refine ⟨clog2 (m + 1), ?_, hlt, (clog2_spec (m + 1) (by omega)).1,
    fun j hj => (clog2_le_iff (m + 1) (by omega) j).mpr hj⟩
  simp only [parseWidth]
  rw [if_pos hlt]

/-! ### 3. well-formed declarations -/

/-- the minimal width of a declaration -/
def minWidth (d : EnumDecl) : Nat := clog2 (maxDisc d.variants + 1)

/-- the width the declaration asks for: `#[bits(w)]`, else the minimal one -/
def widthOf (d : EnumDecl) : Nat := d.bits.getD (minWidth d)

/-- a declaration the macro can honour -/
structure WellFormed (d : EnumDecl) : Prop where
  /-- at least one variant (an empty enum expands to a syntax error in Rust; the model does not
      represent that, see `derive_empty_model`) -/
  nonempty : d.variants ≠ []
  /-- every variant has an integer discriminant in `0..=255` -/
  discs : GoodDiscs d.variants
  /-- discriminants and `#[alt]` patterns are pairwise distinct ... -/
  patterns_nodup : (patterns d.variants).Nodup
  /-- ... and are `u8` literals -/
  patterns_lt : ∀ b ∈ patterns d.variants, b < 256
  /-- the display bytes are pairwise distinct -/
  displays_nodup : (displays d.variants).Nodup
  /-- a declared width is at least the minimum -/
  width_ok : ∀ w, d.bits = some w → minWidth d ≤ w

def wellFormedOk (d : EnumDecl) : Bool :=
  !d.variants.isEmpty
  && d.variants.all (fun v => match v.disc with
      | some x => decide (x ≤ 255)
      | none => false)
  && decide (patterns d.variants).Nodup
  && (patterns d.variants).all (fun b => decide (b < 256))
  && decide (displays d.variants).Nodup
  && (match d.bits with
      | none => true
      | some w => decide (minWidth d ≤ w))

theorem wellFormed_iff (d : EnumDecl) : WellFormed d ↔ wellFormedOk d = true := by
  simp only [wellFormedOk, Bool.and_eq_true, Bool.not_eq_true', List.isEmpty_eq_false_iff, List.all_eq_true,
    decide_eq_true_eq]
  constructor
  · intro wf
    refine ⟨⟨⟨⟨⟨wf.nonempty, ?_⟩, wf.patterns_nodup⟩, wf.patterns_lt⟩, wf.displays_nodup⟩, ?_⟩
    · intro v hv
      obtain ⟨x, hx, hle⟩ := wf.discs v hv
      simp [hx, hle]
    · cases hb : d.bits with
      | none => rfl
      | some w => simpa using wf.width_ok w hb
  · rintro ⟨⟨⟨⟨⟨h1, h2⟩, h3⟩, h4⟩, h5⟩, h6⟩
    refine ⟨h1, ?_, h3, h4, h5, ?_⟩
    · intro v hv
      have := h2 v hv
      cases hd : v.disc with
      | none => simp [hd] at this
      | some x => exact ⟨x, rfl, by simpa [hd] using this⟩
    · intro w hw
      simpa [hw] using h6

instance (d : EnumDecl) : Decidable (WellFormed d) := decidable_of_iff _ (wellFormed_iff d).symm

/-- the display character as documented (a `char`); the macro casts it to `u8` -/
def specChar (v : VariantDecl) : Nat :=
  match v.display with
  | some c => c
  | none => (v.ident.toList.headD 'A').toNat

/-- every display character is a single byte (so the `as u8` cast and `bytes().next()` keep it) -/
def DisplayBytes (d : EnumDecl) : Prop := ∀ v ∈ d.variants, specChar v < 256

instance (d : EnumDecl) : Decidable (DisplayBytes d) := List.decidableBAll _ _

/-- non-vacuity: the four derived codecs of the crate are declared well-formed -/
theorem builtin_wellFormed :
    ∀ o ∈ [Gen.decl_iupac, Gen.decl_amino, Gen.decl_mdna, Gen.decl_miupac], ∃ d, o = some d ∧ WellFormed d := by
  intro o ho
  simp only [List.mem_cons, List.mem_nil_iff, or_false] at ho
  rcases ho with rfl | rfl | rfl | rfl
  · exact ⟨_, rfl, by decide +kernel⟩
  · exact ⟨_, rfl, by decide +kernel⟩
  · exact ⟨_, rfl, by decide +kernel⟩
  · exact ⟨_, rfl, by decide +kernel⟩

/-- ... and their display characters are single bytes -/
theorem builtin_displayBytes :
    ∀ o ∈ [Gen.decl_iupac, Gen.decl_amino, Gen.decl_mdna, Gen.decl_miupac], ∃ d, o = some d ∧ DisplayBytes d := by
  intro o ho
  simp only [List.mem_cons, List.mem_nil_iff, or_false] at ho
  rcases ho with rfl | rfl | rfl | rfl
  · exact ⟨_, rfl, by decide +kernel⟩
  · exact ⟨_, rfl, by decide +kernel⟩
  · exact ⟨_, rfl, by decide +kernel⟩
  · exact ⟨_, rfl, by decide +kernel⟩

theorem WellFormed.maxDisc_le {d : EnumDecl} (wf : WellFormed d) : maxDisc d.variants ≤ 255 :=
  C17.maxDisc_le _ _ (fun _ hv => wf.discs.discOf_le hv)

theorem WellFormed.discs_nodup {d : EnumDecl} (wf : WellFormed d) : (d.variants.map discOf).Nodup :=
  wf.patterns_nodup.sublist (discs_sublist_patterns _)

theorem WellFormed.minWidth_le {d : EnumDecl} (wf : WellFormed d) : minWidth d ≤ widthOf d := by
  unfold widthOf
  cases hb : d.bits with
  | none => exact Nat.le_refl _
  | some w => exact wf.width_ok w hb

/-! ### 4. the derived implementation -/

/-- the impl a well-formed declaration gets, written out -/
def derived (name : String) (d : EnumDecl) : Codec :=
  { name := name
    width := widthOf d
    items := d.variants.map discOf
    tryFromBits := fun b => if b < 256 then firstArm (bitArms d.variants) b else none
    unsafeFromBits := fun b => if b < 256 then firstArm (bitArms d.variants) b else none
    tryFromAscii := fun c => if c < 256 then firstArm (charArms d.variants) c else none
    unsafeFromAscii := fun c => if c < 256 then firstArm (charArms d.variants) c else none
    toChar := fun s => (firstArm (toChars d.variants) s).getD 0
    comp := fun _ => none
    mask := fun _ => none
    unmask := fun _ => none }

theorem parseWidth_of_wf {d : EnumDecl} (wf : WellFormed d) :
    parseWidth d.bits (maxDisc d.variants) = .ok (widthOf d) := by
  unfold widthOf
  cases hb : d.bits with
  | none => rfl
  | some w =>
    have := wf.width_ok w hb
    unfold minWidth at this
    simp only [parseWidth, Option.getD_some]
    rw [if_neg (by omega)]

theorem derive_eq (name : String) (d : EnumDecl) (wf : WellFormed d) : derive name d = .ok (derived name d) := by
  unfold derive
  rw [parseVariants_ok _ wf.discs]
  simp only
  have : (parsedOf d.variants).maxDisc = maxDisc d.variants := rfl
  rw [this, parseWidth_of_wf wf]
  rfl

/-- **a well-formed declaration compiles** -/
theorem derive_ok (name : String) (d : EnumDecl) (wf : WellFormed d) : ∃ c, derive name d = .ok c :=
  ⟨_, derive_eq name d wf⟩

/-- **width**: the declared one, else the least `k` with `max discriminant < 2^k` -/
theorem derive_width (name : String) (d : EnumDecl) (wf : WellFormed d) (c : Codec) (h : derive name d = .ok c) :
    (∀ w, d.bits = some w → c.width = w) ∧
    (d.bits = none → maxDisc d.variants < 2 ^ c.width ∧ ∀ j, maxDisc d.variants < 2 ^ j → c.width ≤ j) ∧
    maxDisc d.variants < 2 ^ c.width := by
  rw [derive_eq name d wf] at h
  injection h with h
  subst h
  have hm := wf.maxDisc_le
  have hmin : maxDisc d.variants < 2 ^ minWidth d := (clog2_spec (maxDisc d.variants + 1) (by omega)).1
  refine ⟨?_, ?_, ?_⟩
  · intro w hw; simp [derived, widthOf, hw]
  · intro hn
    have : (derived name d).width = minWidth d := by simp [derived, widthOf, hn]
    rw [this]
    exact ⟨hmin, fun j hj => (clog2_le_iff (maxDisc d.variants + 1) (by omega) j).mpr hj⟩
  · exact Nat.lt_of_lt_of_le hmin (Nat.pow_le_pow_right (by decide) wf.minWidth_le)

/-- the largest discriminant is a discriminant -/
theorem maxDisc_is_disc (d : EnumDecl) (wf : WellFormed d) :
    (∃ v ∈ d.variants, discOf v = maxDisc d.variants) ∧ ∀ v ∈ d.variants, discOf v ≤ maxDisc d.variants :=
  ⟨maxDisc_attained _ wf.nonempty, fun _ hv => le_maxDisc hv⟩

section clauses
variable (name : String) (d : EnumDecl) (wf : WellFormed d)
include wf

omit wf in
/-- the symbol list is the variants in declaration order -/
theorem derived_items : (derived name d).items = d.variants.map discOf := rfl

/-- every discriminant fits the width -/
theorem derived_fits (v : VariantDecl) (hv : v ∈ d.variants) : discOf v < 2 ^ (derived name d).width :=
  Nat.lt_of_le_of_lt (le_maxDisc hv) (derive_width name d wf _ (derive_eq name d wf)).2.2

/-- **decoding, exactly**: a bit pattern decodes to `x` iff it is the discriminant or a listed
    alternative of the variant with discriminant `x`; every other pattern is refused -/
theorem derived_bits_iff (b x : Nat) :
    (derived name d).tryFromBits b = some x ↔ ∃ v ∈ d.variants, x = discOf v ∧ (b = discOf v ∨ b ∈ v.alts) := by
  have hn : ((bitArms d.variants).map (·.1)).Nodup := by rw [bitArms_keys]; exact wf.patterns_nodup
  rw [← mem_bitArms]
  show (if b < 256 then firstArm (bitArms d.variants) b else none) = some x ↔ _
  constructor
  · intro h
    by_cases hb : b < 256
    · rw [if_pos hb] at h; exact firstArm_mem h
    · rw [if_neg hb] at h; cases h
  · intro h
    have hb : b < 256 := by
      apply wf.patterns_lt
      rw [← bitArms_keys]
      exact List.mem_map.mpr ⟨_, h, rfl⟩
    rw [if_pos hb]
    exact firstArm_of_nodup hn h

/-- each variant decodes from its discriminant -/
theorem derived_bits_disc (v : VariantDecl) (hv : v ∈ d.variants) :
    (derived name d).tryFromBits (discOf v) = some (discOf v) :=
  (derived_bits_iff name d wf _ _).mpr ⟨v, hv, rfl, Or.inl rfl⟩

/-- and from each listed alternative -/
theorem derived_bits_alt (v : VariantDecl) (hv : v ∈ d.variants) (a : Nat) (ha : a ∈ v.alts) :
    (derived name d).tryFromBits a = some (discOf v) :=
  (derived_bits_iff name d wf _ _).mpr ⟨v, hv, rfl, Or.inr ha⟩

/-- bit patterns that are neither a discriminant nor an alternative are refused -/
theorem derived_bits_refused (b : Nat) (hb : b ∉ patterns d.variants) : (derived name d).tryFromBits b = none := by
  cases h : (derived name d).tryFromBits b with
  | none => rfl
  | some x =>
    obtain ⟨v, hv, _, h' | h'⟩ := (derived_bits_iff name d wf b x).mp h
    · exact absurd (h' ▸ discOf_mem_patterns hv) hb
    · exact absurd (alt_mem_patterns hv h') hb

/-- **parsing, exactly**: a byte parses to `x` iff it is the display byte of the variant with
    discriminant `x`; every other byte is refused -/
theorem derived_ascii_iff (b x : Nat) :
    (derived name d).tryFromAscii b = some x ↔ ∃ v ∈ d.variants, x = discOf v ∧ b = charRepr v := by
  have hn : ((charArms d.variants).map (·.1)).Nodup := by rw [charArms_keys]; exact wf.displays_nodup
  rw [← mem_charArms]
  show (if b < 256 then firstArm (charArms d.variants) b else none) = some x ↔ _
  constructor
  · intro h
    by_cases hb : b < 256
    · rw [if_pos hb] at h; exact firstArm_mem h
    · rw [if_neg hb] at h; cases h
  · intro h
    have hb : b < 256 := by
      obtain ⟨v, _, _, rfl⟩ := mem_charArms.mp h
      exact charRepr_lt v
    rw [if_pos hb]
    exact firstArm_of_nodup hn h

theorem derived_ascii_refused (b : Nat) (hb : b ∉ displays d.variants) : (derived name d).tryFromAscii b = none := by
  cases h : (derived name d).tryFromAscii b with
  | none => rfl
  | some x =>
    obtain ⟨v, hv, _, h'⟩ := (derived_ascii_iff name d wf b x).mp h
    exact absurd (h' ▸ List.mem_map.mpr ⟨v, hv, rfl⟩) hb

/-- each variant prints as its display byte, which parses back to it -/
theorem derived_char (v : VariantDecl) (hv : v ∈ d.variants) :
    (derived name d).toChar (discOf v) = charRepr v ∧
    (derived name d).tryFromAscii (charRepr v) = some (discOf v) := by
  have hn : ((toChars d.variants).map (·.1)).Nodup := by rw [toChars_keys]; exact wf.discs_nodup
  constructor
  · show (firstArm (toChars d.variants) (discOf v)).getD 0 = _
    rw [firstArm_of_nodup hn (mem_toChars hv)]
    rfl
  · exact (derived_ascii_iff name d wf _ _).mpr ⟨v, hv, rfl, rfl⟩

omit wf in
/-- the unchecked decoders are the same `match`es (they panic where the fallible ones refuse) -/
theorem derived_unchecked :
    (derived name d).unsafeFromBits = (derived name d).tryFromBits ∧
    (derived name d).unsafeFromAscii = (derived name d).tryFromAscii := ⟨rfl, rfl⟩

end clauses

/-! #### the same, against the documented table `Spec.ofDecl` (the C05 laws) -/

def symOf (v : VariantDecl) : Spec.SymSpec :=
  { code := discOf v, char := specChar v, altCodes := v.alts, altChars := [] }

theorem ofDecl_eq (d : EnumDecl) : Spec.ofDecl d = d.variants.map symOf := rfl

theorem charRepr_eq_specChar {v : VariantDecl} (h : specChar v < 256) : charRepr v = specChar v := by
  unfold charRepr specChar at *
  cases hd : v.display with
  | none => rw [hd] at h; exact Nat.mod_eq_of_lt h
  | some c => rw [hd] at h; exact Nat.mod_eq_of_lt h

/-- **the derived codec satisfies the C05 laws against its own declaration** -/
theorem derive_laws (name : String) (d : EnumDecl) (wf : WellFormed d) (hb : DisplayBytes d)
    (c : Codec) (h : derive name d = .ok c) : C05.Laws c (Spec.ofDecl d) := by
  rw [derive_eq name d wf] at h
  injection h with h
  subst h
  have hcodes : (d.variants.map symOf).map (·.code) = d.variants.map discOf := by
    simp [List.map_map, symOf, Function.comp_def]
  have hchars : (d.variants.map symOf).map (·.char) = displays d.variants := by
    simp only [List.map_map, displays]
    apply List.map_congr_left
    intro v hv
    exact (charRepr_eq_specChar (hb v hv)).symm
  rw [ofDecl_eq]
  refine ⟨by rw [hcodes]; rfl, ?_, ?_, ?_, ?_, ?_, by rw [hcodes]; exact wf.discs_nodup,
    by rw [hchars]; exact wf.displays_nodup, ?_, ?_, fun _ _ _ h => h, fun _ _ _ h => h⟩
  · intro s hs
    obtain ⟨v, hv, rfl⟩ := List.mem_map.mp hs
    exact derived_fits name d wf v hv
  · intro s hs
    obtain ⟨v, hv, rfl⟩ := List.mem_map.mp hs
    exact derived_bits_disc name d wf v hv
  · intro s hs a ha
    obtain ⟨v, hv, rfl⟩ := List.mem_map.mp hs
    exact derived_bits_alt name d wf v hv a ha
  · intro s hs
    obtain ⟨v, hv, rfl⟩ := List.mem_map.mp hs
    have := derived_char name d wf v hv
    rw [charRepr_eq_specChar (hb v hv)] at this
    exact this
  · intro s hs a ha
    obtain ⟨v, hv, rfl⟩ := List.mem_map.mp hs
    cases ha
  · intro b _ x hx
    obtain ⟨v, hv, rfl, h⟩ := (derived_bits_iff name d wf b x).mp hx
    exact ⟨symOf v, List.mem_map.mpr ⟨v, hv, rfl⟩, rfl, h⟩
  · intro b _ x hx
    obtain ⟨v, hv, rfl, h⟩ := (derived_ascii_iff name d wf b x).mp hx
    exact ⟨symOf v, List.mem_map.mpr ⟨v, hv, rfl⟩, rfl, Or.inl (by rw [h]; exact charRepr_eq_specChar (hb v hv))⟩

/-! ### 5. declarations that cannot be honoured are errors -/

/-- the first variant without an (integer) discriminant is reported -/
theorem derive_rejects_missing (name : String) (d : EnumDecl) (pre : List VariantDecl) (v : VariantDecl)
    (post : List VariantDecl) (hd : d.variants = pre ++ v :: post) (hpre : GoodDiscs pre) (hv : v.disc = none) :
    derive name d = .error (.missingDiscriminant v.ident) := by
  unfold derive
  rw [hd, parseVariants_missing pre v post hpre hv]

/-- a discriminant that does not fit `u8` panics the macro (`base10_parse::<u8>().unwrap()`) -/
theorem derive_rejects_overflow (name : String) (d : EnumDecl) (pre : List VariantDecl) (v : VariantDecl)
    (post : List VariantDecl) (hd : d.variants = pre ++ v :: post) (hpre : GoodDiscs pre) (x : Nat)
    (hv : v.disc = some x) (hx : 255 < x) :
    derive name d = .error .panic := by
  unfold derive
  rw [hd, parseVariants_overflow pre v post hpre x hv hx]

/-- both rejections in the form of the property: any bad variant anywhere makes `derive` fail -/
theorem derive_rejects (name : String) (d : EnumDecl)
    (h : ∃ v ∈ d.variants, v.disc = none ∨ ∃ x, v.disc = some x ∧ 255 < x) :
    ∃ e, derive name d = .error e ∧ (e = .panic ∨ ∃ i, e = .missingDiscriminant i) := by
  have key : ∀ vs : List VariantDecl, (∃ v ∈ vs, v.disc = none ∨ ∃ x, v.disc = some x ∧ 255 < x) →
      ∃ pre v post, vs = pre ++ v :: post ∧ GoodDiscs pre ∧ (v.disc = none ∨ ∃ x, v.disc = some x ∧ 255 < x) := by
    intro vs
    induction vs with
    | nil => rintro ⟨v, hv, _⟩; cases hv
    | cons u us ih =>
      intro hex
      by_cases hu : ∃ x, u.disc = some x ∧ x ≤ 255
      · obtain ⟨v, hv, hbad⟩ := hex
        have hvu : v ∈ us := by
          rcases List.mem_cons.mp hv with rfl | h'
          · obtain ⟨x, hx, hle⟩ := hu
            rcases hbad with hn | ⟨y, hy, hlt⟩
            · rw [hx] at hn; cases hn
            · rw [hx] at hy; injection hy with hy; omega
          · exact h'
        obtain ⟨pre, w, post, he, hg, hw⟩ := ih ⟨v, hvu, hbad⟩
        refine ⟨u :: pre, w, post, by rw [he]; rfl, ?_, hw⟩
        intro z hz
        rcases List.mem_cons.mp hz with rfl | h'
        · exact hu
        · exact hg z h'
      · refine ⟨[], u, us, rfl, (by intro _ h; cases h), ?_⟩
        cases hdisc : u.disc with
        | none => exact Or.inl rfl
        | some x => exact Or.inr ⟨x, rfl, by
            apply Classical.byContradiction
            intro hle
            exact hu ⟨x, hdisc, by omega⟩⟩
  obtain ⟨pre, v, post, he, hg, hbad⟩ := key d.variants h
  rcases hbad with hn | ⟨x, hx, hlt⟩
  · exact ⟨_, derive_rejects_missing name d pre v post he hg hn, Or.inr ⟨_, rfl⟩⟩
  · exact ⟨_, derive_rejects_overflow name d pre v post he hg x hx hlt, Or.inl rfl⟩

/-- a declared width below the minimum is an error naming the minimum -/
theorem derive_rejects_small_width (name : String) (d : EnumDecl) (hg : GoodDiscs d.variants) (w : Nat)
    (hw : d.bits = some w) (hlt : w < minWidth d) :
    derive name d = .error (.widthTooSmall (minWidth d)) ∧
    2 ^ w ≤ maxDisc d.variants ∧ maxDisc d.variants < 2 ^ minWidth d := by
  have hm : maxDisc d.variants ≤ 255 := C17.maxDisc_le _ _ (fun _ hv => hg.discOf_le hv)
  refine ⟨?_, ?_, (clog2_spec (maxDisc d.variants + 1) (by omega)).1⟩
  · unfold derive
    rw [parseVariants_ok _ hg]
    simp only
    have : (parsedOf d.variants).maxDisc = maxDisc d.variants := rfl
    rw [this, hw]
    unfold minWidth at hlt
    simp only [parseWidth]
    rw [if_pos hlt]
    rfl
  · apply Classical.byContradiction
    intro hc
    have := (clog2_le_iff (maxDisc d.variants + 1) (by omega) w).mpr (by omega)
    unfold minWidth at hlt
    omega

/-! ### 6. sequences over a derived codec: the C01 round-trip laws apply -/

/-- with two or more variants the minimal width is at least one bit -/
theorem WellFormed.width_pos {d : EnumDecl} (wf : WellFormed d) (h2 : 2 ≤ d.variants.length) : 1 ≤ widthOf d := by
  have hpos := maxDisc_pos_of_two d.variants wf.discs_nodup h2
  have hm := wf.maxDisc_le
  have : ¬ minWidth d ≤ 0 := by
    intro hc
    have := (clog2_le_iff (maxDisc d.variants + 1) (by omega) 0).mp hc
    omega
  have := wf.minWidth_le
  omega

theorem WellFormed.width_le {d : EnumDecl} (wf : WellFormed d) (h8 : ∀ w, d.bits = some w → w ≤ 8) :
    widthOf d ≤ 8 := by
  unfold widthOf
  cases hb : d.bits with
  | some w => exact h8 w hb
  | none =>
    have hm := wf.maxDisc_le
    exact (clog2_le_iff (maxDisc d.variants + 1) (by omega) 8).mpr (by omega)

/-- **a derived codec is a well-formed codec**: 2 or more variants, declared width (if any) at most 8 -/
theorem derived_codecWF (name : String) (d : EnumDecl) (wf : WellFormed d) (h2 : 2 ≤ d.variants.length)
    (h8 : ∀ w, d.bits = some w → w ≤ 8) (c : Codec) (h : derive name d = .ok c) : CodecWF c := by
  rw [derive_eq name d wf] at h
  injection h with h
  subst h
  refine ⟨wf.width_pos h2, wf.width_le h8, ?_, ?_, ?_, ?_⟩
  · intro b s hs
    obtain ⟨v, hv, rfl, _⟩ := (derived_ascii_iff name d wf b s).mp hs
    exact List.mem_map.mpr ⟨v, hv, rfl⟩
  · intro s hs
    obtain ⟨v, hv, rfl⟩ := List.mem_map.mp hs
    exact derived_fits name d wf v hv
  · intro s hs
    obtain ⟨v, hv, rfl⟩ := List.mem_map.mp hs
    exact derived_bits_disc name d wf v hv
  · intro s hs
    obtain ⟨v, hv, rfl⟩ := List.mem_map.mp hs
    have := derived_char name d wf v hv
    rw [this.1]
    exact this.2

open BioSeq.Seq in
/-- **sequences over a derived codec round-trip like the built-ins**: displaying any sequence of
    declared symbols and parsing it back gives the same packed sequence, which displays the same -/
theorem derived_roundtrip (p : Profile) (name : String) (d : EnumDecl) (wf : WellFormed d) (h2 : 2 ≤ d.variants.length)
    (h8 : ∀ w, d.bits = some w → w ≤ 8) (c : Codec) (h : derive name d = .ok c)
    (cs : List Nat) (hc : ∀ x ∈ cs, ∃ v ∈ d.variants, x = discOf v) (hov : cs.length * c.width < W64) :
    parseBytes c (cs.map c.toChar) = .ok (pack c.width cs) ∧
    display p c (pack c.width cs) = .ok (cs.map c.toChar) := by
  have cwf := derived_codecWF name d wf h2 h8 c h
  have hcan : Canon c cs := by
    intro x hx
    obtain ⟨v, hv, rfl⟩ := hc x hx
    rw [derive_eq name d wf] at h
    injection h with h
    subst h
    exact List.mem_map.mpr ⟨v, hv, rfl⟩
  obtain ⟨s, hs1, hs2⟩ := C01.display_parse_display p c cwf cs hcan hov
  have := C01.parse_display c cwf cs hcan
  rw [this] at hs1
  injection hs1 with hs1
  subst hs1
  exact ⟨this, hs2⟩

open BioSeq.Seq in
/-- and text parses exactly as for the built-ins: packed symbols, or the first refused byte -/
theorem derived_parse_spec (name : String) (d : EnumDecl) (wf : WellFormed d) (h2 : 2 ≤ d.variants.length)
    (h8 : ∀ w, d.bits = some w → w ≤ 8) (c : Codec) (h : derive name d = .ok c) (bytes : List Nat) :
    parseBytes c bytes = match bytes.find? (C01.bad c) with
      | none => .ok (pack c.width (C01.symbolsOf c bytes))
      | some b => .error (.unrecognisedBase b) :=
  C01.parse_spec c (derived_codecWF name d wf h2 h8 c h) bytes

/-! ### 7. the model re-derives the crate's four derived codecs from their declarations -/

/-- the inputs on which the generated `match` with these arms and an extracted 256-entry table
    differ (one linear walk) -/
def armFailures (arms : List (Nat × Nat)) (t : List (Option Nat)) : List Nat :=
  (((List.range 256).zip t).filter fun bt => firstArm arms bt.1 != bt.2).map (·.1)

/-- where the impl derived from declaration `d` and the extracted codec `g` (with fallible /
    unchecked bit and byte tables `tb ub ta ua`) differ -/
def matchFailures (d : EnumDecl) (g : Codec) (tb ub ta ua : List (Option Nat)) : List (String × Nat) :=
  (if widthOf d = g.width then [] else [("width", widthOf d)])
  ++ (if d.variants.map discOf = g.items then [] else [("items", 0)])
  ++ (if tb.length = 256 ∧ ta.length = 256 then [] else [("table length", 0)])
  ++ (if ub = tb then [] else [("unsafe_from_bits differs from try_from_bits", 0)])
  ++ (if ua = ta then [] else [("unsafe_from_ascii differs from try_from_ascii", 0)])
  ++ forceArms (bitArms d.variants) (fun arms => (armFailures arms tb).map fun b => ("try_from_bits", b))
  ++ forceArms (charArms d.variants) (fun arms => (armFailures arms ta).map fun b => ("try_from_ascii", b))
  ++ forceArms (toChars d.variants) (fun arms =>
      (g.items.filter fun s => (firstArm arms s).getD 0 != g.toChar s).map fun s => ("to_char", s))

def matchFailures? (o : Option EnumDecl) (g : Codec) (tb ub ta ua : List (Option Nat)) : List (String × Nat) :=
  match o with
  | none => [("declaration not found in the source", 0)]
  | some d => matchFailures d g tb ub ta ua

/-- the derived (model) codec `c` and the extracted (compiled) codec `g` agree -/
structure Agrees (c g : Codec) : Prop where
  width : c.width = g.width
  items : c.items = g.items
  tryFromBits : ∀ b, b < 256 → c.tryFromBits b = g.tryFromBits b
  unsafeFromBits : ∀ b, b < 256 → c.unsafeFromBits b = g.unsafeFromBits b
  tryFromAscii : ∀ b, b < 256 → c.tryFromAscii b = g.tryFromAscii b
  unsafeFromAscii : ∀ b, b < 256 → c.unsafeFromAscii b = g.unsafeFromAscii b
  toChar : ∀ s ∈ g.items, c.toChar s = g.toChar s

theorem armFailures_nil {arms : List (Nat × Nat)} {t : List (Option Nat)} (hlen : t.length = 256)
    (h : armFailures arms t = []) (b : Nat) (hb : b < 256) : firstArm arms b = lookup t b := by
  have hm := zip_range_mem none t 256 b hlen hb
  have := (List.filter_eq_nil_iff.mp (List.map_eq_nil_iff.mp h)) _ hm
  simp only [bne_iff_ne, ne_eq, Decidable.not_not] at this
  exact this

theorem agrees_of_noFailures (name : String) (d : EnumDecl) (g : Codec) (tb ub ta ua : List (Option Nat))
    (h1 : g.tryFromBits = lookup tb) (h2 : g.unsafeFromBits = lookup ub)
    (h3 : g.tryFromAscii = lookup ta) (h4 : g.unsafeFromAscii = lookup ua)
    (h : matchFailures d g tb ub ta ua = []) : Agrees (derived name d) g := by
  simp only [matchFailures, forceArms_eq, List.append_eq_nil_iff, List.map_eq_nil_iff] at h
  obtain ⟨⟨⟨⟨⟨⟨⟨hw, hi⟩, hl⟩, hub⟩, hua⟩, hb⟩, ha⟩, hc⟩ := h
  have hw' : widthOf d = g.width := by
    by_cases e : widthOf d = g.width
    · exact e
    · rw [if_neg e] at hw; cases hw
  have hi' : d.variants.map discOf = g.items := by
    by_cases e : d.variants.map discOf = g.items
    · exact e
    · rw [if_neg e] at hi; cases hi
  have hl' : tb.length = 256 ∧ ta.length = 256 := by
    by_cases e : tb.length = 256 ∧ ta.length = 256
    · exact e
    · rw [if_neg e] at hl; cases hl
  have hub' : ub = tb := by
    by_cases e : ub = tb
    · exact e
    · rw [if_neg e] at hub; cases hub
  have hua' : ua = ta := by
    by_cases e : ua = ta
    · exact e
    · rw [if_neg e] at hua; cases hua
  have hbits : ∀ b, b < 256 → (if b < 256 then firstArm (bitArms d.variants) b else none) = lookup tb b := by
    intro b hlt; rw [if_pos hlt]; exact armFailures_nil hl'.1 hb b hlt
  have hascii : ∀ b, b < 256 → (if b < 256 then firstArm (charArms d.variants) b else none) = lookup ta b := by
    intro b hlt; rw [if_pos hlt]; exact armFailures_nil hl'.2 ha b hlt
  refine ⟨hw', hi', ?_, ?_, ?_, ?_, ?_⟩
  · intro b hlt; rw [h1]; exact hbits b hlt
  · intro b hlt; rw [h2, hub']; exact hbits b hlt
  · intro b hlt; rw [h3]; exact hascii b hlt
  · intro b hlt; rw [h4, hua']; exact hascii b hlt
  · intro s hs
    have := (List.filter_eq_nil_iff.mp hc) s hs
    simp only [bne_iff_ne, ne_eq, Decidable.not_not] at this
    exact this

theorem matches_of_noFailures (o : Option EnumDecl) (g : Codec) (tb ub ta ua : List (Option Nat))
    (h1 : g.tryFromBits = lookup tb) (h2 : g.unsafeFromBits = lookup ub)
    (h3 : g.tryFromAscii = lookup ta) (h4 : g.unsafeFromAscii = lookup ua)
    (ho : o ∈ [Gen.decl_iupac, Gen.decl_amino, Gen.decl_mdna, Gen.decl_miupac])
    (h : matchFailures? o g tb ub ta ua = []) :
    ∃ d c, o = some d ∧ WellFormed d ∧ derive g.name d = .ok c ∧ Agrees c g := by
  obtain ⟨d, hd, wf⟩ := builtin_wellFormed o ho
  subst hd
  exact ⟨d, _, rfl, wf, derive_eq g.name d wf, agrees_of_noFailures g.name d g tb ub ta ua h1 h2 h3 h4 h⟩

theorem iupac_matches (p : Profile) :
    ∃ d c, Gen.decl_iupac = some d ∧ WellFormed d ∧ derive (Gen.iupac p).name d = .ok c ∧ Agrees c (Gen.iupac p) := by
  cases p
  · exact matches_of_noFailures _ _ Gen.iupac_debug_tryFromBits Gen.iupac_debug_unsafeFromBits
      Gen.iupac_debug_tryFromAscii Gen.iupac_debug_unsafeFromAscii rfl rfl rfl rfl (by simp) (by decide +kernel)
  · exact matches_of_noFailures _ _ Gen.iupac_release_tryFromBits Gen.iupac_release_unsafeFromBits
      Gen.iupac_release_tryFromAscii Gen.iupac_release_unsafeFromAscii rfl rfl rfl rfl (by simp) (by decide +kernel)

theorem amino_matches (p : Profile) :
    ∃ d c, Gen.decl_amino = some d ∧ WellFormed d ∧ derive (Gen.amino p).name d = .ok c ∧ Agrees c (Gen.amino p) := by
  cases p
  · exact matches_of_noFailures _ _ Gen.amino_debug_tryFromBits Gen.amino_debug_unsafeFromBits
      Gen.amino_debug_tryFromAscii Gen.amino_debug_unsafeFromAscii rfl rfl rfl rfl (by simp) (by decide +kernel)
  · exact matches_of_noFailures _ _ Gen.amino_release_tryFromBits Gen.amino_release_unsafeFromBits
      Gen.amino_release_tryFromAscii Gen.amino_release_unsafeFromAscii rfl rfl rfl rfl (by simp) (by decide +kernel)

theorem mdna_matches (p : Profile) :
    ∃ d c, Gen.decl_mdna = some d ∧ WellFormed d ∧ derive (Gen.mdna p).name d = .ok c ∧ Agrees c (Gen.mdna p) := by
  cases p
  · exact matches_of_noFailures _ _ Gen.mdna_debug_tryFromBits Gen.mdna_debug_unsafeFromBits
      Gen.mdna_debug_tryFromAscii Gen.mdna_debug_unsafeFromAscii rfl rfl rfl rfl (by simp) (by decide +kernel)
  · exact matches_of_noFailures _ _ Gen.mdna_release_tryFromBits Gen.mdna_release_unsafeFromBits
      Gen.mdna_release_tryFromAscii Gen.mdna_release_unsafeFromAscii rfl rfl rfl rfl (by simp) (by decide +kernel)

theorem miupac_matches (p : Profile) :
    ∃ d c, Gen.decl_miupac = some d ∧ WellFormed d ∧ derive (Gen.miupac p).name d = .ok c ∧ Agrees c (Gen.miupac p) := by
  cases p
  · exact matches_of_noFailures _ _ Gen.miupac_debug_tryFromBits Gen.miupac_debug_unsafeFromBits
      Gen.miupac_debug_tryFromAscii Gen.miupac_debug_unsafeFromAscii rfl rfl rfl rfl (by simp) (by decide +kernel)
  · exact matches_of_noFailures _ _ Gen.miupac_release_tryFromBits Gen.miupac_release_unsafeFromBits
      Gen.miupac_release_tryFromAscii Gen.miupac_release_unsafeFromAscii rfl rfl rfl rfl (by simp) (by decide +kernel)

/-- **the compiled derived codecs are what the model derives from their declarations** (as read
    from the source): width, symbol list, both bit decoders and both byte parsers on all 256
    inputs, `to_char` on all symbols; both build profiles -/
theorem derive_matches_builtin (p : Profile) :
    ∀ og ∈ [(Gen.decl_iupac, Gen.iupac p), (Gen.decl_amino, Gen.amino p), (Gen.decl_mdna, Gen.mdna p),
      (Gen.decl_miupac, Gen.miupac p)],
    ∃ d c, og.1 = some d ∧ WellFormed d ∧ derive og.2.name d = .ok c ∧ Agrees c og.2 := by
  intro og hog
  simp only [List.mem_cons, List.mem_nil_iff, or_false] at hog
  rcases hog with rfl | rfl | rfl | rfl
  · exact iupac_matches p
  · exact amino_matches p
  · exact mdna_matches p
  · exact miupac_matches p

/-! ### 8. examples and non-vacuity -/

/-- a small declaration with alternatives, a display override and no declared width -/
def exDecl : EnumDecl :=
  { name := "Toy", bits := none, variants := [
    { ident := "A", disc := some 0, display := none, alts := [4] },
    { ident := "C", disc := some 1, display := none, alts := [] },
    { ident := "Gap", disc := some 5, display := some 45, alts := [6, 7] }] }

example : WellFormed exDecl ∧ DisplayBytes exDecl ∧ 2 ≤ exDecl.variants.length := by decide
example : (derived "toy" exDecl).width = 3 ∧ (derived "toy" exDecl).items = [0, 1, 5] := by decide
example : (List.range 9).map (derived "toy" exDecl).tryFromBits
    = [some 0, some 1, none, none, some 0, some 5, some 5, some 5, none] := by decide
example : [65, 67, 45, 71, 97].map (derived "toy" exDecl).tryFromAscii = [some 0, some 1, some 5, none, none] := by
  decide
example : [0, 1, 5].map (derived "toy" exDecl).toChar = [65, 67, 45] := by decide
example : derive "toy" { exDecl with bits := some 2 } = .error (.widthTooSmall 3) := rfl
example : (∃ c, derive "toy" { exDecl with bits := some 8 } = .ok c ∧ c.width = 8) :=
  ⟨_, derive_eq _ _ (by decide), rfl⟩
example : derive "toy" { exDecl with variants := exDecl.variants ++ [{ ident := "N", disc := none, display := none, alts := [] }] }
    = .error (.missingDiscriminant "N") := rfl
example : derive "toy" { exDecl with variants := exDecl.variants ++ [{ ident := "N", disc := some 256, display := none, alts := [] }] }
    = .error .panic := rfl
/-- the round trip instantiated on the example -/
example : Seq.parseBytes (derived "toy" exDecl) ([5, 0, 1, 5].map (derived "toy" exDecl).toChar)
    = .ok (pack 3 [5, 0, 1, 5]) :=
  (derived_roundtrip .debug "toy" exDecl (by decide) (by decide) (by decide) _ (derive_eq _ _ (by decide))
    [5, 0, 1, 5] (by decide) (by decide)).1

/-- *model limits*: an enum without variants is accepted by the model with width 0 (the real
    expansion `match b { , _ => .. }` is a syntax error), and a single variant with
    discriminant 0 gets `BITS = 0` in the model as in the real `parse_width` (row 0, column 0
    of the extracted graph); both are outside the property's 2..40 variants -/
example : ∃ c, derive "toy" { exDecl with variants := [{ ident := "A", disc := some 0, display := none, alts := [300] },
      { ident := "C", disc := some 1, display := none, alts := [] }] } = .ok c ∧ c.tryFromBits 300 = none :=
  ⟨_, rfl, rfl⟩

theorem derive_empty_model (name : String) (bits : Option Nat) (h : bits = none ∨ bits = some 0) :
    ∃ c, derive name { name := "E", bits := bits, variants := [] } = .ok c ∧ c.width = 0 ∧ c.items = [] := by
  rcases h with rfl | rfl <;> exact ⟨_, rfl, rfl, rfl⟩

end C17
end BioSeq
