/-
  C14 — ambiguous-codon translation is sound and complete; reverse translation is exact.

  * `Gen.tryToAmino_debug/release`: the graph of `STANDARD.try_to_amino` on all 16^3 three-symbol
    IUPAC codons (first symbol slowest), extracted from the compiled crate on this run; an entry
    is an amino code, or 1000 ambiguous / 1001 invalid codon / 1002 other error / 1003 panic.
  * `Gen.tryToCodon_debug/release`: `STANDARD.try_to_codon` on the 21 amino symbols:
    (amino code, kind, codon codes), kind 0 = a codon, 1 = ambiguous, 2/3/4 = other outcomes.
  * `Spec.aminoOf`: NCBI translation table 1;  `iupacCodes`: the standard meaning of the sixteen
    4-bit IUPAC codes as sets of bases (tied to `Spec.iupacSet` and to the one-hot bits below).
  * `Translation.tryToAmino` / `stdTryToCodon` on `Standard.rows p`: the hand model of
    translation/standard.rs run on the 29 `(iupac!("..."), Amino::X)` rows read from the source.

  Main statements, each for both build profiles:
  1. `try_to_amino_sound_complete`: for every gap-free codon the extracted entry is the amino `X`
     exactly when all concrete DNA codons matching it code for `X`, and "ambiguous" otherwise.
  2. `no_panic`, `gap_codons`: no entry of the 4096 is a panic / invalid / other error; what a
     codon containing a gap does (outside the property; recorded as found).
  3. `try_to_amino_invalid_length`, `rows_count`, `try_to_amino_model_eq_graph`: the model
     rejects every length ≠ 3 and reproduces the extracted graph on all 4096 codons;
     `try_to_amino_model_sound_complete` is the resulting statement about the model.
  4. `try_to_codon_exact`, `try_to_codon_roundtrip`, `try_to_codon_model_eq_graph`.
-/
import BioSeq.Lemmas.TranslationLemmas
import BioSeq.Standard
import BioSeq.Spec.Alphabets
import BioSeq.Generated.Translation
import BioSeq.Checks.WF
namespace BioSeq
namespace C14
open BioSeq.Seq BioSeq.TransL

/-- the extracted graph of `STANDARD.try_to_amino` -/
def table : Profile → List Nat
  | .debug => Gen.tryToAmino_debug
  | .release => Gen.tryToAmino_release

/-- the extracted graph of `STANDARD.try_to_codon` -/
def revTable : Profile → List (Nat × Nat × List Nat)
  | .debug => Gen.tryToCodon_debug
  | .release => Gen.tryToCodon_release

/-! ### 0. the alphabet: IUPAC codes as sets of DNA codes -/

/-- an IUPAC symbol: its 4-bit code and the 2-bit DNA codes (A0 C1 G2 T3) it stands for -/
abbrev Sym := Nat × List Nat

/-- the sixteen IUPAC codes (one-hot A=8 C=4 G=2 T=1; 0 is the gap) with their members -/
def iupacCodes : List Sym :=
  [(0, []), (1, [3]), (2, [2]), (3, [2, 3]), (4, [1]), (5, [1, 3]), (6, [1, 2]), (7, [1, 2, 3]),
   (8, [0]), (9, [0, 3]), (10, [0, 2]), (11, [0, 2, 3]), (12, [0, 1]), (13, [0, 1, 3]), (14, [0, 1, 2]),
   (15, [0, 1, 2, 3])]

theorem iupacCodes_codes : iupacCodes.map (·.1) = List.range 16 := by decide

/-- the members are the one-hot bits of the code: base `d` belongs to code `c` iff bit `3 - d` is set -/
theorem iupacCodes_onehot : ∀ s ∈ iupacCodes, ∀ d, d < 4 → (d ∈ s.2 ↔ s.1 / 2 ^ (3 - d) % 2 = 1) := by decide

/-- the members are the bases of the standard IUPAC ambiguity letter that the code displays as
    (`Spec.iupacSet`, e.g. code 10 displays as `R` = {A, G}); the gap has none -/
theorem iupacCodes_spec (p : Profile) : ∀ s ∈ iupacCodes,
    s.2.map (Gen.dna p).toChar = (Spec.iupacSet ((Gen.iupac p).toChar s.1)).map Char.toNat := by
  cases p <;> decide +kernel

/-- the DNA codes an IUPAC code stands for -/
def membersOf (c : Nat) : List Nat :=
  match iupacCodes.find? (·.1 == c) with
  | some s => s.2
  | none => []

theorem membersOf_mem : ∀ c, c < 16 → (c, membersOf c) ∈ iupacCodes := by decide

/-- all 16^3 codons in the order of the extracted table (first symbol slowest) -/
def codons : List (Sym × Sym × Sym) :=
  iupacCodes.flatMap fun a => iupacCodes.flatMap fun b => iupacCodes.map fun c => (a, b, c)

def codes (c : Sym × Sym × Sym) : Nat × Nat × Nat := (c.1.1, c.2.1.1, c.2.2.1)

def gapFree (c : Sym × Sym × Sym) : Bool := c.1.1 != 0 && c.2.1.1 != 0 && c.2.2.1 != 0

theorem table_length (p : Profile) : (table p).length = 4096 ∧ codons.length = 4096 := by
  cases p <;> decide +kernel

/-! ### 1. soundness and completeness on the extracted graph -/

/-- the NCBI letters of all concrete DNA codons `d0 d1 d2` with `d_i` a member of symbol `i` -/
def concrete (m0 m1 m2 : List Nat) : List Nat :=
  m0.flatMap fun d0 => m1.flatMap fun d1 => m2.map fun d2 => Spec.aminoOf d0 d1 d2

/-- the specified outcome: the common letter if all concrete codons agree, otherwise ambiguous -/
def expected (m0 m1 m2 : List Nat) : Option Nat :=
  match concrete m0 m1 m2 with
  | [] => none
  | x :: xs => if xs.all (· == x) then some x else none

/-- entry `e` realises the specified outcome: a listed amino displaying as the common letter, resp. 1000 -/
def agrees (p : Profile) (e : Nat) : Option Nat → Bool
  | some x => (Gen.amino p).items.contains e && (Gen.amino p).toChar e == x
  | none => e == 1000

/-- gap-free codons (with their entry) on which the extracted table deviates from the specification -/
def failures (p : Profile) : List ((Sym × Sym × Sym) × Nat) :=
  (codons.zip (table p)).filter fun (c, e) => gapFree c && !agrees p e (expected c.1.2 c.2.1.2 c.2.2.2)

/-- **sound and complete**: on all 15^3 gap-free codons the extracted `try_to_amino` returns the
    amino acid `X` iff every matching concrete DNA codon codes for `X` under NCBI table 1, and
    reports `AmbiguousTranslation` otherwise -/
theorem try_to_amino_sound_complete (p : Profile) : failures p = [] := by
  cases p <;> decide +kernel

/-- meaning of `concrete` -/
theorem mem_concrete (m0 m1 m2 : List Nat) (y : Nat) :
    y ∈ concrete m0 m1 m2 ↔ ∃ d0 ∈ m0, ∃ d1 ∈ m1, ∃ d2 ∈ m2, y = Spec.aminoOf d0 d1 d2 := by
  simp only [concrete, List.mem_flatMap, List.mem_map]
  constructor
  · rintro ⟨d0, h0, d1, h1, d2, h2, rfl⟩; exact ⟨d0, h0, d1, h1, d2, h2, rfl⟩
  · rintro ⟨d0, h0, d1, h1, d2, h2, rfl⟩; exact ⟨d0, h0, d1, h1, d2, h2, rfl⟩

/-- meaning of `expected`: `some x` iff there is a concrete codon and all of them code for `x` -/
theorem expected_eq_some_iff (m0 m1 m2 : List Nat) (x : Nat) :
    expected m0 m1 m2 = some x ↔ concrete m0 m1 m2 ≠ [] ∧ ∀ y ∈ concrete m0 m1 m2, y = x := by
  unfold expected
  cases h : concrete m0 m1 m2 with
  | nil => simp
  | cons a as =>
    simp only [ne_eq, reduceCtorEq, not_false_eq_true, true_and, List.mem_cons, forall_eq_or_imp]
    by_cases hall : as.all (· == a) = true
    · simp only [hall, if_true, Option.some.injEq]
      constructor
      · rintro rfl
        refine ⟨rfl, fun y hy => ?_⟩
        have := List.all_eq_true.mp hall y hy
        simpa using this
      · rintro ⟨rfl, _⟩; rfl
    · simp only [hall]
      constructor
      · intro h'; simp at h'
      · rintro ⟨rfl, h2⟩
        exfalso; apply hall
        exact List.all_eq_true.mpr (fun y hy => by simp [h2 y hy])

/-! ### 2. no panic; codons containing a gap -/

/-- entries of the whole 4096-entry table that are neither "ambiguous" nor a listed amino symbol -/
def badEntries (p : Profile) : List Nat :=
  (table p).filter fun e => !(e == 1000 || (Gen.amino p).items.contains e)

/-- **no panic**: on all 16^3 codons (gaps included) `try_to_amino` returns a listed amino symbol or
    `AmbiguousTranslation`; it never panics and never reports `InvalidCodon` or another error -/
theorem no_panic (p : Profile) : badEntries p = [] := by
  cases p <;> decide +kernel

/-- the entries of the codons that contain at least one gap -/
def gapEntries (p : Profile) : List ((Sym × Sym × Sym) × Nat) :=
  (codons.zip (table p)).filter fun (c, _) => !gapFree c

/-- **what gaps do** (outside the property, recorded as found): a gap is the empty set of bases and
    `contains` is a subset test, so a gap position is contained in *every* row pattern: codons with
    a gap are never rejected as invalid — they are reported ambiguous or translated to the amino of
    the first row matching the remaining positions (on the unchanged tree: 557 ambiguous, 164
    translated, e.g. `---`, `--T`, `--N` give A, `-T-` gives F, `A--` gives I; these particular
    outcomes depend on the order of the rows and are therefore not part of any theorem). -/
theorem gap_codons (p : Profile) :
    (gapEntries p).length = 721 ∧
    ((gapEntries p).filter fun ce => !(ce.2 == 1000 || (Gen.amino p).items.contains ce.2)) = [] := by
  cases p <;> decide +kernel

/-! ### 3. the model: invalid length, and model = extracted graph -/

/-- **invalid length**: every codon whose length is not three is reported `InvalidCodon`
    (for every codec, row table and bit content — the first test of the function) -/
theorem try_to_amino_invalid_length (c : Codec) (rows : List (Bits × Nat)) (codon : Bits)
    (h : len c codon ≠ 3) : Translation.tryToAmino c rows codon = .error .invalidCodon := by
  simp [Translation.tryToAmino, h]

theorem iupac_width (p : Profile) : (Gen.iupac p).width = 4 := by cases p <;> rfl

theorem try_to_amino_invalid_length_pack (p : Profile) (cs : List Nat) (h : cs.length ≠ 3) :
    Translation.tryToAmino (Gen.iupac p) (Standard.rows p) (pack 4 cs) = .error .invalidCodon := by
  apply try_to_amino_invalid_length
  have := len_pack (Gen.iupac p) (by rw [iupac_width]; omega) cs
  rw [iupac_width] at this
  rwa [this]

/-- the source declares 29 rows, and all of them were read and packed -/
theorem rows_count (p : Profile) : (Standard.rows p).length = 29 ∧
    (Gen.iupacAminoRows.map List.length) = some 29 := by
  cases p <;> decide +kernel

/-- every row names a listed amino symbol -/
theorem rows_amino_listed (p : Profile) : ∀ r ∈ Standard.rows p, r.2 ∈ (Gen.amino p).items := by
  cases p <;> decide +kernel

/-- a successful `try_to_amino` returns the amino of one of the rows -/
theorem tryToAmino_ok_mem (c : Codec) (rows : List (Bits × Nat)) (codon : Bits) (a : Nat)
    (h : Translation.tryToAmino c rows codon = .ok a) : ∃ r ∈ rows, r.2 = a := by
  unfold Translation.tryToAmino at h
  split at h
  · cases h
  · split at h
    · rename_i r hfind
      injection h with h
      exact ⟨r, List.mem_of_find?_eq_some hfind, h⟩
    · cases h

/-- the rows as codes -/
def rowCodes (p : Profile) : List Row :=
  (Standard.rows p).map fun r => match unpack 4 3 r.1 with
    | [a, b, c] => ((a, b, c), r.2)
    | _ => ((0, 0, 0), r.2)

theorem rows_packed (p : Profile) : Standard.rows p = (rowCodes p).map packRow ∧
    (rowCodes p).all (fun r => decide (r.1.1 < 16) && decide (r.1.2.1 < 16) && decide (r.1.2.2 < 16)) = true := by
  cases p <;> decide +kernel

theorem rowCodes_fit (p : Profile) : RowsFit (rowCodes p) := by
  intro r hr
  have := List.all_eq_true.mp (rows_packed p).2 r hr
  simp only [Bool.and_eq_true, decide_eq_true_eq] at this
  exact ⟨this.1.1, this.1.2, this.2⟩

/-- codes of all codons, table order -/
def codonCodes : List (Nat × Nat × Nat) := codonsOn (List.range 16)

theorem codons_codes : codons.map codes = codonCodes := by
  have h : (codons.map codes == codonCodes) = true := by decide +kernel
  exact eq_of_beq h

/-- kernel-evaluated: the code-level model table equals the extracted table -/
theorem modelTable_eq_table (p : Profile) : modelTableOn (List.range 16) (rowCodes p) = table p := by
  have h : (modelTableOn (List.range 16) (rowCodes p) == table p) = true := by
    cases p <;> decide +kernel
  exact eq_of_beq h

/-- the outcome of the model on the codon with IUPAC codes `c`, in the numbering of the table -/
def modelEntry (p : Profile) (c : Nat × Nat × Nat) : Nat :=
  enc (Translation.tryToAmino (Gen.iupac p) (Standard.rows p) (pack 4 [c.1, c.2.1, c.2.2]))

/-- **model = extracted graph**: running the hand model of `try_to_amino` on the 29 source rows over
    all 16^3 codons reproduces the extracted table entry for entry.  (`enc` numbers the outcomes as
    the extraction does; amino codes are below 64 — `rows_amino_listed` — so an `ok` result cannot
    be confused with the codes 1000..1003.) -/
theorem try_to_amino_model_eq_graph (p : Profile) : codonCodes.map (modelEntry p) = table p := by
  rw [← modelTable_eq_table p, modelTableOn_eq]
  apply List.map_congr_left
  intro c hc
  obtain ⟨h0, h1, h2⟩ := codonsOn_lt (List.range 16) 16 (fun x hx => List.mem_range.mp hx) c hc
  unfold modelEntry
  rw [(rows_packed p).1]
  exact enc_tryToAmino_codes (Gen.iupac p) (iupac_width p) (rowCodes p) (rowCodes_fit p) _ _ _ h0 h1 h2

/-- every codon sits in the indexed table next to the model's outcome for it -/
theorem model_entry_mem (p : Profile) (s0 s1 s2 : Sym) (h0 : s0 ∈ iupacCodes) (h1 : s1 ∈ iupacCodes)
    (h2 : s2 ∈ iupacCodes) :
    ((s0, s1, s2), modelEntry p (s0.1, s1.1, s2.1)) ∈ codons.zip (table p) := by
  rw [← try_to_amino_model_eq_graph p, ← codons_codes, List.map_map]
  have hm : (s0, s1, s2) ∈ codons := by
    unfold codons
    simp only [List.mem_flatMap, List.mem_map]
    exact ⟨s0, h0, s1, h1, s2, h2, rfl⟩
  exact mem_zip_map codons (modelEntry p ∘ codes) (s0, s1, s2) hm

/-- **soundness and completeness of the model** (pointwise form): for IUPAC codes `c0 c1 c2` in
    `1..15`, if all concrete DNA codons matching the codon code for the same letter `x` then
    `try_to_amino` returns a listed amino symbol displaying as `x`; otherwise it returns
    `AmbiguousTranslation` -/
theorem try_to_amino_model_sound_complete (p : Profile) (c0 c1 c2 : Nat)
    (h0 : 1 ≤ c0 ∧ c0 < 16) (h1 : 1 ≤ c1 ∧ c1 < 16) (h2 : 1 ≤ c2 ∧ c2 < 16) :
    match expected (membersOf c0) (membersOf c1) (membersOf c2) with
    | some x => ∃ a, Translation.tryToAmino (Gen.iupac p) (Standard.rows p) (pack 4 [c0, c1, c2]) = .ok a ∧
        a ∈ (Gen.amino p).items ∧ (Gen.amino p).toChar a = x
    | none => Translation.tryToAmino (Gen.iupac p) (Standard.rows p) (pack 4 [c0, c1, c2]) = .error .ambiguousTranslation := by
  have hmem : (((c0, membersOf c0), (c1, membersOf c1), (c2, membersOf c2)), modelEntry p (c0, c1, c2)) ∈
      codons.zip (table p) :=
    model_entry_mem p (c0, membersOf c0) (c1, membersOf c1) (c2, membersOf c2)
      (membersOf_mem c0 h0.2) (membersOf_mem c1 h1.2) (membersOf_mem c2 h2.2)
  have hg : gapFree ((c0, membersOf c0), (c1, membersOf c1), (c2, membersOf c2)) = true := by
    simp [gapFree]; omega
  have hf : agrees p (modelEntry p (c0, c1, c2)) (expected (membersOf c0) (membersOf c1) (membersOf c2)) = true := by
    have := List.filter_eq_nil_iff.mp (try_to_amino_sound_complete p) _ hmem
    cases hag : agrees p (modelEntry p (c0, c1, c2)) (expected (membersOf c0) (membersOf c1) (membersOf c2)) with
    | true => rfl
    | false => exfalso; apply this; simp only [hg, hag]; rfl
  have hit : ∀ a ∈ (Gen.amino p).items, a < 64 := by
    intro a ha
    have := (wf_amino p).item_lt a ha
    have hw : (Gen.amino p).width = 6 := by cases p <;> rfl
    rw [hw] at this; exact this
  have hok : ∀ a, Translation.tryToAmino (Gen.iupac p) (Standard.rows p) (pack 4 [c0, c1, c2]) = .ok a → a < 64 := by
    intro a ha
    obtain ⟨r, hr, rfl⟩ := tryToAmino_ok_mem _ _ _ _ ha
    exact hit _ (rows_amino_listed p r hr)
  unfold modelEntry at hf
  simp only at hf
  generalize Translation.tryToAmino (Gen.iupac p) (Standard.rows p) (pack 4 [c0, c1, c2]) = r at hf hok
  cases hexp : expected (membersOf c0) (membersOf c1) (membersOf c2) with
  | some x =>
    rw [hexp] at hf
    simp only [agrees, Bool.and_eq_true, beq_iff_eq, List.contains_eq_mem, decide_eq_true_eq] at hf
    cases r with
    | ok a => exact ⟨a, rfl, hf.1, hf.2⟩
    | error e =>
      exfalso
      have := hit _ hf.1
      cases e <;> simp [enc] at this
  | none =>
    rw [hexp] at hf
    simp only [agrees, beq_iff_eq] at hf
    cases r with
    | ok a =>
      exfalso
      simp only [enc] at hf
      have := hok a rfl
      omega
    | error e =>
      cases e <;> simp [enc] at hf
      rfl

/-! ### 4. reverse translation -/

def bases : List Nat := [0, 1, 2, 3]

/-- the 64 concrete DNA codons as code triples (first base slowest) -/
def dnaCodons : List (Nat × Nat × Nat) := matched bases bases bases

/-- the DNA codons that code for the letter `x` under NCBI table 1 -/
def codingSet (x : Nat) : List (Nat × Nat × Nat) :=
  dnaCodons.filter fun d => Spec.aminoOf d.1 d.2.1 d.2.2 == x

/-- the 15^3 gap-free IUPAC codons -/
def patterns : List (Sym × Sym × Sym) := codons.filter gapFree

/-- **the specification of "exact"**: the IUPAC codon `c` matches all and only the DNA codons
    that code for the letter `x` -/
def ExactFor (c : Sym × Sym × Sym) (x : Nat) : Prop :=
  ∀ d ∈ dnaCodons, (d.1 ∈ c.1.2 ∧ d.2.1 ∈ c.2.1.2 ∧ d.2.2 ∈ c.2.2.2) ↔ Spec.aminoOf d.1 d.2.1 d.2.2 = x

/-- executable form: the letter (if any) whose coding set is exactly the set of DNA codons matched
    by `c`.  Only the letter of the first matched codon can qualify. -/
def exactOf (c : Sym × Sym × Sym) : Option Nat :=
  match matched c.1.2 c.2.1.2 c.2.2.2 with
  | [] => none
  | d :: ds =>
    if (d :: ds) == codingSet (Spec.aminoOf d.1 d.2.1 d.2.2) then some (Spec.aminoOf d.1 d.2.1 d.2.2) else none

/-- all (letter, IUPAC codon) pairs such that the codon matches all and only the DNA codons coding
    for the letter: F=TTY W=TGG C=TGY Y=TAY V=GTN G=GGN A=GCN D=GAY E=GAR P=CCN H=CAY Q=CAR M=ATG
    I=ATH T=ACN N=AAY K=AAR; there is none for L, R, S and stop -/
def exactCodons : List (Nat × (Nat × Nat × Nat)) :=
  [(70, 1, 1, 5), (87, 1, 2, 2), (67, 1, 2, 5), (89, 1, 8, 5), (86, 2, 1, 15), (71, 2, 2, 15), (65, 2, 4, 15),
   (68, 2, 8, 5), (69, 2, 8, 10), (80, 4, 4, 15), (72, 4, 8, 5), (81, 4, 8, 10), (77, 8, 1, 2), (73, 8, 1, 13),
   (84, 8, 4, 15), (78, 8, 8, 5), (75, 8, 8, 10)]

/-- kernel-evaluated search over all 3375 gap-free codons (a statement about `Spec` only) -/
theorem exactCodons_spec :
    patterns.filterMap (fun c => (exactOf c).map (fun x => (x, codes c))) = exactCodons := by
  decide +kernel

theorem sym_members_filter : ∀ s ∈ iupacCodes, s.2 = bases.filter (fun d => s.2.contains d) := by decide

theorem sym_inj : ∀ s ∈ iupacCodes, ∀ s' ∈ iupacCodes, s.1 = s'.1 → s = s' := by decide

theorem sym_nonempty : ∀ s ∈ iupacCodes, s.1 ≠ 0 → s.2 ≠ [] := by decide

theorem mem_codons (c : Sym × Sym × Sym) :
    c ∈ codons ↔ c.1 ∈ iupacCodes ∧ c.2.1 ∈ iupacCodes ∧ c.2.2 ∈ iupacCodes := by
  obtain ⟨s0, s1, s2⟩ := c
  simp only [codons, List.mem_flatMap, List.mem_map, Prod.mk.injEq]
  constructor
  · rintro ⟨a, ha, b, hb, c, hc, rfl, rfl, rfl⟩; exact ⟨ha, hb, hc⟩
  · rintro ⟨ha, hb, hc⟩; exact ⟨s0, ha, s1, hb, s2, hc, rfl, rfl, rfl⟩

theorem mem_patterns (c : Sym × Sym × Sym) : c ∈ patterns ↔ c ∈ codons ∧ gapFree c = true := by
  simp [patterns, List.mem_filter]

theorem codes_inj (c c' : Sym × Sym × Sym) (hc : c ∈ codons) (hc' : c' ∈ codons) (h : codes c = codes c') :
    c = c' := by
  obtain ⟨h0, h1, h2⟩ := (mem_codons c).mp hc
  obtain ⟨h0', h1', h2'⟩ := (mem_codons c').mp hc'
  simp only [codes, Prod.mk.injEq] at h
  obtain ⟨s0, s1, s2⟩ := c
  obtain ⟨t0, t1, t2⟩ := c'
  simp only at *
  rw [sym_inj s0 h0 t0 h0' h.1, sym_inj s1 h1 t1 h1' h.2.1, sym_inj s2 h2 t2 h2' h.2.2]

/-- the matched set of a codon is a filter of the 64 DNA codons (so that comparing it with a coding
    set as lists is comparing sets) -/
theorem matched_eq_filter (c : Sym × Sym × Sym) (hc : c ∈ codons) :
    matched c.1.2 c.2.1.2 c.2.2.2 =
      dnaCodons.filter (fun d => c.1.2.contains d.1 && c.2.1.2.contains d.2.1 && c.2.2.2.contains d.2.2) := by
  obtain ⟨h0, h1, h2⟩ := (mem_codons c).mp hc
  have e := matched_filter bases (fun d => c.1.2.contains d) (fun d => c.2.1.2.contains d) (fun d => c.2.2.2.contains d)
  rw [← sym_members_filter _ h0, ← sym_members_filter _ h1, ← sym_members_filter _ h2] at e
  exact e

/-- list equality with the coding set is the specification `ExactFor` -/
theorem matched_eq_codingSet_iff (c : Sym × Sym × Sym) (hc : c ∈ codons) (x : Nat) :
    matched c.1.2 c.2.1.2 c.2.2.2 = codingSet x ↔ ExactFor c x := by
  rw [matched_eq_filter c hc, codingSet, filter_eq_filter_iff]
  unfold ExactFor
  constructor
  · intro h d hd
    have := h d hd
    rw [Bool.eq_iff_iff] at this
    simpa [Bool.and_eq_true, and_assoc] using this
  · intro h d hd
    rw [Bool.eq_iff_iff]
    simpa [Bool.and_eq_true, and_assoc] using h d hd

theorem exactOf_iff (c : Sym × Sym × Sym) (hc : c ∈ patterns) (x : Nat) : exactOf c = some x ↔ ExactFor c x := by
  obtain ⟨hcod, hg⟩ := (mem_patterns c).mp hc
  rw [← matched_eq_codingSet_iff c hcod]
  obtain ⟨h0, h1, h2⟩ := (mem_codons c).mp hcod
  simp only [gapFree, Bool.and_eq_true, bne_iff_ne, ne_eq] at hg
  unfold exactOf
  cases hm : matched c.1.2 c.2.1.2 c.2.2.2 with
  | nil =>
    exfalso
    have n0 := sym_nonempty _ h0 hg.1.1
    have n1 := sym_nonempty _ h1 hg.1.2
    have n2 := sym_nonempty _ h2 hg.2
    obtain ⟨a, ha⟩ := List.exists_mem_of_ne_nil _ n0
    obtain ⟨b, hb⟩ := List.exists_mem_of_ne_nil _ n1
    obtain ⟨d, hd⟩ := List.exists_mem_of_ne_nil _ n2
    have : (a, b, d) ∈ matched c.1.2 c.2.1.2 c.2.2.2 := (mem_matched _ _ _ _).mpr ⟨ha, hb, hd⟩
    rw [hm] at this
    simp at this
  | cons d ds =>
    simp only
    constructor
    · intro h
      split at h
      · rename_i heq
        injection h with h
        rw [← h]
        exact eq_of_beq heq
      · cases h
    · intro h
      have hd : d ∈ codingSet x := by rw [← h]; simp
      have hx : Spec.aminoOf d.1 d.2.1 d.2.2 = x := by
        simp only [codingSet, List.mem_filter, beq_iff_eq] at hd
        exact hd.2
      rw [hx, h]
      simp

/-- membership in the exact-codon table is the specification -/
theorem mem_exactCodons_iff (c : Sym × Sym × Sym) (hc : c ∈ patterns) (x : Nat) :
    (x, codes c) ∈ exactCodons ↔ ExactFor c x := by
  rw [← exactOf_iff c hc, ← exactCodons_spec]
  simp only [List.mem_filterMap, Option.map_eq_some_iff, Prod.mk.injEq]
  constructor
  · rintro ⟨c', hc', y, hy, rfl, hcodes⟩
    have : c' = c := codes_inj c' c ((mem_patterns c').mp hc').1 ((mem_patterns c).mp hc).1 hcodes
    rw [← this]; exact hy
  · intro h
    exact ⟨c, hc, x, h, rfl, rfl⟩

theorem exactCodons_from_pattern (e : Nat × (Nat × Nat × Nat)) (he : e ∈ exactCodons) :
    ∃ c ∈ patterns, codes c = e.2 ∧ ExactFor c e.1 := by
  rw [← exactCodons_spec] at he
  simp only [List.mem_filterMap, Option.map_eq_some_iff] at he
  obtain ⟨c, hc, y, hy, rfl⟩ := he
  exact ⟨c, hc, rfl, (exactOf_iff c hc y).mp hy⟩

/-- one entry of the extracted `try_to_codon` graph against the exact-codon table: either a codon
    is returned and it is the one and only exact codon for the amino's letter, or "ambiguous" is
    returned and there is no exact codon for that letter -/
def revCheck (p : Profile) (r : Nat × Nat × List Nat) : Bool :=
  (r.2.1 == 0 && exactCodons.any (fun e => e.1 == (Gen.amino p).toChar r.1) &&
      exactCodons.all (fun e => (e.1 == (Gen.amino p).toChar r.1) == ([e.2.1, e.2.2.1, e.2.2.2] == r.2.2)))
  || (r.2.1 == 1 && r.2.2 == [] && exactCodons.all (fun e => e.1 != (Gen.amino p).toChar r.1))

def revFailures (p : Profile) : List (Nat × Nat × List Nat) := (revTable p).filter fun r => !revCheck p r

/-- the graph lists every amino symbol exactly once, in `items()` order -/
theorem revTable_aminos (p : Profile) : (revTable p).map (·.1) = (Gen.amino p).items := by
  cases p <;> decide +kernel

theorem try_to_codon_graph_exact (p : Profile) : revFailures p = [] := by
  cases p <;> decide +kernel

def codeList (c : Sym × Sym × Sym) : List Nat := [c.1.1, c.2.1.1, c.2.2.1]

/-- **reverse translation is exact**: for every amino symbol `a` (display letter `x`), the extracted
    `try_to_codon(a)` is either a codon or `AmbiguousCodon`;
    a codon is returned only if it is a gap-free IUPAC codon that matches all and only the DNA
    codons coding for `x`, and then it is the only such codon among all 15^3;
    `AmbiguousCodon` is returned only if no gap-free IUPAC codon has exactly that coding set -/
theorem try_to_codon_exact (p : Profile) (a kind : Nat) (cod : List Nat) (h : (a, kind, cod) ∈ revTable p) :
    (kind = 0 ∨ kind = 1) ∧
    (kind = 0 → ∃ c ∈ patterns, cod = codeList c ∧ ExactFor c ((Gen.amino p).toChar a) ∧
        ∀ c' ∈ patterns, ExactFor c' ((Gen.amino p).toChar a) → c' = c) ∧
    (kind = 1 → cod = [] ∧ ∀ c ∈ patterns, ¬ ExactFor c ((Gen.amino p).toChar a)) := by
  have hchk : revCheck p (a, kind, cod) = true := by
    have := List.filter_eq_nil_iff.mp (try_to_codon_graph_exact p) _ h
    cases hc : revCheck p (a, kind, cod) with
    | true => rfl
    | false => exfalso; apply this; simp [hc]
  simp only [revCheck, Bool.or_eq_true, Bool.and_eq_true, beq_iff_eq, List.any_eq_true, List.all_eq_true,
    bne_iff_ne, ne_eq] at hchk
  rcases hchk with ⟨⟨hk, e, he, hex⟩, hall⟩ | ⟨⟨hk, hcod⟩, hnone⟩
  · -- a codon is returned
    obtain ⟨c, hc, hcodes, hexact⟩ := exactCodons_from_pattern e he
    have hcodE : [e.2.1, e.2.2.1, e.2.2.2] = cod := by
      have := hall e he
      rw [hex] at this
      simpa using this
    refine ⟨Or.inl hk, fun _ => ⟨c, hc, ?_, ?_, ?_⟩, fun h1 => by omega⟩
    · rw [← hcodE, ← hcodes]; rfl
    · rw [← hex]; exact hexact
    · intro c' hc' hex'
      have hm := (mem_exactCodons_iff c' hc' _).mpr hex'
      have hl : [(codes c').1, (codes c').2.1, (codes c').2.2] = cod := by
        have := hall _ hm
        simpa using this
      have hcc : codes c' = codes c := by
        rw [hcodes]
        rw [← hcodE] at hl
        simp only [List.cons.injEq, and_true] at hl
        obtain ⟨e1, e2, e3⟩ := hl
        exact Prod.ext e1 (Prod.ext e2 e3)
      exact codes_inj c' c ((mem_patterns c').mp hc').1 ((mem_patterns c).mp hc).1 hcc
  · -- ambiguous
    refine ⟨Or.inr hk, fun h0 => by omega, fun _ => ⟨hcod, fun c hc hex => ?_⟩⟩
    have hm := (mem_exactCodons_iff c hc _).mpr hex
    exact hnone _ hm rfl

/-- corollary: a codon is returned exactly when some gap-free IUPAC codon has exactly the coding set -/
theorem try_to_codon_codon_iff (p : Profile) (a kind : Nat) (cod : List Nat) (h : (a, kind, cod) ∈ revTable p) :
    kind = 0 ↔ ∃ c ∈ patterns, ExactFor c ((Gen.amino p).toChar a) := by
  obtain ⟨hk, h0, h1⟩ := try_to_codon_exact p a kind cod h
  constructor
  · intro hk0
    obtain ⟨c, hc, _, hex, _⟩ := h0 hk0
    exact ⟨c, hc, hex⟩
  · rintro ⟨c, hc, hex⟩
    rcases hk with hk | hk
    · exact hk
    · exact absurd hex ((h1 hk).2 c hc)

/-- **model = extracted graph** for `try_to_codon`: the inverse map built from the 29 source rows
    (`Some(codon)` only for amino acids with a single row) gives, for all 21 amino symbols, the
    extracted outcome -/
theorem try_to_codon_model_eq_graph (p : Profile) : ∀ r ∈ revTable p,
    (r.2.1 = 0 ∨ r.2.1 = 1) ∧
    Translation.stdTryToCodon (Standard.rows p) r.1 =
      (if r.2.1 = 0 then .ok (pack 4 r.2.2) else .error .ambiguousCodon) := by
  cases p <;> decide +kernel

/-- **round trip** (model): every codon returned by `try_to_codon(a)` translates back to `a` -/
theorem try_to_codon_roundtrip (p : Profile) : ∀ r ∈ revTable p, r.2.1 = 0 →
    r.2.2.length = 3 ∧ (∀ c ∈ r.2.2, 1 ≤ c ∧ c < 16) ∧
    Translation.tryToAmino (Gen.iupac p) (Standard.rows p) (pack 4 r.2.2) = .ok r.1 := by
  cases p <;> decide +kernel

/-- **round trip** (extracted graphs): if the `try_to_codon` graph returns the codon `c0 c1 c2` for
    the amino `a`, the `try_to_amino` graph has the entry `a` at that codon -/
theorem try_to_codon_roundtrip_graph (p : Profile) (a c0 c1 c2 : Nat) (h : (a, 0, [c0, c1, c2]) ∈ revTable p) :
    (((c0, membersOf c0), (c1, membersOf c1), (c2, membersOf c2)), a) ∈ codons.zip (table p) := by
  obtain ⟨_, hlt, hback⟩ := try_to_codon_roundtrip p _ h rfl
  have h0 := (hlt c0 (by simp)).2
  have h1 := (hlt c1 (by simp)).2
  have h2 := (hlt c2 (by simp)).2
  have := model_entry_mem p (c0, membersOf c0) (c1, membersOf c1) (c2, membersOf c2)
    (membersOf_mem c0 h0) (membersOf_mem c1 h1) (membersOf_mem c2 h2)
  simp only [modelEntry] at this
  simp only at hback
  rw [hback] at this
  exact this

/-! ### 5. examples (IUPAC codes: A=8 C=4 G=2 T=1 R=10 Y=5 M=12 N=15, gap=0) -/

/-- the display letter of a `try_to_amino` result -/
def letter (p : Profile) (r : Except Translation.TErr Nat) : Except Translation.TErr Nat :=
  r.map (Gen.amino p).toChar

/-- GCN -> A, TAR -> stop, TRA -> stop, YTR -> L, MGR -> R -/
example : letter .debug (Translation.tryToAmino (Gen.iupac .debug) (Standard.rows .debug) (pack 4 [2, 4, 15])) = .ok 'A'.toNat := by
  decide +kernel
example : letter .release (Translation.tryToAmino (Gen.iupac .release) (Standard.rows .release) (pack 4 [1, 8, 10])) = .ok '*'.toNat := by
  decide +kernel
example : letter .debug (Translation.tryToAmino (Gen.iupac .debug) (Standard.rows .debug) (pack 4 [1, 10, 8])) = .ok '*'.toNat := by
  decide +kernel
example : letter .debug (Translation.tryToAmino (Gen.iupac .debug) (Standard.rows .debug) (pack 4 [5, 1, 10])) = .ok 'L'.toNat := by
  decide +kernel
example : letter .release (Translation.tryToAmino (Gen.iupac .release) (Standard.rows .release) (pack 4 [12, 2, 10])) = .ok 'R'.toNat := by
  decide +kernel

/-- NNN, YTN (L or F), TRR (stop or W) are ambiguous -/
example : Translation.tryToAmino (Gen.iupac .debug) (Standard.rows .debug) (pack 4 [15, 15, 15]) = .error .ambiguousTranslation := by
  decide +kernel
example : Translation.tryToAmino (Gen.iupac .debug) (Standard.rows .debug) (pack 4 [5, 1, 15]) = .error .ambiguousTranslation := by
  decide +kernel
example : Translation.tryToAmino (Gen.iupac .release) (Standard.rows .release) (pack 4 [1, 10, 10]) = .error .ambiguousTranslation := by
  decide +kernel

/-- the same on the specification side, and in the extracted table (entry 256*c0 + 16*c1 + c2) -/
example : expected (membersOf 2) (membersOf 4) (membersOf 15) = some 'A'.toNat ∧
    expected (membersOf 5) (membersOf 1) (membersOf 10) = some 'L'.toNat ∧
    expected (membersOf 15) (membersOf 15) (membersOf 15) = none ∧
    expected (membersOf 5) (membersOf 1) (membersOf 15) = none := by decide +kernel
example : (Gen.amino .debug).toChar ((table .debug).getD (256 * 2 + 16 * 4 + 15) 0) = 'A'.toNat ∧
    (table .debug).getD (256 * 15 + 16 * 15 + 15) 0 = 1000 := by decide +kernel

/-- "TN" and "NYTN" are invalid codons -/
example : Translation.tryToAmino (Gen.iupac .debug) (Standard.rows .debug) (pack 4 [1, 15]) = .error .invalidCodon := by
  decide +kernel
example : Translation.tryToAmino (Gen.iupac .release) (Standard.rows .release) (pack 4 [15, 5, 1, 15]) = .error .invalidCodon :=
  try_to_amino_invalid_length_pack .release [15, 5, 1, 15] (by decide)

/-- an instance of the pointwise theorem (GCN) -/
example : ∃ a, Translation.tryToAmino (Gen.iupac .debug) (Standard.rows .debug) (pack 4 [2, 4, 15]) = .ok a ∧
    a ∈ (Gen.amino .debug).items ∧ (Gen.amino .debug).toChar a = 'A'.toNat := by
  have h := try_to_amino_model_sound_complete .debug 2 4 15 (by omega) (by omega) (by omega)
  have e : expected (membersOf 2) (membersOf 4) (membersOf 15) = some 'A'.toNat := by decide +kernel
  rw [e] at h
  exact h

/-- M (code 44) <-> ATG, W (code 43) <-> TGG; L (code 13), S (24), R (8) and stop (3) are ambiguous -/
example : Translation.stdTryToCodon (Standard.rows .debug) 44 = .ok (pack 4 [8, 1, 2]) ∧
    Translation.tryToAmino (Gen.iupac .debug) (Standard.rows .debug) (pack 4 [8, 1, 2]) = .ok 44 ∧
    (Gen.amino .debug).toChar 44 = 'M'.toNat := by decide +kernel
example : Translation.stdTryToCodon (Standard.rows .release) 43 = .ok (pack 4 [1, 2, 2]) ∧
    Translation.tryToAmino (Gen.iupac .release) (Standard.rows .release) (pack 4 [1, 2, 2]) = .ok 43 ∧
    (Gen.amino .release).toChar 43 = 'W'.toNat := by decide +kernel
example : Translation.stdTryToCodon (Standard.rows .debug) 13 = .error .ambiguousCodon ∧
    Translation.stdTryToCodon (Standard.rows .debug) 24 = .error .ambiguousCodon ∧
    Translation.stdTryToCodon (Standard.rows .debug) 8 = .error .ambiguousCodon ∧
    Translation.stdTryToCodon (Standard.rows .debug) 3 = .error .ambiguousCodon := by decide +kernel

/-- `ExactFor` on concrete data: ATH matches exactly the codons of I; CTN does not match all codons of L -/
example : ExactFor ((8, [0]), (1, [3]), (13, [0, 1, 3])) 'I'.toNat := by unfold ExactFor; decide +kernel
example : ¬ ExactFor ((4, [1]), (1, [3]), (15, [0, 1, 2, 3])) 'L'.toNat := by unfold ExactFor; decide +kernel

/-- an instance of `try_to_codon_exact`: the entry for A (code 6) is the codon GCN -/
example : (6, 0, [2, 4, 15]) ∈ revTable .debug := by decide +kernel

end C14
end BioSeq
