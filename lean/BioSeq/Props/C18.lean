/-
  C18 — serialization round trip preserves sequences and k-mers.  *Partial*: the theorem is
  about bitvec's field mapping (`Serde.ser` / `Serde.de`); that bincode and serde_json carry
  the serde data model losslessly is assumed (third-party) and exercised by the differential
  runs, which serialise real values from every production route in both formats and compare
  serde_json's fields with `Serde.ser`.
-/
import BioSeq.Serde
import BioSeq.Props.C04
import BioSeq.Props.C02
namespace BioSeq
namespace C18
open Serde

/-- deserialising the serialised form gives the same bit content, for every sequence
    (any length, empty included) -/
theorem seq_roundtrip (bs : Bits) : de (ser bs) = .ok bs := by
  have hlen : (Seq.intoRaw bs).length = (bs.length + 63) / 64 := C04.intoRaw_length bs
  have hfit : ¬ (0 + bs.length > 64 * (Seq.intoRaw bs).length) := by rw [hlen]; omega
  simp only [de, ser, ne_eq, not_true_eq_false, if_false, false_or, hfit]
  have : ¬ ((0 : Nat) ≥ 64) := by omega
  simp only [this, if_false, List.drop_zero]
  rw [C04.intoRaw_layout]

/-- hence equal / same hash data / same display after the round trip (C02: all three depend on the bits only) -/
theorem seq_roundtrip_observables (p : Profile) (c : Codec) (bs r : Bits) (h : de (ser bs) = .ok r) :
    r = bs ∧ Seq.hashEvents c r = Seq.hashEvents c bs ∧ Seq.display p c r = Seq.display p c bs ∧
    Seq.len c r = Seq.len c bs := by
  rw [seq_roundtrip] at h
  injection h with h
  subst h
  exact ⟨rfl, rfl, rfl, rfl⟩

/-- the serialised form is canonical: head 0, exactly ⌈bits/64⌉ words, symbol i at bits [i*w, (i+1)*w) -/
theorem ser_layout (bs : Bits) :
    (ser bs).headIndex = 0 ∧ (ser bs).bits = bs.length ∧ (ser bs).data.length = (bs.length + 63) / 64 ∧
    (bitsOfWords (ser bs).data).take bs.length = bs :=
  ⟨rfl, rfl, C04.intoRaw_length bs, C04.intoRaw_layout bs⟩

/-- a reader rejects representations whose declared length exceeds the data -/
theorem de_rejects_short (r : BitSeqRepr) (h : r.headIndex + r.bits > 64 * r.data.length) (ho : r.order = orderName)
    (hh : r.headWidth = 64 ∧ r.headIndex < 64) : de r = .error "bits" := by
  have : ¬ (r.headIndex ≥ 64) := by omega
  simp [de, ho, hh.1, this, h]

/-- the round trip also holds for an owned sequence whose bit vector starts mid-word (head 1..63), whatever the
    bits below its head are: the reader drops exactly `head` bits and keeps exactly `bits` -/
theorem seq_roundtrip_at (dead bs : Bits) (hd : dead.length < 64) : de (serAt dead bs) = .ok bs := by
  have hlen : (Seq.intoRaw (dead ++ bs)).length = ((dead ++ bs).length + 63) / 64 := C04.intoRaw_length _
  have hfit : ¬ (dead.length + bs.length > 64 * (Seq.intoRaw (dead ++ bs)).length) := by
    rw [hlen, List.length_append]; omega
  have hh : ¬ (dead.length ≥ 64) := by omega
  simp only [de, serAt, ne_eq, not_true_eq_false, if_false, false_or, hfit, hh]
  have hl := C04.intoRaw_layout (dead ++ bs)
  have : ((bitsOfWords (Seq.intoRaw (dead ++ bs))).drop dead.length).take bs.length = bs := by
    have h2 : (bitsOfWords (Seq.intoRaw (dead ++ bs))).take (dead.length + bs.length) = dead ++ bs := by
      rw [← List.length_append]; exact hl
    have h3 := @List.drop_take _ dead.length (dead.length + bs.length) (bitsOfWords (Seq.intoRaw (dead ++ bs)))
    rw [Nat.add_sub_cancel_left] at h3
    rw [← h3, h2, List.drop_left]
  rw [this]

/-- `serAt [] = ser`: the ordinary case is head 0 -/
theorem serAt_nil (bs : Bits) : serAt [] bs = ser bs := rfl

theorem kmer_roundtrip (v : Nat) : deKmer (serKmer v) = v := rfl

/-- non-vacuity: a 70-bit sequence (two words) -/
example : (de (ser (pack 5 (List.range 14)))).toOption = some (pack 5 (List.range 14)) := by decide +kernel
example : (ser (pack 2 [0, 1, 2, 3, 0])).data = [228] := by decide +kernel
example : (de (serAt [true, false, true] (pack 5 (List.range 14)))).toOption = some (pack 5 (List.range 14)) := by decide +kernel

end C18
end BioSeq
