/-
  Composed — end-to-end theorems, phrased as a user of the library would phrase them, obtained by
  composing the per-property theorems (C01 … C20, Invariants).  Nothing is re-proved here: each
  section only glues the cited theorems together (the glue lemmas on lists are in
  `Lemmas/ComposedLemmas.lean`).

  Inputs are values the public API builds: packed canonical content `pack c.width cs`
  (`Invariants.reach_iff`: exactly the reachable sequences) or the result of the runtime parser.
  The guards `cs.length * c.width < W64` say that the bit length of the sequence fits a `usize`.

    1. `seq.kmers::<K>().min()` is the colexicographic minimiser of the sequence      (C08 + C10)
    2. canonical k-mers of a DNA sequence and of its reverse complement                 (C07 + C08 + C09)
    3. `dna!("…")` = `"…".parse::<Seq>()` = `"…".parse::<Kmer>()` (bits, hash, display)   (C01 + C02 + C08 + C16)
    4. translating a parsed gene by `chunks(3)` gives the NCBI table 1 letters          (C01 + C11 + C13)
    5. a concrete DNA sequence matches an IUPAC pattern iff every base is in the set    (C12 + C19)
    6. a serde round trip keeps a sequence usable as a map key / query                  (C02 + C10 + C18)
-/
import BioSeq.Lemmas.ComposedLemmas
import BioSeq.Props.C16
import BioSeq.Props.C18
import BioSeq.Props.Invariants
namespace BioSeq
namespace Composed
open BioSeq.Seq BioSeq.ComposedL

/-! ### 1. the minimum k-mer of a sequence is its colexicographic minimiser -/

/-- the values of the k-mers that were produced without a panic (`filter_map(Result::ok)`) -/
def okValues (l : List (Res Nat)) : List Nat :=
  l.filterMap fun r => match r with
    | .ok v => some v
    | .error _ => none

/-- the k-mer iterator of a packed sequence never fails, and its values are the packed windows -/
theorem okValues_kmers (p : Profile) (c : Codec) (hw : 1 ≤ c.width) (K : Nat) (hK : 1 ≤ K)
    (hst : K * c.width ≤ 64) (cs : List Nat) (hov : cs.length * c.width < W64) :
    Kmer.kmers p c K (pack c.width cs) = (okValues (Kmer.kmers p c K (pack c.width cs))).map .ok ∧
    okValues (Kmer.kmers p c K (pack c.width cs))
      = (List.range (cs.length + 1 - K)).map (fun i => ofBitsLE (pack c.width (C08.window cs K i))) := by
  have h := C08.kmers_spec p c hw K hK hst cs hov
  have e : okValues (Kmer.kmers p c K (pack c.width cs))
      = (List.range (cs.length + 1 - K)).map (fun i => ofBitsLE (pack c.width (C08.window cs K i))) := by
    rw [h]
    unfold okValues
    rw [List.filterMap_map]
    exact filterMap_some_comp _ _
  refine ⟨?_, e⟩
  rw [e, List.map_map]
  exact h

/-- **`seq.kmers::<K>().min()` is the colex minimiser of the sequence.**
    For any codec width `≥ 1`, any `K ≥ 1` with `K * BITS ≤ 64`, any sequence of at least `K`
    in-range symbols: no k-mer fails, there are `n - K + 1` of them, and their numeric minimum
    (the `Ord` of `Kmer` is the order of the storage integer) is the k-mer of a window
    `cs[i .. i+K]` that no other window precedes colexicographically (last symbol most
    significant); as a symbol list that window is the only one with this property. -/
theorem min_kmer_is_colex_minimiser (p : Profile) (c : Codec) (hw : 1 ≤ c.width) (K : Nat) (hK : 1 ≤ K)
    (hst : K * c.width ≤ 64) (cs : List Nat) (hf : Fits c.width cs) (hKn : K ≤ cs.length)
    (hov : cs.length * c.width < W64) :
    (okValues (Kmer.kmers p c K (pack c.width cs))).length = cs.length + 1 - K ∧
    (Kmer.kmers p c K (pack c.width cs)).length = cs.length + 1 - K ∧
    ∃ i, i + K ≤ cs.length ∧
      (okValues (Kmer.kmers p c K (pack c.width cs))).min?
        = some (ofBitsLE (pack c.width ((cs.take (i + K)).drop i))) ∧
      (∀ j, j + K ≤ cs.length →
        ¬ C10.colexLt ((cs.take (j + K)).drop j) ((cs.take (i + K)).drop i) = true) ∧
      (∀ j, j + K ≤ cs.length →
        (∀ j', j' + K ≤ cs.length →
          ¬ C10.colexLt ((cs.take (j' + K)).drop j') ((cs.take (j + K)).drop j) = true) →
        (cs.take (j + K)).drop j = (cs.take (i + K)).drop i) := by
  obtain ⟨_, e⟩ := okValues_kmers p c hw K hK hst cs hov
  refine ⟨by rw [e]; simp, C08.kmers_length p c hw K hK hst cs hov, ?_⟩
  -- the windows, as symbol lists
  let ks : List (List Nat) := (List.range (cs.length + 1 - K)).map (C08.window cs K)
  have hmem : ∀ w, w ∈ ks ↔ ∃ j, j + K ≤ cs.length ∧ C08.window cs K j = w := by
    intro w
    simp only [ks, List.mem_map, List.mem_range]
    constructor
    · rintro ⟨j, hj, rfl⟩; exact ⟨j, by omega, rfl⟩
    · rintro ⟨j, hj, rfl⟩; exact ⟨j, by omega, rfl⟩
  have hne : ks ≠ [] := by
    intro h0
    have := congrArg List.length h0
    simp only [ks, List.length_map, List.length_range, List.length_nil] at this
    omega
  have hlen : ∀ w ∈ ks, w.length = K := by
    intro w hw'
    obtain ⟨j, hj, rfl⟩ := (hmem w).mp hw'
    exact C08.window_length cs K j hj
  have hfit : ∀ w ∈ ks, Fits c.width w := by
    intro w hw'
    obtain ⟨j, _, rfl⟩ := (hmem w).mp hw'
    exact (hf.take _).drop _
  obtain ⟨m, hm, hmin, hle, huniq⟩ := C10.minimiser c.width K ks hne hlen hfit
  obtain ⟨i, hi, rfl⟩ := (hmem m).mp hm
  refine ⟨i, hi, ?_, ?_, ?_⟩
  · rw [e]
    have h2 := hmin
    simp only [ks, List.map_map] at h2
    exact h2
  · intro j hj
    exact hle _ ((hmem _).mpr ⟨j, hj, rfl⟩)
  · intro j hj hall
    apply huniq _ ((hmem _).mpr ⟨j, hj, rfl⟩)
    intro w hw'
    obtain ⟨j', hj', rfl⟩ := (hmem w).mp hw'
    exact hall j' hj'

/-- the same for any value the public API can build (`Invariants.Reach`), on its own symbol view
    `syms`: the `Fits` hypothesis is discharged by the invariant -/
theorem reach_min_kmer_is_colex_minimiser (p : Profile) (c : Codec) (wf : CodecWF c) (K : Nat) (hK : 1 ≤ K)
    (hst : K * c.width ≤ 64) (bs : Bits) (h : Invariants.Reach p c bs) (hKn : K ≤ len c bs)
    (hlen : bs.length < W64) :
    (Kmer.kmers p c K bs).length = len c bs + 1 - K ∧
    ∃ i, i + K ≤ len c bs ∧
      (okValues (Kmer.kmers p c K bs)).min?
        = some (ofBitsLE (pack c.width (((syms c.width bs).take (i + K)).drop i))) ∧
      (∀ j, j + K ≤ len c bs →
        ¬ C10.colexLt (((syms c.width bs).take (j + K)).drop j) (((syms c.width bs).take (i + K)).drop i) = true) ∧
      (∀ j, j + K ≤ len c bs →
        (∀ j', j' + K ≤ len c bs →
          ¬ C10.colexLt (((syms c.width bs).take (j' + K)).drop j') (((syms c.width bs).take (j + K)).drop j) = true) →
        ((syms c.width bs).take (j + K)).drop j = ((syms c.width bs).take (i + K)).drop i) := by
  obtain ⟨e, _, hf⟩ := Invariants.reach_eq_pack p c wf bs h
  have hal := Invariants.reach_aligned p c wf bs h
  have hov := C11.guard_of_length c bs hal hlen
  have hl : len c bs = (syms c.width bs).length := C03.len_eq c bs
  rw [hl] at hKn ⊢
  have := min_kmer_is_colex_minimiser p c wf.width_pos K hK hst (syms c.width bs) hf hKn hov
  rw [← e] at this
  exact this.2

/-- "ACGTAC" (codes 0 1 2 3 0 1): the 3-mers are ACG, CGT, GTA, TAC; the minimum is GTA at `i = 2` -/
example : okValues (Kmer.kmers .debug (Gen.dna .debug) 3 (pack 2 [0, 1, 2, 3, 0, 1]))
      = [ofBitsLE (pack 2 [0, 1, 2]), ofBitsLE (pack 2 [1, 2, 3]), ofBitsLE (pack 2 [2, 3, 0]),
         ofBitsLE (pack 2 [3, 0, 1])] ∧
    (okValues (Kmer.kmers .debug (Gen.dna .debug) 3 (pack 2 [0, 1, 2, 3, 0, 1]))).min?
      = some (ofBitsLE (pack 2 ((([0, 1, 2, 3, 0, 1] : List Nat).take (2 + 3)).drop 2))) ∧
    C10.colexLt [2, 3, 0] [0, 1, 2] = true := by decide +kernel

/-- the hypotheses are satisfiable (6-bit amino codec, K = 10: 60 of the 64 bits) -/
example := min_kmer_is_colex_minimiser .release (Gen.amino .release) (wf_amino .release).width_pos 10
  (by decide) (by decide +kernel) [6, 27, 18, 2, 31, 10, 17, 12, 0, 44, 6, 6]
  (by unfold Fits; decide +kernel) (by decide) (by decide +kernel)

/-- ... and on a parser-built value ("ACGTAC") -/
example := reach_min_kmer_is_colex_minimiser .debug (Gen.dna .debug) (wf_dna .debug) 3 (by decide) (by decide +kernel)
  (pack 2 [0, 1, 2, 3, 0, 1]) (Invariants.Reach.parse [65, 67, 71, 84, 65, 67] _ (by decide +kernel))
  (by decide +kernel) (by decide +kernel)

/-! ### 2. canonical k-mers along a DNA sequence and along its reverse complement -/

theorem dna_width (p : Profile) : (Gen.dna p).width = 2 := C13.dna_width p

/-- Watson–Crick complement on the 2-bit codes `A=0 C=1 G=2 T=3` (`C09.dna_comp_table`: this is the
    extracted codec's `comp`) -/
def wc (x : Nat) : Nat := 3 - x

/-- reverse complement of a packed DNA sequence (C07 `rev_pack` + C09 `seq_comp_dna`) -/
theorem revcomp_dna (p : Profile) (cs : List Nat) (hf : Fits 2 cs) :
    Seq.revcomp p (Gen.dna p) (pack 2 cs) = .ok (pack 2 (cs.map wc).reverse) := by
  unfold Seq.revcomp
  rw [C09.seq_comp_dna p cs hf]
  simp only [Except.map]
  have h := C07.rev_pack (Gen.dna p) (by rw [dna_width]; omega) (cs.map (fun x => 3 - x))
  rw [dna_width] at h
  rw [h]
  rfl

theorem fits_wc_reverse (cs : List Nat) : Fits 2 (cs.map wc).reverse := by
  intro x hx
  simp only [List.mem_reverse, List.mem_map] at hx
  obtain ⟨y, _, rfl⟩ := hx
  show 3 - y < 4
  omega

/-- the k-mers of a packed DNA sequence (C08 `kmers_spec` at width 2) -/
theorem kmers_dna (p : Profile) (K : Nat) (hK : 1 ≤ K) (hst : K * 2 ≤ 64) (cs : List Nat)
    (hov : cs.length * 2 < W64) :
    Kmer.kmers p (Gen.dna p) K (pack 2 cs)
      = (List.range (cs.length + 1 - K)).map
          (fun i => (.ok (ofBitsLE (pack 2 (C08.window cs K i))) : Res Nat)) := by
  have h := C08.kmers_spec p (Gen.dna p) (by rw [dna_width]; omega) K hK (by rw [dna_width]; exact hst) cs
    (by rw [dna_width]; exact hov)
  rw [dna_width] at h
  exact h

theorem isKmer_window (p : Profile) (K : Nat) (hK : 1 ≤ K) (hst : K * 2 ≤ 64) (cs : List Nat)
    (hf : Fits 2 cs) (j : Nat) (hj : j + K ≤ cs.length) :
    C09.IsKmer (Gen.dna p) K .usize (C08.window cs K j) :=
  ⟨C08.window_length cs K j hj, by rw [dna_width]; exact (hf.take _).drop _, hK,
    by rw [dna_width]; omega, by rw [dna_width]; exact hst⟩

/-- the `i`-th window of the reverse complement is the reverse complement of the mirrored window -/
theorem window_revcomp (cs : List Nat) (K i : Nat) (h : i + K ≤ cs.length) :
    C08.window (cs.map wc).reverse K i = ((C08.window cs K (cs.length - K - i)).map wc).reverse := by
  unfold C08.window
  have := window_reverse (cs.map wc) K i (by simpa using h)
  rw [this, List.length_map, List.map_drop, List.map_take]

/-- **k-mers of the reverse complement.**  For a DNA sequence of `n` bases and `K*2 ≤ 64`:
    `revcomp()` succeeds, and the `i`-th k-mer of the reverse complement is `Kmer::revcomp` of the
    `(n-K-i)`-th k-mer of the sequence (both iterators yield `ok` values there). -/
theorem kmers_of_revcomp (p : Profile) (K : Nat) (hK : 1 ≤ K) (hst : K * 2 ≤ 64) (cs : List Nat)
    (hf : Fits 2 cs) (hov : cs.length * 2 < W64) (i : Nat) (hi : i + K ≤ cs.length) :
    ∃ rc u v, Seq.revcomp p (Gen.dna p) (pack 2 cs) = .ok rc ∧
      (Kmer.kmers p (Gen.dna p) K (pack 2 cs))[cs.length - K - i]? = some (.ok u) ∧
      (Kmer.kmers p (Gen.dna p) K rc)[i]? = some (.ok v) ∧
      Kmer.revcomp (Gen.dna p) K u = .ok v ∧ Kmer.revcomp (Gen.dna p) K v = .ok u := by
  have hl : (cs.map wc).reverse.length = cs.length := by simp
  have hik := isKmer_window p K hK hst cs hf (cs.length - K - i) (by omega)
  have hrc := C09.revcomp_spec hik (dna_width p)
  refine ⟨_, ofBitsLE (pack 2 (C08.window cs K (cs.length - K - i))),
    ofBitsLE (pack 2 (C08.window (cs.map wc).reverse K i)), revcomp_dna p cs hf, ?_, ?_, ?_, ?_⟩
  · rw [kmers_dna p K hK hst cs hov]
    have : cs.length - K - i < cs.length + 1 - K := by omega
    simp [this]
  · rw [kmers_dna p K hK hst _ (by rw [hl]; exact hov), hl]
    have : i < cs.length + 1 - K := by omega
    simp [this]
  · rw [window_revcomp cs K i hi]
    exact hrc
  · rw [window_revcomp cs K i hi]
    obtain ⟨r, h1, h2⟩ := C09.revcomp_involution hik
    rw [dna_width] at h1 h2
    rw [hrc] at h1
    have h1 := Except.ok.inj h1
    subst h1
    exact h2

/-- the canonical k-mers `min(k, revcomp(k))` along a sequence (`seq.kmers().map(canonical)`) -/
def canonicalKmers (p : Profile) (c : Codec) (K : Nat) (bs : Bits) : List (Res Nat) :=
  (Kmer.kmers p c K bs).map fun r => r >>= C09.canonicalKmer c K

/-- **strand symmetry of canonical k-mers.**  The list of canonical k-mers of the reverse
    complement of a DNA sequence is the reverse of the list of canonical k-mers of the sequence
    (so the two strands have the same multiset of canonical k-mers); none of the entries fails,
    and the `j`-th entry is the smaller of the `j`-th k-mer and its reverse complement. -/
theorem canonical_kmers_revcomp (p : Profile) (K : Nat) (hK : 1 ≤ K) (hst : K * 2 ≤ 64) (cs : List Nat)
    (hf : Fits 2 cs) (hov : cs.length * 2 < W64) :
    ∃ rc, Seq.revcomp p (Gen.dna p) (pack 2 cs) = .ok rc ∧
      canonicalKmers p (Gen.dna p) K rc = (canonicalKmers p (Gen.dna p) K (pack 2 cs)).reverse ∧
      canonicalKmers p (Gen.dna p) K (pack 2 cs)
        = (List.range (cs.length + 1 - K)).map (fun j => .ok
            (min (ofBitsLE (pack 2 ((cs.take (j + K)).drop j)))
                 (ofBitsLE (pack 2 (((cs.take (j + K)).drop j).map wc).reverse)))) := by
  have hl : (cs.map wc).reverse.length = cs.length := by simp
  -- canonical k-mer of window `j`
  have hcan : ∀ j, j + K ≤ cs.length →
      C09.canonicalKmer (Gen.dna p) K (ofBitsLE (pack 2 (C08.window cs K j)))
        = .ok (min (ofBitsLE (pack 2 (C08.window cs K j)))
                   (ofBitsLE (pack 2 ((C08.window cs K j).map wc).reverse))) := by
    intro j hj
    have hrc := C09.revcomp_spec (isKmer_window p K hK hst cs hf j hj) (dna_width p)
    simp only [C09.canonicalKmer, hrc, bind, Except.bind]
    rfl
  have hseq : canonicalKmers p (Gen.dna p) K (pack 2 cs)
      = (List.range (cs.length + 1 - K)).map
          (fun j => C09.canonicalKmer (Gen.dna p) K (ofBitsLE (pack 2 (C08.window cs K j)))) := by
    unfold canonicalKmers
    rw [kmers_dna p K hK hst cs hov, List.map_map]
    rfl
  refine ⟨_, revcomp_dna p cs hf, ?_, ?_⟩
  · rw [hseq, ← map_range_mirror]
    unfold canonicalKmers
    rw [kmers_dna p K hK hst _ (by rw [hl]; exact hov), hl, List.map_map]
    apply List.map_congr_left
    intro i hi
    have hi' : i + K ≤ cs.length := by have := List.mem_range.mp hi; omega
    have e : cs.length + 1 - K - 1 - i = cs.length - K - i := by omega
    show C09.canonicalKmer (Gen.dna p) K (ofBitsLE (pack 2 (C08.window (cs.map wc).reverse K i))) = _
    rw [e, window_revcomp cs K i hi']
    have hik := isKmer_window p K hK hst cs hf (cs.length - K - i) (by omega)
    obtain ⟨r, h1, h2⟩ := C09.canonical_same hik
    rw [dna_width] at h1 h2
    rw [C09.revcomp_spec hik (dna_width p)] at h1
    have h1 := Except.ok.inj h1
    subst h1
    exact h2
  · rw [hseq]
    apply List.map_congr_left
    intro j hj
    exact hcan j (by have := List.mem_range.mp hj; omega)

/-- the same for any DNA value the public API can build: `revcomp()` succeeds, its result is
    reachable again, and its canonical k-mers are those of the original in opposite order -/
theorem reach_canonical_kmers_revcomp (p : Profile) (K : Nat) (hK : 1 ≤ K) (hst : K * 2 ≤ 64) (bs : Bits)
    (h : Invariants.Reach p (Gen.dna p) bs) (hlen : bs.length < W64) :
    ∃ rc, Seq.revcomp p (Gen.dna p) bs = .ok rc ∧ Invariants.Reach p (Gen.dna p) rc ∧
      canonicalKmers p (Gen.dna p) K rc = (canonicalKmers p (Gen.dna p) K bs).reverse := by
  obtain ⟨e, _, hf⟩ := Invariants.reach_eq_pack p (Gen.dna p) (wf_dna p) bs h
  have hal := Invariants.reach_aligned p (Gen.dna p) (wf_dna p) bs h
  have hov := C11.guard_of_length (Gen.dna p) bs hal hlen
  rw [dna_width] at e hf hov
  obtain ⟨rc, h1, h2, _⟩ := canonical_kmers_revcomp p K hK hst (syms 2 bs) hf hov
  rw [← e] at h1 h2
  exact ⟨rc, h1, Invariants.Reach.revcomp bs rc (C07.compWF_dna p) h h1, h2⟩

/-- "ACGGT" (0 1 2 2 3): its reverse complement is "ACCGT"; 3-mers ACG CGG GGT vs ACC CCG CGT -/
example : Seq.revcomp .debug (Gen.dna .debug) (pack 2 [0, 1, 2, 2, 3]) = .ok (pack 2 [0, 1, 1, 2, 3]) ∧
    canonicalKmers .debug (Gen.dna .debug) 3 (pack 2 [0, 1, 2, 2, 3])
      = [.ok (ofBitsLE (pack 2 [0, 1, 2])), .ok (ofBitsLE (pack 2 [1, 1, 2])), .ok (ofBitsLE (pack 2 [0, 1, 1]))] ∧
    canonicalKmers .debug (Gen.dna .debug) 3 (pack 2 [0, 1, 1, 2, 3])
      = [.ok (ofBitsLE (pack 2 [0, 1, 1])), .ok (ofBitsLE (pack 2 [1, 1, 2])), .ok (ofBitsLE (pack 2 [0, 1, 2]))] ∧
    Kmer.revcomp (Gen.dna .debug) 3 (ofBitsLE (pack 2 [2, 2, 3])) = .ok (ofBitsLE (pack 2 [0, 1, 1])) := by
  decide +kernel

/-- the general theorems instantiated (K = 32 fills the word; 40 bases) -/
example := canonical_kmers_revcomp .release 32 (by decide) (by decide) ((List.range 40).map (· % 4))
  (by unfold Fits; decide +kernel) (by decide +kernel)
example := kmers_of_revcomp .release 32 (by decide) (by decide) ((List.range 40).map (· % 4))
  (by unfold Fits; decide +kernel) (by decide +kernel) 5 (by decide +kernel)

example := reach_canonical_kmers_revcomp .debug 3 (by decide) (by decide) (pack 2 [0, 1, 2, 2, 3])
  (Invariants.Reach.parse [65, 67, 71, 71, 84] _ (by decide +kernel)) (by decide +kernel)

/-! ### 3. literal = parsed sequence = parsed k-mer -/

/-- the codec displays every symbol as the very character it was parsed from (no case folding, no
    alternative spellings): true of DNA and IUPAC, whose parsers accept upper-case letters only -/
def AsciiExact (c : Codec) : Prop := ∀ b s, c.tryFromAscii b = some s → c.toChar s = b

/-- accepted bytes (all are `< 128` under `TableWF`) whose symbol displays as another character -/
def asciiFailures (c : Codec) : List Nat :=
  (List.range 128).filter fun b => match c.tryFromAscii b with
    | some s => c.toChar s != b
    | none => false

theorem asciiExact_of_failures (c : Codec) (t : Macros.CharTable) (tw : C16.TableWF c t)
    (h : asciiFailures c = []) : AsciiExact c := by
  intro b s hs
  have hb : b < 128 := (tw.accepts b s hs).1
  have := (List.filter_eq_nil_iff.mp h) b (List.mem_range.mpr hb)
  simpa [hs] using this

theorem asciiExact_dna (p : Profile) : AsciiExact (Gen.dna p) :=
  asciiExact_of_failures _ _ (C16.dna_tableWF p) (by cases p <;> decide +kernel)

theorem asciiExact_iupac (p : Profile) : AsciiExact (Gen.iupac p) :=
  asciiExact_of_failures _ _ (C16.iupac_tableWF p) (by cases p <;> decide +kernel)

/-- a successful parse is the packing of the bytes' symbols, one per byte (C01 `parse_spec`) -/
theorem parse_ok_pack (c : Codec) (wf : CodecWF c) (text : List Nat) (v : Bits)
    (h : parseBytes c text = .ok v) :
    v = pack c.width (C01.symbolsOf c text) ∧ (∀ b ∈ text, (c.tryFromAscii b).isSome) ∧
    (C01.symbolsOf c text).length = text.length := by
  have hall := (C01.parse_ok_iff c wf text).mp ⟨v, h⟩
  have hbad : ∀ b ∈ text, C01.bad c b = false := by
    intro b hb
    have := hall b hb
    cases hx : c.tryFromAscii b <;> simp [C01.bad, hx] at this ⊢
  refine ⟨?_, hall, C01.symbolsOf_length c text hbad⟩
  rw [C01.parse_spec c wf] at h
  cases hf : text.find? (C01.bad c) with
  | some b => rw [hf] at h; cases h
  | none => rw [hf] at h; injection h with h; exact h.symm

/-- displaying the symbols of an accepted text gives the text back, for an `AsciiExact` codec -/
theorem symbolsOf_display (c : Codec) (hx : AsciiExact c) (text : List Nat)
    (hall : ∀ b ∈ text, (c.tryFromAscii b).isSome) : (C01.symbolsOf c text).map c.toChar = text := by
  induction text with
  | nil => rfl
  | cons b bs ih =>
    obtain ⟨s, hs⟩ := Option.isSome_iff_exists.mp (hall b (by simp))
    have ih' := ih (fun y hy => hall y (by simp [hy]))
    simp only [C01.symbolsOf] at ih'
    simp only [C01.symbolsOf, List.filterMap_cons, hs, List.map_cons, hx b s hs, ih']

/-- **literal = parsed = k-mer**, for any codec that has a literal macro table agreeing with its
    runtime parser (`C16.TableWF`) and displays symbols as they were written (`AsciiExact`):
    for a text of `K ≥ 1` characters accepted by `Seq::from_str`, with `K * BITS ≤ 64`,
      * the literal macro yields `K` symbols with exactly the parsed bits,
      * `Kmer::<_, K>::from_str` succeeds, the `kmer!` literal is that same k-mer, and its `Deref`
        is the parsed sequence, bit for bit,
      * the k-mer and the sequence feed the same data to a `Hasher`,
      * `Display` of the sequence and of the k-mer both give the text back. -/
theorem literal_parse_kmer (p : Profile) (c : Codec) (wf : CodecWF c) (t : Macros.CharTable)
    (tw : C16.TableWF c t) (hx : AsciiExact c) (text : List Nat) (v : Bits)
    (hparse : parseBytes c text = .ok v) (hK : 1 ≤ text.length) (hst : text.length * c.width ≤ 64) :
    Macros.macroSeq t c.width text = .ok (text.length, v) ∧
    ∃ k, Kmer.fromStr p c text.length .usize text = .ok k ∧
      Macros.macroKmer p c t .usize text = .ok (.ok k) ∧
      Kmer.deref c text.length k = v ∧
      Kmer.hashEvents c text.length .usize k = Seq.hashEvents c v ∧
      Seq.display p c v = .ok text ∧
      Kmer.display p c text.length .usize k = .ok text := by
  obtain ⟨hv, hall, hlen⟩ := parse_ok_pack c wf text v hparse
  have hcan := C01.symbolsOf_canon c wf text
  have hst' : text.length * c.width ≤ Storage.usize.bits := by simpa [Storage.bits] using hst
  have hov : text.length * c.width < W64 := Nat.lt_of_le_of_lt hst (by simp [W64])
  have hdisp := symbolsOf_display c hx text hall
  refine ⟨C16.macro_eq_runtime c wf t tw text v hparse, ofBitsLE (pack c.width (C01.symbolsOf c text)),
    ?_, ?_, ?_, ?_, ?_, ?_⟩
  · exact (C08.fromStr_iff p c wf text.length hK .usize hst' text _).mpr ⟨rfl, hall, rfl⟩
  · rw [C16.kmer_macro_eq_runtime p c wf t tw .usize text v hparse, hv,
      unsafeFrom_pack p c wf.width_pos text.length .usize _ hlen hK hst']
  · rw [hv]; exact C08.deref_spec c text.length hst _ hlen
  · rw [hv]; exact C02.hash_kmer_eq_slice c wf.width_pos text.length .usize hst' _ hlen
  · rw [C01.display_parse p c wf text v hparse hov, hdisp]
  · rw [C08.display_spec p c wf text.length .usize hst' _ hcan hlen, hdisp]

/-- `dna!("…")`, `"…".parse::<Seq<Dna>>()`, `"…".parse::<Kmer<Dna, K>>()` and `kmer!("…")` -/
theorem dna_literal_parse_kmer (p : Profile) (text : List Nat) (v : Bits)
    (hparse : parseBytes (Gen.dna p) text = .ok v) (hK : 1 ≤ text.length) (hst : text.length * 2 ≤ 64) :
    Macros.macroSeq (Macros.dnaTable p) 2 text = .ok (text.length, v) ∧
    ∃ k, Kmer.fromStr p (Gen.dna p) text.length .usize text = .ok k ∧
      Macros.macroKmer p (Gen.dna p) (Macros.dnaTable p) .usize text = .ok (.ok k) ∧
      Kmer.deref (Gen.dna p) text.length k = v ∧
      Kmer.hashEvents (Gen.dna p) text.length .usize k = Seq.hashEvents (Gen.dna p) v ∧
      Seq.display p (Gen.dna p) v = .ok text ∧
      Kmer.display p (Gen.dna p) text.length .usize k = .ok text := by
  have h := literal_parse_kmer p (Gen.dna p) (wf_dna p) (Macros.dnaTable p) (C16.dna_tableWF p)
    (asciiExact_dna p) text v hparse hK (by rw [dna_width]; exact hst)
  rw [dna_width] at h
  exact h

/-- the same for `iupac!` (4-bit symbols, so `K ≤ 16`) -/
theorem iupac_literal_parse_kmer (p : Profile) (text : List Nat) (v : Bits)
    (hparse : parseBytes (Gen.iupac p) text = .ok v) (hK : 1 ≤ text.length) (hst : text.length * 4 ≤ 64) :
    Macros.macroSeq (Macros.iupacTable p) 4 text = .ok (text.length, v) ∧
    ∃ k, Kmer.fromStr p (Gen.iupac p) text.length .usize text = .ok k ∧
      Kmer.deref (Gen.iupac p) text.length k = v ∧
      Kmer.hashEvents (Gen.iupac p) text.length .usize k = Seq.hashEvents (Gen.iupac p) v ∧
      Seq.display p (Gen.iupac p) v = .ok text ∧
      Kmer.display p (Gen.iupac p) text.length .usize k = .ok text := by
  have h := literal_parse_kmer p (Gen.iupac p) (wf_iupac p) (Macros.iupacTable p) (C16.iupac_tableWF p)
    (asciiExact_iupac p) text v hparse hK (by rw [C12.width_eq]; exact hst)
  rw [C12.width_eq] at h
  obtain ⟨h1, k, h2, _, h3, h4, h5, h6⟩ := h
  exact ⟨h1, k, h2, h3, h4, h5, h6⟩

/-- "GATTACA" -/
example : parseBytes (Gen.dna .debug) [71, 65, 84, 84, 65, 67, 65] = .ok (pack 2 [2, 0, 3, 3, 0, 1, 0]) ∧
    (Macros.macroSeq (Macros.dnaTable .debug) 2 [71, 65, 84, 84, 65, 67, 65]).toOption
      = some (7, pack 2 [2, 0, 3, 3, 0, 1, 0]) ∧
    Kmer.fromStr .debug (Gen.dna .debug) 7 .usize [71, 65, 84, 84, 65, 67, 65] = .ok (ofBitsLE (pack 2 [2, 0, 3, 3, 0, 1, 0])) ∧
    Kmer.deref (Gen.dna .debug) 7 (ofBitsLE (pack 2 [2, 0, 3, 3, 0, 1, 0])) = pack 2 [2, 0, 3, 3, 0, 1, 0] ∧
    Kmer.hashEvents (Gen.dna .debug) 7 .usize (ofBitsLE (pack 2 [2, 0, 3, 3, 0, 1, 0]))
      = Seq.hashEvents (Gen.dna .debug) (pack 2 [2, 0, 3, 3, 0, 1, 0]) ∧
    Seq.display .debug (Gen.dna .debug) (pack 2 [2, 0, 3, 3, 0, 1, 0]) = .ok [71, 65, 84, 84, 65, 67, 65] ∧
    Kmer.display .debug (Gen.dna .debug) 7 .usize (ofBitsLE (pack 2 [2, 0, 3, 3, 0, 1, 0])) = .ok [71, 65, 84, 84, 65, 67, 65] := by
  decide +kernel

/-- the general theorem instantiated on that text, and on a 32-character one (fills the word) -/
example := dna_literal_parse_kmer .release [71, 65, 84, 84, 65, 67, 65] (pack 2 [2, 0, 3, 3, 0, 1, 0]) (by decide +kernel) (by decide) (by decide)
example := dna_literal_parse_kmer .debug (List.replicate 8 [65, 67, 71, 84]).flatten
  (pack 2 (List.replicate 8 [0, 1, 2, 3]).flatten) (by decide +kernel) (by decide) (by decide)

/-- `AsciiExact` is a real restriction (it is what "displaying gives the string back" needs):
    the 1-bit S/W codec parses `C` and `G` as `S`, `A` and `T` as `W`, and so fails it -/
example : asciiFailures (Gen.deg .debug) = [65, 67, 71, 84] := by decide +kernel

/-! ### 4. translating a parsed gene -/

/-- the documented 2-bit code of a base letter: `A` 0, `C` 1, `G` 2, `T` 3 -/
def baseCode : Nat → Nat
  | 65 => 0 | 67 => 1 | 71 => 2 | 84 => 3 | _ => 0

/-- a DNA text: upper-case `A`, `C`, `G`, `T` only -/
def IsDnaText (bytes : List Nat) : Prop := ∀ b ∈ bytes, b ∈ [65, 67, 71, 84]

theorem dna_ascii (p : Profile) : ∀ b ∈ [65, 67, 71, 84], (Gen.dna p).tryFromAscii b = some (baseCode b) := by
  cases p <;> decide +kernel

theorem symbolsOf_dna (p : Profile) (bytes : List Nat) (hb : IsDnaText bytes) :
    C01.symbolsOf (Gen.dna p) bytes = bytes.map baseCode := by
  induction bytes with
  | nil => rfl
  | cons b bs ih =>
    have ih' := ih (fun y hy => hb y (by simp [hy]))
    simp only [C01.symbolsOf] at ih'
    simp only [C01.symbolsOf, List.filterMap_cons, dna_ascii p b (hb b (by simp)), List.map_cons, ih']

theorem fits_baseCode (bytes : List Nat) : Fits 2 (bytes.map baseCode) := by
  intro x hx
  obtain ⟨b, _, rfl⟩ := List.mem_map.mp hx
  unfold baseCode
  split <;> decide

/-- parsing a DNA text succeeds and packs the base codes (C01 `parse_ok_iff`, `parse_spec`) -/
theorem parse_dna_text (p : Profile) (bytes : List Nat) (hb : IsDnaText bytes) :
    parseBytes (Gen.dna p) bytes = .ok (pack 2 (bytes.map baseCode)) := by
  have hall : ∀ b ∈ bytes, ((Gen.dna p).tryFromAscii b).isSome := by
    intro b hbm; rw [dna_ascii p b (hb b hbm)]; rfl
  obtain ⟨s, hs⟩ := (C01.parse_ok_iff (Gen.dna p) (wf_dna p) bytes).mpr hall
  obtain ⟨hv, _, _⟩ := parse_ok_pack (Gen.dna p) (wf_dna p) bytes s hs
  rw [hs, hv, dna_width, symbolsOf_dna p bytes hb]

theorem getD_map_baseCode (bytes : List Nat) (i : Nat) :
    (bytes.map baseCode).getD i 0 = baseCode (bytes.getD i 0) := by
  simp only [List.getD_eq_getElem?_getD, List.getElem?_map]
  cases bytes[i]? <;> rfl

/-- **translation of a parsed gene.**  For a DNA text of `3m` letters: `Seq::from_str` succeeds,
    `seq.chunks(3).map(|c| STANDARD.to_amino(c))` yields exactly `m` amino-acid symbols, none of
    the calls panics, and the display letter of the `j`-th one is the NCBI table 1 letter
    (`Spec.aminoOf`, written from the NCBI listing) of the bases at text positions
    `3j, 3j+1, 3j+2`. -/
theorem translate_parsed_gene (p : Profile) (bytes : List Nat) (hb : IsDnaText bytes) (m : Nat)
    (hlen : bytes.length = 3 * m) (hov : bytes.length * 2 < W64) :
    ∃ s aminos, parseBytes (Gen.dna p) bytes = .ok s ∧
      (Iter.chunks p (Gen.dna p) s 3).map (C13.translateSlice p) = aminos.map .ok ∧
      aminos.length = m ∧ Canon (Gen.amino p) aminos ∧
      ∀ j, j < m → (aminos.map (Gen.amino p).toChar)[j]? = some (Spec.aminoOf
        (baseCode (bytes.getD (3 * j) 0)) (baseCode (bytes.getD (3 * j + 1) 0))
        (baseCode (bytes.getD (3 * j + 2) 0))) := by
  let cs := bytes.map baseCode
  have hcl : cs.length = 3 * m := by simp [cs, hlen]
  have hf : Fits 2 cs := fits_baseCode bytes
  have hdiv : cs.length / 3 = m := by rw [hcl]; exact Nat.mul_div_cancel_left m (by omega)
  let am : Nat → Nat := fun j =>
    C13.codonAmino p (cs.getD (j * 3) 0) (cs.getD (j * 3 + 1) 0) (cs.getD (j * 3 + 2) 0)
  have hstd : ∀ j, j < m → am j ∈ (Gen.amino p).items ∧
      (Gen.amino p).toChar (am j) = Spec.aminoOf (cs.getD (j * 3) 0) (cs.getD (j * 3 + 1) 0) (cs.getD (j * 3 + 2) 0) := by
    intro j hj
    exact C13.codonAmino_standard p _ (TransL.getD_fits hf _ (by omega)) _ (TransL.getD_fits hf _ (by omega))
      _ (TransL.getD_fits hf _ (by omega))
  refine ⟨pack 2 cs, (List.range m).map am, parse_dna_text p bytes hb, ?_, by simp, ?_, ?_⟩
  · have h := C11.chunks_spec p (Gen.dna p) (by rw [dna_width]; omega) cs
      (by rw [dna_width, hcl, ← hlen]; exact hov) 3 (by omega)
    rw [dna_width] at h
    rw [h, hdiv, List.map_map, List.map_map]
    apply List.map_congr_left
    intro j hj
    have hj' : j < m := List.mem_range.mp hj
    show C13.translateSlice p (.ok (pack 2 ((cs.take (j * 3 + 3)).drop (j * 3)))) = .ok (am j)
    rw [TransL.take_drop_triple cs (j * 3) (by omega)]
    exact C13.to_amino_model_eq_graph p _ (TransL.getD_fits hf _ (by omega)) _ (TransL.getD_fits hf _ (by omega))
      _ (TransL.getD_fits hf _ (by omega))
  · intro a ha
    obtain ⟨j, hj, rfl⟩ := List.mem_map.mp ha
    exact (hstd j (List.mem_range.mp hj)).1
  · intro j hj
    rw [List.map_map, List.getElem?_map, List.getElem?_range hj]
    show some ((Gen.amino p).toChar (am j)) = _
    rw [(hstd j hj).2]
    simp only [cs, getD_map_baseCode, Nat.mul_comm j 3]

/-- "ATGGCATAA" = Met Ala stop: `M`, `A`, `*` -/
example : parseBytes (Gen.dna .debug) [65, 84, 71, 71, 67, 65, 84, 65, 65] = .ok (pack 2 [0, 3, 2, 2, 1, 0, 3, 0, 0]) ∧
    (Iter.chunks .debug (Gen.dna .debug) (pack 2 [0, 3, 2, 2, 1, 0, 3, 0, 0]) 3).map
        (fun r => C13.letter .debug (C13.translateSlice .debug r))
      = [.ok 'M'.toNat, .ok 'A'.toNat, .ok '*'.toNat] ∧
    Spec.aminoOf (baseCode 65) (baseCode 84) (baseCode 71) = 'M'.toNat := by decide +kernel

/-- the general theorem instantiated on that gene -/
example := translate_parsed_gene .release [65, 84, 71, 71, 67, 65, 84, 65, 65] (by unfold IsDnaText; decide) 3
  (by decide) (by decide +kernel)

/-! ### 5. matching a concrete DNA sequence against an IUPAC pattern -/

theorem dna_item_lt (p : Profile) (x : Nat) (hx : x ∈ (Gen.dna p).items) : x < 4 := by
  rw [(C19.dna_items p).1] at hx
  simp only [List.mem_cons, List.mem_nil_iff, or_false] at hx
  omega

theorem convSym_lt : ∀ d < 4, C12.convSym d < 16 := by decide

/-- **IUPAC pattern matching.**  Convert a DNA sequence `d` to IUPAC (`Seq::<Iupac>::from(&d)`)
    and ask an IUPAC pattern whether it `contains` it: the conversion never fails, and the answer
    is `true` exactly when the lengths agree and every base of `d` is a member of the nucleotide
    set denoted by the pattern symbol at the same position (`C12.setOf`, tied to the documented
    IUPAC letters by `C12.setOf_letter`). -/
theorem dna_matches_iupac_pattern (p : Profile) (d pat : List Nat) (hd : Canon (Gen.dna p) d)
    (hp : Canon (Gen.iupac p) pat) (hov : d.length * 2 < W64) :
    ∃ q, Standard.convert p (Gen.dna p) (Gen.iupac p) (Standard.convTable p "iupac") (pack 2 d) = .ok q ∧
      (Translation.contains (Gen.iupac p) (pack 4 pat) q = true ↔
        pat.length = d.length ∧
        ∀ i (h1 : i < d.length) (h2 : i < pat.length), d[i] ∈ C12.setOf pat[i]) := by
  obtain ⟨hconv, hlen, hsing⟩ := C12.convert_spec p d hd hov
  have hq : Canon (Gen.iupac p) (d.map C12.convSym) := by
    apply C12.canon_of_fits
    intro x hx
    obtain ⟨y, hy, rfl⟩ := List.mem_map.mp hx
    exact convSym_lt y (dna_item_lt p y (hd y hy))
  refine ⟨_, hconv, ?_⟩
  rw [C12.contains_iff_iupac p pat _ hp hq]
  constructor
  · rintro ⟨hl, hall⟩
    refine ⟨hl.trans hlen, ?_⟩
    intro i h1 h2
    have h := hall i h2 (by rw [hlen]; exact h1)
    rw [hsing i h1] at h
    exact h _ (by simp)
  · rintro ⟨hl, hall⟩
    refine ⟨hl.trans hlen.symm, ?_⟩
    intro i h1 h2 x hx
    have h2' : i < d.length := by rw [← hlen]; exact h2
    rw [hsing i h2'] at hx
    simp only [List.mem_cons, List.mem_nil_iff, or_false] at hx
    subst hx
    exact hall i h2' h1

/-- the same for a pattern of the sequence's length (the usual call) -/
theorem dna_matches_iupac_pattern' (p : Profile) (d pat : List Nat) (hd : Canon (Gen.dna p) d)
    (hp : Canon (Gen.iupac p) pat) (hl : pat.length = d.length) (hov : d.length * 2 < W64) :
    ∃ q, Standard.convert p (Gen.dna p) (Gen.iupac p) (Standard.convTable p "iupac") (pack 2 d) = .ok q ∧
      (Translation.contains (Gen.iupac p) (pack 4 pat) q = true ↔
        ∀ i (h1 : i < d.length), d[i] ∈ C12.setOf (pat[i]'(hl ▸ h1))) := by
  obtain ⟨q, h1, h2⟩ := dna_matches_iupac_pattern p d pat hd hp hov
  refine ⟨q, h1, h2.trans ?_⟩
  constructor
  · rintro ⟨_, hall⟩ i hi; exact hall i hi (hl ▸ hi)
  · intro hall; exact ⟨hl, fun i hi _ => hall i hi⟩

/-- a pattern of another length never matches -/
theorem dna_pattern_length_mismatch (p : Profile) (d pat : List Nat) (hd : Canon (Gen.dna p) d)
    (hp : Canon (Gen.iupac p) pat) (hl : pat.length ≠ d.length) (hov : d.length * 2 < W64) :
    ∃ q, Standard.convert p (Gen.dna p) (Gen.iupac p) (Standard.convTable p "iupac") (pack 2 d) = .ok q ∧
      Translation.contains (Gen.iupac p) (pack 4 pat) q = false := by
  obtain ⟨q, h1, h2⟩ := dna_matches_iupac_pattern p d pat hd hp hov
  refine ⟨q, h1, ?_⟩
  cases hc : Translation.contains (Gen.iupac p) (pack 4 pat) q with
  | false => rfl
  | true => exact absurd (h2.mp hc).1 hl

/-- pattern `AYG` (codes 8 5 2): `ACG` and `ATG` match, `AGG` does not -/
example : Standard.convert .debug (Gen.dna .debug) (Gen.iupac .debug) (Standard.convTable .debug "iupac") (pack 2 [0, 1, 2])
      = .ok (pack 4 [8, 4, 2]) ∧
    Translation.contains (Gen.iupac .debug) (pack 4 [8, 5, 2]) (pack 4 [8, 4, 2]) = true ∧
    Translation.contains (Gen.iupac .debug) (pack 4 [8, 5, 2]) (pack 4 [8, 1, 2]) = true ∧
    Translation.contains (Gen.iupac .debug) (pack 4 [8, 5, 2]) (pack 4 [8, 2, 2]) = false ∧
    C12.setOf 5 = [1, 3] ∧ (1 ∈ C12.setOf 5) ∧ ¬ (2 ∈ C12.setOf 5) := by decide +kernel

/-- the general theorem instantiated: `ACGTTGCA` against `NNSWWSNN` -/
example := dna_matches_iupac_pattern' .release [0, 1, 2, 3, 3, 2, 1, 0] [15, 15, 6, 9, 9, 6, 15, 15]
  (by unfold Canon; decide +kernel) (by unfold Canon; decide +kernel) (by decide) (by decide +kernel)

/-! ### 6. a serde round trip keeps a sequence usable as a map key and as a query -/

/-- **serde, then compare.**  For any sequence `bs` (in particular every reachable one), if
    deserialising its serialised form yields `r` — and it always does — then `r` hashes like `bs`,
    compares `Equal` to it under `Ord`, finds the value stored under the original key in a map
    keyed by owned sequences, and, used as a key itself, is found by the original. -/
theorem serde_then_lookup {β} (c : Codec) (bs r : Bits) (hde : Serde.de (Serde.ser bs) = .ok r)
    (pre m : List (Bits × β)) (v : β) (hpre : ∀ kv ∈ pre, kv.1 ≠ bs) :
    r = bs ∧ Seq.hashEvents c r = Seq.hashEvents c bs ∧ Seq.cmp r bs = .eq ∧
    C02.mapGet c (pre ++ (bs, v) :: m) r = some v ∧
    C02.mapGet c (pre ++ (r, v) :: m) bs = some v := by
  rw [C18.seq_roundtrip] at hde
  injection hde with hde
  subst hde
  have hfind : C02.mapGet c (pre ++ (bs, v) :: m) bs = some v := by
    rw [C02.mapGet_eq_find]
    have hn : pre.find? (fun kv => decide (kv.1 = bs)) = none := by
      rw [List.find?_eq_none]; intro kv hkv; simpa using hpre kv hkv
    simp [List.find?_append, hn]
  exact ⟨rfl, rfl, (C10.seq_cmp_eq_iff bs bs).mpr rfl, hfind, hfind⟩

/-- the round trip always succeeds, so the premise above is never the obstacle -/
theorem serde_roundtrip_ok (bs : Bits) : ∃ r, Serde.de (Serde.ser bs) = .ok r :=
  ⟨bs, C18.seq_roundtrip bs⟩

/-- for a reachable sequence: the deserialised value is reachable again, holds the same symbols,
    is found under the original key and finds the original; and it does not find any *other*
    reachable key (no false positives: equality is equality of content) -/
theorem reach_serde_then_lookup {β} (p : Profile) (c : Codec) (bs : Bits)
    (h : Invariants.Reach p c bs) (r : Bits) (hde : Serde.de (Serde.ser bs) = .ok r)
    (pre m : List (Bits × β)) (v : β) (hpre : ∀ kv ∈ pre, kv.1 ≠ bs) :
    Invariants.Reach p c r ∧ syms c.width r = syms c.width bs ∧
    C02.mapGet c (pre ++ (bs, v) :: m) r = some v ∧
    C02.mapGet c (pre ++ (r, v) :: m) bs = some v ∧
    ∀ k, Invariants.Reach p c k → syms c.width k ≠ syms c.width bs → C02.mapGet c [(k, v)] r = none := by
  obtain ⟨e, _, _, h1, h2⟩ := serde_then_lookup c bs r hde pre m v hpre
  subst e
  refine ⟨h, rfl, h1, h2, ?_⟩
  intro k hk hne
  apply C02.map_get_other
  intro heq
  exact hne (by rw [heq])

/-- a 70-bit (two-word) masked-IUPAC key -/
example : (Serde.de (Serde.ser (pack 5 (List.range 14)))).toOption = some (pack 5 (List.range 14)) ∧
    C02.mapGet (Gen.miupac .debug) [(pack 5 [1, 2], "x"), (pack 5 (List.range 14), "y")] (pack 5 (List.range 14))
      = some "y" := by decide +kernel

/-- the general theorem instantiated on a parser-built key -/
example := reach_serde_then_lookup (β := String) .debug (Gen.dna .debug) (pack 2 [0, 1, 2, 3])
  (Invariants.Reach.parse [65, 67, 71, 84] _ (by decide +kernel)) (pack 2 [0, 1, 2, 3])
  (C18.seq_roundtrip _) [(pack 2 [1, 1], "x")] [] "y" (by decide +kernel)

end Composed
end BioSeq
