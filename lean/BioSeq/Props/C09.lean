/-
  C09 — k-mer operations agree with the same operation on the equivalent sequence.

  A k-mer "with symbols `cs`" is the storage integer `ofBitsLE (pack w cs)` (`w = c.width`,
  `cs.length = K`, every code `< 2^w`, `K*w ≤ st.bits`): this is exactly what
  `from_bitslice` produces from a `K`-symbol slice, and every canonical storage value
  (`v < 2^(K*w)`) is of this form (`canonical_is_ofSyms`).  Every theorem below states the
  result of a k-mer operation as the k-mer of the transformed symbol list, for every codec
  width ≥ 1 (no codec table is consulted by these operations), every `K` that fits the
  storage, every storage type, and every rotation count.
-/
import BioSeq.Lemmas.C09Lemmas
import BioSeq.Checks.WF
import BioSeq.Generated.Rev2Bit
namespace BioSeq
namespace C09
open BioSeq.Seq BioSeq.Kmer BioSeq.C09L

/-- `cs` is the symbol list of a `Kmer<A,K,S>` -/
structure IsKmer (c : Codec) (K : Nat) (st : Storage) (cs : List Nat) : Prop where
  len : cs.length = K
  fits : Fits c.width cs
  kpos : 1 ≤ K
  wpos : 1 ≤ c.width
  room : K * c.width ≤ st.bits

/-- symbol view of a k-mer: the chunks of its `K*BITS` content bits -/
def ksyms (c : Codec) (K : Nat) (st : Storage) (v : Nat) : List Nat := syms c.width (Kmer.bits c K st v)

/-! ### 0. bridge lemmas -/

/-- the content bits of a canonical value are its `K*w`-bit view -/
theorem bits_of_lt (c : Codec) (K : Nat) (st : Storage) (v : Nat) (hr : K * c.width ≤ st.bits) :
    Kmer.bits c K st v = toBitsLE (K * c.width) v := by
  unfold Kmer.bits toBitarray
  exact take_toBitsLE _ _ _ hr

theorem ofSyms_lt (w : Nat) (cs : List Nat) : ofBitsLE (pack w cs) < 2 ^ (w * cs.length) := by
  have := ofBitsLE_lt (pack w cs)
  rwa [pack_length] at this

/-- **canonical form**: the k-mer of `K` symbols is below `2^(K*BITS)` -/
theorem ofSyms_canonical {c K st cs} (h : IsKmer c K st cs) :
    ofBitsLE (pack c.width cs) < 2 ^ (K * c.width) := by
  have := ofSyms_lt c.width cs
  rwa [h.len, Nat.mul_comm] at this

theorem bits_ofSyms {c K st cs} (h : IsKmer c K st cs) :
    Kmer.bits c K st (ofBitsLE (pack c.width cs)) = pack c.width cs := by
  rw [bits_of_lt c K st _ h.room]
  have := toBitsLE_ofBitsLE (pack c.width cs)
  rwa [pack_length, h.len, Nat.mul_comm] at this

/-- the symbol view of the k-mer built from `cs` is `cs` -/
theorem ksyms_ofSyms {c K st cs} (h : IsKmer c K st cs) :
    ksyms c K st (ofBitsLE (pack c.width cs)) = cs := by
  unfold ksyms
  rw [bits_ofSyms h]
  exact syms_pack c.width h.wpos cs h.fits

/-- the whole storage array of a k-mer: its symbols, then zero bits -/
theorem toBitarray_ofSyms {c K st cs} (h : IsKmer c K st cs) :
    toBitarray st (ofBitsLE (pack c.width cs))
      = pack c.width cs ++ List.replicate (st.bits - K * c.width) false := by
  unfold toBitarray
  have hl : (pack c.width cs).length = K * c.width := by rw [pack_length, h.len, Nat.mul_comm]
  have := toBitsLE_ofBitsLE_pad st.bits (pack c.width cs) (by rw [hl]; exact h.room)
  rwa [hl] at this

/-- every canonical storage value is the k-mer of its symbol view -/
theorem canonical_is_ofSyms (c : Codec) (K : Nat) (st : Storage) (v : Nat)
    (hk : 1 ≤ K) (hw : 1 ≤ c.width) (hr : K * c.width ≤ st.bits) (hv : v < 2 ^ (K * c.width)) :
    IsKmer c K st (ksyms c K st v) ∧ v = ofBitsLE (pack c.width (ksyms c K st v)) := by
  have hb := bits_of_lt c K st v hr
  have hdvd : c.width ∣ (Kmer.bits c K st v).length := by
    rw [hb, length_toBitsLE]; exact Nat.dvd_mul_left _ _
  refine ⟨⟨?_, ?_, hk, hw, hr⟩, ?_⟩
  · simp only [ksyms, syms_length, hb, length_toBitsLE]
    exact Nat.mul_div_cancel _ (by omega)
  · exact fits_syms c.width hw _ hdvd
  · unfold ksyms
    rw [pack_syms c.width hw _ hdvd, hb, ofBitsLE_toBitsLE _ _ hv]

/-- `from_bitslice` / `load_le` succeed on any non-empty slice that fits the storage -/
theorem fromBitslice_ok (st : Storage) (bs : Bits) (h1 : 1 ≤ bs.length) (h2 : bs.length ≤ st.bits) :
    fromBitslice st bs = .ok (ofBitsLE bs) := C09L.fromBitslice_ok st bs h1 h2

theorem fromBitslice_pack {c K st cs} (h : IsKmer c K st cs) :
    fromBitslice st (pack c.width cs) = .ok (ofBitsLE (pack c.width cs)) := by
  have hl : (pack c.width cs).length = K * c.width := by rw [pack_length, h.len, Nat.mul_comm]
  apply C09L.fromBitslice_ok
  · rw [hl]; exact Nat.mul_le_mul h.kpos h.wpos
  · rw [hl]; exact h.room

theorem IsKmer.rot {c K st cs} (h : IsKmer c K st cs) (r : Nat) (hr : r ≤ K) :
    IsKmer c K st (cs.drop r ++ cs.take r) := by
  refine ⟨?_, (h.fits.drop r).append (h.fits.take r), h.kpos, h.wpos, h.room⟩
  simp only [List.length_append, List.length_drop, List.length_take, h.len]; omega

/-! ### 1. rotation -/

/-- `rotated_left(n)`: symbols `cs.drop r ++ cs.take r`, `r = n % K`, for ANY `n` -/
theorem rotatedLeft_spec {c K st cs} (h : IsKmer c K st cs) (n : Nat) :
    rotatedLeft c K st (ofBitsLE (pack c.width cs)) n
      = .ok (ofBitsLE (pack c.width (cs.drop (n % K) ++ cs.take (n % K)))) := by
  have hr : n % K ≤ K := Nat.le_of_lt (Nat.mod_lt _ h.kpos)
  unfold rotatedLeft
  simp only [bits_ofSyms h]
  rw [Nat.mul_comm (n % K), drop_pack, take_pack, ← pack_append]
  exact fromBitslice_pack (h.rot _ hr)

/-- `rotated_right(n)`: symbols `cs.drop (K - r) ++ cs.take (K - r)`, `r = n % K` -/
theorem rotatedRight_spec {c K st cs} (h : IsKmer c K st cs) (n : Nat) :
    rotatedRight c K st (ofBitsLE (pack c.width cs)) n
      = .ok (ofBitsLE (pack c.width (cs.drop (K - n % K) ++ cs.take (K - n % K)))) := by
  unfold rotatedRight
  simp only [bits_ofSyms h]
  have e : (pack c.width cs).length - n % K * c.width = c.width * (K - n % K) := by
    rw [pack_length, h.len, Nat.mul_sub, Nat.mul_comm (n % K)]
  rw [e, drop_pack, take_pack, ← pack_append]
  exact fromBitslice_pack (h.rot _ (by omega))

theorem rotateLeft_eq {α} (cs : List α) (K n : Nat) (hl : cs.length = K) (hk : 1 ≤ K) :
    cs.rotateLeft n = cs.drop (n % K) ++ cs.take (n % K) := by
  unfold List.rotateLeft
  by_cases h1 : cs.length ≤ 1
  · have : K = 1 := by omega
    subst this
    simp [h1, Nat.mod_one]
  · have h2 : ¬ K ≤ 1 := by omega
    simp [hl, h2]

theorem rotateRight_eq {α} (cs : List α) (K n : Nat) (hl : cs.length = K) (hk : 1 ≤ K) :
    cs.rotateRight n = cs.drop (K - n % K) ++ cs.take (K - n % K) := by
  unfold List.rotateRight
  by_cases h1 : cs.length ≤ 1
  · have : K = 1 := by omega
    subst this
    simp only [h1, if_true, Nat.mod_one, Nat.sub_zero]
    rw [List.drop_of_length_le (by omega), List.take_of_length_le (by omega)]; rfl
  · have h2 : ¬ K ≤ 1 := by omega
    simp [hl, h2]

/-- the same, phrased with the list library's rotation -/
theorem rotatedLeft_rotateLeft {c K st cs} (h : IsKmer c K st cs) (n : Nat) :
    rotatedLeft c K st (ofBitsLE (pack c.width cs)) n = .ok (ofBitsLE (pack c.width (cs.rotateLeft n))) := by
  rw [rotateLeft_eq cs K n h.len h.kpos]; exact rotatedLeft_spec h n

theorem rotatedRight_rotateRight {c K st cs} (h : IsKmer c K st cs) (n : Nat) :
    rotatedRight c K st (ofBitsLE (pack c.width cs)) n = .ok (ofBitsLE (pack c.width (cs.rotateRight n))) := by
  rw [rotateRight_eq cs K n h.len h.kpos]; exact rotatedRight_spec h n

/-- rotating by a multiple of `K` (incl. 0 and counts ≥ 2^16) is the identity -/
theorem rotatedLeft_multiple {c K st cs} (h : IsKmer c K st cs) (m : Nat) :
    rotatedLeft c K st (ofBitsLE (pack c.width cs)) (m * K) = .ok (ofBitsLE (pack c.width cs)) := by
  rw [rotatedLeft_spec h]; simp

theorem rotatedRight_multiple {c K st cs} (h : IsKmer c K st cs) (m : Nat) :
    rotatedRight c K st (ofBitsLE (pack c.width cs)) (m * K) = .ok (ofBitsLE (pack c.width cs)) := by
  rw [rotatedRight_spec h]
  simp only [Nat.mul_mod_left, Nat.sub_zero]
  rw [List.drop_of_length_le (by rw [h.len]; omega), List.take_of_length_le (by rw [h.len]; omega)]; rfl

/-! ### 2. push -/

theorem IsKmer.pushr {c K st cs} (h : IsKmer c K st cs) (s : Nat) (hs : s < 2 ^ c.width) :
    IsKmer c K st (cs.drop 1 ++ [s]) := by
  refine ⟨?_, (h.fits.drop 1).append (fun x hx => by simp at hx; rw [hx]; exact hs), h.kpos, h.wpos, h.room⟩
  have := h.len; have := h.kpos
  simp only [List.length_append, List.length_drop, List.length_cons, List.length_nil]; omega

theorem IsKmer.pushl {c K st cs} (h : IsKmer c K st cs) (s : Nat) (hs : s < 2 ^ c.width) :
    IsKmer c K st (s :: cs.take (K - 1)) := by
  refine ⟨?_, ?_, h.kpos, h.wpos, h.room⟩
  · have := h.len; have := h.kpos
    simp only [List.length_cons, List.length_take]; omega
  · intro x hx
    rcases List.mem_cons.mp hx with rfl | hx
    · exact hs
    · exact h.fits.take _ x hx

/-- `pushr(s)`: drop the first symbol, append `s` -/
theorem pushr_spec {c K st cs} (h : IsKmer c K st cs) (s : Nat) (hs : s < 2 ^ c.width) :
    pushr c K st (ofBitsLE (pack c.width cs)) s = .ok (ofBitsLE (pack c.width (cs.drop 1 ++ [s]))) := by
  have hK := h.kpos
  have hr : 1 % K ≤ K := Nat.le_of_lt (Nat.mod_lt _ h.kpos)
  have h' := h.rot (1 % K) hr
  have hlen' : (pack c.width (cs.drop (1 % K) ++ cs.take (1 % K))).length = K * c.width := by
    rw [pack_length, h'.len, Nat.mul_comm]
  -- the rotated symbols without their last one are `cs` without its first
  have hsym : (cs.drop (1 % K) ++ cs.take (1 % K)).take (K - 1) = cs.drop 1 := by
    by_cases hk1 : K = 1
    · subst hk1
      have hl := h.len
      rw [List.drop_of_length_le (l := cs) (i := 1) (by omega)]; simp
    · have : 1 % K = 1 := Nat.mod_eq_of_lt (by omega)
      rw [this, List.take_append_of_le_length (by simp [h.len]), List.take_of_length_le (by simp [h.len])]
  unfold Kmer.pushr
  rw [rotatedLeft_spec h 1]
  simp only [bind, Except.bind]
  rw [toBitarray_ofSyms h']
  have e1 : K * c.width - c.width = c.width * (K - 1) := by
    rw [Nat.mul_sub, Nat.mul_one, Nat.mul_comm]
  have e2 : c.width * (K - 1) + c.width = K * c.width := by
    have : c.width ≤ K * c.width := Nat.le_mul_of_pos_left _ (by omega)
    rw [← e1]; omega
  rw [e1, e2, List.take_append_of_le_length (by rw [hlen', ← e2]; omega), take_pack, hsym]
  rw [← hlen', List.drop_left, hlen']
  have hp : pack c.width (cs.drop 1) ++ toBitsLE c.width s = pack c.width (cs.drop 1 ++ [s]) := by
    simp [pack_append]
  rw [hp]
  have h2 := h.pushr s hs
  have hl2 : (pack c.width (cs.drop 1 ++ [s])).length = K * c.width := by
    rw [pack_length, h2.len, Nat.mul_comm]
  rw [C09L.fromBitslice_ok, ofBitsLE_append_zeros]
  · rw [List.length_append, hl2]
    have := Nat.mul_le_mul h.kpos h.wpos
    omega
  · rw [List.length_append, hl2, List.length_replicate]
    have := h.room
    omega

/-- `pushl(s)`: prepend `s`, drop the last symbol -/
theorem pushl_spec {c K st cs} (h : IsKmer c K st cs) (s : Nat) (hs : s < 2 ^ c.width) :
    pushl c K st (ofBitsLE (pack c.width cs)) s = .ok (ofBitsLE (pack c.width (s :: cs.take (K - 1)))) := by
  have hK := h.kpos
  have h' := h.rot (K - 1 % K) (by omega)
  -- the rotated symbols without their first one are `cs` without its last
  have hsym : (cs.drop (K - 1 % K) ++ cs.take (K - 1 % K)).drop 1 = cs.take (K - 1) := by
    by_cases hk1 : K = 1
    · subst hk1
      have hl := h.len
      simp only [Nat.mod_one, Nat.sub_zero, Nat.sub_self, List.take_zero]
      rw [List.drop_of_length_le (l := cs) (i := 1) (by omega), List.take_of_length_le (l := cs) (i := 1) (by omega)]
      simp only [List.nil_append]
      exact List.drop_of_length_le (by omega)
    · have : 1 % K = 1 := Nat.mod_eq_of_lt (by omega)
      rw [this, List.drop_append_of_le_length (by simp [h.len]; omega)]
      rw [List.drop_of_length_le (by simp [h.len]; omega)]; rfl
  unfold Kmer.pushl
  rw [rotatedRight_spec h 1]
  simp only [bind, Except.bind]
  rw [toBitarray_ofSyms h']
  have hle : c.width ≤ (pack c.width (cs.drop (K - 1 % K) ++ cs.take (K - 1 % K))).length := by
    rw [pack_length, h'.len]; exact Nat.le_mul_of_pos_right _ (by omega)
  rw [List.drop_append_of_le_length hle]
  have e1 : c.width = c.width * 1 := by omega
  conv => lhs; arg 2; arg 2; arg 1; arg 1; rw [e1]
  rw [drop_pack, hsym, ← List.append_assoc]
  have hp : toBitsLE c.width s ++ pack c.width (cs.take (K - 1)) = pack c.width (s :: cs.take (K - 1)) := by
    simp
  rw [hp]
  have h2 := h.pushl s hs
  have hl2 : (pack c.width (s :: cs.take (K - 1))).length = K * c.width := by
    rw [pack_length, h2.len, Nat.mul_comm]
  rw [C09L.fromBitslice_ok, ofBitsLE_append_zeros]
  · rw [List.length_append, hl2]
    have := Nat.mul_le_mul h.kpos h.wpos
    omega
  · rw [List.length_append, hl2, List.length_replicate]
    have := h.room
    omega

/-! ### 4. complement (`usize` storage: xor with the low-bits mask, special-cased at 64) -/

/-- symbol-level complement of a `w`-bit code under the xor mask: all bits flipped -/
def flip (w : Nat) (x : Nat) : Nat := 2 ^ w - 1 - x

theorem IsKmer.map_flip {c K st cs} (h : IsKmer c K st cs) : IsKmer c K st (cs.map (flip c.width)) :=
  ⟨by rw [List.length_map, h.len], fits_map_compl c.width cs, h.kpos, h.wpos, h.room⟩

/-- `complement(mask)` flips every symbol, for any width and any `K*w ≤ 64` (incl. `= 64`) -/
theorem complement_spec_w {c K cs} (h : IsKmer c K .usize cs) :
    Kmer.complement c K (ofBitsLE (pack c.width cs)) = ofBitsLE (pack c.width (cs.map (flip c.width))) := by
  have hv := ofSyms_canonical h
  have hroom : K * c.width ≤ 64 := h.room
  have hx : Kmer.complement c K (ofBitsLE (pack c.width cs))
      = ofBitsLE (pack c.width cs) ^^^ (2 ^ (K * c.width) - 1) := by
    unfold Kmer.complement
    by_cases h64 : K * c.width ≥ 64
    · have : K * c.width = 64 := by omega
      rw [if_pos h64, this]
    · rw [if_neg h64]
  rw [hx, xor_mask _ _ hv, ofBitsLE_pack _ _ h.fits, ofBitsLE_pack _ _ h.map_flip.fits]
  have := ofDigits_map_compl c.width cs h.fits
  rw [h.len, Nat.mul_comm] at this
  exact this.symm

/-- the 2-bit DNA complement `A<->T, C<->G` on codes is `3 - s`, and that is what xor with `0b11` does -/
theorem xor3_eq : ∀ s, s < 4 → s ^^^ 3 = 3 - s := by decide

theorem dna_comp_table (p : Profile) : ∀ s, s < 4 → (Gen.dna p).comp s = some (3 - s) := by
  cases p <;> decide

/-- **complement** of a 2-bit k-mer: every symbol `s` becomes `3 - s` -/
theorem complement_spec {c K cs} (h : IsKmer c K .usize cs) (hw2 : c.width = 2) :
    Kmer.complement c K (ofBitsLE (pack 2 cs)) = ofBitsLE (pack 2 (cs.map (fun x => 3 - x))) := by
  have := complement_spec_w h
  rw [hw2] at this
  exact this

/-! ### 5. reverse -/

theorem IsKmer.reverse {c K st cs} (h : IsKmer c K st cs) : IsKmer c K st cs.reverse :=
  ⟨by rw [List.length_reverse, h.len], h.fits.reverse, h.kpos, h.wpos, h.room⟩

/-- the sequence-level `ReverseMut::rev` reverses the symbols -/
theorem seq_rev_pack (c : Codec) (hw : 1 ≤ c.width) (cs : List Nat) :
    Seq.rev c (pack c.width cs) = pack c.width cs.reverse := C09L.seq_rev_pack c hw cs

/-- (a) generic path (`BITS ≠ 2`): reverse all content bits, restore each chunk -/
theorem rev_generic {c K cs} (h : IsKmer c K .usize cs) (hw2 : c.width ≠ 2) :
    Kmer.rev c K (ofBitsLE (pack c.width cs)) = .ok (ofBitsLE (pack c.width cs.reverse)) := by
  unfold Kmer.rev
  rw [if_neg hw2]
  have hd : deref c K (ofBitsLE (pack c.width cs)) = Kmer.bits c K .usize (ofBitsLE (pack c.width cs)) := rfl
  rw [hd, bits_ofSyms h, C09L.seq_rev_pack c h.wpos]
  exact fromBitslice_pack h.reverse

/-- the 32 base-4 digits of a 2-bit k-mer word: its symbols, then zeros -/
theorem digits_ofSyms2 {c K cs} (h : IsKmer c K .usize cs) (hw2 : c.width = 2) :
    digits 2 32 (ofBitsLE (pack 2 cs)) = cs ++ List.replicate (32 - K) 0 := by
  have hf : Fits 2 cs := by have := h.fits; rwa [hw2] at this
  have hK : K ≤ 32 := by have := h.room; rw [hw2] at this; have : K * 2 ≤ 64 := this; omega
  have hf2 : Fits 2 (cs ++ List.replicate (32 - K) 0) := hf.append (fits_replicate_zero 2 _)
  have hl : (cs ++ List.replicate (32 - K) 0).length = 32 := by
    rw [List.length_append, List.length_replicate, h.len]; omega
  have := digits_ofDigits 2 _ hf2
  rw [hl, ofDigits_append, ofDigits_replicate_zero, Nat.mul_zero, Nat.add_zero] at this
  rw [ofBitsLE_pack 2 cs hf]
  exact this

/-- (b) the 2-bit fast path: `swap_bytes` + `REV_2BIT` per byte, then shift out the
    `64 - 2K` low bits, reverses the symbols -/
theorem revBlocks2_shift {c K cs} (h : IsKmer c K .usize cs) (hw2 : c.width = 2) :
    revBlocks2 (ofBitsLE (pack 2 cs)) >>> (64 - 2 * K) = ofBitsLE (pack 2 cs.reverse) := by
  have hf : Fits 2 cs := by have := h.fits; rwa [hw2] at this
  have hK : K ≤ 32 := by have := h.room; rw [hw2] at this; have : K * 2 ≤ 64 := this; omega
  rw [revBlocks2_eq, digits_ofSyms2 h hw2, List.reverse_append, List.reverse_replicate, ofDigits_append,
    ofDigits_replicate_zero, Nat.zero_add, List.length_replicate, Nat.shiftRight_eq_div_pow,
    ofBitsLE_pack 2 _ hf.reverse]
  have e : 64 - 2 * K = 2 * (32 - K) := by omega
  rw [e]
  exact Nat.mul_div_cancel_left _ (Nat.two_pow_pos _)

theorem rev_2bit (c : Codec) (K : Nat) (v : Nat) (hw2 : c.width = 2) :
    Kmer.rev c K v = .ok (revBlocks2 v >>> (64 - 2 * K)) := by
  unfold Kmer.rev
  rw [if_pos hw2]

/-- **reverse**, both paths: the k-mer of the reversed symbols -/
theorem rev_spec {c K cs} (h : IsKmer c K .usize cs) :
    Kmer.rev c K (ofBitsLE (pack c.width cs)) = .ok (ofBitsLE (pack c.width cs.reverse)) := by
  by_cases hw2 : c.width = 2
  · have h1 := rev_2bit c K (ofBitsLE (pack 2 cs)) hw2
    have h2 := revBlocks2_shift h hw2
    rw [hw2, h1, h2]
  · exact rev_generic h hw2

/-! ### 6. reverse complement -/

theorem flip_flip (w x : Nat) (hx : x < 2 ^ w) : flip w (flip w x) = x := by
  unfold flip; omega

theorem map_flip_flip (w : Nat) (cs : List Nat) (h : Fits w cs) : (cs.map (flip w)).map (flip w) = cs := by
  induction cs with
  | nil => rfl
  | cons x xs ih =>
    simp only [List.map_cons]
    rw [flip_flip w x (h x (by simp)), ih (fun y hy => h y (by simp [hy]))]

/-- `revcomp` = complement then reverse: symbols `(cs.map comp).reverse` -/
theorem revcomp_spec_w {c K cs} (h : IsKmer c K .usize cs) :
    Kmer.revcomp c K (ofBitsLE (pack c.width cs))
      = .ok (ofBitsLE (pack c.width (cs.map (flip c.width)).reverse)) := by
  unfold Kmer.revcomp
  rw [complement_spec_w h]
  exact rev_spec h.map_flip

theorem revcomp_spec {c K cs} (h : IsKmer c K .usize cs) (hw2 : c.width = 2) :
    Kmer.revcomp c K (ofBitsLE (pack 2 cs)) = .ok (ofBitsLE (pack 2 (cs.map (fun x => 3 - x)).reverse)) := by
  have := revcomp_spec_w h
  rw [hw2] at this
  exact this

/-- **reverse complement is an involution** -/
theorem revcomp_involution {c K cs} (h : IsKmer c K .usize cs) :
    ∃ r, Kmer.revcomp c K (ofBitsLE (pack c.width cs)) = .ok r ∧
      Kmer.revcomp c K r = .ok (ofBitsLE (pack c.width cs)) := by
  refine ⟨_, revcomp_spec_w h, ?_⟩
  rw [revcomp_spec_w h.map_flip.reverse, List.map_reverse, List.reverse_reverse,
    map_flip_flip _ _ h.fits]

/-- the canonical k-mer `min(k, revcomp(k))` -/
def canonicalKmer (c : Codec) (K : Nat) (v : Nat) : Res Nat := do
  let r ← Kmer.revcomp c K v
  .ok (min v r)

/-- **the canonical form is the same for a k-mer and its reverse complement** -/
theorem canonical_same {c K cs} (h : IsKmer c K .usize cs) :
    ∃ r, Kmer.revcomp c K (ofBitsLE (pack c.width cs)) = .ok r ∧
      canonicalKmer c K r = canonicalKmer c K (ofBitsLE (pack c.width cs)) := by
  obtain ⟨r, h1, h2⟩ := revcomp_involution h
  refine ⟨r, h1, ?_⟩
  simp only [canonicalKmer, h1, h2, bind, Except.bind]
  rw [Nat.min_comm]

/-! ### 3. every k-mer: results are canonical and have the expected symbol view

  The statements above, for an arbitrary canonical storage value `v < 2^(K*BITS)` and its
  symbol view `ksyms` (no reference to a chosen symbol list). -/

/-- `r` succeeded with a canonical value whose symbols are `cs'` -/
def HasSyms (c : Codec) (K : Nat) (st : Storage) (r : Res Nat) (cs' : List Nat) : Prop :=
  ∃ x, r = .ok x ∧ x < 2 ^ (K * c.width) ∧ ksyms c K st x = cs'

theorem hasSyms_ofSyms {c K st cs'} (h : IsKmer c K st cs') :
    HasSyms c K st (.ok (ofBitsLE (pack c.width cs'))) cs' :=
  ⟨_, rfl, ofSyms_canonical h, ksyms_ofSyms h⟩

theorem rotatedLeft_all (c : Codec) (K : Nat) (st : Storage) (v : Nat)
    (hk : 1 ≤ K) (hw : 1 ≤ c.width) (hr : K * c.width ≤ st.bits) (hv : v < 2 ^ (K * c.width)) (n : Nat) :
    HasSyms c K st (rotatedLeft c K st v n) ((ksyms c K st v).rotateLeft n) := by
  obtain ⟨hi, he⟩ := canonical_is_ofSyms c K st v hk hw hr hv
  generalize ksyms c K st v = cs at hi he
  subst he
  rw [rotatedLeft_rotateLeft hi, rotateLeft_eq cs K n hi.len hi.kpos]
  exact hasSyms_ofSyms (hi.rot _ (Nat.le_of_lt (Nat.mod_lt _ hk)))

theorem rotatedRight_all (c : Codec) (K : Nat) (st : Storage) (v : Nat)
    (hk : 1 ≤ K) (hw : 1 ≤ c.width) (hr : K * c.width ≤ st.bits) (hv : v < 2 ^ (K * c.width)) (n : Nat) :
    HasSyms c K st (rotatedRight c K st v n) ((ksyms c K st v).rotateRight n) := by
  obtain ⟨hi, he⟩ := canonical_is_ofSyms c K st v hk hw hr hv
  generalize ksyms c K st v = cs at hi he
  subst he
  rw [rotatedRight_rotateRight hi, rotateRight_eq cs K n hi.len hi.kpos]
  exact hasSyms_ofSyms (hi.rot _ (by omega))

theorem pushr_all (c : Codec) (K : Nat) (st : Storage) (v : Nat)
    (hk : 1 ≤ K) (hw : 1 ≤ c.width) (hr : K * c.width ≤ st.bits) (hv : v < 2 ^ (K * c.width))
    (s : Nat) (hs : s < 2 ^ c.width) :
    HasSyms c K st (pushr c K st v s) ((ksyms c K st v).drop 1 ++ [s]) := by
  obtain ⟨hi, he⟩ := canonical_is_ofSyms c K st v hk hw hr hv
  generalize ksyms c K st v = cs at hi he
  subst he
  rw [pushr_spec hi s hs]
  exact hasSyms_ofSyms (hi.pushr s hs)

theorem pushl_all (c : Codec) (K : Nat) (st : Storage) (v : Nat)
    (hk : 1 ≤ K) (hw : 1 ≤ c.width) (hr : K * c.width ≤ st.bits) (hv : v < 2 ^ (K * c.width))
    (s : Nat) (hs : s < 2 ^ c.width) :
    HasSyms c K st (pushl c K st v s) (s :: (ksyms c K st v).take (K - 1)) := by
  obtain ⟨hi, he⟩ := canonical_is_ofSyms c K st v hk hw hr hv
  generalize ksyms c K st v = cs at hi he
  subst he
  rw [pushl_spec hi s hs]
  exact hasSyms_ofSyms (hi.pushl s hs)

theorem complement_all (c : Codec) (K : Nat) (v : Nat)
    (hk : 1 ≤ K) (hw : 1 ≤ c.width) (hr : K * c.width ≤ 64) (hv : v < 2 ^ (K * c.width)) :
    HasSyms c K .usize (.ok (Kmer.complement c K v)) ((ksyms c K .usize v).map (flip c.width)) := by
  obtain ⟨hi, he⟩ := canonical_is_ofSyms c K .usize v hk hw hr hv
  generalize ksyms c K .usize v = cs at hi he
  subst he
  rw [complement_spec_w hi]
  exact hasSyms_ofSyms hi.map_flip

theorem rev_all (c : Codec) (K : Nat) (v : Nat)
    (hk : 1 ≤ K) (hw : 1 ≤ c.width) (hr : K * c.width ≤ 64) (hv : v < 2 ^ (K * c.width)) :
    HasSyms c K .usize (Kmer.rev c K v) (ksyms c K .usize v).reverse := by
  obtain ⟨hi, he⟩ := canonical_is_ofSyms c K .usize v hk hw hr hv
  generalize ksyms c K .usize v = cs at hi he
  subst he
  rw [rev_spec hi]
  exact hasSyms_ofSyms hi.reverse

theorem revcomp_all (c : Codec) (K : Nat) (v : Nat)
    (hk : 1 ≤ K) (hw : 1 ≤ c.width) (hr : K * c.width ≤ 64) (hv : v < 2 ^ (K * c.width)) :
    HasSyms c K .usize (Kmer.revcomp c K v) ((ksyms c K .usize v).map (flip c.width)).reverse := by
  obtain ⟨hi, he⟩ := canonical_is_ofSyms c K .usize v hk hw hr hv
  generalize ksyms c K .usize v = cs at hi he
  subst he
  rw [revcomp_spec_w hi]
  exact hasSyms_ofSyms hi.map_flip.reverse

/-- involution and canonical k-mer, for every canonical storage value -/
theorem revcomp_involution_all (c : Codec) (K : Nat) (v : Nat)
    (hk : 1 ≤ K) (hw : 1 ≤ c.width) (hr : K * c.width ≤ 64) (hv : v < 2 ^ (K * c.width)) :
    ∃ r, Kmer.revcomp c K v = .ok r ∧ Kmer.revcomp c K r = .ok v ∧
      canonicalKmer c K r = canonicalKmer c K v := by
  obtain ⟨hi, he⟩ := canonical_is_ofSyms c K .usize v hk hw hr hv
  generalize ksyms c K .usize v = cs at hi he
  subst he
  obtain ⟨r, h1, h2⟩ := revcomp_involution hi
  obtain ⟨r', h1', h3⟩ := canonical_same hi
  rw [h1] at h1'; injection h1' with h1'; subst h1'
  exact ⟨r, h1, h2, h3⟩

/-! ### agreement with the sequence-level operations on the same bits -/

/-- k-mer reverse = `ReverseMut::rev` of the `SeqSlice` holding the same symbols -/
theorem rev_agrees_seq (c : Codec) (K : Nat) (v : Nat)
    (hk : 1 ≤ K) (hw : 1 ≤ c.width) (hr : K * c.width ≤ 64) (hv : v < 2 ^ (K * c.width)) :
    ∃ r, Kmer.rev c K v = .ok r ∧ Kmer.bits c K .usize r = Seq.rev c (Kmer.bits c K .usize v) := by
  obtain ⟨hi, he⟩ := canonical_is_ofSyms c K .usize v hk hw hr hv
  generalize ksyms c K .usize v = cs at hi he
  subst he
  refine ⟨_, rev_spec hi, ?_⟩
  rw [bits_ofSyms hi, bits_ofSyms hi.reverse, C09L.seq_rev_pack c hw]

def dnaChunkFails (p : Profile) : List Nat :=
  (List.range 4).filter fun x =>
    decide (chunkOp p (Gen.dna p) (Gen.dna p).comp (toBitsLE 2 x) ≠ .ok (toBitsLE 2 (3 - x)))

theorem dnaChunk_ok (p : Profile) : dnaChunkFails p = [] := by cases p <;> decide +kernel

/-- the sequence-level complement of 2-bit DNA maps every code `s` to `3 - s` -/
theorem seq_comp_dna (p : Profile) (cs : List Nat) (hf : Fits 2 cs) :
    Seq.comp p (Gen.dna p) (pack 2 cs) = .ok (pack 2 (cs.map (fun x => 3 - x))) := by
  have hw : (Gen.dna p).width = 2 := by cases p <;> rfl
  unfold Seq.comp
  rw [hw, show Seq.len (Gen.dna p) (pack 2 cs) = cs.length by simp [Seq.len, hw]]
  apply mapChunksM_pack
  intro x hx
  have hx4 : x < 4 := hf x hx
  have hm : x ∈ List.range 4 := List.mem_range.mpr hx4
  have : x ∉ dnaChunkFails p := by rw [dnaChunk_ok]; simp
  simp only [dnaChunkFails, List.mem_filter, hm, true_and, decide_eq_true_eq, ne_eq, Decidable.not_not] at this
  exact this

/-- k-mer complement (xor mask) = `ComplementMut::comp` of the DNA `SeqSlice` with the same symbols -/
theorem complement_agrees_seq (p : Profile) (K : Nat) (v : Nat)
    (hk : 1 ≤ K) (hr : K * 2 ≤ 64) (hv : v < 2 ^ (K * 2)) :
    Seq.comp p (Gen.dna p) (Kmer.bits (Gen.dna p) K .usize v)
      = .ok (Kmer.bits (Gen.dna p) K .usize (Kmer.complement (Gen.dna p) K v)) := by
  have hw : (Gen.dna p).width = 2 := by cases p <;> rfl
  obtain ⟨hi, he⟩ := canonical_is_ofSyms (Gen.dna p) K .usize v hk (by rw [hw]; omega)
    (by rw [hw]; exact hr) (by rw [hw]; exact hv)
  generalize ksyms (Gen.dna p) K .usize v = cs at hi he
  subst he
  rw [complement_spec_w hi, bits_ofSyms hi, bits_ofSyms hi.map_flip, hw]
  exact seq_comp_dna p cs (by have := hi.fits; rwa [hw] at this)

/-- k-mer reverse complement = `ReverseComplementMut::revcomp` of the DNA `SeqSlice` -/
theorem revcomp_agrees_seq (p : Profile) (K : Nat) (v : Nat)
    (hk : 1 ≤ K) (hr : K * 2 ≤ 64) (hv : v < 2 ^ (K * 2)) :
    ∃ r, Kmer.revcomp (Gen.dna p) K v = .ok r ∧
      Seq.revcomp p (Gen.dna p) (Kmer.bits (Gen.dna p) K .usize v) = .ok (Kmer.bits (Gen.dna p) K .usize r) := by
  have hw : (Gen.dna p).width = 2 := by cases p <;> rfl
  obtain ⟨hi, he⟩ := canonical_is_ofSyms (Gen.dna p) K .usize v hk (by rw [hw]; omega)
    (by rw [hw]; exact hr) (by rw [hw]; exact hv)
  generalize ksyms (Gen.dna p) K .usize v = cs at hi he
  subst he
  refine ⟨_, revcomp_spec_w hi, ?_⟩
  unfold Seq.revcomp
  rw [bits_ofSyms hi, bits_ofSyms hi.map_flip.reverse]
  have hc := seq_comp_dna p cs (by have := hi.fits; rwa [hw] at this)
  rw [hw, hc]
  simp only [Except.map]
  have := C09L.seq_rev_pack (Gen.dna p) hi.wpos (cs.map (fun x => 3 - x))
  rw [hw] at this
  rw [this]
  rfl

/-! ### 7. the extracted `REV_2BIT` behaviour (both build profiles) -/

theorem rev2bit_debug_eq :
    Gen.rev2bit_debug = (List.range 256).map (fun b => revBlocks2 b >>> 56) := by decide +kernel

theorem rev2bit_release_eq :
    Gen.rev2bit_release = (List.range 256).map (fun b => revBlocks2 b >>> 56) := by decide +kernel

/-- ... and it is the `make_2bit_table` formula -/
theorem rev2bit_debug_rev2 : Gen.rev2bit_debug = (List.range 256).map rev2 := by decide +kernel
theorem rev2bit_release_rev2 : Gen.rev2bit_release = (List.range 256).map rev2 := by decide +kernel

/-- the model's `Kmer<Dna,4>::rev` on every byte value is exactly the observed table -/
theorem rev2bit_model (p : Profile) :
    (List.range 256).map (fun b => Kmer.rev (Gen.dna p) 4 b)
      = (match p with | .debug => Gen.rev2bit_debug | .release => Gen.rev2bit_release).map .ok := by
  have hw : (Gen.dna p).width = 2 := by cases p <;> rfl
  have : ∀ b, Kmer.rev (Gen.dna p) 4 b = .ok (revBlocks2 b >>> 56) := fun b => rev_2bit _ 4 b hw
  simp only [this]
  cases p
  · simp only [rev2bit_debug_eq, List.map_map]; rfl
  · simp only [rev2bit_release_eq, List.map_map]; rfl

/-! ### 8. non-vacuity: concrete instances -/

/-- K = 32 fills the word: complement takes the `m ≥ 64` branch -/
example : IsKmer (Gen.dna .release) 32 .usize ((List.range 32).map (· % 4)) :=
  ⟨by decide +kernel, by unfold Fits; decide +kernel, by decide, by decide, by decide⟩
example : Kmer.revcomp (Gen.dna .release) 32 (ofBitsLE (pack 2 ((List.range 32).map (· % 4))))
    = .ok (ofBitsLE (pack 2 (((List.range 32).map (· % 4)).map (fun x => 3 - x)).reverse)) := by decide +kernel
example : Kmer.complement (Gen.dna .debug) 32 (ofBitsLE (pack 2 ((List.range 32).map (· % 4))))
    = ofBitsLE (pack 2 (((List.range 32).map (· % 4)).map (fun x => 3 - x))) := by decide +kernel
/-- K = 5 -/
example : IsKmer (Gen.dna .debug) 5 .usize [0, 1, 2, 3, 1] := ⟨by decide, by unfold Fits; decide +kernel, by decide, by decide, by decide⟩
example : Kmer.rev (Gen.dna .debug) 5 (ofBitsLE (pack 2 [0, 1, 2, 3, 1])) = .ok (ofBitsLE (pack 2 [1, 3, 2, 1, 0])) := by
  decide +kernel
example : Kmer.revcomp (Gen.dna .debug) 5 (ofBitsLE (pack 2 [0, 1, 2, 3, 1])) = .ok (ofBitsLE (pack 2 [2, 0, 1, 2, 3])) := by
  decide +kernel
example : rotatedLeft (Gen.dna .debug) 5 .u64 (ofBitsLE (pack 2 [0, 1, 2, 3, 1])) (5 * 65536 + 2)
    = .ok (ofBitsLE (pack 2 [2, 3, 1, 0, 1])) := by decide +kernel
/-- `u128`, K = 40 (80 bits): rotate and push -/
example : IsKmer (Gen.dna .release) 40 .u128 ((List.range 40).map (· % 4)) :=
  ⟨by decide +kernel, by unfold Fits; decide +kernel, by decide, by decide, by decide⟩
example : rotatedRight (Gen.dna .release) 40 .u128 (ofBitsLE (pack 2 ((List.range 40).map (· % 4)))) 83
    = .ok (ofBitsLE (pack 2 (((List.range 40).map (· % 4)).drop 37 ++ ((List.range 40).map (· % 4)).take 37))) := by
  decide +kernel
example : pushr (Gen.dna .release) 40 .u128 (ofBitsLE (pack 2 ((List.range 40).map (· % 4)))) 2
    = .ok (ofBitsLE (pack 2 (((List.range 40).map (· % 4)).drop 1 ++ [2]))) := by decide +kernel
example : pushl (Gen.dna .release) 40 .u128 (ofBitsLE (pack 2 ((List.range 40).map (· % 4)))) 2
    = .ok (ofBitsLE (pack 2 (2 :: ((List.range 40).map (· % 4)).take 39))) := by decide +kernel
/-- 4-bit and 6-bit codecs: the generic reverse path -/
example : IsKmer (Gen.iupac .debug) 16 .usize (List.range 16) :=
  ⟨by decide +kernel, by unfold Fits; decide +kernel, by decide, by decide, by decide⟩
example : Kmer.rev (Gen.iupac .debug) 16 (ofBitsLE (pack 4 (List.range 16)))
    = .ok (ofBitsLE (pack 4 (List.range 16).reverse)) := by decide +kernel
example : IsKmer (Gen.amino .release) 10 .usize [6, 27, 18, 2, 31, 10, 17, 12, 0, 44] :=
  ⟨by decide, by unfold Fits; decide +kernel, by decide, by decide, by decide⟩
example : Kmer.rev (Gen.amino .release) 10 (ofBitsLE (pack 6 [6, 27, 18, 2, 31, 10, 17, 12, 0, 44]))
    = .ok (ofBitsLE (pack 6 [44, 0, 12, 17, 10, 31, 2, 18, 27, 6])) := by decide +kernel
/-- the "every k-mer" theorems instantiated: 6-bit codec in `u128` (K = 21, 126 bits), a rotation
    count above 2^16; 2-bit DNA at K = 32 -/
example : HasSyms (Gen.amino .debug) 21 .u128
    (rotatedLeft (Gen.amino .debug) 21 .u128 12345678901234567890123456789 70000)
    ((ksyms (Gen.amino .debug) 21 .u128 12345678901234567890123456789).rotateLeft 70000) :=
  rotatedLeft_all _ 21 .u128 _ (by decide) (by decide) (by decide) (by decide +kernel) _
example : HasSyms (Gen.amino .debug) 21 .u128
    (pushl (Gen.amino .debug) 21 .u128 12345678901234567890123456789 44)
    (44 :: (ksyms (Gen.amino .debug) 21 .u128 12345678901234567890123456789).take 20) :=
  pushl_all _ 21 .u128 _ (by decide) (by decide) (by decide) (by decide +kernel) 44 (by decide)
example : ∃ r, Kmer.revcomp (Gen.dna .release) 32 0xDEADBEEF01234567 = .ok r ∧
    Kmer.revcomp (Gen.dna .release) 32 r = .ok 0xDEADBEEF01234567 ∧
    canonicalKmer (Gen.dna .release) 32 r = canonicalKmer (Gen.dna .release) 32 0xDEADBEEF01234567 :=
  revcomp_involution_all _ 32 _ (by decide) (by decide) (by decide) (by decide +kernel)

end C09
end BioSeq
