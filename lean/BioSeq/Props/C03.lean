/-
  C03 — slicing and indexing select exactly the requested symbols, or refuse.
  Stated on the symbol view `syms` of an aligned bit string (every `Seq`/`SeqSlice` the
  API can produce is aligned: C06 `*_aligned`).  The guard `(b + 1) * width < 2^64`
  excludes only indices whose bit offset overflows `usize`; at that excluded point the
  release build wraps and does return a symbol (known finding `index-mul-overflow-release`).
-/
import BioSeq.Lemmas.SeqLemmas
namespace BioSeq
namespace C03
open BioSeq.Seq

/-- the code's invariant: the bit length is a multiple of the symbol width -/
def Aligned (c : Codec) (bs : Bits) : Prop := c.width ∣ bs.length

theorem aligned_pack (c : Codec) (cs : List Nat) : Aligned c (pack c.width cs) := by
  simp only [Aligned, pack_length]; exact Nat.dvd_mul_right _ _

theorem eq_pack (c : Codec) (hw : 1 ≤ c.width) (bs : Bits) (h : Aligned c bs) :
    bs = pack c.width (syms c.width bs) := (pack_syms c.width hw bs h).symm

theorem len_eq (c : Codec) (bs : Bits) : len c bs = (syms c.width bs).length := by simp [len]

/-- `&s[a..b]` in bounds: an aligned slice holding exactly symbols `a..b` of the parent -/
theorem index_range (p : Profile) (c : Codec) (hw : 1 ≤ c.width) (bs : Bits) (hal : Aligned c bs)
    (a b : Nat) (hab : a ≤ b) (hb : b ≤ len c bs) (hov : b * c.width < W64) :
    ∃ r, index p c bs .range a b = .ok r ∧ Aligned c r ∧
      syms c.width r = ((syms c.width bs).take b).drop a ∧ len c r = b - a := by
  have e := eq_pack c hw bs hal
  have hb' : b ≤ (syms c.width bs).length := by rw [← len_eq]; exact hb
  refine ⟨pack c.width (((syms c.width bs).take b).drop a), ?_, aligned_pack c _, ?_, ?_⟩
  · conv => lhs; rw [e]
    exact index_range_pack p c _ a b hab hb' hov
  · exact syms_pack c.width hw _ (((fits_syms c.width hw bs hal).take b).drop a)
  · rw [len_pack c hw]; simp only [List.length_drop, List.length_take]; omega

/-- the `i`-th symbol of the slice is the parent's `(a+i)`-th -/
theorem index_range_nth (p : Profile) (c : Codec) (hw : 1 ≤ c.width) (bs : Bits) (hal : Aligned c bs)
    (a b : Nat) (hab : a ≤ b) (hb : b ≤ len c bs) (hov : b * c.width < W64) (r : Bits)
    (hr : index p c bs .range a b = .ok r) (i : Nat) (hi : i < b - a) :
    (syms c.width r)[i]? = (syms c.width bs)[a + i]? := by
  obtain ⟨r', hr', _, hs, _⟩ := index_range p c hw bs hal a b hab hb hov
  rw [hr] at hr'; injection hr' with hr'; subst hr'
  rw [hs, List.getElem?_drop, List.getElem?_take]
  have : a + i < b := by omega
  simp [this]

/-- every range form is the half-open form with the computed bounds -/
theorem index_rangeTo (p : Profile) (c : Codec) (bs : Bits) (a b : Nat) :
    index p c bs .rangeTo a b = index p c bs .range 0 b := by
  simp [index, umul, W64, bind, Except.bind]

theorem index_rangeToIncl (p : Profile) (c : Codec) (bs : Bits) (a b : Nat) (hb : b + 1 < W64) :
    index p c bs .rangeToIncl a b = index p c bs .range 0 (b + 1) := by
  have h0 : 0 * c.width < W64 := by simp [W64]
  simp only [index, uadd_ok p b 1 hb, umul_ok p 0 c.width h0, bind, Except.bind]
  simp

theorem index_rangeIncl (p : Profile) (c : Codec) (bs : Bits) (a b : Nat) (hb : b + 1 < W64) :
    index p c bs .rangeIncl a b = index p c bs .range a (b + 1) := by
  simp only [index, uadd_ok p b 1 hb, bind, Except.bind]

theorem index_rangeFrom (p : Profile) (c : Codec) (bs : Bits) (hal : Aligned c bs) (a b : Nat)
    (hlen : bs.length < W64) :
    index p c bs .rangeFrom a b = index p c bs .range a (len c bs) := by
  have e : len c bs * c.width = bs.length := by
    unfold len; exact Nat.div_mul_cancel hal
  simp only [index, umul_ok p (len c bs) c.width (by rw [e]; exact hlen), e, bind, Except.bind]

theorem index_full (p : Profile) (c : Codec) (bs : Bits) (hal : Aligned c bs) (a b : Nat)
    (hlen : bs.length < W64) :
    index p c bs .full a b = index p c bs .range 0 (len c bs) := by
  have e : len c bs * c.width = bs.length := by
    unfold len; exact Nat.div_mul_cancel hal
  have h0 : 0 * c.width < W64 := by simp [W64]
  simp only [index, umul_ok p 0 c.width h0, umul_ok p (len c bs) c.width (by rw [e]; exact hlen), e, bind, Except.bind]
  simp [bitRange]

theorem index_single (p : Profile) (c : Codec) (bs : Bits) (i b : Nat) (hov : (i + 1) * c.width < W64) :
    index p c bs .single i b = index p c bs .range i (i + 1) := by
  have h1 : i * c.width < W64 := by
    have : i * c.width ≤ (i + 1) * c.width := Nat.mul_le_mul_right _ (by omega)
    omega
  have h2 : i * c.width + c.width < W64 := by rw [Nat.succ_mul] at hov; exact hov
  simp only [index, umul_ok p i c.width h1, uadd_ok p _ _ h2, umul_ok p (i + 1) c.width hov, bind, Except.bind]
  rw [Nat.succ_mul]

/-- re-slicing a slice: `s[a..b][x..y] = s[a+x..a+y]`, hence any depth -/
theorem index_nested (p : Profile) (c : Codec) (hw : 1 ≤ c.width) (bs : Bits) (hal : Aligned c bs)
    (a b x y : Nat) (hab : a ≤ b) (hb : b ≤ len c bs) (hxy : x ≤ y) (hy : y ≤ b - a)
    (hov : b * c.width < W64) (r : Bits) (hr : index p c bs .range a b = .ok r) :
    index p c r .range x y = index p c bs .range (a + x) (a + y) := by
  obtain ⟨r', hr', hal', hs, hl⟩ := index_range p c hw bs hal a b hab hb hov
  rw [hr] at hr'; injection hr' with hr'; subst hr'
  have hov2 : y * c.width < W64 := Nat.lt_of_le_of_lt (Nat.mul_le_mul_right _ (by omega)) hov
  have hov3 : (a + y) * c.width < W64 := Nat.lt_of_le_of_lt (Nat.mul_le_mul_right _ (by omega)) hov
  obtain ⟨r1, h1, _, hs1, _⟩ := index_range p c hw r hal' x y hxy (by omega) hov2
  obtain ⟨r2, h2, _, hs2, _⟩ := index_range p c hw bs hal (a + x) (a + y) (by omega) (by omega) hov3
  rw [h1, h2]
  congr 1
  have e1 := eq_pack c hw r1 (by assumption)
  have e2 := eq_pack c hw r2 (by assumption)
  rw [e1, e2, hs1, hs2, hs]
  congr 1
  rw [List.take_drop, List.drop_drop, List.take_take]
  have : min (a + y) b = a + y := by omega
  rw [this]

/-- out of range: the half-open form panics (bounds reversed or past the end) -/
theorem index_oob_panics (p : Profile) (c : Codec) (hw : 1 ≤ c.width) (bs : Bits) (hal : Aligned c bs)
    (a b : Nat) (h : ¬ (a ≤ b ∧ b ≤ len c bs)) (hova : a * c.width < W64) (hovb : b * c.width < W64) :
    index p c bs .range a b = .error .panic := by
  simp only [index, umul_ok p a c.width hova, umul_ok p b c.width hovb, bind, Except.bind, bitRange]
  have e : len c bs * c.width = bs.length := by unfold len; exact Nat.div_mul_cancel hal
  have : ¬ (a * c.width ≤ b * c.width ∧ b * c.width ≤ bs.length) := by
    intro ⟨h1, h2⟩
    apply h
    constructor
    · exact Nat.le_of_mul_le_mul_right h1 (by omega)
    · rw [← e] at h2; exact Nat.le_of_mul_le_mul_right h2 (by omega)
  simp [this]

/-- positional access beyond the end never returns a symbol: `nth` / `s[i]` panic ... -/
theorem nth_oob_panics (p : Profile) (c : Codec) (hw : 1 ≤ c.width) (bs : Bits) (hal : Aligned c bs)
    (i : Nat) (h : len c bs ≤ i) (hov : (i + 1) * c.width < W64) :
    nth p c bs i = .error .panic ∧ index p c bs .single i 0 = .error .panic := by
  have hs : index p c bs .single i 0 = .error .panic := by
    rw [index_single p c bs i 0 hov]
    apply index_oob_panics p c hw bs hal
    · omega
    · exact Nat.lt_of_le_of_lt (Nat.mul_le_mul_right _ (by omega)) hov
    · exact hov
  exact ⟨by simp [nth, hs, bind, Except.bind], hs⟩

/-- ... and the optional accessor returns nothing exactly beyond the end -/
theorem get_none_iff (p : Profile) (c : Codec) (wf : CodecWF c) (cs : List Nat) (hc : Canon c cs) (i : Nat)
    (hov : cs.length * c.width < W64) :
    (Seq.get p c (pack c.width cs) i = .ok none ↔ cs.length ≤ i) ∧
    (∀ h : i < cs.length, Seq.get p c (pack c.width cs) i = .ok (some cs[i])) := by
  have hl := len_pack c wf.width_pos cs
  constructor
  · constructor
    · intro hg
      by_cases hi : i < cs.length
      · have hov' : (i + 1) * c.width < W64 := Nat.lt_of_le_of_lt (Nat.mul_le_mul_right _ (by omega)) hov
        simp [Seq.get, hl, Nat.not_le.mpr hi, nth_pack p c wf cs hc i hi hov', Except.map] at hg
      · omega
    · intro hi
      simp [Seq.get, hl, hi]
  · intro hi
    have hov' : (i + 1) * c.width < W64 := Nat.lt_of_le_of_lt (Nat.mul_le_mul_right _ (by omega)) hov
    simp [Seq.get, hl, Nat.not_le.mpr hi, nth_pack p c wf cs hc i hi hov', Except.map]

/-- non-vacuity: a concrete word-straddling slice of a 5-bit sequence -/
example : index .release ⟨"x", 5, [], fun _ => none, fun _ => none, fun _ => none, fun _ => none, fun _ => 0,
    fun _ => none, fun _ => none, fun _ => none⟩ (pack 5 (List.range 20)) .range 12 14 = .ok (pack 5 [12, 13]) := by
  decide +kernel

end C03
end BioSeq
