/-
  C08 — k-mer iteration and construction reproduce the sequence's windows exactly.
  Stated on packed symbol lists `pack c.width cs` (every aligned sequence is one: `C03.eq_pack`).
  `1 ≤ K` and `K * width ≤ storage bits` are the crate's compile-time conditions on a `Kmer` type
  (a zero-length k-mer would make `load_le` panic on an empty slice); the guard
  `cs.length * width < 2^64` excludes only sequences whose bit length overflows `usize`.
-/
import BioSeq.Lemmas.KmerLemmas
import BioSeq.Props.C01
import BioSeq.Props.C03
namespace BioSeq
namespace C08
open BioSeq.Seq

/-! ### 1. the k-mer iterator -/

/-- the `i`-th symbol window of width `K` -/
def window (cs : List Nat) (K i : Nat) : List Nat := (cs.take (i + K)).drop i

theorem window_length (cs : List Nat) (K i : Nat) (h : i + K ≤ cs.length) : (window cs K i).length = K := by
  simp only [window, List.length_drop, List.length_take]; omega

theorem window_getElem? (cs : List Nat) (K i j : Nat) (hj : j < K) : (window cs K i)[j]? = cs[i + j]? := by
  simp only [window, List.getElem?_drop, List.getElem?_take]
  have : i + j < i + K := by omega
  simp [this]

/-- one in-range step of `KmerIter::next` on a packed sequence -/
theorem iterNext_pack (p : Profile) (c : Codec) (hw : 1 ≤ c.width) (K : Nat) (hK : 1 ≤ K) (hst : K * c.width ≤ 64)
    (cs : List Nat) (idx : Nat) (hi : idx + K ≤ cs.length) (hov : cs.length * c.width < W64) :
    Kmer.iterNext p c K (pack c.width cs) cs.length idx
      = some (.ok (ofBitsLE (pack c.width (window cs K idx))), idx + 1) := by
  have hov' : (idx + K) * c.width < W64 := Nat.lt_of_le_of_lt (Nat.mul_le_mul_right _ hi) hov
  simp only [Kmer.iterNext, Nat.not_lt.mpr hi, if_false]
  rw [index_range_pack p c cs idx (idx + K) (by omega) hi hov']
  simp only [bind, Except.bind]
  show some (Kmer.unsafeFrom p c K .usize (pack c.width (window cs K idx)), idx + 1) = _
  rw [unsafeFrom_pack p c hw K .usize _ (window_length cs K idx hi) hK (by simpa [Storage.bits] using hst)]

theorem iterCollect_pack (p : Profile) (c : Codec) (hw : 1 ≤ c.width) (K : Nat) (hK : 1 ≤ K) (hst : K * c.width ≤ 64)
    (cs : List Nat) (hov : cs.length * c.width < W64) (fuel idx : Nat) (hf : cs.length + 1 - K - idx < fuel) :
    Kmer.iterCollect p c K (pack c.width cs) cs.length fuel idx
      = (List.range' idx (cs.length + 1 - K - idx)).map
          (fun i => (.ok (ofBitsLE (pack c.width (window cs K i))) : Res Nat)) := by
  induction fuel generalizing idx with
  | zero => omega
  | succ fuel ih =>
    unfold Kmer.iterCollect
    by_cases hi : idx + K ≤ cs.length
    · rw [iterNext_pack p c hw K hK hst cs idx hi hov]
      simp only
      rw [ih (idx + 1) (by omega)]
      have e : cs.length + 1 - K - idx = (cs.length + 1 - K - (idx + 1)) + 1 := by omega
      rw [e, List.range'_succ, List.map_cons]
    · have hn : Kmer.iterNext p c K (pack c.width cs) cs.length idx = none := by
        simp [Kmer.iterNext]; omega
      rw [hn]
      have e : cs.length + 1 - K - idx = 0 := by omega
      simp [e]

/-- **k-mer iteration**: exactly `max 0 (n-K+1)` k-mers, none failing, the `i`-th holding symbols
    `i..i+K`.  Holds for every packed content (no canonicity needed). -/
theorem kmers_spec (p : Profile) (c : Codec) (hw : 1 ≤ c.width) (K : Nat) (hK : 1 ≤ K) (hst : K * c.width ≤ 64)
    (cs : List Nat) (hov : cs.length * c.width < W64) :
    Kmer.kmers p c K (pack c.width cs)
      = (List.range (cs.length + 1 - K)).map
          (fun i => (.ok (ofBitsLE (pack c.width ((cs.take (i + K)).drop i))) : Res Nat)) := by
  unfold Kmer.kmers
  rw [len_pack c hw, iterCollect_pack p c hw K hK hst cs hov (cs.length + 1) 0 (by omega)]
  rw [List.range_eq_range']
  rfl

theorem kmers_length (p : Profile) (c : Codec) (hw : 1 ≤ c.width) (K : Nat) (hK : 1 ≤ K) (hst : K * c.width ≤ 64)
    (cs : List Nat) (hov : cs.length * c.width < W64) :
    (Kmer.kmers p c K (pack c.width cs)).length = cs.length + 1 - K := by
  rw [kmers_spec p c hw K hK hst cs hov]; simp

theorem kmers_short (p : Profile) (c : Codec) (hw : 1 ≤ c.width) (K : Nat) (hK : 1 ≤ K) (hst : K * c.width ≤ 64)
    (cs : List Nat) (hov : cs.length * c.width < W64) (h : cs.length < K) :
    Kmer.kmers p c K (pack c.width cs) = [] := by
  rw [kmers_spec p c hw K hK hst cs hov]
  have : cs.length + 1 - K = 0 := by omega
  simp [this]

/-- the `i`-th k-mer's live bits are symbols `i..i+K` of the sequence, symbol `j` of the k-mer being
    symbol `i+j` of the sequence -/
theorem kmers_nth (p : Profile) (c : Codec) (hw : 1 ≤ c.width) (K : Nat) (hK : 1 ≤ K) (hst : K * c.width ≤ 64)
    (cs : List Nat) (hov : cs.length * c.width < W64) (i : Nat) (hi : i + K ≤ cs.length) :
    ∃ v, (Kmer.kmers p c K (pack c.width cs))[i]? = some (.ok v) ∧
      Kmer.deref c K v = pack c.width ((cs.take (i + K)).drop i) ∧
      (Fits c.width cs → ∀ j, j < K → (syms c.width (Kmer.deref c K v))[j]? = cs[i + j]?) := by
  refine ⟨ofBitsLE (pack c.width (window cs K i)), ?_, ?_, ?_⟩
  · rw [kmers_spec p c hw K hK hst cs hov]
    have : i < cs.length + 1 - K := by omega
    simp [this, window]
  · exact deref_pack c K _ (window_length cs K i hi) hst
  · intro hf j hj
    rw [deref_pack c K _ (window_length cs K i hi) hst]
    have hfw : Fits c.width (window cs K i) := (hf.take _).drop _
    rw [syms_pack c.width hw _ hfw]
    exact window_getElem? cs K i j hj

/-- the same on any aligned sequence, in terms of its symbol view -/
theorem kmers_aligned (p : Profile) (c : Codec) (hw : 1 ≤ c.width) (K : Nat) (hK : 1 ≤ K) (hst : K * c.width ≤ 64)
    (bs : Bits) (hal : C03.Aligned c bs) (hov : bs.length < W64) :
    Kmer.kmers p c K bs
      = (List.range (len c bs + 1 - K)).map
          (fun i => (.ok (ofBitsLE (pack c.width (((syms c.width bs).take (i + K)).drop i))) : Res Nat)) := by
  have e := C03.eq_pack c hw bs hal
  have hl : (syms c.width bs).length * c.width = bs.length := by
    rw [← C03.len_eq]; exact Nat.div_mul_cancel hal
  rw [C03.len_eq]
  conv => lhs; rw [e]
  exact kmers_spec p c hw K hK hst _ (by rw [hl]; exact hov)

/-! ### 2. identical to the overlapping-windows iterator -/

theorem collect_windows_eq_iterCollect (p : Profile) (c : Codec) (K : Nat) (bs : Bits) (fuel idx : Nat) :
    (Iter.collect (Iter.chunksNext p c bs) fuel ⟨K, 1, idx⟩).map
        (fun r => r >>= fun s => Kmer.unsafeFrom p c K .usize s)
      = Kmer.iterCollect p c K bs (len c bs) fuel idx := by
  induction fuel generalizing idx with
  | zero => rfl
  | succ fuel ih =>
    unfold Iter.collect Kmer.iterCollect
    by_cases h : idx + K > len c bs
    · simp [Iter.chunksNext, Kmer.iterNext, h]
    · simp only [Iter.chunksNext, Kmer.iterNext, h, if_false, List.map_cons]
      rw [ih (idx + 1)]

/-- **k-mers = repacked windows**, for *every* bit string, width and profile (no guard at all):
    loading each window of `windows(K)` into a word gives exactly the k-mer iterator's output,
    element by element (including which elements fail). -/
theorem kmers_eq_windows (p : Profile) (c : Codec) (K : Nat) (bs : Bits) :
    (Iter.windows p c bs K).map (fun r => r >>= fun s => Kmer.unsafeFrom p c K .usize s)
      = Kmer.kmers p c K bs :=
  collect_windows_eq_iterCollect p c K bs (len c bs + 1) 0

/-- the windows iterator on a packed sequence: the `i`-th window is symbols `i..i+K` -/
theorem windows_pack (p : Profile) (c : Codec) (hw : 1 ≤ c.width) (K : Nat) (hK : 1 ≤ K)
    (cs : List Nat) (hov : cs.length * c.width < W64) :
    Iter.windows p c (pack c.width cs) K
      = (List.range (cs.length + 1 - K)).map
          (fun i => (.ok (pack c.width ((cs.take (i + K)).drop i)) : Res Bits)) := by
  have key : ∀ fuel idx, cs.length + 1 - K - idx < fuel →
      Iter.collect (Iter.chunksNext p c (pack c.width cs)) fuel ⟨K, 1, idx⟩
        = (List.range' idx (cs.length + 1 - K - idx)).map
            (fun i => (.ok (pack c.width ((cs.take (i + K)).drop i)) : Res Bits)) := by
    intro fuel
    induction fuel with
    | zero => intro idx h; omega
    | succ fuel ih =>
      intro idx hf
      unfold Iter.collect
      by_cases hi : idx + K ≤ cs.length
      · have hov' : (idx + K) * c.width < W64 := Nat.lt_of_le_of_lt (Nat.mul_le_mul_right _ hi) hov
        simp only [Iter.chunksNext, len_pack c hw, Nat.not_lt.mpr hi, if_false]
        rw [index_range_pack p c cs idx (idx + K) (by omega) hi hov', ih (idx + 1) (by omega)]
        have e : cs.length + 1 - K - idx = (cs.length + 1 - K - (idx + 1)) + 1 := by omega
        rw [e, List.range'_succ, List.map_cons]
      · have e : cs.length + 1 - K - idx = 0 := by omega
        have : idx + K > cs.length := by omega
        simp [Iter.chunksNext, len_pack c hw, this, e]
  unfold Iter.windows
  rw [len_pack c hw, key (cs.length + 1) 0 (by omega), List.range_eq_range']
  rfl

/-- content form: the `i`-th k-mer is the load of the `i`-th window -/
theorem kmers_eq_windows_pack (p : Profile) (c : Codec) (hw : 1 ≤ c.width) (K : Nat) (hK : 1 ≤ K)
    (hst : K * c.width ≤ 64) (cs : List Nat) (hov : cs.length * c.width < W64) :
    Kmer.kmers p c K (pack c.width cs)
      = (Iter.windows p c (pack c.width cs) K).map (fun r => r.map ofBitsLE) := by
  rw [kmers_spec p c hw K hK hst cs hov, windows_pack p c hw K hK cs hov, List.map_map]
  rfl

/-! ### 3. construction from a slice -/

/-- `Kmer::try_from(&slice)`, fully characterised -/
theorem tryFrom_spec (p : Profile) (c : Codec) (hw : 1 ≤ c.width) (K : Nat) (hK : 1 ≤ K) (st : Storage)
    (hst : K * c.width ≤ st.bits) (cs : List Nat) :
    Kmer.tryFrom p c K st (pack c.width cs)
      = if cs.length = K then .ok (ofBitsLE (pack c.width cs)) else .error .mismatchedLength := by
  unfold Kmer.tryFrom
  rw [len_pack c hw]
  by_cases h : cs.length = K
  · have hov : K * c.width < W64 := Nat.lt_of_le_of_lt hst st.bits_lt_W64
    simp only [h, if_true]
    rw [index_range_pack p c cs 0 K (by omega) (by omega) hov]
    simp only [bind, Except.bind, List.drop_zero]
    rw [← h, List.take_length, unsafeFrom_pack p c hw cs.length st cs rfl (by omega) (by rw [h]; exact hst)]
  · simp [h]

/-- on any aligned slice: the stored word is the load of the slice's own bits, or a length error -/
theorem tryFrom_aligned (p : Profile) (c : Codec) (hw : 1 ≤ c.width) (K : Nat) (hK : 1 ≤ K) (st : Storage)
    (hst : K * c.width ≤ st.bits) (bs : Bits) (hal : C03.Aligned c bs) :
    Kmer.tryFrom p c K st bs
      = if len c bs = K then .ok (ofBitsLE bs) else .error .mismatchedLength := by
  have e := C03.eq_pack c hw bs hal
  rw [C03.len_eq]
  conv => lhs; rw [e]
  conv => rhs; rw [e]
  rw [syms_pack c.width hw _ (fits_syms c.width hw bs hal)]
  exact tryFrom_spec p c hw K hK st hst _

/-- succeeds exactly when the length is `K`, and then holds exactly the slice's symbols -/
theorem tryFrom_iff (p : Profile) (c : Codec) (hw : 1 ≤ c.width) (K : Nat) (hK : 1 ≤ K) (st : Storage)
    (hst : K * c.width ≤ st.bits) (cs : List Nat) :
    ((∃ v, Kmer.tryFrom p c K st (pack c.width cs) = .ok v) ↔ cs.length = K) ∧
    (∀ v, Kmer.tryFrom p c K st (pack c.width cs) = .ok v →
        v = ofBitsLE (pack c.width cs) ∧ Kmer.bits c K st v = pack c.width cs) ∧
    (cs.length ≠ K → Kmer.tryFrom p c K st (pack c.width cs) = .error .mismatchedLength) := by
  rw [tryFrom_spec p c hw K hK st hst cs]
  by_cases h : cs.length = K
  · rw [if_pos h]
    refine ⟨⟨fun _ => h, fun _ => ⟨_, rfl⟩⟩, ?_, fun h' => absurd h h'⟩
    intro v hv
    injection hv with hv
    subst hv
    exact ⟨rfl, bits_pack c K st cs h hst⟩
  · rw [if_neg h]
    refine ⟨⟨?_, fun h' => absurd h' h⟩, ?_, fun _ => rfl⟩
    · rintro ⟨v, hv⟩; cases hv
    · intro v hv; cases hv

/-- `unsafe_from` agrees with `try_from` on slices of the right length -/
theorem unsafeFrom_eq_tryFrom (p : Profile) (c : Codec) (hw : 1 ≤ c.width) (K : Nat) (hK : 1 ≤ K) (st : Storage)
    (hst : K * c.width ≤ st.bits) (cs : List Nat) (h : cs.length = K) :
    Kmer.unsafeFrom p c K st (pack c.width cs) = Kmer.tryFrom p c K st (pack c.width cs) := by
  rw [tryFrom_spec p c hw K hK st hst cs, unsafeFrom_pack p c hw K st cs h hK hst]; simp [h]

/-- in a debug build `unsafe_from` on a wrong-length slice panics (never a truncated k-mer) -/
theorem unsafeFrom_debug_wrong_length (c : Codec) (hw : 1 ≤ c.width) (K : Nat) (st : Storage)
    (cs : List Nat) (h : cs.length ≠ K) :
    Kmer.unsafeFrom .debug c K st (pack c.width cs) = .error .panic := by
  have : ¬ K = cs.length := fun e => h e.symm
  simp [Kmer.unsafeFrom, len_pack c hw, this]

/-! ### 4. construction from text -/

/-- `Kmer::from_str`, fully characterised: wrong length, else first bad byte, else the symbols -/
theorem fromStr_spec (p : Profile) (c : Codec) (wf : CodecWF c) (K : Nat) (hK : 1 ≤ K) (st : Storage)
    (hst : K * c.width ≤ st.bits) (text : List Nat) :
    Kmer.fromStr p c K st text
      = if text.length ≠ K then .error .mismatchedLength
        else match text.find? (C01.bad c) with
          | some b => .error (.unrecognisedBase b)
          | none => .ok (ofBitsLE (pack c.width (C01.symbolsOf c text))) := by
  unfold Kmer.fromStr
  by_cases h : text.length = K
  · simp only [h, ne_eq, not_true_eq_false, if_false]
    rw [C01.parse_spec c wf]
    cases hf : text.find? (C01.bad c) with
    | some b => rfl
    | none =>
      have hall : ∀ b ∈ text, C01.bad c b = false := by
        intro b hb
        have := (List.find?_eq_none.mp hf) b hb
        simpa using this
      have hl := C01.symbolsOf_length c text hall
      simp only [bind, Except.bind]
      rw [tryFrom_spec p c wf.width_pos K hK st hst, hl, h]
      simp
  · simp [h]

theorem fromStr_iff (p : Profile) (c : Codec) (wf : CodecWF c) (K : Nat) (hK : 1 ≤ K) (st : Storage)
    (hst : K * c.width ≤ st.bits) (text : List Nat) (v : Nat) :
    Kmer.fromStr p c K st text = .ok v ↔
      text.length = K ∧ (∀ b ∈ text, (c.tryFromAscii b).isSome) ∧
      v = ofBitsLE (pack c.width (C01.symbolsOf c text)) := by
  rw [fromStr_spec p c wf K hK st hst]
  by_cases h : text.length = K
  · simp only [h, ne_eq, not_true_eq_false, if_false, true_and]
    cases hf : text.find? (C01.bad c) with
    | some b =>
      have hb := List.find?_some hf
      have hm := List.mem_of_find?_eq_some hf
      simp only [C01.bad, Option.isNone_iff_eq_none] at hb
      constructor
      · intro h'; cases h'
      · rintro ⟨hall, _⟩
        have := hall b hm
        simp [hb] at this
    | none =>
      have hall : ∀ b ∈ text, (c.tryFromAscii b).isSome := by
        intro b hb
        have := (List.find?_eq_none.mp hf) b hb
        simp only [C01.bad, Option.isNone_iff_eq_none] at this
        exact Option.isSome_iff_ne_none.mpr (by simpa using this)
      constructor
      · intro h'; injection h' with h'; exact ⟨hall, h'.symm⟩
      · rintro ⟨_, rfl⟩; rfl
  · simp only [h, ne_eq, not_false_eq_true, if_true, false_and, iff_false]
    intro h'; cases h'

theorem fromStr_wrong_length (p : Profile) (c : Codec) (K : Nat) (st : Storage) (text : List Nat)
    (h : text.length ≠ K) : Kmer.fromStr p c K st text = .error .mismatchedLength := by
  simp [Kmer.fromStr, h]

/-- right length but an invalid byte: the parser's error naming the first such byte -/
theorem fromStr_invalid (p : Profile) (c : Codec) (wf : CodecWF c) (K : Nat) (hK : 1 ≤ K) (st : Storage)
    (hst : K * c.width ≤ st.bits) (text : List Nat) (h : text.length = K)
    (hbad : ∃ b ∈ text, c.tryFromAscii b = none) :
    ∃ pre b post, text = pre ++ b :: post ∧ (∀ x ∈ pre, (c.tryFromAscii x).isSome) ∧
      c.tryFromAscii b = none ∧ Kmer.fromStr p c K st text = .error (.unrecognisedBase b) := by
  rw [fromStr_spec p c wf K hK st hst]
  simp only [h, ne_eq, not_true_eq_false, if_false]
  cases hf : text.find? (C01.bad c) with
  | none =>
    obtain ⟨b, hb, hn⟩ := hbad
    have := (List.find?_eq_none.mp hf) b hb
    simp [C01.bad, hn] at this
  | some b =>
    obtain ⟨hb, pre, post, hsplit, hpre⟩ := List.find?_eq_some_iff_append.mp hf
    refine ⟨pre, b, post, hsplit, ?_, by simpa [C01.bad] using hb, rfl⟩
    intro x hx
    have := hpre x hx
    cases hx' : c.tryFromAscii x <;> simp [C01.bad, hx'] at this ⊢

/-! ### 5. display, deref, back to a sequence -/

theorem display_spec (p : Profile) (c : Codec) (wf : CodecWF c) (K : Nat) (st : Storage)
    (hst : K * c.width ≤ st.bits) (cs : List Nat) (hc : Canon c cs) (hK : cs.length = K) :
    Kmer.display p c K st (ofBitsLE (pack c.width cs)) = .ok (cs.map c.toChar) := by
  unfold Kmer.display
  rw [bits_pack c K st cs hK hst, ← hK]
  exact displayChunks_pack p c wf cs hc

theorem deref_spec (c : Codec) (K : Nat) (hst : K * c.width ≤ 64) (cs : List Nat) (hK : cs.length = K) :
    Kmer.deref c K (ofBitsLE (pack c.width cs)) = pack c.width cs :=
  deref_pack c K cs hK hst

theorem toSeq_spec (p : Profile) (c : Codec) (wf : CodecWF c) (K : Nat) (hst : K * c.width ≤ 64)
    (cs : List Nat) (hc : Canon c cs) (hK : cs.length = K) :
    Kmer.toSeq p c K (ofBitsLE (pack c.width cs)) = .ok (pack c.width cs) := by
  unfold Kmer.toSeq
  have hov : cs.length * c.width < W64 := by
    rw [hK]; exact Nat.lt_of_le_of_lt hst (by simp [W64])
  rw [deref_pack c K cs hK hst, iterSyms_pack p c wf cs hc hov]
  simp only [bind, Except.bind]
  have := extend_pack c wf.width_le [] cs
  simpa using this

/-- text -> k-mer -> text, k-mer -> sequence: the whole round trip on a valid text of length `K` -/
theorem fromStr_roundtrip (p : Profile) (c : Codec) (wf : CodecWF c) (K : Nat) (hK : 1 ≤ K)
    (hst : K * c.width ≤ 64) (cs : List Nat) (hc : Canon c cs) (hl : cs.length = K) :
    ∃ v, Kmer.fromStr p c K .usize (cs.map c.toChar) = .ok v ∧
      Kmer.display p c K .usize v = .ok (cs.map c.toChar) ∧
      Kmer.deref c K v = pack c.width cs ∧ Kmer.toSeq p c K v = .ok (pack c.width cs) := by
  have hst' : K * c.width ≤ Storage.usize.bits := by simpa [Storage.bits] using hst
  refine ⟨ofBitsLE (pack c.width cs), ?_, display_spec p c wf K .usize hst' cs hc hl,
    deref_spec c K hst cs hl, toSeq_spec p c wf K hst cs hc hl⟩
  unfold Kmer.fromStr
  simp only [List.length_map, hl, ne_eq, not_true_eq_false, if_false]
  rw [C01.parse_display c wf cs hc]
  simp only [bind, Except.bind]
  rw [tryFrom_spec p c wf.width_pos K hK .usize hst' cs]
  simp [hl]

/-! ### 6. non-vacuity on the extracted codecs -/

/-- amino "SSLMNHKKL": seven 3-mers -/
example : (Kmer.kmers .debug (Gen.amino .debug) 3
    (pack 6 ([83, 83, 76, 77, 78, 72, 75, 75, 76].filterMap (Gen.amino .debug).tryFromAscii))).length = 7 := by
  decide +kernel

/-- dna "ACGTA": the 2-mers are AC, CG, GT, TA -/
example : Kmer.kmers .release (Gen.dna .release) 2 (pack 2 [0, 1, 2, 3, 0])
    = [.ok 0b0100, .ok 0b1001, .ok 0b1110, .ok 0b0011] := by decide +kernel

example : Kmer.kmers .debug (Gen.dna .debug) 4 (pack 2 [0, 1, 2]) = [] := by decide +kernel

example : Kmer.tryFrom .debug (Gen.dna .debug) 3 .u64 (pack 2 [0, 1, 2, 3]) = .error .mismatchedLength := by
  decide +kernel
example : Kmer.tryFrom .debug (Gen.dna .debug) 4 .u64 (pack 2 [0, 1, 2, 3]) = .ok 0b11100100 := by
  decide +kernel
example : Kmer.fromStr .debug (Gen.dna .debug) 4 .u128 [65, 67, 71, 84] = .ok 0b11100100 := by decide +kernel
example : Kmer.fromStr .debug (Gen.dna .debug) 4 .u128 [65, 67, 71] = .error .mismatchedLength := by decide +kernel
example : Kmer.fromStr .debug (Gen.dna .debug) 4 .u128 [65, 67, 120, 84] = .error (.unrecognisedBase 120) := by
  decide +kernel
example : Kmer.display .debug (Gen.amino .debug) 3 .usize (ofBitsLE (pack 6 [24, 24, 13])) = .ok [83, 83, 76] := by
  decide +kernel
example : Kmer.toSeq .debug (Gen.amino .debug) 3 (ofBitsLE (pack 6 [24, 24, 13])) = .ok (pack 6 [24, 24, 13]) := by
  decide +kernel
example : (Iter.windows .debug (Gen.dna .debug) (pack 2 [0, 1, 2, 3, 0]) 2).map
    (fun r => r >>= fun s => Kmer.unsafeFrom .debug (Gen.dna .debug) 2 .usize s)
    = [.ok 0b0100, .ok 0b1001, .ok 0b1110, .ok 0b0011] := by decide +kernel

/-- the hypotheses are satisfiable on a built-in codec -/
example : CodecWF (Gen.amino .debug) ∧ Canon (Gen.amino .debug) [24, 24, 13] ∧ 3 * (Gen.amino .debug).width ≤ 64 :=
  ⟨wf_amino .debug, by unfold Canon; decide +kernel, by decide +kernel⟩

end C08
end BioSeq
