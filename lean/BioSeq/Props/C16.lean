/-
  C16 — compile-time literals equal runtime parsing; invalid literals do not compile.
  *Partial*: the theorems are about the model of the macro bodies (`Macros.macroSeq`:
  ASCII test, per-character tables, `SeqArray` deref); the per-character tables are the
  extracted graphs of `dna_seq` / `iupac_seq`.  That a macro `Err` stops compilation, and
  that `bitarr!` / `quote!` expand as modelled, is rustc's and the macro crates' behaviour:
  it is checked by compiling generated programs (valid literals compared with the model,
  invalid literals must each fail to compile), not by a theorem.
-/
import BioSeq.Lemmas.MacroLemmas
import BioSeq.Macros
import BioSeq.Props.C01
namespace BioSeq
namespace C16
open Macros

theorem dna_table_ok (p : Profile) : tableOk (Gen.dna p) (dnaTable p) = true := by
  cases p <;> decide +kernel

theorem iupac_table_ok (p : Profile) : tableOk (Gen.iupac p) (iupacTable p) = true := by
  cases p <;> decide +kernel

theorem dna_tableWF (p : Profile) : TableWF (Gen.dna p) (dnaTable p) := by
  cases p
  · exact tableWF_of_ok _ _ Gen.dna_debug_tryFromAscii rfl (by decide +kernel) (dna_table_ok .debug)
  · exact tableWF_of_ok _ _ Gen.dna_release_tryFromAscii rfl (by decide +kernel) (dna_table_ok .release)

theorem iupac_tableWF (p : Profile) : TableWF (Gen.iupac p) (iupacTable p) := by
  cases p
  · exact tableWF_of_ok _ _ Gen.iupac_debug_tryFromAscii rfl (by decide +kernel) (iupac_table_ok .debug)
  · exact tableWF_of_ok _ _ Gen.iupac_release_tryFromAscii rfl (by decide +kernel) (iupac_table_ok .release)

/-- the loop stops with an error at the first character outside the macro's table -/
theorem seqLoop_invalid (t : CharTable) (pre : List Nat) (cp : Nat) (post : List Nat)
    (hpre : ∀ x ∈ pre, (charEntry t x).isSome) (hcp : charEntry t cp = none) (pos n : Nat) (acc : Bits) :
    seqLoop t pos (pre ++ cp :: post) (n, acc) = .error (.invalid (pos + pre.length) cp) := by
  induction pre generalizing pos n acc with
  | nil => simp [seqLoop, hcp]
  | cons x xs ih =>
    obtain ⟨⟨k, b⟩, he⟩ := Option.isSome_iff_exists.mp (hpre x (by simp))
    simp only [List.cons_append, seqLoop, he]
    rw [ih (fun y hy => hpre y (by simp [hy]))]
    simp only [List.length_cons]
    congr 2
    omega

/-- **invalid literals are macro errors**: a non-ASCII character anywhere, or any character
    outside the macro's alphabet, makes the macro return an error (which rustc turns into a
    compile error) — never a sequence -/
theorem macro_rejects (t : CharTable) (ht : ∀ cp, cp ≥ 128 → charEntry t cp = none) (w : Nat) (cps : List Nat)
    (h : ∃ cp ∈ cps, cp ≥ 128 ∨ charEntry t cp = none) : ∃ e, macroSeq t w cps = .error e := by
  unfold macroSeq
  by_cases ha : cps.any (fun c => decide (c ≥ 128)) = true
  · exact ⟨.nonAscii, by simp [ha]⟩
  · simp only [ha, Bool.false_eq_true, if_false]
    obtain ⟨cp, hmem, hbad⟩ := h
    have hnone : charEntry t cp = none := by
      rcases hbad with h1 | h2
      · exact ht cp h1
      · exact h2
    -- split at the first character without a table entry
    have hfind : (cps.find? (fun x => (charEntry t x).isNone)).isSome := by
      rw [List.find?_isSome]
      exact ⟨cp, hmem, by simp [hnone]⟩
    obtain ⟨b, hb⟩ := Option.isSome_iff_exists.mp hfind
    obtain ⟨hbn, pre, post, hsplit, hpre⟩ := List.find?_eq_some_iff_append.mp hb
    have hbn' : charEntry t b = none := by simpa using hbn
    have hpre' : ∀ x ∈ pre, (charEntry t x).isSome := by
      intro x hx
      have := hpre x hx
      cases hq : charEntry t x <;> simp [hq] at this ⊢
    rw [hsplit, seqLoop_invalid t pre b post hpre' hbn' 0 0 []]
    exact ⟨_, rfl⟩

/-- conversely, a literal over the macro's alphabet always expands, to one symbol per character -/
theorem macro_accepts (c : Codec) (t : CharTable) (tw : TableWF c t) (cps : List Nat)
    (h : ∀ cp ∈ cps, (charEntry t cp).isSome) : ∃ bits, macroSeq t c.width cps = .ok (cps.length, bits) ∧
      bits.length = cps.length * c.width := by
  have hascii : cps.any (fun c => decide (c ≥ 128)) = false := by
    rw [List.any_eq_false]
    intro cp hcp
    have := h cp hcp
    simp only [decide_eq_true_eq, ge_iff_le, Nat.not_le]
    apply Classical.byContradiction
    intro hge
    rw [tw.ascii cp (by omega)] at this
    cases this
  have key : ∀ (pos n : Nat) (acc : Bits), ∃ bits, seqLoop t pos cps (n, acc) = .ok (n + cps.length, acc ++ bits) ∧
      bits.length = cps.length * c.width := by
    induction cps with
    | nil => intro pos n acc; exact ⟨[], by simp [seqLoop]⟩
    | cons cp rest ih =>
      intro pos n acc
      obtain ⟨⟨k, b⟩, he⟩ := Option.isSome_iff_exists.mp (h cp (by simp))
      obtain ⟨hk, hb⟩ := tw.entries cp k b he
      have hascii' : rest.any (fun c => decide (c ≥ 128)) = false := by
        rw [List.any_eq_false] at hascii ⊢
        intro x hx; exact hascii x (by simp [hx])
      obtain ⟨bits, hl, hlen⟩ := ih (fun x hx => h x (by simp [hx])) hascii' (pos + 1) (n + k) (acc ++ b)
      refine ⟨b ++ bits, ?_, ?_⟩
      · simp only [seqLoop, he, hl, List.length_cons, List.append_assoc]
        congr 2
        omega
      · simp only [List.length_append, hb, hlen, List.length_cons, Nat.succ_mul]; omega
  obtain ⟨bits, hl, hlen⟩ := key 0 0 []
  refine ⟨bits, ?_, hlen⟩
  simp only [macroSeq, hascii, Bool.false_eq_true, if_false, hl, Nat.zero_add, List.nil_append]
  congr 2
  apply List.take_of_length_le
  omega

/-- `kmer!(lit)` is the k-mer built from the runtime-parsed literal -/
theorem kmer_macro_eq_runtime (p : Profile) (c : Codec) (wf : CodecWF c) (t : CharTable) (tw : TableWF c t)
    (st : Storage) (cps : List Nat) (v : Bits) (h : Seq.parseBytes c cps = .ok v) :
    macroKmer p c t st cps = .ok (Kmer.unsafeFrom p c cps.length st v) := by
  simp [macroKmer, macro_eq_runtime c wf t tw cps v h]

/-- the two built-in literal macros, both build profiles of the macro crate -/
theorem dna_macro (p : Profile) (cps : List Nat) (v : Bits) (h : Seq.parseBytes (Gen.dna p) cps = .ok v) :
    macroSeq (dnaTable p) 2 cps = .ok (cps.length, v) := by
  have := macro_eq_runtime (Gen.dna p) (wf_dna p) (dnaTable p) (dna_tableWF p) cps v h
  cases p <;> exact this

theorem iupac_macro (p : Profile) (cps : List Nat) (v : Bits) (h : Seq.parseBytes (Gen.iupac p) cps = .ok v) :
    macroSeq (iupacTable p) 4 cps = .ok (cps.length, v) := by
  have := macro_eq_runtime (Gen.iupac p) (wf_iupac p) (iupacTable p) (iupac_tableWF p) cps v h
  cases p <;> exact this

/-- the `dna!` alphabet is exactly the runtime alphabet; `iupac!` additionally accepts 'X' (as the gap),
    which the runtime parser refuses (noted in DESIGN.md; outside the property, which quantifies over
    strings the runtime parser accepts) -/
def extraChars (c : Codec) (t : CharTable) : List Nat :=
  (List.range 128).filter fun cp => (charEntry t cp).isSome && (c.tryFromAscii cp).isNone

theorem macro_alphabets (p : Profile) :
    extraChars (Gen.dna p) (dnaTable p) = [] ∧ extraChars (Gen.iupac p) (iupacTable p) = ['X'.toNat] := by
  cases p <;> decide +kernel

def errOf {α} : Except MacroErr α → Option MacroErr
  | .error e => some e
  | .ok _ => none

/-- non-vacuity -/
example : (macroSeq (dnaTable .debug) 2 [65, 67, 71, 84]).toOption = some (4, pack 2 [0, 1, 2, 3]) := by decide +kernel
example : errOf (macroSeq (dnaTable .release) 2 [65, 120]) = some (.invalid 1 120) := by decide +kernel
example : errOf (macroSeq (iupacTable .debug) 4 [65, 233]) = some .nonAscii := by decide +kernel

end C16
end BioSeq
