/-
  C16 — compile-time literals equal runtime parsing; invalid literals do not compile.
  *Partial*: the theorems are about the model of the macro bodies (`Macros.macroSeq`:
  ASCII test, per-character tables, `SeqArray` deref); the per-character tables are the
  extracted graphs of `dna_seq` / `iupac_seq`.  That a macro `Err` stops compilation, and
  that `bitarr!` / `quote!` expand as modelled, is rustc's and the macro crates' behaviour:
  it is checked by compiling generated programs (valid literals compared with the model,
  invalid literals must each fail to compile), not by a theorem.
-/
import BioSeq.Macros
import BioSeq.Props.C01
namespace BioSeq
namespace C16
open Macros

/-- the macro's per-character table agrees with the runtime parser of codec `c`:
    every byte the runtime parser accepts is ASCII and maps to one base with exactly the
    bits `push` would append; every table entry is one base of `width` bits -/
def tableOk (c : Codec) (t : CharTable) : Bool :=
  (List.range 256).all (fun cp => match c.tryFromAscii cp with
    | none => true
    | some code => decide (cp < 128) && charEntry t cp == some (1, toBitsLE c.width code))
  && t.all (fun e => match e with
    | none => true
    | some (k, b) => k == 1 && b.length == c.width)
  && decide (t.length = 128)

def tableFailures (c : Codec) (t : CharTable) : List Nat :=
  (List.range 256).filter (fun cp => match c.tryFromAscii cp with
    | none => false
    | some code => !(decide (cp < 128) && charEntry t cp == some (1, toBitsLE c.width code)))

theorem dna_table_ok (p : Profile) : tableOk (Gen.dna p) (dnaTable p) = true := by
  cases p <;> decide +kernel

theorem iupac_table_ok (p : Profile) : tableOk (Gen.iupac p) (iupacTable p) = true := by
  cases p <;> decide +kernel

structure TableWF (c : Codec) (t : CharTable) : Prop where
  accepts : ∀ cp code, c.tryFromAscii cp = some code → cp < 128 ∧ charEntry t cp = some (1, toBitsLE c.width code)
  entries : ∀ cp k b, charEntry t cp = some (k, b) → k = 1 ∧ b.length = c.width
  ascii : ∀ cp, cp ≥ 128 → charEntry t cp = none

theorem lookup_ge_none (t : List (Option Nat)) (b : Nat) (h : t.length ≤ b) : lookup t b = none := by
  simp [lookup, List.getD_eq_getElem?_getD, List.getElem?_eq_none h]

theorem tableWF_of_ok (c : Codec) (t : CharTable) (tab : List (Option Nat)) (htab : c.tryFromAscii = lookup tab)
    (hlen : tab.length = 256) (h : tableOk c t = true) : TableWF c t := by
  simp only [tableOk, Bool.and_eq_true, List.all_eq_true, List.mem_range, decide_eq_true_eq] at h
  obtain ⟨⟨h1, h2⟩, h3⟩ := h
  refine ⟨?_, ?_, ?_⟩
  · intro cp code hc
    have hlt : cp < 256 := by
      apply Classical.byContradiction
      intro hge
      rw [htab, lookup_ge_none tab cp (by omega)] at hc
      cases hc
    have := h1 cp hlt
    rw [hc] at this
    simpa using this
  · intro cp k b he
    unfold charEntry at he
    rw [List.getD_eq_getElem?_getD] at he
    cases hq : t[cp]? with
    | none => simp [hq] at he
    | some e =>
      simp [hq] at he
      subst he
      have := h2 _ (List.mem_of_getElem? hq)
      simpa using this
  · intro cp hge
    unfold charEntry
    rw [List.getD_eq_getElem?_getD, List.getElem?_eq_none (by omega)]
    rfl

theorem dna_tableWF (p : Profile) : TableWF (Gen.dna p) (dnaTable p) := by
  cases p
  · exact tableWF_of_ok _ _ Gen.dna_debug_tryFromAscii rfl (by decide +kernel) (dna_table_ok .debug)
  · exact tableWF_of_ok _ _ Gen.dna_release_tryFromAscii rfl (by decide +kernel) (dna_table_ok .release)

theorem iupac_tableWF (p : Profile) : TableWF (Gen.iupac p) (iupacTable p) := by
  cases p
  · exact tableWF_of_ok _ _ Gen.iupac_debug_tryFromAscii rfl (by decide +kernel) (iupac_table_ok .debug)
  · exact tableWF_of_ok _ _ Gen.iupac_release_tryFromAscii rfl (by decide +kernel) (iupac_table_ok .release)

/-- the loop on a string the runtime parser accepts appends exactly the runtime packing -/
theorem seqLoop_valid (c : Codec) (t : CharTable) (tw : TableWF c t) (cps : List Nat)
    (hv : ∀ cp ∈ cps, (c.tryFromAscii cp).isSome) (pos n : Nat) (acc : Bits) :
    seqLoop t pos cps (n, acc) = .ok (n + cps.length, acc ++ pack c.width (C01.symbolsOf c cps)) := by
  induction cps generalizing pos n acc with
  | nil => simp [seqLoop, C01.symbolsOf]
  | cons cp rest ih =>
    have h := hv cp (by simp)
    obtain ⟨code, hc⟩ := Option.isSome_iff_exists.mp h
    obtain ⟨_, he⟩ := tw.accepts cp code hc
    simp only [seqLoop, he]
    rw [ih (fun x hx => hv x (by simp [hx]))]
    simp only [C01.symbolsOf, List.filterMap_cons, hc, pack_cons, List.length_cons, List.append_assoc]
    congr 2
    omega

/-- **literal = runtime parse**: for every string the runtime parser accepts (any length,
    the empty literal included) the macro yields the same number of symbols and the same bits;
    equal length/symbols/hash/display then follow from C02 (all depend on the bits only) -/
theorem macro_eq_runtime (c : Codec) (wf : CodecWF c) (t : CharTable) (tw : TableWF c t) (cps : List Nat)
    (v : Bits) (h : Seq.parseBytes c cps = .ok v) :
    macroSeq t c.width cps = .ok (cps.length, v) := by
  have hall : ∀ b ∈ cps, (c.tryFromAscii b).isSome := (C01.parse_ok_iff c wf cps).mp ⟨v, h⟩
  have hascii : cps.any (fun c => decide (c ≥ 128)) = false := by
    rw [List.any_eq_false]
    intro cp hcp
    obtain ⟨code, hc⟩ := Option.isSome_iff_exists.mp (hall cp hcp)
    have := (tw.accepts cp code hc).1
    simp; omega
  obtain ⟨hlen, hs, _⟩ := C01.parse_ok_symbols c wf cps v h
  have hv : v = pack c.width (C01.symbolsOf c cps) := by
    rw [C01.parse_spec c wf] at h
    cases hf : cps.find? (C01.bad c) with
    | some b => rw [hf] at h; cases h
    | none => rw [hf] at h; injection h with h; exact h.symm
  simp only [macroSeq, hascii, Bool.false_eq_true, if_false]
  rw [seqLoop_valid c t tw cps hall 0 0 []]
  simp only [Nat.zero_add, List.nil_append]
  rw [← hv]
  congr 2
  apply List.take_of_length_le
  have : v.length = cps.length * c.width := by
    have e : Seq.len c v * c.width = v.length := by
      unfold Seq.len
      apply Nat.div_mul_cancel
      rw [hv, pack_length]; exact Nat.dvd_mul_right _ _
    rw [← e, hlen]
  omega

/-- the loop stops with an error at the first character outside the macro's table -/
theorem seqLoop_invalid (t : CharTable) (pre : List Nat) (cp : Nat) (post : List Nat)
    (hpre : ∀ x ∈ pre, (charEntry t x).isSome) (hcp : charEntry t cp = none) (pos n : Nat) (acc : Bits) :
    seqLoop t pos (pre ++ cp :: post) (n, acc) = .error (.invalid (pos + pre.length) cp) := by
  induction pre generalizing pos n acc with
  | nil => simp [seqLoop, hcp]
  | cons x xs ih =>
    obtain ⟨⟨k, b⟩, he⟩ := Option.isSome_iff_exists.mp (hpre x (by simp))
    simp only [List.cons_append, seqLoop, he]
    rw [ih (fun y hy => hpre y (by simp [hy]))]
    simp only [List.length_cons]
    congr 2
    omega

/-- **invalid literals are macro errors**: a non-ASCII character anywhere, or any character
    outside the macro's alphabet, makes the macro return an error (which rustc turns into a
    compile error) — never a sequence -/
theorem macro_rejects (t : CharTable) (ht : ∀ cp, cp ≥ 128 → charEntry t cp = none) (w : Nat) (cps : List Nat)
    (h : ∃ cp ∈ cps, cp ≥ 128 ∨ charEntry t cp = none) : ∃ e, macroSeq t w cps = .error e := by
  unfold macroSeq
  by_cases ha : cps.any (fun c => decide (c ≥ 128)) = true
  · exact ⟨.nonAscii, by simp [ha]⟩
  · simp only [ha, Bool.false_eq_true, if_false]
    obtain ⟨cp, hmem, hbad⟩ := h
    have hnone : charEntry t cp = none := by
      rcases hbad with h1 | h2
      · exact ht cp h1
      · exact h2
    -- split at the first character without a table entry
    have hfind : (cps.find? (fun x => (charEntry t x).isNone)).isSome := by
      rw [List.find?_isSome]
      exact ⟨cp, hmem, by simp [hnone]⟩
    obtain ⟨b, hb⟩ := Option.isSome_iff_exists.mp hfind
    obtain ⟨hbn, pre, post, hsplit, hpre⟩ := List.find?_eq_some_iff_append.mp hb
    have hbn' : charEntry t b = none := by simpa using hbn
    have hpre' : ∀ x ∈ pre, (charEntry t x).isSome := by
      intro x hx
      have := hpre x hx
      cases hq : charEntry t x <;> simp [hq] at this ⊢
    rw [hsplit, seqLoop_invalid t pre b post hpre' hbn' 0 0 []]
    exact ⟨_, rfl⟩

/-- conversely, a literal over the macro's alphabet always expands, to one symbol per character -/
theorem macro_accepts (c : Codec) (t : CharTable) (tw : TableWF c t) (cps : List Nat)
    (h : ∀ cp ∈ cps, (charEntry t cp).isSome) : ∃ bits, macroSeq t c.width cps = .ok (cps.length, bits) ∧
      bits.length = cps.length * c.width := by
  have hascii : cps.any (fun c => decide (c ≥ 128)) = false := by
    rw [List.any_eq_false]
    intro cp hcp
    have := h cp hcp
    simp only [decide_eq_true_eq, ge_iff_le, Nat.not_le]
    apply Classical.byContradiction
    intro hge
    rw [tw.ascii cp (by omega)] at this
    cases this
  have key : ∀ (pos n : Nat) (acc : Bits), ∃ bits, seqLoop t pos cps (n, acc) = .ok (n + cps.length, acc ++ bits) ∧
      bits.length = cps.length * c.width := by
    induction cps with
    | nil => intro pos n acc; exact ⟨[], by simp [seqLoop]⟩
    | cons cp rest ih =>
      intro pos n acc
      obtain ⟨⟨k, b⟩, he⟩ := Option.isSome_iff_exists.mp (h cp (by simp))
      obtain ⟨hk, hb⟩ := tw.entries cp k b he
      have hascii' : rest.any (fun c => decide (c ≥ 128)) = false := by
        rw [List.any_eq_false] at hascii ⊢
        intro x hx; exact hascii x (by simp [hx])
      obtain ⟨bits, hl, hlen⟩ := ih (fun x hx => h x (by simp [hx])) hascii' (pos + 1) (n + k) (acc ++ b)
      refine ⟨b ++ bits, ?_, ?_⟩
      · simp only [seqLoop, he, hl, List.length_cons, List.append_assoc]
        congr 2
        omega
      · simp only [List.length_append, hb, hlen, List.length_cons, Nat.succ_mul]; omega
  obtain ⟨bits, hl, hlen⟩ := key 0 0 []
  refine ⟨bits, ?_, hlen⟩
  simp only [macroSeq, hascii, Bool.false_eq_true, if_false, hl, Nat.zero_add, List.nil_append]
  congr 2
  apply List.take_of_length_le
  omega

/-- `kmer!(lit)` is the k-mer built from the runtime-parsed literal -/
theorem kmer_macro_eq_runtime (p : Profile) (c : Codec) (wf : CodecWF c) (t : CharTable) (tw : TableWF c t)
    (st : Storage) (cps : List Nat) (v : Bits) (h : Seq.parseBytes c cps = .ok v) :
    macroKmer p c t st cps = .ok (Kmer.unsafeFrom p c cps.length st v) := by
  simp [macroKmer, macro_eq_runtime c wf t tw cps v h]

/-- the two built-in literal macros, both build profiles of the macro crate -/
theorem dna_macro (p : Profile) (cps : List Nat) (v : Bits) (h : Seq.parseBytes (Gen.dna p) cps = .ok v) :
    macroSeq (dnaTable p) 2 cps = .ok (cps.length, v) := by
  have := macro_eq_runtime (Gen.dna p) (wf_dna p) (dnaTable p) (dna_tableWF p) cps v h
  cases p <;> exact this

theorem iupac_macro (p : Profile) (cps : List Nat) (v : Bits) (h : Seq.parseBytes (Gen.iupac p) cps = .ok v) :
    macroSeq (iupacTable p) 4 cps = .ok (cps.length, v) := by
  have := macro_eq_runtime (Gen.iupac p) (wf_iupac p) (iupacTable p) (iupac_tableWF p) cps v h
  cases p <;> exact this

/-- the `dna!` alphabet is exactly the runtime alphabet; `iupac!` additionally accepts 'X' (as the gap),
    which the runtime parser refuses (noted in DESIGN.md; outside the property, which quantifies over
    strings the runtime parser accepts) -/
def extraChars (c : Codec) (t : CharTable) : List Nat :=
  (List.range 128).filter fun cp => (charEntry t cp).isSome && (c.tryFromAscii cp).isNone

theorem macro_alphabets (p : Profile) :
    extraChars (Gen.dna p) (dnaTable p) = [] ∧ extraChars (Gen.iupac p) (iupacTable p) = ['X'.toNat] := by
  cases p <;> decide +kernel

def errOf {α} : Except MacroErr α → Option MacroErr
  | .error e => some e
  | .ok _ => none

/-- non-vacuity -/
example : (macroSeq (dnaTable .debug) 2 [65, 67, 71, 84]).toOption = some (4, pack 2 [0, 1, 2, 3]) := by decide +kernel
example : errOf (macroSeq (dnaTable .release) 2 [65, 120]) = some (.invalid 1 120) := by decide +kernel
example : errOf (macroSeq (iupacTable .debug) 4 [65, 233]) = some .nonAscii := by decide +kernel

end C16
end BioSeq
