/- C05 for codec `dna`, release build: the kernel decides the laws over the whole extracted table. -/
import BioSeq.Checks.C05
namespace BioSeq
namespace C05

theorem dna_laws_release : Laws (Gen.dna .release) Spec.dna :=
  laws_of_ok _ _ (by decide +kernel)

end C05
end BioSeq
