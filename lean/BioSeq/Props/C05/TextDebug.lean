/- C05 for codec `text`, debug build: the kernel decides the laws over the whole extracted table. -/
import BioSeq.Checks.C05
namespace BioSeq
namespace C05

theorem text_laws_debug : Laws (Gen.text .debug) Spec.text :=
  laws_of_ok _ _ (by decide +kernel)

end C05
end BioSeq
