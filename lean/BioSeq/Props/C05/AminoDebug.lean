/- C05 for codec `amino`, debug build: the kernel decides the laws over the whole extracted table. -/
import BioSeq.Checks.C05
namespace BioSeq
namespace C05

theorem amino_laws_debug : Laws (Gen.amino .debug) (Spec.ofDecl? Gen.decl_amino) :=
  laws_of_ok _ _ (by decide +kernel)

end C05
end BioSeq
