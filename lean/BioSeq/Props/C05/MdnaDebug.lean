/- C05 for codec `mdna`, debug build: the kernel decides the laws over the whole extracted table. -/
import BioSeq.Checks.C05
namespace BioSeq
namespace C05

theorem mdna_laws_debug : Laws (Gen.mdna .debug) (Spec.ofDecl? Gen.decl_mdna) :=
  laws_of_ok _ _ (by decide +kernel)

end C05
end BioSeq
