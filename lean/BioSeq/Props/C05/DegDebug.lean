/- C05 for codec `deg`, debug build: the kernel decides the laws over the whole extracted table. -/
import BioSeq.Checks.C05
namespace BioSeq
namespace C05

theorem deg_laws_debug : Laws (Gen.deg .debug) Spec.deg :=
  laws_of_ok _ _ (by decide +kernel)

end C05
end BioSeq
