/- C05 for codec `text`, release build: the kernel decides the laws over the whole extracted table. -/
import BioSeq.Checks.C05
namespace BioSeq
namespace C05

theorem text_laws_release : Laws (Gen.text .release) Spec.text :=
  laws_of_ok _ _ (by decide +kernel)

end C05
end BioSeq
