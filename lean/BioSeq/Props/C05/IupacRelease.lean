/- C05 for codec `iupac`, release build: the kernel decides the laws over the whole extracted table. -/
import BioSeq.Checks.C05
namespace BioSeq
namespace C05

theorem iupac_laws_release : Laws (Gen.iupac .release) (Spec.ofDecl? Gen.decl_iupac) :=
  laws_of_ok _ _ (by decide +kernel)

end C05
end BioSeq
