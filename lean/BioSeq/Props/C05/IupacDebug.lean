/- C05 for codec `iupac`, debug build: the kernel decides the laws over the whole extracted table. -/
import BioSeq.Checks.C05
namespace BioSeq
namespace C05

theorem iupac_laws_debug : Laws (Gen.iupac .debug) (Spec.ofDecl? Gen.decl_iupac) :=
  laws_of_ok _ _ (by decide +kernel)

end C05
end BioSeq
