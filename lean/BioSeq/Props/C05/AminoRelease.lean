/- C05 for codec `amino`, release build: the kernel decides the laws over the whole extracted table. -/
import BioSeq.Checks.C05
namespace BioSeq
namespace C05

theorem amino_laws_release : Laws (Gen.amino .release) (Spec.ofDecl? Gen.decl_amino) :=
  laws_of_ok _ _ (by decide +kernel)

end C05
end BioSeq
