/- C05 for codec `miupac`, debug build: the kernel decides the laws over the whole extracted table. -/
import BioSeq.Checks.C05
namespace BioSeq
namespace C05

theorem miupac_laws_debug : Laws (Gen.miupac .debug) (Spec.ofDecl? Gen.decl_miupac) :=
  laws_of_ok _ _ (by decide +kernel)

end C05
end BioSeq
