/-
  C06 — editing an owned sequence behaves like editing a list of symbols.
  Abstraction: `abs c bs = syms c.width bs` on `Aligned` bit strings.  One commuting square
  per edit (`push`, `extend`, `append`, `prepend`, `insert`, `remove` for every
  `RangeBounds` form and both profiles, `truncate`, `clear`), the panics the model encodes
  for out-of-bounds arguments, the lift to arbitrary edit histories (`history_exact`,
  `history_refines`, `history_oob_panics`) and the frame corollaries.

  Guards.  `insert`, `remove`, `truncate` multiply a symbol index by the width in `usize`;
  the theorems assume that product is `< 2^64`.  Excluded points: `truncate n` with
  `n * width ≥ 2^64` (debug: overflow panic; release: wraps and cuts at the wrapped bit
  offset instead of leaving the sequence unchanged) and `remove` bounds `Excluded(usize::MAX)` /
  `Included(usize::MAX)` whose `n + 1` wraps to 0 in release.
  `push`/`extend`/`append`/`prepend` are total in the model (bitvec's capacity panic for
  > 2^61 bits is not modelled), so their squares need no guard.
-/
import BioSeq.Props.C03
import BioSeq.Lemmas.C06Lemmas
import BioSeq.Checks.WF
namespace BioSeq
namespace C06
open BioSeq.Seq
open C03 (Aligned eq_pack aligned_pack len_eq)
open C06L

/-- abstraction function: the list of symbol codes of an aligned bit string -/
abbrev abs (c : Codec) (bs : Bits) : List Nat := syms c.width bs

/-- a packed list of fitting codes is aligned and abstracts to that list -/
theorem of_pack (c : Codec) (hw : 1 ≤ c.width) (cs : List Nat) (hf : Fits c.width cs) :
    Aligned c (pack c.width cs) ∧ syms c.width (pack c.width cs) = cs :=
  ⟨aligned_pack c cs, syms_pack c.width hw cs hf⟩

/-- an aligned bit string is the packing of a fitting list -/
theorem aligned_exists (c : Codec) (hw : 1 ≤ c.width) (bs : Bits) (hal : Aligned c bs) :
    ∃ cs, Fits c.width cs ∧ bs = pack c.width cs ∧ syms c.width bs = cs :=
  ⟨syms c.width bs, fits_syms c.width hw bs hal, eq_pack c hw bs hal, rfl⟩

/-- the length reported by `len()` is the length of the abstraction -/
theorem len_abs (c : Codec) (bs : Bits) : len c bs = (syms c.width bs).length := len_eq c bs

/-! ### one commuting square per operation -/

/-- `push` appends the low `width` bits of the pushed byte ... -/
theorem push_spec_mod (c : Codec) (hw1 : 1 ≤ c.width) (hw8 : c.width ≤ 8) (bs : Bits) (hal : Aligned c bs)
    (s : Nat) :
    Aligned c (push c bs s) ∧ syms c.width (push c bs s) = syms c.width bs ++ [s % 2 ^ c.width] := by
  obtain ⟨cs, hf, rfl, hs⟩ := aligned_exists c hw1 bs hal
  rw [hs, push_pack_mod c hw8]
  apply of_pack c hw1
  apply hf.append
  intro x hx
  simp only [List.mem_singleton] at hx
  subst hx
  exact Nat.mod_lt _ (Nat.two_pow_pos _)

/-- ... hence exactly the pushed symbol when its code fits the width -/
theorem push_spec (c : Codec) (hw1 : 1 ≤ c.width) (hw8 : c.width ≤ 8) (bs : Bits) (hal : Aligned c bs)
    (s : Nat) (hs : s < 2 ^ c.width) :
    Aligned c (push c bs s) ∧ syms c.width (push c bs s) = syms c.width bs ++ [s] := by
  have := push_spec_mod c hw1 hw8 bs hal s
  rwa [Nat.mod_eq_of_lt hs] at this

theorem extend_spec (c : Codec) (hw1 : 1 ≤ c.width) (hw8 : c.width ≤ 8) (bs : Bits) (hal : Aligned c bs)
    (ss : List Nat) (hss : Fits c.width ss) :
    Aligned c (extend c bs ss) ∧ syms c.width (extend c bs ss) = syms c.width bs ++ ss := by
  obtain ⟨cs, hf, rfl, hs⟩ := aligned_exists c hw1 bs hal
  rw [hs, extend_pack c hw8]
  exact of_pack c hw1 _ (hf.append hss)

theorem append_spec (c : Codec) (hw1 : 1 ≤ c.width) (bs t : Bits) (hal : Aligned c bs) (ht : Aligned c t) :
    Aligned c (append bs t) ∧ syms c.width (append bs t) = syms c.width bs ++ syms c.width t := by
  obtain ⟨cs, hf, rfl, hs⟩ := aligned_exists c hw1 bs hal
  obtain ⟨ts, hft, rfl, hst⟩ := aligned_exists c hw1 t ht
  rw [hs, hst, append, ← pack_append]
  exact of_pack c hw1 _ (hf.append hft)

theorem prepend_spec (c : Codec) (hw1 : 1 ≤ c.width) (bs t : Bits) (hal : Aligned c bs) (ht : Aligned c t) :
    Aligned c (prepend bs t) ∧ syms c.width (prepend bs t) = syms c.width t ++ syms c.width bs := by
  obtain ⟨cs, hf, rfl, hs⟩ := aligned_exists c hw1 bs hal
  obtain ⟨ts, hft, rfl, hst⟩ := aligned_exists c hw1 t ht
  rw [hs, hst, prepend, ← pack_append]
  exact of_pack c hw1 _ (hft.append hf)

/-- `insert` at `i ≤ len` -/
theorem insert_spec (p : Profile) (c : Codec) (hw1 : 1 ≤ c.width) (bs t : Bits) (hal : Aligned c bs)
    (ht : Aligned c t) (i : Nat) (hi : i ≤ len c bs) (hov : i * c.width < W64) :
    ∃ r, Seq.insert p c bs i t = .ok r ∧ Aligned c r ∧
      syms c.width r = (syms c.width bs).take i ++ syms c.width t ++ (syms c.width bs).drop i := by
  obtain ⟨cs, hf, rfl, hs⟩ := aligned_exists c hw1 bs hal
  obtain ⟨ts, hft, rfl, hst⟩ := aligned_exists c hw1 t ht
  rw [len_pack c hw1] at hi
  rw [hs, hst]
  exact ⟨_, insert_pack p c hw1 cs ts i hi hov, of_pack c hw1 _ (((hf.take i).append hft).append (hf.drop i))⟩

/-- `insert` past the end panics, in both profiles, whatever the argument -/
theorem insert_oob_panics (p : Profile) (c : Codec) (bs t : Bits) (i : Nat) (hi : len c bs < i) :
    Seq.insert p c bs i t = .error .panic := insert_oob p c bs i t hi

/-- **`remove`, every `RangeBounds` form, both profiles**: with `s = startOf sb`,
    `e = endOf len eb` the half-open range the bounds denote and `s ≤ e ≤ len` -/
theorem remove_spec (p : Profile) (c : Codec) (hw1 : 1 ≤ c.width) (bs : Bits) (hal : Aligned c bs)
    (sb eb : Bound) (hse : startOf sb ≤ endOf (len c bs) eb) (he : endOf (len c bs) eb ≤ len c bs)
    (hov : endOf (len c bs) eb * c.width < W64) :
    ∃ r, remove p c bs sb eb = .ok r ∧ Aligned c r ∧
      syms c.width r = (syms c.width bs).take (startOf sb) ++ (syms c.width bs).drop (endOf (len c bs) eb) := by
  obtain ⟨cs, hf, rfl, hs⟩ := aligned_exists c hw1 bs hal
  rw [len_pack c hw1] at hse he hov ⊢
  rw [hs]
  exact ⟨_, remove_pack p c hw1 cs sb eb hse he hov, of_pack c hw1 _ ((hf.take _).append (hf.drop _))⟩

/-- out-of-range `remove` (end past the length, or start after end) panics in both profiles:
    in debug at the `debug_assert!`s of `bit_range`, in release inside `drain` -/
theorem remove_oob_panics (p : Profile) (c : Codec) (hw1 : 1 ≤ c.width) (bs : Bits) (hal : Aligned c bs)
    (sb eb : Bound) (h : endOf (len c bs) eb > len c bs ∨ startOf sb > endOf (len c bs) eb)
    (hovs : startOf sb * c.width < W64) (hove : endOf (len c bs) eb * c.width < W64) :
    remove p c bs sb eb = .error .panic :=
  remove_oob p c hw1 bs hal sb eb (by omega) hovs hove

/-! the nine `RangeBounds` combinations spelled out (each for both profiles) -/
section forms
variable (p : Profile) (c : Codec) (hw1 : 1 ≤ c.width) (bs : Bits) (hal : Aligned c bs)
include hw1 hal

/-- `remove(a..b)` -/
theorem remove_incl_excl (a b : Nat) (hab : a ≤ b) (hb : b ≤ len c bs) (hov : b * c.width < W64) :
    ∃ r, remove p c bs (.incl a) (.excl b) = .ok r ∧ Aligned c r ∧
      syms c.width r = (syms c.width bs).take a ++ (syms c.width bs).drop b :=
  remove_spec p c hw1 bs hal (.incl a) (.excl b) hab hb hov

/-- `remove(a..=b)` -/
theorem remove_incl_incl (a b : Nat) (hab : a ≤ b + 1) (hb : b + 1 ≤ len c bs) (hov : (b + 1) * c.width < W64) :
    ∃ r, remove p c bs (.incl a) (.incl b) = .ok r ∧ Aligned c r ∧
      syms c.width r = (syms c.width bs).take a ++ (syms c.width bs).drop (b + 1) :=
  remove_spec p c hw1 bs hal (.incl a) (.incl b) hab hb hov

/-- `remove(a..)` -/
theorem remove_incl_unb (a : Nat) (ha : a ≤ len c bs) (hov : len c bs * c.width < W64) :
    ∃ r, remove p c bs (.incl a) .unb = .ok r ∧ Aligned c r ∧
      syms c.width r = (syms c.width bs).take a := by
  obtain ⟨r, h1, h2, h3⟩ := remove_spec p c hw1 bs hal (.incl a) .unb ha (Nat.le_refl _) hov
  refine ⟨r, h1, h2, ?_⟩
  rw [h3]; simp [startOf, endOf, len_abs]

/-- `remove((Excluded(a), Excluded(b)))` -/
theorem remove_excl_excl (a b : Nat) (hab : a + 1 ≤ b) (hb : b ≤ len c bs) (hov : b * c.width < W64) :
    ∃ r, remove p c bs (.excl a) (.excl b) = .ok r ∧ Aligned c r ∧
      syms c.width r = (syms c.width bs).take (a + 1) ++ (syms c.width bs).drop b :=
  remove_spec p c hw1 bs hal (.excl a) (.excl b) hab hb hov

/-- `remove((Excluded(a), Included(b)))` -/
theorem remove_excl_incl (a b : Nat) (hab : a + 1 ≤ b + 1) (hb : b + 1 ≤ len c bs)
    (hov : (b + 1) * c.width < W64) :
    ∃ r, remove p c bs (.excl a) (.incl b) = .ok r ∧ Aligned c r ∧
      syms c.width r = (syms c.width bs).take (a + 1) ++ (syms c.width bs).drop (b + 1) :=
  remove_spec p c hw1 bs hal (.excl a) (.incl b) hab hb hov

/-- `remove((Excluded(a), Unbounded))` -/
theorem remove_excl_unb (a : Nat) (ha : a + 1 ≤ len c bs) (hov : len c bs * c.width < W64) :
    ∃ r, remove p c bs (.excl a) .unb = .ok r ∧ Aligned c r ∧
      syms c.width r = (syms c.width bs).take (a + 1) := by
  obtain ⟨r, h1, h2, h3⟩ := remove_spec p c hw1 bs hal (.excl a) .unb ha (Nat.le_refl _) hov
  refine ⟨r, h1, h2, ?_⟩
  rw [h3]; simp [startOf, endOf, len_abs]

/-- `remove(..b)` -/
theorem remove_unb_excl (b : Nat) (hb : b ≤ len c bs) (hov : b * c.width < W64) :
    ∃ r, remove p c bs .unb (.excl b) = .ok r ∧ Aligned c r ∧
      syms c.width r = (syms c.width bs).drop b := by
  obtain ⟨r, h1, h2, h3⟩ := remove_spec p c hw1 bs hal .unb (.excl b) (Nat.zero_le _) hb hov
  refine ⟨r, h1, h2, ?_⟩
  rw [h3]; simp [startOf, endOf]

/-- `remove(..=b)` -/
theorem remove_unb_incl (b : Nat) (hb : b + 1 ≤ len c bs) (hov : (b + 1) * c.width < W64) :
    ∃ r, remove p c bs .unb (.incl b) = .ok r ∧ Aligned c r ∧
      syms c.width r = (syms c.width bs).drop (b + 1) := by
  obtain ⟨r, h1, h2, h3⟩ := remove_spec p c hw1 bs hal .unb (.incl b) (Nat.zero_le _) hb hov
  refine ⟨r, h1, h2, ?_⟩
  rw [h3]; simp [startOf, endOf]

/-- `remove(..)` -/
theorem remove_unb_unb (hov : len c bs * c.width < W64) :
    ∃ r, remove p c bs .unb .unb = .ok r ∧ Aligned c r ∧ syms c.width r = [] := by
  obtain ⟨r, h1, h2, h3⟩ := remove_spec p c hw1 bs hal .unb .unb (Nat.zero_le _) (Nat.le_refl _) hov
  refine ⟨r, h1, h2, ?_⟩
  rw [h3]; simp [startOf, endOf, len_abs]

end forms

/-- `truncate n` keeps the first `n` symbols ... -/
theorem truncate_spec (p : Profile) (c : Codec) (hw1 : 1 ≤ c.width) (bs : Bits) (hal : Aligned c bs)
    (n : Nat) (hov : n * c.width < W64) :
    ∃ r, truncate p c bs n = .ok r ∧ Aligned c r ∧ syms c.width r = (syms c.width bs).take n := by
  obtain ⟨cs, hf, rfl, hs⟩ := aligned_exists c hw1 bs hal
  rw [hs]
  exact ⟨_, truncate_pack p c cs n hov, of_pack c hw1 _ (hf.take n)⟩

/-- ... and leaves the sequence unchanged when `n ≥ len` -/
theorem truncate_beyond (p : Profile) (c : Codec) (hw1 : 1 ≤ c.width) (bs : Bits) (hal : Aligned c bs)
    (n : Nat) (hn : len c bs ≤ n) (hov : n * c.width < W64) :
    truncate p c bs n = .ok bs := by
  obtain ⟨cs, hf, rfl, hs⟩ := aligned_exists c hw1 bs hal
  rw [len_pack c hw1] at hn
  rw [truncate_pack p c cs n hov, List.take_of_length_le hn]

/-- `Seq::clear` (`bv.clear()`): the empty bit string -/
def clear (_ : Bits) : Bits := []

theorem clear_spec (c : Codec) (bs : Bits) :
    Aligned c (clear bs) ∧ syms c.width (clear bs) = [] := by
  refine ⟨⟨0, by simp [clear]⟩, ?_⟩
  simp [clear, syms, unpack]

/-! ### the argument may be any window of any sequence -/

/-- inserting the window `src[a..b]` inserts exactly the symbols `a..b` of `src` -/
theorem insert_window (p : Profile) (c : Codec) (hw1 : 1 ≤ c.width) (bs src : Bits) (hal : Aligned c bs)
    (hsrc : Aligned c src) (a b : Nat) (hab : a ≤ b) (hb : b ≤ len c src) (hovb : b * c.width < W64)
    (i : Nat) (hi : i ≤ len c bs) (hov : i * c.width < W64) :
    ∃ t r, index p c src .range a b = .ok t ∧ Seq.insert p c bs i t = .ok r ∧ Aligned c r ∧
      syms c.width r =
        (syms c.width bs).take i ++ ((syms c.width src).take b).drop a ++ (syms c.width bs).drop i := by
  obtain ⟨t, h1, h2, h3, _⟩ := C03.index_range p c hw1 src hsrc a b hab hb hovb
  obtain ⟨r, h4, h5, h6⟩ := insert_spec p c hw1 bs t hal h2 i hi hov
  exact ⟨t, r, h1, h4, h5, by rw [h6, h3]⟩

/-- appending / prepending the window `src[a..b]` -/
theorem append_window (p : Profile) (c : Codec) (hw1 : 1 ≤ c.width) (bs src : Bits) (hal : Aligned c bs)
    (hsrc : Aligned c src) (a b : Nat) (hab : a ≤ b) (hb : b ≤ len c src) (hovb : b * c.width < W64) :
    ∃ t, index p c src .range a b = .ok t ∧
      Aligned c (append bs t) ∧ Aligned c (prepend bs t) ∧
      syms c.width (append bs t) = syms c.width bs ++ ((syms c.width src).take b).drop a ∧
      syms c.width (prepend bs t) = ((syms c.width src).take b).drop a ++ syms c.width bs := by
  obtain ⟨t, h1, h2, h3, _⟩ := C03.index_range p c hw1 src hsrc a b hab hb hovb
  obtain ⟨h4, h5⟩ := append_spec c hw1 bs t hal h2
  obtain ⟨h6, h7⟩ := prepend_spec c hw1 bs t hal h2
  exact ⟨t, h1, h4, h6, by rw [h5, h3], by rw [h7, h3]⟩

/-! ### frame: symbols outside the edited region are untouched -/

theorem insert_frame (p : Profile) (c : Codec) (hw1 : 1 ≤ c.width) (bs t : Bits) (hal : Aligned c bs)
    (ht : Aligned c t) (i : Nat) (hi : i ≤ len c bs) (hov : i * c.width < W64)
    (r : Bits) (hr : Seq.insert p c bs i t = .ok r) :
    len c r = len c bs + len c t ∧
    (∀ j, j < i → (syms c.width r)[j]? = (syms c.width bs)[j]?) ∧
    (∀ k, k < len c t → (syms c.width r)[i + k]? = (syms c.width t)[k]?) ∧
    (∀ j, i ≤ j → (syms c.width r)[j + len c t]? = (syms c.width bs)[j]?) := by
  obtain ⟨r', hr', _, hs⟩ := insert_spec p c hw1 bs t hal ht i hi hov
  rw [hr] at hr'; injection hr' with hr'; subst hr'
  rw [len_abs] at hi
  simp only [len_abs c r, len_abs c t, len_abs c bs, hs]
  refine ⟨?_, ?_, ?_, ?_⟩
  · simp only [List.length_append, List.length_take, List.length_drop]; omega
  · intro j hj; exact getElem?_insert_lt _ _ i j hi hj
  · intro k hk; exact getElem?_insert_mid _ _ i k hi hk
  · intro j hj; exact getElem?_insert_ge _ _ i j hi hj

theorem remove_frame (p : Profile) (c : Codec) (hw1 : 1 ≤ c.width) (bs : Bits) (hal : Aligned c bs)
    (sb eb : Bound) (hse : startOf sb ≤ endOf (len c bs) eb) (he : endOf (len c bs) eb ≤ len c bs)
    (hov : endOf (len c bs) eb * c.width < W64) (r : Bits) (hr : remove p c bs sb eb = .ok r) :
    len c r = len c bs - (endOf (len c bs) eb - startOf sb) ∧
    (∀ j, j < startOf sb → (syms c.width r)[j]? = (syms c.width bs)[j]?) ∧
    (∀ j, startOf sb ≤ j →
      (syms c.width r)[j]? = (syms c.width bs)[j + (endOf (len c bs) eb - startOf sb)]?) := by
  obtain ⟨r', hr', _, hs⟩ := remove_spec p c hw1 bs hal sb eb hse he hov
  rw [hr] at hr'; injection hr' with hr'; subst hr'
  have he' : endOf (len c bs) eb ≤ (syms c.width bs).length := by rw [← len_abs]; exact he
  refine ⟨?_, ?_, ?_⟩
  · rw [len_abs c r, hs]
    simp only [List.length_append, List.length_take, List.length_drop, ← len_abs]; omega
  · intro j hj; rw [hs]; exact getElem?_remove_lt _ _ _ j he' hse hj
  · intro j hj; rw [hs]; exact getElem?_remove_ge _ _ _ j he' hse hj

/-! ### histories -/

inductive Op
  | push (s : Nat)
  | extend (ss : List Nat)
  | append (t : Bits)
  | prepend (t : Bits)
  | insert (i : Nat) (t : Bits)
  | remove (sb eb : Bound)
  | truncate (n : Nat)
  | clear
  deriving DecidableEq, Repr

/-- one edit on the model -/
def step (p : Profile) (c : Codec) (bs : Bits) : Op → Res Bits
  | .push s => .ok (Seq.push c bs s)
  | .extend ss => .ok (Seq.extend c bs ss)
  | .append t => .ok (Seq.append bs t)
  | .prepend t => .ok (Seq.prepend bs t)
  | .insert i t => Seq.insert p c bs i t
  | .remove sb eb => Seq.remove p c bs sb eb
  | .truncate n => Seq.truncate p c bs n
  | .clear => .ok (C06.clear bs)

/-- a history of edits on the model; the first failure aborts (panic) -/
def run (p : Profile) (c : Codec) : Bits → List Op → Res Bits
  | bs, [] => .ok bs
  | bs, op :: ops => (step p c bs op).bind fun r => run p c r ops

/-- one edit on a plain list of symbols (`w` only serves to read the argument slices);
    `none` = argument out of bounds -/
def specStep (w : Nat) (l : List Nat) : Op → Option (List Nat)
  | .push s => some (l ++ [s])
  | .extend ss => some (l ++ ss)
  | .append t => some (l ++ syms w t)
  | .prepend t => some (syms w t ++ l)
  | .insert i t => if i ≤ l.length then some (l.take i ++ syms w t ++ l.drop i) else none
  | .remove sb eb =>
    if startOf sb ≤ endOf l.length eb ∧ endOf l.length eb ≤ l.length
    then some (l.take (startOf sb) ++ l.drop (endOf l.length eb)) else none
  | .truncate n => some (l.take n)
  | .clear => some []

def runSpec (w : Nat) : List Nat → List Op → Option (List Nat)
  | l, [] => some l
  | l, op :: ops => (specStep w l op).bind fun l' => runSpec w l' ops

/-- well-formed arguments: slices are aligned, pushed symbols fit the width, and the
    `usize` product of `truncate` does not overflow -/
def OpWF (c : Codec) : Op → Prop
  | .push s => s < 2 ^ c.width
  | .extend ss => Fits c.width ss
  | .append t => Aligned c t
  | .prepend t => Aligned c t
  | .insert _ t => Aligned c t
  | .remove _ _ => True
  | .truncate n => n * c.width < W64
  | .clear => True

/-- extra no-overflow guard needed only to show that an *out-of-range* `remove` panics -/
def OobGuard (c : Codec) (len : Nat) : Op → Prop
  | .remove sb eb => startOf sb * c.width < W64 ∧ endOf len eb * c.width < W64
  | _ => True

/-- a history is well formed from the list `l` when every intermediate length is `≤ B`,
    every operation has well-formed arguments, and (if the history runs out of bounds) the
    offending operation satisfies `OobGuard` -/
def HistWF (c : Codec) (B : Nat) : List Nat → List Op → Prop
  | l, [] => l.length ≤ B
  | l, op :: ops => l.length ≤ B ∧ OpWF c op ∧
    match specStep c.width l op with
    | some l' => HistWF c B l' ops
    | none => OobGuard c l.length op

/-- one step, fully characterised on packed fitting lists -/
theorem step_exact (p : Profile) (c : Codec) (hw1 : 1 ≤ c.width) (hw8 : c.width ≤ 8)
    (cs : List Nat) (hf : Fits c.width cs) (hov : cs.length * c.width < W64) (op : Op) (hwf : OpWF c op) :
    match specStep c.width cs op with
    | some l' => step p c (pack c.width cs) op = .ok (pack c.width l') ∧ Fits c.width l'
    | none => OobGuard c cs.length op → step p c (pack c.width cs) op = .error .panic := by
  have hal := aligned_pack c cs
  have hs := syms_pack c.width hw1 cs hf
  have hl := len_pack c hw1 cs
  cases op with
  | push s =>
    obtain ⟨h1, h2⟩ := push_spec c hw1 hw8 _ hal s hwf
    simp only [specStep, step]
    refine ⟨by rw [eq_pack c hw1 _ h1, h2, hs], hf.append ?_⟩
    intro x hx; simp only [List.mem_singleton] at hx; subst hx; exact hwf
  | extend ss =>
    simp only [specStep, step]
    exact ⟨by rw [extend_pack c hw8], hf.append hwf⟩
  | append t =>
    obtain ⟨ts, hft, rfl, hst⟩ := aligned_exists c hw1 t hwf
    simp only [specStep, step, hst, Seq.append, ← pack_append]
    exact ⟨trivial, hf.append hft⟩
  | prepend t =>
    obtain ⟨ts, hft, rfl, hst⟩ := aligned_exists c hw1 t hwf
    simp only [specStep, step, hst, Seq.prepend, ← pack_append]
    exact ⟨trivial, hft.append hf⟩
  | insert i t =>
    obtain ⟨ts, hft, rfl, hst⟩ := aligned_exists c hw1 t hwf
    simp only [specStep, step, hst]
    by_cases hi : i ≤ cs.length
    · rw [if_pos hi]
      have : i * c.width < W64 := Nat.lt_of_le_of_lt (Nat.mul_le_mul_right _ hi) hov
      exact ⟨insert_pack p c hw1 cs ts i hi this, ((hf.take i).append hft).append (hf.drop i)⟩
    · rw [if_neg hi]
      intro _
      exact insert_oob p c _ i _ (by rw [hl]; omega)
  | remove sb eb =>
    simp only [specStep, step]
    by_cases h : startOf sb ≤ endOf cs.length eb ∧ endOf cs.length eb ≤ cs.length
    · rw [if_pos h]
      have : endOf cs.length eb * c.width < W64 :=
        Nat.lt_of_le_of_lt (Nat.mul_le_mul_right _ h.2) hov
      exact ⟨remove_pack p c hw1 cs sb eb h.1 h.2 this, (hf.take _).append (hf.drop _)⟩
    · rw [if_neg h]
      intro hg
      exact remove_oob p c hw1 _ hal sb eb (by rw [hl]; exact h) hg.1 (by rw [hl]; exact hg.2)
  | truncate n =>
    simp only [specStep, step]
    exact ⟨truncate_pack p c cs n hwf, hf.take n⟩
  | clear =>
    simp only [specStep, step, C06.clear]
    exact ⟨rfl, fun _ h => by simp at h⟩

/-- **histories, fully characterised**: running a well-formed history on the model gives the
    packing of what the list specification computes, and panics exactly when the
    specification runs out of bounds -/
theorem history_exact (p : Profile) (c : Codec) (hw1 : 1 ≤ c.width) (hw8 : c.width ≤ 8)
    (B : Nat) (hB : B * c.width < W64) (ops : List Op) (cs : List Nat) (hf : Fits c.width cs)
    (hwf : HistWF c B cs ops) :
    match runSpec c.width cs ops with
    | some l' => run p c (pack c.width cs) ops = .ok (pack c.width l') ∧ Fits c.width l'
    | none => run p c (pack c.width cs) ops = .error .panic := by
  induction ops generalizing cs with
  | nil => simp only [runSpec, run]; exact ⟨trivial, hf⟩
  | cons op ops ih =>
    obtain ⟨hlen, hop, hrest⟩ := hwf
    have hov : cs.length * c.width < W64 := Nat.lt_of_le_of_lt (Nat.mul_le_mul_right _ hlen) hB
    have hstep := step_exact p c hw1 hw8 cs hf hov op hop
    simp only [runSpec, run]
    cases hsp : specStep c.width cs op with
    | none =>
      rw [hsp] at hstep hrest
      simp only [Option.bind]
      rw [hstep hrest]; rfl
    | some l' =>
      rw [hsp] at hstep hrest
      simp only [Option.bind]
      rw [hstep.1]
      exact ih l' hstep.2 hrest

/-- **history refinement**: from an aligned start, a well-formed in-bounds history succeeds
    with an aligned result whose symbols (and length) are those of the list specification -/
theorem history_refines (p : Profile) (c : Codec) (hw1 : 1 ≤ c.width) (hw8 : c.width ≤ 8)
    (B : Nat) (hB : B * c.width < W64) (bs : Bits) (hal : Aligned c bs) (ops : List Op)
    (hwf : HistWF c B (syms c.width bs) ops) (l' : List Nat)
    (hspec : runSpec c.width (syms c.width bs) ops = some l') :
    ∃ r, run p c bs ops = .ok r ∧ Aligned c r ∧ syms c.width r = l' ∧ len c r = l'.length := by
  obtain ⟨cs, hf, rfl, hs⟩ := aligned_exists c hw1 bs hal
  rw [hs] at hwf hspec
  have h := history_exact p c hw1 hw8 B hB ops cs hf hwf
  rw [hspec] at h
  obtain ⟨h1, h2⟩ := of_pack c hw1 l' h.2
  exact ⟨_, h.1, h1, h2, by rw [len_abs, h2]⟩

/-- a history whose list specification runs out of bounds panics on the model -/
theorem history_oob_panics (p : Profile) (c : Codec) (hw1 : 1 ≤ c.width) (hw8 : c.width ≤ 8)
    (B : Nat) (hB : B * c.width < W64) (bs : Bits) (hal : Aligned c bs) (ops : List Op)
    (hwf : HistWF c B (syms c.width bs) ops)
    (hspec : runSpec c.width (syms c.width bs) ops = none) :
    run p c bs ops = .error .panic := by
  obtain ⟨cs, hf, rfl, hs⟩ := aligned_exists c hw1 bs hal
  rw [hs] at hwf hspec
  have h := history_exact p c hw1 hw8 B hB ops cs hf hwf
  rw [hspec] at h
  exact h

/-- the build profile is unobservable on well-formed histories -/
theorem history_profile_independent (c : Codec) (hw1 : 1 ≤ c.width) (hw8 : c.width ≤ 8)
    (B : Nat) (hB : B * c.width < W64) (bs : Bits) (hal : Aligned c bs) (ops : List Op)
    (hwf : HistWF c B (syms c.width bs) ops) :
    run .debug c bs ops = run .release c bs ops := by
  obtain ⟨cs, hf, rfl, hs⟩ := aligned_exists c hw1 bs hal
  rw [hs] at hwf
  have hd := history_exact .debug c hw1 hw8 B hB ops cs hf hwf
  have hr := history_exact .release c hw1 hw8 B hB ops cs hf hwf
  cases hsp : runSpec c.width cs ops with
  | none => rw [hsp] at hd hr; rw [hd, hr]
  | some l' => rw [hsp] at hd hr; rw [hd.1, hr.1]

/-- the refinement for every built-in codec as compiled in either profile (`wf_all`) -/
theorem history_refines_builtin (c : Profile → Codec) (hc : c ∈ Gen.allCodecs) (p : Profile)
    (B : Nat) (hB : B * (c p).width < W64) (bs : Bits) (hal : Aligned (c p) bs) (ops : List Op)
    (hwf : HistWF (c p) B (syms (c p).width bs) ops) (l' : List Nat)
    (hspec : runSpec (c p).width (syms (c p).width bs) ops = some l') :
    ∃ r, run p (c p) bs ops = .ok r ∧ Aligned (c p) r ∧ syms (c p).width r = l' ∧ len (c p) r = l'.length :=
  have wf := wf_all c hc p
  history_refines p (c p) wf.width_pos wf.width_le B hB bs hal ops hwf l' hspec

/-! ### decidability of the well-formedness predicates (so concrete histories are checked by `decide`) -/

instance decOpWF (c : Codec) : (op : Op) → Decidable (OpWF c op)
  | .push s => inferInstanceAs (Decidable (s < 2 ^ c.width))
  | .extend ss => inferInstanceAs (Decidable (∀ x ∈ ss, x < 2 ^ c.width))
  | .append t => inferInstanceAs (Decidable (c.width ∣ t.length))
  | .prepend t => inferInstanceAs (Decidable (c.width ∣ t.length))
  | .insert _ t => inferInstanceAs (Decidable (c.width ∣ t.length))
  | .remove _ _ => inferInstanceAs (Decidable True)
  | .truncate n => inferInstanceAs (Decidable (n * c.width < W64))
  | .clear => inferInstanceAs (Decidable True)

instance decOobGuard (c : Codec) (len : Nat) : (op : Op) → Decidable (OobGuard c len op)
  | .remove sb eb => inferInstanceAs (Decidable (startOf sb * c.width < W64 ∧ endOf len eb * c.width < W64))
  | .push _ => inferInstanceAs (Decidable True)
  | .extend _ => inferInstanceAs (Decidable True)
  | .append _ => inferInstanceAs (Decidable True)
  | .prepend _ => inferInstanceAs (Decidable True)
  | .insert _ _ => inferInstanceAs (Decidable True)
  | .truncate _ => inferInstanceAs (Decidable True)
  | .clear => inferInstanceAs (Decidable True)

instance decHistWF (c : Codec) (B : Nat) : (l : List Nat) → (ops : List Op) → Decidable (HistWF c B l ops)
  | l, [] => inferInstanceAs (Decidable (l.length ≤ B))
  | l, op :: ops =>
    match h : specStep c.width l op with
    | some l' =>
      have := decHistWF c B l' ops
      decidable_of_iff (l.length ≤ B ∧ OpWF c op ∧ HistWF c B l' ops) (by simp only [HistWF, h])
    | none =>
      decidable_of_iff (l.length ≤ B ∧ OpWF c op ∧ OobGuard c l.length op) (by simp only [HistWF, h])

/-! ### non-vacuity: concrete instances -/
section examples

/-- a 5-bit codec (only the width matters for editing); 20 symbols = 100 bits straddle a word -/
def c5 : Codec := ⟨"x", 5, [], fun _ => none, fun _ => none, fun _ => none, fun _ => none, fun _ => 0,
    fun _ => none, fun _ => none, fun _ => none⟩

-- the hypotheses of every square are satisfiable (theorem instances on concrete data)
example := push_spec (Gen.dna .debug) (by decide) (by decide) (pack 2 [0, 1, 2]) (aligned_pack _ _) 3 (by decide)
example := extend_spec (Gen.dna .debug) (by decide) (by decide) (pack 2 [0, 1, 2]) (aligned_pack _ _) [3, 3, 0]
  (by unfold Fits; decide)
example := append_spec (Gen.dna .debug) (by decide) (pack 2 [0, 1, 2]) (pack 2 [3, 3]) (aligned_pack _ _)
  (aligned_pack _ _)
example := insert_spec .release c5 (by decide) (pack 5 (List.range 20)) (pack 5 [31, 30]) (aligned_pack _ _)
  (aligned_pack _ _) 13 (by decide) (by decide)
example := remove_spec .debug c5 (by decide) (pack 5 (List.range 20)) (aligned_pack _ _) (.excl 3) (.incl 14)
  (by decide) (by decide) (by decide)
example := remove_oob_panics .release c5 (by decide) (pack 5 (List.range 20)) (aligned_pack _ _) (.incl 3) (.incl 20)
  (by decide) (by decide) (by decide)
example := truncate_spec .release c5 (by decide) (pack 5 (List.range 20)) (aligned_pack _ _) 13 (by decide)
example := truncate_beyond .debug c5 (by decide) (pack 5 (List.range 20)) (aligned_pack _ _) 21 (by decide)
  (by decide)

-- the squares evaluated on the model itself
example : push (Gen.dna .debug) (pack 2 [0, 1, 2]) 3 = pack 2 [0, 1, 2, 3] := by decide +kernel
example : Seq.insert .release c5 (pack 5 (List.range 20)) 13 (pack 5 [31, 30]) =
    .ok (pack 5 ((List.range 20).take 13 ++ [31, 30] ++ (List.range 20).drop 13)) := by decide +kernel
example : Seq.insert .debug (Gen.dna .debug) (pack 2 [0, 1, 2]) 4 (pack 2 [3]) = .error .panic := by
  decide +kernel

/-- all nine `RangeBounds` combinations, in range and out of range, on a word-straddling
    5-bit sequence: (start bound, end bound, expected list or `none` = panic) -/
def removeCases : List (Bound × Bound × Option (List Nat)) :=
  let l := List.range 20
  [ (.incl 3, .excl 14, some (l.take 3 ++ l.drop 14)), (.incl 3, .incl 14, some (l.take 3 ++ l.drop 15)),
    (.incl 3, .unb, some (l.take 3)), (.excl 3, .excl 14, some (l.take 4 ++ l.drop 14)),
    (.excl 3, .incl 14, some (l.take 4 ++ l.drop 15)), (.excl 3, .unb, some (l.take 4)),
    (.unb, .excl 14, some (l.drop 14)), (.unb, .incl 14, some (l.drop 15)), (.unb, .unb, some []),
    (.incl 20, .excl 20, some l), (.incl 0, .incl 19, some []), (.excl 19, .unb, some l),
    (.incl 3, .excl 21, none), (.incl 3, .incl 20, none), (.incl 21, .unb, none), (.excl 20, .unb, none),
    (.incl 5, .excl 4, none), (.excl 4, .excl 4, none), (.excl 4, .incl 3, none), (.unb, .excl 21, none),
    (.unb, .incl 20, none) ]

def removeFailures : List (Profile × Bound × Bound × Option (List Nat)) :=
  ([Profile.debug, Profile.release].flatMap fun p => removeCases.map fun x => (p, x)).filter
    fun (p, sb, eb, exp) =>
      decide (remove p c5 (pack 5 (List.range 20)) sb eb ≠
        (match exp with | some l => .ok (pack 5 l) | none => .error .panic))
      || decide (specStep 5 (List.range 20) (.remove sb eb) ≠ exp)

example : removeFailures = [] := by decide +kernel

/-- a history through every operation, with arguments that are windows of other sequences -/
def hist : List Op :=
  [.push 2, .extend [3, 0], .insert 1 (pack 2 [1, 1]), .remove (.excl 0) (.incl 2), .prepend (pack 2 [2]),
   .truncate 100, .remove .unb (.excl 1), .append ((pack 2 [3, 0, 0, 3, 1]).drop 2 |>.take 6), .truncate 8,
   .clear, .extend [1, 2], .remove (.incl 1) .unb]

example : HistWF (Gen.dna .release) 1000 [0, 1, 2, 3] hist := by decide +kernel
example : runSpec 2 [0, 1, 2, 3] hist = some [1] := by decide +kernel
example : run .release (Gen.dna .release) (pack 2 [0, 1, 2, 3]) hist = .ok (pack 2 [1]) := by decide +kernel
example : run .debug (Gen.dna .debug) (pack 2 [0, 1, 2, 3]) (hist.take 9) = .ok (pack 2 [0, 1, 2, 3, 2, 3, 0, 0]) := by
  decide +kernel

example : ∃ r, run .release (Gen.dna .release) (pack 2 [0, 1, 2, 3]) hist = .ok r ∧
    Aligned (Gen.dna .release) r ∧ syms 2 r = [1] ∧ len (Gen.dna .release) r = 1 :=
  history_refines .release (Gen.dna .release) (by decide) (by decide) 1000 (by decide +kernel)
    (pack 2 [0, 1, 2, 3]) (aligned_pack _ _) hist (by decide +kernel) [1] (by decide +kernel)

/-- a well-formed history that runs out of bounds (and panics) -/
example : run .release c5 (pack 5 (List.range 20)) [.truncate 10, .remove (.incl 4) (.excl 11)] = .error .panic :=
  history_oob_panics .release c5 (by decide) (by decide) 64 (by decide +kernel) _ (aligned_pack _ _) _
    (by decide +kernel) (by decide +kernel)

/-! the guards exclude real behaviour of the release build (excluded points, not refinements):
    `truncate(2^63)` on a 2-bit codec wraps `len * BITS` to 0 and clears the sequence instead of
    leaving it unchanged; `remove(..=usize::MAX)` wraps `n + 1` to 0 and silently removes nothing
    instead of panicking.  In the debug build both are arithmetic-overflow panics. -/
example : truncate .release (Gen.dna .release) (pack 2 [0, 1, 2, 3]) (2 ^ 63) = .ok [] := by decide +kernel
example : truncate .debug (Gen.dna .debug) (pack 2 [0, 1, 2, 3]) (2 ^ 63) = .error .panic := by decide +kernel
example : remove .release (Gen.dna .release) (pack 2 [0, 1, 2, 3]) .unb (.incl (2 ^ 64 - 1)) =
    .ok (pack 2 [0, 1, 2, 3]) := by decide +kernel
example : remove .debug (Gen.dna .debug) (pack 2 [0, 1, 2, 3]) .unb (.incl (2 ^ 64 - 1)) = .error .panic := by
  decide +kernel

end examples

end C06
end BioSeq
