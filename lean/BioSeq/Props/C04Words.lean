/-
  C04 (word vectors) — `From<Vec<usize>> for Seq<text::Dna>` (codec/text.rs): the vector's words
  become the bit vector *whole* (`BitVec::from_vec`), so every word contributes eight 8-bit
  symbols, least significant byte first — the same layout as the raw image of C04 §4.

  * length `64 · #words` bits = `8 · #words` symbols, aligned for the 8-bit codec;
  * symbol `i` is byte `i % 8` of word `i / 8`: `(ws[i/8] / 2^(8·(i%8))) % 256`;
  * raw image round trip: `into_raw()` gives the words back, and `from_raw(8·#words, words)`
    builds the same sequence when the bit count passes `from_raw`'s `usize` guard
    (`8·#words·8 < 2^64`, i.e. `64·#words < W64`), `None` otherwise.

  Words are machine words; the model reduces its `Nat` inputs modulo `2^64` (`· % 2^64`), which is
  the identity on actual `usize` values.
-/
import BioSeq.Props.C04
import BioSeq.Lemmas.ArrayLemmas
namespace BioSeq
namespace C04Words
open BioSeq.Seq BioSeq.ArrL

/-- only the low 64 bits of each model word matter -/
theorem ofVecWords_eq (ws : List Nat) : ofVecWords ws = bitsOfWords ws := bitsOfWords_map_mod ws

/-- **length**: 64 bits per word -/
theorem ofVecWords_length (ws : List Nat) : (ofVecWords ws).length = 64 * ws.length := by
  simp [ofVecWords]

/-- **aligned for width 8** -/
theorem ofVecWords_aligned (c : Codec) (hc : c.width = 8) (ws : List Nat) :
    C04.Aligned c (ofVecWords ws) := by
  unfold C04.Aligned
  rw [hc, ofVecWords_length]
  exact ⟨8 * ws.length, by omega⟩

/-- eight symbols per word -/
theorem ofVecWords_len (c : Codec) (hc : c.width = 8) (ws : List Nat) :
    len c (ofVecWords ws) = 8 * ws.length := by
  unfold len
  rw [hc, ofVecWords_length]
  omega

/-- the sequence is the packing of the words' bytes, in order -/
theorem ofVecWords_eq_pack (ws : List Nat) : ofVecWords ws = pack 8 (ws.flatMap (digitsLE 8 8)) := by
  rw [ofVecWords_eq, bitsOfWords_eq_pack8]

theorem fits_bytes (ws : List Nat) : Fits 8 (ws.flatMap (digitsLE 8 8)) := by
  intro x hx
  obtain ⟨w, _, hw⟩ := List.mem_flatMap.mp hx
  exact digitsLE_fits 8 8 w x hw

/-- the stored codes are the words' bytes, least significant first -/
theorem ofVecWords_syms (ws : List Nat) : syms 8 (ofVecWords ws) = ws.flatMap (digitsLE 8 8) := by
  rw [ofVecWords_eq_pack]
  exact syms_pack 8 (by decide) _ (fits_bytes ws)

/-- byte `j` of a word -/
theorem bytes_getElem? (ws : List Nat) (i : Nat) (hi : i < 8 * ws.length) :
    (ws.flatMap (digitsLE 8 8))[i]? = some ((ws[i / 8]'(by omega)) / 2 ^ (8 * (i % 8)) % 256) := by
  rw [getElem?_flatMap_const 8 (by decide) (digitsLE 8 8) ws (fun x _ => digitsLE_length 8 8 x)]
  have h8 : i / 8 < ws.length := by omega
  rw [List.getElem?_eq_getElem h8]
  simp only [Option.bind]
  rw [digitsLE_getElem? 8 8 _ (i % 8) (Nat.mod_lt _ (by decide))]

/-- **symbol `i` is `(ws[i/8] / 2^(8·(i%8))) % 256`** -/
theorem ofVecWords_symbol (ws : List Nat) (i : Nat) (hi : i < 8 * ws.length) :
    (syms 8 (ofVecWords ws))[i]? = some ((ws[i / 8]'(by omega)) / 2 ^ (8 * (i % 8)) % 256) := by
  rw [ofVecWords_syms]; exact bytes_getElem? ws i hi

/-- ... and it sits at bits `[8i, 8i+8)` -/
theorem ofVecWords_window (ws : List Nat) (i : Nat) (hi : i < 8 * ws.length) :
    ((ofVecWords ws).drop (8 * i)).take 8 = toBitsLE 8 ((ws[i / 8]'(by omega)) / 2 ^ (8 * (i % 8))) := by
  have hl : (ws.flatMap (digitsLE 8 8)).length = 8 * ws.length := by
    have := congrArg List.length (ofVecWords_syms ws)
    rw [syms_length, ofVecWords_length] at this
    omega
  have hi' : i < (ws.flatMap (digitsLE 8 8)).length := by omega
  rw [ofVecWords_eq_pack, window_pack 8 _ i hi']
  have h := bytes_getElem? ws i hi
  rw [List.getElem?_eq_getElem hi'] at h
  injection h with h
  rw [h]
  exact toBitsLE_mod 8 _

/-- symbols beyond the last word do not exist -/
theorem ofVecWords_symbol_none (ws : List Nat) (i : Nat) (hi : 8 * ws.length ≤ i) :
    (syms 8 (ofVecWords ws))[i]? = none := by
  apply List.getElem?_eq_none
  rw [syms_length, ofVecWords_length]
  omega

/-- every byte value decodes to itself in `text::Dna` -/
theorem text_decode (p : Profile) :
    (List.range 256).filter (fun b => (Gen.text p).unsafeFromBits b != some b) = [] := by
  cases p <;> decide +kernel

/-- `seq.nth(i)` of the built sequence is that byte -/
theorem ofVecWords_nth (p : Profile) (ws : List Nat) (i : Nat) (hi : i < 8 * ws.length)
    (hov : (i + 1) * 8 < W64) :
    nth p (Gen.text p) (ofVecWords ws) i = .ok ((ws[i / 8]'(by omega)) / 2 ^ (8 * (i % 8)) % 256) := by
  have hw : (Gen.text p).width = 8 := by cases p <;> rfl
  have hl : (ws.flatMap (digitsLE 8 8)).length = 8 * ws.length := by
    have := congrArg List.length (ofVecWords_syms ws)
    rw [syms_length, ofVecWords_length] at this
    omega
  have hi' : i < (ws.flatMap (digitsLE 8 8)).length := by omega
  have h := nth_pack_fits p (Gen.text p) (by rw [hw]; decide) (by rw [hw]; decide)
    (ws.flatMap (digitsLE 8 8)) (by rw [hw]; exact fits_bytes ws) i hi' (by rw [hw]; exact hov)
  rw [hw, ← ofVecWords_eq_pack] at h
  rw [h]
  have hb := bytes_getElem? ws i hi
  rw [List.getElem?_eq_getElem hi'] at hb
  injection hb with hb
  rw [hb]
  have hlt : (ws[i / 8]'(by omega)) / 2 ^ (8 * (i % 8)) % 256 < 256 := Nat.mod_lt _ (by decide)
  have := (List.filter_eq_nil_iff.mp (text_decode p)) _ (List.mem_range.mpr hlt)
  simp only [bne_iff_ne, ne_eq, Decidable.not_not] at this
  rw [this]; rfl

/-! ### raw image round trip -/

/-- **`into_raw` gives the words back** -/
theorem intoRaw_ofVecWords (ws : List Nat) : intoRaw (ofVecWords ws) = ws.map (· % 2 ^ 64) := by
  unfold intoRaw
  rw [ofVecWords_length]
  have e : (64 * ws.length + 63) / 64 = (ws.map (· % 2 ^ 64)).length := by
    rw [List.length_map]; omega
  rw [e]
  unfold ofVecWords
  apply wordsOf_bitsOfWords
  intro x hx
  obtain ⟨y, _, rfl⟩ := List.mem_map.mp hx
  exact Nat.mod_lt _ (Nat.two_pow_pos 64)

/-- on actual machine words the image is the input vector itself -/
theorem intoRaw_ofVecWords_of_lt (ws : List Nat) (h : ∀ x ∈ ws, x < 2 ^ 64) :
    intoRaw (ofVecWords ws) = ws := by
  rw [intoRaw_ofVecWords]
  conv => rhs; rw [← List.map_id ws]
  apply List.map_congr_left
  intro x hx
  exact Nat.mod_eq_of_lt (h x hx)

/-- **`from_raw(8·#words, words)` builds the same sequence**, provided the bit count
    `8·#words·8 = 64·#words` passes `from_raw`'s guard `n * BITS < 2^64` -/
theorem fromRaw_vecWords (c : Codec) (hc : c.width = 8) (ws : List Nat) (hg : 64 * ws.length < W64) :
    fromRaw c (8 * ws.length) ws = some (ofVecWords ws) := by
  unfold fromRaw
  simp only [bitsOfWords_length, hc]
  have e : 8 * ws.length * 8 = 64 * ws.length := by omega
  rw [e]
  simp only [hg, Nat.le_refl, and_self, if_true]
  rw [ofVecWords_eq]
  congr 1
  apply List.take_of_length_le
  rw [bitsOfWords_length]
  exact Nat.le_refl _

/-- when the guard fails `from_raw` refuses (while `From<Vec<usize>>` has no such check) -/
theorem fromRaw_vecWords_guard (c : Codec) (hc : c.width = 8) (ws : List Nat) (hg : 64 * ws.length ≥ W64) :
    fromRaw c (8 * ws.length) ws = none := by
  apply C04.fromRaw_overflow_none
  rw [hc]
  have e : 8 * ws.length * 8 = 64 * ws.length := by omega
  rw [e]; exact hg

/-- the guard is exact -/
theorem fromRaw_vecWords_iff (c : Codec) (hc : c.width = 8) (ws : List Nat) :
    fromRaw c (8 * ws.length) ws = some (ofVecWords ws) ↔ 64 * ws.length < W64 := by
  constructor
  · intro h
    apply Classical.byContradiction
    intro hn
    rw [fromRaw_vecWords_guard c hc ws (Nat.le_of_not_lt hn)] at h
    cases h
  · exact fromRaw_vecWords c hc ws

/-- full round trip: `from_raw(len, into_raw())` of the built sequence -/
theorem fromRaw_intoRaw_ofVecWords (c : Codec) (hc : c.width = 8) (ws : List Nat) (hg : 64 * ws.length < W64) :
    fromRaw c (len c (ofVecWords ws)) (intoRaw (ofVecWords ws)) = some (ofVecWords ws) :=
  C04.fromRaw_intoRaw c (ofVecWords ws) (ofVecWords_aligned c hc ws) (by rw [ofVecWords_length]; exact hg)

/-! ### non-vacuity -/

/-- the word `0x5447434154474341` holds the bytes `A C G T A C G T`, least significant first -/
example : ofVecWords [0x5447434154474341] = pack 8 [65, 67, 71, 84, 65, 67, 71, 84] := by
  decide +kernel
example : syms 8 (ofVecWords [0x5447434154474341, 0x4E])
    = [65, 67, 71, 84, 65, 67, 71, 84, 78, 0, 0, 0, 0, 0, 0, 0] := by decide +kernel
example : (ofVecWords [0x5447434154474341, 0x4E]).length = 128 := ofVecWords_length _
example : len (Gen.text .debug) (ofVecWords [0x5447434154474341, 0x4E]) = 16 :=
  ofVecWords_len _ rfl _
example : (syms 8 (ofVecWords [0x5447434154474341, 0x4E]))[3]? = some 84 := by
  rw [ofVecWords_symbol _ 3 (by decide)]; decide +kernel
example : (syms 8 (ofVecWords [0x5447434154474341, 0x4E]))[8]? = some 78 := by
  rw [ofVecWords_symbol _ 8 (by decide)]; decide +kernel
example : nth .release (Gen.text .release) (ofVecWords [0x5447434154474341, 0x4E]) 2 = .ok 71 := by
  rw [ofVecWords_nth .release _ 2 (by decide) (by decide +kernel)]; decide +kernel
example : display .debug (Gen.text .debug) (ofVecWords [0x5447434154474341])
    = .ok [65, 67, 71, 84, 65, 67, 71, 84] := by decide +kernel
example : intoRaw (ofVecWords [0x5447434154474341, 0x4E]) = [0x5447434154474341, 0x4E] :=
  intoRaw_ofVecWords_of_lt _ (by decide +kernel)
example : fromRaw (Gen.text .debug) 16 [0x5447434154474341, 0x4E] = some (ofVecWords [0x5447434154474341, 0x4E]) :=
  fromRaw_vecWords (Gen.text .debug) rfl [0x5447434154474341, 0x4E] (by decide +kernel)
/-- a model word above `2^64` is reduced, as a `usize` could not hold it -/
example : ofVecWords [2 ^ 64 + 65] = ofVecWords [65] ∧ intoRaw (ofVecWords [2 ^ 64 + 65]) = [65] := by
  decide +kernel
example : ofVecWords [] = [] ∧ fromRaw (Gen.text .debug) 0 [] = some [] := by decide +kernel

end C04Words
end BioSeq
