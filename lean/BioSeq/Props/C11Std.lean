/-
  C11Std — the std *default* `Iterator` methods, driven over the crate's iterators, behave like a
  cursor over the list that `collect` yields.

  Model: `BioSeq/IterStd.lean` (`nthD`, `advance`, `advanceBy`, `foldD`, `countD`, `lastD`,
  `skipNext` / `takeNext` / `stepByNext` and their `…Collect`, all defined through `next` exactly as
  library/core defines them).  The Rust crate does not override any of these methods for
  `SeqIter`, `RevIter`, `SeqChunks`, `KmerIter`, so the defaults are what runs.

  Part 1 is generic in the step function `next`, under `Fused next μ Inv`
  (`μ` strictly decreases on every `some` step from an `Inv` state; `Inv` is preserved).
  With `l := toList next μ s = collect next (μ s + 1) s`:
    every fuel `≥ μ s` (in particular `≥ μ s + 1`) collects `l`; `nth n` returns `l[n]?` and leaves
    `l.drop (n+1)`; `count = l.length`; `last = l.getLast?`; `fold f init = l.foldl f init`;
    `skip n` collects `l.drop n`; `take n` collects `l.take n`; `step_by k` collects the items at
    `0, k, 2k, …`.  `Cursor next μ Inv B s l` ("state `s` stands in front of `l`") is preserved by
    every by-reference call, which is the composition statement: after any sequence of `next` /
    `nth` / `advance_by` calls (`runCmds`), outputs and remaining list are those of the list
    specification `specCmds`, and every consuming method then acts on the remaining list.

  Part 2 instantiates this for the five iterators of the model, with explicit measures:
    `seqIterNext`  μ i = len - i          `revIterNext`  μ i = i
    `chunksNext`   μ s = len + 1 - s.index, Inv s = 1 ≤ s.skip   (windows: skip = 1; chunks: skip = w ≥ 1)
    `Kmer.iterNext` μ i = len + 1 - i
  `chunksNext` with `skip = 0` (i.e. `chunks(0)`) does not terminate (`C11.chunks_zero_width`);
  hence the `1 ≤ w` hypothesis of the `chunks_*` theorems.

  Fuel.  `foldD` / `countD` / `lastD` / `…Collect` are fuel bounded; the theorems hold for *every*
  fuel `≥` the stated bound, i.e. the answer is the one of the unbounded Rust loop.
-/
import BioSeq.Props.C08
import BioSeq.Props.C11
import BioSeq.Lemmas.IterStdLemmas
namespace BioSeq
namespace C11Std
open BioSeq.Seq BioSeq.Iter BioSeq.IterStdL

variable {σ α β : Type}

/-! ## Part 1: generic theorems -/

section generic
variable {next : σ → Option (α × σ)} {μ : σ → Nat} {Inv : σ → Prop}

theorem toList_def (next : σ → Option (α × σ)) (μ : σ → Nat) (s : σ) :
    toList next μ s = collect next (μ s + 1) s := rfl

/-- a decreasing measure (and preserved invariant) is all that `Fused` asks for: the "stuck at
    `none`" component holds for every step function of this model -/
theorem fused_of_decr
    (inv : ∀ s x s', Inv s → next s = some (x, s') → Inv s')
    (decr : ∀ s x s', Inv s → next s = some (x, s') → μ s' < μ s) : Fused next μ Inv :=
  Fused.of_decr inv decr

/-- any fuel `≥ μ s` (so certainly any fuel `≥ μ s + 1`) gives the same list -/
theorem collect_fuel_irrelevant (h : Fused next μ Inv) (s : σ) (hs : Inv s) (fuel : Nat)
    (hf : μ s ≤ fuel) : collect next fuel s = collect next (μ s + 1) s :=
  collect_eq_toList h hs hf

/-- the form asked for in the brief: fuel `≥ μ s + 1` -/
theorem collect_fuel_irrelevant' (h : Fused next μ Inv) (s : σ) (hs : Inv s) (fuel : Nat)
    (hf : μ s + 1 ≤ fuel) : collect next fuel s = collect next (μ s + 1) s :=
  collect_eq_toList h hs (by omega)

/-- `next` is `head?` / `tail` -/
theorem next_spec (h : Fused next μ Inv) (s : σ) (hs : Inv s) :
    (next s).map Prod.fst = (toList next μ s).head? ∧
      (∀ x s', next s = some (x, s') → toList next μ s' = (toList next μ s).drop 1) ∧
      (next s = none ↔ toList next μ s = []) := by
  refine ⟨?_, ?_, (toList_eq_nil_iff next μ s).symm⟩
  · cases hn : next s with
    | none => rw [toList_none next μ hn]; rfl
    | some xs => obtain ⟨x, s'⟩ := xs; rw [toList_some h hs hn]; rfl
  · intro x s' hn; rw [toList_some h hs hn]; rfl

/-- `nth(n)` returns item `n` of the list and leaves the items after it -/
theorem nthD_spec (h : Fused next μ Inv) (n : Nat) (s : σ) (hs : Inv s) :
    (nthD next n s).1 = (toList next μ s)[n]? ∧
      ∀ fuel', μ (nthD next n s).2 ≤ fuel' →
        collect next fuel' (nthD next n s).2 = (toList next μ s).drop (n + 1) := by
  obtain ⟨i1, i2, i3, _, _⟩ := nthD_full h n s hs
  exact ⟨i1, fun fuel' hf => by rw [collect_eq_toList h i3 hf, i2]⟩

/-- the state `nth` leaves is again an `Inv` state, of no larger measure (so the caller's fuel
    still suffices), of strictly smaller measure if an item was returned -/
theorem nthD_state (h : Fused next μ Inv) (n : Nat) (s : σ) (hs : Inv s) :
    Inv (nthD next n s).2 ∧ μ (nthD next n s).2 ≤ μ s ∧
      ((nthD next n s).1 ≠ none → μ (nthD next n s).2 < μ s) := by
  obtain ⟨_, _, i3, i4, i5⟩ := nthD_full h n s hs
  exact ⟨i3, i4, i5⟩

/-- `nthD` is std's `advance_by(n).ok()?; next()` -/
theorem nthD_is_std (next : σ → Option (α × σ)) (n : Nat) (s : σ) :
    nthStd next n s = nthD next n s := nthStd_eq_nthD next n s

/-- `advance` (= `n` calls of `next`): the remaining list is `drop n` -/
theorem advance_spec (h : Fused next μ Inv) (m : Nat) (s : σ) (hs : Inv s) :
    toList next μ (advance next m s) = (toList next μ s).drop m ∧
      Inv (advance next m s) ∧ μ (advance next m s) ≤ μ s :=
  IterStdL.advance_spec h m s hs

/-- `advance_by(n)`: `Ok` iff `n` items remain; the state is `advance n` -/
theorem advanceBy_spec (h : Fused next μ Inv) (n : Nat) (s : σ) (hs : Inv s) :
    (advanceBy next n s).1 = decide (n ≤ (toList next μ s).length) ∧
      (advanceBy next n s).2 = advance next n s :=
  ⟨advanceBy_ok h n s hs, advanceBy_state next n s⟩

theorem foldD_spec (h : Fused next μ Inv) (s : σ) (hs : Inv s) (fuel : Nat) (hf : μ s ≤ fuel)
    (f : β → α → β) (init : β) :
    foldD next fuel f init s = (toList next μ s).foldl f init :=
  foldD_from h fuel f init s hs hf

theorem countD_spec (h : Fused next μ Inv) (s : σ) (hs : Inv s) (fuel : Nat) (hf : μ s ≤ fuel) :
    countD next fuel s = (toList next μ s).length := by
  unfold countD
  rw [foldD_from h fuel _ 0 s hs hf, foldl_count, Nat.zero_add]

theorem lastD_spec (h : Fused next μ Inv) (s : σ) (hs : Inv s) (fuel : Nat) (hf : μ s ≤ fuel) :
    lastD next fuel s = (toList next μ s).getLast? := by
  unfold lastD
  rw [foldD_from h fuel _ none s hs hf, foldl_last]
  simp

theorem skip_spec (h : Fused next μ Inv) (s : σ) (hs : Inv s) (fuel : Nat) (hf : μ s ≤ fuel)
    (n : Nat) : skipCollect next fuel n s = (toList next μ s).drop n :=
  skip_from h fuel n s hs hf

theorem take_spec (h : Fused next μ Inv) (s : σ) (hs : Inv s) (fuel : Nat) (hf : μ s ≤ fuel)
    (n : Nat) : takeCollect next fuel n s = (toList next μ s).take n :=
  take_from h fuel n s hs hf

/-- item `j` of `everyNth k l` is item `j * k` of `l` -/
theorem everyNth_getElem? (k : Nat) (hk : 1 ≤ k) (l : List α) (j : Nat) :
    (everyNth k l)[j]? = l[j * k]? := by
  unfold everyNth
  rw [everyNthAux_getElem? k hk 0 l j, Nat.zero_add]

theorem everyNth_length (k : Nat) (hk : 1 ≤ k) (l : List α) :
    (everyNth k l).length = (l.length + k - 1) / k :=
  length_of_stride _ l k hk (everyNth_getElem? k hk l)

/-- `everyNth k l` written out: the items `l[0], l[k], l[2k], …`, `⌈|l| / k⌉` of them -/
theorem everyNth_eq_range (k : Nat) (hk : 1 ≤ k) (l : List α) :
    (everyNth k l).map some = (List.range ((l.length + k - 1) / k)).map (fun j => l[j * k]?) := by
  apply List.ext_getElem?
  intro j
  rw [List.getElem?_map, List.getElem?_map, everyNth_getElem? k hk]
  by_cases hj : j < (l.length + k - 1) / k
  · have hlt : j * k < l.length := by
      have h1 : (j + 1) * k ≤ l.length + k - 1 :=
        (Nat.le_div_iff_mul_le (show 0 < k by omega)).mp hj
      rw [Nat.succ_mul] at h1; omega
    simp only [List.getElem?_range hj, Option.map_some]
    rw [List.getElem?_eq_getElem hlt]; rfl
  · have hge : l.length ≤ j * k := by
      have h1 : l.length + k - 1 < (j + 1) * k :=
        (Nat.div_lt_iff_lt_mul (show 0 < k by omega)).mp (by omega)
      rw [Nat.succ_mul] at h1; omega
    rw [List.getElem?_eq_none hge,
      List.getElem?_eq_none (show (List.range ((l.length + k - 1) / k)).length ≤ j by
        rw [List.length_range]; omega)]
    rfl

/-- `step_by(k)` (`k ≥ 1`) yields the items at indices `0, k, 2k, …`: pointwise form -/
theorem stepBy_spec (h : Fused next μ Inv) (s : σ) (hs : Inv s) (fuel : Nat) (hf : μ s ≤ fuel)
    (k : Nat) (hk : 1 ≤ k) (j : Nat) :
    (stepByCollect next fuel k s)[j]? = (toList next μ s)[j * k]? :=
  stepBy_from h k hk fuel s hs hf j

/-- … list form -/
theorem stepBy_eq_everyNth (h : Fused next μ Inv) (s : σ) (hs : Inv s) (fuel : Nat)
    (hf : μ s ≤ fuel) (k : Nat) (hk : 1 ≤ k) :
    stepByCollect next fuel k s = everyNth k (toList next μ s) := by
  apply List.ext_getElem?
  intro j
  rw [stepBy_from h k hk fuel s hs hf j, everyNth_getElem? k hk]

/-- … and there are `⌈|l| / k⌉` of them -/
theorem stepBy_length (h : Fused next μ Inv) (s : σ) (hs : Inv s) (fuel : Nat) (hf : μ s ≤ fuel)
    (k : Nat) (hk : 1 ≤ k) :
    (stepByCollect next fuel k s).length = ((toList next μ s).length + k - 1) / k :=
  length_of_stride _ _ k hk (stepBy_from h k hk fuel s hs hf)

/-! ### exhaustion -/

/-- the list has at most `μ s` items -/
theorem toList_length_le (h : Fused next μ Inv) (s : σ) (hs : Inv s) :
    (toList next μ s).length ≤ μ s := toList_length_le_measure h hs

/-- after all items have been taken (by any number `m ≥ |l|` of `next` calls) `next` returns
    `none`, the state no longer moves, and every method sees an empty iterator -/
theorem exhausted (h : Fused next μ Inv) (s : σ) (hs : Inv s) (m : Nat)
    (hm : (toList next μ s).length ≤ m) :
    next (advance next m s) = none ∧
      (∀ k, advance next (m + k) s = advance next m s) ∧
      (∀ n, nthD next n (advance next m s) = (none, advance next m s)) ∧
      (∀ fuel, collect next fuel (advance next m s) = []) := by
  have hn : next (advance next m s) = none := by
    rw [← toList_eq_nil_iff next μ, (IterStdL.advance_spec h m s hs).1]
    exact List.drop_eq_nil_of_le hm
  refine ⟨hn, fun k => ?_, fun n => nthD_none next hn n, fun fuel => C11L.collect_none next fuel _ hn⟩
  rw [← advance_add, advance_none next hn]

/-- `nth` beyond the end returns `none` -/
theorem nthD_beyond (h : Fused next μ Inv) (s : σ) (hs : Inv s) (n : Nat)
    (hn : (toList next μ s).length ≤ n) : (nthD next n s).1 = none := by
  rw [(nthD_spec h n s hs).1, List.getElem?_eq_none hn]

/-! ### composition: an iterator that has already yielded `m` items is a cursor over `l.drop m` -/

theorem collect_after (h : Fused next μ Inv) (s : σ) (hs : Inv s) (m fuel : Nat) (hf : μ s ≤ fuel) :
    collect next fuel (advance next m s) = (toList next μ s).drop m := by
  obtain ⟨a1, a2, a3⟩ := IterStdL.advance_spec h m s hs
  rw [collect_eq_toList h a2 (by omega), a1]

theorem nthD_after (h : Fused next μ Inv) (s : σ) (hs : Inv s) (m n : Nat) :
    (nthD next n (advance next m s)).1 = ((toList next μ s).drop m)[n]? ∧
      ∀ fuel', μ s ≤ fuel' →
        collect next fuel' (nthD next n (advance next m s)).2 = ((toList next μ s).drop m).drop (n + 1) := by
  obtain ⟨a1, a2, a3⟩ := IterStdL.advance_spec h m s hs
  obtain ⟨i1, i2, i3, i4, _⟩ := nthD_full h n _ a2
  rw [a1] at i1 i2
  exact ⟨i1, fun fuel' hf => by rw [collect_eq_toList h i3 (by omega), i2]⟩

theorem countD_after (h : Fused next μ Inv) (s : σ) (hs : Inv s) (m fuel : Nat) (hf : μ s ≤ fuel) :
    countD next fuel (advance next m s) = ((toList next μ s).drop m).length := by
  obtain ⟨a1, a2, a3⟩ := IterStdL.advance_spec h m s hs
  rw [countD_spec h _ a2 fuel (by omega), a1]

theorem lastD_after (h : Fused next μ Inv) (s : σ) (hs : Inv s) (m fuel : Nat) (hf : μ s ≤ fuel) :
    lastD next fuel (advance next m s) = ((toList next μ s).drop m).getLast? := by
  obtain ⟨a1, a2, a3⟩ := IterStdL.advance_spec h m s hs
  rw [lastD_spec h _ a2 fuel (by omega), a1]

theorem foldD_after (h : Fused next μ Inv) (s : σ) (hs : Inv s) (m fuel : Nat) (hf : μ s ≤ fuel)
    (f : β → α → β) (init : β) :
    foldD next fuel f init (advance next m s) = ((toList next μ s).drop m).foldl f init := by
  obtain ⟨a1, a2, a3⟩ := IterStdL.advance_spec h m s hs
  rw [foldD_spec h _ a2 fuel (by omega), a1]

theorem skip_after (h : Fused next μ Inv) (s : σ) (hs : Inv s) (m fuel : Nat) (hf : μ s ≤ fuel)
    (n : Nat) : skipCollect next fuel n (advance next m s) = ((toList next μ s).drop m).drop n := by
  obtain ⟨a1, a2, a3⟩ := IterStdL.advance_spec h m s hs
  rw [skip_spec h _ a2 fuel (by omega), a1]

theorem take_after (h : Fused next μ Inv) (s : σ) (hs : Inv s) (m fuel : Nat) (hf : μ s ≤ fuel)
    (n : Nat) : takeCollect next fuel n (advance next m s) = ((toList next μ s).drop m).take n := by
  obtain ⟨a1, a2, a3⟩ := IterStdL.advance_spec h m s hs
  rw [take_spec h _ a2 fuel (by omega), a1]

theorem stepBy_after (h : Fused next μ Inv) (s : σ) (hs : Inv s) (m fuel : Nat) (hf : μ s ≤ fuel)
    (k : Nat) (hk : 1 ≤ k) :
    stepByCollect next fuel k (advance next m s) = everyNth k ((toList next μ s).drop m) := by
  obtain ⟨a1, a2, a3⟩ := IterStdL.advance_spec h m s hs
  rw [stepBy_eq_everyNth h _ a2 fuel (by omega) k hk, a1]

/-! ### the same, packaged as a refinement relation (`Cursor`) -/

theorem _root_.BioSeq.Iter.Cursor.of_fused (h : Fused next μ Inv) (s : σ) (hs : Inv s) :
    Cursor next μ Inv (μ s) s (toList next μ s) := ⟨h, hs, Nat.le_refl _, rfl⟩

theorem _root_.BioSeq.Iter.Cursor.mono {B B' : Nat} {s : σ} {l : List α} (c : Cursor next μ Inv B s l) (hB : B ≤ B') :
    Cursor next μ Inv B' s l := ⟨c.fused, c.inv, Nat.le_trans c.bound hB, c.list⟩

section cursor
variable {B : Nat} {s : σ} {l : List α}

/-- `collect` with any fuel `≥ B` yields the cursor's list -/
theorem _root_.BioSeq.Iter.Cursor.collect (c : Cursor next μ Inv B s l) (fuel : Nat) (hf : B ≤ fuel) :
    collect next fuel s = l := by
  rw [collect_eq_toList c.fused c.inv (Nat.le_trans c.bound hf), c.list]

theorem _root_.BioSeq.Iter.Cursor.length_le (c : Cursor next μ Inv B s l) : l.length ≤ B := by
  have := toList_length_le_measure c.fused c.inv
  rw [c.list] at this
  exact Nat.le_trans this c.bound

/-- `next()`: returns `l.head?`; the cursor moves to `l.drop 1` -/
theorem _root_.BioSeq.Iter.Cursor.step (c : Cursor next μ Inv B s l) :
    (next s).map Prod.fst = l.head? ∧
      (next s = none ↔ l = []) ∧
      ∀ x s', next s = some (x, s') → Cursor next μ Inv B s' (l.drop 1) := by
  obtain ⟨n1, n2, n3⟩ := next_spec c.fused s c.inv
  rw [c.list] at n1 n2 n3
  refine ⟨n1, n3, fun x s' hn => ⟨c.fused, c.fused.inv s x s' c.inv hn, ?_, n2 x s' hn⟩⟩
  have := c.fused.decr s x s' c.inv hn
  have := c.bound
  omega

/-- `nth(n)`: returns `l[n]?`; the cursor moves to `l.drop (n + 1)` -/
theorem _root_.BioSeq.Iter.Cursor.nth (c : Cursor next μ Inv B s l) (n : Nat) :
    (nthD next n s).1 = l[n]? ∧ Cursor next μ Inv B (nthD next n s).2 (l.drop (n + 1)) := by
  obtain ⟨i1, i2, i3, i4, _⟩ := nthD_full c.fused n s c.inv
  rw [c.list] at i1 i2
  exact ⟨i1, c.fused, i3, Nat.le_trans i4 c.bound, i2⟩

/-- `m` calls of `next`: the cursor moves to `l.drop m` -/
theorem _root_.BioSeq.Iter.Cursor.advance (c : Cursor next μ Inv B s l) (m : Nat) :
    Cursor next μ Inv B (advance next m s) (l.drop m) := by
  obtain ⟨a1, a2, a3⟩ := IterStdL.advance_spec c.fused m s c.inv
  rw [c.list] at a1
  exact ⟨c.fused, a2, Nat.le_trans a3 c.bound, a1⟩

/-- `advance_by(n)`: `Ok` iff `n ≤ |l|`; the cursor moves to `l.drop n` -/
theorem _root_.BioSeq.Iter.Cursor.advanceBy (c : Cursor next μ Inv B s l) (n : Nat) :
    (advanceBy next n s).1 = decide (n ≤ l.length) ∧
      Cursor next μ Inv B (advanceBy next n s).2 (l.drop n) := by
  have h1 := advanceBy_ok c.fused n s c.inv
  rw [c.list] at h1
  rw [advanceBy_state]
  exact ⟨h1, c.advance n⟩

theorem _root_.BioSeq.Iter.Cursor.count (c : Cursor next μ Inv B s l) (fuel : Nat) (hf : B ≤ fuel) :
    countD next fuel s = l.length := by
  rw [countD_spec c.fused s c.inv fuel (Nat.le_trans c.bound hf), c.list]

theorem _root_.BioSeq.Iter.Cursor.last (c : Cursor next μ Inv B s l) (fuel : Nat) (hf : B ≤ fuel) :
    lastD next fuel s = l.getLast? := by
  rw [lastD_spec c.fused s c.inv fuel (Nat.le_trans c.bound hf), c.list]

theorem _root_.BioSeq.Iter.Cursor.fold (c : Cursor next μ Inv B s l) (fuel : Nat) (hf : B ≤ fuel)
    (f : β → α → β) (init : β) : foldD next fuel f init s = l.foldl f init := by
  rw [foldD_spec c.fused s c.inv fuel (Nat.le_trans c.bound hf), c.list]

theorem _root_.BioSeq.Iter.Cursor.skip (c : Cursor next μ Inv B s l) (fuel : Nat) (hf : B ≤ fuel) (n : Nat) :
    skipCollect next fuel n s = l.drop n := by
  rw [skip_spec c.fused s c.inv fuel (Nat.le_trans c.bound hf), c.list]

theorem _root_.BioSeq.Iter.Cursor.take (c : Cursor next μ Inv B s l) (fuel : Nat) (hf : B ≤ fuel) (n : Nat) :
    takeCollect next fuel n s = l.take n := by
  rw [take_spec c.fused s c.inv fuel (Nat.le_trans c.bound hf), c.list]

theorem _root_.BioSeq.Iter.Cursor.stepBy (c : Cursor next μ Inv B s l) (fuel : Nat) (hf : B ≤ fuel) (k : Nat)
    (hk : 1 ≤ k) : stepByCollect next fuel k s = everyNth k l := by
  rw [stepBy_eq_everyNth c.fused s c.inv fuel (Nat.le_trans c.bound hf) k hk, c.list]

/-- fusedness: once `|l|` or more items have been requested, `next` keeps returning `none` and
    the state is a fixpoint -/
theorem _root_.BioSeq.Iter.Cursor.exhausted (c : Cursor next μ Inv B s l) (m : Nat) (hm : l.length ≤ m) :
    next (Iter.advance next m s) = none ∧
      (∀ k, Iter.advance next (m + k) s = Iter.advance next m s) ∧
      (∀ n, nthD next n (Iter.advance next m s) = (none, Iter.advance next m s)) := by
  have hm' : (toList next μ s).length ≤ m := by rw [c.list]; exact hm
  obtain ⟨e1, e2, e3, _⟩ := C11Std.exhausted c.fused s c.inv m hm'
  exact ⟨e1, e2, e3⟩

/-- one by-reference call refines the list specification -/
theorem _root_.BioSeq.Iter.Cursor.runCmd (c : Cursor next μ Inv B s l) (cmd : Cmd) :
    (runCmd next cmd s).1 = (specCmd cmd l).1 ∧
      Cursor next μ Inv B (runCmd next cmd s).2 (specCmd cmd l).2 := by
  cases cmd with
  | next =>
    have hr : Iter.runCmd next Cmd.next s = (Out.item (nthD next 0 s).1, (nthD next 0 s).2) := by
      cases hn : next s with
      | none => simp only [Iter.runCmd, hn, nthD_none next hn]
      | some xs => obtain ⟨x, s'⟩ := xs; simp only [Iter.runCmd, hn, nthD_zero_some next hn]
    obtain ⟨i1, i2⟩ := c.nth 0
    rw [hr]
    simp only [specCmd, List.head?_eq_getElem?]
    exact ⟨by rw [i1], i2⟩
  | nth n =>
    obtain ⟨i1, i2⟩ := c.nth n
    simp only [Iter.runCmd, specCmd]
    exact ⟨by rw [i1], i2⟩
  | advanceBy n =>
    obtain ⟨i1, i2⟩ := c.advanceBy n
    simp only [Iter.runCmd, specCmd]
    exact ⟨by rw [i1], i2⟩

/-- **refinement**: any sequence of `next` / `nth` / `advance_by` calls on the iterator returns
    what the same calls return on the list, and leaves a cursor over the list the specification
    leaves; all consuming methods (`Cursor.count`, `.last`, `.fold`, `.collect`, `.skip`, `.take`,
    `.stepBy`) then apply to that cursor -/
theorem _root_.BioSeq.Iter.Cursor.runCmds (c : Cursor next μ Inv B s l) (cmds : List Cmd) :
    (runCmds next cmds s).1 = (specCmds cmds l).1 ∧
      Cursor next μ Inv B (runCmds next cmds s).2 (specCmds cmds l).2 := by
  induction cmds generalizing s l with
  | nil => exact ⟨rfl, c⟩
  | cons cmd cmds ih =>
    obtain ⟨r1, r2⟩ := c.runCmd cmd
    obtain ⟨j1, j2⟩ := ih r2
    simp only [Iter.runCmds, specCmds]
    exact ⟨by rw [r1, j1], j2⟩

/-! ### adapters are cursors again (so `it.skip(a).step_by(k).nth(n)` … is covered) -/

theorem skip_fused (h : Fused next μ Inv) :
    Fused (skipNext next) (fun q => μ q.2) (fun q => Inv q.2) :=
  Fused.of_decr
    (fun q _ _ hq hn => (skipNext_some h (n := q.1) (s := q.2) hq hn).1)
    (fun q _ _ hq hn => (skipNext_some h (n := q.1) (s := q.2) hq hn).2)

theorem take_fused (h : Fused next μ Inv) :
    Fused (takeNext next) (fun q => μ q.2) (fun q => Inv q.2) :=
  Fused.of_decr
    (fun q _ _ hq hn => (takeNext_some h (n := q.1) (s := q.2) hq hn).1)
    (fun q _ _ hq hn => (takeNext_some h (n := q.1) (s := q.2) hq hn).2)

theorem stepBy_fused (h : Fused next μ Inv) (k : Nat) :
    Fused (stepByNext next k) (fun q => μ q.2) (fun q => Inv q.2) :=
  Fused.of_decr
    (fun q _ _ hq hn => (stepByNext_some h k (b := q.1) (s := q.2) hq hn).1)
    (fun q _ _ hq hn => (stepByNext_some h k (b := q.1) (s := q.2) hq hn).2)

theorem _root_.BioSeq.Iter.Cursor.skipAdapter (c : Cursor next μ Inv B s l) (n : Nat) :
    Cursor (skipNext next) (fun q => μ q.2) (fun q => Inv q.2) B (n, s) (l.drop n) :=
  ⟨skip_fused c.fused, c.inv, c.bound, by
    have := skip_spec c.fused s c.inv (μ s + 1) (by omega) n
    rw [c.list] at this
    exact this⟩

theorem _root_.BioSeq.Iter.Cursor.takeAdapter (c : Cursor next μ Inv B s l) (n : Nat) :
    Cursor (takeNext next) (fun q => μ q.2) (fun q => Inv q.2) B (n, s) (l.take n) :=
  ⟨take_fused c.fused, c.inv, c.bound, by
    have := take_spec c.fused s c.inv (μ s + 1) (by omega) n
    rw [c.list] at this
    exact this⟩

theorem _root_.BioSeq.Iter.Cursor.stepByAdapter (c : Cursor next μ Inv B s l) (k : Nat) (hk : 1 ≤ k) :
    Cursor (stepByNext next k) (fun q => μ q.2) (fun q => Inv q.2) B (true, s) (everyNth k l) :=
  ⟨stepBy_fused c.fused k, c.inv, c.bound, by
    have := stepBy_eq_everyNth c.fused s c.inv (μ s + 1) (by omega) k hk
    rw [c.list] at this
    exact this⟩

end cursor
end generic

/-! ## Part 2: the five iterators of the crate -/

/-! ### measures and fusedness -/

/-- `SeqIter`: state = index, `μ i = len - i` -/
theorem seqIterNext_fused (p : Profile) (c : Codec) (bs : Bits) :
    Fused (seqIterNext p c bs) (fun i => len c bs - i) :=
  Fused.of_decr (fun _ _ _ _ _ => trivial) (fun i x i' _ hn => by
    unfold seqIterNext at hn
    split at hn
    · exact absurd hn (by simp)
    · simp only [Option.some.injEq, Prod.mk.injEq] at hn
      omega)

/-- `RevIter`: state = index (counting down), `μ i = i` -/
theorem revIterNext_fused (p : Profile) (c : Codec) (bs : Bits) :
    Fused (revIterNext p c bs) (fun i => i) :=
  Fused.of_decr (fun _ _ _ _ _ => trivial) (fun i x i' _ hn => by
    unfold revIterNext at hn
    split at hn
    · exact absurd hn (by simp)
    · simp only [Option.some.injEq, Prod.mk.injEq] at hn
      omega)

/-- `SeqChunks` (windows and chunks): state = `Chunks`, `μ s = len + 1 - s.index`, on the states
    with `1 ≤ skip`.  (With `skip = 0` the index never moves: no measure exists.) -/
theorem chunksNext_fused (p : Profile) (c : Codec) (bs : Bits) :
    Fused (chunksNext p c bs) (fun s => len c bs + 1 - s.index) (fun s => 1 ≤ s.skip) :=
  Fused.of_decr
    (fun s x s' hs hn => by
      unfold chunksNext at hn
      split at hn
      · exact absurd hn (by simp)
      · simp only at hn
        split at hn
        · exact absurd hn (by simp)
        · simp only [Option.some.injEq, Prod.mk.injEq] at hn
          obtain ⟨_, rfl⟩ := hn
          exact hs)
    (fun s x s' hs hn => by
      unfold chunksNext at hn
      split at hn
      · exact absurd hn (by simp)
      · simp only at hn
        split at hn
        · exact absurd hn (by simp)
        · simp only [Option.some.injEq, Prod.mk.injEq] at hn
          obtain ⟨_, rfl⟩ := hn
          simp only
          omega)

/-- `KmerIter`: state = index, `μ i = len + 1 - i` (also right for `K = 0`) -/
theorem kmerIterNext_fused (p : Profile) (c : Codec) (K : Nat) (bs : Bits) (n : Nat) :
    Fused (Kmer.iterNext p c K bs n) (fun i => n + 1 - i) :=
  Fused.of_decr (fun _ _ _ _ _ => trivial) (fun i x i' _ hn => by
    unfold Kmer.iterNext at hn
    split at hn
    · exact absurd hn (by simp)
    · simp only [Option.some.injEq, Prod.mk.injEq] at hn
      omega)

/-- `Kmer.iterCollect` is `Iter.collect` of `Kmer.iterNext` -/
theorem iterCollect_eq_collect (p : Profile) (c : Codec) (K : Nat) (bs : Bits) (n fuel i : Nat) :
    Kmer.iterCollect p c K bs n fuel i = collect (Kmer.iterNext p c K bs n) fuel i := by
  induction fuel generalizing i with
  | zero => rfl
  | succ fuel ih =>
    unfold Kmer.iterCollect Iter.collect
    cases Kmer.iterNext p c K bs n i with
    | none => rfl
    | some xs => obtain ⟨x, i'⟩ := xs; simp only [ih]

/-! ### the cursors: each iterator, in its initial state, stands in front of what `collect` yields -/

theorem iter_cursor (p : Profile) (c : Codec) (bs : Bits) :
    Cursor (seqIterNext p c bs) (fun i => len c bs - i) (fun _ => True) (len c bs + 1) 0
      (Iter.iter p c bs) :=
  ⟨seqIterNext_fused p c bs, trivial, by omega, rfl⟩

theorem revIter_cursor (p : Profile) (c : Codec) (bs : Bits) :
    Cursor (revIterNext p c bs) (fun i => i) (fun _ => True) (len c bs + 1) (len c bs)
      (Iter.revIter p c bs) :=
  ⟨revIterNext_fused p c bs, trivial, by omega, rfl⟩

theorem windows_cursor (p : Profile) (c : Codec) (bs : Bits) (w : Nat) :
    Cursor (chunksNext p c bs) (fun s => len c bs + 1 - s.index) (fun s => 1 ≤ s.skip)
      (len c bs + 1) ⟨w, 1, 0⟩ (Iter.windows p c bs w) :=
  ⟨chunksNext_fused p c bs, Nat.le_refl 1, by simp,
    (collect_eq_toList (chunksNext_fused p c bs) (s := ⟨w, 1, 0⟩) (Nat.le_refl 1) (by simp)).symm⟩

theorem chunks_cursor (p : Profile) (c : Codec) (bs : Bits) (w : Nat) (hw : 1 ≤ w) :
    Cursor (chunksNext p c bs) (fun s => len c bs + 1 - s.index) (fun s => 1 ≤ s.skip)
      (len c bs + 1) ⟨w, w, 0⟩ (Iter.chunks p c bs w) :=
  ⟨chunksNext_fused p c bs, hw, by simp,
    (collect_eq_toList (chunksNext_fused p c bs) (s := ⟨w, w, 0⟩) hw (by simp)).symm⟩

theorem kmers_cursor (p : Profile) (c : Codec) (K : Nat) (bs : Bits) :
    Cursor (Kmer.iterNext p c K bs (len c bs)) (fun i => len c bs + 1 - i) (fun _ => True)
      (len c bs + 1) 0 (Kmer.kmers p c K bs) :=
  ⟨kmerIterNext_fused p c K bs (len c bs), trivial, by omega, by
    unfold Kmer.kmers
    rw [iterCollect_eq_collect]
    exact (collect_eq_toList (kmerIterNext_fused p c K bs (len c bs)) (s := 0) trivial (by omega)).symm⟩

/-! ### end-to-end corollaries: `SeqIter` (`iter()` / `into_iter()`) -/

section seqIter
variable (p : Profile) (c : Codec) (bs : Bits)

theorem iter_fuel (fuel : Nat) (hf : len c bs + 1 ≤ fuel) :
    collect (seqIterNext p c bs) fuel 0 = Iter.iter p c bs := (iter_cursor p c bs).collect fuel hf

theorem iter_nth (n : Nat) : (nthD (seqIterNext p c bs) n 0).1 = (Iter.iter p c bs)[n]? :=
  ((iter_cursor p c bs).nth n).1

theorem iter_nth_rest (n fuel : Nat) (hf : len c bs + 1 ≤ fuel) :
    collect (seqIterNext p c bs) fuel (nthD (seqIterNext p c bs) n 0).2
      = (Iter.iter p c bs).drop (n + 1) := ((iter_cursor p c bs).nth n).2.collect fuel hf

theorem iter_count (fuel : Nat) (hf : len c bs + 1 ≤ fuel) :
    countD (seqIterNext p c bs) fuel 0 = (Iter.iter p c bs).length := (iter_cursor p c bs).count fuel hf

theorem iter_last (fuel : Nat) (hf : len c bs + 1 ≤ fuel) :
    lastD (seqIterNext p c bs) fuel 0 = (Iter.iter p c bs).getLast? := (iter_cursor p c bs).last fuel hf

theorem iter_fold (fuel : Nat) (hf : len c bs + 1 ≤ fuel) (f : β → Res Nat → β) (init : β) :
    foldD (seqIterNext p c bs) fuel f init 0 = (Iter.iter p c bs).foldl f init :=
  (iter_cursor p c bs).fold fuel hf f init

theorem iter_skip (fuel : Nat) (hf : len c bs + 1 ≤ fuel) (n : Nat) :
    skipCollect (seqIterNext p c bs) fuel n 0 = (Iter.iter p c bs).drop n :=
  (iter_cursor p c bs).skip fuel hf n

theorem iter_take (fuel : Nat) (hf : len c bs + 1 ≤ fuel) (n : Nat) :
    takeCollect (seqIterNext p c bs) fuel n 0 = (Iter.iter p c bs).take n :=
  (iter_cursor p c bs).take fuel hf n

theorem iter_stepBy (fuel : Nat) (hf : len c bs + 1 ≤ fuel) (k : Nat) (hk : 1 ≤ k) :
    stepByCollect (seqIterNext p c bs) fuel k 0 = everyNth k (Iter.iter p c bs) :=
  (iter_cursor p c bs).stepBy fuel hf k hk

/-- already advanced: after `m` calls of `next`, a cursor over `drop m` -/
theorem iter_after (m : Nat) :
    Cursor (seqIterNext p c bs) (fun i => len c bs - i) (fun _ => True) (len c bs + 1)
      (advance (seqIterNext p c bs) m 0) ((Iter.iter p c bs).drop m) := (iter_cursor p c bs).advance m

theorem iter_nth_after (m n : Nat) :
    (nthD (seqIterNext p c bs) n (advance (seqIterNext p c bs) m 0)).1
      = ((Iter.iter p c bs).drop m)[n]? := ((iter_after p c bs m).nth n).1

theorem iter_count_after (m fuel : Nat) (hf : len c bs + 1 ≤ fuel) :
    countD (seqIterNext p c bs) fuel (advance (seqIterNext p c bs) m 0)
      = (Iter.iter p c bs).length - m := by
  rw [(iter_after p c bs m).count fuel hf, List.length_drop]

/-- any sequence of by-reference calls -/
theorem iter_run (cmds : List Cmd) :
    (runCmds (seqIterNext p c bs) cmds 0).1 = (specCmds cmds (Iter.iter p c bs)).1 :=
  ((iter_cursor p c bs).runCmds cmds).1

/-- fused: after the last item `next` keeps returning `None` and the state stays put -/
theorem iter_fused (m : Nat) (hm : (Iter.iter p c bs).length ≤ m) :
    seqIterNext p c bs (advance (seqIterNext p c bs) m 0) = none ∧
      ∀ k, advance (seqIterNext p c bs) (m + k) 0 = advance (seqIterNext p c bs) m 0 :=
  let e := (iter_cursor p c bs).exhausted m hm; ⟨e.1, e.2.1⟩

end seqIter

/-! ### `RevIter` (`rev_iter()`) -/

section revIter
variable (p : Profile) (c : Codec) (bs : Bits)

theorem revIter_fuel (fuel : Nat) (hf : len c bs + 1 ≤ fuel) :
    collect (revIterNext p c bs) fuel (len c bs) = Iter.revIter p c bs :=
  (revIter_cursor p c bs).collect fuel hf

theorem revIter_nth (n : Nat) :
    (nthD (revIterNext p c bs) n (len c bs)).1 = (Iter.revIter p c bs)[n]? :=
  ((revIter_cursor p c bs).nth n).1

theorem revIter_nth_rest (n fuel : Nat) (hf : len c bs + 1 ≤ fuel) :
    collect (revIterNext p c bs) fuel (nthD (revIterNext p c bs) n (len c bs)).2
      = (Iter.revIter p c bs).drop (n + 1) := ((revIter_cursor p c bs).nth n).2.collect fuel hf

theorem revIter_count (fuel : Nat) (hf : len c bs + 1 ≤ fuel) :
    countD (revIterNext p c bs) fuel (len c bs) = (Iter.revIter p c bs).length :=
  (revIter_cursor p c bs).count fuel hf

theorem revIter_last (fuel : Nat) (hf : len c bs + 1 ≤ fuel) :
    lastD (revIterNext p c bs) fuel (len c bs) = (Iter.revIter p c bs).getLast? :=
  (revIter_cursor p c bs).last fuel hf

theorem revIter_fold (fuel : Nat) (hf : len c bs + 1 ≤ fuel) (f : β → Res Nat → β) (init : β) :
    foldD (revIterNext p c bs) fuel f init (len c bs) = (Iter.revIter p c bs).foldl f init :=
  (revIter_cursor p c bs).fold fuel hf f init

theorem revIter_skip (fuel : Nat) (hf : len c bs + 1 ≤ fuel) (n : Nat) :
    skipCollect (revIterNext p c bs) fuel n (len c bs) = (Iter.revIter p c bs).drop n :=
  (revIter_cursor p c bs).skip fuel hf n

theorem revIter_take (fuel : Nat) (hf : len c bs + 1 ≤ fuel) (n : Nat) :
    takeCollect (revIterNext p c bs) fuel n (len c bs) = (Iter.revIter p c bs).take n :=
  (revIter_cursor p c bs).take fuel hf n

theorem revIter_stepBy (fuel : Nat) (hf : len c bs + 1 ≤ fuel) (k : Nat) (hk : 1 ≤ k) :
    stepByCollect (revIterNext p c bs) fuel k (len c bs) = everyNth k (Iter.revIter p c bs) :=
  (revIter_cursor p c bs).stepBy fuel hf k hk

theorem revIter_after (m : Nat) :
    Cursor (revIterNext p c bs) (fun i => i) (fun _ => True) (len c bs + 1)
      (advance (revIterNext p c bs) m (len c bs)) ((Iter.revIter p c bs).drop m) :=
  (revIter_cursor p c bs).advance m

theorem revIter_nth_after (m n : Nat) :
    (nthD (revIterNext p c bs) n (advance (revIterNext p c bs) m (len c bs))).1
      = ((Iter.revIter p c bs).drop m)[n]? := ((revIter_after p c bs m).nth n).1

theorem revIter_run (cmds : List Cmd) :
    (runCmds (revIterNext p c bs) cmds (len c bs)).1 = (specCmds cmds (Iter.revIter p c bs)).1 :=
  ((revIter_cursor p c bs).runCmds cmds).1

theorem revIter_fused (m : Nat) (hm : (Iter.revIter p c bs).length ≤ m) :
    revIterNext p c bs (advance (revIterNext p c bs) m (len c bs)) = none ∧
      ∀ k, advance (revIterNext p c bs) (m + k) (len c bs) = advance (revIterNext p c bs) m (len c bs) :=
  let e := (revIter_cursor p c bs).exhausted m hm; ⟨e.1, e.2.1⟩

end revIter

/-! ### `SeqChunks` as `windows(w)` (skip = 1; every `w`, including 0) -/

section windows
variable (p : Profile) (c : Codec) (bs : Bits) (w : Nat)

theorem windows_fuel (fuel : Nat) (hf : len c bs + 1 ≤ fuel) :
    collect (chunksNext p c bs) fuel ⟨w, 1, 0⟩ = Iter.windows p c bs w :=
  (windows_cursor p c bs w).collect fuel hf

theorem windows_nth (n : Nat) :
    (nthD (chunksNext p c bs) n ⟨w, 1, 0⟩).1 = (Iter.windows p c bs w)[n]? :=
  ((windows_cursor p c bs w).nth n).1

theorem windows_nth_rest (n fuel : Nat) (hf : len c bs + 1 ≤ fuel) :
    collect (chunksNext p c bs) fuel (nthD (chunksNext p c bs) n ⟨w, 1, 0⟩).2
      = (Iter.windows p c bs w).drop (n + 1) := ((windows_cursor p c bs w).nth n).2.collect fuel hf

theorem windows_count (fuel : Nat) (hf : len c bs + 1 ≤ fuel) :
    countD (chunksNext p c bs) fuel ⟨w, 1, 0⟩ = (Iter.windows p c bs w).length :=
  (windows_cursor p c bs w).count fuel hf

theorem windows_last (fuel : Nat) (hf : len c bs + 1 ≤ fuel) :
    lastD (chunksNext p c bs) fuel ⟨w, 1, 0⟩ = (Iter.windows p c bs w).getLast? :=
  (windows_cursor p c bs w).last fuel hf

theorem windows_fold (fuel : Nat) (hf : len c bs + 1 ≤ fuel) (f : β → Res Bits → β) (init : β) :
    foldD (chunksNext p c bs) fuel f init ⟨w, 1, 0⟩ = (Iter.windows p c bs w).foldl f init :=
  (windows_cursor p c bs w).fold fuel hf f init

theorem windows_skip (fuel : Nat) (hf : len c bs + 1 ≤ fuel) (n : Nat) :
    skipCollect (chunksNext p c bs) fuel n ⟨w, 1, 0⟩ = (Iter.windows p c bs w).drop n :=
  (windows_cursor p c bs w).skip fuel hf n

theorem windows_take (fuel : Nat) (hf : len c bs + 1 ≤ fuel) (n : Nat) :
    takeCollect (chunksNext p c bs) fuel n ⟨w, 1, 0⟩ = (Iter.windows p c bs w).take n :=
  (windows_cursor p c bs w).take fuel hf n

theorem windows_stepBy (fuel : Nat) (hf : len c bs + 1 ≤ fuel) (k : Nat) (hk : 1 ≤ k) :
    stepByCollect (chunksNext p c bs) fuel k ⟨w, 1, 0⟩ = everyNth k (Iter.windows p c bs w) :=
  (windows_cursor p c bs w).stepBy fuel hf k hk

theorem windows_after (m : Nat) :
    Cursor (chunksNext p c bs) (fun s => len c bs + 1 - s.index) (fun s => 1 ≤ s.skip)
      (len c bs + 1) (advance (chunksNext p c bs) m ⟨w, 1, 0⟩) ((Iter.windows p c bs w).drop m) :=
  (windows_cursor p c bs w).advance m

theorem windows_nth_after (m n : Nat) :
    (nthD (chunksNext p c bs) n (advance (chunksNext p c bs) m ⟨w, 1, 0⟩)).1
      = ((Iter.windows p c bs w).drop m)[n]? := ((windows_after p c bs w m).nth n).1

theorem windows_run (cmds : List Cmd) :
    (runCmds (chunksNext p c bs) cmds ⟨w, 1, 0⟩).1 = (specCmds cmds (Iter.windows p c bs w)).1 :=
  ((windows_cursor p c bs w).runCmds cmds).1

theorem windows_fused (m : Nat) (hm : (Iter.windows p c bs w).length ≤ m) :
    chunksNext p c bs (advance (chunksNext p c bs) m ⟨w, 1, 0⟩) = none ∧
      ∀ k, advance (chunksNext p c bs) (m + k) ⟨w, 1, 0⟩ = advance (chunksNext p c bs) m ⟨w, 1, 0⟩ :=
  let e := (windows_cursor p c bs w).exhausted m hm; ⟨e.1, e.2.1⟩

end windows

/-! ### `SeqChunks` as `chunks(w)` (skip = w), `1 ≤ w` -/

section chunks
variable (p : Profile) (c : Codec) (bs : Bits) (w : Nat) (hw : 1 ≤ w)
include hw

theorem chunks_fuel (fuel : Nat) (hf : len c bs + 1 ≤ fuel) :
    collect (chunksNext p c bs) fuel ⟨w, w, 0⟩ = Iter.chunks p c bs w :=
  (chunks_cursor p c bs w hw).collect fuel hf

theorem chunks_nth (n : Nat) :
    (nthD (chunksNext p c bs) n ⟨w, w, 0⟩).1 = (Iter.chunks p c bs w)[n]? :=
  ((chunks_cursor p c bs w hw).nth n).1

theorem chunks_nth_rest (n fuel : Nat) (hf : len c bs + 1 ≤ fuel) :
    collect (chunksNext p c bs) fuel (nthD (chunksNext p c bs) n ⟨w, w, 0⟩).2
      = (Iter.chunks p c bs w).drop (n + 1) := ((chunks_cursor p c bs w hw).nth n).2.collect fuel hf

theorem chunks_count (fuel : Nat) (hf : len c bs + 1 ≤ fuel) :
    countD (chunksNext p c bs) fuel ⟨w, w, 0⟩ = (Iter.chunks p c bs w).length :=
  (chunks_cursor p c bs w hw).count fuel hf

theorem chunks_last (fuel : Nat) (hf : len c bs + 1 ≤ fuel) :
    lastD (chunksNext p c bs) fuel ⟨w, w, 0⟩ = (Iter.chunks p c bs w).getLast? :=
  (chunks_cursor p c bs w hw).last fuel hf

theorem chunks_fold (fuel : Nat) (hf : len c bs + 1 ≤ fuel) (f : β → Res Bits → β) (init : β) :
    foldD (chunksNext p c bs) fuel f init ⟨w, w, 0⟩ = (Iter.chunks p c bs w).foldl f init :=
  (chunks_cursor p c bs w hw).fold fuel hf f init

theorem chunks_skip (fuel : Nat) (hf : len c bs + 1 ≤ fuel) (n : Nat) :
    skipCollect (chunksNext p c bs) fuel n ⟨w, w, 0⟩ = (Iter.chunks p c bs w).drop n :=
  (chunks_cursor p c bs w hw).skip fuel hf n

theorem chunks_take (fuel : Nat) (hf : len c bs + 1 ≤ fuel) (n : Nat) :
    takeCollect (chunksNext p c bs) fuel n ⟨w, w, 0⟩ = (Iter.chunks p c bs w).take n :=
  (chunks_cursor p c bs w hw).take fuel hf n

theorem chunks_stepBy (fuel : Nat) (hf : len c bs + 1 ≤ fuel) (k : Nat) (hk : 1 ≤ k) :
    stepByCollect (chunksNext p c bs) fuel k ⟨w, w, 0⟩ = everyNth k (Iter.chunks p c bs w) :=
  (chunks_cursor p c bs w hw).stepBy fuel hf k hk

theorem chunks_after (m : Nat) :
    Cursor (chunksNext p c bs) (fun s => len c bs + 1 - s.index) (fun s => 1 ≤ s.skip)
      (len c bs + 1) (advance (chunksNext p c bs) m ⟨w, w, 0⟩) ((Iter.chunks p c bs w).drop m) :=
  (chunks_cursor p c bs w hw).advance m

theorem chunks_nth_after (m n : Nat) :
    (nthD (chunksNext p c bs) n (advance (chunksNext p c bs) m ⟨w, w, 0⟩)).1
      = ((Iter.chunks p c bs w).drop m)[n]? := ((chunks_after p c bs w hw m).nth n).1

theorem chunks_run (cmds : List Cmd) :
    (runCmds (chunksNext p c bs) cmds ⟨w, w, 0⟩).1 = (specCmds cmds (Iter.chunks p c bs w)).1 :=
  ((chunks_cursor p c bs w hw).runCmds cmds).1

theorem chunks_fused (m : Nat) (hm : (Iter.chunks p c bs w).length ≤ m) :
    chunksNext p c bs (advance (chunksNext p c bs) m ⟨w, w, 0⟩) = none ∧
      ∀ k, advance (chunksNext p c bs) (m + k) ⟨w, w, 0⟩ = advance (chunksNext p c bs) m ⟨w, w, 0⟩ :=
  let e := (chunks_cursor p c bs w hw).exhausted m hm; ⟨e.1, e.2.1⟩

end chunks

/-! ### `KmerIter` (`kmers::<K>()`) -/

section kmers
variable (p : Profile) (c : Codec) (K : Nat) (bs : Bits)

theorem kmers_fuel (fuel : Nat) (hf : len c bs + 1 ≤ fuel) :
    collect (Kmer.iterNext p c K bs (len c bs)) fuel 0 = Kmer.kmers p c K bs :=
  (kmers_cursor p c K bs).collect fuel hf

theorem kmers_nth (n : Nat) :
    (nthD (Kmer.iterNext p c K bs (len c bs)) n 0).1 = (Kmer.kmers p c K bs)[n]? :=
  ((kmers_cursor p c K bs).nth n).1

theorem kmers_nth_rest (n fuel : Nat) (hf : len c bs + 1 ≤ fuel) :
    collect (Kmer.iterNext p c K bs (len c bs)) fuel (nthD (Kmer.iterNext p c K bs (len c bs)) n 0).2
      = (Kmer.kmers p c K bs).drop (n + 1) := ((kmers_cursor p c K bs).nth n).2.collect fuel hf

theorem kmers_count (fuel : Nat) (hf : len c bs + 1 ≤ fuel) :
    countD (Kmer.iterNext p c K bs (len c bs)) fuel 0 = (Kmer.kmers p c K bs).length :=
  (kmers_cursor p c K bs).count fuel hf

theorem kmers_last (fuel : Nat) (hf : len c bs + 1 ≤ fuel) :
    lastD (Kmer.iterNext p c K bs (len c bs)) fuel 0 = (Kmer.kmers p c K bs).getLast? :=
  (kmers_cursor p c K bs).last fuel hf

theorem kmers_fold (fuel : Nat) (hf : len c bs + 1 ≤ fuel) (f : β → Res Nat → β) (init : β) :
    foldD (Kmer.iterNext p c K bs (len c bs)) fuel f init 0 = (Kmer.kmers p c K bs).foldl f init :=
  (kmers_cursor p c K bs).fold fuel hf f init

theorem kmers_skip (fuel : Nat) (hf : len c bs + 1 ≤ fuel) (n : Nat) :
    skipCollect (Kmer.iterNext p c K bs (len c bs)) fuel n 0 = (Kmer.kmers p c K bs).drop n :=
  (kmers_cursor p c K bs).skip fuel hf n

theorem kmers_take (fuel : Nat) (hf : len c bs + 1 ≤ fuel) (n : Nat) :
    takeCollect (Kmer.iterNext p c K bs (len c bs)) fuel n 0 = (Kmer.kmers p c K bs).take n :=
  (kmers_cursor p c K bs).take fuel hf n

theorem kmers_stepBy (fuel : Nat) (hf : len c bs + 1 ≤ fuel) (k : Nat) (hk : 1 ≤ k) :
    stepByCollect (Kmer.iterNext p c K bs (len c bs)) fuel k 0 = everyNth k (Kmer.kmers p c K bs) :=
  (kmers_cursor p c K bs).stepBy fuel hf k hk

theorem kmers_after (m : Nat) :
    Cursor (Kmer.iterNext p c K bs (len c bs)) (fun i => len c bs + 1 - i) (fun _ => True)
      (len c bs + 1) (advance (Kmer.iterNext p c K bs (len c bs)) m 0)
      ((Kmer.kmers p c K bs).drop m) := (kmers_cursor p c K bs).advance m

theorem kmers_nth_after (m n : Nat) :
    (nthD (Kmer.iterNext p c K bs (len c bs)) n (advance (Kmer.iterNext p c K bs (len c bs)) m 0)).1
      = ((Kmer.kmers p c K bs).drop m)[n]? := ((kmers_after p c K bs m).nth n).1

theorem kmers_run (cmds : List Cmd) :
    (runCmds (Kmer.iterNext p c K bs (len c bs)) cmds 0).1 = (specCmds cmds (Kmer.kmers p c K bs)).1 :=
  ((kmers_cursor p c K bs).runCmds cmds).1

theorem kmers_fused (m : Nat) (hm : (Kmer.kmers p c K bs).length ≤ m) :
    Kmer.iterNext p c K bs (len c bs) (advance (Kmer.iterNext p c K bs (len c bs)) m 0) = none ∧
      ∀ k, advance (Kmer.iterNext p c K bs (len c bs)) (m + k) 0
        = advance (Kmer.iterNext p c K bs (len c bs)) m 0 :=
  let e := (kmers_cursor p c K bs).exhausted m hm; ⟨e.1, e.2.1⟩

end kmers

/-! ### closed forms on packed content (through C11 / C08) -/

section packed
open BioSeq.C11 BioSeq.C08

/-- `iter().nth(n)` is symbol `n` -/
theorem iter_nth_pack (p : Profile) (c : Codec) (wf : CodecWF c) (cs : List Nat) (hc : Canon c cs)
    (hov : cs.length * c.width < W64) (n : Nat) :
    (nthD (seqIterNext p c (pack c.width cs)) n 0).1 = cs[n]?.map .ok := by
  rw [iter_nth, C11.iter_spec p c wf cs hc hov, List.getElem?_map]

/-- `iter().count()` is the length -/
theorem iter_count_pack (p : Profile) (c : Codec) (wf : CodecWF c) (cs : List Nat) (hc : Canon c cs)
    (hov : cs.length * c.width < W64) (fuel : Nat) (hf : cs.length + 1 ≤ fuel) :
    countD (seqIterNext p c (pack c.width cs)) fuel 0 = cs.length := by
  rw [iter_count p c _ fuel (by rw [len_pack c wf.width_pos]; exact hf),
    C11.iter_spec p c wf cs hc hov, List.length_map]

/-- `iter().last()` is the last symbol -/
theorem iter_last_pack (p : Profile) (c : Codec) (wf : CodecWF c) (cs : List Nat) (hc : Canon c cs)
    (hov : cs.length * c.width < W64) (fuel : Nat) (hf : cs.length + 1 ≤ fuel) :
    lastD (seqIterNext p c (pack c.width cs)) fuel 0 = cs.getLast?.map .ok := by
  rw [iter_last p c _ fuel (by rw [len_pack c wf.width_pos]; exact hf),
    C11.iter_spec p c wf cs hc hov, List.getLast?_map]

/-- `rev_iter().nth(n)` is symbol `n` from the end -/
theorem revIter_nth_pack (p : Profile) (c : Codec) (wf : CodecWF c) (cs : List Nat) (hc : Canon c cs)
    (hov : cs.length * c.width < W64) (n : Nat) :
    (nthD (revIterNext p c (pack c.width cs)) n cs.length).1 = cs.reverse[n]?.map .ok := by
  have h := revIter_nth p c (pack c.width cs) n
  rw [len_pack c wf.width_pos] at h
  rw [h, C11.revIter_spec p c wf cs hc hov, List.getElem?_map]

/-- `windows(w).count()` = `n + 1 - w` -/
theorem windows_count_pack (p : Profile) (c : Codec) (hw : 1 ≤ c.width) (cs : List Nat)
    (hov : cs.length * c.width < W64) (w fuel : Nat) (hf : cs.length + 1 ≤ fuel) :
    countD (chunksNext p c (pack c.width cs)) fuel ⟨w, 1, 0⟩ = cs.length + 1 - w := by
  rw [windows_count p c _ w fuel (by rw [len_pack c hw]; exact hf), C11.windows_length p c hw cs hov w]

/-- `windows(w).nth(n)` is the window starting at `n` -/
theorem windows_nth_pack (p : Profile) (c : Codec) (hw : 1 ≤ c.width) (cs : List Nat)
    (hov : cs.length * c.width < W64) (w n : Nat) (hn : n + w ≤ cs.length) :
    (nthD (chunksNext p c (pack c.width cs)) n ⟨w, 1, 0⟩).1
      = some (.ok (pack c.width ((cs.take (n + w)).drop n))) := by
  rw [windows_nth, C11.windows_spec p c hw cs hov w, List.getElem?_map,
    List.getElem?_range (by omega)]
  rfl

/-- `chunks(w).count()` = `⌊n / w⌋` -/
theorem chunks_count_pack (p : Profile) (c : Codec) (hw : 1 ≤ c.width) (cs : List Nat)
    (hov : cs.length * c.width < W64) (w : Nat) (hw1 : 1 ≤ w) (fuel : Nat) (hf : cs.length + 1 ≤ fuel) :
    countD (chunksNext p c (pack c.width cs)) fuel ⟨w, w, 0⟩ = cs.length / w := by
  rw [chunks_count p c _ w hw1 fuel (by rw [len_pack c hw]; exact hf),
    C11.chunks_length p c hw cs hov w hw1]

/-- `chunks(w).last()` is the last complete chunk -/
theorem chunks_last_pack (p : Profile) (c : Codec) (hw : 1 ≤ c.width) (cs : List Nat)
    (hov : cs.length * c.width < W64) (w : Nat) (hw1 : 1 ≤ w) (hlen : w ≤ cs.length)
    (fuel : Nat) (hf : cs.length + 1 ≤ fuel) :
    lastD (chunksNext p c (pack c.width cs)) fuel ⟨w, w, 0⟩
      = some (.ok (pack c.width ((cs.take ((cs.length / w - 1) * w + w)).drop ((cs.length / w - 1) * w)))) := by
  rw [chunks_last p c _ w hw1 fuel (by rw [len_pack c hw]; exact hf),
    C11.chunks_spec p c hw cs hov w hw1, List.getLast?_map]
  have hpos : 0 < cs.length / w := Nat.div_pos hlen (by omega)
  have e : cs.length / w = (cs.length / w - 1) + 1 := by omega
  conv => lhs; rw [e, List.range_succ]
  simp

/-- `kmers::<K>().count()` = `n + 1 - K` -/
theorem kmers_count_pack (p : Profile) (c : Codec) (hw : 1 ≤ c.width) (K : Nat) (hK : 1 ≤ K)
    (hst : K * c.width ≤ 64) (cs : List Nat) (hov : cs.length * c.width < W64)
    (fuel : Nat) (hf : cs.length + 1 ≤ fuel) :
    countD (Kmer.iterNext p c K (pack c.width cs) cs.length) fuel 0 = cs.length + 1 - K := by
  have h := kmers_count p c K (pack c.width cs) fuel (by rw [len_pack c hw]; exact hf)
  rw [len_pack c hw] at h
  rw [h, C08.kmers_length p c hw K hK hst cs hov]

/-- `kmers::<K>().nth(n)` is the k-mer of symbols `n .. n + K` -/
theorem kmers_nth_pack (p : Profile) (c : Codec) (hw : 1 ≤ c.width) (K : Nat) (hK : 1 ≤ K)
    (hst : K * c.width ≤ 64) (cs : List Nat) (hov : cs.length * c.width < W64)
    (n : Nat) (hn : n + K ≤ cs.length) :
    (nthD (Kmer.iterNext p c K (pack c.width cs) cs.length) n 0).1
      = some (.ok (ofBitsLE (pack c.width ((cs.take (n + K)).drop n)))) := by
  have h := kmers_nth p c K (pack c.width cs) n
  rw [len_pack c hw] at h
  rw [h, C08.kmers_spec p c hw K hK hst cs hov, List.getElem?_map, List.getElem?_range (by omega)]
  rfl

end packed

/-! ## Part 3: non-vacuity — concrete runs on the extracted DNA codec ("ACTGATCG" = 0 1 3 2 0 3 1 2) -/

section examples

/-- the concrete inputs: 8 symbols, 2 bits each -/
private abbrev acgt : Bits := pack 2 [0, 1, 3, 2, 0, 3, 1, 2]

/-- the hypotheses of Part 1 hold for each instantiation on a non-trivial value: the cursor's list
    has 8 / 8 / 6 / 2 / 6 items -/
example : Cursor (seqIterNext .debug (Gen.dna .debug) acgt) (fun i => len (Gen.dna .debug) acgt - i)
    (fun _ => True) 9 0 [.ok 0, .ok 1, .ok 3, .ok 2, .ok 0, .ok 3, .ok 1, .ok 2] := by
  have h := iter_cursor .debug (Gen.dna .debug) acgt
  have e : Iter.iter .debug (Gen.dna .debug) acgt
      = [.ok 0, .ok 1, .ok 3, .ok 2, .ok 0, .ok 3, .ok 1, .ok 2] := by decide +kernel
  have e2 : len (Gen.dna .debug) acgt + 1 = 9 := by decide +kernel
  rw [e, e2] at h; exact h

example : (Iter.revIter .debug (Gen.dna .debug) acgt).length = 8 := by decide +kernel
example : (Iter.windows .debug (Gen.dna .debug) acgt 3).length = 6 := by decide +kernel
example : (Iter.chunks .debug (Gen.dna .debug) acgt 3).length = 2 ∧ 1 ≤ 3 := by decide +kernel
example : (Kmer.kmers .debug (Gen.dna .debug) 3 acgt).length = 6 := by decide +kernel

/-- the measures really decrease on these inputs: a `some` step from a mid state -/
example : seqIterNext .debug (Gen.dna .debug) acgt 2 = some (.ok 3, 3) := by decide +kernel
example : revIterNext .debug (Gen.dna .debug) acgt 8 = some (.ok 2, 7) := by decide +kernel
example : (chunksNext .debug (Gen.dna .debug) acgt ⟨3, 3, 3⟩).map (fun r => (r.1, r.2.index))
    = some (.ok (pack 2 [2, 0, 3]), 6) := by decide +kernel
example : (Kmer.iterNext .debug (Gen.dna .debug) 3 acgt 8 5).map Prod.snd = some 6 := by decide +kernel

/-- `iter().nth(2)` = `T`(3), then `next()` = `G`(2); `nth(8)` = `None` -/
example : (nthD (seqIterNext .debug (Gen.dna .debug) acgt) 2 0) = (some (.ok 3), 3) := by decide +kernel
example : (nthD (seqIterNext .debug (Gen.dna .debug) acgt) 0 3).1 = some (.ok 2) := by decide +kernel
example : (nthD (seqIterNext .debug (Gen.dna .debug) acgt) 8 0) = (none, 8) := by decide +kernel
example : countD (seqIterNext .debug (Gen.dna .debug) acgt) 9 0 = 8 := by decide +kernel
example : lastD (seqIterNext .debug (Gen.dna .debug) acgt) 9 0 = some (.ok 2) := by decide +kernel
/-- `iter().step_by(3)` = A G C -/
example : stepByCollect (seqIterNext .debug (Gen.dna .debug) acgt) 9 3 0 = [.ok 0, .ok 2, .ok 1] := by
  decide +kernel
example : skipCollect (seqIterNext .debug (Gen.dna .debug) acgt) 9 6 0 = [.ok 1, .ok 2] := by decide +kernel
example : takeCollect (seqIterNext .debug (Gen.dna .debug) acgt) 9 2 0 = [.ok 0, .ok 1] := by decide +kernel
/-- `rev_iter().nth(1)` = `C`(1) -/
example : (nthD (revIterNext .release (Gen.dna .release) acgt) 1 8) = (some (.ok 1), 6) := by
  decide +kernel
example : lastD (revIterNext .release (Gen.dna .release) acgt) 9 8 = some (.ok 0) := by decide +kernel
/-- `windows(3).nth(4)` = ATC, `.count()` = 6, `.last()` = TCG -/
example : (nthD (chunksNext .debug (Gen.dna .debug) acgt) 4 ⟨3, 1, 0⟩).1 = some (.ok (pack 2 [0, 3, 1])) := by
  decide +kernel
example : countD (chunksNext .debug (Gen.dna .debug) acgt) 9 ⟨3, 1, 0⟩ = 6 := by decide +kernel
example : lastD (chunksNext .debug (Gen.dna .debug) acgt) 9 ⟨3, 1, 0⟩ = some (.ok (pack 2 [3, 1, 2])) := by
  decide +kernel
/-- `chunks(3).last()` = GAT (the tail CG is dropped), `.nth(2)` = `None` -/
example : lastD (chunksNext .debug (Gen.dna .debug) acgt) 9 ⟨3, 3, 0⟩ = some (.ok (pack 2 [2, 0, 3])) := by
  decide +kernel
example : (nthD (chunksNext .debug (Gen.dna .debug) acgt) 2 ⟨3, 3, 0⟩).1 = none := by decide +kernel
/-- `kmers::<3>()`: `.count()` = 6, `.fold` (here: number of non-failing items) = 6,
    `.nth(5)` = last k-mer TCG = 3 + 4·1 + 16·2 -/
example : countD (Kmer.iterNext .debug (Gen.dna .debug) 3 acgt 8) 9 0 = 6 := by decide +kernel
example : foldD (Kmer.iterNext .debug (Gen.dna .debug) 3 acgt 8) 9
    (fun n r => match r with | .ok _ => n + 1 | .error _ => n) 0 0 = 6 := by decide +kernel
example : (nthD (Kmer.iterNext .debug (Gen.dna .debug) 3 acgt 8) 5 0).1 = some (.ok 39) := by
  decide +kernel
/-- a mixed run: `next(); nth(1); advance_by(2); next(); advance_by(9); next()` -/
example : (runCmds (seqIterNext .debug (Gen.dna .debug) acgt)
      [.next, .nth 1, .advanceBy 2, .next, .advanceBy 9, .next] 0).1
    = [.item (some (.ok 0)), .item (some (.ok 3)), .adv true, .item (some (.ok 3)), .adv false,
       .item none] := by decide +kernel
/-- … and the same through the general theorem and the list specification -/
example : (runCmds (seqIterNext .debug (Gen.dna .debug) acgt)
      [.next, .nth 1, .advanceBy 2, .next, .advanceBy 9, .next] 0).1
    = (specCmds [.next, .nth 1, .advanceBy 2, .next, .advanceBy 9, .next]
        (Iter.iter .debug (Gen.dna .debug) acgt)).1 := iter_run _ _ _ _
/-- adapters compose: `iter().skip(1).step_by(2).nth(1)` is item 1 of every second item after the
    first, by the general theorems … -/
example (p : Profile) (c : Codec) (bs : Bits) :
    (nthD (stepByNext (skipNext (seqIterNext p c bs)) 2) 1 (true, (1, 0))).1
      = (everyNth 2 ((Iter.iter p c bs).drop 1))[1]? :=
  ((((iter_cursor p c bs).skipAdapter 1).stepByAdapter 2 (by omega)).nth 1).1
/-- … and concretely: C T G A T C G → C G T G → `G`(2) -/
example : (nthD (stepByNext (skipNext (seqIterNext .debug (Gen.dna .debug) acgt)) 2) 1 (true, (1, 0))).1
    = some (.ok 2) := by decide +kernel
example : everyNth 3 [10, 11, 12, 13, 14, 15, 16] = [10, 13, 16] := by decide
/-- `chunks(0)`: the `1 ≤ w` hypothesis is needed — `count()` grows with the fuel -/
example : countD (chunksNext .debug (Gen.dna .debug) acgt) 9 ⟨0, 0, 0⟩ = 9 ∧
    countD (chunksNext .debug (Gen.dna .debug) acgt) 20 ⟨0, 0, 0⟩ = 20 := by decide +kernel

end examples

end C11Std
end BioSeq
