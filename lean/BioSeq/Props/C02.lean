/-
  C02 — equality and hashing depend only on content, for every sequence type and offset.

  In the model an owned `Seq`, a borrowed `SeqSlice` at any start position and a static literal are
  all just their bit content `Bits` (a slice `&s[a..b]` is the value returned by `Seq.index`, which
  carries no offset), and `==` between any two of them is `=` on `Bits` — the Rust impls all funnel
  to the bit-slice comparison.  So offset/type independence and symmetry are structural; what is
  proved here is that this equality is exactly "same length and same symbols", that the hash data
  determines and is determined by the content, and that the k-mer and `&str` comparisons agree
  with it.

  Note (known finding D11): equality is on the stored *codes*.  For canonical content (`Canon`,
  which is what every parser/collector produces, C01) codes = symbols.  A codec whose decoder
  accepts alternative codes for one symbol (amino: several 6-bit codes decode to one residue) can
  hold, when its content carries such a non-canonical code, two sequences that decode to the same
  symbols yet compare unequal and hash differently: `eq_noncanonical_counterexample`.
-/
import BioSeq.Lemmas.KmerLemmas
import BioSeq.Props.C01
import BioSeq.Props.C03
namespace BioSeq
namespace C02
open BioSeq.Seq
open BioSeq.C03 (Aligned aligned_pack eq_pack)

/-! ### 1. equality = same length and same symbols -/

theorem eq_iff_content (c : Codec) (hw : 1 ≤ c.width) (a b : Bits) (ha : Aligned c a) (hb : Aligned c b) :
    a = b ↔ len c a = len c b ∧ syms c.width a = syms c.width b := by
  constructor
  · rintro rfl; exact ⟨rfl, rfl⟩
  · rintro ⟨_, hs⟩
    rw [eq_pack c hw a ha, eq_pack c hw b hb, hs]

/-- on packed code lists: equal iff the code lists are equal (any two holders, any offsets) -/
theorem pack_eq_iff (c : Codec) (hw : 1 ≤ c.width) (cs ds : List Nat) (hc : Fits c.width cs) (hd : Fits c.width ds) :
    pack c.width cs = pack c.width ds ↔ cs = ds := by
  constructor
  · intro h
    rw [← syms_pack c.width hw cs hc, ← syms_pack c.width hw ds hd, h]
  · rintro rfl; rfl

/-- a borrowed slice `&s[a..b]` equals an owned sequence exactly when the owned sequence holds
    symbols `a..b` of the parent — wherever the slice starts -/
theorem slice_eq_iff (p : Profile) (c : Codec) (hw : 1 ≤ c.width) (cs ds : List Nat)
    (hc : Fits c.width cs) (hd : Fits c.width ds) (a b : Nat) (hab : a ≤ b) (hb : b ≤ cs.length)
    (hov : b * c.width < W64) :
    ∃ q, index p c (pack c.width cs) .range a b = .ok q ∧
      (q = pack c.width ds ↔ (cs.take b).drop a = ds) ∧ (pack c.width ds = q ↔ ds = (cs.take b).drop a) := by
  refine ⟨_, index_range_pack p c cs a b hab hb hov, ?_, ?_⟩
  · exact pack_eq_iff c hw _ ds ((hc.take b).drop a) hd
  · exact pack_eq_iff c hw ds _ hd ((hc.take b).drop a)

/-- D11: two amino codes decode to the same residue but the one-symbol sequences holding them are
    unequal (equality and hashing look at codes, not decoded symbols) -/
theorem eq_noncanonical_counterexample :
    (Gen.amino .debug).unsafeFromBits 0b101110 = (Gen.amino .debug).unsafeFromBits 0b001110 ∧
    (Gen.amino .debug).unsafeFromBits 0b101110 = some 14 ∧
    pack (Gen.amino .debug).width [0b101110] ≠ pack (Gen.amino .debug).width [0b001110] ∧
    hashEvents (Gen.amino .debug) (pack 6 [0b101110]) ≠ hashEvents (Gen.amino .debug) (pack 6 [0b001110]) := by
  decide +kernel

/-! ### 2. hash data ↔ content -/

theorem hash_congr (c : Codec) (a b : Bits) (h : a = b) : hashEvents c a = hashEvents c b := by rw [h]

/-- the bit events followed by a length event, followed by anything, determine the bits -/
theorem hash_prefix_aux (a b : Bits) (n m : Nat) (t : List HashEv)
    (h : a.map (fun x => HashEv.u8 (if x then 1 else 0)) ++ [HashEv.usize n] ++ t
       = b.map (fun x => HashEv.u8 (if x then 1 else 0)) ++ [HashEv.usize m]) : a = b := by
  induction a generalizing b with
  | nil =>
    cases b with
    | nil => rfl
    | cons y b => simp at h
  | cons x a ih =>
    cases b with
    | nil => simp at h
    | cons y b =>
      simp only [List.map_cons, List.cons_append, List.cons.injEq, HashEv.u8.injEq] at h
      obtain ⟨hxy, ht⟩ := h
      have : x = y := by cases x <;> cases y <;> simp at hxy <;> rfl
      rw [this, ih b ht]

/-- **prefix-freeness**: the hash data of one sequence is never a proper prefix of another's
    (so hashing sequences inside tuples/structs stays unambiguous) -/
theorem hash_prefix_free (c : Codec) (a b : Bits) (h : hashEvents c a <+: hashEvents c b) : a = b := by
  obtain ⟨t, ht⟩ := h
  exact hash_prefix_aux a b _ _ t ht

/-- the hash data determines the content -/
theorem hash_inj (c : Codec) (a b : Bits) (h : hashEvents c a = hashEvents c b) : a = b :=
  hash_prefix_free c a b (h ▸ List.prefix_refl _)

theorem hash_eq_iff (c : Codec) (a b : Bits) : hashEvents c a = hashEvents c b ↔ a = b :=
  ⟨hash_inj c a b, hash_congr c a b⟩

/-! ### 3. a k-mer hashes like the slice it was copied from -/

theorem hash_kmer_eq_slice (c : Codec) (hw : 1 ≤ c.width) (K : Nat) (st : Storage) (hst : K * c.width ≤ st.bits)
    (cs : List Nat) (hK : cs.length = K) :
    Kmer.hashEvents c K st (ofBitsLE (pack c.width cs)) = hashEvents c (pack c.width cs) := by
  unfold Kmer.hashEvents hashEvents
  rw [bits_pack c K st cs hK hst, len_pack c hw, hK]

/-- ... in particular the k-mer made by `try_from` from a slice -/
theorem hash_tryFrom (p : Profile) (c : Codec) (hw : 1 ≤ c.width) (K : Nat) (hK1 : 1 ≤ K) (st : Storage)
    (hst : K * c.width ≤ st.bits) (bs : Bits) (hal : Aligned c bs) (v : Nat)
    (h : Kmer.tryFrom p c K st bs = .ok v) : Kmer.hashEvents c K st v = hashEvents c bs := by
  have hlen : len c bs = K := by
    unfold Kmer.tryFrom at h
    by_cases hl : len c bs = K
    · exact hl
    · simp [hl] at h
  have e := eq_pack c hw bs hal
  have hl : (syms c.width bs).length = K := by rw [← C03.len_eq]; exact hlen
  have hov : K * c.width < W64 := Nat.lt_of_le_of_lt hst st.bits_lt_W64
  rw [e] at h ⊢
  unfold Kmer.tryFrom at h
  rw [len_pack c hw, if_pos hl, index_range_pack p c _ 0 K (by omega) (by omega) hov] at h
  simp only [bind, Except.bind, List.drop_zero] at h
  rw [← hl, List.take_length, unsafeFrom_pack p c hw _ st _ rfl (by omega) (by rw [hl]; exact hst)] at h
  injection h with h
  rw [← h]
  exact hash_kmer_eq_slice c hw K st hst _ hl

/-! ### 4. k-mer == slice, k-mer == k-mer -/

/-- `Kmer == SeqSlice` (either holder of the slice): true exactly for the slice with the k-mer's
    content; a slice of another length is unequal, never an error -/
theorem kmer_eq_slice_spec (p : Profile) (c : Codec) (hw : 1 ≤ c.width) (K : Nat) (hK1 : 1 ≤ K) (st : Storage)
    (hst : K * c.width ≤ st.bits) (cs : List Nat) (hK : cs.length = K) (bs : Bits) (hal : Aligned c bs) :
    Kmer.eqSlice p c K st (ofBitsLE (pack c.width cs)) bs = .ok (decide (bs = pack c.width cs)) := by
  unfold Kmer.eqSlice
  have hdiv : len c bs * c.width = bs.length := Nat.div_mul_cancel hal
  by_cases hl : len c bs = K
  · have hbl : bs.length = K * c.width := by rw [← hdiv, hl]
    have h1 : 1 ≤ bs.length := by rw [hbl]; exact Nat.mul_pos (by omega) (by omega)
    simp only [hl, ne_eq, not_true_eq_false, if_false]
    rw [unsafeFrom_ok p c K st bs hl h1 (by rw [hbl]; exact hst)]
    simp only [bind, Except.bind]
    congr 1
    have hlen : bs.length = (pack c.width cs).length := by rw [pack_length, hK, hbl, Nat.mul_comm]
    by_cases he : bs = pack c.width cs
    · simp [he]
    · have : ofBitsLE bs ≠ ofBitsLE (pack c.width cs) := fun h => he (ofBitsLE_inj _ _ hlen h)
      simp [he, this]
  · have hne : bs ≠ pack c.width cs := by
      intro h; apply hl; rw [h, len_pack c hw, hK]
    simp [hl, hne]

theorem kmer_eq_slice_iff (p : Profile) (c : Codec) (hw : 1 ≤ c.width) (K : Nat) (hK1 : 1 ≤ K) (st : Storage)
    (hst : K * c.width ≤ st.bits) (cs : List Nat) (hK : cs.length = K) (bs : Bits) (hal : Aligned c bs) :
    (Kmer.eqSlice p c K st (ofBitsLE (pack c.width cs)) bs = .ok true ↔ bs = pack c.width cs) ∧
    (len c bs ≠ K → Kmer.eqSlice p c K st (ofBitsLE (pack c.width cs)) bs = .ok false) := by
  rw [kmer_eq_slice_spec p c hw K hK1 st hst cs hK bs hal]
  constructor
  · constructor
    · intro h; injection h with h; exact of_decide_eq_true h
    · intro h; simp [h]
  · intro hl
    have hne : bs ≠ pack c.width cs := by
      intro h; apply hl; rw [h, len_pack c hw, hK]
    simp [hne]

/-- two k-mers (stored integers) are equal exactly when their symbol lists are -/
theorem kmer_eq_kmer_iff (w : Nat) (hw : 1 ≤ w) (cs ds : List Nat) (hc : Fits w cs) (hd : Fits w ds)
    (hl : cs.length = ds.length) :
    ofBitsLE (pack w cs) = ofBitsLE (pack w ds) ↔ cs = ds :=
  ⟨ofBitsLE_pack_inj w hw cs ds hc hd hl, fun h => by rw [h]⟩

/-! ### 5. sequence == text -/

theorem eqStrLoop_pack (p : Profile) (c : Codec) (wf : CodecWF c) (cs : List Nat) (hc : Canon c cs)
    (hov : cs.length * c.width < W64) (text : List Nat) (i : Nat) (hi : i + text.length ≤ cs.length) :
    eqStrLoop p c (pack c.width cs) i text
      = .ok (decide (text.map c.tryFromAscii = ((cs.drop i).take text.length).map some)) := by
  induction text generalizing i with
  | nil => simp [eqStrLoop]
  | cons ch rest ih =>
    simp only [List.length_cons] at hi
    have hi' : i < cs.length := by omega
    have hov' : (i + 1) * c.width < W64 := Nat.lt_of_le_of_lt (Nat.mul_le_mul_right _ (by omega)) hov
    have hd : (cs.drop i).take (rest.length + 1) = cs[i] :: (cs.drop (i + 1)).take rest.length := by
      rw [List.drop_eq_getElem_cons hi', List.take_succ_cons]
    simp only [eqStrLoop, nth_pack p c wf cs hc i hi' hov', bind, Except.bind, List.length_cons, hd,
      List.map_cons]
    cases hb : c.tryFromAscii ch with
    | none => simp
    | some b =>
      simp only
      by_cases hab : cs[i] = b
      · rw [if_pos hab, ih (i + 1) (by omega)]
        simp [hab]
      · rw [if_neg hab]
        have : ¬ b = cs[i] := fun h => hab h.symm
        simp [this]

/-- `SeqSlice == &str`, fully characterised: true exactly when the text parses, byte by byte, to
    the sequence's symbols (a text of another length, or with any invalid byte, is unequal) -/
theorem eqStr_spec (p : Profile) (c : Codec) (wf : CodecWF c) (cs : List Nat) (hc : Canon c cs)
    (hov : cs.length * c.width < W64) (text : List Nat) :
    eqStr p c (pack c.width cs) text = .ok (decide (text.map c.tryFromAscii = cs.map some)) := by
  unfold eqStr
  rw [len_pack c wf.width_pos]
  by_cases hl : text.length = cs.length
  · simp only [hl, ne_eq, not_true_eq_false, if_false]
    rw [eqStrLoop_pack p c wf cs hc hov text 0 (by omega), hl]
    simp
  · have : text.map c.tryFromAscii ≠ cs.map some := by
      intro h
      have := congrArg List.length h
      simp at this
      exact hl this
    simp [hl, this]

theorem eqStr_iff (p : Profile) (c : Codec) (wf : CodecWF c) (cs : List Nat) (hc : Canon c cs)
    (hov : cs.length * c.width < W64) (text : List Nat) :
    eqStr p c (pack c.width cs) text = .ok true ↔ text.map c.tryFromAscii = cs.map some := by
  rw [eqStr_spec p c wf cs hc hov]
  constructor
  · intro h; injection h with h; exact of_decide_eq_true h
  · intro h; simp [h]

theorem map_parse_display (c : Codec) (wf : CodecWF c) (ds : List Nat) (hd : Canon c ds) :
    (ds.map c.toChar).map c.tryFromAscii = ds.map some := by
  induction ds with
  | nil => rfl
  | cons x xs ih =>
    simp only [List.map_cons, wf.item_char x (hd x (by simp))]
    rw [ih (fun y hy => hd y (by simp [hy]))]

/-- a sequence equals its own displayed text ... -/
theorem eqStr_self (p : Profile) (c : Codec) (wf : CodecWF c) (cs : List Nat) (hc : Canon c cs)
    (hov : cs.length * c.width < W64) :
    eqStr p c (pack c.width cs) (cs.map c.toChar) = .ok true :=
  (eqStr_iff p c wf cs hc hov _).mpr (map_parse_display c wf cs hc)

/-- ... and no other sequence's displayed text -/
theorem eqStr_display_iff (p : Profile) (c : Codec) (wf : CodecWF c) (cs ds : List Nat) (hc : Canon c cs)
    (hd : Canon c ds) (hov : cs.length * c.width < W64) :
    eqStr p c (pack c.width cs) (ds.map c.toChar) = .ok true ↔ pack c.width cs = pack c.width ds := by
  rw [eqStr_iff p c wf cs hc hov, map_parse_display c wf ds hd,
    pack_eq_iff c wf.width_pos cs ds (hc.fits wf) (hd.fits wf)]
  constructor
  · intro h; exact ((List.map_inj_right (fun _ _ h => Option.some.inj h)).mp h).symm
  · intro h; rw [h]

/-- the comparison with text never errors on canonical content and is `false` for a text that the
    strict parser turns into a different sequence -/
theorem eqStr_parse (p : Profile) (c : Codec) (wf : CodecWF c) (cs : List Nat) (hc : Canon c cs)
    (hov : cs.length * c.width < W64) (text : List Nat) (s : Bits) (hs : parseBytes c text = .ok s) :
    eqStr p c (pack c.width cs) text = .ok (decide (s = pack c.width cs)) := by
  rw [eqStr_spec p c wf cs hc hov]
  obtain ⟨_, hsy, hm⟩ := C01.parse_ok_symbols c wf text s hs
  have hcan : Canon c (syms c.width s) := by rw [hsy]; exact C01.symbolsOf_canon c wf text
  have hal : Aligned c s := by
    rw [C01.parse_spec c wf] at hs
    cases hf : text.find? (C01.bad c) with
    | some b => rw [hf] at hs; cases hs
    | none => rw [hf] at hs; injection hs with hs; rw [← hs]; exact aligned_pack c _
  rw [hm]
  congr 1
  have e := eq_pack c wf.width_pos s hal
  have : (List.map some (syms c.width s) = List.map some cs) ↔ (s = pack c.width cs) := by
    constructor
    · intro h
      have := (List.map_inj_right (fun _ _ h => Option.some.inj h)).mp h
      rw [e, this]
    · intro h
      rw [h, syms_pack c.width wf.width_pos cs (hc.fits wf)]
  exact decide_eq_decide.mpr this

/-- `Kmer == &str` compares the displayed text -/
theorem kmer_eqStr (p : Profile) (c : Codec) (wf : CodecWF c) (K : Nat) (st : Storage)
    (hst : K * c.width ≤ st.bits) (cs : List Nat) (hc : Canon c cs) (hK : cs.length = K) (text : List Nat) :
    Kmer.eqStr p c K st (ofBitsLE (pack c.width cs)) text = .ok (decide (cs.map c.toChar = text)) := by
  unfold Kmer.eqStr Kmer.display
  rw [bits_pack c K st cs hK hst, ← hK, displayChunks_pack p c wf cs hc]
  simp only [bind, Except.bind]
  congr 1
  exact Bool.beq_eq_decide_eq _ _

/-! ### 6. a map keyed by owned sequences is queried by borrowed slices -/

/-- `HashMap::get` contract: the entry whose key is `==` to the query among those whose hash data
    agrees with the query's -/
def mapGet {β} (c : Codec) (m : List (Bits × β)) (q : Bits) : Option β :=
  (m.find? (fun kv => decide (hashEvents c kv.1 = hashEvents c q) && decide (kv.1 = q))).map (·.2)

/-- hash agreement never hides an equal key: lookup = plain search by `==` -/
theorem mapGet_eq_find {β} (c : Codec) (m : List (Bits × β)) (q : Bits) :
    mapGet c m q = (m.find? (fun kv => decide (kv.1 = q))).map (·.2) := by
  unfold mapGet
  congr 2
  funext kv
  by_cases h : kv.1 = q
  · simp [h]
  · simp [h]

/-- the value stored under owned key `k` is found by any borrowed slice `q` with the same content
    (`q` = `&parent[a..b]` at any offset — it is just its bits) -/
theorem map_get_by_slice {β} (c : Codec) (m : List (Bits × β)) (k q : Bits) (v : β)
    (hfresh : ∀ kv ∈ m, kv.1 ≠ k) (hq : q = k) (pre : List (Bits × β)) (hpre : ∀ kv ∈ pre, kv.1 ≠ k) :
    mapGet c (pre ++ (k, v) :: m) q = some v := by
  subst hq
  rw [mapGet_eq_find]
  have hn : pre.find? (fun kv => decide (kv.1 = q)) = none := by
    rw [List.find?_eq_none]; intro kv hkv; simpa using hpre kv hkv
  simp [List.find?_append, hn]

/-- a slice with different content is not found under `k` -/
theorem map_get_other {β} (c : Codec) (k q : Bits) (v : β) (hq : q ≠ k) :
    mapGet c [(k, v)] q = none := by
  have : ¬ k = q := fun h => hq h.symm
  simp [mapGet, this]

/-! ### 7. non-vacuity -/

/-- owned "ACGT" vs the slice `[1..5]` of "TACGTA": equal, same hash data -/
example : index .debug (Gen.dna .debug) (pack 2 [3, 0, 1, 2, 3, 0]) .range 1 5 = .ok (pack 2 [0, 1, 2, 3]) ∧
    hashEvents (Gen.dna .debug) (pack 2 ((([3, 0, 1, 2, 3, 0] : List Nat).take 5).drop 1))
      = hashEvents (Gen.dna .debug) (pack 2 [0, 1, 2, 3]) := by decide +kernel

example : Kmer.hashEvents (Gen.dna .debug) 4 .u64 (ofBitsLE (pack 2 [0, 1, 2, 3]))
    = hashEvents (Gen.dna .debug) (pack 2 [0, 1, 2, 3]) := by decide +kernel

example : Kmer.eqSlice .debug (Gen.dna .debug) 4 .usize (ofBitsLE (pack 2 [0, 1, 2, 3])) (pack 2 [0, 1, 2, 3]) = .ok true ∧
    Kmer.eqSlice .debug (Gen.dna .debug) 4 .usize (ofBitsLE (pack 2 [0, 1, 2, 3])) (pack 2 [0, 1, 2, 2]) = .ok false ∧
    Kmer.eqSlice .debug (Gen.dna .debug) 4 .usize (ofBitsLE (pack 2 [0, 1, 2, 3])) (pack 2 [0, 1, 2]) = .ok false := by
  decide +kernel

example : eqStr .release (Gen.amino .release) (pack 6 [24, 24, 13]) [83, 83, 76] = .ok true ∧
    eqStr .release (Gen.amino .release) (pack 6 [24, 24, 13]) [83, 83, 77] = .ok false ∧
    eqStr .release (Gen.amino .release) (pack 6 [24, 24, 13]) [83, 83] = .ok false ∧
    eqStr .release (Gen.amino .release) (pack 6 [24, 24, 13]) [83, 83, 33] = .ok false := by decide +kernel

example : Kmer.eqStr .debug (Gen.dna .debug) 4 .usize (ofBitsLE (pack 2 [0, 1, 2, 3])) [65, 67, 71, 84] = .ok true := by
  decide +kernel

example : mapGet (Gen.dna .debug) [(pack 2 [1, 1], "x"), (pack 2 [0, 1, 2, 3], "y")]
    (pack 2 ((([3, 0, 1, 2, 3, 0] : List Nat).take 5).drop 1)) = some "y" := by decide +kernel

example : CodecWF (Gen.dna .debug) ∧ Canon (Gen.dna .debug) [0, 1, 2, 3] ∧ Aligned (Gen.dna .debug) (pack 2 [0, 1, 2, 3]) :=
  ⟨wf_dna .debug, by unfold Canon; decide +kernel, aligned_pack (Gen.dna .debug) _⟩

end C02
end BioSeq
