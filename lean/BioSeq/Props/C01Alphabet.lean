/-
  C01, tied to the *documented* alphabets: `Props/C01.lean` characterises parsing for any
  well-formed codec in terms of that codec's own `try_from_ascii`; here the table laws of C05
  (`Laws c spec`, decided by the kernel over the whole extracted table of each built-in codec
  in each build profile) are composed with it, so that "symbol character" means a character
  of the documented alphabet (`Spec/Alphabets.lean`, and the enum declarations read from the
  source for the derived codecs).  Property theorems only.
-/
import BioSeq.Props.C01
import BioSeq.Props.C05
namespace BioSeq
namespace C01
open Seq Spec

/-- `b` is a documented character of the alphabet `spec` (display character or documented alternative) -/
def Documented (spec : List SymSpec) (b : Nat) : Prop := ∃ s ∈ spec, b = s.char ∨ b ∈ s.altChars

/-- a byte is accepted by the codec exactly when it is a documented character -/
theorem accepted_iff_documented (c : Codec) (spec : List SymSpec) (L : C05.Laws c spec) (b : Nat) (hb : b < 256) :
    (c.tryFromAscii b).isSome ↔ Documented spec b := by
  constructor
  · intro h
    obtain ⟨x, hx⟩ := Option.isSome_iff_exists.mp h
    obtain ⟨s, hs, _, hor⟩ := L.ascii_refused b hb x hx
    exact ⟨s, hs, hor⟩
  · rintro ⟨s, hs, h | h⟩
    · subst h; rw [(L.char_rt s hs).2]; rfl
    · rw [L.altchars_rt s hs b h]; rfl

/-- **parsing succeeds exactly when every byte is a character of the documented alphabet** -/
theorem parse_ok_iff_documented (c : Codec) (spec : List SymSpec) (wf : CodecWF c) (L : C05.Laws c spec)
    (bytes : List Nat) (hb : ∀ b ∈ bytes, b < 256) :
    (∃ s, parseBytes c bytes = .ok s) ↔ ∀ b ∈ bytes, Documented spec b := by
  rw [parse_ok_iff c wf]
  constructor
  · intro h b hm; exact (accepted_iff_documented c spec L b (hb b hm)).mp (h b hm)
  · intro h b hm; exact (accepted_iff_documented c spec L b (hb b hm)).mpr (h b hm)

/-- on success the `i`-th symbol is the documented symbol of byte `i` -/
theorem parse_ok_documented_symbols (c : Codec) (spec : List SymSpec) (wf : CodecWF c) (L : C05.Laws c spec)
    (bytes : List Nat) (hb : ∀ b ∈ bytes, b < 256) (s : Bits) (h : parseBytes c bytes = .ok s) :
    len c s = bytes.length ∧
    ∀ i (hi : i < bytes.length), ∃ sp ∈ spec, (bytes[i] = sp.char ∨ bytes[i] ∈ sp.altChars) ∧
      (syms c.width s)[i]? = some sp.code := by
  obtain ⟨hl, _, hmap⟩ := parse_ok_symbols c wf bytes s h
  refine ⟨hl, ?_⟩
  intro i hi
  have hget : (bytes.map c.tryFromAscii)[i]? = ((syms c.width s).map some)[i]? := by rw [hmap]
  simp only [List.getElem?_map, List.getElem?_eq_getElem hi, Option.map_some] at hget
  cases hs : (syms c.width s)[i]? with
  | none => rw [hs] at hget; simp at hget
  | some x =>
    rw [hs] at hget
    simp only [Option.map_some, Option.some.injEq] at hget
    obtain ⟨sp, hsp, hcode, hor⟩ := L.ascii_refused bytes[i] (hb _ (List.getElem_mem hi)) x hget
    exact ⟨sp, hsp, hor, by rw [hcode]⟩

/-- a failed parse reports the first byte that is not a documented character -/
theorem parse_err_first_undocumented (c : Codec) (spec : List SymSpec) (wf : CodecWF c) (L : C05.Laws c spec)
    (bytes : List Nat) (hb : ∀ b ∈ bytes, b < 256) (e : Err) (h : parseBytes c bytes = .error e) :
    ∃ pre b post, bytes = pre ++ b :: post ∧ (∀ x ∈ pre, Documented spec x) ∧ ¬ Documented spec b ∧
      e = .unrecognisedBase b := by
  obtain ⟨pre, b, post, hsplit, hpre, hbad, he⟩ := parse_err_first c wf bytes e h
  refine ⟨pre, b, post, hsplit, ?_, ?_, he⟩
  · intro x hx
    exact (accepted_iff_documented c spec L x (hb x (by rw [hsplit]; simp [hx]))).mp (hpre x hx)
  · intro hd
    have := (accepted_iff_documented c spec L b (hb b (by rw [hsplit]; simp))).mpr hd
    rw [hbad] at this; cases this

/-! ### the seven built-in codecs, both build profiles (tables extracted on this run) -/

theorem dna_parse_ok_iff (p : Profile) (bytes : List Nat) (hb : ∀ b ∈ bytes, b < 256) :
    (∃ s, parseBytes (Gen.dna p) bytes = .ok s) ↔ ∀ b ∈ bytes, Documented Spec.dna b :=
  parse_ok_iff_documented _ _ (wf_dna p) (C05.dna_laws p) bytes hb

theorem text_parse_ok_iff (p : Profile) (bytes : List Nat) (hb : ∀ b ∈ bytes, b < 256) :
    (∃ s, parseBytes (Gen.text p) bytes = .ok s) ↔ ∀ b ∈ bytes, Documented Spec.text b :=
  parse_ok_iff_documented _ _ (wf_text p) (C05.text_laws p) bytes hb

theorem deg_parse_ok_iff (p : Profile) (bytes : List Nat) (hb : ∀ b ∈ bytes, b < 256) :
    (∃ s, parseBytes (Gen.deg p) bytes = .ok s) ↔ ∀ b ∈ bytes, Documented Spec.deg b :=
  parse_ok_iff_documented _ _ (wf_deg p) (C05.deg_laws p) bytes hb

theorem iupac_parse_ok_iff (p : Profile) (bytes : List Nat) (hb : ∀ b ∈ bytes, b < 256) :
    (∃ s, parseBytes (Gen.iupac p) bytes = .ok s) ↔ ∀ b ∈ bytes, Documented (Spec.ofDecl? Gen.decl_iupac) b :=
  parse_ok_iff_documented _ _ (wf_iupac p) (C05.iupac_laws p) bytes hb

theorem amino_parse_ok_iff (p : Profile) (bytes : List Nat) (hb : ∀ b ∈ bytes, b < 256) :
    (∃ s, parseBytes (Gen.amino p) bytes = .ok s) ↔ ∀ b ∈ bytes, Documented (Spec.ofDecl? Gen.decl_amino) b :=
  parse_ok_iff_documented _ _ (wf_amino p) (C05.amino_laws p) bytes hb

theorem mdna_parse_ok_iff (p : Profile) (bytes : List Nat) (hb : ∀ b ∈ bytes, b < 256) :
    (∃ s, parseBytes (Gen.mdna p) bytes = .ok s) ↔ ∀ b ∈ bytes, Documented (Spec.ofDecl? Gen.decl_mdna) b :=
  parse_ok_iff_documented _ _ (wf_mdna p) (C05.mdna_laws p) bytes hb

theorem miupac_parse_ok_iff (p : Profile) (bytes : List Nat) (hb : ∀ b ∈ bytes, b < 256) :
    (∃ s, parseBytes (Gen.miupac p) bytes = .ok s) ↔ ∀ b ∈ bytes, Documented (Spec.ofDecl? Gen.decl_miupac) b :=
  parse_ok_iff_documented _ _ (wf_miupac p) (C05.miupac_laws p) bytes hb

/-- non-vacuity: "ACGT" is documented for DNA and 0xC1 (`'A' | 0x80`) is not -/
example : (∀ b ∈ [65, 67, 71, 84], Documented Spec.dna b) ∧ ¬ Documented Spec.dna 0xC1 := by
  refine ⟨?_, ?_⟩
  · intro b hb
    simp only [List.mem_cons, List.not_mem_nil, or_false] at hb
    rcases hb with rfl | rfl | rfl | rfl
    · exact ⟨⟨0, ch 'A', [], []⟩, by simp [Spec.dna], Or.inl rfl⟩
    · exact ⟨⟨1, ch 'C', [], []⟩, by simp [Spec.dna], Or.inl rfl⟩
    · exact ⟨⟨2, ch 'G', [], []⟩, by simp [Spec.dna], Or.inl rfl⟩
    · exact ⟨⟨3, ch 'T', [], []⟩, by simp [Spec.dna], Or.inl rfl⟩
  · rintro ⟨s, hs, h⟩
    simp only [Spec.dna, List.mem_cons, List.not_mem_nil, or_false] at hs
    rcases hs with rfl | rfl | rfl | rfl <;> simp [ch] at h

end C01
end BioSeq
