/-
  C12, static literals as operands: `|`, `&` and `contains` take `iupac!("…")` literals as operands
  like any other slice.  The compile-time encoder of the `iupac!` macro (its per-character table is
  extracted from `bio-seq-derive` on every run, both build profiles) must therefore give every
  IUPAC letter the code the runtime parser gives it; then all set-algebra theorems of `Props/C12.lean`
  hold for literal operands too.  IUPAC only: the `dna!` encoder is no concern of C12.
  Property theorems only (generic macro lemmas: `Lemmas/MacroLemmas.lean`; both macros: `Props/C16.lean`).
-/
import BioSeq.Lemmas.MacroLemmas
import BioSeq.Checks.WF
import BioSeq.Props.C12
namespace BioSeq
namespace C12
open Macros

/-- the `iupac!` table agrees with the runtime codec on every character the runtime parser accepts
    (decided over the whole 128-entry table regenerated on this run) -/
theorem iupac_literal_table (p : Profile) : C16.tableOk (Gen.iupac p) (iupacTable p) = true := by
  cases p <;> decide +kernel

theorem iupac_literal_tableWF (p : Profile) : C16.TableWF (Gen.iupac p) (iupacTable p) := by
  cases p
  · exact C16.tableWF_of_ok _ _ Gen.iupac_debug_tryFromAscii rfl (by decide +kernel) (iupac_literal_table .debug)
  · exact C16.tableWF_of_ok _ _ Gen.iupac_release_tryFromAscii rfl (by decide +kernel) (iupac_literal_table .release)

/-- a literal of any text the runtime parser accepts is the parsed sequence, bit for bit — so it is
    the same operand for `|`, `&` and `contains` -/
theorem iupac_literal_operand (p : Profile) (cps : List Nat) (v : Bits)
    (h : Seq.parseBytes (Gen.iupac p) cps = .ok v) :
    macroSeq (iupacTable p) 4 cps = .ok (cps.length, v) ∧ (Gen.iupac p).width = 4 :=
  have := C16.macro_eq_runtime (Gen.iupac p) (wf_iupac p) (iupacTable p) (iupac_literal_tableWF p) cps v h
  ⟨by cases p <;> exact this, by cases p <;> rfl⟩

/-- per letter: the sixteen IUPAC letters are encoded by the macro exactly as the runtime codec encodes them -/
theorem iupac_literal_letters (p : Profile) :
    ("ACGTRYSWKMBDHVN-".toList.map Char.toNat).all (fun ch =>
      match (Gen.iupac p).tryFromAscii ch with
      | some code => (macroSeq (iupacTable p) 4 [ch]).toOption == some (1, toBitsLE 4 code)
      | none => false) = true := by
  cases p <;> decide +kernel

end C12
end BioSeq
