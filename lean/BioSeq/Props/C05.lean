/-
  C05 — every codec's tables are mutually consistent and match the documented alphabet.
  Property theorems only; `Laws`, the executable checks and the lifting lemma
  `laws_of_ok` are in Checks/C05.lean.  The tables are the function graphs extracted
  from the compiled crate on this run (both build profiles); the kernel decides every
  statement over the whole 256-entry table.
-/
import BioSeq.Checks.C05
import BioSeq.Props.C05.DnaDebug
import BioSeq.Props.C05.DnaRelease
import BioSeq.Props.C05.TextDebug
import BioSeq.Props.C05.TextRelease
import BioSeq.Props.C05.DegDebug
import BioSeq.Props.C05.DegRelease
import BioSeq.Props.C05.IupacDebug
import BioSeq.Props.C05.IupacRelease
import BioSeq.Props.C05.AminoDebug
import BioSeq.Props.C05.AminoRelease
import BioSeq.Props.C05.MdnaDebug
import BioSeq.Props.C05.MdnaRelease
import BioSeq.Props.C05.MiupacDebug
import BioSeq.Props.C05.MiupacRelease
namespace BioSeq
namespace C05
open Spec

/-! ### the seven built-in codecs, both build profiles -/

theorem dna_laws (p : Profile) : Laws (Gen.dna p) Spec.dna := by
  cases p
  · exact dna_laws_debug
  · exact dna_laws_release

theorem text_laws (p : Profile) : Laws (Gen.text p) Spec.text := by
  cases p
  · exact text_laws_debug
  · exact text_laws_release

theorem deg_laws (p : Profile) : Laws (Gen.deg p) Spec.deg := by
  cases p
  · exact deg_laws_debug
  · exact deg_laws_release

theorem iupac_laws (p : Profile) : Laws (Gen.iupac p) (Spec.ofDecl? Gen.decl_iupac) := by
  cases p
  · exact iupac_laws_debug
  · exact iupac_laws_release

theorem amino_laws (p : Profile) : Laws (Gen.amino p) (Spec.ofDecl? Gen.decl_amino) := by
  cases p
  · exact amino_laws_debug
  · exact amino_laws_release

theorem mdna_laws (p : Profile) : Laws (Gen.mdna p) (Spec.ofDecl? Gen.decl_mdna) := by
  cases p
  · exact mdna_laws_debug
  · exact mdna_laws_release

theorem miupac_laws (p : Profile) : Laws (Gen.miupac p) (Spec.ofDecl? Gen.decl_miupac) := by
  cases p
  · exact miupac_laws_debug
  · exact miupac_laws_release

/-- non-vacuity: the documented tables are the expected non-empty alphabets -/
theorem spec_sizes :
    Spec.dna.length = 4 ∧ Spec.text.length = 5 ∧ Spec.deg.length = 2 ∧
    (Spec.ofDecl? Gen.decl_iupac).length = 16 ∧ (Spec.ofDecl? Gen.decl_amino).length = 21 ∧
    (Spec.ofDecl? Gen.decl_mdna).length = 14 ∧ (Spec.ofDecl? Gen.decl_miupac).length = 32 := by
  decide +kernel

/-! ### the built-in alphabets are the documented ones -/

/-- `A < C < G < T` as `0..3`, displayed as those letters -/
theorem dna_alphabet (p : Profile) :
    (Gen.dna p).items = [0, 1, 2, 3] ∧ (Gen.dna p).items.map (Gen.dna p).toChar = "ACGT".toList.map Char.toNat := by
  cases p <;> decide +kernel

theorem iupac_codes_are_sets (p : Profile) : iupacSetFailures (Gen.iupac p) = [] := by
  cases p <;> decide +kernel

theorem amino_codes_are_codons (p : Profile) : aminoCodonFailures (Gen.amino p) = [] := by
  cases p <;> decide +kernel

theorem comp_pairs (p : Profile) :
    compFailures (Gen.dna p) = [] ∧ compFailures (Gen.iupac p) = [] ∧ compFailures (Gen.mdna p) = [] ∧
    compFailures (Gen.miupac p) = [] ∧ compFailures (Gen.deg p) = [] := by
  cases p <;> decide +kernel

theorem iupac_comp_members (p : Profile) : iupacCompSetFailures (Gen.iupac p) = [] := by
  cases p <;> decide +kernel

end C05
end BioSeq
