/-
  C05 — every codec's tables are mutually consistent and match the documented alphabet.
  Property theorems only; `Laws`, the executable checks and the lifting lemma
  `laws_of_ok` are in Checks/C05.lean.  The tables are the function graphs extracted
  from the compiled crate on this run (both build profiles); the kernel decides every
  statement over the whole 256-entry table.
-/
import BioSeq.Checks.C05
namespace BioSeq
namespace C05
open Spec

/-! ### the seven built-in codecs, both build profiles -/

theorem dna_laws (p : Profile) : Laws (Gen.dna p) Spec.dna :=
  laws_of_ok _ _ (by cases p <;> decide +kernel)

theorem text_laws (p : Profile) : Laws (Gen.text p) Spec.text :=
  laws_of_ok _ _ (by cases p <;> decide +kernel)

theorem deg_laws (p : Profile) : Laws (Gen.deg p) Spec.deg :=
  laws_of_ok _ _ (by cases p <;> decide +kernel)

theorem iupac_laws (p : Profile) : Laws (Gen.iupac p) (Spec.ofDecl? Gen.decl_iupac) :=
  laws_of_ok _ _ (by cases p <;> decide +kernel)

theorem amino_laws (p : Profile) : Laws (Gen.amino p) (Spec.ofDecl? Gen.decl_amino) :=
  laws_of_ok _ _ (by cases p <;> decide +kernel)

theorem mdna_laws (p : Profile) : Laws (Gen.mdna p) (Spec.ofDecl? Gen.decl_mdna) :=
  laws_of_ok _ _ (by cases p <;> decide +kernel)

theorem miupac_laws (p : Profile) : Laws (Gen.miupac p) (Spec.ofDecl? Gen.decl_miupac) :=
  laws_of_ok _ _ (by cases p <;> decide +kernel)

/-- non-vacuity: the documented tables are the expected non-empty alphabets -/
theorem spec_sizes :
    Spec.dna.length = 4 ∧ Spec.text.length = 5 ∧ Spec.deg.length = 2 ∧
    (Spec.ofDecl? Gen.decl_iupac).length = 16 ∧ (Spec.ofDecl? Gen.decl_amino).length = 21 ∧
    (Spec.ofDecl? Gen.decl_mdna).length = 14 ∧ (Spec.ofDecl? Gen.decl_miupac).length = 32 := by
  decide +kernel

/-! ### the built-in alphabets are the documented ones -/

/-- `A < C < G < T` as `0..3`, displayed as those letters -/
theorem dna_alphabet (p : Profile) :
    (Gen.dna p).items = [0, 1, 2, 3] ∧ (Gen.dna p).items.map (Gen.dna p).toChar = "ACGT".toList.map Char.toNat := by
  cases p <;> decide +kernel

theorem iupac_codes_are_sets (p : Profile) : iupacSetFailures (Gen.iupac p) = [] := by
  cases p <;> decide +kernel

theorem amino_codes_are_codons (p : Profile) : aminoCodonFailures (Gen.amino p) = [] := by
  cases p <;> decide +kernel

theorem comp_pairs (p : Profile) :
    compFailures (Gen.dna p) = [] ∧ compFailures (Gen.iupac p) = [] ∧ compFailures (Gen.mdna p) = [] ∧
    compFailures (Gen.miupac p) = [] ∧ compFailures (Gen.deg p) = [] := by
  cases p <;> decide +kernel

theorem iupac_comp_members (p : Profile) : iupacCompSetFailures (Gen.iupac p) = [] := by
  cases p <;> decide +kernel

theorem profiles_agree : Gen.allCodecs.all (fun c => profileDiffs c == [] && (c .debug).items == (c .release).items
    && (c .debug).width == (c .release).width) = true := by
  decide +kernel

end C05
end BioSeq
