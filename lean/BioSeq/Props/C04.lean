/-
  C04 — documented little-endian packing: symbol `i` lives at bits `[i*BITS, (i+1)*BITS)`.

  * the integer of a non-empty sequence / k-mer that fits in one word is `Σ code(symbol i) · 2^(i·BITS)`;
  * decoding an integer below `2^(K·BITS)` as a `K`-mer yields exactly its base-`2^BITS` digits;
  * converting a longer slice to `usize` is refused with `SequenceTooLong`, never truncated;
  * the raw word image of an owned sequence uses the same layout from bit 0 of word 0, and
    `from_raw(n, image)` returns the sequence when the image holds `n` symbols and `None` otherwise.

  Stated for every width `w ≥ 1`, every code list whose codes fit in `w` bits (`Fits`), every
  codec with `CodecWF` where symbols are decoded.  `Seq.fromRaw` multiplies `n` by the width with
  `checked_mul`, hence the side condition `n * width < 2^64` in `fromRaw_none_iff`; the overflow
  case is `fromRaw_overflow_none`.
-/
import BioSeq.Lemmas.PackLemmas
import BioSeq.Checks.WF
namespace BioSeq
namespace C04
open BioSeq.Seq

/-- the code's invariant: the bit length is a multiple of the symbol width -/
def Aligned (c : Codec) (bs : Bits) : Prop := c.width ∣ bs.length

/-! ### 1. the packed integer is `Σ codeᵢ · 2^(i·w)` -/

/-- the value of a packing is the little-endian base-`2^w` number with the codes as digits -/
theorem ofBitsLE_pack (w : Nat) (cs : List Nat) (h : Fits w cs) :
    ofBitsLE (pack w cs) = ofDigitsLE w cs := BioSeq.ofBitsLE_pack w cs h

/-- ... written out as the sum `Σ_{i < n} cs[i] · 2^(i·w)` -/
theorem ofBitsLE_pack_sum (w : Nat) (cs : List Nat) (h : Fits w cs) :
    ofBitsLE (pack w cs) = ((List.range cs.length).map (fun i => cs.getD i 0 * 2 ^ (i * w))).sum := by
  rw [BioSeq.ofBitsLE_pack w cs h, ofDigitsLE_eq_digitSum]; rfl

/-- the recursive and the Σ form agree (no `Fits` needed) -/
theorem ofDigitsLE_eq_sum (w : Nat) (cs : List Nat) :
    ofDigitsLE w cs = ((List.range cs.length).map (fun i => cs.getD i 0 * 2 ^ (i * w))).sum :=
  ofDigitsLE_eq_digitSum w cs

/-- the value determines the codes and conversely (the layout is injective on fitting codes) -/
theorem ofDigitsLE_digits (w : Nat) (cs : List Nat) (h : Fits w cs) :
    digitsLE w cs.length (ofDigitsLE w cs) = cs := digitsLE_ofDigitsLE w cs h

example : ofBitsLE (pack 2 [3, 0, 2, 1]) = 3 * 2 ^ 0 + 0 * 2 ^ 2 + 2 * 2 ^ 4 + 1 * 2 ^ 6 := by decide

/-! ### 2. `usize::try_from(&SeqSlice)`, `u8::from(&SeqSlice)`, `usize::from(Seq)` -/

/-- any bit string of 1..64 bits converts to its little-endian value -/
theorem toUsize_ok (bs : Bits) (h1 : 1 ≤ bs.length) (h2 : bs.length ≤ 64) :
    Seq.toUsize bs = .ok (ofBitsLE bs) := by
  simp [Seq.toUsize, loadLE, h1, h2]

/-- a non-empty sequence that fits in one word converts to `Σ codeᵢ · 2^(i·w)` -/
theorem toUsize_eq_sum (w : Nat) (hw : 1 ≤ w) (cs : List Nat) (hne : cs ≠ []) (h : Fits w cs)
    (hlen : w * cs.length ≤ 64) :
    Seq.toUsize (pack w cs) = .ok (ofDigitsLE w cs) := by
  have hpos : 1 ≤ cs.length := by
    cases cs with
    | nil => exact absurd rfl hne
    | cons _ _ => simp
  have h1 : 1 ≤ (pack w cs).length := by
    rw [pack_length]; exact Nat.mul_le_mul hw hpos
  rw [toUsize_ok _ h1 (by rw [pack_length]; exact hlen), BioSeq.ofBitsLE_pack w cs h]

/-- a slice longer than one word is refused with `SequenceTooLong`, never truncated -/
theorem toUsize_too_long (bs : Bits) (h : bs.length > 64) :
    Seq.toUsize bs = .error .sequenceTooLong := by
  simp [Seq.toUsize, Nat.not_le.mpr h]

/-- the refusal is exact: the conversion succeeds iff the slice has 1..64 bits
    (the empty slice panics inside bitvec's `load_le`, as in the crate) -/
theorem toUsize_ok_iff (bs : Bits) :
    (∃ v, Seq.toUsize bs = .ok v) ↔ 1 ≤ bs.length ∧ bs.length ≤ 64 := by
  constructor
  · rintro ⟨v, hv⟩
    by_cases h2 : bs.length ≤ 64
    · by_cases h1 : 1 ≤ bs.length
      · exact ⟨h1, h2⟩
      · simp [Seq.toUsize, loadLE, h1, h2] at hv
    · simp [Seq.toUsize, h2] at hv
  · rintro ⟨h1, h2⟩
    exact ⟨_, toUsize_ok bs h1 h2⟩

theorem toUsize_empty : Seq.toUsize [] = .error .panic := by decide

/-- `u8::from(&SeqSlice)`: 1..8 bits give the little-endian value -/
theorem toU8_ok (bs : Bits) (h1 : 1 ≤ bs.length) (h2 : bs.length ≤ 8) :
    Seq.toU8 bs = .ok (ofBitsLE bs) := by
  simp [Seq.toU8, loadLE, h1, h2]

theorem toU8_eq_sum (w : Nat) (hw : 1 ≤ w) (cs : List Nat) (hne : cs ≠ []) (h : Fits w cs)
    (hlen : w * cs.length ≤ 8) :
    Seq.toU8 (pack w cs) = .ok (ofDigitsLE w cs) := by
  have hpos : 1 ≤ cs.length := by
    cases cs with
    | nil => exact absurd rfl hne
    | cons _ _ => simp
  have h1 : 1 ≤ (pack w cs).length := by
    rw [pack_length]; exact Nat.mul_le_mul hw hpos
  rw [toU8_ok _ h1 (by rw [pack_length]; exact hlen), BioSeq.ofBitsLE_pack w cs h]

/-- more than 8 bits: a panic (bitvec's `load_le` check), not a truncation -/
theorem toU8_too_long (bs : Bits) (h : bs.length > 8) : Seq.toU8 bs = .error .panic := by
  have : ¬ bs.length ≤ 8 := Nat.not_le.mpr h
  simp [Seq.toU8, loadLE, this]

/-- `usize::from(Seq)` -/
theorem ownedToUsize_ok (bs : Bits) (h1 : 1 ≤ bs.length) (h2 : bs.length ≤ 64) :
    Seq.ownedToUsize bs = .ok (ofBitsLE bs) := by
  simp [Seq.ownedToUsize, loadLE, h1, h2]

theorem ownedToUsize_eq_sum (w : Nat) (hw : 1 ≤ w) (cs : List Nat) (hne : cs ≠ []) (h : Fits w cs)
    (hlen : w * cs.length ≤ 64) :
    Seq.ownedToUsize (pack w cs) = .ok (ofDigitsLE w cs) := by
  have hpos : 1 ≤ cs.length := by
    cases cs with
    | nil => exact absurd rfl hne
    | cons _ _ => simp
  have h1 : 1 ≤ (pack w cs).length := by
    rw [pack_length]; exact Nat.mul_le_mul hw hpos
  rw [ownedToUsize_ok _ h1 (by rw [pack_length]; exact hlen), BioSeq.ofBitsLE_pack w cs h]

/-- an owned sequence longer than one word panics (it is not truncated) -/
theorem ownedToUsize_too_long (bs : Bits) (h : bs.length > 64) : Seq.ownedToUsize bs = .error .panic := by
  have : ¬ bs.length ≤ 64 := Nat.not_le.mpr h
  simp [Seq.ownedToUsize, loadLE, this]

/-- the borrowed and the owned conversion agree wherever the borrowed one succeeds -/
theorem ownedToUsize_eq_toUsize (bs : Bits) (h : bs.length ≤ 64) : Seq.ownedToUsize bs = Seq.toUsize bs := by
  simp [Seq.ownedToUsize, Seq.toUsize, h]

example : Seq.toUsize (pack 2 [3, 0, 2, 1]) = .ok 99 := by decide
example : Seq.toUsize (pack 2 (List.replicate 32 3)) = .ok (2 ^ 64 - 1) := by decide +kernel
example : Seq.toUsize (pack 2 (List.replicate 33 0)) = .error .sequenceTooLong := by decide +kernel
example : Seq.toU8 (pack 4 [9, 15]) = .ok (9 + 15 * 16) := by decide
example : Seq.ownedToUsize (pack 6 [44, 1, 63]) = .ok (44 + 1 * 2 ^ 6 + 63 * 2 ^ 12) := by decide +kernel

/-! ### 3. `Kmer::from(usize)` and back -/

/-- the live bits of the k-mer with storage integer `i` are the packing of `i`'s `K` low digits -/
theorem kmer_bits_eq_pack (c : Codec) (K : Nat) (st : Storage) (i : Nat) (hK : K * c.width ≤ st.bits) :
    Kmer.bits c K st i = pack c.width (digitsLE c.width K i) := by
  rw [pack_digitsLE]
  exact take_toBitsLE st.bits (K * c.width) i hK

/-- `Deref for Kmer<A,K,usize>` exposes the same bits -/
theorem kmer_deref_eq_pack (c : Codec) (K : Nat) (i : Nat) (hK : K * c.width ≤ 64) :
    Kmer.deref c K i = pack c.width (digitsLE c.width K i) := by
  rw [pack_digitsLE]
  exact take_toBitsLE 64 (K * c.width) i hK

/-- decoding an integer as a `K`-mer yields exactly its `K` base-`2^w` digits, symbol 0 least significant -/
theorem kmer_syms_digits (c : Codec) (hw : 1 ≤ c.width) (K : Nat) (st : Storage) (i : Nat)
    (hK : K * c.width ≤ st.bits) :
    syms c.width (Kmer.bits c K st i) = digitsLE c.width K i := by
  rw [kmer_bits_eq_pack c K st i hK]
  exact syms_pack c.width hw _ (digitsLE_fits c.width K i)

/-- ... and for `i < 2^(K·w)` those digits determine `i`: `Σ digitⱼ · 2^(j·w) = i` -/
theorem kmer_digits_value (w K i : Nat) (h : i < 2 ^ (K * w)) : ofDigitsLE w (digitsLE w K i) = i :=
  ofDigitsLE_digitsLE w K i h

/-- integer → k-mer → integer: the k-mer's bits, re-read as one integer, give `i` back -/
theorem kmer_bits_value (c : Codec) (K : Nat) (st : Storage) (i : Nat) (hK : K * c.width ≤ st.bits)
    (h : i < 2 ^ (K * c.width)) : ofBitsLE (Kmer.bits c K st i) = i := by
  rw [kmer_bits_eq_pack c K st i hK, BioSeq.ofBitsLE_pack _ _ (digitsLE_fits _ _ _)]
  exact ofDigitsLE_digitsLE _ _ _ h

/-- symbols → integer → k-mer: the k-mer of `Σ cⱼ · 2^(j·w)` holds exactly the symbols `cs` -/
theorem kmer_of_sum (c : Codec) (hw : 1 ≤ c.width) (st : Storage) (cs : List Nat) (h : Fits c.width cs)
    (hK : cs.length * c.width ≤ st.bits) :
    syms c.width (Kmer.bits c cs.length st (ofDigitsLE c.width cs)) = cs := by
  rw [kmer_syms_digits c hw _ st _ hK, digitsLE_ofDigitsLE _ _ h]

/-- `Display for Kmer`: when every digit is a listed symbol the text is the digits' characters, in order -/
theorem kmer_display (p : Profile) (c : Codec) (wf : CodecWF c) (K : Nat) (st : Storage) (i : Nat)
    (hK : K * c.width ≤ st.bits) (hc : Canon c (digitsLE c.width K i)) :
    Kmer.display p c K st i = .ok ((digitsLE c.width K i).map c.toChar) := by
  unfold Kmer.display
  rw [kmer_bits_eq_pack c K st i hK]
  have := displayChunks_pack p c wf (digitsLE c.width K i) hc
  rwa [digitsLE_length] at this

example : syms 2 (Kmer.bits (Gen.dna .debug) 5 .usize 27) = [3, 2, 1, 0, 0] := by decide +kernel
example : ofDigitsLE 2 [3, 2, 1, 0, 0] = 27 := by decide
example : Canon (Gen.dna .release) (digitsLE (Gen.dna .release).width 5 27) := by unfold Canon; decide +kernel

/-! ### 4. the raw word image (`into_raw` / `from_raw`) -/

/-- number of words = ⌈len / 64⌉ -/
theorem intoRaw_length (bs : Bits) : (Seq.intoRaw bs).length = (bs.length + 63) / 64 := by
  simp [Seq.intoRaw]

/-- the image read back as bits is the content, then zero padding to the word boundary -/
theorem intoRaw_bits (bs : Bits) :
    bitsOfWords (Seq.intoRaw bs) = bs ++ List.replicate (64 * ((bs.length + 63) / 64) - bs.length) false := by
  unfold Seq.intoRaw
  exact bitsOfWords_wordsOf _ bs (by omega)

/-- the content starts at bit 0 of word 0 -/
theorem intoRaw_layout (bs : Bits) : (bitsOfWords (Seq.intoRaw bs)).take bs.length = bs := by
  rw [intoRaw_bits]; exact List.take_left' rfl

/-- every bit past the content is zero -/
theorem intoRaw_padding (bs : Bits) (j : Nat) (h1 : bs.length ≤ j) (h2 : j < 64 * (Seq.intoRaw bs).length) :
    (bitsOfWords (Seq.intoRaw bs))[j]? = some false := by
  rw [intoRaw_length] at h2
  rw [intoRaw_bits, List.getElem?_append_right h1, List.getElem?_replicate]
  have : j - bs.length < 64 * ((bs.length + 63) / 64) - bs.length := by omega
  simp [this]

/-- word `j` is the little-endian value of the 64-bit window `[64j, 64j+64)` of the content -/
theorem intoRaw_word (bs : Bits) (j : Nat) (hj : j < (bs.length + 63) / 64) :
    (Seq.intoRaw bs)[j]? = some (ofBitsLE ((bs.drop (64 * j)).take 64)) := by
  unfold Seq.intoRaw
  rw [wordsOf_getElem?]; simp [hj]

/-- every word is a machine word -/
theorem intoRaw_word_lt (bs : Bits) : ∀ x ∈ Seq.intoRaw bs, x < 2 ^ 64 := by
  intro x hx
  obtain ⟨j, hj, rfl⟩ := List.getElem_of_mem hx
  have hj' : j < (bs.length + 63) / 64 := by rwa [intoRaw_length] at hj
  have h := intoRaw_word bs j hj'
  rw [List.getElem?_eq_getElem hj] at h
  injection h with h
  rw [h]
  have := ofBitsLE_lt ((bs.drop (64 * j)).take 64)
  have hl : ((bs.drop (64 * j)).take 64).length ≤ 64 := by rw [List.length_take]; omega
  exact Nat.lt_of_lt_of_le this (Nat.pow_le_pow_right (by omega) hl)

/-- symbol `i` of a width-`w` sequence sits at bits `[i·w, (i+1)·w)` of the image -/
theorem intoRaw_symbol (w : Nat) (cs : List Nat) (i : Nat) (hi : i < cs.length) :
    ((bitsOfWords (Seq.intoRaw (pack w cs))).drop (w * i)).take w = toBitsLE w cs[i] := by
  rw [intoRaw_bits, List.take_drop]
  have e : w * i + w = w * (i + 1) := by rw [Nat.mul_succ]
  have hle : w * (i + 1) ≤ (pack w cs).length := by
    rw [pack_length]; exact Nat.mul_le_mul_left w hi
  rw [e, List.take_append_of_le_length hle, take_pack, drop_pack, take_drop_single cs i hi]
  simp

/-- hence reading symbol `i` out of the image gives its code -/
theorem intoRaw_symbol_value (w : Nat) (cs : List Nat) (h : Fits w cs) (i : Nat) (hi : i < cs.length) :
    ofBitsLE (((bitsOfWords (Seq.intoRaw (pack w cs))).drop (w * i)).take w) = cs[i] := by
  rw [intoRaw_symbol w cs i hi]
  exact ofBitsLE_toBitsLE w _ (h _ (List.getElem_mem hi))

/-- `from_raw(len, into_raw())` rebuilds an equal sequence -/
theorem fromRaw_intoRaw (c : Codec) (bs : Bits) (hal : Aligned c bs) (hlen : bs.length < W64) :
    Seq.fromRaw c (len c bs) (Seq.intoRaw bs) = some bs := by
  have e : len c bs * c.width = bs.length := by unfold len; exact Nat.div_mul_cancel hal
  unfold Seq.fromRaw
  simp only [e, bitsOfWords_length, intoRaw_length]
  have h2 : bs.length ≤ 64 * ((bs.length + 63) / 64) := by omega
  simp only [hlen, h2, and_self, if_true]
  rw [intoRaw_layout]

/-- `from_raw` returns nothing exactly when the image does not hold `n` symbols -/
theorem fromRaw_none_iff (c : Codec) (n : Nat) (ws : List Nat) (hov : n * c.width < W64) :
    Seq.fromRaw c n ws = none ↔ n * c.width > 64 * ws.length := by
  unfold Seq.fromRaw
  simp only [bitsOfWords_length, hov, true_and]
  by_cases h : n * c.width ≤ 64 * ws.length
  · simp [h]
  · simp [h]; omega

/-- ... and when the bit count overflows `usize` (`checked_mul` fails) -/
theorem fromRaw_overflow_none (c : Codec) (n : Nat) (ws : List Nat) (hov : n * c.width ≥ W64) :
    Seq.fromRaw c n ws = none := by
  unfold Seq.fromRaw
  have : ¬ n * c.width < W64 := Nat.not_lt.mpr hov
  simp [this]

/-- a successful `from_raw` has exactly `n` symbols, namely the first `n·w` bits of the image -/
theorem fromRaw_some (c : Codec) (hw : 1 ≤ c.width) (n : Nat) (ws : List Nat) (bs : Bits)
    (h : Seq.fromRaw c n ws = some bs) :
    bs = (bitsOfWords ws).take (n * c.width) ∧ bs.length = n * c.width ∧ Aligned c bs ∧ len c bs = n
      ∧ n * c.width ≤ 64 * ws.length ∧ n * c.width < W64 := by
  unfold Seq.fromRaw at h
  simp only [bitsOfWords_length] at h
  by_cases hc : n * c.width < W64 ∧ n * c.width ≤ 64 * ws.length
  · simp only [hc, and_self, if_true] at h
    injection h with h
    have hl : bs.length = n * c.width := by
      rw [← h, List.length_take, bitsOfWords_length]; omega
    refine ⟨h.symm, hl, ?_, ?_, hc.2, hc.1⟩
    · unfold Aligned; rw [hl]; exact Nat.dvd_mul_left _ _
    · unfold len; rw [hl]; exact Nat.mul_div_cancel _ (by omega)
  · simp [hc] at h

/-- symbol level: rebuilding from the image of a packing gives the packing back -/
theorem fromRaw_intoRaw_pack (c : Codec) (hw : 1 ≤ c.width) (cs : List Nat) (hlen : cs.length * c.width < W64) :
    Seq.fromRaw c cs.length (Seq.intoRaw (pack c.width cs)) = some (pack c.width cs) := by
  have h := fromRaw_intoRaw c (pack c.width cs)
    (by unfold Aligned; rw [pack_length]; exact Nat.dvd_mul_right _ _)
    (by rw [pack_length, Nat.mul_comm]; exact hlen)
  rwa [len_pack c hw] at h

/-- one more symbol than the image's word count can hold is refused -/
theorem fromRaw_intoRaw_too_many (c : Codec) (bs : Bits) (n : Nat)
    (h : n * c.width > 64 * ((bs.length + 63) / 64)) : Seq.fromRaw c n (Seq.intoRaw bs) = none := by
  by_cases hov : n * c.width < W64
  · rw [fromRaw_none_iff c n _ hov, intoRaw_length]; exact h
  · exact fromRaw_overflow_none c n _ (Nat.le_of_not_lt hov)

-- the crate's doc example: 36 DNA symbols -> two words, word 1 = 0b11100100 ("ACGT")
example : Seq.intoRaw (pack 2 (List.replicate 16 3 ++ List.replicate 16 1 ++ [0, 1, 2, 3]))
    = [0b0101010101010101010101010101010111111111111111111111111111111111, 0b11100100] := by
  decide +kernel
example : Seq.fromRaw (Gen.dna .debug) 36
    [0b0101010101010101010101010101010111111111111111111111111111111111, 0b11100100]
    = some (pack 2 (List.replicate 16 3 ++ List.replicate 16 1 ++ [0, 1, 2, 3])) := by
  decide +kernel
example : Seq.fromRaw (Gen.dna .debug) 65 [0, 0] = none := by decide +kernel
example : Seq.fromRaw (Gen.dna .debug) 64 [0, 0] = some (List.replicate 128 false) := by decide +kernel

/-! ### 5. the README layout table (2-bit DNA, `K = 5`) -/

/-- code points of a text -/
def ascii (s : String) : List Nat := s.toList.map Char.toNat

/-- `Kmer::<Dna,5>::from(i).to_string()` for `i = 0..15`, in both build profiles -/
theorem readme_table (p : Profile) :
    (List.range 16).map (fun i => Kmer.display p (Gen.dna p) 5 .usize i)
      = (["AAAAA", "CAAAA", "GAAAA", "TAAAA", "ACAAA", "CCAAA", "GCAAA", "TCAAA",
          "AGAAA", "CGAAA", "GGAAA", "TGAAA", "ATAAA", "CTAAA", "GTAAA", "TTAAA"].map
          (fun s => Except.ok (ascii s))) := by
  cases p <;> decide +kernel

/-- the table's code assignment -/
example : (Gen.dna .debug).width = 2 ∧ (["A", "C", "G", "T"].map fun s => ascii s)
    = [0, 1, 2, 3].map (fun x => [(Gen.dna .debug).toChar x]) := by decide +kernel

end C04
end BioSeq
