/-
  C19 — cross-codec conversion and trimming preserve the underlying bases.

  Conversion (`Seq::<B>::from(&SeqSlice<A>)`, seq.rs; `From<Dna> for Iupac`, codec/iupac.rs;
  `From<dna::Dna> for text::Dna`, `TryFrom<text::Dna> for dna::Dna`, codec/text.rs): the symbol
  maps are tables extracted from the compiled crate (`Gen.conv_*`), checked exhaustively by the
  kernel in both build profiles; the sequence-level statements are proved for every canonical
  DNA sequence by refinement.  A sequence, a slice and a static literal are all `Bits` in the
  model, so "sequence or slice" is structural (`conv_slice` spells out the slice case).

  Trimming (`Seq::trim_u8`, seq.rs): proved for every codec and every byte string.
-/
import BioSeq.Props.C01
import BioSeq.Standard
import BioSeq.Lemmas.C19Lemmas
namespace BioSeq
namespace C19
open BioSeq.Seq BioSeq.C19L

/-! ### 1. symbol level (finite: decided by the kernel on the extracted tables) -/

/-- the symbol map of a conversion table (`Into::into` on one symbol); the default `0` is never
    used for a table satisfying `ConvOK` -/
def convSym (table : List (Nat × Nat)) (s : Nat) : Nat :=
  match table.find? (fun e => e.1 == s) with
  | some e => e.2
  | none => 0

/-- source symbols whose image is missing, is not a symbol of the target, or displays differently -/
def convFailures (src dst : Codec) (table : List (Nat × Nat)) : List Nat :=
  src.items.filter fun d => match table.find? (fun e => e.1 == d) with
    | some e => !(dst.items.contains e.2 && dst.toChar e.2 == src.toChar d)
    | none => true

/-- every source symbol is converted to a target symbol with the same display character -/
def ConvOK (src dst : Codec) (table : List (Nat × Nat)) : Prop :=
  ∀ s ∈ src.items, ∃ e, table.find? (fun e => e.1 == s) = some e ∧ e.2 ∈ dst.items ∧
    dst.toChar e.2 = src.toChar s

theorem convOK_of_failures (src dst : Codec) (table : List (Nat × Nat)) (h : convFailures src dst table = []) :
    ConvOK src dst table := by
  intro s hs
  have := (List.filter_eq_nil_iff.mp h) s hs
  cases hf : table.find? (fun e => e.1 == s) with
  | none => simp [hf] at this
  | some e =>
    simp only [hf] at this
    simp at this
    exact ⟨e, rfl, this.1, this.2⟩

/-- the DNA codes are `0..3` (A, C, G, T) -/
theorem dna_items (p : Profile) : (Gen.dna p).items = [0, 1, 2, 3] ∧ (Gen.dna p).width = 2 ∧
    [0, 1, 2, 3].map (Gen.dna p).toChar = [65, 67, 71, 84] := by
  cases p <;> decide +kernel

theorem conv_iupac_failures (p : Profile) :
    convFailures (Gen.dna p) (Gen.iupac p) (Standard.convTable p "iupac") = [] := by
  cases p <;> decide +kernel

theorem conv_text_failures (p : Profile) :
    convFailures (Gen.dna p) (Gen.text p) (Standard.convTable p "text") = [] := by
  cases p <;> decide +kernel

/-- **DNA → IUPAC, per symbol**: each DNA code converts to an IUPAC symbol with the same letter -/
theorem conv_iupac_ok (p : Profile) : ConvOK (Gen.dna p) (Gen.iupac p) (Standard.convTable p "iupac") :=
  convOK_of_failures _ _ _ (conv_iupac_failures p)

/-- **DNA → text, per symbol**: each DNA code converts to a text symbol with the same letter -/
theorem conv_text_ok (p : Profile) : ConvOK (Gen.dna p) (Gen.text p) (Standard.convTable p "text") :=
  convOK_of_failures _ _ _ (conv_text_failures p)

/-- the extracted `TryFrom<text::Dna> for dna::Dna` table (indexed by the text byte) -/
def textDnaTable : Profile → List (Option Nat)
  | .debug => Gen.conv_debug_textDna
  | .release => Gen.conv_release_textDna

/-- the error payload table of the same conversion (`UnrecognisedBase(byte)`) -/
def textDnaErrTable : Profile → List Nat
  | .debug => Gen.conv_debug_textDnaErr
  | .release => Gen.conv_release_textDnaErr

/-- `dna::Dna::try_from(text::Dna(b))`, `none` = `Err` -/
def textToDna (p : Profile) (b : Nat) : Option Nat := lookup (textDnaTable p) b

/-- the DNA symbol whose display character is the byte `b`, if any -/
def dnaOfChar (p : Profile) (b : Nat) : Option Nat :=
  (Gen.dna p).items.find? (fun d => (Gen.dna p).toChar d == b)

/-- bytes on which the extracted table differs from "the DNA symbol displayed as this byte" -/
def textDnaFailures (p : Profile) : List Nat :=
  (if (textDnaTable p).length = 256 then [] else [256]) ++
  (List.range 256).filter (fun b => textToDna p b != dnaOfChar p b)

theorem textDna_failures (p : Profile) : textDnaFailures p = [] := by
  cases p <;> decide +kernel

/-- the bytes that convert are exactly `A`, `C`, `G`, `T` (upper case only) -/
theorem textDna_accepted (p : Profile) :
    (List.range 256).filter (fun b => (textToDna p b).isSome) = [65, 67, 71, 84] := by
  cases p <;> decide +kernel

/-- bytes whose reported error payload is not the byte itself -/
def textDnaErrFailures (p : Profile) : List Nat :=
  (List.range 256).filter (fun b => (textToDna p b).isNone && lookupD (textDnaErrTable p) b != b)

theorem textDnaErr_failures (p : Profile) : textDnaErrFailures p = [] := by
  cases p <;> decide +kernel

theorem lookup_ge (t : List (Option Nat)) (b : Nat) (h : t.length ≤ b) : lookup t b = none := by
  unfold lookup
  rw [List.getD_eq_getElem?_getD, List.getElem?_eq_none h]
  rfl

theorem textDna_length (p : Profile) : (textDnaTable p).length = 256 := by
  have h := textDna_failures p
  unfold textDnaFailures at h
  by_cases hl : (textDnaTable p).length = 256
  · exact hl
  · rw [if_neg hl] at h; simp at h

/-- **text → DNA, per byte** (every byte value): the conversion yields the DNA symbol whose
    display character is that byte, and fails when there is none -/
theorem textToDna_spec (p : Profile) (b : Nat) (hb : b < 256) : textToDna p b = dnaOfChar p b := by
  have h := textDna_failures p
  unfold textDnaFailures at h
  rw [List.append_eq_nil_iff] at h
  have := (List.filter_eq_nil_iff.mp h.2) b (List.mem_range.mpr hb)
  simpa using this

/-- **text → DNA succeeds exactly for `A`, `C`, `G`, `T`** — for any `b` (bytes are `< 256`;
    beyond the table the lookup is `none` anyway) -/
theorem textToDna_ok_iff (p : Profile) (b : Nat) :
    (textToDna p b).isSome ↔ b = 65 ∨ b = 67 ∨ b = 71 ∨ b = 84 := by
  by_cases hb : b < 256
  · have h := textDna_accepted p
    have hm : b ∈ (List.range 256).filter (fun b => (textToDna p b).isSome) ↔ b ∈ [65, 67, 71, 84] := by rw [h]
    rw [List.mem_filter, List.mem_range] at hm
    simp only [List.mem_cons, List.mem_nil_iff, or_false] at hm
    constructor
    · intro h1; exact hm.mp ⟨hb, h1⟩
    · intro h1; exact (hm.mpr h1).2
  · have : textToDna p b = none := lookup_ge _ _ (by rw [textDna_length]; omega)
    rw [this]
    constructor
    · intro h; cases h
    · intro h; omega

/-- on success the result is the DNA symbol displayed as that byte (so text → DNA → display is
    the identity on the accepted bytes) -/
theorem textToDna_char (p : Profile) (b d : Nat) (h : textToDna p b = some d) :
    d ∈ (Gen.dna p).items ∧ (Gen.dna p).toChar d = b := by
  have hb : b < 256 := by
    apply Classical.byContradiction
    intro hb
    have : textToDna p b = none := lookup_ge _ _ (by rw [textDna_length]; omega)
    rw [this] at h; cases h
  rw [textToDna_spec p b hb] at h
  unfold dnaOfChar at h
  exact ⟨List.mem_of_find?_eq_some h, by simpa using List.find?_some h⟩

/-- a refused byte is reported back unchanged in `UnrecognisedBase` -/
theorem textToDna_err (p : Profile) (b : Nat) (hb : b < 256) (h : textToDna p b = none) :
    lookupD (textDnaErrTable p) b = b := by
  have hf := textDnaErr_failures p
  unfold textDnaErrFailures at hf
  have := (List.filter_eq_nil_iff.mp hf) b (List.mem_range.mpr hb)
  simpa [h] using this

/-- round trip DNA → text → DNA is the identity, symbol by symbol -/
theorem text_roundtrip (p : Profile) :
    (Gen.dna p).items.map (fun d => textToDna p (convSym (Standard.convTable p "text") d))
      = (Gen.dna p).items.map some := by
  cases p <;> decide +kernel

/-! ### 2. sequence level -/

theorem convSym_of_ok {src dst : Codec} {table : List (Nat × Nat)} (hok : ConvOK src dst table)
    (s : Nat) (hs : s ∈ src.items) :
    (match table.find? (fun e => e.1 == s) with
      | some e => (.ok e.2 : Res Nat)
      | none => .error .panic) = .ok (convSym table s) ∧
    convSym table s ∈ dst.items ∧ dst.toChar (convSym table s) = src.toChar s := by
  obtain ⟨e, he, h1, h2⟩ := hok s hs
  have hcs : convSym table s = e.2 := by simp only [convSym, he]
  rw [hcs, he]
  exact ⟨rfl, h1, h2⟩

/-- **conversion of a whole sequence (any codecs with a display-preserving symbol table)**:
    the result is the symbol-wise image, has the same length and displays as the same letters -/
theorem convert_pack (p : Profile) (src dst : Codec) (wfs : CodecWF src) (wfd : CodecWF dst)
    (table : List (Nat × Nat)) (hok : ConvOK src dst table) (cs : List Nat) (hc : Canon src cs)
    (hov : cs.length * src.width < W64) (hov' : cs.length * dst.width < W64) :
    Standard.convert p src dst table (pack src.width cs) = .ok (pack dst.width (cs.map (convSym table))) ∧
    len dst (pack dst.width (cs.map (convSym table))) = len src (pack src.width cs) ∧
    display p dst (pack dst.width (cs.map (convSym table))) = display p src (pack src.width cs) := by
  have hcan : Canon dst (cs.map (convSym table)) := by
    intro x hx
    obtain ⟨s, hs, rfl⟩ := List.mem_map.mp hx
    exact (convSym_of_ok hok s (hc s hs)).2.1
  refine ⟨?_, ?_, ?_⟩
  · unfold Standard.convert
    rw [iterSyms_pack p src wfs cs hc hov]
    simp only [bind, Except.bind]
    rw [mapM_ok_of_forall (g := convSym table)]
    case h => exact fun s hs => (convSym_of_ok hok s (hc s hs)).1
    have := extend_pack dst wfd.width_le [] (cs.map (convSym table))
    rw [pack_nil, List.nil_append] at this
    simp only [this]
  · rw [len_pack dst wfd.width_pos, len_pack src wfs.width_pos, List.length_map]
  · unfold display
    rw [iterSyms_pack p dst wfd _ hcan (by rw [List.length_map]; exact hov'),
      iterSyms_pack p src wfs cs hc hov]
    simp only [Except.map, List.map_map]
    congr 1
    apply List.map_congr_left
    intro s hs
    exact (convSym_of_ok hok s (hc s hs)).2.2

theorem dna_width (p : Profile) : (Gen.dna p).width = 2 := (dna_items p).2.1
theorem iupac_width (p : Profile) : (Gen.iupac p).width = 4 := by cases p <;> rfl
theorem text_width (p : Profile) : (Gen.text p).width = 8 := by cases p <;> rfl

/-- **`Seq<Iupac>::from(&SeqSlice<Dna>)`**: same length, same letters -/
theorem conv_len_display_iupac (p : Profile) (cs : List Nat) (hc : Canon (Gen.dna p) cs)
    (hov : cs.length * 4 < W64) :
    let r := pack 4 (cs.map (convSym (Standard.convTable p "iupac")))
    Standard.convert p (Gen.dna p) (Gen.iupac p) (Standard.convTable p "iupac") (pack 2 cs) = .ok r ∧
    len (Gen.iupac p) r = len (Gen.dna p) (pack 2 cs) ∧ len (Gen.iupac p) r = cs.length ∧
    display p (Gen.iupac p) r = display p (Gen.dna p) (pack 2 cs) := by
  have h := convert_pack p (Gen.dna p) (Gen.iupac p) (wf_dna p) (wf_iupac p) _ (conv_iupac_ok p) cs hc
    (by rw [dna_width]; omega) (by rw [iupac_width]; exact hov)
  rw [dna_width, iupac_width] at h
  refine ⟨h.1, h.2.1, ?_, h.2.2⟩
  have := len_pack (Gen.iupac p) (wf_iupac p).width_pos (cs.map (convSym (Standard.convTable p "iupac")))
  rw [iupac_width, List.length_map] at this
  exact this

/-- **`Seq<text::Dna>::from(&SeqSlice<Dna>)`**: same length, same letters -/
theorem conv_len_display_text (p : Profile) (cs : List Nat) (hc : Canon (Gen.dna p) cs)
    (hov : cs.length * 8 < W64) :
    let r := pack 8 (cs.map (convSym (Standard.convTable p "text")))
    Standard.convert p (Gen.dna p) (Gen.text p) (Standard.convTable p "text") (pack 2 cs) = .ok r ∧
    len (Gen.text p) r = len (Gen.dna p) (pack 2 cs) ∧ len (Gen.text p) r = cs.length ∧
    display p (Gen.text p) r = display p (Gen.dna p) (pack 2 cs) := by
  have h := convert_pack p (Gen.dna p) (Gen.text p) (wf_dna p) (wf_text p) _ (conv_text_ok p) cs hc
    (by rw [dna_width]; omega) (by rw [text_width]; exact hov)
  rw [dna_width, text_width] at h
  refine ⟨h.1, h.2.1, ?_, h.2.2⟩
  have := len_pack (Gen.text p) (wf_text p).width_pos (cs.map (convSym (Standard.convTable p "text")))
  rw [text_width, List.length_map] at this
  exact this

/-- the slice case spelled out: converting `&s[a..b]` converts the codes `a..b` -/
theorem conv_slice (p : Profile) (src dst : Codec) (wfs : CodecWF src) (wfd : CodecWF dst)
    (table : List (Nat × Nat)) (hok : ConvOK src dst table) (cs : List Nat) (hc : Canon src cs)
    (a b : Nat) (hab : a ≤ b) (hb : b ≤ cs.length)
    (hov : cs.length * src.width < W64) (hov' : cs.length * dst.width < W64) :
    (index p src (pack src.width cs) .range a b >>= Standard.convert p src dst table)
      = .ok (pack dst.width (((cs.take b).drop a).map (convSym table))) := by
  have hbw : b * src.width < W64 := Nat.lt_of_le_of_lt (Nat.mul_le_mul_right _ hb) hov
  rw [index_range_pack p src cs a b hab hb hbw]
  have hlen : ((cs.take b).drop a).length ≤ cs.length := by
    rw [List.length_drop, List.length_take]; omega
  have hc' : Canon src ((cs.take b).drop a) :=
    fun x hx => hc x (List.mem_of_mem_take (List.mem_of_mem_drop hx))
  exact (convert_pack p src dst wfs wfd table hok _ hc'
    (Nat.lt_of_le_of_lt (Nat.mul_le_mul_right _ hlen) hov)
    (Nat.lt_of_le_of_lt (Nat.mul_le_mul_right _ hlen) hov')).1

/-! ### 3. trimming -/

/-- a byte the codec's ASCII parser refuses (as in `trim_u8`: `!try_from_ascii(b).is_some()`) -/
def refused (c : Codec) (b : Nat) : Bool := !(c.tryFromAscii b).isSome

theorem refused_eq_bad (c : Codec) : refused c = C01.bad c := by
  funext b
  unfold refused C01.bad
  cases c.tryFromAscii b <;> rfl

/-- the longest span between the first and the last acceptable byte: strip refused bytes from
    both ends -/
def span (c : Codec) (v : List Nat) : List Nat :=
  ((v.dropWhile (refused c)).reverse.dropWhile (refused c)).reverse

/-- **`trim_u8` = strict parsing of the span between the first and last acceptable bytes**
    (any codec, any input) -/
theorem trim_spec (c : Codec) (v : List Nat) : trim c v = parseBytes c (span c v) := by
  have h1 := drop_findIdx (fun b => (c.tryFromAscii b).isSome) v
  have h2 := take_rfindIdx (fun b => (c.tryFromAscii b).isSome)
    (v.drop ((v.findIdx? (fun b => (c.tryFromAscii b).isSome)).getD v.length))
  exact congrArg (parseBytes c) (h2.trans (by rw [h1]; rfl))

/-- the span really is "between the first and last acceptable bytes": only refused bytes are cut
    off, and the span is empty or starts and ends with an acceptable byte -/
theorem span_decomp (c : Codec) (v : List Nat) :
    ∃ pre post, v = pre ++ span c v ++ post ∧
      (∀ x ∈ pre, c.tryFromAscii x = none) ∧ (∀ x ∈ post, c.tryFromAscii x = none) ∧
      (∀ x, (span c v).head? = some x → (c.tryFromAscii x).isSome) ∧
      (∀ x, (span c v).getLast? = some x → (c.tryFromAscii x).isSome) := by
  obtain ⟨pre, post, h1, h2, h3, h4, h5⟩ := strip_decomp (refused c) v
  refine ⟨pre, post, h1, ?_, ?_, ?_, ?_⟩
  · intro x hx; have := h2 x hx; simpa [refused] using this
  · intro x hx; have := h3 x hx; simpa [refused] using this
  · intro x hx; have := h4 x hx; simpa [refused] using this
  · intro x hx; have := h5 x hx; simpa [refused] using this

/-- ... and it is the only such span: for any decomposition of the input into refused bytes,
    a core that is empty or starts and ends with an acceptable byte, and refused bytes again,
    trimming is strict parsing of the core -/
theorem trim_span (c : Codec) (pre core post : List Nat)
    (hpre : ∀ x ∈ pre, c.tryFromAscii x = none) (hpost : ∀ x ∈ post, c.tryFromAscii x = none)
    (hhead : ∀ x, core.head? = some x → (c.tryFromAscii x).isSome)
    (hlast : ∀ x, core.getLast? = some x → (c.tryFromAscii x).isSome) :
    trim c (pre ++ core ++ post) = parseBytes c core := by
  rw [trim_spec]
  have : span c (pre ++ core ++ post) = core := by
    apply strip_unique (refused c)
    · intro x hx; simp [refused, hpre x hx]
    · intro x hx; simp [refused, hpost x hx]
    · intro x hx; simpa [refused] using hhead x hx
    · intro x hx; simpa [refused] using hlast x hx
  rw [this]

/-- leading and trailing junk around a clean core is removed -/
theorem trim_clean (c : Codec) (pre core post : List Nat)
    (hpre : ∀ x ∈ pre, c.tryFromAscii x = none) (hpost : ∀ x ∈ post, c.tryFromAscii x = none)
    (hcore : ∀ x ∈ core, (c.tryFromAscii x).isSome) :
    trim c (pre ++ core ++ post) = parseBytes c core :=
  trim_span c pre core post hpre hpost
    (fun x hx => hcore x (List.mem_of_mem_head? hx))
    (fun x hx => hcore x (List.mem_of_getLast? hx))

/-- trimming an all-acceptable input is strict parsing -/
theorem trim_valid (c : Codec) (v : List Nat) (h : ∀ x ∈ v, (c.tryFromAscii x).isSome) :
    trim c v = parseBytes c v := by
  have := trim_clean c [] v [] (by simp) (by simp) h
  simpa using this

/-- an input with no acceptable byte gives the empty sequence -/
theorem trim_no_acceptable (c : Codec) (v : List Nat) (h : ∀ x ∈ v, c.tryFromAscii x = none) :
    trim c v = .ok [] := by
  have := trim_span c v [] [] h (by simp) (by simp) (by simp)
  rw [List.append_nil, List.append_nil] at this
  exact this

/-- interior bad bytes are errors: the first refused byte of the span is reported -/
theorem trim_interior_bad (c : Codec) (wf : CodecWF c) (v : List Nat) (b : Nat)
    (h : (span c v).find? (refused c) = some b) : trim c v = .error (.unrecognisedBase b) := by
  rw [trim_spec, C01.parse_spec c wf, ← refused_eq_bad, h]

/-- the same, in decomposition form: junk, acceptable bytes, a refused byte `b`, anything
    ending in an acceptable byte, junk -/
theorem trim_interior_bad' (c : Codec) (wf : CodecWF c) (pre c₁ c₂ post : List Nat) (b l : Nat)
    (hpre : ∀ x ∈ pre, c.tryFromAscii x = none) (hpost : ∀ x ∈ post, c.tryFromAscii x = none)
    (hc₁ : ∀ x ∈ c₁, (c.tryFromAscii x).isSome) (hne : c₁ ≠ []) (hb : c.tryFromAscii b = none)
    (hl : (c.tryFromAscii l).isSome) :
    trim c (pre ++ (c₁ ++ b :: (c₂ ++ [l])) ++ post) = .error (.unrecognisedBase b) := by
  rw [trim_span c pre _ post hpre hpost, C01.parse_spec c wf]
  · have hf : (c₁ ++ b :: (c₂ ++ [l])).find? (C01.bad c) = some b := by
      rw [List.find?_append]
      have : c₁.find? (C01.bad c) = none := by
        rw [List.find?_eq_none]
        intro x hx
        have := hc₁ x hx
        cases hx' : c.tryFromAscii x <;> simp [C01.bad, hx'] at this ⊢
      rw [this]
      simp [C01.bad, hb]
    rw [hf]
  · intro x hx
    cases c₁ with
    | nil => exact absurd rfl hne
    | cons y ys =>
      simp only [List.cons_append, List.head?_cons, Option.some.injEq] at hx
      exact hx ▸ hc₁ y (by simp)
  · intro x hx
    have : (c₁ ++ b :: (c₂ ++ [l])) = (c₁ ++ b :: c₂) ++ [l] := by simp
    rw [this, List.getLast?_concat] at hx
    injection hx with hx
    exact hx ▸ hl

/-- trimming succeeds exactly when every byte of the span is acceptable; the result is then the
    packing of the span's symbols -/
theorem trim_ok_iff (c : Codec) (wf : CodecWF c) (v : List Nat) :
    (∃ s, trim c v = .ok s) ↔ ∀ b ∈ span c v, (c.tryFromAscii b).isSome := by
  rw [trim_spec]
  exact C01.parse_ok_iff c wf (span c v)

/-- on failure the reported byte is the first refused byte after the first acceptable one -/
theorem trim_err_first (c : Codec) (wf : CodecWF c) (v : List Nat) (e : Err) (h : trim c v = .error e) :
    ∃ pre b post, span c v = pre ++ b :: post ∧ (∀ x ∈ pre, (c.tryFromAscii x).isSome) ∧
      c.tryFromAscii b = none ∧ e = .unrecognisedBase b := by
  rw [trim_spec] at h
  exact C01.parse_err_first c wf (span c v) e h

/-! ### 4. examples -/

/-- the doc example of `trim_u8`: `NNNNAGAATGATGGGGGGGGGGGCGNNNNNNNNNNN` over DNA -/
def docInput : List Nat := "NNNNAGAATGATGGGGGGGGGGGCGNNNNNNNNNNN".toList.map Char.toNat
def docCore : List Nat := "AGAATGATGGGGGGGGGGGCG".toList.map Char.toNat

example : trim (Gen.dna .debug) docInput = parseBytes (Gen.dna .debug) docCore := by decide +kernel
example : span (Gen.dna .debug) docInput = docCore := by decide +kernel
example : trim (Gen.dna .release) docInput
    = .ok (pack 2 [0, 2, 0, 0, 3, 2, 0, 3, 2, 2, 2, 2, 2, 2, 2, 2, 2, 2, 2, 1, 2]) := by decide +kernel
/-- the same through the general theorem (`trim_clean` with `pre = NNNN`, `post = N¹¹`) -/
example : trim (Gen.dna .debug) (List.replicate 4 78 ++ docCore ++ List.replicate 11 78)
    = parseBytes (Gen.dna .debug) docCore :=
  trim_clean _ _ _ _ (by decide +kernel) (by decide +kernel) (by decide +kernel)
/-- an interior bad byte is an error, no acceptable byte gives the empty sequence -/
example : trim (Gen.dna .debug) ("NNACNGTNN".toList.map Char.toNat) = .error (.unrecognisedBase 78) := by
  decide +kernel
example : trim (Gen.dna .debug) ("NNNN".toList.map Char.toNat) = .ok [] := by decide +kernel
example : trim (Gen.dna .debug) [] = .ok [] := by decide +kernel

/-- conversion: `ACGT` to IUPAC and to text, and back -/
example : Standard.convert .debug (Gen.dna .debug) (Gen.iupac .debug) (Standard.convTable .debug "iupac")
    (pack 2 [0, 1, 2, 3]) = parseBytes (Gen.iupac .debug) [65, 67, 71, 84] := by decide +kernel
example : Standard.convert .release (Gen.dna .release) (Gen.text .release) (Standard.convTable .release "text")
    (pack 2 [0, 1, 2, 3]) = .ok (pack 8 [65, 67, 71, 84]) := by decide +kernel
example : Canon (Gen.dna .debug) [0, 1, 2, 3, 3, 0] := by unfold Canon; decide +kernel
/-- the general theorems instantiated on `ACGTTA` -/
example := conv_len_display_iupac .debug [0, 1, 2, 3, 3, 0] (by unfold Canon; decide +kernel) (by decide +kernel)
example := conv_len_display_text .release [0, 1, 2, 3, 3, 0] (by unfold Canon; decide +kernel) (by decide +kernel)
example : [65, 67, 71, 84, 78, 97].map (textToDna .debug) = [some 0, some 1, some 2, some 3, none, none] := by
  decide +kernel

end C19
end BioSeq
