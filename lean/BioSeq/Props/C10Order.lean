/-
  C10 (all comparison entry points) — `partial_cmp`, `cmp`, `<`, `<=`, `>`, `>=`, `max`, `min` of
  owned sequences (`BioSeq/Order.lean`).

  The order facts about `Seq.cmp` itself (consistency with equality, swap/antisymmetry,
  transitivity, trichotomy, numeric/colexicographic characterisation on equal lengths, shorter
  suffix smaller) are proved in Props/C10.lean (`C10.seq_cmp_*`); they are *reused* here —
  `cmp_total_order` only bundles them — and lifted to the operators std derives:

  * `partial_cmp` is always `Some(cmp)`, so `<` etc. are the strict/non-strict parts of `cmp`;
  * `<` is a strict total order, `<=` its reflexive closure (`a <= b ↔ ¬ b < a`), `>`/`>=` the converses;
  * `max`/`min` return one of their arguments, bound both, and are the least upper / greatest
    lower bound; on a tie the two arguments are the same sequence, so std's tie rule is unobservable;
  * on equal-length sequences all of them agree with the numeric order of the packed integers,
    i.e. with the k-mer order and with the colexicographic order of the symbol codes.
-/
import BioSeq.Props.C10
import BioSeq.Lemmas.ArrayLemmas
namespace BioSeq
namespace C10Order
open BioSeq.ArrL

/-! ### 1. `partial_cmp` and `cmp` -/

/-- the two impls agree: `partial_cmp` is `Some(cmp)` and never `None` -/
theorem partialCmp_eq (a b : Bits) : Seq.partialCmp a b = some (Seq.cmp a b) := rfl

theorem partialCmp_ne_none (a b : Bits) : Seq.partialCmp a b ≠ none := by
  rw [partialCmp_eq]; intro h; cases h

/-- reflexivity -/
theorem cmp_refl (a : Bits) : Seq.cmp a a = .eq := (C10.seq_cmp_eq_iff a a).mpr rfl

/-- **`cmp` is a total order on bit strings** (bundle of the `C10.seq_cmp_*` theorems): reflexive,
    consistent with equality, antisymmetric, transitive, total -/
theorem cmp_total_order :
    (∀ a : Bits, Seq.cmp a a = .eq) ∧
    (∀ a b : Bits, Seq.cmp a b = .eq ↔ a = b) ∧
    (∀ a b : Bits, Seq.cmp a b = .lt ↔ Seq.cmp b a = .gt) ∧
    (∀ a b c : Bits, Seq.cmp a b = .lt → Seq.cmp b c = .lt → Seq.cmp a c = .lt) ∧
    (∀ a b : Bits, Seq.cmp a b = .lt ∨ a = b ∨ Seq.cmp b a = .lt) := by
  refine ⟨cmp_refl, C10.seq_cmp_eq_iff, C10.seq_cmp_lt_iff_gt, C10.seq_cmp_trans, ?_⟩
  intro a b
  rcases C10.seq_cmp_total a b with h | h | h
  · exact Or.inl h.1
  · exact Or.inr (Or.inl h.2)
  · exact Or.inr (Or.inr h.2.2)

/-! ### 2. `<`, `<=`, `>`, `>=` -/

/-- **`a < b` ⇔ `cmp a b = Less`** -/
theorem lt_iff (a b : Bits) : Seq.lt a b = true ↔ Seq.cmp a b = .lt := by
  unfold Seq.lt Seq.partialCmp
  cases Seq.cmp a b <;> simp

theorem le_iff (a b : Bits) : Seq.le a b = true ↔ Seq.cmp a b ≠ .gt := by
  unfold Seq.le Seq.partialCmp
  cases Seq.cmp a b <;> simp

theorem gt_iff (a b : Bits) : Seq.gt a b = true ↔ Seq.cmp a b = .gt := by
  unfold Seq.gt Seq.partialCmp
  cases Seq.cmp a b <;> simp

theorem ge_iff (a b : Bits) : Seq.ge a b = true ↔ Seq.cmp a b ≠ .lt := by
  unfold Seq.ge Seq.partialCmp
  cases Seq.cmp a b <;> simp

/-- `a > b` is `b < a`, `a >= b` is `b <= a` (as values, not just as propositions) -/
theorem gt_eq_lt (a b : Bits) : Seq.gt a b = Seq.lt b a := by
  unfold Seq.gt Seq.lt Seq.partialCmp
  rw [C10.seq_cmp_swap a b]
  cases Seq.cmp a b <;> rfl

theorem ge_eq_le (a b : Bits) : Seq.ge a b = Seq.le b a := by
  unfold Seq.ge Seq.le Seq.partialCmp
  rw [C10.seq_cmp_swap a b]
  cases Seq.cmp a b <;> rfl

/-- **`a <= b` ⇔ `¬ b < a`** -/
theorem le_iff_not_lt (a b : Bits) : Seq.le a b = true ↔ ¬ Seq.lt b a = true := by
  rw [le_iff, lt_iff, C10.seq_cmp_lt_iff_gt b a]

/-- `a < b` ⇔ `¬ b <= a` -/
theorem lt_iff_not_le (a b : Bits) : Seq.lt a b = true ↔ ¬ Seq.le b a = true := by
  rw [le_iff, lt_iff, C10.seq_cmp_lt_iff_gt a b]
  exact ⟨fun h hn => hn h, fun h => Classical.byContradiction fun hn => h hn⟩

/-- `<=` is `<` or equal -/
theorem le_iff_lt_or_eq (a b : Bits) : Seq.le a b = true ↔ Seq.lt a b = true ∨ a = b := by
  rw [le_iff, lt_iff, ← C10.seq_cmp_eq_iff a b]
  cases Seq.cmp a b <;> simp

/-- `<` is `<=` and different -/
theorem lt_iff_le_and_ne (a b : Bits) : Seq.lt a b = true ↔ Seq.le a b = true ∧ a ≠ b := by
  have e := C10.seq_cmp_eq_iff a b
  rw [le_iff, lt_iff]
  show _ ↔ _ ∧ ¬ (a = b)
  rw [← e]
  cases Seq.cmp a b <;> simp

theorem lt_irrefl (a : Bits) : Seq.lt a a = false := by
  have := lt_iff a a
  rw [cmp_refl] at this
  cases h : Seq.lt a a with
  | false => rfl
  | true => exact absurd (this.mp h) (by decide)

theorem lt_asymm (a b : Bits) (h : Seq.lt a b = true) : Seq.lt b a = false := by
  cases h' : Seq.lt b a with
  | false => rfl
  | true =>
    rw [lt_iff] at h h'
    rw [C10.seq_cmp_lt_iff_gt a b, h'] at h
    cases h

/-- **transitivity of `<`** -/
theorem lt_trans (a b c : Bits) (h1 : Seq.lt a b = true) (h2 : Seq.lt b c = true) : Seq.lt a c = true := by
  rw [lt_iff] at *
  exact C10.seq_cmp_trans a b c h1 h2

theorem le_refl (a : Bits) : Seq.le a a = true := by
  rw [le_iff, cmp_refl]; decide

theorem le_antisymm (a b : Bits) (h1 : Seq.le a b = true) (h2 : Seq.le b a = true) : a = b := by
  rcases (le_iff_lt_or_eq a b).mp h1 with h | h
  · rw [lt_iff_not_le] at h; exact absurd h2 h
  · exact h

/-- **transitivity of `<=`** -/
theorem le_trans (a b c : Bits) (h1 : Seq.le a b = true) (h2 : Seq.le b c = true) : Seq.le a c = true := by
  rw [le_iff] at *
  exact cmp_ne_gt_trans a b c h1 h2

/-- **totality of `<=`** -/
theorem le_total (a b : Bits) : Seq.le a b = true ∨ Seq.le b a = true := by
  rw [le_iff, le_iff, C10.seq_cmp_swap a b]
  cases Seq.cmp a b <;> simp [Ordering.swap]

/-- **trichotomy of `<`**: exactly one of `a < b`, `a = b`, `b < a` -/
theorem lt_trichotomy (a b : Bits) :
    (Seq.lt a b = true ∧ a ≠ b ∧ Seq.lt b a = false) ∨
    (Seq.lt a b = false ∧ a = b ∧ Seq.lt b a = false) ∨
    (Seq.lt a b = false ∧ a ≠ b ∧ Seq.lt b a = true) := by
  rcases C10.seq_cmp_total a b with ⟨h, hne⟩ | ⟨_, he⟩ | ⟨_, hne, h⟩
  · have := (lt_iff a b).mpr h
    exact Or.inl ⟨this, hne, lt_asymm a b this⟩
  · subst he
    exact Or.inr (Or.inl ⟨lt_irrefl a, rfl, lt_irrefl a⟩)
  · have := (lt_iff b a).mpr h
    exact Or.inr (Or.inr ⟨lt_asymm b a this, hne, this⟩)

theorem lt_of_lt_of_le (a b c : Bits) (h1 : Seq.lt a b = true) (h2 : Seq.le b c = true) : Seq.lt a c = true := by
  rcases (le_iff_lt_or_eq b c).mp h2 with h | h
  · exact lt_trans a b c h1 h
  · rw [← h]; exact h1

theorem lt_of_le_of_lt (a b c : Bits) (h1 : Seq.le a b = true) (h2 : Seq.lt b c = true) : Seq.lt a c = true := by
  rcases (le_iff_lt_or_eq a b).mp h1 with h | h
  · exact lt_trans a b c h h2
  · rw [h]; exact h2

/-- the four operators are decided by `cmp` alone -/
theorem ops_of_cmp (a b : Bits) :
    (Seq.cmp a b = .lt → Seq.lt a b = true ∧ Seq.le a b = true ∧ Seq.gt a b = false ∧ Seq.ge a b = false) ∧
    (Seq.cmp a b = .eq → Seq.lt a b = false ∧ Seq.le a b = true ∧ Seq.gt a b = false ∧ Seq.ge a b = true) ∧
    (Seq.cmp a b = .gt → Seq.lt a b = false ∧ Seq.le a b = false ∧ Seq.gt a b = true ∧ Seq.ge a b = true) := by
  unfold Seq.lt Seq.le Seq.gt Seq.ge Seq.partialCmp
  cases Seq.cmp a b <;> simp

/-! ### 3. `max`, `min` -/

/-- **`max` returns one of its arguments** -/
theorem max_mem (a b : Bits) : Seq.max a b = a ∨ Seq.max a b = b := by
  unfold Seq.max; split
  · exact Or.inl rfl
  · exact Or.inr rfl

/-- **`min` returns one of its arguments** -/
theorem min_mem (a b : Bits) : Seq.min a b = a ∨ Seq.min a b = b := by
  unfold Seq.min; split
  · exact Or.inr rfl
  · exact Or.inl rfl

/-- which one: the first exactly when it is not smaller ... -/
theorem max_eq_left_iff (a b : Bits) : Seq.max a b = a ↔ Seq.le b a = true := by
  unfold Seq.max
  rw [le_iff, C10.seq_cmp_swap a b]
  by_cases h : Seq.cmp a b = .gt
  · simp [h, Ordering.swap]
  · rw [if_neg h]
    constructor
    · intro e; subst e; rw [cmp_refl]; decide
    · intro hs
      cases hc : Seq.cmp a b with
      | gt => exact absurd hc h
      | eq => exact ((C10.seq_cmp_eq_iff a b).mp hc).symm
      | lt => rw [hc] at hs; exact absurd rfl hs

theorem max_eq_right_iff (a b : Bits) : Seq.max a b = b ↔ Seq.le a b = true := by
  unfold Seq.max
  rw [le_iff]
  by_cases h : Seq.cmp a b = .gt
  · rw [if_pos h]
    constructor
    · intro e; subst e; rw [cmp_refl] at h; cases h
    · intro hn; exact absurd h hn
  · simp [h]

theorem min_eq_left_iff (a b : Bits) : Seq.min a b = a ↔ Seq.le a b = true := by
  unfold Seq.min
  rw [le_iff]
  by_cases h : Seq.cmp a b = .gt
  · rw [if_pos h]
    constructor
    · intro e; subst e; rw [cmp_refl] at h; cases h
    · intro hn; exact absurd h hn
  · simp [h]

theorem min_eq_right_iff (a b : Bits) : Seq.min a b = b ↔ Seq.le b a = true := by
  unfold Seq.min
  rw [le_iff, C10.seq_cmp_swap a b]
  by_cases h : Seq.cmp a b = .gt
  · simp [h, Ordering.swap]
  · rw [if_neg h]
    constructor
    · intro e; subst e; rw [cmp_refl]; decide
    · intro hs
      cases hc : Seq.cmp a b with
      | gt => exact absurd hc h
      | eq => exact (C10.seq_cmp_eq_iff a b).mp hc
      | lt => rw [hc] at hs; exact absurd rfl hs

/-- **`min` is a lower bound of both** -/
theorem min_le (a b : Bits) : Seq.le (Seq.min a b) a = true ∧ Seq.le (Seq.min a b) b = true := by
  rcases le_total a b with h | h
  · rw [(min_eq_left_iff a b).mpr h]; exact ⟨le_refl a, h⟩
  · rw [(min_eq_right_iff a b).mpr h]; exact ⟨h, le_refl b⟩

/-- **`max` is an upper bound of both** -/
theorem le_max (a b : Bits) : Seq.le a (Seq.max a b) = true ∧ Seq.le b (Seq.max a b) = true := by
  rcases le_total a b with h | h
  · rw [(max_eq_right_iff a b).mpr h]; exact ⟨h, le_refl b⟩
  · rw [(max_eq_left_iff a b).mpr h]; exact ⟨le_refl a, h⟩

/-- ... the least one -/
theorem max_le (a b c : Bits) (h1 : Seq.le a c = true) (h2 : Seq.le b c = true) : Seq.le (Seq.max a b) c = true := by
  rcases max_mem a b with h | h <;> rw [h] <;> assumption

/-- ... the greatest one -/
theorem le_min (a b c : Bits) (h1 : Seq.le c a = true) (h2 : Seq.le c b = true) : Seq.le c (Seq.min a b) = true := by
  rcases min_mem a b with h | h <;> rw [h] <;> assumption

/-- std's tie rule (`max` returns the second, `min` the first argument on `Equal`) is
    unobservable, since a tie means the same bit string: both are commutative -/
theorem max_comm (a b : Bits) : Seq.max a b = Seq.max b a :=
  le_antisymm _ _ (max_le a b _ (le_max b a).2 (le_max b a).1) (max_le b a _ (le_max a b).2 (le_max a b).1)

theorem min_comm (a b : Bits) : Seq.min a b = Seq.min b a :=
  le_antisymm _ _ (le_min b a _ (min_le a b).2 (min_le a b).1) (le_min a b _ (min_le b a).2 (min_le b a).1)

theorem max_self (a : Bits) : Seq.max a a = a := by
  rcases max_mem a a with h | h <;> exact h

theorem min_self (a : Bits) : Seq.min a a = a := by
  rcases min_mem a a with h | h <;> exact h

/-- `min` and `max` split the pair -/
theorem min_max_split (a b : Bits) :
    (Seq.min a b = a ∧ Seq.max a b = b) ∨ (Seq.min a b = b ∧ Seq.max a b = a) := by
  unfold Seq.min Seq.max
  by_cases h : Seq.cmp a b = .gt
  · rw [if_pos h, if_pos h]; exact Or.inr ⟨rfl, rfl⟩
  · rw [if_neg h, if_neg h]; exact Or.inl ⟨rfl, rfl⟩

theorem min_le_max (a b : Bits) : Seq.le (Seq.min a b) (Seq.max a b) = true :=
  le_trans _ a _ (min_le a b).1 (le_max a b).1

/-! ### 4. consistency with the packed integers (k-mer order) and the colexicographic order -/

/-- **equal lengths: `<` is `<` of the packed integers** -/
theorem lt_iff_value (a b : Bits) (hl : a.length = b.length) :
    Seq.lt a b = true ↔ ofBitsLE a < ofBitsLE b := by
  rw [lt_iff, C10.seq_cmp_eq_compare a b hl, Nat.compare_eq_lt]

/-- **equal lengths: `<=` is `≤` of the packed integers** -/
theorem le_iff_value (a b : Bits) (hl : a.length = b.length) :
    Seq.le a b = true ↔ ofBitsLE a ≤ ofBitsLE b := by
  rw [le_iff_not_lt, lt_iff_value b a hl.symm]
  omega

theorem gt_iff_value (a b : Bits) (hl : a.length = b.length) :
    Seq.gt a b = true ↔ ofBitsLE a > ofBitsLE b := by
  rw [gt_eq_lt, lt_iff_value b a hl.symm]

theorem ge_iff_value (a b : Bits) (hl : a.length = b.length) :
    Seq.ge a b = true ↔ ofBitsLE a ≥ ofBitsLE b := by
  rw [ge_eq_le, le_iff_value b a hl.symm]

/-- **the max of two equal-length sequences is the one with the larger packed integer** -/
theorem max_eq_of_value (a b : Bits) (hl : a.length = b.length) :
    Seq.max a b = if ofBitsLE b < ofBitsLE a then a else b := by
  unfold Seq.max
  rw [C10.seq_cmp_eq_compare a b hl]
  by_cases h : ofBitsLE b < ofBitsLE a
  · rw [if_pos h, if_pos (Nat.compare_eq_gt.mpr h)]
  · rw [if_neg h, if_neg (fun hc => h (Nat.compare_eq_gt.mp hc))]

/-- **the min of two equal-length sequences is the one with the smaller packed integer** -/
theorem min_eq_of_value (a b : Bits) (hl : a.length = b.length) :
    Seq.min a b = if ofBitsLE b < ofBitsLE a then b else a := by
  unfold Seq.min
  rw [C10.seq_cmp_eq_compare a b hl]
  by_cases h : ofBitsLE b < ofBitsLE a
  · rw [if_pos h, if_pos (Nat.compare_eq_gt.mpr h)]
  · rw [if_neg h, if_neg (fun hc => h (Nat.compare_eq_gt.mp hc))]

/-- ... so packing commutes with `max` / `min`: the integer of the max is the max of the integers -/
theorem value_max (a b : Bits) (hl : a.length = b.length) :
    ofBitsLE (Seq.max a b) = max (ofBitsLE a) (ofBitsLE b) := by
  rw [max_eq_of_value a b hl]
  split <;> omega

theorem value_min (a b : Bits) (hl : a.length = b.length) :
    ofBitsLE (Seq.min a b) = min (ofBitsLE a) (ofBitsLE b) := by
  rw [min_eq_of_value a b hl]
  split <;> omega

/-- **symbol level: `<` on equal-length sequences is the strict colexicographic order of the codes**
    (= the k-mer order, `C10.kmer_lt_iff_colex`) -/
theorem lt_pack_iff_colex (w : Nat) (as bs : List Nat) (hl : as.length = bs.length)
    (ha : Fits w as) (hb : Fits w bs) :
    Seq.lt (pack w as) (pack w bs) = true ↔ C10.colexLt as bs = true := by
  rw [lt_iff]; exact C10.seq_lt_iff_colex w as bs hl ha hb

/-- `<` on equal-length sequences is `<` of the k-mers holding the same symbols -/
theorem lt_pack_iff_kmer (w : Nat) (as bs : List Nat) (hl : as.length = bs.length) :
    Seq.lt (pack w as) (pack w bs) = true ↔ ofBitsLE (pack w as) < ofBitsLE (pack w bs) :=
  lt_iff_value _ _ (by rw [pack_length, pack_length, hl])

theorem le_pack_iff_colex (w : Nat) (as bs : List Nat) (hl : as.length = bs.length)
    (ha : Fits w as) (hb : Fits w bs) :
    Seq.le (pack w as) (pack w bs) = true ↔ C10.colexLt bs as = false := by
  rw [le_iff_not_lt, lt_pack_iff_colex w bs as hl.symm hb ha]
  cases C10.colexLt bs as <;> simp

/-- all eight entry points on equal-length packed sequences, through `colexCmp` -/
theorem cmp_pack_colex (w : Nat) (as bs : List Nat) (hl : as.length = bs.length)
    (ha : Fits w as) (hb : Fits w bs) :
    Seq.partialCmp (pack w as) (pack w bs) = some (C10.colexCmp as bs) ∧
    Seq.cmp (pack w as) (pack w bs) = C10.colexCmp as bs := by
  rw [partialCmp_eq, C10.seq_cmp_eq_colexCmp w as bs hl ha hb]
  exact ⟨rfl, rfl⟩

/-- **the max of two equal-length sequences is the colexicographically larger one** -/
theorem max_pack (w : Nat) (as bs : List Nat) (hl : as.length = bs.length)
    (ha : Fits w as) (hb : Fits w bs) :
    Seq.max (pack w as) (pack w bs) = pack w (if C10.colexLt bs as = true then as else bs) := by
  unfold Seq.max
  have h : Seq.cmp (pack w as) (pack w bs) = .gt ↔ C10.colexLt bs as = true := by
    rw [← C10.seq_cmp_lt_iff_gt (pack w bs) (pack w as)]
    exact C10.seq_lt_iff_colex w bs as hl.symm hb ha
  by_cases hc : C10.colexLt bs as = true
  · rw [if_pos hc, if_pos (h.mpr hc)]
  · rw [if_neg hc, if_neg (fun x => hc (h.mp x))]

theorem min_pack (w : Nat) (as bs : List Nat) (hl : as.length = bs.length)
    (ha : Fits w as) (hb : Fits w bs) :
    Seq.min (pack w as) (pack w bs) = pack w (if C10.colexLt bs as = true then bs else as) := by
  unfold Seq.min
  have h : Seq.cmp (pack w as) (pack w bs) = .gt ↔ C10.colexLt bs as = true := by
    rw [← C10.seq_cmp_lt_iff_gt (pack w bs) (pack w as)]
    exact C10.seq_lt_iff_colex w bs as hl.symm hb ha
  by_cases hc : C10.colexLt bs as = true
  · rw [if_pos hc, if_pos (h.mpr hc)]
  · rw [if_neg hc, if_neg (fun x => hc (h.mp x))]

/-- different lengths: a proper suffix (same high-order end) is smaller under every operator -/
theorem lt_suffix (pre a : Bits) (hne : pre ≠ []) :
    Seq.lt a (pre ++ a) = true ∧ Seq.le a (pre ++ a) = true ∧ Seq.gt (pre ++ a) a = true ∧
    Seq.max a (pre ++ a) = pre ++ a ∧ Seq.min a (pre ++ a) = a := by
  have h := (lt_iff a (pre ++ a)).mpr (C10.seq_cmp_suffix pre a hne)
  have hle := (le_iff_lt_or_eq a (pre ++ a)).mpr (Or.inl h)
  exact ⟨h, hle, by rw [gt_eq_lt]; exact h, (max_eq_right_iff _ _).mpr hle, (min_eq_left_iff _ _).mpr hle⟩

/-! ### 5. non-vacuity -/

-- DNA "CA" < "AC": the last symbol decides
example : Seq.partialCmp (pack 2 [1, 0]) (pack 2 [0, 1]) = some .lt := by decide
example : Seq.lt (pack 2 [1, 0]) (pack 2 [0, 1]) = true ∧ Seq.le (pack 2 [1, 0]) (pack 2 [0, 1]) = true ∧
    Seq.gt (pack 2 [1, 0]) (pack 2 [0, 1]) = false ∧ Seq.ge (pack 2 [1, 0]) (pack 2 [0, 1]) = false := by decide
example : Seq.max (pack 2 [1, 0]) (pack 2 [0, 1]) = pack 2 [0, 1] ∧
    Seq.min (pack 2 [1, 0]) (pack 2 [0, 1]) = pack 2 [1, 0] := by decide
example : Seq.max (pack 2 [0, 1]) (pack 2 [1, 0]) = pack 2 [0, 1] := by decide
example : ofBitsLE (Seq.max (pack 2 [1, 0]) (pack 2 [0, 1])) = 4 ∧ max (ofBitsLE (pack 2 [1, 0])) (ofBitsLE (pack 2 [0, 1])) = 4 := by
  decide
example := value_max (pack 2 [1, 0]) (pack 2 [0, 1]) rfl
example := max_pack 2 [1, 0] [0, 1] rfl (by unfold Fits; decide) (by unfold Fits; decide)
-- ties: `<=` and `>=` hold, `<` and `>` do not
example : Seq.le (pack 2 [2, 3]) (pack 2 [2, 3]) = true ∧ Seq.ge (pack 2 [2, 3]) (pack 2 [2, 3]) = true ∧
    Seq.lt (pack 2 [2, 3]) (pack 2 [2, 3]) = false ∧ Seq.gt (pack 2 [2, 3]) (pack 2 [2, 3]) = false := by decide
-- different lengths: "T" < "AT" (shorter, same high end) but "T" > "TA" (high symbol A < T)
example : Seq.lt (pack 2 [3]) (pack 2 [0, 3]) = true ∧ Seq.gt (pack 2 [3]) (pack 2 [3, 0]) = true ∧
    Seq.max (pack 2 [3]) (pack 2 [0, 3]) = pack 2 [0, 3] ∧ Seq.min (pack 2 [3]) (pack 2 [3, 0]) = pack 2 [3, 0] := by
  decide
example := lt_suffix (pack 2 [0]) (pack 2 [3]) (by decide)
example := le_trans (pack 2 [1, 0]) (pack 2 [0, 1]) (pack 2 [0, 1, 1]) (by decide) (by decide)

end C10Order
end BioSeq
