/-
  C12 — IUPAC sequences behave as per-position nucleotide sets under `|`, `&` and `contains`.

  Model functions: `Seq.bitAnd` / `Seq.bitOr` (= `bitop` on the bit strings; the borrowed form
  `&a & &b` of seq/slice.rs and the owned form `bit_and` of seq.rs are this same function — in
  the model's value semantics a sequence or slice *is* its `Bits`, so "borrowed and owned alike"
  is `rfl`), `Translation.contains` (length test, then `(self & rhs) == rhs`), the extracted
  conversion table `Dna -> Iupac`, and the complement table of `Gen.iupac p`.

  Layout of the file
    1. chunk level, any width `w`: `&`/`|` on packings = position-wise `&&&`/`|||` on codes
       (equal lengths), result length = LEFT length for unequal lengths (with the exact result);
    2. set semantics of a 4-bit one-hot code (`setOf`), tied to the documented IUPAC letters;
    3. sequence level: `or_union`, `and_inter`, `contains_iff`;
    4. `From<Dna> for Iupac` gives singletons;  5. complement complements each member;
    6. examples (incl. the two doc-tests of codec/iupac.rs).
-/
import BioSeq.Lemmas.BitopLemmas
import BioSeq.Checks.WF
import BioSeq.Props.C03
import BioSeq.Standard
import BioSeq.Spec.Alphabets
namespace BioSeq
namespace C12
open BioSeq.Seq
open BioSeq.C03 (Aligned aligned_pack eq_pack)

/-! ### 1. chunk level (any symbol width) -/

/-- `a & b` on sequences of equally many symbols: position-wise `&&&` of the codes -/
theorem bitAnd_pack (w : Nat) (as bs : List Nat) (h : as.length = bs.length) :
    Seq.bitAnd (pack w as) (pack w bs) = pack w (List.zipWith (· &&& ·) as bs) :=
  bitop_pack _ _ w (bitop_and_toBitsLE w) as bs h

/-- `a | b` on sequences of equally many symbols: position-wise `|||` of the codes -/
theorem bitOr_pack (w : Nat) (as bs : List Nat) (h : as.length = bs.length) :
    Seq.bitOr (pack w as) (pack w bs) = pack w (List.zipWith (· ||| ·) as bs) :=
  bitop_pack _ _ w (bitop_or_toBitsLE w) as bs h

/-- the results stay in range (so `syms` reads them back: `syms_pack`) -/
theorem fits_and (w : Nat) (as bs : List Nat) (hb : Fits w bs) : Fits w (List.zipWith (· &&& ·) as bs) :=
  fits_zipWith_and w as bs hb
theorem fits_or (w : Nat) (as bs : List Nat) (ha : Fits w as) (hb : Fits w bs) :
    Fits w (List.zipWith (· ||| ·) as bs) := fits_zipWith_or w as bs ha hb

/-- unequal lengths: the result always has the bit length (hence the symbol count) of the LEFT
    operand — any two bit strings, aligned or not -/
theorem bitAnd_length (a b : Bits) : (Seq.bitAnd a b).length = a.length := bitop_length _ a b
theorem bitOr_length (a b : Bits) : (Seq.bitOr a b).length = a.length := bitop_length _ a b
theorem bitAnd_len (c : Codec) (a b : Bits) : len c (Seq.bitAnd a b) = len c a := by
  simp only [len, bitAnd_length]
theorem bitOr_len (c : Codec) (a b : Bits) : len c (Seq.bitOr a b) = len c a := by
  simp only [len, bitOr_length]

/-- left operand longer: the surplus symbols are ANDed with nothing and become code 0 ... -/
theorem bitAnd_pack_left_longer (w : Nat) (as extra bs : List Nat) (h : as.length = bs.length) :
    Seq.bitAnd (pack w (as ++ extra)) (pack w bs)
      = pack w (List.zipWith (· &&& ·) as bs ++ extra.map (fun _ => 0)) :=
  bitop_pack_left_longer _ _ _ w (bitop_and_toBitsLE w) (bitop_and_toBitsLE_nil w) as extra bs h

/-- ... and ORed with nothing they are kept -/
theorem bitOr_pack_left_longer (w : Nat) (as extra bs : List Nat) (h : as.length = bs.length) :
    Seq.bitOr (pack w (as ++ extra)) (pack w bs) = pack w (List.zipWith (· ||| ·) as bs ++ extra) := by
  have := bitop_pack_left_longer _ _ id w (bitop_or_toBitsLE w) (bitop_or_toBitsLE_nil w) as extra bs h
  simpa [Seq.bitOr] using this

/-- left operand shorter: the surplus symbols of the right operand are dropped -/
theorem bitAnd_pack_left_shorter (w : Nat) (as bs extra : List Nat) (h : as.length = bs.length) :
    Seq.bitAnd (pack w as) (pack w (bs ++ extra)) = pack w (List.zipWith (· &&& ·) as bs) :=
  bitop_pack_left_shorter _ _ w (bitop_and_toBitsLE w) as bs extra h
theorem bitOr_pack_left_shorter (w : Nat) (as bs extra : List Nat) (h : as.length = bs.length) :
    Seq.bitOr (pack w as) (pack w (bs ++ extra)) = pack w (List.zipWith (· ||| ·) as bs) :=
  bitop_pack_left_shorter _ _ w (bitop_or_toBitsLE w) as bs extra h

/-- symbol view, any two aligned sequences of the same codec with equally many symbols -/
theorem bitAnd_syms (c : Codec) (hw : 1 ≤ c.width) (a b : Bits) (ha : Aligned c a) (hb : Aligned c b)
    (hl : len c a = len c b) :
    Aligned c (Seq.bitAnd a b) ∧
    syms c.width (Seq.bitAnd a b) = List.zipWith (· &&& ·) (syms c.width a) (syms c.width b) := by
  have ea := eq_pack c hw a ha
  have eb := eq_pack c hw b hb
  have hl' : (syms c.width a).length = (syms c.width b).length := by rw [← C03.len_eq, ← C03.len_eq, hl]
  have e : Seq.bitAnd a b = pack c.width (List.zipWith (· &&& ·) (syms c.width a) (syms c.width b)) := by
    conv => lhs; rw [ea, eb]
    exact bitAnd_pack c.width _ _ hl'
  rw [e]
  exact ⟨aligned_pack c _, syms_pack c.width hw _ (fits_and c.width _ _ (fits_syms c.width hw b hb))⟩

theorem bitOr_syms (c : Codec) (hw : 1 ≤ c.width) (a b : Bits) (ha : Aligned c a) (hb : Aligned c b)
    (hl : len c a = len c b) :
    Aligned c (Seq.bitOr a b) ∧
    syms c.width (Seq.bitOr a b) = List.zipWith (· ||| ·) (syms c.width a) (syms c.width b) := by
  have ea := eq_pack c hw a ha
  have eb := eq_pack c hw b hb
  have hl' : (syms c.width a).length = (syms c.width b).length := by rw [← C03.len_eq, ← C03.len_eq, hl]
  have e : Seq.bitOr a b = pack c.width (List.zipWith (· ||| ·) (syms c.width a) (syms c.width b)) := by
    conv => lhs; rw [ea, eb]
    exact bitOr_pack c.width _ _ hl'
  rw [e]
  exact ⟨aligned_pack c _, syms_pack c.width hw _
    (fits_or c.width _ _ (fits_syms c.width hw a ha) (fits_syms c.width hw b hb))⟩

/-! ### 2. set semantics of the 4-bit one-hot code -/

/-- members of a one-hot code among the DNA codes `A=0 C=1 G=2 T=3`
    (weights `A=8 C=4 G=2 T=1`: base `d` is bit `3 - d`), in ascending order -/
def setOf (code : Nat) : List Nat := [0, 1, 2, 3].filter (fun d => code.testBit (3 - d))

theorem mem_setOf (a x : Nat) : x ∈ setOf a ↔ x < 4 ∧ a.testBit (3 - x) = true := by
  simp only [setOf, List.mem_filter]
  constructor
  · rintro ⟨h1, h2⟩
    refine ⟨?_, h2⟩
    simp only [List.mem_cons, List.mem_nil_iff, or_false] at h1
    omega
  · rintro ⟨h1, h2⟩
    refine ⟨?_, h2⟩
    simp only [List.mem_cons, List.mem_nil_iff, or_false]
    omega

/-- `|||` is union (all codes, no range restriction needed) -/
theorem setOf_or (a b x : Nat) : x ∈ setOf (a ||| b) ↔ x ∈ setOf a ∨ x ∈ setOf b := by
  simp only [mem_setOf, Nat.testBit_or, Bool.or_eq_true]
  constructor
  · rintro ⟨h, h1 | h1⟩
    · exact Or.inl ⟨h, h1⟩
    · exact Or.inr ⟨h, h1⟩
  · rintro (⟨h, h1⟩ | ⟨h, h1⟩)
    · exact ⟨h, Or.inl h1⟩
    · exact ⟨h, Or.inr h1⟩

/-- `&&&` is intersection -/
theorem setOf_and (a b x : Nat) : x ∈ setOf (a &&& b) ↔ x ∈ setOf a ∧ x ∈ setOf b := by
  simp only [mem_setOf, Nat.testBit_and, Bool.and_eq_true]
  constructor
  · rintro ⟨h, h1, h2⟩; exact ⟨⟨h, h1⟩, ⟨h, h2⟩⟩
  · rintro ⟨⟨h, h1⟩, ⟨_, h2⟩⟩; exact ⟨h, h1, h2⟩

/-- a 4-bit code is determined by its set; the empty set is code 0 -/
theorem setOf_inj : ∀ a < 16, ∀ b < 16, setOf a = setOf b → a = b := by decide
theorem setOf_eq_nil_iff : ∀ a < 16, (setOf a = [] ↔ a = 0) := by decide

/-- the intersection is the gap code 0 exactly when the sets are disjoint -/
theorem and_eq_zero_iff : ∀ a < 16, ∀ b < 16, (a &&& b = 0 ↔ ∀ x ∈ setOf a, x ∉ setOf b) := by decide

/-- the test of `contains` at one position: `self & rhs == rhs` iff `rhs ⊆ self` -/
theorem and_eq_right_iff : ∀ a < 16, ∀ b < 16, (a &&& b = b ↔ ∀ x ∈ setOf b, x ∈ setOf a) := by decide

/-- the sets in full, for reading (A C G T, the two-element codes, N, gap) -/
example : setOf 8 = [0] ∧ setOf 4 = [1] ∧ setOf 2 = [2] ∧ setOf 1 = [3] ∧ setOf 10 = [0, 2] ∧
    setOf 5 = [1, 3] ∧ setOf 15 = [0, 1, 2, 3] ∧ setOf 0 = [] := by decide

/-! #### the extracted IUPAC codec: every 4-bit code is a symbol, its letter is the documented
    ambiguity letter of `setOf code`, code 0 is the gap -/

/-- items whose display letter is not the documented letter of its set: the members, shown as
    DNA letters by the extracted DNA codec, must be `Spec.iupacSet` of the letter -/
def letterFailures (p : Profile) : List Nat :=
  (Gen.iupac p).items.filter fun s =>
    (setOf s).map (Gen.dna p).toChar != (Spec.iupacSet ((Gen.iupac p).toChar s)).map Char.toNat

theorem letters_ok (p : Profile) : letterFailures p = [] := by cases p <;> decide +kernel

theorem setOf_letter (p : Profile) (s : Nat) (hs : s ∈ (Gen.iupac p).items) :
    (setOf s).map (Gen.dna p).toChar = (Spec.iupacSet ((Gen.iupac p).toChar s)).map Char.toNat := by
  have h := letters_ok p
  simp only [letterFailures, List.filter_eq_nil_iff] at h
  simpa using h s hs

/-- the symbols are exactly the 16 codes `0..15`, and width 4 -/
theorem items_iff (p : Profile) (s : Nat) : s ∈ (Gen.iupac p).items ↔ s < 16 := by
  have h1 : ∀ s ∈ (Gen.iupac p).items, s < 16 := by cases p <;> decide +kernel
  have h2 : ∀ s < 16, s ∈ (Gen.iupac p).items := by cases p <;> decide +kernel
  exact ⟨h1 s, h2 s⟩

theorem width_eq (p : Profile) : (Gen.iupac p).width = 4 := by cases p <;> rfl

/-- "gap for the empty set": code 0 is displayed as `-` -/
theorem gap_char (p : Profile) : (Gen.iupac p).toChar 0 = '-'.toNat ∧ setOf 0 = [] := by
  cases p <;> decide +kernel

/-- union / intersection of two documented letter sets, in `A C G T` order -/
def unionL (x y : List Char) : List Char := ['A', 'C', 'G', 'T'].filter fun ch => x.contains ch || y.contains ch
def interL (x y : List Char) : List Char := ['A', 'C', 'G', 'T'].filter fun ch => x.contains ch && y.contains ch

/-- the documented set of the display letter of a symbol -/
def letterSet (p : Profile) (s : Nat) : List Char := Spec.iupacSet ((Gen.iupac p).toChar s)

/-- letter-level check of one pair of symbols -/
def pairOk (p : Profile) (a b : Nat) : Bool :=
  (Gen.iupac p).items.contains (a ||| b) && (Gen.iupac p).items.contains (a &&& b)
  && letterSet p (a ||| b) == unionL (letterSet p a) (letterSet p b)
  && letterSet p (a &&& b) == interL (letterSet p a) (letterSet p b)
  && (((Gen.iupac p).toChar (a &&& b) == '-'.toNat) == (interL (letterSet p a) (letterSet p b)).isEmpty)

/-- all 16 x 16 pairs of symbols, one linear walk per row -/
def pairFailures (p : Profile) : List (Nat × Nat) :=
  (Gen.iupac p).items.flatMap fun a =>
    ((Gen.iupac p).items.filter fun b => !pairOk p a b).map fun b => (a, b)

theorem pairs_ok (p : Profile) : pairFailures p = [] := by cases p <;> decide +kernel

/-- letter-level statement for every pair of IUPAC symbols: the letter of `a | b` denotes the
    union of the two documented sets, the letter of `a & b` their intersection, and `a & b` is
    displayed as the gap `-` exactly when the documented sets are disjoint -/
theorem pair_letters (p : Profile) (a b : Nat) (ha : a ∈ (Gen.iupac p).items) (hb : b ∈ (Gen.iupac p).items) :
    (a ||| b) ∈ (Gen.iupac p).items ∧ (a &&& b) ∈ (Gen.iupac p).items ∧
    letterSet p (a ||| b) = unionL (letterSet p a) (letterSet p b) ∧
    letterSet p (a &&& b) = interL (letterSet p a) (letterSet p b) ∧
    ((Gen.iupac p).toChar (a &&& b) = '-'.toNat ↔ interL (letterSet p a) (letterSet p b) = []) := by
  have h := pairs_ok p
  simp only [pairFailures, List.flatMap_eq_nil_iff, List.map_eq_nil_iff, List.filter_eq_nil_iff] at h
  have hab := h a ha b hb
  simp only [Bool.not_eq_true, Bool.not_eq_false', pairOk, Bool.and_eq_true, List.contains_eq_mem,
    decide_eq_true_eq, beq_iff_eq] at hab
  obtain ⟨⟨⟨⟨h1, h2⟩, h3⟩, h4⟩, h5⟩ := hab
  refine ⟨h1, h2, h3, h4, ?_⟩
  rw [← List.isEmpty_iff, ← h5]
  simp

/-! ### 3. sequence level (4-bit symbols; any length, incl. 0 and word-straddling) -/

/-- the results of `|` and `&` on IUPAC sequences consist of IUPAC symbols again -/
theorem canon_of_fits (p : Profile) (cs : List Nat) (h : Fits 4 cs) : Canon (Gen.iupac p) cs :=
  fun x hx => (items_iff p x).mpr (h x hx)

theorem fits_of_canon (p : Profile) (cs : List Nat) (h : Canon (Gen.iupac p) cs) : Fits 4 cs :=
  fun x hx => (items_iff p x).mp (h x hx)

/-- position `i` of `a | b` holds the code whose set is the union of the sets at position `i` -/
theorem or_union (as bs : List Nat) (ha : Fits 4 as) (hb : Fits 4 bs) (h : as.length = bs.length)
    (i : Nat) (hi : i < as.length) :
    syms 4 (Seq.bitOr (pack 4 as) (pack 4 bs)) = List.zipWith (· ||| ·) as bs ∧
    ∃ r, (syms 4 (Seq.bitOr (pack 4 as) (pack 4 bs)))[i]? = some r ∧ r < 16 ∧
      ∀ x, x ∈ setOf r ↔ (x ∈ setOf as[i] ∨ x ∈ setOf (bs[i]'(h ▸ hi))) := by
  have hf := fits_or 4 as bs ha hb
  have e : syms 4 (Seq.bitOr (pack 4 as) (pack 4 bs)) = List.zipWith (· ||| ·) as bs := by
    rw [bitOr_pack 4 as bs h, syms_pack 4 (by omega) _ hf]
  refine ⟨e, as[i] ||| (bs[i]'(h ▸ hi)), ?_, ?_, fun x => setOf_or _ _ x⟩
  · rw [e, List.getElem?_eq_getElem (by simp [← h, hi]), List.getElem_zipWith]
  · exact Nat.or_lt_two_pow (ha _ (List.getElem_mem hi)) (hb _ (List.getElem_mem _))

/-- position `i` of `a & b` holds the code whose set is the intersection; it is the gap code 0
    exactly when the two sets are disjoint -/
theorem and_inter (as bs : List Nat) (ha : Fits 4 as) (hb : Fits 4 bs) (h : as.length = bs.length)
    (i : Nat) (hi : i < as.length) :
    syms 4 (Seq.bitAnd (pack 4 as) (pack 4 bs)) = List.zipWith (· &&& ·) as bs ∧
    ∃ r, (syms 4 (Seq.bitAnd (pack 4 as) (pack 4 bs)))[i]? = some r ∧ r < 16 ∧
      (∀ x, x ∈ setOf r ↔ (x ∈ setOf as[i] ∧ x ∈ setOf (bs[i]'(h ▸ hi)))) ∧
      (r = 0 ↔ ∀ x ∈ setOf as[i], x ∉ setOf (bs[i]'(h ▸ hi))) := by
  have hf := fits_and 4 as bs hb
  have e : syms 4 (Seq.bitAnd (pack 4 as) (pack 4 bs)) = List.zipWith (· &&& ·) as bs := by
    rw [bitAnd_pack 4 as bs h, syms_pack 4 (by omega) _ hf]
  have h1 : as[i] < 16 := ha _ (List.getElem_mem hi)
  have h2 : (bs[i]'(h ▸ hi)) < 16 := hb _ (List.getElem_mem _)
  refine ⟨e, as[i] &&& (bs[i]'(h ▸ hi)), ?_, ?_, fun x => setOf_and _ _ x, and_eq_zero_iff _ h1 _ h2⟩
  · rw [e, List.getElem?_eq_getElem (by simp [← h, hi]), List.getElem_zipWith]
  · exact Nat.and_lt_two_pow _ (show _ < 2 ^ 4 from h2)

/-- what `Display` shows for `a | b` and `a & b` on the extracted IUPAC codec: the letters of the
    position-wise codes (each letter being the documented one for its set: `setOf_letter`,
    `pairs_ok`) -/
theorem or_display (p : Profile) (as bs : List Nat) (ha : Fits 4 as) (hb : Fits 4 bs)
    (h : as.length = bs.length) (hov : as.length * 4 < W64) :
    Seq.display p (Gen.iupac p) (Seq.bitOr (pack 4 as) (pack 4 bs))
      = .ok ((List.zipWith (· ||| ·) as bs).map (Gen.iupac p).toChar) := by
  have hc := canon_of_fits p _ (fits_or 4 as bs ha hb)
  have hl : (List.zipWith (· ||| ·) as bs).length * (Gen.iupac p).width < W64 := by
    rw [width_eq]; simp only [List.length_zipWith, ← h, Nat.min_self]; exact hov
  have := iterSyms_pack p (Gen.iupac p) (wf_iupac p) _ hc hl
  rw [width_eq] at this
  rw [bitOr_pack 4 as bs h]
  simp only [Seq.display, this, Except.map]

theorem and_display (p : Profile) (as bs : List Nat) (hb : Fits 4 bs)
    (h : as.length = bs.length) (hov : as.length * 4 < W64) :
    Seq.display p (Gen.iupac p) (Seq.bitAnd (pack 4 as) (pack 4 bs))
      = .ok ((List.zipWith (· &&& ·) as bs).map (Gen.iupac p).toChar) := by
  have hc := canon_of_fits p _ (fits_and 4 as bs hb)
  have hl : (List.zipWith (· &&& ·) as bs).length * (Gen.iupac p).width < W64 := by
    rw [width_eq]; simp only [List.length_zipWith, ← h, Nat.min_self]; exact hov
  have := iterSyms_pack p (Gen.iupac p) (wf_iupac p) _ hc hl
  rw [width_eq] at this
  rw [bitAnd_pack 4 as bs h]
  simp only [Seq.display, this, Except.map]

theorem zipWith_and_eq_right (as bs : List Nat) (h : as.length = bs.length) :
    List.zipWith (· &&& ·) as bs = bs ↔
      ∀ i (h1 : i < as.length) (h2 : i < bs.length), as[i] &&& bs[i] = bs[i] := by
  induction as generalizing bs with
  | nil =>
    cases bs with
    | nil => simp
    | cons y ys => simp at h
  | cons x xs ih =>
    cases bs with
    | nil => simp at h
    | cons y ys =>
      have h' : xs.length = ys.length := by simpa using h
      simp only [List.zipWith_cons_cons, List.cons.injEq, ih ys h', List.length_cons]
      constructor
      · rintro ⟨h0, hr⟩ i h1 h2
        cases i with
        | zero => simpa using h0
        | succ i => simpa using hr i (by omega) (by omega)
      · intro hall
        refine ⟨by simpa using hall 0 (by omega) (by omega), ?_⟩
        intro i h1 h2
        exact hall (i + 1) (by omega) (by omega)

/-- `pattern.contains(arg)`: true exactly when the lengths are equal and at every position the
    argument's set is a subset of the pattern's set.  (`as` = pattern = `self`, `bs` = argument.) -/
theorem contains_iff (c : Codec) (hw : c.width = 4) (as bs : List Nat) (ha : Fits 4 as) (hb : Fits 4 bs) :
    Translation.contains c (pack 4 as) (pack 4 bs) = true ↔
      as.length = bs.length ∧
      ∀ i (h1 : i < as.length) (h2 : i < bs.length), ∀ x ∈ setOf bs[i], x ∈ setOf as[i] := by
  have hla : len c (pack 4 as) = as.length := by
    have := len_pack c (by omega) as; rwa [hw] at this
  have hlb : len c (pack 4 bs) = bs.length := by
    have := len_pack c (by omega) bs; rwa [hw] at this
  unfold Translation.contains
  rw [hla, hlb]
  by_cases hl : as.length = bs.length
  · have hne : ¬ (bs.length ≠ as.length) := by omega
    rw [if_neg hne, decide_eq_true_iff, bitAnd_pack 4 as bs hl]
    constructor
    · intro hp
      have hz := pack_inj 4 (by omega) _ _ (fits_and 4 as bs hb) hb hp
      refine ⟨hl, ?_⟩
      intro i h1 h2
      have := (zipWith_and_eq_right as bs hl).mp hz i h1 h2
      exact (and_eq_right_iff _ (ha _ (List.getElem_mem h1)) _ (hb _ (List.getElem_mem h2))).mp this
    · rintro ⟨_, hall⟩
      have : List.zipWith (· &&& ·) as bs = bs := by
        rw [zipWith_and_eq_right as bs hl]
        intro i h1 h2
        exact (and_eq_right_iff _ (ha _ (List.getElem_mem h1)) _ (hb _ (List.getElem_mem h2))).mpr (hall i h1 h2)
      rw [this]
  · have hne : bs.length ≠ as.length := fun e => hl e.symm
    simp [hne, hl]

/-- in particular for the extracted IUPAC codec, both profiles -/
theorem contains_iff_iupac (p : Profile) (as bs : List Nat) (ha : Canon (Gen.iupac p) as)
    (hb : Canon (Gen.iupac p) bs) :
    Translation.contains (Gen.iupac p) (pack 4 as) (pack 4 bs) = true ↔
      as.length = bs.length ∧
      ∀ i (h1 : i < as.length) (h2 : i < bs.length), ∀ x ∈ setOf bs[i], x ∈ setOf as[i] :=
  contains_iff _ (width_eq p) as bs (fits_of_canon p as ha) (fits_of_canon p bs hb)

/-- different lengths: never contained, whatever the symbols -/
theorem contains_length (c : Codec) (a b : Bits) (h : len c b ≠ len c a) :
    Translation.contains c a b = false := by
  simp [Translation.contains, h]

/-! ### 4. `From<Dna> for Iupac` gives the singleton set -/

/-- entries `(d, code)` of the extracted conversion table whose set is not exactly `{d}` -/
def convFailures (t : List (Nat × Nat)) : List (Nat × Nat) := t.filter fun e => setOf e.2 != [e.1]

/-- the table covers exactly the four DNA symbols, in order, and each maps to its singleton -/
theorem from_dna_singleton (p : Profile) :
    convFailures (Standard.convTable p "iupac") = [] ∧
    (Standard.convTable p "iupac").map (·.1) = (Gen.dna p).items ∧
    (Standard.convTable p "iupac").map (·.1) = [0, 1, 2, 3] := by
  cases p <;> decide +kernel

/-- the converted symbol as a function: `A=0 -> 8, C=1 -> 4, G=2 -> 2, T=3 -> 1` -/
def convSym (d : Nat) : Nat := 8 >>> d

theorem convSym_singleton : ∀ d < 4, setOf (convSym d) = [d] := by decide

theorem conv_find (p : Profile) :
    ∀ d ∈ (Gen.dna p).items, (Standard.convTable p "iupac").find? (·.1 == d) = some (d, convSym d) := by
  cases p <;> decide +kernel

/-- sequence level: `Seq::<Iupac>::from(&dna_slice)` has the same length and at every position
    the singleton of the DNA base -/
theorem convert_spec (p : Profile) (ds : List Nat) (hd : Canon (Gen.dna p) ds) (hov : ds.length * 2 < W64) :
    Standard.convert p (Gen.dna p) (Gen.iupac p) (Standard.convTable p "iupac") (pack 2 ds)
      = .ok (pack 4 (ds.map convSym)) ∧
    (ds.map convSym).length = ds.length ∧
    ∀ i (h : i < ds.length), setOf ((ds.map convSym)[i]'(by simpa using h)) = [ds[i]] := by
  have hwd : (Gen.dna p).width = 2 := by cases p <;> rfl
  refine ⟨?_, by simp, ?_⟩
  · have hit := iterSyms_pack p (Gen.dna p) (wf_dna p) ds hd (by rw [hwd]; exact hov)
    rw [hwd] at hit
    unfold Standard.convert
    rw [hit]
    simp only [bind, Except.bind]
    rw [mapM_ok_of_forall _ convSym ds]
    rotate_left
    · intro x hx
      rw [conv_find p x (hd x hx)]
    have := extend_pack (Gen.iupac p) (wf_iupac p).width_le [] (ds.map convSym)
    rw [width_eq] at this
    simpa using this
  · intro i h
    rw [List.getElem_map]
    have : ds[i] < 4 := by
      have := hd _ (List.getElem_mem h)
      have h4 : ∀ s ∈ (Gen.dna p).items, s < 4 := by cases p <;> decide +kernel
      exact h4 _ this
    exact convSym_singleton _ this

/-! ### 5. complementing a code complements each member -/

/-- IUPAC items `s` for which `comp s` is missing, not a symbol, or whose members are not exactly
    the DNA complements (per the extracted DNA codec: `3 - d`) of the members of `s` -/
def compFailures (p : Profile) : List Nat :=
  (Gen.iupac p).items.filter fun s => match (Gen.iupac p).comp s with
    | none => true
    | some t => !((Gen.iupac p).items.contains t
        && (setOf t).map some == ((setOf s).map (Gen.dna p).comp).reverse
        && setOf t == ((setOf s).map (3 - ·)).reverse)

theorem comp_ok (p : Profile) : compFailures p = [] := by cases p <;> decide +kernel

/-- for every IUPAC symbol: the complement exists, is a symbol, and its set is the image of the
    set under the DNA complement `d ↦ 3 - d` (A<->T, C<->G) -/
theorem comp_members (p : Profile) (s : Nat) (hs : s ∈ (Gen.iupac p).items) :
    ∃ t ∈ (Gen.iupac p).items, (Gen.iupac p).comp s = some t ∧
      (setOf t).map some = ((setOf s).map (Gen.dna p).comp).reverse ∧
      setOf t = ((setOf s).map (3 - ·)).reverse ∧
      (∀ x, x ∈ setOf t ↔ ∃ y ∈ setOf s, x = 3 - y) := by
  have h := comp_ok p
  simp only [compFailures, List.filter_eq_nil_iff] at h
  have hs' := h s hs
  cases hc : (Gen.iupac p).comp s with
  | none => simp [hc] at hs'
  | some t =>
    simp only [hc, Bool.not_eq_true, Bool.not_eq_false', Bool.and_eq_true, List.contains_eq_mem,
      decide_eq_true_eq, beq_iff_eq] at hs'
    obtain ⟨⟨h1, h2⟩, h3⟩ := hs'
    refine ⟨t, h1, rfl, h2, h3, ?_⟩
    intro x
    rw [h3]
    simp only [List.mem_reverse, List.mem_map]
    constructor
    · rintro ⟨y, hy, rfl⟩; exact ⟨y, hy, rfl⟩
    · rintro ⟨y, hy, rfl⟩; exact ⟨y, hy, rfl⟩

/-- the DNA complement used above is `d ↦ 3 - d` (A<->T, C<->G) in the extracted DNA codec -/
theorem dna_comp (p : Profile) : ∀ d < 4, (Gen.dna p).comp d = some (3 - d) := by
  cases p <;> decide +kernel

/-! ### 6. examples (non-vacuity) -/

/-- doc-test of codec/iupac.rs: `iupac!("AS-GYTNAN") | iupac!("ANTGCAT-N") == iupac!("ANTGYWNAN")` -/
example : Seq.parseBytes (Gen.iupac .debug) ("AS-GYTNAN".toList.map Char.toNat) = .ok (pack 4 [8, 6, 0, 2, 5, 1, 15, 8, 15]) := by
  decide +kernel
example : Seq.bitOr (pack 4 [8, 6, 0, 2, 5, 1, 15, 8, 15]) (pack 4 [8, 15, 1, 2, 4, 8, 1, 0, 15])
    = pack 4 [8, 15, 1, 2, 5, 9, 15, 8, 15] := by decide +kernel
example : Seq.display .debug (Gen.iupac .debug)
      (Seq.bitOr (pack 4 [8, 6, 0, 2, 5, 1, 15, 8, 15]) (pack 4 [8, 15, 1, 2, 4, 8, 1, 0, 15]))
    = .ok ("ANTGYWNAN".toList.map Char.toNat) := by decide +kernel

/-- doc-test: `iupac!("ACGTSWKMN") & iupac!("WKMSTNNAN") == iupac!("A----WKAN")` -/
example : Seq.display .release (Gen.iupac .release)
      (Seq.bitAnd (pack 4 [8, 4, 2, 1, 6, 9, 3, 12, 15]) (pack 4 [9, 3, 12, 6, 1, 15, 15, 8, 15]))
    = .ok ("A----WKAN".toList.map Char.toNat) := by decide +kernel

/-- 17 symbols = 68 bits: the 17th symbol lies in the second 64-bit word -/
example : Seq.bitAnd (pack 4 (List.replicate 16 15 ++ [10])) (pack 4 (List.replicate 16 5 ++ [12]))
    = pack 4 (List.replicate 16 5 ++ [8]) := by decide +kernel

/-- doc-test pattern matching: `AYG` contains `ACG` and `ATG`, not `AGG`; never a different length -/
example : Translation.contains (Gen.iupac .debug) (pack 4 [8, 5, 2]) (pack 4 [8, 4, 2]) = true := by decide +kernel
example : Translation.contains (Gen.iupac .debug) (pack 4 [8, 5, 2]) (pack 4 [8, 1, 2]) = true := by decide +kernel
example : Translation.contains (Gen.iupac .debug) (pack 4 [8, 5, 2]) (pack 4 [8, 2, 2]) = false := by decide +kernel
example : Translation.contains (Gen.iupac .debug) (pack 4 [15, 15, 15]) (pack 4 [8, 4]) = false := by decide +kernel
example : Translation.contains (Gen.iupac .debug) (pack 4 []) (pack 4 []) = true := by decide +kernel

/-- unequal lengths: result has the LEFT length; AND clears the surplus (shown as gaps), OR keeps it -/
example : Seq.bitAnd (pack 4 [15, 15, 15]) (pack 4 [8]) = pack 4 [8, 0, 0] := by decide +kernel
example : Seq.bitOr (pack 4 [1, 2, 4]) (pack 4 [8]) = pack 4 [9, 2, 4] := by decide +kernel
example : Seq.bitOr (pack 4 [1]) (pack 4 [8, 2, 4]) = pack 4 [9] := by decide +kernel

/-- `Seq::<Iupac>::from(dna!("ACGT"))` -/
example : Standard.convert .debug (Gen.dna .debug) (Gen.iupac .debug) (Standard.convTable .debug "iupac")
    (pack 2 [0, 1, 2, 3]) = .ok (pack 4 [8, 4, 2, 1]) := by decide +kernel

/-- complement of `R = {A, G}` is `Y = {C, T}` -/
example : (Gen.iupac .debug).comp 10 = some 5 ∧ setOf 10 = [0, 2] ∧ setOf 5 = [1, 3] := by decide +kernel

/-- the hypotheses of the sequence-level theorems are satisfiable -/
example : Fits 4 [8, 6, 0, 2, 5, 1, 15, 8, 15] := by unfold Fits; decide
example : Canon (Gen.iupac .release) [8, 6, 0, 2, 5, 1, 15, 8, 15] := by unfold Canon; decide +kernel

end C12
end BioSeq
