/-
  C11 — symbol, reverse, window and chunk iterators enumerate exactly the right items.

  Model: `BioSeq/Iter.lean` (step functions `seqIterNext`, `revIterNext`, `chunksNext` mirroring
  `SeqIter::next`, `RevIter::next`, `SeqChunks::next` of seq/iterators.rs, run by the
  fuel-bounded `Iter.collect`).  Main statements are on packed input `pack c.width cs`;
  section "aligned" restates them for any aligned bit string through `syms`.

  Hypotheses.
  * `CodecWF c`, `Canon c cs` are needed for the *symbol* iterators only (they decode every chunk
    with the codec's unchecked decoder); windows/chunks only slice and need just `1 ≤ c.width`.
  * `cs.length * c.width < W64` is the no-overflow guard of `index * width`; it says that the bit
    length of the sequence fits a `usize`, which every sequence that exists in memory satisfies.
  * The iterator's own `index + width` is a plain `Nat` addition in the model (no wrap), which is
    exact for every width `≤ 2^64 - 1 - n`, in particular for the widths `1..n+2` of C11.

  Termination.  Rust iterators are not fuel bounded; `Iter.iter` etc. run the step function with
  fuel `n + 1`.  The `*_fuel` theorems show that fuel is irrelevant (any larger fuel gives the same
  list, i.e. the step function has returned `None` after the listed items), and the `*_exhausted`
  theorems show that in the state reached after the listed items `next` returns `none`; a `none`
  step does not change the state (in the Rust source both `return None` precede the index update),
  so it keeps returning `none` (the iterators are fused).

  Width 0 (outside C11's quantifier, recorded for completeness):
  * `windows(0)`: the model (like the source) yields `n + 1` empty slices and then stops;
    `windows_spec` below holds for `w = 0` as well, so no `1 ≤ w` hypothesis is needed there.
  * `chunks(0)`: `skip = 0`, the index never advances: the source is an infinite iterator of empty
    slices; the model yields as many empty slices as it has fuel (`chunks_zero_width`), so
    `Iter.chunks _ _ _ 0` (fuel `n + 1`) is *not* fuel independent.  `chunks_spec` needs `1 ≤ w`.
-/
import BioSeq.Props.C03
import BioSeq.Lemmas.C11Lemmas
import BioSeq.Checks.WF
namespace BioSeq
namespace C11
open BioSeq.Seq BioSeq.Iter BioSeq.C11L

/-! ### 1. forward and reverse symbol iteration -/

/-- `iter()` / `into_iter()` yields every symbol exactly once, in order -/
theorem iter_spec (p : Profile) (c : Codec) (wf : CodecWF c) (cs : List Nat) (hc : Canon c cs)
    (hov : cs.length * c.width < W64) :
    Iter.iter p c (pack c.width cs) = cs.map .ok := by
  unfold Iter.iter
  rw [len_pack c wf.width_pos, iter_from p c wf cs hc hov _ 0 (by omega)]
  simp

/-- `rev_iter()` yields every symbol exactly once, in opposite order -/
theorem revIter_spec (p : Profile) (c : Codec) (wf : CodecWF c) (cs : List Nat) (hc : Canon c cs)
    (hov : cs.length * c.width < W64) :
    Iter.revIter p c (pack c.width cs) = cs.reverse.map .ok := by
  unfold Iter.revIter
  rw [len_pack c wf.width_pos, revIter_from p c wf cs hc hov _ cs.length (by omega) (by omega)]
  simp

/-- reverse iteration is the reverse of forward iteration -/
theorem revIter_eq_reverse_iter (p : Profile) (c : Codec) (wf : CodecWF c) (cs : List Nat) (hc : Canon c cs)
    (hov : cs.length * c.width < W64) :
    Iter.revIter p c (pack c.width cs) = (Iter.iter p c (pack c.width cs)).reverse := by
  rw [iter_spec p c wf cs hc hov, revIter_spec p c wf cs hc hov, List.map_reverse]

/-- the symbol iterator agrees with the `iterSyms` view used by the other properties -/
theorem iter_eq_iterSyms (p : Profile) (c : Codec) (wf : CodecWF c) (cs : List Nat) (hc : Canon c cs)
    (hov : cs.length * c.width < W64) :
    (Iter.iter p c (pack c.width cs)).mapM id = iterSyms p c (pack c.width cs) := by
  rw [iter_spec p c wf cs hc hov, iterSyms_pack p c wf cs hc hov]
  clear hc hov
  induction cs with
  | nil => rfl
  | cons x xs ih => rw [List.map_cons, List.mapM_cons, ih]; rfl

/-! ### 2. overlapping windows -/

/-- `windows(w)` yields the `n - w + 1` consecutive width-`w` slices, in order; none when `w > n`.
    (Also true for `w = 0`: `n + 1` empty slices.) -/
theorem windows_spec (p : Profile) (c : Codec) (hw : 1 ≤ c.width) (cs : List Nat)
    (hov : cs.length * c.width < W64) (w : Nat) :
    Iter.windows p c (pack c.width cs) w =
      (List.range (cs.length + 1 - w)).map
        (fun j => .ok (pack c.width ((cs.take (j + w)).drop j))) := by
  unfold Iter.windows
  rw [len_pack c hw, windows_from p c hw cs hov w _ 0 (by omega), List.range_eq_range']
  simp

theorem windows_length (p : Profile) (c : Codec) (hw : 1 ≤ c.width) (cs : List Nat)
    (hov : cs.length * c.width < W64) (w : Nat) :
    (Iter.windows p c (pack c.width cs) w).length = cs.length + 1 - w := by
  rw [windows_spec p c hw cs hov w]; simp

/-- no window is wider than the sequence -/
theorem windows_too_wide (p : Profile) (c : Codec) (hw : 1 ≤ c.width) (cs : List Nat)
    (hov : cs.length * c.width < W64) (w : Nat) (h : cs.length < w) :
    Iter.windows p c (pack c.width cs) w = [] := by
  rw [windows_spec p c hw cs hov w]
  have : cs.length + 1 - w = 0 := by omega
  simp [this]

/-- the `j`-th window holds exactly `w` symbols, and its `k`-th symbol is symbol `j + k` -/
theorem window_symbols (cs : List Nat) (w j k : Nat) (hj : j + w ≤ cs.length) (hk : k < w) :
    ((cs.take (j + w)).drop j).length = w ∧ ((cs.take (j + w)).drop j)[k]? = cs[j + k]? := by
  constructor
  · simp only [List.length_drop, List.length_take]; omega
  · rw [List.getElem?_drop, List.getElem?_take]
    have : j + k < j + w := by omega
    simp [this]

/-! ### 3. disjoint chunks -/

/-- the symbol lists of the chunks: `floor(n / w)` consecutive disjoint width-`w` slices -/
def chunkSyms (cs : List Nat) (w : Nat) : List (List Nat) :=
  (List.range (cs.length / w)).map (fun j => (cs.take (j * w + w)).drop (j * w))

/-- `chunks(w)` yields the `floor(n / w)` width-`w` slices starting at multiples of `w` -/
theorem chunks_spec (p : Profile) (c : Codec) (hw : 1 ≤ c.width) (cs : List Nat)
    (hov : cs.length * c.width < W64) (w : Nat) (hw1 : 1 ≤ w) :
    Iter.chunks p c (pack c.width cs) w =
      (List.range (cs.length / w)).map
        (fun j => .ok (pack c.width ((cs.take (j * w + w)).drop (j * w)))) := by
  unfold Iter.chunks
  have h := chunks_from p c hw cs hov w (cs.length + 1) 0 hw1
    (by have := Nat.div_le_self cs.length w; omega)
  simp only [Nat.zero_mul, Nat.sub_zero] at h
  rw [len_pack c hw, h, List.range_eq_range']

theorem chunks_eq_chunkSyms (p : Profile) (c : Codec) (hw : 1 ≤ c.width) (cs : List Nat)
    (hov : cs.length * c.width < W64) (w : Nat) (hw1 : 1 ≤ w) :
    Iter.chunks p c (pack c.width cs) w = (chunkSyms cs w).map (fun s => .ok (pack c.width s)) := by
  rw [chunks_spec p c hw cs hov w hw1]; simp [chunkSyms]

theorem chunks_length (p : Profile) (c : Codec) (hw : 1 ≤ c.width) (cs : List Nat)
    (hov : cs.length * c.width < W64) (w : Nat) (hw1 : 1 ≤ w) :
    (Iter.chunks p c (pack c.width cs) w).length = cs.length / w := by
  rw [chunks_spec p c hw cs hov w hw1]; simp

/-- the chunks are disjoint, start at the beginning and drop only the incomplete tail:
    concatenated, their symbols are the first `w * floor(n / w)` symbols of the sequence -/
theorem chunkSyms_flatten (cs : List Nat) (w : Nat) :
    (chunkSyms cs w).flatten = cs.take (w * (cs.length / w)) := by
  unfold chunkSyms
  rw [flatten_slices cs w (cs.length / w), Nat.mul_comm]

/-- every chunk holds exactly `w` symbols -/
theorem chunkSyms_width (cs : List Nat) (w : Nat) (hw1 : 1 ≤ w) : ∀ s ∈ chunkSyms cs w, s.length = w := by
  intro s hs
  simp only [chunkSyms, List.mem_map, List.mem_range] at hs
  obtain ⟨j, hj, rfl⟩ := hs
  have : (j + 1) * w ≤ cs.length := by
    have h1 : (j + 1) * w ≤ (cs.length / w) * w := Nat.mul_le_mul_right _ hj
    have h2 := Nat.div_mul_le_self cs.length w
    omega
  rw [Nat.succ_mul] at this
  simp only [List.length_drop, List.length_take]; omega

/-- fewer than `w` symbols are dropped -/
theorem chunks_tail_lt (cs : List Nat) (w : Nat) (hw1 : 1 ≤ w) :
    cs.length - (chunkSyms cs w).flatten.length < w := by
  rw [chunkSyms_flatten, List.length_take]
  have h1 := Nat.mul_div_le cs.length w
  have h2 := Nat.mod_add_div cs.length w
  have h3 := Nat.mod_lt cs.length (show w > 0 by omega)
  omega

/-- bit-level form: the chunks (all `ok`) concatenate to the packed prefix -/
theorem chunks_concat (p : Profile) (c : Codec) (hw : 1 ≤ c.width) (cs : List Nat)
    (hov : cs.length * c.width < W64) (w : Nat) (hw1 : 1 ≤ w) :
    ∃ bss : List Bits, Iter.chunks p c (pack c.width cs) w = bss.map .ok ∧
      bss.flatten = pack c.width (cs.take (w * (cs.length / w))) := by
  refine ⟨(chunkSyms cs w).map (pack c.width), ?_, ?_⟩
  · rw [chunks_eq_chunkSyms p c hw cs hov w hw1, List.map_map]; rfl
  · rw [← pack_flatten, chunkSyms_flatten]

/-! ### 4. chain -/

/-- `a.chain(b)` yields the first sequence's symbols, then the second's -/
theorem chain_spec (p : Profile) (c : Codec) (wf : CodecWF c) (as bs : List Nat)
    (ha : Canon c as) (hb : Canon c bs)
    (hova : as.length * c.width < W64) (hovb : bs.length * c.width < W64) :
    Iter.chain p c (pack c.width as) (pack c.width bs) = (as ++ bs).map .ok := by
  unfold Iter.chain
  rw [iter_spec p c wf as ha hova, iter_spec p c wf bs hb hovb, List.map_append]

/-! ### 5. termination -/

/-- `SeqIter`: any fuel beyond `n + 1` gives the same items -/
theorem iter_fuel (p : Profile) (c : Codec) (wf : CodecWF c) (cs : List Nat) (hc : Canon c cs)
    (hov : cs.length * c.width < W64) (k : Nat) :
    collect (seqIterNext p c (pack c.width cs)) (cs.length + 1 + k) 0 =
      collect (seqIterNext p c (pack c.width cs)) (cs.length + 1) 0 := by
  rw [iter_from p c wf cs hc hov _ 0 (by omega), iter_from p c wf cs hc hov _ 0 (by omega)]

/-- after `n` items the forward iterator is at index `n`, where (and beyond) `next` is `None` -/
theorem iter_exhausted (p : Profile) (c : Codec) (bs : Bits) (i : Nat) (h : len c bs ≤ i) :
    seqIterNext p c bs i = none := by
  simp [seqIterNext, h]

theorem revIter_fuel (p : Profile) (c : Codec) (wf : CodecWF c) (cs : List Nat) (hc : Canon c cs)
    (hov : cs.length * c.width < W64) (k : Nat) :
    collect (revIterNext p c (pack c.width cs)) (cs.length + 1 + k) cs.length =
      collect (revIterNext p c (pack c.width cs)) (cs.length + 1) cs.length := by
  rw [revIter_from p c wf cs hc hov _ cs.length (by omega) (by omega),
      revIter_from p c wf cs hc hov _ cs.length (by omega) (by omega)]

/-- after `n` items the reverse iterator is at index `0`, where `next` is `None` -/
theorem revIter_exhausted (p : Profile) (c : Codec) (bs : Bits) : revIterNext p c bs 0 = none := by
  simp [revIterNext]

/-- `windows(w)`: fuel independent (for every `w`, including 0) -/
theorem windows_fuel (p : Profile) (c : Codec) (hw : 1 ≤ c.width) (cs : List Nat)
    (hov : cs.length * c.width < W64) (w k : Nat) :
    collect (chunksNext p c (pack c.width cs)) (cs.length + 1 + k) ⟨w, 1, 0⟩ =
      collect (chunksNext p c (pack c.width cs)) (cs.length + 1) ⟨w, 1, 0⟩ := by
  rw [windows_from p c hw cs hov w _ 0 (by omega), windows_from p c hw cs hov w _ 0 (by omega)]

/-- `chunks(w)`, `w ≥ 1`: fuel independent -/
theorem chunks_fuel (p : Profile) (c : Codec) (hw : 1 ≤ c.width) (cs : List Nat)
    (hov : cs.length * c.width < W64) (w k : Nat) (hw1 : 1 ≤ w) :
    collect (chunksNext p c (pack c.width cs)) (cs.length + 1 + k) ⟨w, w, 0⟩ =
      collect (chunksNext p c (pack c.width cs)) (cs.length + 1) ⟨w, w, 0⟩ := by
  have hd := Nat.div_le_self cs.length w
  have h1 := chunks_from p c hw cs hov w (cs.length + 1 + k) 0 hw1 (by omega)
  have h2 := chunks_from p c hw cs hov w (cs.length + 1) 0 hw1 (by omega)
  simp only [Nat.zero_mul] at h1 h2
  rw [h1, h2]

/-- the window/chunk iterator is exhausted as soon as `index + width > len`; after the
    `n + 1 - w` windows the index is `n + 1 - w`, after the `n / w` chunks it is `(n / w) * w` -/
theorem chunks_exhausted (p : Profile) (c : Codec) (bs : Bits) (s : Chunks)
    (h : len c bs < s.index + s.width) : chunksNext p c bs s = none :=
  chunksNext_none p c bs s h

theorem windows_end_state (n w : Nat) : n < (n + 1 - w) + w := by omega

theorem chunks_end_state (n w : Nat) (hw1 : 1 ≤ w) : n < (n / w) * w + w := by
  have h2 := Nat.mod_add_div n w
  have h3 := Nat.mod_lt n (show w > 0 by omega)
  rw [Nat.mul_comm]; omega

/-- generic form of "fewer items than fuel means the iterator has finished" -/
theorem collect_stable {σ α} (next : σ → Option (α × σ)) (f k : Nat) (s : σ)
    (h : (collect next f s).length < f) : collect next (f + k) s = collect next f s :=
  C11L.collect_stable next f k s h

/-- `chunks(0)` never advances: as many empty slices as there is fuel (Rust: an infinite iterator) -/
theorem chunks_zero_width (p : Profile) (c : Codec) (cs : List Nat) (fuel : Nat) :
    collect (chunksNext p c (pack c.width cs)) fuel ⟨0, 0, 0⟩ = List.replicate fuel (.ok []) := by
  induction fuel with
  | zero => rfl
  | succ f ih =>
    have hn : chunksNext p c (pack c.width cs) ⟨0, 0, 0⟩ = some (.ok [], ⟨0, 0, 0⟩) := by
      have h0 : 0 * c.width < W64 := by simp [W64]
      simp only [chunksNext, Nat.add_zero, gt_iff_lt, Nat.not_lt_zero, if_false,
        index_range_pack p c cs 0 0 (Nat.le_refl 0) (Nat.zero_le _) h0]
      simp
    rw [collect_some _ f _ _ _ hn, ih, List.replicate_succ]

/-! ### 6. the same statements for any aligned bit string, through `syms` -/

section aligned
open BioSeq.C03

theorem guard_of_length (c : Codec) (bs : Bits) (hal : Aligned c bs) (hlen : bs.length < W64) :
    (syms c.width bs).length * c.width < W64 := by
  rw [syms_length, Nat.div_mul_cancel hal]; exact hlen

theorem iter_aligned (p : Profile) (c : Codec) (wf : CodecWF c) (bs : Bits) (hal : Aligned c bs)
    (hc : Canon c (syms c.width bs)) (hlen : bs.length < W64) :
    Iter.iter p c bs = (syms c.width bs).map .ok := by
  conv => lhs; rw [eq_pack c wf.width_pos bs hal]
  exact iter_spec p c wf _ hc (guard_of_length c bs hal hlen)

theorem revIter_aligned (p : Profile) (c : Codec) (wf : CodecWF c) (bs : Bits) (hal : Aligned c bs)
    (hc : Canon c (syms c.width bs)) (hlen : bs.length < W64) :
    Iter.revIter p c bs = (syms c.width bs).reverse.map .ok := by
  conv => lhs; rw [eq_pack c wf.width_pos bs hal]
  exact revIter_spec p c wf _ hc (guard_of_length c bs hal hlen)

/-- each window is an aligned slice whose symbols are symbols `j .. j + w` of the parent -/
theorem windows_aligned (p : Profile) (c : Codec) (hw : 1 ≤ c.width) (bs : Bits) (hal : Aligned c bs)
    (hlen : bs.length < W64) (w : Nat) :
    ∃ rs : List Bits, Iter.windows p c bs w = rs.map .ok ∧
      rs.map (syms c.width) =
        (List.range (len c bs + 1 - w)).map (fun j => ((syms c.width bs).take (j + w)).drop j) ∧
      ∀ r ∈ rs, Aligned c r := by
  refine ⟨(List.range (len c bs + 1 - w)).map
    (fun j => pack c.width (((syms c.width bs).take (j + w)).drop j)), ?_, ?_, ?_⟩
  · conv => lhs; rw [eq_pack c hw bs hal]
    rw [windows_spec p c hw _ (guard_of_length c bs hal hlen) w, ← len_eq, List.map_map]; rfl
  · rw [List.map_map]
    apply List.map_congr_left
    intro j _
    exact syms_pack c.width hw _ (((fits_syms c.width hw bs hal).take _).drop _)
  · intro r hr
    simp only [List.mem_map] at hr
    obtain ⟨j, _, rfl⟩ := hr
    exact aligned_pack c _

/-- each chunk is an aligned slice whose symbols are symbols `j*w .. j*w + w` of the parent;
    together they are the first `w * floor(n / w)` symbols -/
theorem chunks_aligned (p : Profile) (c : Codec) (hw : 1 ≤ c.width) (bs : Bits) (hal : Aligned c bs)
    (hlen : bs.length < W64) (w : Nat) (hw1 : 1 ≤ w) :
    ∃ rs : List Bits, Iter.chunks p c bs w = rs.map .ok ∧
      rs.map (syms c.width) = chunkSyms (syms c.width bs) w ∧
      (rs.map (syms c.width)).flatten = (syms c.width bs).take (w * (len c bs / w)) ∧
      ∀ r ∈ rs, Aligned c r := by
  have hmap : ((chunkSyms (syms c.width bs) w).map (pack c.width)).map (syms c.width)
      = chunkSyms (syms c.width bs) w := by
    rw [List.map_map]
    conv => rhs; rw [← List.map_id (chunkSyms (syms c.width bs) w)]
    apply List.map_congr_left
    intro s hs
    simp only [chunkSyms, List.mem_map] at hs
    obtain ⟨j, _, rfl⟩ := hs
    exact syms_pack c.width hw _ (((fits_syms c.width hw bs hal).take _).drop _)
  refine ⟨(chunkSyms (syms c.width bs) w).map (pack c.width), ?_, hmap, ?_, ?_⟩
  · conv => lhs; rw [eq_pack c hw bs hal]
    rw [chunks_eq_chunkSyms p c hw _ (guard_of_length c bs hal hlen) w hw1, List.map_map]; rfl
  · rw [hmap, chunkSyms_flatten, ← len_eq]
  · intro r hr
    simp only [List.mem_map] at hr
    obtain ⟨s, _, rfl⟩ := hr
    exact aligned_pack c _

theorem chain_aligned (p : Profile) (c : Codec) (wf : CodecWF c) (a b : Bits)
    (hala : Aligned c a) (halb : Aligned c b)
    (hca : Canon c (syms c.width a)) (hcb : Canon c (syms c.width b))
    (hlena : a.length < W64) (hlenb : b.length < W64) :
    Iter.chain p c a b = (syms c.width a ++ syms c.width b).map .ok := by
  unfold Iter.chain
  rw [iter_aligned p c wf a hala hca hlena, iter_aligned p c wf b halb hcb hlenb, List.map_append]

end aligned

/-! ### 7. non-vacuity: concrete instances on the extracted DNA codec ("ACTGATCG") -/

example : Iter.iter .debug (Gen.dna .debug) (pack 2 [0, 1, 3, 2, 0, 3, 1, 2])
    = [.ok 0, .ok 1, .ok 3, .ok 2, .ok 0, .ok 3, .ok 1, .ok 2] := by decide +kernel
example : Iter.revIter .release (Gen.dna .release) (pack 2 [0, 1, 3, 2, 0, 3, 1, 2])
    = [.ok 2, .ok 1, .ok 3, .ok 0, .ok 2, .ok 3, .ok 1, .ok 0] := by decide +kernel
/-- the doc-test of `windows`: ACT CTG TGA GAT ATC TCG -/
example : Iter.windows .debug (Gen.dna .debug) (pack 2 [0, 1, 3, 2, 0, 3, 1, 2]) 3
    = [.ok (pack 2 [0, 1, 3]), .ok (pack 2 [1, 3, 2]), .ok (pack 2 [3, 2, 0]),
       .ok (pack 2 [2, 0, 3]), .ok (pack 2 [0, 3, 1]), .ok (pack 2 [3, 1, 2])] := by decide +kernel
/-- the doc-test of `chunks`: ACT GAT, the tail CG dropped -/
example : Iter.chunks .debug (Gen.dna .debug) (pack 2 [0, 1, 3, 2, 0, 3, 1, 2]) 3
    = [.ok (pack 2 [0, 1, 3]), .ok (pack 2 [2, 0, 3])] := by decide +kernel
example : Iter.windows .debug (Gen.dna .debug) (pack 2 [0, 1, 3]) 4 = [] := by decide +kernel
example : Iter.windows .debug (Gen.dna .debug) (pack 2 [0, 1, 3]) 5 = [] := by decide +kernel
example : Iter.chunks .debug (Gen.dna .debug) (pack 2 [0, 1, 3]) 3 = [.ok (pack 2 [0, 1, 3])] := by
  decide +kernel
example : Iter.chain .debug (Gen.dna .debug) (pack 2 [0, 3, 2]) (pack 2 [3, 0, 1])
    = [.ok 0, .ok 3, .ok 2, .ok 3, .ok 0, .ok 1] := by decide +kernel
/-- the hypotheses of the theorems are satisfiable on that instance -/
example : CodecWF (Gen.dna .debug) ∧ [0, 1, 3, 2, 0, 3, 1, 2].length * (Gen.dna .debug).width < W64 ∧
    ∀ x ∈ [0, 1, 3, 2, 0, 3, 1, 2], x ∈ (Gen.dna .debug).items :=
  ⟨wf_dna .debug, by decide +kernel, by decide +kernel⟩
/-- ... and instantiating the general theorem gives the same concrete answer -/
example : Iter.chunks .debug (Gen.dna .debug) (pack 2 [0, 1, 3, 2, 0, 3, 1, 2]) 3
    = [.ok (pack 2 [0, 1, 3]), .ok (pack 2 [2, 0, 3])] := by
  have h := chunks_spec .debug (Gen.dna .debug) (wf_dna .debug).width_pos [0, 1, 3, 2, 0, 3, 1, 2]
    (by decide +kernel) 3 (by omega)
  exact h.trans (by decide +kernel)
/-- `Canon` is needed for the symbol iterators: on a chunk that is not a symbol's canonical code
    (amino, 6 bits, 63) the unchecked decoder decodes to some other symbol (here 31), so the iterator
    does not return the stored code -/
example : Iter.iter .debug (Gen.amino .debug) (pack 6 [63]) = [.ok 31] := by decide +kernel

end C11
end BioSeq
