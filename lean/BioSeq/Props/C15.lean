/-
  C15 — custom codon tables (`CodonTable::from_map`, translation.rs) are faithful
  bidirectional maps, independent of the `HashMap` iteration order.

  Model: the `HashMap<Seq<A>, B>` is a list `t` of `(codon bits, amino code)` pairs with distinct
  keys, visited in list order (= "iteration order"); the table built from it is
  `⟨t, inverse t⟩` (`Translation.fromMap` first collapses a raw pair list with `dedupLast`,
  see section 5; `fromMap t = ⟨t, inverse t⟩` for a key-distinct `t`, `fromMap_of_nodup`).
  A query codon is a `Bits` value compared by content (`==` on `List Bool`), exactly like
  `HashMap::get(&SeqSlice)` which hashes/compares the bit content: "whatever slice of whatever
  sequence presents the codon" is therefore structural in the model — two slices with the same
  content are the same `Bits` value.
-/
import BioSeq.Lemmas.C15Lemmas
import BioSeq.Checks.WF
import BioSeq.Standard
namespace BioSeq
namespace C15
open BioSeq.Translation BioSeq.C15L

/-- the pairs of the map whose value is the amino acid `a` -/
def preimages (t : List (Bits × Nat)) (a : Nat) : List (Bits × Nat) := t.filter (fun e => e.2 == a)

/-- the classification the inverse table must implement -/
def classify (a : Nat) : List (Bits × Nat) → Option (Nat × Option Bits)
  | [] => none
  | [e] => some (a, some e.1)
  | _ :: _ :: _ => some (a, none)

theorem invStep_eq_upsert (inv : List (Nat × Option Bits)) (e : Bits × Nat) :
    invStep inv e = upsert (fun x : Nat × Option Bits => x.1) e.2 (fun x => (x.1, none)) (e.2, some e.1) inv := rfl

theorem inverse_snoc (t : List (Bits × Nat)) (e : Bits × Nat) :
    inverse (t ++ [e]) = invStep (inverse t) e := by
  simp [inverse, List.foldl_append]

/-! ### 1. order-free characterisation of the inverse table -/

/-- **the inverse table, characterised without reference to the visiting order**: the entry for
    amino `a` is absent when no pair maps to `a`, `Some(codon)` when exactly one pair does, and
    `None` (ambiguous) when two or more do.  (Keys need not be distinct for this.) -/
theorem inverse_spec (t : List (Bits × Nat)) (a : Nat) :
    (inverse t).find? (fun x => x.1 == a) = classify a (preimages t a) := by
  induction t using snoc_induction with
  | nil => rfl
  | snoc t e ih =>
    rw [inverse_snoc, invStep_eq_upsert,
      find_upsert (fun x : Nat × Option Bits => x.1) e.2 (fun x => (x.1, none)) (e.2, some e.1)
        (fun _ => rfl) rfl]
    have hpre : preimages (t ++ [e]) a = preimages t a ++ (if e.2 == a then [e] else []) := by
      simp only [preimages, List.filter_append, List.filter_cons, List.filter_nil]
    rw [hpre]
    by_cases ha : a = e.2
    · subst ha
      rw [if_pos (beq_self_eq_true _), if_pos (beq_self_eq_true _), ih]
      cases h : preimages t e.2 with
      | nil => rfl
      | cons x xs =>
        cases xs with
        | nil => rfl
        | cons y ys => rfl
    · have h1 : ¬ (a == e.2) = true := by simpa using ha
      have h2 : ¬ (e.2 == a) = true := by simpa using fun h : e.2 = a => ha h.symm
      rw [if_neg h1, if_neg h2, List.append_nil, ih]

theorem inverse_none (t : List (Bits × Nat)) (a : Nat) (h : ∀ e ∈ t, e.2 ≠ a) :
    (inverse t).find? (fun x => x.1 == a) = none := by
  rw [inverse_spec]
  have : preimages t a = [] := by
    simp only [preimages, List.filter_eq_nil_iff]
    intro e he; simpa using h e he
  rw [this]; rfl

theorem inverse_unique (t : List (Bits × Nat)) (a : Nat) (e : Bits × Nat) (h : preimages t a = [e]) :
    (inverse t).find? (fun x => x.1 == a) = some (a, some e.1) := by
  rw [inverse_spec, h]; rfl

theorem inverse_ambiguous (t : List (Bits × Nat)) (a : Nat) (h : 2 ≤ (preimages t a).length) :
    (inverse t).find? (fun x => x.1 == a) = some (a, none) := by
  rw [inverse_spec]
  cases h' : preimages t a with
  | nil => rw [h'] at h; simp at h
  | cons x xs =>
    cases xs with
    | nil => rw [h'] at h; simp at h
    | cons y ys => rfl

/-! ### 4. reverse lookup -/

/-- exactly one codon maps to `a`: it is returned -/
theorem tryToCodon_unique (t : List (Bits × Nat)) (a : Nat) (e : Bits × Nat) (h : preimages t a = [e]) :
    (CodonTable.mk t (inverse t)).tryToCodon a = .ok e.1 := by
  simp only [CodonTable.tryToCodon]
  rw [inverse_unique t a e h]

/-- two or more codons map to `a`: `AmbiguousCodon` -/
theorem tryToCodon_ambiguous (t : List (Bits × Nat)) (a : Nat) (h : 2 ≤ (preimages t a).length) :
    (CodonTable.mk t (inverse t)).tryToCodon a = .error .ambiguousCodon := by
  simp only [CodonTable.tryToCodon]
  rw [inverse_ambiguous t a h]

/-- no codon maps to `a`: `InvalidAmino` -/
theorem tryToCodon_invalid (t : List (Bits × Nat)) (a : Nat) (h : ∀ e ∈ t, e.2 ≠ a) :
    (CodonTable.mk t (inverse t)).tryToCodon a = .error .invalidAmino := by
  simp only [CodonTable.tryToCodon]
  rw [inverse_none t a h]

/-- the three cases are exhaustive and determine the answer -/
theorem tryToCodon_spec (t : List (Bits × Nat)) (a : Nat) :
    (CodonTable.mk t (inverse t)).tryToCodon a =
      match preimages t a with
      | [] => .error .invalidAmino
      | [e] => .ok e.1
      | _ :: _ :: _ => .error .ambiguousCodon := by
  simp only [CodonTable.tryToCodon]
  rw [inverse_spec]
  cases h : preimages t a with
  | nil => rfl
  | cons x xs =>
    cases xs with
    | nil => rfl
    | cons y ys => rfl

/-- membership form, for a key-distinct map: `codon` is the unique codon mapped to `a` -/
theorem tryToCodon_unique_mem (t : List (Bits × Nat)) (hnd : (t.map (fun e => e.1)).Nodup) (a : Nat) (codon : Bits)
    (hmem : (codon, a) ∈ t) (huniq : ∀ codon', (codon', a) ∈ t → codon' = codon) :
    (CodonTable.mk t (inverse t)).tryToCodon a = .ok codon := by
  have hnd' : t.Nodup := nodup_of_nodup_map _ _ hnd
  have : preimages t a = [(codon, a)] := by
    apply eq_singleton_of_nodup
    · exact hnd'.filter _
    · intro x hx
      simp only [preimages, List.mem_filter, beq_iff_eq] at hx
      obtain ⟨hx1, hx2⟩ := hx
      have : x = (x.1, a) := by rw [← hx2]
      rw [this] at hx1 ⊢
      rw [huniq x.1 hx1]
    · simp [preimages, hmem]
  exact tryToCodon_unique t a _ this

/-- membership form: two different codons are mapped to `a` -/
theorem tryToCodon_ambiguous_mem (t : List (Bits × Nat)) (a : Nat) (c₁ c₂ : Bits)
    (h₁ : (c₁, a) ∈ t) (h₂ : (c₂, a) ∈ t) (hne : c₁ ≠ c₂) :
    (CodonTable.mk t (inverse t)).tryToCodon a = .error .ambiguousCodon := by
  apply tryToCodon_ambiguous
  apply two_le_length_of_mem_ne _ (c₁, a) (c₂, a)
  · simp [preimages, h₁]
  · simp [preimages, h₂]
  · intro h; injection h with h _; exact hne h

/-- membership form: no codon is mapped to `a` -/
theorem tryToCodon_invalid_mem (t : List (Bits × Nat)) (a : Nat) (h : ∀ codon, (codon, a) ∉ t) :
    (CodonTable.mk t (inverse t)).tryToCodon a = .error .invalidAmino := by
  apply tryToCodon_invalid
  intro e he hea
  apply h e.1
  rw [← hea]; exact he

/-! ### 3. forward lookup is faithful -/

/-- a key codon translates to exactly the amino acid it is mapped to -/
theorem tryToAmino_key (t : List (Bits × Nat)) (hnd : (t.map (fun e => e.1)).Nodup) (codon : Bits) (a : Nat)
    (h : (codon, a) ∈ t) : (CodonTable.mk t (inverse t)).tryToAmino codon = .ok a := by
  simp only [CodonTable.tryToAmino]
  have := find_key_of_mem (fun e : Bits × Nat => e.1) t hnd (codon, a) h
  rw [this]

/-- a codon that is not a key is reported as `InvalidCodon` -/
theorem tryToAmino_nonkey (t : List (Bits × Nat)) (codon : Bits) (h : ¬ codon ∈ t.map (fun e => e.1)) :
    (CodonTable.mk t (inverse t)).tryToAmino codon = .error .invalidCodon := by
  simp only [CodonTable.tryToAmino]
  have := find_key_none (fun e : Bits × Nat => e.1) t codon h
  rw [this]

/-- translating the codons of a sequence chunk by chunk (`seq.chunks(3)` then `try_to_amino`)
    yields exactly the mapped amino acids, when every chunk is a key -/
theorem tryToAmino_chunks (t : List (Bits × Nat)) (hnd : (t.map (fun e => e.1)).Nodup)
    (pairs : List (Bits × Nat)) (h : ∀ e ∈ pairs, e ∈ t) :
    (pairs.map (fun e => e.1)).mapM (CodonTable.mk t (inverse t)).tryToAmino = .ok (pairs.map (fun e => e.2)) := by
  induction pairs with
  | nil => rfl
  | cons e es ih =>
    rw [List.map_cons, List.mapM_cons, tryToAmino_key t hnd e.1 e.2 (h e (by simp)),
      ih (fun x hx => h x (by simp [hx]))]
    rfl

/-! ### 2. independence of the iteration order -/

theorem classify_perm (a : Nat) (l₁ l₂ : List (Bits × Nat)) (h : l₁.Perm l₂) :
    classify a l₁ = classify a l₂ := by
  cases l₁ with
  | nil => rw [List.nil_perm.mp h]
  | cons x xs =>
    cases xs with
    | nil => rw [← List.singleton_perm.mp h]
    | cons y ys =>
      have hl := h.length_eq
      cases l₂ with
      | nil => simp at hl
      | cons x' xs' =>
        cases xs' with
        | nil => simp at hl
        | cons y' ys' => rfl

/-- **two iteration orders of the same map build tables that answer every query identically** -/
theorem from_map_perm (t₁ t₂ : List (Bits × Nat)) (hp : t₁.Perm t₂) (hnd : (t₁.map (fun e => e.1)).Nodup) :
    (∀ codon, (CodonTable.mk t₁ (inverse t₁)).tryToAmino codon = (CodonTable.mk t₂ (inverse t₂)).tryToAmino codon) ∧
    (∀ a, (CodonTable.mk t₁ (inverse t₁)).tryToCodon a = (CodonTable.mk t₂ (inverse t₂)).tryToCodon a) := by
  have hnd₂ : (t₂.map (fun e => e.1)).Nodup := (hp.map _).nodup_iff.mp hnd
  constructor
  · intro codon
    by_cases hk : codon ∈ t₁.map (fun e => e.1)
    · obtain ⟨e, he, hek⟩ := List.mem_map.mp hk
      have he' : (codon, e.2) ∈ t₁ := by rw [← hek]; exact he
      rw [tryToAmino_key t₁ hnd codon e.2 he', tryToAmino_key t₂ hnd₂ codon e.2 (hp.mem_iff.mp he')]
    · have hk₂ : ¬ codon ∈ t₂.map (fun e => e.1) := fun h => hk ((hp.map _).mem_iff.mpr h)
      rw [tryToAmino_nonkey t₁ codon hk, tryToAmino_nonkey t₂ codon hk₂]
  · intro a
    simp only [CodonTable.tryToCodon]
    rw [inverse_spec, inverse_spec, classify_perm a (preimages t₁ a) (preimages t₂ a) (hp.filter _)]

/-- the inverse-table lookups themselves agree (no key-distinctness needed) -/
theorem inverse_perm (t₁ t₂ : List (Bits × Nat)) (hp : t₁.Perm t₂) (a : Nat) :
    (inverse t₁).find? (fun x => x.1 == a) = (inverse t₂).find? (fun x => x.1 == a) := by
  rw [inverse_spec, inverse_spec]
  exact classify_perm a _ _ (hp.filter _)

/-! ### 5. building the `HashMap` from a raw pair list (`dedupLast`) -/

theorem dedupLast_snoc (es : List (Bits × Nat)) (e : Bits × Nat) :
    dedupLast (es ++ [e]) =
      upsert (fun x : Bits × Nat => x.1) e.1 (fun x => (x.1, e.2)) e (dedupLast es) := by
  simp only [dedupLast, List.foldl_append, List.foldl_cons, List.foldl_nil]
  rfl

/-- the keys of the collapsed list are distinct (it is a `HashMap`) -/
theorem dedupLast_keys_nodup (es : List (Bits × Nat)) : ((dedupLast es).map (fun e => e.1)).Nodup := by
  induction es using snoc_induction with
  | nil => simp [dedupLast]
  | snoc es e ih =>
    rw [dedupLast_snoc]
    exact nodup_keys_upsert (fun x : Bits × Nat => x.1) e.1 (fun x => (x.1, e.2)) e (fun _ => rfl) rfl _ ih

/-- lookup by key in the collapsed list = the LAST pair of the raw list with that key -/
theorem dedupLast_find (es : List (Bits × Nat)) (k : Bits) :
    (dedupLast es).find? (fun x => x.1 == k) = es.reverse.find? (fun x => x.1 == k) := by
  induction es using snoc_induction with
  | nil => rfl
  | snoc es e ih =>
    rw [dedupLast_snoc, find_upsert (fun x : Bits × Nat => x.1) e.1 (fun x => (x.1, e.2)) e (fun _ => rfl) rfl,
      List.reverse_append, List.reverse_singleton, List.singleton_append, List.find?_cons]
    by_cases hk : k = e.1
    · subst hk
      rw [if_pos (beq_self_eq_true _)]
      simp only [beq_self_eq_true]
      cases hf : (dedupLast es).find? (fun x => x.1 == e.1) with
      | none => rfl
      | some x =>
        have := find_key_spec (fun x : Bits × Nat => x.1) e.1 _ x hf
        show some (x.1, e.2) = some e
        rw [this]
    · have h1 : ¬ (k == e.1) = true := by simpa using hk
      have h2 : (e.1 == k) = false := by simpa using fun h : e.1 = k => hk h.symm
      rw [if_neg h1, h2, ih]

/-- a key-distinct list is left unchanged, so `fromMap t = ⟨t, inverse t⟩` for a `HashMap` `t` -/
theorem dedupLast_of_nodup (t : List (Bits × Nat)) (hnd : (t.map (fun e => e.1)).Nodup) : dedupLast t = t := by
  induction t using snoc_induction with
  | nil => rfl
  | snoc t e ih =>
    rw [List.map_append, List.nodup_append] at hnd
    obtain ⟨h1, _, h3⟩ := hnd
    rw [dedupLast_snoc, ih h1]
    unfold upsert
    have : ¬ (t.any (fun x => x.1 == e.1) = true) := by
      intro h
      obtain ⟨x, hx, hk⟩ := List.any_eq_true.mp h
      exact h3 x.1 (List.mem_map.mpr ⟨x, hx, rfl⟩) e.1 (by simp) (by simpa using hk)
    rw [if_neg this]

theorem fromMap_of_nodup (t : List (Bits × Nat)) (hnd : (t.map (fun e => e.1)).Nodup) :
    fromMap t = ⟨t, inverse t⟩ := by
  simp only [fromMap, dedupLast_of_nodup t hnd]

/-- `from_map` on a raw pair list: forward lookup answers with the last pair given for the codon -/
theorem fromMap_tryToAmino (es : List (Bits × Nat)) (codon : Bits) :
    (fromMap es).tryToAmino codon =
      match es.reverse.find? (fun x => x.1 == codon) with
      | some e => .ok e.2
      | none => .error .invalidCodon := by
  simp only [fromMap, CodonTable.tryToAmino]
  rw [dedupLast_find]
  rfl

/-- `from_map` on a raw pair list: reverse lookup classifies the preimages in the collapsed map -/
theorem fromMap_tryToCodon (es : List (Bits × Nat)) (a : Nat) :
    (fromMap es).tryToCodon a =
      match preimages (dedupLast es) a with
      | [] => .error .invalidAmino
      | [e] => .ok e.1
      | _ :: _ :: _ => .error .ambiguousCodon :=
  tryToCodon_spec (dedupLast es) a

/-! ### 6. the crate's unit test `custom_codon_table` -/

/-- canonical code of the amino variant with this identifier (read from the enum declaration;
    `Amino::X` is the stop symbol, code 3), DNA codon from its letters (extracted debug tables) -/
def aa (id : String) : Nat := (Standard.aminoCodeOfIdent id).getD 0
def codon (a b c : Char) : Bits :=
  pack 2 ([a, b, c].map fun ch => ((Gen.dna .debug).tryFromAscii ch.toNat).getD 0)

def mito : List (Bits × Nat) :=
  [(codon 'A' 'A' 'A', aa "A"), (codon 'A' 'T' 'G', aa "A"), (codon 'C' 'C' 'C', aa "C"),
   (codon 'G' 'G' 'G', aa "E"), (codon 'T' 'T' 'T', aa "D"), (codon 'T' 'T' 'A', aa "F")]

example : (["A", "C", "E", "D", "F", "X"].map Standard.aminoCodeOfIdent).all Option.isSome = true
    ∧ (["A", "C", "E", "D", "F", "X"].map aa).Nodup := by decide +kernel
example : (mito.map (fun e => e.1)).Nodup := by decide +kernel
example : (fromMap mito).table = mito ∧ (fromMap mito).inv = inverse mito := by decide +kernel
example : (fromMap mito).tryToCodon (aa "A") = .error .ambiguousCodon := by decide +kernel
example : (fromMap mito).tryToCodon (aa "C") = .ok (codon 'C' 'C' 'C') := by decide +kernel
example : (fromMap mito).tryToCodon (aa "E") ≠ .ok (codon 'C' 'C' 'C') := by decide +kernel
example : (fromMap mito).tryToCodon (aa "X") = .error .invalidAmino := by decide +kernel
example : [codon 'A' 'A' 'A', codon 'C' 'C' 'C', codon 'G' 'G' 'G', codon 'T' 'T' 'T', codon 'T' 'T' 'A',
    codon 'T' 'T' 'A', codon 'A' 'T' 'G'].mapM (fromMap mito).tryToAmino
    = .ok [aa "A", aa "C", aa "E", aa "D", aa "F", aa "F", aa "A"] := by decide +kernel
example : (fromMap mito).tryToAmino (codon 'A' 'C' 'G') = .error .invalidCodon := by decide +kernel
/-- the same answers for another iteration order of the same map -/
example : (fromMap mito.reverse).tryToCodon (aa "A") = .error .ambiguousCodon
    ∧ (fromMap mito.reverse).tryToCodon (aa "C") = .ok (codon 'C' 'C' 'C')
    ∧ (fromMap mito.reverse).tryToCodon (aa "X") = .error .invalidAmino := by decide +kernel
/-- `from_map_perm` instantiated: the reversed iteration order answers every query identically -/
example := from_map_perm mito mito.reverse (List.reverse_perm mito).symm (by decide +kernel)
/-- instances of the hypotheses of the general theorems -/
example : preimages mito (aa "C") = [(codon 'C' 'C' 'C', aa "C")] := by decide +kernel
example : 2 ≤ (preimages mito (aa "A")).length := by decide +kernel
example : ∀ e ∈ mito, e.2 ≠ aa "X" := by decide +kernel
/-- `dedupLast`: a later pair with an equal key overwrites the value, the key keeps its position -/
example : dedupLast [(codon 'A' 'A' 'A', 1), (codon 'C' 'C' 'C', 2), (codon 'A' 'A' 'A', 3)]
    = [(codon 'A' 'A' 'A', 3), (codon 'C' 'C' 'C', 2)] := by decide +kernel

end C15
end BioSeq
