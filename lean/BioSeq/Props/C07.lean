/-
  C07 — reverse, complement and reverse-complement of sequences are exact and involutive.

  Stated for every codec satisfying `CodecWF` (Checks/WF.lean) plus, for the complementing
  operations, `CompWF` / `CompInvol` (proved below for the five complementable extracted
  codecs in both build profiles), and for every aligned bit string of any length (0, 1,
  word-straddling: `Bits` has no word structure, so nothing depends on 64-bit boundaries).
  The symbol view is `syms c.width`; the packed form `pack c.width cs` is the same thing
  read the other way (`C03.eq_pack`).

  Copying forms.  `to_rev` / `to_comp` / `to_revcomp` are `to_owned()` followed by the in-place
  form (lib.rs).  In the model's value semantics a sequence or a slice *is* its `Bits`, so the
  copying forms are literally the same functions `Seq.rev` / `Seq.comp` / `Seq.revcomp`; "same
  answer for an owned sequence, a borrowed slice at any offset and the in-place form on a copy"
  is therefore `rfl` here, and for a slice `s[a..b]` the theorems `rev_slice` / `revcomp_slice`
  spell the answer out on the parent's symbols.  That the *receiver is left untouched* is not
  expressible in value semantics; it is checked by the differential runs, not by a theorem.

  Where `Canon` is needed and why: `Seq.comp` decodes each chunk with `unsafe_from_bits`.  On a
  chunk that is not the canonical code of a listed symbol (e.g. code 3 in masked DNA, which
  decodes to symbol 12) complement normalises the chunk, so `comp ∘ comp` does not restore it;
  the hypothesis `Canon c (syms ..)` (every chunk is an `items()` code) is exactly what every
  parser/`push`-built sequence satisfies (C01 `symbolsOf_canon`).  `rev` needs no such
  hypothesis.
-/
import BioSeq.Lemmas.C07Lemmas
import BioSeq.Checks.WF
import BioSeq.Props.C03
namespace BioSeq
namespace C07
open BioSeq.Seq
open BioSeq.C03 (Aligned aligned_pack eq_pack)

/-! ### 1. reverse -/

/-- packed form: reversing the packing of `cs` is the packing of `cs.reverse`
    (each symbol's bits intact) -/
theorem rev_pack (c : Codec) (hw : 1 ≤ c.width) (cs : List Nat) :
    Seq.rev c (pack c.width cs) = pack c.width cs.reverse := by
  unfold Seq.rev
  simp only [pack_length, Nat.mul_mod_right, List.take_zero, List.drop_zero, List.nil_append,
    Nat.mul_div_cancel_left _ (by omega : 0 < c.width)]
  exact mapChunks_reverse_pack c.width cs

/-- symbol view: the reverse of an aligned sequence is aligned and holds the symbols in
    opposite order -/
theorem rev_spec (c : Codec) (hw : 1 ≤ c.width) (bs : Bits) (hal : Aligned c bs) :
    Aligned c (Seq.rev c bs) ∧ syms c.width (Seq.rev c bs) = (syms c.width bs).reverse := by
  have e := eq_pack c hw bs hal
  have hr : Seq.rev c bs = pack c.width (syms c.width bs).reverse := by
    conv => lhs; rw [e]
    exact rev_pack c hw _
  rw [hr]
  exact ⟨aligned_pack c _, syms_pack c.width hw _ (fits_syms c.width hw bs hal).reverse⟩

/-- the `i`-th symbol of the reverse is the `(n-1-i)`-th of the original -/
theorem rev_nth (c : Codec) (hw : 1 ≤ c.width) (bs : Bits) (hal : Aligned c bs) (i : Nat)
    (hi : i < len c bs) :
    (syms c.width (Seq.rev c bs))[i]? = (syms c.width bs)[len c bs - 1 - i]? := by
  rw [(rev_spec c hw bs hal).2, C03.len_eq]
  rw [C03.len_eq] at hi
  rw [List.getElem?_reverse hi]

/-- `to_rev` of a borrowed slice `s[a..b]`: symbols `a..b` of the parent, in opposite order -/
theorem rev_slice (p : Profile) (c : Codec) (hw : 1 ≤ c.width) (bs : Bits) (hal : Aligned c bs)
    (a b : Nat) (hab : a ≤ b) (hb : b ≤ len c bs) (hov : b * c.width < W64) (r : Bits)
    (hr : index p c bs .range a b = .ok r) :
    syms c.width (Seq.rev c r) = (((syms c.width bs).take b).drop a).reverse := by
  obtain ⟨r', hr', hal', hs, _⟩ := C03.index_range p c hw bs hal a b hab hb hov
  rw [hr] at hr'; injection hr' with hr'; subst hr'
  rw [(rev_spec c hw r hal').2, hs]

/-! ### 2. complement -/

/-- the codec's symbol complement never panics on a listed symbol and yields a listed symbol -/
def CompWF (c : Codec) : Prop := ∀ s ∈ c.items, ∃ t ∈ c.items, c.comp s = some t

/-- the codec's symbol complement is an involution on the listed symbols -/
def CompInvol (c : Codec) : Prop := ∀ s ∈ c.items, (c.comp s).bind c.comp = some s

/-- total view of the symbol complement (the default `0` is never used on listed symbols:
    `compSym_spec`) -/
def compSym (c : Codec) (s : Nat) : Nat := (c.comp s).getD 0

theorem compSym_spec (c : Codec) (cw : CompWF c) (s : Nat) (hs : s ∈ c.items) :
    c.comp s = some (compSym c s) ∧ compSym c s ∈ c.items := by
  obtain ⟨t, ht, hst⟩ := cw s hs
  simp [compSym, hst, ht]

theorem canon_map_comp (c : Codec) (cw : CompWF c) (cs : List Nat) (hc : Canon c cs) :
    Canon c (cs.map (compSym c)) := by
  intro x hx
  simp only [List.mem_map] at hx
  obtain ⟨s, hs, rfl⟩ := hx
  exact (compSym_spec c cw s (hc s hs)).2

/-- stated via `Option`: the mapped list is the codec complement of every symbol, none failing -/
theorem map_comp_eq (c : Codec) (cw : CompWF c) (cs : List Nat) (hc : Canon c cs) :
    cs.map c.comp = (cs.map (compSym c)).map some := by
  rw [List.map_map]
  apply List.map_congr_left
  intro s hs
  exact (compSym_spec c cw s (hc s hs)).1

theorem canon_reverse {c : Codec} {cs : List Nat} (h : Canon c cs) : Canon c cs.reverse :=
  fun x hx => h x (List.mem_reverse.mp hx)

/-- packed form: complement replaces each symbol by its codec complement, in place -/
theorem comp_spec (p : Profile) (c : Codec) (wf : CodecWF c) (cw : CompWF c) (cs : List Nat)
    (hc : Canon c cs) :
    Seq.comp p c (pack c.width cs) = .ok (pack c.width (cs.map (compSym c))) ∧
    Canon c (cs.map (compSym c)) := by
  refine ⟨?_, canon_map_comp c cw cs hc⟩
  unfold Seq.comp
  rw [len_pack c wf.width_pos]
  apply mapChunksM_pack
  intro x hx
  exact chunkOp_item p c wf c.comp x _ (hc x hx) (compSym_spec c cw x (hc x hx)).1

/-- symbol view, any aligned canonical sequence -/
theorem comp_syms (p : Profile) (c : Codec) (wf : CodecWF c) (cw : CompWF c) (bs : Bits)
    (hal : Aligned c bs) (hc : Canon c (syms c.width bs)) :
    ∃ r, Seq.comp p c bs = .ok r ∧ Aligned c r ∧ Canon c (syms c.width r) ∧
      syms c.width r = (syms c.width bs).map (compSym c) ∧
      (syms c.width r).map some = (syms c.width bs).map c.comp := by
  have e := eq_pack c wf.width_pos bs hal
  obtain ⟨h1, h2⟩ := comp_spec p c wf cw _ hc
  have hs := syms_pack c.width wf.width_pos _ (h2.fits wf)
  refine ⟨_, ?_, aligned_pack c _, ?_, hs, ?_⟩
  · conv => lhs; rw [e]
    exact h1
  · rw [hs]; exact h2
  · rw [hs]; exact (map_comp_eq c cw _ hc).symm

/-- the only way complement fails on a canonical sequence: a listed symbol whose symbol-level
    complement panics (never the case under `CompWF`; shows `CompWF` is not a vacuous guard) -/
theorem comp_panics (p : Profile) (c : Codec) (wf : CodecWF c) (cs : List Nat) (hc : Canon c cs)
    (s : Nat) (hs : s ∈ cs) (hn : c.comp s = none) :
    Seq.comp p c (pack c.width cs) = .error .panic := by
  unfold Seq.comp
  rw [len_pack c wf.width_pos]
  apply mapChunksM_pack_error c.width _ cs .panic _ s hs (chunkOp_item_none p c wf c.comp s (hc s hs) hn)
  intro x hx
  cases hx' : c.comp x with
  | none => exact ⟨[], Or.inr (chunkOp_item_none p c wf c.comp x (hc x hx) hx')⟩
  | some t => exact ⟨_, Or.inl (chunkOp_item p c wf c.comp x t (hc x hx) hx')⟩

/-! ### 3. reverse-complement = either order of composition -/

/-- by definition (lib.rs default method): complement, then reverse -/
theorem revcomp_eq_rev_comp (p : Profile) (c : Codec) (bs : Bits) :
    Seq.revcomp p c bs = (Seq.comp p c bs).map (Seq.rev c) := rfl

/-- packed form of the result: both at once -/
theorem revcomp_spec (p : Profile) (c : Codec) (wf : CodecWF c) (cw : CompWF c) (cs : List Nat)
    (hc : Canon c cs) :
    Seq.revcomp p c (pack c.width cs) = .ok (pack c.width (cs.reverse.map (compSym c))) ∧
    Canon c (cs.reverse.map (compSym c)) := by
  refine ⟨?_, canon_map_comp c cw _ (canon_reverse hc)⟩
  unfold Seq.revcomp
  rw [(comp_spec p c wf cw cs hc).1]
  simp only [Except.map]
  rw [rev_pack c wf.width_pos, List.map_reverse]

/-- the other order: reverse, then complement, gives the same sequence -/
theorem revcomp_eq_comp_rev (p : Profile) (c : Codec) (wf : CodecWF c) (cw : CompWF c)
    (cs : List Nat) (hc : Canon c cs) :
    Seq.revcomp p c (pack c.width cs) = Seq.comp p c (Seq.rev c (pack c.width cs)) := by
  rw [(revcomp_spec p c wf cw cs hc).1, rev_pack c wf.width_pos,
    (comp_spec p c wf cw _ (canon_reverse hc)).1]

/-- symbol view, any aligned canonical sequence; both orders of composition -/
theorem revcomp_syms (p : Profile) (c : Codec) (wf : CodecWF c) (cw : CompWF c) (bs : Bits)
    (hal : Aligned c bs) (hc : Canon c (syms c.width bs)) :
    ∃ r, Seq.revcomp p c bs = .ok r ∧ Seq.comp p c (Seq.rev c bs) = .ok r ∧
      Aligned c r ∧ Canon c (syms c.width r) ∧
      syms c.width r = (syms c.width bs).reverse.map (compSym c) := by
  have e := eq_pack c wf.width_pos bs hal
  obtain ⟨h1, h2⟩ := revcomp_spec p c wf cw _ hc
  have h3 := revcomp_eq_comp_rev p c wf cw _ hc
  rw [← e] at h1 h3
  have hs := syms_pack c.width wf.width_pos _ (h2.fits wf)
  refine ⟨_, h1, ?_, aligned_pack c _, ?_, hs⟩
  · rw [← h3, h1]
  · rw [hs]; exact h2

/-- `to_revcomp` of a borrowed slice `s[a..b]`, on the parent's symbols -/
theorem revcomp_slice (p : Profile) (c : Codec) (wf : CodecWF c) (cw : CompWF c) (bs : Bits)
    (hal : Aligned c bs) (hc : Canon c (syms c.width bs))
    (a b : Nat) (hab : a ≤ b) (hb : b ≤ len c bs) (hov : b * c.width < W64) (r : Bits)
    (hr : index p c bs .range a b = .ok r) :
    ∃ q, Seq.revcomp p c r = .ok q ∧
      syms c.width q = (((syms c.width bs).take b).drop a).reverse.map (compSym c) := by
  obtain ⟨r', hr', hal', hs, _⟩ := C03.index_range p c wf.width_pos bs hal a b hab hb hov
  rw [hr] at hr'; injection hr' with hr'; subst hr'
  have hc' : Canon c (syms c.width r) := by
    rw [hs]; intro x hx
    exact hc x (List.mem_of_mem_take (List.mem_of_mem_drop hx))
  obtain ⟨q, hq, _, _, _, hsq⟩ := revcomp_syms p c wf cw r hal' hc'
  exact ⟨q, hq, by rw [hsq, hs]⟩

/-! ### 4. involutions -/

theorem rev_rev_pack (c : Codec) (hw : 1 ≤ c.width) (cs : List Nat) :
    Seq.rev c (Seq.rev c (pack c.width cs)) = pack c.width cs := by
  rw [rev_pack c hw, rev_pack c hw, List.reverse_reverse]

/-- reversing twice restores an aligned sequence bit for bit (no canonicity needed) -/
theorem rev_rev (c : Codec) (hw : 1 ≤ c.width) (bs : Bits) (hal : Aligned c bs) :
    Seq.rev c (Seq.rev c bs) = bs := by
  have e := eq_pack c hw bs hal
  rw [e]
  exact rev_rev_pack c hw _

theorem compSym_compSym (c : Codec) (cw : CompWF c) (ci : CompInvol c) (s : Nat) (hs : s ∈ c.items) :
    compSym c (compSym c s) = s := by
  have h1 := (compSym_spec c cw s hs).1
  have h2 := ci s hs
  rw [h1] at h2
  simp only [Option.bind] at h2
  unfold compSym
  rw [h1, Option.getD_some, h2, Option.getD_some]

theorem map_compSym_compSym (c : Codec) (cw : CompWF c) (ci : CompInvol c) (cs : List Nat)
    (hc : Canon c cs) : (cs.map (compSym c)).map (compSym c) = cs := by
  rw [List.map_map]
  conv => rhs; rw [← List.map_id cs]
  apply List.map_congr_left
  intro s hs
  exact compSym_compSym c cw ci s (hc s hs)

/-- complementing twice restores a canonical sequence -/
theorem comp_comp_pack (p : Profile) (c : Codec) (wf : CodecWF c) (cw : CompWF c) (ci : CompInvol c)
    (cs : List Nat) (hc : Canon c cs) :
    (Seq.comp p c (pack c.width cs)).bind (Seq.comp p c) = .ok (pack c.width cs) := by
  obtain ⟨h1, h2⟩ := comp_spec p c wf cw cs hc
  rw [h1]
  simp only [Except.bind]
  rw [(comp_spec p c wf cw _ h2).1, map_compSym_compSym c cw ci cs hc]

theorem comp_comp (p : Profile) (c : Codec) (wf : CodecWF c) (cw : CompWF c) (ci : CompInvol c)
    (bs : Bits) (hal : Aligned c bs) (hc : Canon c (syms c.width bs)) :
    (Seq.comp p c bs).bind (Seq.comp p c) = .ok bs := by
  have e := eq_pack c wf.width_pos bs hal
  have := comp_comp_pack p c wf cw ci _ hc
  rwa [← e] at this

/-- reverse-complementing twice restores a canonical sequence -/
theorem revcomp_revcomp_pack (p : Profile) (c : Codec) (wf : CodecWF c) (cw : CompWF c)
    (ci : CompInvol c) (cs : List Nat) (hc : Canon c cs) :
    (Seq.revcomp p c (pack c.width cs)).bind (Seq.revcomp p c) = .ok (pack c.width cs) := by
  obtain ⟨h1, h2⟩ := revcomp_spec p c wf cw cs hc
  rw [h1]
  simp only [Except.bind]
  rw [(revcomp_spec p c wf cw _ h2).1]
  rw [← List.map_reverse, List.reverse_reverse, map_compSym_compSym c cw ci cs hc]

theorem revcomp_revcomp (p : Profile) (c : Codec) (wf : CodecWF c) (cw : CompWF c) (ci : CompInvol c)
    (bs : Bits) (hal : Aligned c bs) (hc : Canon c (syms c.width bs)) :
    (Seq.revcomp p c bs).bind (Seq.revcomp p c) = .ok bs := by
  have e := eq_pack c wf.width_pos bs hal
  have := revcomp_revcomp_pack p c wf cw ci _ hc
  rwa [← e] at this

/-! ### 6. length is preserved (all three; any bit string, aligned or not, any width) -/

theorem rev_length (c : Codec) (bs : Bits) : (Seq.rev c bs).length = bs.length := by
  unfold Seq.rev
  have hmd := Nat.mod_add_div bs.length c.width
  have hle : bs.length % c.width ≤ bs.length := Nat.mod_le _ _
  simp only [List.length_append, List.length_take, List.length_reverse]
  rw [mapChunks_length c.width List.reverse (fun x => List.length_reverse) _ _
    (by simp only [List.length_drop, List.length_reverse]; omega)]
  omega

theorem comp_length (p : Profile) (c : Codec) (bs r : Bits) (h : Seq.comp p c bs = .ok r) :
    r.length = bs.length :=
  mapChunksM_length c.width _ (chunkOp_length p c c.comp) _ _ _ h

theorem revcomp_length (p : Profile) (c : Codec) (bs r : Bits) (h : Seq.revcomp p c bs = .ok r) :
    r.length = bs.length := by
  unfold Seq.revcomp at h
  cases hc : Seq.comp p c bs with
  | error e => rw [hc] at h; cases h
  | ok q =>
    rw [hc] at h
    simp only [Except.map] at h
    injection h with h
    rw [← h, rev_length, comp_length p c bs q hc]

/-- hence the symbol count `len()` is preserved too -/
theorem rev_len (c : Codec) (bs : Bits) : len c (Seq.rev c bs) = len c bs := by
  simp only [len, rev_length]

theorem comp_len (p : Profile) (c : Codec) (bs r : Bits) (h : Seq.comp p c bs = .ok r) :
    len c r = len c bs := by
  simp only [len, comp_length p c bs r h]

theorem revcomp_len (p : Profile) (c : Codec) (bs r : Bits) (h : Seq.revcomp p c bs = .ok r) :
    len c r = len c bs := by
  simp only [len, revcomp_length p c bs r h]

/-! ### 5. the extracted complementable codecs satisfy `CompWF` and `CompInvol` -/

/-- failing-input search: the listed symbols whose complement panics, is not a listed symbol,
    or does not complement back.  One linear walk over `items()`. -/
def compFailures (c : Codec) : List Nat :=
  c.items.filter fun s => match c.comp s with
    | some t => !(c.items.contains t && c.comp t == some s)
    | none => true

theorem comp_of_failures (c : Codec) (h : compFailures c = []) : CompWF c ∧ CompInvol c := by
  simp only [compFailures, List.filter_eq_nil_iff] at h
  constructor
  · intro s hs
    have := h s hs
    cases hc : c.comp s with
    | none => simp [hc] at this
    | some t =>
      simp only [hc, Bool.not_eq_true, Bool.not_eq_false', Bool.and_eq_true, List.contains_eq_mem,
        decide_eq_true_eq] at this
      exact ⟨t, this.1, rfl⟩
  · intro s hs
    have := h s hs
    cases hc : c.comp s with
    | none => simp [hc] at this
    | some t =>
      simp only [hc, Bool.not_eq_true, Bool.not_eq_false', Bool.and_eq_true, beq_iff_eq] at this
      simpa [Option.bind] using this.2

theorem dna_failures (p : Profile) : compFailures (Gen.dna p) = [] := by cases p <;> decide +kernel
theorem iupac_failures (p : Profile) : compFailures (Gen.iupac p) = [] := by cases p <;> decide +kernel
theorem mdna_failures (p : Profile) : compFailures (Gen.mdna p) = [] := by cases p <;> decide +kernel
theorem miupac_failures (p : Profile) : compFailures (Gen.miupac p) = [] := by cases p <;> decide +kernel
theorem deg_failures (p : Profile) : compFailures (Gen.deg p) = [] := by cases p <;> decide +kernel

theorem compWF_dna (p : Profile) : CompWF (Gen.dna p) := (comp_of_failures _ (dna_failures p)).1
theorem compWF_iupac (p : Profile) : CompWF (Gen.iupac p) := (comp_of_failures _ (iupac_failures p)).1
theorem compWF_mdna (p : Profile) : CompWF (Gen.mdna p) := (comp_of_failures _ (mdna_failures p)).1
theorem compWF_miupac (p : Profile) : CompWF (Gen.miupac p) := (comp_of_failures _ (miupac_failures p)).1
theorem compWF_deg (p : Profile) : CompWF (Gen.deg p) := (comp_of_failures _ (deg_failures p)).1

theorem compInvol_dna (p : Profile) : CompInvol (Gen.dna p) := (comp_of_failures _ (dna_failures p)).2
theorem compInvol_iupac (p : Profile) : CompInvol (Gen.iupac p) := (comp_of_failures _ (iupac_failures p)).2
theorem compInvol_mdna (p : Profile) : CompInvol (Gen.mdna p) := (comp_of_failures _ (mdna_failures p)).2
theorem compInvol_miupac (p : Profile) : CompInvol (Gen.miupac p) := (comp_of_failures _ (miupac_failures p)).2
theorem compInvol_deg (p : Profile) : CompInvol (Gen.deg p) := (comp_of_failures _ (deg_failures p)).2

/-- every complementable built-in codec, both profiles: all hypotheses of the theorems above hold -/
theorem builtin_instances : ∀ c ∈ Gen.compCodecs, ∀ p, CodecWF (c p) ∧ CompWF (c p) ∧ CompInvol (c p) := by
  intro c hc p
  simp only [Gen.compCodecs, List.mem_cons, List.mem_nil_iff, or_false] at hc
  rcases hc with rfl | rfl | rfl | rfl | rfl
  · exact ⟨wf_dna p, compWF_dna p, compInvol_dna p⟩
  · exact ⟨wf_iupac p, compWF_iupac p, compInvol_iupac p⟩
  · exact ⟨wf_mdna p, compWF_mdna p, compInvol_mdna p⟩
  · exact ⟨wf_miupac p, compWF_miupac p, compInvol_miupac p⟩
  · exact ⟨wf_deg p, compWF_deg p, compInvol_deg p⟩

/-- reverse applies to all seven built-in codecs (only `1 ≤ width` is needed) -/
theorem builtin_rev : ∀ c ∈ Gen.allCodecs, ∀ p, 1 ≤ (c p).width :=
  fun c hc p => (wf_all c hc p).width_pos

/-! ### non-vacuity: concrete instances on the extracted codecs -/

/-- 5 IUPAC symbols `ACGTR` -/
example : Seq.rev (Gen.iupac .debug) (pack 4 [8, 4, 2, 1, 10]) = pack 4 [10, 1, 2, 4, 8] := by
  decide +kernel
example : Seq.comp .debug (Gen.iupac .debug) (pack 4 [8, 4, 2, 1, 10]) = .ok (pack 4 [1, 2, 4, 8, 5]) := by
  decide +kernel
example : Seq.revcomp .debug (Gen.iupac .debug) (pack 4 [8, 4, 2, 1, 10]) = .ok (pack 4 [5, 8, 4, 2, 1]) := by
  decide +kernel
example : Canon (Gen.iupac .debug) [8, 4, 2, 1, 10] := by unfold Canon; decide +kernel

/-- 13 masked-IUPAC symbols of 5 bits = 65 bits: the last symbol straddles the 64-bit word -/
example : (pack 5 [16, 8, 2, 1, 9, 18, 17, 10, 3, 24, 19, 26, 4]).length = 65 := by decide +kernel
example : Seq.revcomp .release (Gen.miupac .release) (pack 5 [16, 8, 2, 1, 9, 18, 17, 10, 3, 24, 19, 26, 4])
    = .ok (pack 5 [4, 11, 25, 3, 24, 10, 17, 9, 18, 16, 8, 2, 1]) := by decide +kernel
example : Seq.comp .release (Gen.miupac .release)
      (Seq.rev (Gen.miupac .release) (pack 5 [16, 8, 2, 1, 9, 18, 17, 10, 3, 24, 19, 26, 4]))
    = .ok (pack 5 [4, 11, 25, 3, 24, 10, 17, 9, 18, 16, 8, 2, 1]) := by decide +kernel
example : (Seq.revcomp .release (Gen.miupac .release) (pack 5 [16, 8, 2, 1, 9, 18, 17, 10, 3, 24, 19, 26, 4])).bind
      (Seq.revcomp .release (Gen.miupac .release))
    = .ok (pack 5 [16, 8, 2, 1, 9, 18, 17, 10, 3, 24, 19, 26, 4]) := by decide +kernel
example : Canon (Gen.miupac .release) [16, 8, 2, 1, 9, 18, 17, 10, 3, 24, 19, 26, 4] := by unfold Canon; decide +kernel

/-- lengths 0 and 1 -/
example : Seq.revcomp .debug (Gen.dna .debug) (pack 2 []) = .ok (pack 2 []) := by decide +kernel
example : Seq.revcomp .debug (Gen.dna .debug) (pack 2 [0]) = .ok (pack 2 [3]) := by decide +kernel
example : Seq.revcomp .release (Gen.deg .release) (pack 1 [1, 0, 0]) = .ok (pack 1 [0, 0, 1]) := by decide +kernel
example : Seq.comp .debug (Gen.mdna .debug) (pack 4 [8, 4, 2, 1, 7, 11, 0]) = .ok (pack 4 [1, 2, 4, 8, 14, 13, 0]) := by
  decide +kernel

/-! ### the hypotheses are needed (not artefacts of the proof) -/

/-- `Canon`: chunk `3` is not the code of a masked-DNA symbol (`unsafe_from_bits 3` is symbol 12);
    complement normalises it, so complementing twice does not restore the bits.  Such a chunk
    cannot come from a parser or `push` (C01) but can from raw/bitwise constructors. -/
example : (Seq.comp .release (Gen.mdna .release) (pack 4 [3])).bind (Seq.comp .release (Gen.mdna .release))
    = .ok (pack 4 [12]) := by decide +kernel
example : ¬ Canon (Gen.mdna .release) [3] := by unfold Canon; decide +kernel

/-- `Aligned`: on a 3-bit string with 2-bit symbols the stray bit moves to the front, and a
    second `rev` does not bring it back. -/
example : Seq.rev (Gen.dna .debug) (Seq.rev (Gen.dna .debug) [true, false, false]) = [false, false, true] := by
  decide +kernel

/-- `CompWF` is not vacuous: a codec without complement (amino acids) fails it, and on such a
    codec the model's `comp` is the panic of `comp_panics`. -/
example : compFailures (Gen.amino .debug) = (Gen.amino .debug).items := by decide +kernel

end C07
end BioSeq
