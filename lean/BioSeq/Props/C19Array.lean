/-
  C19 (static arrays) — `SeqArray<A, N, W>`: deref, the two `From<…SeqArray…> for Seq<B>`
  conversions (same codec and cross codec) and `Kmer<A,K,S> == SeqArray<A,K,1>`.

  A hand-built array is `W` public words and a const `N`; everything observable goes through
  `Deref` (`&ba[..N * BITS]`, which panics when `N * BITS > 64 * W`).  We show

  * `deref` succeeds exactly when the words are enough, and then exposes the first `N·BITS` bits
    of the word image: `N` symbols, symbol `i` at bits `[i·BITS, (i+1)·BITS)`;
  * the array built from the raw image of an aligned bit string derefs to that bit string;
  * `Seq::from(array)` (same codec) returns the same bits on canonical content and, on arbitrary
    content, the packing of the *decoded* symbols (a non-canonical code is normalised; an
    undecodable one panics) — for every codec with `CodecWF`;
  * `Seq::<B>::from(array)` is the slice conversion of C19 applied to the deref'd slice, so the
    C19 conversion theorems transfer (DNA → IUPAC, DNA → text: same length, same letters);
  * `Kmer == SeqArray<A,K,1>` is true exactly when the `K` symbols coincide.

  Side condition `n * width < 2^64` (`W64`): `iter()` computes bit offsets in `usize`; it is implied
  by any array that fits in memory (`64·W` bits) and is stated explicitly.
-/
import BioSeq.Props.C02
import BioSeq.Props.C04
import BioSeq.Props.C19
import BioSeq.Lemmas.ArrayLemmas
namespace BioSeq
namespace C19Array
open BioSeq.Seq BioSeq.ArrL
open BioSeq.C03 (Aligned aligned_pack eq_pack)

/-! ### 1. `Deref` -/

/-- enough words: the deref'd slice is the first `N·BITS` bits of the word image -/
theorem deref_ok (c : Codec) (a : SeqArr) (h : a.n * c.width ≤ 64 * a.words.length) :
    a.deref c = .ok ((bitsOfWords a.words).take (a.n * c.width)) := by
  unfold SeqArr.deref
  rw [bitRange_ok _ _ _ (Nat.zero_le _) (by rw [bitsOfWords_length]; exact h)]
  simp

/-- **error branch**: too few words for the claimed `N` — bitvec's range check panics -/
theorem deref_too_few_words (c : Codec) (a : SeqArr) (h : a.n * c.width > 64 * a.words.length) :
    a.deref c = .error .panic := by
  unfold SeqArr.deref bitRange
  rw [bitsOfWords_length]
  have : ¬ a.n * c.width ≤ 64 * a.words.length := Nat.not_le.mpr h
  simp [this]

/-- the check is exact -/
theorem deref_ok_iff (c : Codec) (a : SeqArr) :
    (∃ r, a.deref c = .ok r) ↔ a.n * c.width ≤ 64 * a.words.length := by
  constructor
  · rintro ⟨r, hr⟩
    apply Classical.byContradiction
    intro hn
    rw [deref_too_few_words c a (Nat.lt_of_not_le hn)] at hr
    cases hr
  · intro h; exact ⟨_, deref_ok c a h⟩

/-- the only failure is the panic -/
theorem deref_error (c : Codec) (a : SeqArr) (e : Err) (h : a.deref c = .error e) :
    e = .panic ∧ a.n * c.width > 64 * a.words.length := by
  by_cases hn : a.n * c.width ≤ 64 * a.words.length
  · rw [deref_ok c a hn] at h; cases h
  · have hn' := Nat.lt_of_not_le hn
    rw [deref_too_few_words c a hn'] at h
    cases h
    exact ⟨rfl, hn'⟩

/-- **a successful deref has exactly `N` symbols**: `N·BITS` bits, aligned, `len() = N`, and it is
    the prefix of the word image -/
theorem deref_len (c : Codec) (a : SeqArr) (r : Bits) (h : a.deref c = .ok r) :
    r.length = a.n * c.width ∧ Aligned c r ∧ (1 ≤ c.width → len c r = a.n) ∧
    r = (bitsOfWords a.words).take (a.n * c.width) ∧ a.n * c.width ≤ 64 * a.words.length := by
  have hn : a.n * c.width ≤ 64 * a.words.length := (deref_ok_iff c a).mp ⟨r, h⟩
  rw [deref_ok c a hn] at h
  injection h with h
  have hl : r.length = a.n * c.width := by
    rw [← h, List.length_take, bitsOfWords_length]; omega
  refine ⟨hl, ?_, ?_, h.symm, hn⟩
  · unfold Aligned; rw [hl]; exact Nat.dvd_mul_left _ _
  · intro hw; unfold len; rw [hl]; exact Nat.mul_div_cancel _ (by omega)

/-- symbol `i` of the deref'd slice is the window `[i·BITS, (i+1)·BITS)` of the word image -/
theorem deref_symbol (c : Codec) (a : SeqArr) (r : Bits) (h : a.deref c = .ok r) (i : Nat) (hi : i < a.n) :
    (r.drop (c.width * i)).take c.width = ((bitsOfWords a.words).drop (c.width * i)).take c.width := by
  obtain ⟨_, _, _, hr, _⟩ := deref_len c a r h
  rw [hr, List.drop_take, List.take_take]
  congr 1
  have : c.width * (i + 1) ≤ a.n * c.width := by
    rw [Nat.mul_comm a.n]; exact Nat.mul_le_mul_left _ hi
  rw [Nat.mul_succ] at this
  omega

/-- the hand-built array has `W` machine words, dead bits zero -/
theorem ofBits_words (W : Nat) (c : Codec) (bs : Bits) (hW : bs.length ≤ 64 * W) :
    (SeqArr.ofBits W c bs).words.length = W ∧ (SeqArr.ofBits W c bs).n = len c bs ∧
    bitsOfWords (SeqArr.ofBits W c bs).words = bs ++ List.replicate (64 * W - bs.length) false := by
  refine ⟨by simp [SeqArr.ofBits], rfl, ?_⟩
  exact bitsOfWords_wordsOf W bs hW

/-- **the array built from the raw image of an aligned bit string derefs to that bit string** -/
theorem deref_ofBits (W : Nat) (c : Codec) (bs : Bits) (hal : Aligned c bs) (hW : bs.length ≤ 64 * W) :
    (SeqArr.ofBits W c bs).deref c = .ok bs := by
  have e : len c bs * c.width = bs.length := Nat.div_mul_cancel hal
  unfold SeqArr.deref SeqArr.ofBits
  simp only [e]
  rw [bitsOfWords_wordsOf W bs hW, bitRange_ok _ _ _ (Nat.zero_le _) (by simp)]
  simp

/-- ... hence it has length `N = len` and symbol `i` is symbol `i` of `bs` (stored code and decoded
    symbol alike) -/
theorem deref_ofBits_symbols (W : Nat) (c : Codec) (bs : Bits) (hal : Aligned c bs)
    (hW : bs.length ≤ 64 * W) :
    ∃ r, (SeqArr.ofBits W c bs).deref c = .ok r ∧ len c r = (SeqArr.ofBits W c bs).n ∧
      (SeqArr.ofBits W c bs).n = len c bs ∧ syms c.width r = syms c.width bs ∧
      (∀ i, (r.drop (c.width * i)).take c.width = (bs.drop (c.width * i)).take c.width) ∧
      (∀ p i, nth p c r i = nth p c bs i) :=
  ⟨bs, deref_ofBits W c bs hal hW, rfl, rfl, rfl, fun _ => rfl, fun _ _ => rfl⟩

/-- too few words for the content: the hand-built array cannot be dereferenced -/
theorem deref_ofBits_too_long (W : Nat) (c : Codec) (bs : Bits) (hal : Aligned c bs)
    (hW : bs.length > 64 * W) : (SeqArr.ofBits W c bs).deref c = .error .panic := by
  apply deref_too_few_words
  have e : len c bs * c.width = bs.length := Nat.div_mul_cancel hal
  simp only [SeqArr.ofBits, e, wordsOf_length]
  exact hW

/-! ### 2. `Seq::<A>::from(&SeqArray<A,N,W>)`, `Seq::<A>::from(SeqArray<A,N,W>)` -/

/-- `iter()` on any aligned content decodes every stored code -/
theorem iterSyms_aligned (p : Profile) (c : Codec) (wf : CodecWF c) (bs : Bits) (hal : Aligned c bs)
    (hov : bs.length < W64) : iterSyms p c bs = decodeAll c (syms c.width bs) := by
  have e := eq_pack c wf.width_pos bs hal
  have hl : (syms c.width bs).length * c.width = bs.length := by
    rw [syms_length]; exact Nat.div_mul_cancel hal
  have := iterSyms_pack_fits p c wf.width_pos wf.width_le (syms c.width bs)
    (fits_syms c.width wf.width_pos bs hal) (by rw [hl]; exact hov)
  rwa [← e] at this

/-- **arbitrary aligned content**: the result is the packing of the decoded symbols; it panics
    exactly when some stored code cannot be decoded -/
theorem toSeq_decode (p : Profile) (c : Codec) (wf : CodecWF c) (a : SeqArr) (bs : Bits)
    (hd : a.deref c = .ok bs) (hov : a.n * c.width < W64) :
    a.toSeq p c = (decodeAll c (syms c.width bs)).map (pack c.width) := by
  obtain ⟨hl, hal, _, _, _⟩ := deref_len c a bs hd
  unfold SeqArr.toSeq
  rw [hd]
  simp only [bind, Except.bind]
  rw [iterSyms_aligned p c wf bs hal (by rw [hl]; exact hov)]
  cases decodeAll c (syms c.width bs) with
  | error e => rfl
  | ok ds => simp only [Except.map, extend_nil c wf.width_le]

/-- **canonical content**: the same bits come back -/
theorem toSeq_canon (p : Profile) (c : Codec) (wf : CodecWF c) (a : SeqArr) (bs : Bits)
    (hd : a.deref c = .ok bs) (hov : a.n * c.width < W64) (hc : Canon c (syms c.width bs)) :
    a.toSeq p c = .ok bs := by
  obtain ⟨_, hal, _, _, _⟩ := deref_len c a bs hd
  rw [toSeq_decode p c wf a bs hd hov, decodeAll_canon c wf _ hc]
  simp only [Except.map]
  rw [← eq_pack c wf.width_pos bs hal]

/-- **`From<&SeqArray>` / `From<SeqArray>` for `Seq` of the same codec**, every `CodecWF` codec -/
theorem toSeq_spec (p : Profile) (c : Codec) (wf : CodecWF c) (a : SeqArr) (bs : Bits)
    (hd : a.deref c = .ok bs) (hov : a.n * c.width < W64) :
    (Canon c (syms c.width bs) → a.toSeq p c = .ok bs) ∧
    a.toSeq p c = (decodeAll c (syms c.width bs)).map (pack c.width) ∧
    (∀ r, a.toSeq p c = .ok r → len c r = a.n ∧ Aligned c r ∧
      ∃ ds, decodeAll c (syms c.width bs) = .ok ds ∧ r = pack c.width ds ∧
        (Fits c.width ds → syms c.width r = ds)) := by
  refine ⟨toSeq_canon p c wf a bs hd hov, toSeq_decode p c wf a bs hd hov, ?_⟩
  intro r hr
  obtain ⟨hl, hal, hlen, _, _⟩ := deref_len c a bs hd
  rw [toSeq_decode p c wf a bs hd hov] at hr
  cases hds : decodeAll c (syms c.width bs) with
  | error e => rw [hds] at hr; cases hr
  | ok ds =>
    rw [hds] at hr
    simp only [Except.map] at hr
    injection hr with hr
    have hdl : ds.length = a.n := by
      have := mapM_ok_length _ _ _ hds
      rw [this, ← C03.len_eq]; exact hlen wf.width_pos
    subst hr
    refine ⟨?_, aligned_pack c ds, ds, rfl, rfl, fun hf => syms_pack c.width wf.width_pos ds hf⟩
    rw [len_pack c wf.width_pos, hdl]

/-- a failing deref fails the conversion (the panic propagates) -/
theorem toSeq_too_few_words (p : Profile) (c : Codec) (a : SeqArr) (h : a.n * c.width > 64 * a.words.length) :
    a.toSeq p c = .error .panic := by
  unfold SeqArr.toSeq
  rw [deref_too_few_words c a h]
  rfl

/-- the hand-built array of a canonical sequence converts back to that sequence -/
theorem toSeq_ofBits (p : Profile) (c : Codec) (wf : CodecWF c) (W : Nat) (cs : List Nat) (hc : Canon c cs)
    (hW : c.width * cs.length ≤ 64 * W) (hov : cs.length * c.width < W64) :
    (SeqArr.ofBits W c (pack c.width cs)).toSeq p c = .ok (pack c.width cs) := by
  have hd := deref_ofBits W c (pack c.width cs) (aligned_pack c cs) (by rw [pack_length]; exact hW)
  apply toSeq_canon p c wf _ _ hd
  · simp only [SeqArr.ofBits, len_pack c wf.width_pos]; exact hov
  · rw [syms_pack c.width wf.width_pos cs (hc.fits wf)]; exact hc

/-! ### 3. `Seq::<B>::from(&SeqArray<A,N,W>)`, `Seq::<B>::from(SeqArray<A,N,W>)` -/

/-- **converting the array = converting the deref'd slice** -/
theorem convert_array_eq_convert_slice (p : Profile) (src dst : Codec) (table : List (Nat × Nat))
    (a : SeqArr) :
    a.convert p src dst table = a.deref src >>= Standard.convert p src dst table := rfl

/-- in particular, for an array that derefs to `bs` -/
theorem convert_array_of_deref (p : Profile) (src dst : Codec) (table : List (Nat × Nat))
    (a : SeqArr) (bs : Bits) (hd : a.deref src = .ok bs) :
    a.convert p src dst table = Standard.convert p src dst table bs := by
  rw [convert_array_eq_convert_slice, hd]; rfl

/-- ... for the hand-built array of an aligned bit string -/
theorem convert_ofBits (p : Profile) (src dst : Codec) (table : List (Nat × Nat)) (W : Nat) (bs : Bits)
    (hal : Aligned src bs) (hW : bs.length ≤ 64 * W) :
    (SeqArr.ofBits W src bs).convert p src dst table = Standard.convert p src dst table bs :=
  convert_array_of_deref p src dst table _ bs (deref_ofBits W src bs hal hW)

/-- ... and a failing deref fails the conversion -/
theorem convert_too_few_words (p : Profile) (src dst : Codec) (table : List (Nat × Nat)) (a : SeqArr)
    (h : a.n * src.width > 64 * a.words.length) : a.convert p src dst table = .error .panic := by
  rw [convert_array_eq_convert_slice, deref_too_few_words src a h]; rfl

/-- the text an array displays as (through its deref) -/
def displayArr (p : Profile) (c : Codec) (a : SeqArr) : Res (List Nat) := a.deref c >>= display p c

/-- the general C19 conversion theorem (`C19.convert_pack`), transferred to arrays: symbol-wise
    image, same length as the array, same letters -/
theorem convert_array_pack (p : Profile) (src dst : Codec) (wfs : CodecWF src) (wfd : CodecWF dst)
    (table : List (Nat × Nat)) (hok : C19.ConvOK src dst table) (a : SeqArr) (cs : List Nat)
    (hd : a.deref src = .ok (pack src.width cs)) (hc : Canon src cs)
    (hov : cs.length * src.width < W64) (hov' : cs.length * dst.width < W64) :
    a.convert p src dst table = .ok (pack dst.width (cs.map (C19.convSym table))) ∧
    len dst (pack dst.width (cs.map (C19.convSym table))) = a.n ∧
    display p dst (pack dst.width (cs.map (C19.convSym table))) = displayArr p src a := by
  obtain ⟨h1, h2, h3⟩ := C19.convert_pack p src dst wfs wfd table hok cs hc hov hov'
  obtain ⟨_, _, hlen, _, _⟩ := deref_len src a _ hd
  refine ⟨?_, ?_, ?_⟩
  · rw [convert_array_of_deref p src dst table a _ hd]; exact h1
  · rw [h2]; exact hlen wfs.width_pos
  · rw [h3]; unfold displayArr; rw [hd]; rfl

/-- **`Seq<Iupac>::from(SeqArray<Dna,N,W>)`**: same length, same letters -/
theorem convert_array_iupac (p : Profile) (a : SeqArr) (cs : List Nat)
    (hd : a.deref (Gen.dna p) = .ok (pack 2 cs)) (hc : Canon (Gen.dna p) cs) (hov : cs.length * 4 < W64) :
    let r := pack 4 (cs.map (C19.convSym (Standard.convTable p "iupac")))
    a.convert p (Gen.dna p) (Gen.iupac p) (Standard.convTable p "iupac") = .ok r ∧
    len (Gen.iupac p) r = a.n ∧ a.n = cs.length ∧
    display p (Gen.iupac p) r = displayArr p (Gen.dna p) a := by
  obtain ⟨h1, h2, h3, h4⟩ := C19.conv_len_display_iupac p cs hc hov
  have hlen : a.n = cs.length := by
    have := (deref_len (Gen.dna p) a _ hd).2.2.1 (wf_dna p).width_pos
    rw [← this]
    have := len_pack (Gen.dna p) (wf_dna p).width_pos cs
    rwa [C19.dna_width] at this
  refine ⟨?_, ?_, hlen, ?_⟩
  · rw [convert_array_of_deref p _ _ _ a _ hd]; exact h1
  · rw [hlen]; exact h3
  · unfold displayArr; rw [hd]; exact h4

/-- **`Seq<text::Dna>::from(SeqArray<Dna,N,W>)`**: same length, same letters -/
theorem convert_array_text (p : Profile) (a : SeqArr) (cs : List Nat)
    (hd : a.deref (Gen.dna p) = .ok (pack 2 cs)) (hc : Canon (Gen.dna p) cs) (hov : cs.length * 8 < W64) :
    let r := pack 8 (cs.map (C19.convSym (Standard.convTable p "text")))
    a.convert p (Gen.dna p) (Gen.text p) (Standard.convTable p "text") = .ok r ∧
    len (Gen.text p) r = a.n ∧ a.n = cs.length ∧
    display p (Gen.text p) r = displayArr p (Gen.dna p) a := by
  obtain ⟨h1, h2, h3, h4⟩ := C19.conv_len_display_text p cs hc hov
  have hlen : a.n = cs.length := by
    have := (deref_len (Gen.dna p) a _ hd).2.2.1 (wf_dna p).width_pos
    rw [← this]
    have := len_pack (Gen.dna p) (wf_dna p).width_pos cs
    rwa [C19.dna_width] at this
  refine ⟨?_, ?_, hlen, ?_⟩
  · rw [convert_array_of_deref p _ _ _ a _ hd]; exact h1
  · rw [hlen]; exact h3
  · unfold displayArr; rw [hd]; exact h4

/-- both, for the hand-built `W`-word array of a canonical DNA sequence -/
theorem convert_ofBits_dna (p : Profile) (W : Nat) (cs : List Nat) (hc : Canon (Gen.dna p) cs)
    (hW : 2 * cs.length ≤ 64 * W) (hov : cs.length * 8 < W64) :
    let a := SeqArr.ofBits W (Gen.dna p) (pack 2 cs)
    a.n = cs.length ∧
    a.convert p (Gen.dna p) (Gen.iupac p) (Standard.convTable p "iupac")
      = .ok (pack 4 (cs.map (C19.convSym (Standard.convTable p "iupac")))) ∧
    a.convert p (Gen.dna p) (Gen.text p) (Standard.convTable p "text")
      = .ok (pack 8 (cs.map (C19.convSym (Standard.convTable p "text")))) ∧
    display p (Gen.iupac p) (pack 4 (cs.map (C19.convSym (Standard.convTable p "iupac"))))
      = displayArr p (Gen.dna p) a ∧
    display p (Gen.text p) (pack 8 (cs.map (C19.convSym (Standard.convTable p "text"))))
      = displayArr p (Gen.dna p) a := by
  have hal : Aligned (Gen.dna p) (pack 2 cs) := by
    have := aligned_pack (Gen.dna p) cs; rwa [C19.dna_width] at this
  have hd := deref_ofBits W (Gen.dna p) (pack 2 cs) hal (by rw [pack_length]; exact hW)
  obtain ⟨i1, _, i3, i4⟩ := convert_array_iupac p _ cs hd hc (by omega)
  obtain ⟨t1, _, _, t4⟩ := convert_array_text p _ cs hd hc hov
  exact ⟨i3, i1, t1, i4, t4⟩

/-! ### 4. `Kmer<A,K,S> == SeqArray<A,K,1>` -/

/-- the comparison is `Kmer == SeqSlice` on the deref'd slice -/
theorem eqKmer_of_deref (p : Profile) (c : Codec) (K : Nat) (st : Storage) (v : Nat) (a : SeqArr)
    (bs : Bits) (hd : a.deref c = .ok bs) : a.eqKmer p c K st v = Kmer.eqSlice p c K st v bs := by
  unfold SeqArr.eqKmer; rw [hd]; rfl

/-- **`Kmer == SeqArray<A,K,1>` is true iff the `K` symbols' bits coincide** (one word, `N = K`;
    the k-mer holds the codes `cs`): the array derefs, and the comparison is decided by the
    stored codes -/
theorem eqKmer_iff (p : Profile) (c : Codec) (hw : 1 ≤ c.width) (K : Nat) (hK1 : 1 ≤ K) (st : Storage)
    (hst : K * c.width ≤ 64) (cs : List Nat) (hK : cs.length = K) (hf : Fits c.width cs)
    (a : SeqArr) (hn : a.n = K) (hW : a.words.length = 1) :
    ∃ r, a.deref c = .ok r ∧ len c r = K ∧
      a.eqKmer p c K st (ofBitsLE (pack c.width cs)) = .ok (decide (r = pack c.width cs)) ∧
      (a.eqKmer p c K st (ofBitsLE (pack c.width cs)) = .ok true ↔ r = pack c.width cs) ∧
      (a.eqKmer p c K st (ofBitsLE (pack c.width cs)) = .ok true ↔ syms c.width r = cs) ∧
      (a.eqKmer p c K st (ofBitsLE (pack c.width cs)) = .ok true ↔
        ∀ i, i < K → (r.drop (c.width * i)).take c.width = toBitsLE c.width (cs.getD i 0)) := by
  have hnw : a.n * c.width ≤ 64 * a.words.length := by rw [hn, hW]; exact hst
  have hd := deref_ok c a hnw
  obtain ⟨hl, hal, hlen, _, _⟩ := deref_len c a _ hd
  have hst' : K * c.width ≤ st.bits := by
    have : 64 ≤ st.bits := by cases st <;> simp [Storage.bits]
    omega
  have hspec := C02.kmer_eq_slice_spec p c hw K hK1 st hst' cs hK _ hal
  have h0 := eqKmer_of_deref p c K st (ofBitsLE (pack c.width cs)) a _ hd
  have hiff : a.eqKmer p c K st (ofBitsLE (pack c.width cs)) = .ok true ↔
      (bitsOfWords a.words).take (a.n * c.width) = pack c.width cs := by
    rw [h0, hspec]
    constructor
    · intro h; injection h with h; exact of_decide_eq_true h
    · intro h; simp [h]
  have hsyms : (bitsOfWords a.words).take (a.n * c.width) = pack c.width cs ↔
      syms c.width ((bitsOfWords a.words).take (a.n * c.width)) = cs := by
    constructor
    · intro h; rw [h]; exact syms_pack c.width hw cs hf
    · intro h
      rw [eq_pack c hw _ hal, h]
  refine ⟨_, hd, by rw [hlen hw, hn], by rw [h0, hspec], hiff, hiff.trans hsyms, hiff.trans ?_⟩
  constructor
  · intro h i hi
    have hi' : i < cs.length := by omega
    rw [h, window_pack c.width cs i hi']
    simp [List.getD, hi']
  · intro h
    rw [hsyms]
    have hrl : (syms c.width ((bitsOfWords a.words).take (a.n * c.width))).length = cs.length := by
      rw [← C03.len_eq, hlen hw, hn, hK]
    apply pack_ext_windows c.width _ _ hrl (fits_syms c.width hw _ hal) hf
    intro i hi
    have hi' : i < cs.length := by omega
    rw [← eq_pack c hw _ hal, h i (by omega), window_pack c.width cs i hi']
    simp [List.getD, hi']

/-- the same for an arbitrary stored integer `v < 2^(K·BITS)`: true iff the array's `K·BITS` live
    bits are the k-mer's live bits (`Kmer.bits`), false otherwise — never an error -/
theorem eqKmer_iff_bits (p : Profile) (c : Codec) (hw : 1 ≤ c.width) (K : Nat) (hK1 : 1 ≤ K) (st : Storage)
    (hst : K * c.width ≤ 64) (v : Nat) (hv : v < 2 ^ (K * c.width))
    (a : SeqArr) (hn : a.n = K) (hW : a.words.length = 1) :
    ∃ r, a.deref c = .ok r ∧
      a.eqKmer p c K st v = .ok (decide (r = Kmer.bits c K st v)) ∧
      (a.eqKmer p c K st v = .ok true ↔ r = Kmer.bits c K st v) ∧
      (a.eqKmer p c K st v = .ok false ↔ r ≠ Kmer.bits c K st v) := by
  have hst' : K * c.width ≤ st.bits := by
    have : 64 ≤ st.bits := by cases st <;> simp [Storage.bits]
    omega
  have hb := C04.kmer_bits_eq_pack c K st v hst'
  have hval : ofBitsLE (pack c.width (digitsLE c.width K v)) = v := by
    rw [← hb]; exact C04.kmer_bits_value c K st v hst' hv
  obtain ⟨r, hd, _, hspec, _, _, _⟩ := eqKmer_iff p c hw K hK1 st hst (digitsLE c.width K v)
    (digitsLE_length _ _ _) (digitsLE_fits _ _ _) a hn hW
  rw [hval, ← hb] at hspec
  refine ⟨r, hd, hspec, ?_, ?_⟩
  · rw [hspec]
    constructor
    · intro h; injection h with h; exact of_decide_eq_true h
    · intro h; simp [h]
  · rw [hspec]
    constructor
    · intro h; injection h with h; exact of_decide_eq_false h
    · intro h; simp [h]

/-- two holders of `K` symbols: the k-mer of `cs` equals the one-word array of `ds` iff `ds = cs` -/
theorem eqKmer_ofBits (p : Profile) (c : Codec) (hw : 1 ≤ c.width) (K : Nat) (hK1 : 1 ≤ K) (st : Storage)
    (hst : K * c.width ≤ 64) (cs ds : List Nat) (hK : cs.length = K) (hKd : ds.length = K)
    (hf : Fits c.width cs) (hfd : Fits c.width ds) :
    (SeqArr.ofBits 1 c (pack c.width ds)).eqKmer p c K st (ofBitsLE (pack c.width cs))
      = .ok (decide (ds = cs)) := by
  have hd := deref_ofBits 1 c (pack c.width ds) (aligned_pack c ds)
    (by rw [pack_length, hKd, Nat.mul_comm]; omega)
  have hst' : K * c.width ≤ st.bits := by
    have : 64 ≤ st.bits := by cases st <;> simp [Storage.bits]
    omega
  rw [eqKmer_of_deref p c K st _ _ _ hd,
    C02.kmer_eq_slice_spec p c hw K hK1 st hst' cs hK _ (aligned_pack c ds)]
  congr 1
  have := C02.pack_eq_iff c hw ds cs hfd hf
  by_cases h : ds = cs
  · simp [h]
  · simp [h, mt this.mp h]

/-- an array claiming another length is unequal, never an error (as long as it derefs) -/
theorem eqKmer_len_ne (p : Profile) (c : Codec) (hw : 1 ≤ c.width) (K : Nat) (st : Storage) (v : Nat)
    (a : SeqArr) (hne : a.n ≠ K) (hnw : a.n * c.width ≤ 64 * a.words.length) :
    a.eqKmer p c K st v = .ok false := by
  have hd := deref_ok c a hnw
  have hlen := (deref_len c a _ hd).2.2.1 hw
  rw [eqKmer_of_deref p c K st v a _ hd]
  unfold Kmer.eqSlice
  rw [hlen]
  simp [hne]

/-! ### 5. non-vacuity -/

/-- "ACGTTA" as a hand-built one-word array -/
def acgtta : SeqArr := SeqArr.ofBits 1 (Gen.dna .debug) (pack 2 [0, 1, 2, 3, 3, 0])

example : acgtta = { words := [0b001111100100], n := 6 } := by decide +kernel
example : acgtta.deref (Gen.dna .debug) = .ok (pack 2 [0, 1, 2, 3, 3, 0]) :=
  deref_ofBits 1 _ _ (aligned_pack (Gen.dna .debug) [0, 1, 2, 3, 3, 0]) (by decide)
/-- a hand-built array with live garbage beyond `N`: the deref cuts it off -/
example : ({ words := [0xFFFF_FFFF_FFFF_FF1B, 7], n := 4 } : SeqArr).deref (Gen.dna .release)
    = .ok (pack 2 [3, 2, 1, 0]) := by decide +kernel
example := deref_len (Gen.dna .release) { words := [0xFFFF_FFFF_FFFF_FF1B, 7], n := 4 } (pack 2 [3, 2, 1, 0])
  (by decide +kernel)
/-- 33 two-bit symbols do not fit one word; 32 do -/
example : ({ words := [5], n := 33 } : SeqArr).deref (Gen.dna .debug) = .error .panic :=
  deref_too_few_words _ _ (by decide +kernel)
example : ∃ r, ({ words := [5], n := 32 } : SeqArr).deref (Gen.dna .debug) = .ok r :=
  (deref_ok_iff _ _).mpr (by decide +kernel)
example : (SeqArr.ofBits 1 (Gen.dna .debug) (pack 2 (List.replicate 33 1))).deref (Gen.dna .debug) = .error .panic :=
  deref_ofBits_too_long 1 _ _ (aligned_pack (Gen.dna .debug) _) (by decide +kernel)

/-- same-codec `From`: canonical content comes back unchanged ... -/
example : acgtta.toSeq .debug (Gen.dna .debug) = .ok (pack 2 [0, 1, 2, 3, 3, 0]) :=
  toSeq_ofBits .debug (Gen.dna .debug) (wf_dna .debug) 1 [0, 1, 2, 3, 3, 0]
    (by unfold Canon; decide +kernel) (by decide +kernel) (by decide +kernel)
example : (SeqArr.ofBits 3 (Gen.amino .release) (pack 6 [24, 24, 13])).toSeq .release (Gen.amino .release)
    = .ok (pack 6 [24, 24, 13]) := by decide +kernel
/-- ... a non-canonical amino code (D11) is normalised by the decode/re-encode, so the result
    differs from the array's own bits (`toSeq_decode`, not `toSeq_canon`) -/
example : ({ words := [0b101110], n := 1 } : SeqArr).deref (Gen.amino .debug) = .ok (pack 6 [0b101110]) ∧
    ({ words := [0b101110], n := 1 } : SeqArr).toSeq .debug (Gen.amino .debug) = .ok (pack 6 [14]) ∧
    decodeAll (Gen.amino .debug) (syms 6 (pack 6 [0b101110])) = .ok [14] ∧
    pack 6 [14] ≠ pack 6 [0b101110] ∧ ¬ Canon (Gen.amino .debug) [0b101110] := by
  unfold Canon; decide +kernel
example := toSeq_spec .debug (Gen.amino .debug) (wf_amino .debug) { words := [0b101110], n := 1 }
  (pack 6 [0b101110]) (by decide +kernel) (by decide +kernel)
/-- a codec whose decoder refuses some in-range codes (none of the seven extracted codecs does):
    two symbols on two bits, codes 2 and 3 undecodable -/
def toy : Codec :=
  { name := "toy", width := 2, items := [0, 1],
    tryFromBits := fun b => if b < 2 then some b else none,
    unsafeFromBits := fun b => if b < 2 then some b else none,
    tryFromAscii := fun b => if b = 48 then some 0 else if b = 49 then some 1 else none,
    unsafeFromAscii := fun b => if b = 48 then some 0 else if b = 49 then some 1 else none,
    toChar := fun s => 48 + s, comp := fun _ => none, mask := fun _ => none, unmask := fun _ => none }

theorem wf_toy : CodecWF toy := by
  refine ⟨by decide, by decide, ?_, by decide, by decide, by decide⟩
  intro b s h
  simp only [toy] at h ⊢
  by_cases h0 : b = 48
  · simp [h0] at h; simp [← h]
  · by_cases h1 : b = 49
    · simp [h1] at h; simp [← h]
    · simp [h0, h1] at h

/-- the panic branch of `toSeq_decode`: the array holds the codes `[1, 2]`, code 2 is undecodable -/
example : ({ words := [0b1001], n := 2 } : SeqArr).deref toy = .ok (pack 2 [1, 2]) ∧
    decodeAll toy (syms toy.width (pack 2 [1, 2])) = .error .panic ∧
    ({ words := [0b1001], n := 2 } : SeqArr).toSeq .debug toy = .error .panic := by
  have hd : ({ words := [0b1001], n := 2 } : SeqArr).deref toy = .ok (pack 2 [1, 2]) := by decide +kernel
  have hdec : decodeAll toy (syms toy.width (pack 2 [1, 2])) = .error .panic := by decide +kernel
  refine ⟨hd, hdec, ?_⟩
  rw [toSeq_decode .debug toy wf_toy _ _ hd (by decide +kernel), hdec]
  rfl

/-- cross-codec `From` -/
example : acgtta.convert .debug (Gen.dna .debug) (Gen.iupac .debug) (Standard.convTable .debug "iupac")
    = parseBytes (Gen.iupac .debug) [65, 67, 71, 84, 84, 65] := by decide +kernel
example : acgtta.convert .debug (Gen.dna .debug) (Gen.text .debug) (Standard.convTable .debug "text")
    = .ok (pack 8 [65, 67, 71, 84, 84, 65]) := by decide +kernel
example : displayArr .debug (Gen.dna .debug) acgtta = .ok [65, 67, 71, 84, 84, 65] := by decide +kernel
example := convert_ofBits_dna .release 1 [0, 1, 2, 3, 3, 0] (by unfold Canon; decide +kernel)
  (by decide) (by decide +kernel)
example := convert_array_iupac .debug acgtta [0, 1, 2, 3, 3, 0] (by decide +kernel)
  (by unfold Canon; decide +kernel) (by decide +kernel)
example : ({ words := [0], n := 40 } : SeqArr).convert .debug (Gen.dna .debug) (Gen.text .debug)
    (Standard.convTable .debug "text") = .error .panic := convert_too_few_words _ _ _ _ _ (by decide +kernel)

/-- `Kmer == SeqArray<A,K,1>` -/
example : acgtta.eqKmer .debug (Gen.dna .debug) 6 .usize (ofBitsLE (pack 2 [0, 1, 2, 3, 3, 0])) = .ok true ∧
    acgtta.eqKmer .debug (Gen.dna .debug) 6 .u128 (ofBitsLE (pack 2 [0, 1, 2, 3, 3, 1])) = .ok false := by
  decide +kernel
example := eqKmer_iff .debug (Gen.dna .debug) (wf_dna .debug).width_pos 6 (by decide) .u64 (by decide +kernel)
  [0, 1, 2, 3, 3, 0] rfl (by intro x hx; revert x hx; decide +kernel) acgtta (by decide +kernel) (by decide +kernel)
example := eqKmer_iff_bits .debug (Gen.dna .debug) (wf_dna .debug).width_pos 6 (by decide) .usize (by decide +kernel)
  0b001111100100 (by decide +kernel) acgtta (by decide +kernel) (by decide +kernel)
example := eqKmer_ofBits .release (Gen.dna .release) (wf_dna .release).width_pos 3 (by decide) .usize
  (by decide +kernel) [0, 1, 2] [0, 1, 3] rfl rfl
  (by intro x hx; revert x hx; decide +kernel) (by intro x hx; revert x hx; decide +kernel)

end C19Array
end BioSeq
