/-
  C20 — soft-masking changes case only and commutes with complement.

  Model functions: `Seq.mask` / `Seq.unmask` (Seq.lean; the per-chunk loop of
  `MaskableMut for Seq<A>`: load the chunk, `unsafe_from_bits`, `mask()`, store `to_bits()`),
  and the extracted symbol-level tables `c.mask`, `c.unmask`, `c.comp`, `c.toChar` of
  `Gen.miupac p` (5-bit maskable IUPAC) and `Gen.mdna p` (4-bit maskable DNA), both profiles.
  `to_mask` / `to_unmask` (lib.rs) are `to_owned()` followed by the in-place form; in the model's
  value semantics they are literally `Seq.mask` / `Seq.unmask` (that the receiver is untouched is
  not expressible here and is left to the differential runs).

  Layout
    1. symbol level, finite, decided by the kernel over the whole extracted tables:
       1a. 5-bit IUPAC: mask = lower-case form, unmask = upper-case form, idempotence,
           unmask∘mask = unmask, nucleotide set unchanged, commutes with complement;
       1b. 4-bit DNA: mask = unmask = one case-toggling involution; gap and pad fixed;
           what happens to `?` / `!`; which clauses of the 5-bit behaviour do NOT hold here;
    2. sequence level, any maskable codec with `CodecWF` + `MaskWF`, any length:
       position-wise, length-preserving, commutes with `rev` and `comp`, algebra lifted;
    3. the two extracted codecs satisfy every hypothesis; consequences spelled out;
    4. examples (13 five-bit symbols = 65 bits straddle a 64-bit word).

  Where `Canon` is needed and why: the chunk loop decodes with `unsafe_from_bits` and stores the
  canonical code, so a chunk holding a documented *alternative* code (masked DNA: 3 for gap, 5 for
  pad) is normalised by `mask`; sequences built by the parsers / `push` are canonical (C01).
-/
import BioSeq.Lemmas.C07Lemmas
import BioSeq.Checks.WF
import BioSeq.Props.C03
import BioSeq.Props.C07
import BioSeq.Spec.Alphabets
namespace BioSeq
namespace C20
open BioSeq.Seq
open BioSeq.C03 (Aligned aligned_pack eq_pack)

/-! ### 1. symbol level -/

/-- lower-case form of a display character; the gap `-` has the masked form `.`
    (`X = '-'`, `XMasked = '.'` in codec/masked/iupac.rs); anything else is unchanged -/
def lowerForm (ch : Nat) : Nat :=
  if 65 ≤ ch ∧ ch ≤ 90 then ch + 32 else if ch = '-'.toNat then '.'.toNat else ch

/-- upper-case form; `.` is the masked gap and becomes `-` -/
def upperForm (ch : Nat) : Nat :=
  if 97 ≤ ch ∧ ch ≤ 122 then ch - 32 else if ch = '.'.toNat then '-'.toNat else ch

def isLetter (ch : Nat) : Bool := (65 ≤ ch && ch ≤ 90) || (97 ≤ ch && ch ≤ 122)

/-- swap the case of a letter, leave every other character alone -/
def toggleCase (ch : Nat) : Nat :=
  if 65 ≤ ch ∧ ch ≤ 90 then ch + 32 else if 97 ≤ ch ∧ ch ≤ 122 then ch - 32 else ch

/-! #### 1a. maskable 5-bit IUPAC -/

/-- failure search over the symbols of a mask-flag codec: (violated clause, symbol code) -/
def flagFailures (c : Codec) : List (String × Nat) :=
  (c.items.filter fun s => (c.mask s).map c.toChar != some (lowerForm (c.toChar s))).map (("mask is not the lower-case form", ·))
  ++ (c.items.filter fun s => (c.unmask s).map c.toChar != some (upperForm (c.toChar s))).map (("unmask is not the upper-case form", ·))
  ++ (c.items.filter fun s => (c.mask s).bind c.mask != c.mask s).map (("mask not idempotent", ·))
  ++ (c.items.filter fun s => (c.unmask s).bind c.unmask != c.unmask s).map (("unmask not idempotent", ·))
  ++ (c.items.filter fun s => (c.mask s).bind c.unmask != c.unmask s).map (("unmask after mask differs from unmask", ·))
  ++ (c.items.filter fun s => (c.unmask s).bind c.mask != c.mask s).map (("mask after unmask differs from mask", ·))
  ++ (c.items.filter fun s => (c.mask s).map (fun m => Spec.iupacSet (c.toChar m)) != some (Spec.iupacSet (c.toChar s))).map (("mask changes the nucleotide set", ·))
  ++ (c.items.filter fun s => (c.unmask s).map (fun m => Spec.iupacSet (c.toChar m)) != some (Spec.iupacSet (c.toChar s))).map (("unmask changes the nucleotide set", ·))
  ++ (c.items.filter fun s => (c.comp s).bind c.mask != (c.mask s).bind c.comp).map (("mask does not commute with complement", ·))
  ++ (c.items.filter fun s => (c.comp s).bind c.unmask != (c.unmask s).bind c.comp).map (("unmask does not commute with complement", ·))

theorem miupac_failures (p : Profile) : flagFailures (Gen.miupac p) = [] := by cases p <;> decide +kernel

/-- masking shows every symbol as its lower-case form (`-` as `.`) -/
theorem miupac_mask_lower (p : Profile) :
    ∀ s ∈ (Gen.miupac p).items, ((Gen.miupac p).mask s).map (Gen.miupac p).toChar = some (lowerForm ((Gen.miupac p).toChar s)) := by
  cases p <;> decide +kernel

/-- unmasking shows every symbol as its upper-case form (`.` as `-`) -/
theorem miupac_unmask_upper (p : Profile) :
    ∀ s ∈ (Gen.miupac p).items, ((Gen.miupac p).unmask s).map (Gen.miupac p).toChar = some (upperForm ((Gen.miupac p).toChar s)) := by
  cases p <;> decide +kernel

/-- the 32 symbols are the 15 ambiguity letters + gap in upper case and their masked forms:
    every display character is a letter, `-` or `.` (so the two forms above are real case forms) -/
theorem miupac_chars (p : Profile) :
    ∀ s ∈ (Gen.miupac p).items, isLetter ((Gen.miupac p).toChar s) = true ∨
      (Gen.miupac p).toChar s = '-'.toNat ∨ (Gen.miupac p).toChar s = '.'.toNat := by
  cases p <;> decide +kernel

theorem miupac_mask_idem (p : Profile) :
    ∀ s ∈ (Gen.miupac p).items, ((Gen.miupac p).mask s).bind (Gen.miupac p).mask = (Gen.miupac p).mask s := by
  cases p <;> decide +kernel

theorem miupac_unmask_idem (p : Profile) :
    ∀ s ∈ (Gen.miupac p).items, ((Gen.miupac p).unmask s).bind (Gen.miupac p).unmask = (Gen.miupac p).unmask s := by
  cases p <;> decide +kernel

/-- unmask after mask equals unmask (and mask after unmask equals mask) -/
theorem miupac_unmask_mask (p : Profile) :
    ∀ s ∈ (Gen.miupac p).items, ((Gen.miupac p).mask s).bind (Gen.miupac p).unmask = (Gen.miupac p).unmask s := by
  cases p <;> decide +kernel

theorem miupac_mask_unmask (p : Profile) :
    ∀ s ∈ (Gen.miupac p).items, ((Gen.miupac p).unmask s).bind (Gen.miupac p).mask = (Gen.miupac p).mask s := by
  cases p <;> decide +kernel

/-- the underlying nucleotide set (documented IUPAC meaning of the display letter) never changes -/
theorem miupac_mask_set (p : Profile) :
    ∀ s ∈ (Gen.miupac p).items,
      ((Gen.miupac p).mask s).map (fun m => Spec.iupacSet ((Gen.miupac p).toChar m)) = some (Spec.iupacSet ((Gen.miupac p).toChar s)) ∧
      ((Gen.miupac p).unmask s).map (fun m => Spec.iupacSet ((Gen.miupac p).toChar m)) = some (Spec.iupacSet ((Gen.miupac p).toChar s)) := by
  cases p <;> decide +kernel

/-- masking / unmasking commute with the symbol complement -/
theorem miupac_mask_comp (p : Profile) :
    ∀ s ∈ (Gen.miupac p).items, ((Gen.miupac p).comp s).bind (Gen.miupac p).mask = ((Gen.miupac p).mask s).bind (Gen.miupac p).comp := by
  cases p <;> decide +kernel

theorem miupac_unmask_comp (p : Profile) :
    ∀ s ∈ (Gen.miupac p).items, ((Gen.miupac p).comp s).bind (Gen.miupac p).unmask = ((Gen.miupac p).unmask s).bind (Gen.miupac p).comp := by
  cases p <;> decide +kernel

/-! #### 1b. maskable 4-bit DNA: one toggling involution -/

/-- what the extracted `mask` does to the display character of a masked-DNA symbol: letters swap
    case, the two unknown symbols `?` and `!` swap with each other, gap `-` and pad `.` stay -/
def mdnaMaskChar (ch : Nat) : Nat :=
  if ch = '?'.toNat then '!'.toNat else if ch = '!'.toNat then '?'.toNat else toggleCase ch

/-- failure search over the symbols of the toggling codec: (violated clause, symbol code) -/
def toggleFailures (c : Codec) : List (String × Nat) :=
  ((List.range 256).filter fun b => c.mask b != c.unmask b).map (("mask and unmask differ", ·))
  ++ (c.items.filter fun s => (c.mask s).bind c.mask != some s).map (("mask is not an involution", ·))
  ++ (c.items.filter fun s => (c.mask s).map c.toChar != some (mdnaMaskChar (c.toChar s))).map (("mask is not the case toggle", ·))
  ++ (c.items.filter fun s => (c.toChar s == '-'.toNat || c.toChar s == '.'.toNat) && c.mask s != some s).map (("gap or pad changed", ·))
  ++ (c.items.filter fun s => (c.comp s).bind c.mask != (c.mask s).bind c.comp).map (("mask does not commute with complement", ·))

theorem mdna_failures (p : Profile) : toggleFailures (Gen.mdna p) = [] := by cases p <;> decide +kernel

/-- `mask` and `unmask` are the same function (the whole 256-entry tables agree) -/
theorem mdna_mask_eq_unmask (p : Profile) : ∀ b < 256, (Gen.mdna p).mask b = (Gen.mdna p).unmask b := by
  cases p <;> decide +kernel

theorem mdna_unmask_items (p : Profile) : ∀ s ∈ (Gen.mdna p).items, (Gen.mdna p).unmask s = (Gen.mdna p).mask s := by
  cases p <;> decide +kernel

/-- ... and it is an involution on the symbols -/
theorem mdna_mask_invol (p : Profile) :
    ∀ s ∈ (Gen.mdna p).items, ((Gen.mdna p).mask s).bind (Gen.mdna p).mask = some s ∧
      ((Gen.mdna p).mask s).bind (Gen.mdna p).unmask = some s ∧
      ((Gen.mdna p).unmask s).bind (Gen.mdna p).mask = some s ∧
      ((Gen.mdna p).unmask s).bind (Gen.mdna p).unmask = some s := by
  cases p <;> decide +kernel

/-- the symbols shown as letters are exactly `A C G T a c g t N n` (in `items()` order) -/
theorem mdna_letters (p : Profile) :
    ((Gen.mdna p).items.map (Gen.mdna p).toChar).filter isLetter = "ACGTacgtNn".toList.map Char.toNat ∧
    ((Gen.mdna p).items.map (Gen.mdna p).toChar).filter (fun ch => !isLetter ch) = "-.?!".toList.map Char.toNat := by
  cases p <;> decide +kernel

/-- on A, C, G, T, N (either case) mask = unmask toggles the case of the display character -/
theorem mdna_toggle (p : Profile) :
    ∀ s ∈ (Gen.mdna p).items, isLetter ((Gen.mdna p).toChar s) = true →
      ((Gen.mdna p).mask s).map (Gen.mdna p).toChar = some (toggleCase ((Gen.mdna p).toChar s)) ∧
      ((Gen.mdna p).unmask s).map (Gen.mdna p).toChar = some (toggleCase ((Gen.mdna p).toChar s)) := by
  cases p <;> decide +kernel

/-- gap `-` and pad `.` are left unchanged (the symbol itself, not just its character: the
    inverted bit pattern is the documented alternative code of the same symbol) -/
theorem mdna_gap_pad (p : Profile) :
    ∀ s ∈ (Gen.mdna p).items, ((Gen.mdna p).toChar s = '-'.toNat ∨ (Gen.mdna p).toChar s = '.'.toNat) →
      (Gen.mdna p).mask s = some s ∧ (Gen.mdna p).unmask s = some s := by
  cases p <;> decide +kernel

/-- the two unknown symbols `?` and `!` are exchanged by mask / unmask -/
theorem mdna_unknown (p : Profile) :
    ((Gen.mdna p).tryFromAscii '?'.toNat).bind (Gen.mdna p).mask = (Gen.mdna p).tryFromAscii '!'.toNat ∧
    ((Gen.mdna p).tryFromAscii '!'.toNat).bind (Gen.mdna p).mask = (Gen.mdna p).tryFromAscii '?'.toNat ∧
    ((Gen.mdna p).tryFromAscii '?'.toNat).isSome = true ∧ ((Gen.mdna p).tryFromAscii '!'.toNat).isSome = true := by
  cases p <;> decide +kernel

/-- full description on every symbol at once -/
theorem mdna_mask_char (p : Profile) :
    ∀ s ∈ (Gen.mdna p).items, ((Gen.mdna p).mask s).map (Gen.mdna p).toChar = some (mdnaMaskChar ((Gen.mdna p).toChar s)) := by
  cases p <;> decide +kernel

/-- also here masking commutes with the symbol complement -/
theorem mdna_mask_comp (p : Profile) :
    ∀ s ∈ (Gen.mdna p).items, ((Gen.mdna p).comp s).bind (Gen.mdna p).mask = ((Gen.mdna p).mask s).bind (Gen.mdna p).comp ∧
      ((Gen.mdna p).comp s).bind (Gen.mdna p).unmask = ((Gen.mdna p).unmask s).bind (Gen.mdna p).comp := by
  cases p <;> decide +kernel

/-- the 5-bit behaviour does NOT carry over to the 4-bit codec (consequence of the toggle,
    documented in codec/masked/dna.rs as "masking/unmasking are not idempotent"): `unmask` of the
    unmasked `A` (8) is the masked `a` (7) and `mask` of `a` is `A`; `mask ∘ mask = mask` holds
    only on gap (12) and pad (10); the 5-bit law list `flagFailures` is violated here. -/
theorem mdna_not_flag (p : Profile) :
    (Gen.mdna p).unmask 8 = some 7 ∧ (Gen.mdna p).mask 7 = some 8 ∧
    (flagFailures (Gen.mdna p)).map (·.2) ≠ [] ∧
    ((Gen.mdna p).items.filter fun s => ((Gen.mdna p).mask s).bind (Gen.mdna p).mask == (Gen.mdna p).mask s)
      = [12, 10] := by
  cases p <;> decide +kernel

/-! ### 2. sequence level: any codec, any length -/

/-- a symbol-level operation never panics on a listed symbol and yields a listed symbol -/
def OpWF (c : Codec) (op : Nat → Option Nat) : Prop := ∀ s ∈ c.items, ∃ t ∈ c.items, op s = some t

/-- closure predicate of a maskable codec: `mask` and `unmask` map symbols to symbols -/
def MaskWF (c : Codec) : Prop := OpWF c c.mask ∧ OpWF c c.unmask

/-- total view of a symbol-level operation (the default `0` is never used on listed symbols) -/
def opSym (op : Nat → Option Nat) (s : Nat) : Nat := (op s).getD 0

def maskSym (c : Codec) : Nat → Nat := opSym c.mask
def unmaskSym (c : Codec) : Nat → Nat := opSym c.unmask

/-- the per-chunk loop shared by `Seq.mask`, `Seq.unmask` and `Seq.comp` -/
def seqOp (p : Profile) (c : Codec) (op : Nat → Option Nat) (bs : Bits) : Res Bits :=
  mapChunksM c.width (chunkOp p c op) (len c bs) bs

theorem mask_eq (p : Profile) (c : Codec) : Seq.mask p c = seqOp p c c.mask := rfl
theorem unmask_eq (p : Profile) (c : Codec) : Seq.unmask p c = seqOp p c c.unmask := rfl
theorem comp_eq (p : Profile) (c : Codec) : Seq.comp p c = seqOp p c c.comp := rfl
theorem compWF_iff (c : Codec) : C07.CompWF c ↔ OpWF c c.comp := Iff.rfl
theorem compSym_eq (c : Codec) : C07.compSym c = opSym c.comp := rfl

theorem opSym_spec (c : Codec) (op : Nat → Option Nat) (ow : OpWF c op) (s : Nat) (hs : s ∈ c.items) :
    op s = some (opSym op s) ∧ opSym op s ∈ c.items := by
  obtain ⟨t, ht, hst⟩ := ow s hs
  simp [opSym, hst, ht]

theorem canon_map_op (c : Codec) (op : Nat → Option Nat) (ow : OpWF c op) (cs : List Nat) (hc : Canon c cs) :
    Canon c (cs.map (opSym op)) := by
  intro x hx
  simp only [List.mem_map] at hx
  obtain ⟨s, hs, rfl⟩ := hx
  exact (opSym_spec c op ow s (hc s hs)).2

/-- packed form: the loop replaces each symbol by its image, in place -/
theorem seqOp_spec (p : Profile) (c : Codec) (wf : CodecWF c) (op : Nat → Option Nat) (ow : OpWF c op)
    (cs : List Nat) (hc : Canon c cs) :
    seqOp p c op (pack c.width cs) = .ok (pack c.width (cs.map (opSym op))) := by
  unfold seqOp
  rw [len_pack c wf.width_pos]
  apply mapChunksM_pack
  intro x hx
  exact chunkOp_item p c wf op x _ (hc x hx) (opSym_spec c op ow x (hc x hx)).1

/-- two loops in sequence = the loop of the composed symbol operation -/
theorem seqOp_seqOp (p : Profile) (c : Codec) (wf : CodecWF c) (op1 op2 op3 : Nat → Option Nat)
    (w1 : OpWF c op1) (w2 : OpWF c op2) (w3 : OpWF c op3)
    (h : ∀ s ∈ c.items, (op1 s).bind op2 = op3 s) (cs : List Nat) (hc : Canon c cs) :
    (seqOp p c op1 (pack c.width cs)).bind (seqOp p c op2) = seqOp p c op3 (pack c.width cs) := by
  rw [seqOp_spec p c wf op1 w1 cs hc, seqOp_spec p c wf op3 w3 cs hc]
  simp only [Except.bind]
  rw [seqOp_spec p c wf op2 w2 _ (canon_map_op c op1 w1 cs hc), List.map_map]
  congr 2
  apply List.map_congr_left
  intro s hs
  have hs' := hc s hs
  have h1 := (opSym_spec c op1 w1 s hs').1
  have h3 := h s hs'
  rw [h1] at h3
  simp only [Option.bind] at h3
  simp only [Function.comp, opSym]
  rw [h1, Option.getD_some, h3]

/-- two loops whose symbol operations undo each other restore the sequence -/
theorem seqOp_inverse (p : Profile) (c : Codec) (wf : CodecWF c) (op1 op2 : Nat → Option Nat)
    (w1 : OpWF c op1) (w2 : OpWF c op2)
    (h : ∀ s ∈ c.items, (op1 s).bind op2 = some s) (cs : List Nat) (hc : Canon c cs) :
    (seqOp p c op1 (pack c.width cs)).bind (seqOp p c op2) = .ok (pack c.width cs) := by
  rw [seqOp_spec p c wf op1 w1 cs hc]
  simp only [Except.bind]
  rw [seqOp_spec p c wf op2 w2 _ (canon_map_op c op1 w1 cs hc), List.map_map]
  congr 2
  conv => rhs; rw [← List.map_id cs]
  apply List.map_congr_left
  intro s hs
  have hs' := hc s hs
  have h1 := (opSym_spec c op1 w1 s hs').1
  have h3 := h s hs'
  rw [h1] at h3
  simp only [Option.bind] at h3
  simp only [Function.comp, opSym, id]
  rw [h1, Option.getD_some, h3, Option.getD_some]

/-- two loops commute when their symbol operations do -/
theorem seqOp_comm (p : Profile) (c : Codec) (wf : CodecWF c) (op1 op2 : Nat → Option Nat)
    (w1 : OpWF c op1) (w2 : OpWF c op2)
    (h : ∀ s ∈ c.items, (op1 s).bind op2 = (op2 s).bind op1) (cs : List Nat) (hc : Canon c cs) :
    (seqOp p c op1 (pack c.width cs)).bind (seqOp p c op2)
      = (seqOp p c op2 (pack c.width cs)).bind (seqOp p c op1) := by
  rw [seqOp_spec p c wf op1 w1 cs hc, seqOp_spec p c wf op2 w2 cs hc]
  simp only [Except.bind]
  rw [seqOp_spec p c wf op2 w2 _ (canon_map_op c op1 w1 cs hc),
    seqOp_spec p c wf op1 w1 _ (canon_map_op c op2 w2 cs hc), List.map_map, List.map_map]
  congr 2
  apply List.map_congr_left
  intro s hs
  have hs' := hc s hs
  have h1 := (opSym_spec c op1 w1 s hs').1
  have h2 := (opSym_spec c op2 w2 s hs').1
  have h12 := (opSym_spec c op2 w2 _ (opSym_spec c op1 w1 s hs').2).1
  have h21 := (opSym_spec c op1 w1 _ (opSym_spec c op2 w2 s hs').2).1
  have h3 := h s hs'
  rw [h1, h2] at h3
  simp only [Option.bind] at h3
  rw [h12, h21] at h3
  simp only [Function.comp]
  exact Option.some.inj h3

/-- the loop commutes with `rev` (reverse first or afterwards) -/
theorem seqOp_rev (p : Profile) (c : Codec) (wf : CodecWF c) (op : Nat → Option Nat) (ow : OpWF c op)
    (cs : List Nat) (hc : Canon c cs) :
    seqOp p c op (Seq.rev c (pack c.width cs)) = (seqOp p c op (pack c.width cs)).map (Seq.rev c) := by
  rw [C07.rev_pack c wf.width_pos, seqOp_spec p c wf op ow _ (C07.canon_reverse hc),
    seqOp_spec p c wf op ow cs hc]
  simp only [Except.map]
  rw [C07.rev_pack c wf.width_pos, List.map_reverse]

/-- the loop never changes the bit length — any bit string (aligned or not), any codec -/
theorem seqOp_length (p : Profile) (c : Codec) (op : Nat → Option Nat) (bs r : Bits)
    (h : seqOp p c op bs = .ok r) : r.length = bs.length :=
  mapChunksM_length c.width _ (chunkOp_length p c op) _ _ _ h

/-! #### the property, in the vocabulary of the crate -/

/-- `mask` on a canonical sequence: every symbol replaced by its masked symbol, nothing else -/
theorem mask_spec (p : Profile) (c : Codec) (wf : CodecWF c) (mw : MaskWF c) (cs : List Nat) (hc : Canon c cs) :
    Seq.mask p c (pack c.width cs) = .ok (pack c.width (cs.map (maskSym c))) ∧
    Canon c (cs.map (maskSym c)) :=
  ⟨seqOp_spec p c wf c.mask mw.1 cs hc, canon_map_op c c.mask mw.1 cs hc⟩

theorem unmask_spec (p : Profile) (c : Codec) (wf : CodecWF c) (mw : MaskWF c) (cs : List Nat) (hc : Canon c cs) :
    Seq.unmask p c (pack c.width cs) = .ok (pack c.width (cs.map (unmaskSym c))) ∧
    Canon c (cs.map (unmaskSym c)) :=
  ⟨seqOp_spec p c wf c.unmask mw.2 cs hc, canon_map_op c c.unmask mw.2 cs hc⟩

/-- `maskSym` is the codec's `mask` on listed symbols (never the default) -/
theorem maskSym_spec (c : Codec) (mw : MaskWF c) (s : Nat) (hs : s ∈ c.items) :
    c.mask s = some (maskSym c s) ∧ maskSym c s ∈ c.items := opSym_spec c c.mask mw.1 s hs
theorem unmaskSym_spec (c : Codec) (mw : MaskWF c) (s : Nat) (hs : s ∈ c.items) :
    c.unmask s = some (unmaskSym c s) ∧ unmaskSym c s ∈ c.items := opSym_spec c c.unmask mw.2 s hs

/-- symbol view on any aligned canonical sequence: the result exists, is aligned and canonical,
    has the same number of symbols, and position `i` holds the masked symbol of position `i` -/
theorem mask_syms (p : Profile) (c : Codec) (wf : CodecWF c) (mw : MaskWF c) (bs : Bits)
    (hal : Aligned c bs) (hc : Canon c (syms c.width bs)) :
    ∃ r, Seq.mask p c bs = .ok r ∧ Aligned c r ∧ Canon c (syms c.width r) ∧
      r.length = bs.length ∧ len c r = len c bs ∧
      syms c.width r = (syms c.width bs).map (maskSym c) ∧
      (∀ i : Nat, (syms c.width r)[i]? = ((syms c.width bs)[i]?).map (maskSym c)) ∧
      (syms c.width r).map some = (syms c.width bs).map c.mask := by
  have e := eq_pack c wf.width_pos bs hal
  obtain ⟨h1, h2⟩ := mask_spec p c wf mw _ hc
  rw [← e] at h1
  have hs := syms_pack c.width wf.width_pos _ (h2.fits wf)
  have hlen := seqOp_length p c c.mask bs _ h1
  refine ⟨_, h1, aligned_pack c _, ?_, hlen, ?_, hs, ?_, ?_⟩
  · rw [hs]; exact h2
  · simp only [len, hlen]
  · intro i; rw [hs, List.getElem?_map]
  · rw [hs, List.map_map]
    apply List.map_congr_left
    intro s hs'
    exact ((maskSym_spec c mw s (hc s hs')).1).symm

theorem unmask_syms (p : Profile) (c : Codec) (wf : CodecWF c) (mw : MaskWF c) (bs : Bits)
    (hal : Aligned c bs) (hc : Canon c (syms c.width bs)) :
    ∃ r, Seq.unmask p c bs = .ok r ∧ Aligned c r ∧ Canon c (syms c.width r) ∧
      r.length = bs.length ∧ len c r = len c bs ∧
      syms c.width r = (syms c.width bs).map (unmaskSym c) ∧
      (∀ i : Nat, (syms c.width r)[i]? = ((syms c.width bs)[i]?).map (unmaskSym c)) ∧
      (syms c.width r).map some = (syms c.width bs).map c.unmask := by
  have e := eq_pack c wf.width_pos bs hal
  obtain ⟨h1, h2⟩ := unmask_spec p c wf mw _ hc
  rw [← e] at h1
  have hs := syms_pack c.width wf.width_pos _ (h2.fits wf)
  have hlen := seqOp_length p c c.unmask bs _ h1
  refine ⟨_, h1, aligned_pack c _, ?_, hlen, ?_, hs, ?_, ?_⟩
  · rw [hs]; exact h2
  · simp only [len, hlen]
  · intro i; rw [hs, List.getElem?_map]
  · rw [hs, List.map_map]
    apply List.map_congr_left
    intro s hs'
    exact ((unmaskSym_spec c mw s (hc s hs')).1).symm

/-- length is preserved on any bit string whatsoever -/
theorem mask_length (p : Profile) (c : Codec) (bs r : Bits) (h : Seq.mask p c bs = .ok r) :
    r.length = bs.length ∧ len c r = len c bs := by
  have := seqOp_length p c c.mask bs r h
  exact ⟨this, by simp only [len, this]⟩

theorem unmask_length (p : Profile) (c : Codec) (bs r : Bits) (h : Seq.unmask p c bs = .ok r) :
    r.length = bs.length ∧ len c r = len c bs := by
  have := seqOp_length p c c.unmask bs r h
  exact ⟨this, by simp only [len, this]⟩

/-- masking commutes with reverse -/
theorem mask_rev (p : Profile) (c : Codec) (wf : CodecWF c) (mw : MaskWF c) (cs : List Nat) (hc : Canon c cs) :
    Seq.mask p c (Seq.rev c (pack c.width cs)) = (Seq.mask p c (pack c.width cs)).map (Seq.rev c) :=
  seqOp_rev p c wf c.mask mw.1 cs hc

theorem unmask_rev (p : Profile) (c : Codec) (wf : CodecWF c) (mw : MaskWF c) (cs : List Nat) (hc : Canon c cs) :
    Seq.unmask p c (Seq.rev c (pack c.width cs)) = (Seq.unmask p c (pack c.width cs)).map (Seq.rev c) :=
  seqOp_rev p c wf c.unmask mw.2 cs hc

/-- masking commutes with complement, given the symbol-level commutation -/
theorem mask_comp (p : Profile) (c : Codec) (wf : CodecWF c) (mw : MaskWF c) (cw : C07.CompWF c)
    (h : ∀ s ∈ c.items, (c.comp s).bind c.mask = (c.mask s).bind c.comp) (cs : List Nat) (hc : Canon c cs) :
    (Seq.comp p c (pack c.width cs)).bind (Seq.mask p c)
      = (Seq.mask p c (pack c.width cs)).bind (Seq.comp p c) :=
  seqOp_comm p c wf c.comp c.mask cw mw.1 h cs hc

theorem unmask_comp (p : Profile) (c : Codec) (wf : CodecWF c) (mw : MaskWF c) (cw : C07.CompWF c)
    (h : ∀ s ∈ c.items, (c.comp s).bind c.unmask = (c.unmask s).bind c.comp) (cs : List Nat) (hc : Canon c cs) :
    (Seq.comp p c (pack c.width cs)).bind (Seq.unmask p c)
      = (Seq.unmask p c (pack c.width cs)).bind (Seq.comp p c) :=
  seqOp_comm p c wf c.comp c.unmask cw mw.2 h cs hc

/-- hence also with reverse-complement (`revcomp` = `comp` then `rev`) -/
theorem mask_revcomp (p : Profile) (c : Codec) (wf : CodecWF c) (mw : MaskWF c) (cw : C07.CompWF c)
    (h : ∀ s ∈ c.items, (c.comp s).bind c.mask = (c.mask s).bind c.comp) (cs : List Nat) (hc : Canon c cs) :
    (Seq.revcomp p c (pack c.width cs)).bind (Seq.mask p c)
      = (Seq.mask p c (pack c.width cs)).bind (Seq.revcomp p c) := by
  have hcm := mask_comp p c wf mw cw h cs hc
  obtain ⟨hm, hmc⟩ := mask_spec p c wf mw cs hc
  obtain ⟨hco, hcc⟩ := C07.comp_spec p c wf cw cs hc
  rw [hm, hco] at hcm
  simp only [Except.bind] at hcm
  unfold Seq.revcomp
  rw [hm, hco]
  simp only [Except.bind, Except.map]
  rw [(C07.comp_spec p c wf cw _ hmc).1] at hcm ⊢
  rw [mask_rev p c wf mw _ hcc, hcm]
  rfl

/-- idempotence / absorption / involution lifted from the symbol level -/
theorem mask_mask (p : Profile) (c : Codec) (wf : CodecWF c) (mw : MaskWF c)
    (h : ∀ s ∈ c.items, (c.mask s).bind c.mask = c.mask s) (cs : List Nat) (hc : Canon c cs) :
    (Seq.mask p c (pack c.width cs)).bind (Seq.mask p c) = Seq.mask p c (pack c.width cs) :=
  seqOp_seqOp p c wf c.mask c.mask c.mask mw.1 mw.1 mw.1 h cs hc

theorem unmask_unmask (p : Profile) (c : Codec) (wf : CodecWF c) (mw : MaskWF c)
    (h : ∀ s ∈ c.items, (c.unmask s).bind c.unmask = c.unmask s) (cs : List Nat) (hc : Canon c cs) :
    (Seq.unmask p c (pack c.width cs)).bind (Seq.unmask p c) = Seq.unmask p c (pack c.width cs) :=
  seqOp_seqOp p c wf c.unmask c.unmask c.unmask mw.2 mw.2 mw.2 h cs hc

theorem unmask_mask (p : Profile) (c : Codec) (wf : CodecWF c) (mw : MaskWF c)
    (h : ∀ s ∈ c.items, (c.mask s).bind c.unmask = c.unmask s) (cs : List Nat) (hc : Canon c cs) :
    (Seq.mask p c (pack c.width cs)).bind (Seq.unmask p c) = Seq.unmask p c (pack c.width cs) :=
  seqOp_seqOp p c wf c.mask c.unmask c.unmask mw.1 mw.2 mw.2 h cs hc

theorem mask_unmask (p : Profile) (c : Codec) (wf : CodecWF c) (mw : MaskWF c)
    (h : ∀ s ∈ c.items, (c.unmask s).bind c.mask = c.mask s) (cs : List Nat) (hc : Canon c cs) :
    (Seq.unmask p c (pack c.width cs)).bind (Seq.mask p c) = Seq.mask p c (pack c.width cs) :=
  seqOp_seqOp p c wf c.unmask c.mask c.mask mw.2 mw.1 mw.1 h cs hc

theorem mask_involution (p : Profile) (c : Codec) (wf : CodecWF c) (mw : MaskWF c)
    (h : ∀ s ∈ c.items, (c.mask s).bind c.mask = some s) (cs : List Nat) (hc : Canon c cs) :
    (Seq.mask p c (pack c.width cs)).bind (Seq.mask p c) = .ok (pack c.width cs) :=
  seqOp_inverse p c wf c.mask c.mask mw.1 mw.1 h cs hc

theorem unmask_undoes_mask (p : Profile) (c : Codec) (wf : CodecWF c) (mw : MaskWF c)
    (h : ∀ s ∈ c.items, (c.mask s).bind c.unmask = some s) (cs : List Nat) (hc : Canon c cs) :
    (Seq.mask p c (pack c.width cs)).bind (Seq.unmask p c) = .ok (pack c.width cs) :=
  seqOp_inverse p c wf c.mask c.unmask mw.1 mw.2 h cs hc

/-- what `Display` shows after masking: the characters of the masked symbols, position-wise -/
theorem mask_display (p : Profile) (c : Codec) (wf : CodecWF c) (mw : MaskWF c) (cs : List Nat)
    (hc : Canon c cs) (hov : cs.length * c.width < W64) :
    (Seq.mask p c (pack c.width cs)).bind (Seq.display p c) = .ok (cs.map fun s => c.toChar (maskSym c s)) := by
  obtain ⟨h1, h2⟩ := mask_spec p c wf mw cs hc
  rw [h1]
  simp only [Except.bind, Seq.display]
  rw [iterSyms_pack p c wf _ h2 (by simpa using hov)]
  simp [Except.map, List.map_map]

theorem unmask_display (p : Profile) (c : Codec) (wf : CodecWF c) (mw : MaskWF c) (cs : List Nat)
    (hc : Canon c cs) (hov : cs.length * c.width < W64) :
    (Seq.unmask p c (pack c.width cs)).bind (Seq.display p c) = .ok (cs.map fun s => c.toChar (unmaskSym c s)) := by
  obtain ⟨h1, h2⟩ := unmask_spec p c wf mw cs hc
  rw [h1]
  simp only [Except.bind, Seq.display]
  rw [iterSyms_pack p c wf _ h2 (by simpa using hov)]
  simp [Except.map, List.map_map]

/-! ### 3. the two extracted maskable codecs -/

/-- failing-input search for `MaskWF`: symbols whose mask / unmask panics or leaves `items()` -/
def maskWFFailures (c : Codec) : List Nat :=
  c.items.filter fun s =>
    !((match c.mask s with | some t => c.items.contains t | none => false)
      && (match c.unmask s with | some t => c.items.contains t | none => false))

theorem maskWF_of_failures (c : Codec) (h : maskWFFailures c = []) : MaskWF c := by
  simp only [maskWFFailures, List.filter_eq_nil_iff] at h
  constructor
  · intro s hs
    have := h s hs
    cases hm : c.mask s with
    | none => simp [hm] at this
    | some t =>
      simp only [hm, Bool.not_eq_true, Bool.not_eq_false', Bool.and_eq_true, List.contains_eq_mem,
        decide_eq_true_eq] at this
      exact ⟨t, this.1, rfl⟩
  · intro s hs
    have := h s hs
    cases hm : c.unmask s with
    | none => simp [hm] at this
    | some t =>
      simp only [hm, Bool.not_eq_true, Bool.not_eq_false', Bool.and_eq_true, List.contains_eq_mem,
        decide_eq_true_eq] at this
      exact ⟨t, this.2, rfl⟩

theorem maskWF_mdna (p : Profile) : MaskWF (Gen.mdna p) :=
  maskWF_of_failures _ (by cases p <;> decide +kernel)
theorem maskWF_miupac (p : Profile) : MaskWF (Gen.miupac p) :=
  maskWF_of_failures _ (by cases p <;> decide +kernel)

/-- every maskable built-in codec, both profiles: all hypotheses used above hold
    (`CodecWF`, `MaskWF`, `CompWF`, and masking commutes with complement symbol-wise) -/
theorem builtin_instances : ∀ c ∈ Gen.maskCodecs, ∀ p,
    CodecWF (c p) ∧ MaskWF (c p) ∧ C07.CompWF (c p) ∧
    (∀ s ∈ (c p).items, ((c p).comp s).bind (c p).mask = ((c p).mask s).bind (c p).comp) ∧
    (∀ s ∈ (c p).items, ((c p).comp s).bind (c p).unmask = ((c p).unmask s).bind (c p).comp) := by
  intro c hc p
  simp only [Gen.maskCodecs, List.mem_cons, List.mem_nil_iff, or_false] at hc
  rcases hc with rfl | rfl
  · exact ⟨wf_mdna p, maskWF_mdna p, C07.compWF_mdna p, fun s hs => (mdna_mask_comp p s hs).1,
      fun s hs => (mdna_mask_comp p s hs).2⟩
  · exact ⟨wf_miupac p, maskWF_miupac p, C07.compWF_miupac p, miupac_mask_comp p, miupac_unmask_comp p⟩

/-- non-maskable codecs fail `MaskWF` on every symbol (the predicate is not vacuous) -/
example : maskWFFailures (Gen.dna .debug) = (Gen.dna .debug).items := by decide +kernel

/-! #### 5-bit IUPAC sequences: the whole property in one statement -/

theorem miupac_seq (p : Profile) (cs : List Nat) (hc : Canon (Gen.miupac p) cs) :
    let c := Gen.miupac p
    let s := pack c.width cs
    -- position-wise results
    Seq.mask p c s = .ok (pack c.width (cs.map (maskSym c))) ∧
    Seq.unmask p c s = .ok (pack c.width (cs.map (unmaskSym c))) ∧
    -- case only, set unchanged
    (∀ x ∈ cs, c.toChar (maskSym c x) = lowerForm (c.toChar x) ∧ c.toChar (unmaskSym c x) = upperForm (c.toChar x) ∧
       Spec.iupacSet (c.toChar (maskSym c x)) = Spec.iupacSet (c.toChar x) ∧
       Spec.iupacSet (c.toChar (unmaskSym c x)) = Spec.iupacSet (c.toChar x)) ∧
    -- idempotent, unmask after mask = unmask
    (Seq.mask p c s).bind (Seq.mask p c) = Seq.mask p c s ∧
    (Seq.unmask p c s).bind (Seq.unmask p c) = Seq.unmask p c s ∧
    (Seq.mask p c s).bind (Seq.unmask p c) = Seq.unmask p c s ∧
    -- commutes with complement, reverse and reverse-complement
    (Seq.comp p c s).bind (Seq.mask p c) = (Seq.mask p c s).bind (Seq.comp p c) ∧
    (Seq.comp p c s).bind (Seq.unmask p c) = (Seq.unmask p c s).bind (Seq.comp p c) ∧
    Seq.mask p c (Seq.rev c s) = (Seq.mask p c s).map (Seq.rev c) ∧
    Seq.unmask p c (Seq.rev c s) = (Seq.unmask p c s).map (Seq.rev c) ∧
    (Seq.revcomp p c s).bind (Seq.mask p c) = (Seq.mask p c s).bind (Seq.revcomp p c) := by
  intro c s
  have wf := wf_miupac p
  have mw := maskWF_miupac p
  have cw := C07.compWF_miupac p
  refine ⟨(mask_spec p c wf mw cs hc).1, (unmask_spec p c wf mw cs hc).1, ?_,
    mask_mask p c wf mw (miupac_mask_idem p) cs hc, unmask_unmask p c wf mw (miupac_unmask_idem p) cs hc,
    unmask_mask p c wf mw (miupac_unmask_mask p) cs hc,
    mask_comp p c wf mw cw (miupac_mask_comp p) cs hc, unmask_comp p c wf mw cw (miupac_unmask_comp p) cs hc,
    mask_rev p c wf mw cs hc, unmask_rev p c wf mw cs hc,
    mask_revcomp p c wf mw cw (miupac_mask_comp p) cs hc⟩
  intro x hx
  have hxi := hc x hx
  have hm := (maskSym_spec c mw x hxi).1
  have hu := (unmaskSym_spec c mw x hxi).1
  have h1 := miupac_mask_lower p x hxi
  have h2 := miupac_unmask_upper p x hxi
  have h3 := miupac_mask_set p x hxi
  rw [hm] at h1
  rw [hu] at h2
  rw [hm, hu] at h3
  simp only [Option.map_some, Option.some.injEq] at h1 h2 h3
  exact ⟨h1, h2, h3.1, h3.2⟩

/-! #### 4-bit DNA sequences -/

theorem mdna_seq (p : Profile) (cs : List Nat) (hc : Canon (Gen.mdna p) cs) :
    let c := Gen.mdna p
    let s := pack c.width cs
    Seq.mask p c s = .ok (pack c.width (cs.map (maskSym c))) ∧
    -- unmask is the same operation
    Seq.unmask p c s = Seq.mask p c s ∧
    -- toggles the case of letters, exchanges `?`/`!`, leaves gap and pad
    (∀ x ∈ cs, c.toChar (maskSym c x) = mdnaMaskChar (c.toChar x)) ∧
    -- an involution
    (Seq.mask p c s).bind (Seq.mask p c) = .ok s ∧
    (Seq.mask p c s).bind (Seq.unmask p c) = .ok s ∧
    -- commutes with complement and reverse
    (Seq.comp p c s).bind (Seq.mask p c) = (Seq.mask p c s).bind (Seq.comp p c) ∧
    Seq.mask p c (Seq.rev c s) = (Seq.mask p c s).map (Seq.rev c) := by
  intro c s
  have wf := wf_mdna p
  have mw := maskWF_mdna p
  have cw := C07.compWF_mdna p
  have hsame : ∀ x ∈ cs, unmaskSym c x = maskSym c x := by
    intro x hx
    show opSym (Gen.mdna p).unmask x = opSym (Gen.mdna p).mask x
    unfold opSym
    rw [mdna_unmask_items p x (hc x hx)]
  refine ⟨(mask_spec p c wf mw cs hc).1, ?_, ?_,
    mask_involution p c wf mw (fun x hx => (mdna_mask_invol p x hx).1) cs hc,
    unmask_undoes_mask p c wf mw (fun x hx => (mdna_mask_invol p x hx).2.1) cs hc,
    mask_comp p c wf mw cw (fun x hx => (mdna_mask_comp p x hx).1) cs hc,
    mask_rev p c wf mw cs hc⟩
  · rw [(mask_spec p c wf mw cs hc).1, (unmask_spec p c wf mw cs hc).1]
    congr 2
    exact List.map_congr_left hsame
  · intro x hx
    have hxi := hc x hx
    have hm := (maskSym_spec c mw x hxi).1
    have h1 := mdna_mask_char p x hxi
    rw [hm] at h1
    simpa using h1

/-! ### 4. examples (non-vacuity) -/

/-- 13 masked-IUPAC symbols `ACGTYRWSKM-dn` of 5 bits = 65 bits: the last symbol straddles the
    64-bit word boundary -/
example : (pack 5 [16, 8, 2, 1, 9, 18, 17, 10, 3, 24, 0, 23, 31]).length = 65 := by decide +kernel
example : Canon (Gen.miupac .release) [16, 8, 2, 1, 9, 18, 17, 10, 3, 24, 0, 23, 31] := by
  unfold Canon; decide +kernel
example : Seq.display .release (Gen.miupac .release) (pack 5 [16, 8, 2, 1, 9, 18, 17, 10, 3, 24, 0, 23, 31])
    = .ok ("ACGTYRWSKM-dn".toList.map Char.toNat) := by decide +kernel
example : (Seq.mask .release (Gen.miupac .release) (pack 5 [16, 8, 2, 1, 9, 18, 17, 10, 3, 24, 0, 23, 31])).bind
      (Seq.display .release (Gen.miupac .release))
    = .ok ("acgtyrwskm.dn".toList.map Char.toNat) := by decide +kernel
example : (Seq.unmask .release (Gen.miupac .release) (pack 5 [16, 8, 2, 1, 9, 18, 17, 10, 3, 24, 0, 23, 31])).bind
      (Seq.display .release (Gen.miupac .release))
    = .ok ("ACGTYRWSKM-DN".toList.map Char.toNat) := by decide +kernel
example : Seq.mask .debug (Gen.miupac .debug) (pack 5 [16, 8, 2, 1, 9, 18, 17, 10, 3, 24, 0, 23, 31])
    = .ok (pack 5 [20, 12, 6, 5, 13, 22, 21, 14, 7, 28, 4, 23, 31]) := by decide +kernel

/-- the unit test `mask_iupac_seq` of codec/masked/iupac.rs: `"A.TCGCgtcataN--A"` -/
example : (Seq.parseBytes (Gen.miupac .debug) ("A.TCGCgtcataN--A".toList.map Char.toNat)).bind
      (fun s => (Seq.mask .debug (Gen.miupac .debug) s).bind (Seq.display .debug (Gen.miupac .debug)))
    = .ok ("a.tcgcgtcatan..a".toList.map Char.toNat) := by decide +kernel

/-- the unit test `mask_sequence` of codec/masked/dna.rs: the toggle -/
example : (Seq.parseBytes (Gen.mdna .debug) ("A.TCGCgtcataN--A".toList.map Char.toNat)).bind
      (fun s => (Seq.mask .debug (Gen.mdna .debug) s).bind (Seq.display .debug (Gen.mdna .debug)))
    = .ok ("a.tcgcGTCATAn--a".toList.map Char.toNat) := by decide +kernel
example : (Seq.parseBytes (Gen.mdna .debug) ("A.TCGCgtcataN--A".toList.map Char.toNat)).bind
      (fun s => (Seq.unmask .debug (Gen.mdna .debug) s).bind (Seq.display .debug (Gen.mdna .debug)))
    = .ok ("a.tcgcGTCATAn--a".toList.map Char.toNat) := by decide +kernel

/-- lengths 0 and 1 -/
example : Seq.mask .debug (Gen.mdna .debug) (pack 4 []) = .ok (pack 4 []) := by decide +kernel
example : Seq.mask .debug (Gen.mdna .debug) (pack 4 [8]) = .ok (pack 4 [7]) := by decide +kernel

/-- `Canon` is needed: chunk 3 is the documented alternative code of the masked-DNA gap (12), not a
    canonical code; `mask` stores the canonical gap, so masking twice does not restore the bits -/
example : (Seq.mask .release (Gen.mdna .release) (pack 4 [3])).bind (Seq.mask .release (Gen.mdna .release))
    = .ok (pack 4 [12]) := by decide +kernel
example : ¬ Canon (Gen.mdna .release) [3] := by unfold Canon; decide +kernel

end C20
end BioSeq
