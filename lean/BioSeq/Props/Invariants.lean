/-
  Invariants — `Aligned` and `Canon` are invariants of every sequence the safe API can build.

  Many property theorems (C02, C03, C06, C07, C12, C20, ...) carry the hypotheses
      `C03.Aligned c bs`               (the bit length is a multiple of the symbol width)
      `Canon c (syms c.width bs)`      (every chunk is the canonical code of a listed symbol).
  This file proves that these are not restrictions: they hold of every value constructible with
  the modelled safe API, and conversely every value satisfying them is constructible
  (`reach_iff`), so the two hypotheses describe *exactly* the reachable sequences.

  `Reach p c bs` — the inductive set of values of codec `c` constructible in build profile `p`:
    `Seq::new`, the parsers (`TryFrom<&[u8]>`/`FromStr`, `trim_u8`), `FromIterator`, the seven
    `Index` forms, `push`, `extend`, `append`, `prepend`, `insert`, `remove` (all nine
    `RangeBounds` forms), `truncate`, `rev`, `comp`, `revcomp`, `mask`, `unmask`, `&`, `|`,
    `from_raw(n, into_raw())` with `n ≤ len`, `Deref for Kmer` and `From<Kmer> for Seq`.

  Premises carried by the constructors, and why:
    * availability: `comp`/`revcomp` carry `C07.CompWF c`, `mask`/`unmask` carry `C20.MaskWF c`
      (the codec implements `ComplementMut` / `MaskableMut` and that symbol operation maps
      symbols to symbols — proved for the built-in codecs that have the impls), `&`/`|` carry
      `BitClosed c` (the symbols are closed under `&&&`/`|||` of their codes: true for dna, iupac,
      masked iupac and the 1-bit codec, FALSE for amino, text and masked dna — finding D11, see
      the negative section);
    * `NoWrap p (...)`: a guard needed ONLY in the release profile, stating that the `usize`
      products `index * BITS` the operation computes do not wrap (`NoWrap .debug _` is trivially
      true: in a debug build the overflow panics, so the success premise already excludes it).
      Without it a release build can cut a 6-bit amino sequence at a wrapped, unaligned bit offset
      (known finding `index-mul-overflow-release`; an excluded point, not a refinement).
    * `&` needs the left operand not to be longer (`a.length ≤ b.length`; equal lengths are the
      documented use): surplus symbols of a longer left operand are ANDed with nothing and become
      code 0, which is a symbol only in some codecs.  `|` has no length premise.
  Model remarks: `push`/`extend`/`append`/`prepend`/`rev`/`&`/`|` are total in the model (bitvec's
  capacity panic is not modelled), so their constructors carry no success premise.  The k-mer
  and raw-image constructors turn out to be round trips on reachable values
  (`reach_kmer_roundtrip`, `reach_raw_roundtrip`): they are listed for completeness of the API
  surface, not because they add values.
  The raw constructor `from_raw` on arbitrary words is deliberately NOT a constructor: it breaks
  the invariant (negative section).
-/
import BioSeq.Lemmas.InvariantLemmas
import BioSeq.Props.C02
namespace BioSeq
namespace Invariants
open BioSeq.Seq
open BioSeq.C03 (Aligned aligned_pack eq_pack)
open BioSeq.C06L (startOf endOf)
open BioSeq.InvL

/-! ### 1. the reachable values -/

/-- the sequences of codec `c` constructible with the (modelled) safe API in build profile `p` -/
inductive Reach (p : Profile) (c : Codec) : Bits → Prop
  /-- `Seq::new()` -/
  | nil : Reach p c []
  /-- `Seq::try_from(bytes)` / `from_str` -/
  | parse (bytes : List Nat) (s : Bits) : parseBytes c bytes = .ok s → Reach p c s
  /-- `iter.collect::<Seq<A>>()` of symbols -/
  | collect (ss : List Nat) : Canon c ss → Reach p c (Seq.extend c [] ss)
  /-- `Seq::trim_u8` -/
  | trim (v : List Nat) (s : Bits) : Seq.trim c v = .ok s → Reach p c s
  /-- `&s[a..b]`, `&s[..b]`, `&s[..=b]`, `&s[a..=b]`, `&s[a..]`, `&s[..]`, `&s[i]` -/
  | index (bs : Bits) (f : RangeForm) (a b : Nat) (r : Bits) :
      Reach p c bs → NoWrap p (IdxGuard c f a b) → Seq.index p c bs f a b = .ok r → Reach p c r
  /-- `push(symbol)` -/
  | push (bs : Bits) (s : Nat) : Reach p c bs → s ∈ c.items → Reach p c (Seq.push c bs s)
  /-- `extend(symbols)` -/
  | extend (bs : Bits) (ss : List Nat) : Reach p c bs → Canon c ss → Reach p c (Seq.extend c bs ss)
  /-- `append(&other)` -/
  | append (bs t : Bits) : Reach p c bs → Reach p c t → Reach p c (Seq.append bs t)
  /-- `prepend(&other)` -/
  | prepend (bs t : Bits) : Reach p c bs → Reach p c t → Reach p c (Seq.prepend bs t)
  /-- `insert(i, &other)` -/
  | insert (bs t : Bits) (i : Nat) (r : Bits) :
      Reach p c bs → Reach p c t → NoWrap p (i * c.width < W64) →
      Seq.insert p c bs i t = .ok r → Reach p c r
  /-- `remove(range)`, any `RangeBounds` -/
  | remove (bs : Bits) (sb eb : Bound) (r : Bits) :
      Reach p c bs →
      NoWrap p (startOf sb * c.width < W64 ∧ endOf (len c bs) eb * c.width < W64) →
      Seq.remove p c bs sb eb = .ok r → Reach p c r
  /-- `truncate(n)` -/
  | truncate (bs : Bits) (n : Nat) (r : Bits) :
      Reach p c bs → NoWrap p (n * c.width < W64) → Seq.truncate p c bs n = .ok r → Reach p c r
  /-- `rev()` / `to_rev()` -/
  | rev (bs : Bits) : Reach p c bs → Reach p c (Seq.rev c bs)
  /-- `comp()` / `to_comp()` (codecs with a symbol complement) -/
  | comp (bs r : Bits) : C07.CompWF c → Reach p c bs → Seq.comp p c bs = .ok r → Reach p c r
  /-- `revcomp()` / `to_revcomp()` -/
  | revcomp (bs r : Bits) : C07.CompWF c → Reach p c bs → Seq.revcomp p c bs = .ok r → Reach p c r
  /-- `mask()` / `to_mask()` (maskable codecs) -/
  | mask (bs r : Bits) : C20.MaskWF c → Reach p c bs → Seq.mask p c bs = .ok r → Reach p c r
  /-- `unmask()` / `to_unmask()` -/
  | unmask (bs r : Bits) : C20.MaskWF c → Reach p c bs → Seq.unmask p c bs = .ok r → Reach p c r
  /-- `&a & &b` (codecs closed under the bit operations; left operand not longer) -/
  | bitAnd (a b : Bits) : BitClosed c → Reach p c a → Reach p c b → a.length ≤ b.length →
      Reach p c (Seq.bitAnd a b)
  /-- `&a | &b` (codecs closed under the bit operations; any lengths) -/
  | bitOr (a b : Bits) : BitClosed c → Reach p c a → Reach p c b → Reach p c (Seq.bitOr a b)
  /-- `Seq::from_raw(n, &s.into_raw())` with `n ≤ s.len()` -/
  | raw (bs : Bits) (n : Nat) (r : Bits) :
      Reach p c bs → n ≤ len c bs → Seq.fromRaw c n (Seq.intoRaw bs) = some r → Reach p c r
  /-- `Kmer::<A,K,usize>::try_from(&s)?.deref()` -/
  | kmerDeref (bs : Bits) (K v : Nat) :
      Reach p c bs → NoWrap p (K * c.width < W64) → Kmer.tryFrom p c K .usize bs = .ok v →
      Reach p c (Kmer.deref c K v)
  /-- `Seq::from(Kmer::<A,K,usize>::try_from(&s)?)` -/
  | kmerToSeq (bs : Bits) (K v : Nat) (r : Bits) :
      Reach p c bs → NoWrap p (K * c.width < W64) → Kmer.tryFrom p c K .usize bs = .ok v →
      Kmer.toSeq p c K v = .ok r → Reach p c r

theorem Reach.cast {p : Profile} {c : Codec} {a b : Bits} (h : Reach p c a) (e : a = b) : Reach p c b :=
  e ▸ h

/-! ### 2. the invariant -/

/-- packed form: a reachable value is the packing of a list of canonical symbol codes -/
theorem reach_good (p : Profile) (c : Codec) (wf : CodecWF c) (bs : Bits) (h : Reach p c bs) :
    Good c bs := by
  have hw := wf.width_pos
  induction h with
  | nil => exact good_nil c
  | parse bytes s h => exact good_parse c wf bytes s h
  | collect ss hs => exact good_collect c wf ss hs
  | trim v s h => exact good_trim c wf v s h
  | index bs f a b r _ g h ih => exact good_index p c hw bs ih f a b g r h
  | push bs s _ hs ih => exact good_push c wf bs ih s hs
  | extend bs ss _ hs ih => exact good_extend c wf bs ih ss hs
  | append bs t _ _ ih1 ih2 => exact good_append c bs t ih1 ih2
  | prepend bs t _ _ ih1 ih2 => exact good_append c t bs ih2 ih1
  | insert bs t i r _ _ g h ih1 ih2 => exact good_insert p c bs t ih1 ih2 i g r h
  | remove bs sb eb r _ g h ih => exact good_remove p c hw bs ih sb eb g r h
  | truncate bs n r _ g h ih => exact good_truncate p c bs ih n g r h
  | rev bs _ ih => exact good_rev c hw bs ih
  | comp bs r cw _ h ih => exact good_comp p c wf cw bs ih r h
  | revcomp bs r cw _ h ih => exact good_revcomp p c wf cw bs ih r h
  | mask bs r mw _ h ih => exact good_mask p c wf mw bs ih r h
  | unmask bs r mw _ h ih => exact good_unmask p c wf mw bs ih r h
  | bitAnd a b bc _ _ hl ih1 ih2 => exact good_bitAnd_le c hw bc a b ih1 ih2 hl
  | bitOr a b bc _ _ ih1 ih2 => exact good_bitOr_any c bc a b ih1 ih2
  | raw bs n r _ hn h ih => exact good_raw c wf bs ih n hn r h
  | kmerDeref bs K v _ g h ih => rw [good_kmerDeref p c hw bs ih K v g h]; exact ih
  | kmerToSeq bs K v r _ g h h2 ih =>
    rw [good_kmerToSeq p c wf bs ih K v g h] at h2
    injection h2 with h2
    rw [← h2]; exact ih

/-- **main theorem**: every reachable sequence is aligned and holds only canonical codes of
    listed symbols — for any well-formed codec, either build profile, any length -/
theorem reach_invariant (p : Profile) (c : Codec) (wf : CodecWF c) (bs : Bits) (h : Reach p c bs) :
    Aligned c bs ∧ Canon c (syms c.width bs) :=
  (good_iff c wf bs).mp (reach_good p c wf bs h)

theorem reach_aligned (p : Profile) (c : Codec) (wf : CodecWF c) (bs : Bits) (h : Reach p c bs) :
    Aligned c bs := (reach_invariant p c wf bs h).1

theorem reach_canon (p : Profile) (c : Codec) (wf : CodecWF c) (bs : Bits) (h : Reach p c bs) :
    Canon c (syms c.width bs) := (reach_invariant p c wf bs h).2

/-- converse: the invariant is not weaker than reachability — every aligned canonical bit
    string is what `collect` builds from its own symbols -/
theorem reach_of_invariant (p : Profile) (c : Codec) (wf : CodecWF c) (bs : Bits) (hal : Aligned c bs)
    (hc : Canon c (syms c.width bs)) : Reach p c bs := by
  have e : Seq.extend c [] (syms c.width bs) = bs := by
    have := extend_pack c wf.width_le [] (syms c.width bs)
    rw [pack_nil, List.nil_append] at this
    rw [this]; exact (eq_pack c wf.width_pos bs hal).symm
  exact (Reach.collect (syms c.width bs) hc).cast e

/-- the two hypotheses describe exactly the reachable sequences (strongest invariant) -/
theorem reach_iff (p : Profile) (c : Codec) (wf : CodecWF c) (bs : Bits) :
    Reach p c bs ↔ Aligned c bs ∧ Canon c (syms c.width bs) :=
  ⟨reach_invariant p c wf bs, fun h => reach_of_invariant p c wf bs h.1 h.2⟩

/-- symbol view: a reachable value is the packing of its own (canonical) symbols -/
theorem reach_eq_pack (p : Profile) (c : Codec) (wf : CodecWF c) (bs : Bits) (h : Reach p c bs) :
    bs = pack c.width (syms c.width bs) ∧ Canon c (syms c.width bs) ∧ Fits c.width (syms c.width bs) :=
  have hi := reach_invariant p c wf bs h
  ⟨eq_pack c wf.width_pos bs hi.1, hi.2, hi.2.fits wf⟩

/-! ### 3. corollaries: the hypotheses of earlier theorems are discharged on reachable values -/

/-- the operations whose constructors carry a success premise never fail on a reachable value
    (so those premises are satisfiable whenever the operation is available) -/
theorem reach_comp_ok (p : Profile) (c : Codec) (wf : CodecWF c) (cw : C07.CompWF c) (bs : Bits)
    (h : Reach p c bs) : ∃ r, Seq.comp p c bs = .ok r ∧ Reach p c r ∧
      syms c.width r = (syms c.width bs).map (C07.compSym c) := by
  obtain ⟨hal, hc⟩ := reach_invariant p c wf bs h
  obtain ⟨r, h1, _, _, h4, _⟩ := C07.comp_syms p c wf cw bs hal hc
  exact ⟨r, h1, Reach.comp bs r cw h h1, h4⟩

theorem reach_revcomp_ok (p : Profile) (c : Codec) (wf : CodecWF c) (cw : C07.CompWF c) (bs : Bits)
    (h : Reach p c bs) : ∃ r, Seq.revcomp p c bs = .ok r ∧ Reach p c r ∧
      syms c.width r = (syms c.width bs).reverse.map (C07.compSym c) := by
  obtain ⟨hal, hc⟩ := reach_invariant p c wf bs h
  obtain ⟨r, h1, _, _, _, h5⟩ := C07.revcomp_syms p c wf cw bs hal hc
  exact ⟨r, h1, Reach.revcomp bs r cw h h1, h5⟩

theorem reach_mask_ok (p : Profile) (c : Codec) (wf : CodecWF c) (mw : C20.MaskWF c) (bs : Bits)
    (h : Reach p c bs) : ∃ r, Seq.mask p c bs = .ok r ∧ Reach p c r ∧
      syms c.width r = (syms c.width bs).map (C20.maskSym c) := by
  obtain ⟨hal, hc⟩ := reach_invariant p c wf bs h
  obtain ⟨r, h1, _, _, _, _, h6, _⟩ := C20.mask_syms p c wf mw bs hal hc
  exact ⟨r, h1, Reach.mask bs r mw h h1, h6⟩

theorem reach_unmask_ok (p : Profile) (c : Codec) (wf : CodecWF c) (mw : C20.MaskWF c) (bs : Bits)
    (h : Reach p c bs) : ∃ r, Seq.unmask p c bs = .ok r ∧ Reach p c r ∧
      syms c.width r = (syms c.width bs).map (C20.unmaskSym c) := by
  obtain ⟨hal, hc⟩ := reach_invariant p c wf bs h
  obtain ⟨r, h1, _, _, _, _, h6, _⟩ := C20.unmask_syms p c wf mw bs hal hc
  exact ⟨r, h1, Reach.unmask bs r mw h h1, h6⟩

/-- C07: reversing a reachable sequence twice restores it -/
theorem reach_rev_rev (p : Profile) (c : Codec) (wf : CodecWF c) (bs : Bits) (h : Reach p c bs) :
    Seq.rev c (Seq.rev c bs) = bs :=
  C07.rev_rev c wf.width_pos bs (reach_aligned p c wf bs h)

/-- C07: complementing a reachable sequence twice restores it -/
theorem reach_comp_comp (p : Profile) (c : Codec) (wf : CodecWF c) (cw : C07.CompWF c)
    (ci : C07.CompInvol c) (bs : Bits) (h : Reach p c bs) :
    (Seq.comp p c bs).bind (Seq.comp p c) = .ok bs :=
  C07.comp_comp p c wf cw ci bs (reach_aligned p c wf bs h) (reach_canon p c wf bs h)

/-- C07: reverse-complementing a reachable sequence twice restores it, and both orders of
    composition agree -/
theorem reach_revcomp_revcomp (p : Profile) (c : Codec) (wf : CodecWF c) (cw : C07.CompWF c)
    (ci : C07.CompInvol c) (bs : Bits) (h : Reach p c bs) :
    (Seq.revcomp p c bs).bind (Seq.revcomp p c) = .ok bs ∧
    Seq.revcomp p c bs = Seq.comp p c (Seq.rev c bs) := by
  obtain ⟨hal, hc⟩ := reach_invariant p c wf bs h
  refine ⟨C07.revcomp_revcomp p c wf cw ci bs hal hc, ?_⟩
  obtain ⟨r, h1, h2, _⟩ := C07.revcomp_syms p c wf cw bs hal hc
  rw [h1, h2]

/-- C02: two reachable values are equal iff they hold the same symbols -/
theorem reach_eq_iff_content (p : Profile) (c : Codec) (wf : CodecWF c) (a b : Bits)
    (ha : Reach p c a) (hb : Reach p c b) :
    (a = b ↔ len c a = len c b ∧ syms c.width a = syms c.width b) ∧
    (a = b ↔ syms c.width a = syms c.width b) := by
  have h := C02.eq_iff_content c wf.width_pos a b (reach_aligned p c wf a ha) (reach_aligned p c wf b hb)
  refine ⟨h, ?_⟩
  constructor
  · rintro rfl; rfl
  · intro hs
    exact h.mpr ⟨by rw [C03.len_eq, C03.len_eq, hs], hs⟩

/-- C01: a reachable value displays without panicking, one character per symbol, and parsing
    the displayed text gives the value back (`bs.length < 2^64` holds of every real sequence:
    bit lengths are `usize`) -/
theorem reach_display_parse (p : Profile) (c : Codec) (wf : CodecWF c) (bs : Bits) (h : Reach p c bs)
    (hlen : bs.length < W64) :
    ∃ text, display p c bs = .ok text ∧ parseBytes c text = .ok bs ∧
      text = (syms c.width bs).map c.toChar ∧ text.length = len c bs := by
  obtain ⟨e, hc, _⟩ := reach_eq_pack p c wf bs h
  have hov : (syms c.width bs).length * c.width < W64 := by
    rw [e, pack_length, Nat.mul_comm] at hlen; exact hlen
  refine ⟨(syms c.width bs).map c.toChar, ?_, ?_, rfl, ?_⟩
  · conv => lhs; rw [e]
    unfold display
    rw [iterSyms_pack p c wf _ hc hov]
    rfl
  · conv => rhs; rw [e]
    exact C01.parse_display c wf _ hc
  · rw [List.length_map, C03.len_eq]

/-- hence reachable values are equal iff they display equally -/
theorem reach_eq_iff_display (p : Profile) (c : Codec) (wf : CodecWF c) (a b : Bits)
    (ha : Reach p c a) (hb : Reach p c b) (hla : a.length < W64) (hlb : b.length < W64) :
    a = b ↔ display p c a = display p c b := by
  constructor
  · rintro rfl; rfl
  · intro hd
    obtain ⟨ta, hda, hpa, _⟩ := reach_display_parse p c wf a ha hla
    obtain ⟨tb, hdb, hpb, _⟩ := reach_display_parse p c wf b hb hlb
    rw [hda, hdb] at hd
    injection hd with hd
    subst hd
    rw [hpa] at hpb
    injection hpb

/-- C20: when the codec's `unmask` undoes `mask` symbol-wise (masked DNA: `mdna_mask_invol`),
    unmasking a masked reachable sequence restores it -/
theorem reach_mask_unmask (p : Profile) (c : Codec) (wf : CodecWF c) (mw : C20.MaskWF c)
    (hinv : ∀ s ∈ c.items, (c.mask s).bind c.unmask = some s) (bs : Bits) (h : Reach p c bs) :
    (Seq.mask p c bs).bind (Seq.unmask p c) = .ok bs := by
  obtain ⟨e, hc, _⟩ := reach_eq_pack p c wf bs h
  have := C20.unmask_undoes_mask p c wf mw hinv _ hc
  rwa [← e] at this

/-- C20: when `unmask ∘ mask = unmask` symbol-wise (5-bit masked IUPAC: `miupac_unmask_mask`),
    the same holds of reachable sequences; and masking is idempotent when it is symbol-wise -/
theorem reach_mask_then_unmask (p : Profile) (c : Codec) (wf : CodecWF c) (mw : C20.MaskWF c)
    (habs : ∀ s ∈ c.items, (c.mask s).bind c.unmask = c.unmask s) (bs : Bits) (h : Reach p c bs) :
    (Seq.mask p c bs).bind (Seq.unmask p c) = Seq.unmask p c bs := by
  obtain ⟨e, hc, _⟩ := reach_eq_pack p c wf bs h
  have := C20.unmask_mask p c wf mw habs _ hc
  rwa [← e] at this

theorem reach_mask_mask (p : Profile) (c : Codec) (wf : CodecWF c) (mw : C20.MaskWF c)
    (hid : ∀ s ∈ c.items, (c.mask s).bind c.mask = c.mask s) (bs : Bits) (h : Reach p c bs) :
    (Seq.mask p c bs).bind (Seq.mask p c) = Seq.mask p c bs := by
  obtain ⟨e, hc, _⟩ := reach_eq_pack p c wf bs h
  have := C20.mask_mask p c wf mw hid _ hc
  rwa [← e] at this

/-- C03: slicing a reachable value in bounds returns a reachable value holding exactly the
    requested symbols (the `Aligned` hypothesis of `C03.index_range` discharged) -/
theorem reach_index_range (p : Profile) (c : Codec) (wf : CodecWF c) (bs : Bits) (h : Reach p c bs)
    (a b : Nat) (hab : a ≤ b) (hb : b ≤ len c bs) (hov : b * c.width < W64) :
    ∃ r, index p c bs .range a b = .ok r ∧ Reach p c r ∧
      syms c.width r = ((syms c.width bs).take b).drop a := by
  obtain ⟨r, h1, _, h3, _⟩ := C03.index_range p c wf.width_pos bs (reach_aligned p c wf bs h) a b hab hb hov
  have ha : a * c.width < W64 := Nat.lt_of_le_of_lt (Nat.mul_le_mul_right _ hab) hov
  exact ⟨r, h1, Reach.index bs .range a b r h (NoWrap.intro ⟨ha, hov⟩) h1, h3⟩

/-- C12: on a bit-closed codec `&` / `|` of equally long reachable values are reachable and act
    position-wise on the symbols -/
theorem reach_bitops (p : Profile) (c : Codec) (wf : CodecWF c) (bc : BitClosed c) (a b : Bits)
    (ha : Reach p c a) (hb : Reach p c b) (hl : len c a = len c b) :
    Reach p c (Seq.bitAnd a b) ∧ Reach p c (Seq.bitOr a b) ∧
    syms c.width (Seq.bitAnd a b) = List.zipWith (· &&& ·) (syms c.width a) (syms c.width b) ∧
    syms c.width (Seq.bitOr a b) = List.zipWith (· ||| ·) (syms c.width a) (syms c.width b) := by
  have haa := reach_aligned p c wf a ha
  have hab := reach_aligned p c wf b hb
  have hlen : a.length ≤ b.length := by
    rw [good_length c a (reach_good p c wf a ha), good_length c b (reach_good p c wf b hb), hl]
    exact Nat.le_refl _
  exact ⟨Reach.bitAnd a b bc ha hb hlen, Reach.bitOr a b bc ha hb,
    (C12.bitAnd_syms c wf.width_pos a b haa hab hl).2, (C12.bitOr_syms c wf.width_pos a b haa hab hl).2⟩

/-- C08: the k-mer of a reachable `K`-symbol sequence dereferences to, and converts back to,
    that very sequence (so the `kmerDeref` / `kmerToSeq` constructors add no new values: they are
    round trips); a successful `try_from` also tells `K = len` and `K * BITS ≤ 64` -/
theorem reach_kmer_roundtrip (p : Profile) (c : Codec) (wf : CodecWF c) (bs : Bits) (h : Reach p c bs)
    (K v : Nat) (g : NoWrap p (K * c.width < W64)) (hv : Kmer.tryFrom p c K .usize bs = .ok v) :
    Kmer.deref c K v = bs ∧ Kmer.toSeq p c K v = .ok bs ∧ len c bs = K ∧ K * c.width ≤ 64 ∧
      v = ofBitsLE bs := by
  have hg := reach_good p c wf bs h
  refine ⟨good_kmerDeref p c wf.width_pos bs hg K v g hv, good_kmerToSeq p c wf bs hg K v g hv, ?_⟩
  obtain ⟨cs, _, rfl⟩ := hg
  obtain ⟨h1, h2, h3⟩ := tryFrom_inv p c wf.width_pos K cs v g hv
  exact ⟨by rw [len_pack c wf.width_pos, h1], h2, h3⟩

/-- C04: `from_raw(len, into_raw())` rebuilds a reachable sequence (the `Aligned` hypothesis of
    `C04.fromRaw_intoRaw` discharged), and with fewer symbols it is `truncate` -/
theorem reach_raw_roundtrip (p : Profile) (c : Codec) (wf : CodecWF c) (bs : Bits) (h : Reach p c bs)
    (hlen : bs.length < W64) :
    Seq.fromRaw c (len c bs) (Seq.intoRaw bs) = some bs ∧
    ∀ n r, n ≤ len c bs → Seq.fromRaw c n (Seq.intoRaw bs) = some r → r = bs.take (n * c.width) :=
  ⟨C04.fromRaw_intoRaw c bs (reach_aligned p c wf bs h) hlen,
   fun n r hn hr => fromRaw_intoRaw_take c wf.width_pos bs (reach_aligned p c wf bs h) n hn r hr⟩

/-! ### 4. instances: the seven built-in codecs, both profiles -/

/-- the invariant holds of every reachable value of every built-in codec -/
theorem reach_invariant_builtin (c : Profile → Codec) (hc : c ∈ Gen.allCodecs) (p : Profile) (bs : Bits)
    (h : Reach p (c p) bs) : Aligned (c p) bs ∧ Canon (c p) (syms (c p).width bs) :=
  reach_invariant p (c p) (wf_all c hc p) bs h

theorem reach_iff_builtin (c : Profile → Codec) (hc : c ∈ Gen.allCodecs) (p : Profile) (bs : Bits) :
    Reach p (c p) bs ↔ Aligned (c p) bs ∧ Canon (c p) (syms (c p).width bs) :=
  reach_iff p (c p) (wf_all c hc p) bs

/-- the availability premises hold where the crate has the impls: complement for the five
    complementable codecs, masking for the two maskable ones -/
theorem comp_available : ∀ c ∈ Gen.compCodecs, ∀ p, C07.CompWF (c p) ∧ C07.CompInvol (c p) :=
  fun c hc p => (C07.builtin_instances c hc p).2

theorem mask_available : ∀ c ∈ Gen.maskCodecs, ∀ p, C20.MaskWF (c p) ∧ C07.CompWF (c p) :=
  fun c hc p => ⟨(C20.builtin_instances c hc p).2.1, (C20.builtin_instances c hc p).2.2.1⟩

/-- the codecs closed under the bit operations: every code of the width is a symbol
    (`FullCodec`, one linear walk over the codes) -/
theorem bitClosed_iupac (p : Profile) : BitClosed (Gen.iupac p) :=
  bitClosed_of_full _ (wf_iupac p) (by cases p <;> unfold FullCodec <;> decide +kernel)
theorem bitClosed_dna (p : Profile) : BitClosed (Gen.dna p) :=
  bitClosed_of_full _ (wf_dna p) (by cases p <;> unfold FullCodec <;> decide +kernel)
theorem bitClosed_miupac (p : Profile) : BitClosed (Gen.miupac p) :=
  bitClosed_of_full _ (wf_miupac p) (by cases p <;> unfold FullCodec <;> decide +kernel)
theorem bitClosed_deg (p : Profile) : BitClosed (Gen.deg p) :=
  bitClosed_of_full _ (wf_deg p) (by cases p <;> unfold FullCodec <;> decide +kernel)

/-- ... and the ones that are not (finding D11: the generic `&` / `|` impls exist for them too) -/
theorem not_bitClosed_amino (p : Profile) : ¬ BitClosed (Gen.amino p) := by cases p <;> decide +kernel
theorem not_bitClosed_mdna (p : Profile) : ¬ BitClosed (Gen.mdna p) := by cases p <;> decide +kernel
theorem not_bitClosed_text (p : Profile) : ¬ BitClosed (Gen.text p) := by cases p <;> decide +kernel

/-- corollaries instantiated: IUPAC sequences in either profile -/
theorem iupac_reach (p : Profile) (bs : Bits) (h : Reach p (Gen.iupac p) bs) :
    Seq.rev (Gen.iupac p) (Seq.rev (Gen.iupac p) bs) = bs ∧
    (Seq.comp p (Gen.iupac p) bs).bind (Seq.comp p (Gen.iupac p)) = .ok bs ∧
    (Seq.revcomp p (Gen.iupac p) bs).bind (Seq.revcomp p (Gen.iupac p)) = .ok bs :=
  ⟨reach_rev_rev p _ (wf_iupac p) bs h,
   reach_comp_comp p _ (wf_iupac p) (C07.compWF_iupac p) (C07.compInvol_iupac p) bs h,
   (reach_revcomp_revcomp p _ (wf_iupac p) (C07.compWF_iupac p) (C07.compInvol_iupac p) bs h).1⟩

/-- masked DNA: `unmask` restores a masked reachable sequence; masked IUPAC: `unmask ∘ mask = unmask` -/
theorem mdna_reach_mask_unmask (p : Profile) (bs : Bits) (h : Reach p (Gen.mdna p) bs) :
    (Seq.mask p (Gen.mdna p) bs).bind (Seq.unmask p (Gen.mdna p)) = .ok bs :=
  reach_mask_unmask p _ (wf_mdna p) (C20.maskWF_mdna p) (fun s hs => (C20.mdna_mask_invol p s hs).2.1) bs h

theorem miupac_reach_mask_unmask (p : Profile) (bs : Bits) (h : Reach p (Gen.miupac p) bs) :
    (Seq.mask p (Gen.miupac p) bs).bind (Seq.unmask p (Gen.miupac p)) = Seq.unmask p (Gen.miupac p) bs :=
  reach_mask_then_unmask p _ (wf_miupac p) (C20.maskWF_miupac p) (C20.miupac_unmask_mask p) bs h

/-! ### 5. non-vacuity: a concrete derivation through twelve different constructors -/
section example_chain

private abbrev ci : Codec := Gen.iupac .debug

/-- `"ACGTR"` parsed -/
theorem ex1 : Reach .debug ci (pack 4 [8, 4, 2, 1, 10]) :=
  Reach.parse [65, 67, 71, 84, 82] _ (by decide +kernel)
/-- push `N` -/
theorem ex2 : Reach .debug ci (pack 4 [8, 4, 2, 1, 10, 15]) :=
  (Reach.push _ 15 ex1 (by decide +kernel)).cast (by decide +kernel)
/-- reverse -/
theorem ex3 : Reach .debug ci (pack 4 [15, 10, 1, 2, 4, 8]) :=
  (Reach.rev _ ex2).cast (by decide +kernel)
/-- complement -/
theorem ex4 : Reach .debug ci (pack 4 [15, 5, 8, 4, 2, 1]) :=
  Reach.comp _ _ (C07.compWF_iupac .debug) ex3 (by decide +kernel)
/-- the slice `[1..=3]` -/
theorem ex5 : Reach .debug ci (pack 4 [5, 8, 4]) :=
  Reach.index _ .rangeIncl 1 3 _ ex4 NoWrap.debug (by decide +kernel)
/-- a collected sequence `A T G` -/
theorem ex6 : Reach .debug ci (pack 4 [8, 1, 2]) :=
  (Reach.collect [8, 1, 2] (by unfold Canon; decide +kernel)).cast (by decide +kernel)
/-- position-wise union `Y|A, A|T, C|G` = `H W S` -/
theorem ex7 : Reach .debug ci (pack 4 [13, 9, 6]) :=
  (Reach.bitOr _ _ (bitClosed_iupac .debug) ex5 ex6).cast (by decide +kernel)
/-- inserted at position 2 of the six-symbol sequence -/
theorem ex8 : Reach .debug ci (pack 4 [15, 5, 13, 9, 6, 8, 4, 2, 1]) :=
  Reach.insert _ _ 2 _ ex4 ex7 NoWrap.debug (by decide +kernel)
/-- `remove((Excluded(0), Included(2)))` -/
theorem ex9 : Reach .debug ci (pack 4 [15, 9, 6, 8, 4, 2, 1]) :=
  Reach.remove _ (.excl 0) (.incl 2) _ ex8 NoWrap.debug (by decide +kernel)
/-- `truncate(5)` -/
theorem ex10 : Reach .debug ci (pack 4 [15, 9, 6, 8, 4]) :=
  Reach.truncate _ 5 _ ex9 NoWrap.debug (by decide +kernel)
/-- through a 5-mer and back -/
theorem ex11 : Reach .debug ci (pack 4 [15, 9, 6, 8, 4]) :=
  (Reach.kmerDeref _ 5 (ofBitsLE (pack 4 [15, 9, 6, 8, 4])) ex10 NoWrap.debug (by decide +kernel)).cast
    (by decide +kernel)
/-- through the raw word image, keeping four symbols -/
theorem ex12 : Reach .debug ci (pack 4 [15, 9, 6, 8]) :=
  Reach.raw _ 4 _ ex11 (by decide +kernel) (by decide +kernel)

/-- the main theorem applied to the end of the chain (and evaluated independently) -/
example : Aligned ci (pack 4 [15, 9, 6, 8]) ∧ Canon ci (syms ci.width (pack 4 [15, 9, 6, 8])) :=
  reach_invariant .debug ci (wf_iupac .debug) _ ex12
example : syms ci.width (pack 4 [15, 9, 6, 8]) = [15, 9, 6, 8] := by decide +kernel

/-- the corollaries instantiated on values of the chain -/
example : Seq.rev ci (Seq.rev ci (pack 4 [15, 9, 6, 8])) = pack 4 [15, 9, 6, 8] :=
  reach_rev_rev .debug ci (wf_iupac .debug) _ ex12
example : (Seq.comp .debug ci (pack 4 [15, 9, 6, 8])).bind (Seq.comp .debug ci) = .ok (pack 4 [15, 9, 6, 8]) :=
  reach_comp_comp .debug ci (wf_iupac .debug) (C07.compWF_iupac .debug) (C07.compInvol_iupac .debug) _ ex12
example := reach_display_parse .debug ci (wf_iupac .debug) _ ex12 (by decide +kernel)
example : display .debug ci (pack 4 [15, 9, 6, 8]) = .ok [78, 87, 83, 65] ∧
    parseBytes ci [78, 87, 83, 65] = .ok (pack 4 [15, 9, 6, 8]) := by decide +kernel
example := reach_eq_iff_content .debug ci (wf_iupac .debug) _ _ ex7 ex12
example := reach_bitops .debug ci (wf_iupac .debug) (bitClosed_iupac .debug) _ _ ex5 ex6 (by decide +kernel)
example := reach_kmer_roundtrip .debug ci (wf_iupac .debug) _ ex10 5 _ NoWrap.debug
  (by decide +kernel : Kmer.tryFrom .debug ci 5 .usize (pack 4 [15, 9, 6, 8, 4]) = .ok (ofBitsLE (pack 4 [15, 9, 6, 8, 4])))

/-- the release-only guard is satisfiable on the same data: the slice step in a release build -/
example : Reach .release (Gen.iupac .release) (pack 4 [5, 8, 4]) :=
  Reach.index (pack 4 [15, 5, 8, 4, 2, 1]) .rangeIncl 1 3 _
    (Reach.parse [78, 89, 65, 67, 71, 84] _ (by decide +kernel))
    (NoWrap.intro (by unfold IdxGuard; decide +kernel)) (by decide +kernel)

/-- a masked-IUPAC chain (5-bit symbols): parse `"AcgT-"`, mask, reverse-complement -/
example : Reach .debug (Gen.miupac .debug) (pack 5 [4, 20, 12, 6, 5]) :=
  Reach.revcomp (pack 5 [20, 12, 6, 5, 4]) _ (C07.compWF_miupac .debug)
    (Reach.mask (pack 5 [16, 12, 6, 1, 0]) _ (C20.maskWF_miupac .debug)
      (Reach.parse [65, 99, 103, 84, 45] _ (by decide +kernel)) (by decide +kernel))
    (by decide +kernel)

end example_chain

/-! ### 6. the negative side (finding D11): what is NOT a constructor, and why -/

/-- the raw constructor breaks the invariant: `from_raw(1, &[46])` on amino acids succeeds and
    yields an aligned one-symbol sequence whose chunk `46 = 0b101110` is an `#[alt]` code, not
    the canonical code of any listed symbol — so the value is not reachable -/
theorem raw_breaks_invariant :
    Seq.fromRaw (Gen.amino .debug) 1 [46] = some (pack 6 [46]) ∧
    Aligned (Gen.amino .debug) (pack 6 [46]) ∧
    ¬ Canon (Gen.amino .debug) (syms (Gen.amino .debug).width (pack 6 [46])) ∧
    (Gen.amino .debug).unsafeFromBits 46 = some 14 ∧
    ∀ p, ¬ Reach p (Gen.amino .debug) (pack 6 [46]) := by
  have hn : ¬ Canon (Gen.amino .debug) (syms (Gen.amino .debug).width (pack 6 [46])) := by
    unfold Canon; decide +kernel
  refine ⟨by decide +kernel, aligned_pack (Gen.amino .debug) [46], hn, by decide +kernel, ?_⟩
  intro p h
  exact hn (reach_canon p _ (wf_amino .debug) _ h)

/-- the generic `|` on amino acids breaks it too: `"A" | "M"` (codes 6 and 44) is the same
    non-canonical chunk 46, although both operands are parser-built and equally long.  This is
    why the `bitAnd` / `bitOr` constructors carry `BitClosed` -/
theorem bitOr_breaks_invariant_amino :
    ∃ a b, Reach .debug (Gen.amino .debug) a ∧ Reach .debug (Gen.amino .debug) b ∧
      a.length = b.length ∧ Seq.bitOr a b = pack 6 [46] ∧
      ¬ Canon (Gen.amino .debug) (syms (Gen.amino .debug).width (Seq.bitOr a b)) ∧
      ¬ Reach .debug (Gen.amino .debug) (Seq.bitOr a b) := by
  have hn : ¬ Canon (Gen.amino .debug) (syms (Gen.amino .debug).width (Seq.bitOr (pack 6 [6]) (pack 6 [44]))) := by
    unfold Canon; decide +kernel
  refine ⟨pack 6 [6], pack 6 [44], Reach.parse [65] _ (by decide +kernel),
    Reach.parse [77] _ (by decide +kernel), by decide +kernel, by decide +kernel, hn, ?_⟩
  intro h
  exact hn (reach_canon .debug _ (wf_amino .debug) _ h)

/-- the consequence that makes this a defect rather than a curiosity: the non-canonical value
    decodes to residue 14 yet is unequal to the canonical one-symbol sequence of residue 14
    (C02 `eq_noncanonical_counterexample`), and `comp`-style normalising loops would change it -/
example : (Gen.amino .debug).unsafeFromBits 46 = (Gen.amino .debug).unsafeFromBits 14 ∧
    pack 6 [46] ≠ pack 6 [14] := by decide +kernel

/-- `&` with a longer left operand on a bit-closed codec in which code 0 is no symbol would also
    leave the invariant; on the four bit-closed built-in codecs code 0 is a symbol, so there the
    premise `a.length ≤ b.length` is only a simplification -/
example (p : Profile) : 0 ∈ (Gen.dna p).items ∧ 0 ∈ (Gen.iupac p).items ∧ 0 ∈ (Gen.miupac p).items ∧
    0 ∈ (Gen.deg p).items := by cases p <;> decide +kernel

/-- the release-only guard excludes real behaviour: in a release build `&s[a..]` with
    `a * 6` wrapping to 2 cuts a 6-bit sequence at an unaligned bit offset -/
example : Seq.index .release (Gen.amino .release) (pack 6 [6, 44]) .rangeFrom ((2 ^ 64 + 2) / 6) 0
      = .ok ((pack 6 [6, 44]).drop 2) ∧
    ¬ Aligned (Gen.amino .release) ((pack 6 [6, 44]).drop 2) ∧
    Seq.index .debug (Gen.amino .debug) (pack 6 [6, 44]) .rangeFrom ((2 ^ 64 + 2) / 6) 0 = .error .panic := by
  refine ⟨by decide +kernel, ?_, by decide +kernel⟩
  unfold Aligned; decide +kernel

end Invariants
end BioSeq
