/-
  C13 — standard DNA -> amino translation is the standard genetic code for every codon.

  * `Gen.toAmino_debug/release` is the graph of `STANDARD.to_amino` extracted from the compiled
    crate on this run: entry `v` is the amino code returned for the three-base codon whose
    packed value is `v = b0 + 4*b1 + 16*b2` (1003 = panic).
  * `Spec.aminoOf b0 b1 b2` is NCBI translation table 1 (written from the NCBI listing
    "FFLLSSSSYY**CC*W..." in T C A G order; `Spec/Alphabets.lean`), as a display character.
  * `Translation.toAmino` is the hand model of `to_amino` (assert len == 3, load the 6 bits
    as a `u8`, the amino codec's unchecked decoder), run with the extracted DNA / amino codec tables.

  Statements: (1) every entry of the extracted graph displays as the NCBI letter, none panics;
  (2) the model reproduces the graph on all 64 codons, hence displays the NCBI letter;
  (3) translating the slice `&s[i..i+3]` of any packed DNA sequence gives the amino of the
  three symbols `i, i+1, i+2` — the same result as translating those three symbols as a
  stand-alone codon — and therefore `windows(3)` / `chunks(3)` translate position by position;
  a slice of any other length panics.

  Remark on (3).  In the model a slice *is* its bit content (there is no head-offset field; the
  documented bitvec semantics of `&bits[s..e]` / `load_le` is assumed), so "independent of the
  offset" is carried by `index_range_pack`: the bits of `&s[i..i+3]` are the six bits of the
  three symbols, whatever `i` is.  The hypothesis `(i+3) * 2 < 2^64` (resp. `len * 2 < 2^64`)
  is the no-overflow guard of `index * BITS`, true of every sequence that fits in memory.
-/
import BioSeq.Props.C11
import BioSeq.Lemmas.TranslationLemmas
import BioSeq.Spec.Alphabets
import BioSeq.Generated.Translation
import BioSeq.Checks.WF
namespace BioSeq
namespace C13
open BioSeq.Seq BioSeq.TransL

/-- the extracted graph of `STANDARD.to_amino` in one build profile -/
def graph : Profile → List Nat
  | .debug => Gen.toAmino_debug
  | .release => Gen.toAmino_release

/-! ### 1. the extracted graph is NCBI table 1 -/

/-- packed codons `v` (with their entry) that panic or whose amino does not display as the NCBI letter -/
def graphFailures (p : Profile) : List (Nat × Nat) :=
  ((List.range 64).zip (graph p)).filter fun (v, a) =>
    !(a != 1003 && (Gen.amino p).items.contains a && (Gen.amino p).toChar a == Spec.aminoOfPacked v)

theorem graph_length (p : Profile) : (graph p).length = 64 := by
  cases p <;> decide +kernel

/-- **every codon**: walking the 64-entry graph, each entry is a listed amino symbol (no panic)
    whose display character is the NCBI table 1 letter of that codon -/
theorem to_amino_standard (p : Profile) : graphFailures p = [] := by
  cases p <;> decide +kernel

/-- the amino code returned for the codon with 2-bit DNA codes `b0 b1 b2` -/
def codonAmino (p : Profile) (b0 b1 b2 : Nat) : Nat := (graph p).getD (b0 + 4 * b1 + 16 * b2) 1003

/-- indexed form of `to_amino_standard` -/
theorem to_amino_standard_at (p : Profile) : ∀ v, v < 64 →
    (graph p).getD v 1003 ∈ (Gen.amino p).items ∧
    (Gen.amino p).toChar ((graph p).getD v 1003) = Spec.aminoOfPacked v := by
  cases p <;> decide +kernel

theorem codonAmino_standard (p : Profile) : ∀ b0, b0 < 4 → ∀ b1, b1 < 4 → ∀ b2, b2 < 4 →
    codonAmino p b0 b1 b2 ∈ (Gen.amino p).items ∧
    (Gen.amino p).toChar (codonAmino p b0 b1 b2) = Spec.aminoOf b0 b1 b2 := by
  cases p <;> decide +kernel

/-! ### 2. the model of `to_amino` reproduces the extracted graph -/

/-- the hand model, on all 64 codons, returns exactly the extracted entry -/
theorem to_amino_model_eq_graph (p : Profile) : ∀ b0, b0 < 4 → ∀ b1, b1 < 4 → ∀ b2, b2 < 4 →
    Translation.toAmino (Gen.dna p) (Gen.amino p) (pack 2 [b0, b1, b2]) = .ok (codonAmino p b0 b1 b2) := by
  cases p <;> decide +kernel

/-- the display character of a translation result -/
def letter (p : Profile) (r : Except Translation.TErr Nat) : Except Translation.TErr Nat :=
  r.map (Gen.amino p).toChar

/-- **the model translates every codon to its NCBI table 1 letter** -/
theorem to_amino_model_standard (p : Profile) (b0 b1 b2 : Nat) (h0 : b0 < 4) (h1 : b1 < 4) (h2 : b2 < 4) :
    letter p (Translation.toAmino (Gen.dna p) (Gen.amino p) (pack 2 [b0, b1, b2])) = .ok (Spec.aminoOf b0 b1 b2) := by
  rw [to_amino_model_eq_graph p b0 h0 b1 h1 b2 h2]
  show Except.ok ((Gen.amino p).toChar (codonAmino p b0 b1 b2)) = _
  rw [(codonAmino_standard p b0 h0 b1 h1 b2 h2).2]

/-- wrong length: `assert!(codon.len() == 3)` -/
theorem to_amino_wrong_length (dna amino : Codec) (codon : Bits) (h : len dna codon ≠ 3) :
    Translation.toAmino dna amino codon = .error .panic := by
  simp [Translation.toAmino, h]

theorem dna_width (p : Profile) : (Gen.dna p).width = 2 := by cases p <;> rfl

theorem to_amino_wrong_length_pack (p : Profile) (cs : List Nat) (h : cs.length ≠ 3) :
    Translation.toAmino (Gen.dna p) (Gen.amino p) (pack 2 cs) = .error .panic := by
  apply to_amino_wrong_length
  have := len_pack (Gen.dna p) (by rw [dna_width]; omega) cs
  rw [dna_width] at this
  rwa [this]

/-! ### 3. offset independence, windows, chunks -/

/-- `STANDARD.to_amino(&slice)` where taking the slice may itself have panicked -/
def translateSlice (p : Profile) : Res Bits → Except Translation.TErr Nat
  | .ok s => Translation.toAmino (Gen.dna p) (Gen.amino p) s
  | .error _ => .error .panic

/-- the slice `&s[i..i+3]` of a packed DNA sequence is the packed triple of symbols `i, i+1, i+2` -/
theorem slice_three (p : Profile) (cs : List Nat) (i : Nat) (hi : i + 3 ≤ cs.length) (hov : (i + 3) * 2 < W64) :
    index p (Gen.dna p) (pack 2 cs) .range i (i + 3) =
      .ok (pack 2 [cs.getD i 0, cs.getD (i + 1) 0, cs.getD (i + 2) 0]) := by
  have h := index_range_pack p (Gen.dna p) cs i (i + 3) (by omega) hi (by rw [dna_width]; exact hov)
  rw [dna_width] at h
  rw [h, take_drop_triple cs i hi]

/-- **offset independence**: translating the three-symbol slice at any position `i` of any DNA
    sequence gives the same result as translating its three symbols as a stand-alone codon -/
theorem to_amino_offset_independent (p : Profile) (cs : List Nat) (i : Nat)
    (hi : i + 3 ≤ cs.length) (hov : (i + 3) * 2 < W64) :
    translateSlice p (index p (Gen.dna p) (pack 2 cs) .range i (i + 3)) =
      Translation.toAmino (Gen.dna p) (Gen.amino p) (pack 2 [cs.getD i 0, cs.getD (i + 1) 0, cs.getD (i + 2) 0]) := by
  rw [slice_three p cs i hi hov]
  rfl

/-- **the codon at any position translates to its NCBI letter** -/
theorem to_amino_slice_standard (p : Profile) (cs : List Nat) (hf : Fits 2 cs) (i : Nat)
    (hi : i + 3 ≤ cs.length) (hov : (i + 3) * 2 < W64) :
    letter p (translateSlice p (index p (Gen.dna p) (pack 2 cs) .range i (i + 3))) =
      .ok (Spec.aminoOf (cs.getD i 0) (cs.getD (i + 1) 0) (cs.getD (i + 2) 0)) := by
  rw [to_amino_offset_independent p cs i hi hov]
  exact to_amino_model_standard p _ _ _ (getD_fits hf i (by omega)) (getD_fits hf (i + 1) (by omega))
    (getD_fits hf (i + 2) (by omega))

/-- a packed triple translates to its NCBI letter (helper for the iterator corollaries) -/
theorem translate_triple (p : Profile) (cs : List Nat) (hf : Fits 2 cs) (j : Nat) (hj : j + 3 ≤ cs.length) :
    letter p (translateSlice p (.ok (pack 2 ((cs.take (j + 3)).drop j)))) =
      .ok (Spec.aminoOf (cs.getD j 0) (cs.getD (j + 1) 0) (cs.getD (j + 2) 0)) := by
  rw [take_drop_triple cs j hj]
  exact to_amino_model_standard p _ _ _ (getD_fits hf j (by omega)) (getD_fits hf (j + 1) (by omega))
    (getD_fits hf (j + 2) (by omega))

/-- **windows**: `seq.windows(3).map(|c| STANDARD.to_amino(&c))` yields, for every position `j` with
    `j + 3 ≤ len`, the NCBI letter of the triplet starting at `j` (and nothing else) -/
theorem translate_windows (p : Profile) (cs : List Nat) (hf : Fits 2 cs) (hov : cs.length * 2 < W64) :
    (Iter.windows p (Gen.dna p) (pack 2 cs) 3).map (fun r => letter p (translateSlice p r)) =
      (List.range (cs.length + 1 - 3)).map
        (fun j => .ok (Spec.aminoOf (cs.getD j 0) (cs.getD (j + 1) 0) (cs.getD (j + 2) 0))) := by
  have h := C11.windows_spec p (Gen.dna p) (by rw [dna_width]; omega) cs (by rw [dna_width]; exact hov) 3
  rw [dna_width] at h
  rw [h, List.map_map]
  apply List.map_congr_left
  intro j hj
  have hj' : j + 3 ≤ cs.length := by have := List.mem_range.mp hj; omega
  exact translate_triple p cs hf j hj'

/-- **chunks**: `seq.chunks(3).map(|c| STANDARD.to_amino(c))` yields, for every `j < len / 3`,
    the NCBI letter of the triplet starting at `3 * j`; an incomplete tail is dropped -/
theorem translate_chunks (p : Profile) (cs : List Nat) (hf : Fits 2 cs) (hov : cs.length * 2 < W64) :
    (Iter.chunks p (Gen.dna p) (pack 2 cs) 3).map (fun r => letter p (translateSlice p r)) =
      (List.range (cs.length / 3)).map
        (fun j => .ok (Spec.aminoOf (cs.getD (j * 3) 0) (cs.getD (j * 3 + 1) 0) (cs.getD (j * 3 + 2) 0))) := by
  have h := C11.chunks_spec p (Gen.dna p) (by rw [dna_width]; omega) cs (by rw [dna_width]; exact hov) 3 (by omega)
  rw [dna_width] at h
  rw [h, List.map_map]
  apply List.map_congr_left
  intro j hj
  have hj' : j * 3 + 3 ≤ cs.length := by
    have := List.mem_range.mp hj
    have h2 := Nat.div_mul_le_self cs.length 3
    have : (j + 1) * 3 ≤ cs.length / 3 * 3 := Nat.mul_le_mul_right _ this
    omega
  exact translate_triple p cs hf (j * 3) hj'

/-- the window and chunk translations agree where they overlap: chunk `j` is window `3 * j` -/
theorem chunk_is_window (p : Profile) (cs : List Nat) (hf : Fits 2 cs) (hov : cs.length * 2 < W64) (j : Nat)
    (hj : j < cs.length / 3) :
    ((Iter.chunks p (Gen.dna p) (pack 2 cs) 3).map (fun r => letter p (translateSlice p r)))[j]? =
    ((Iter.windows p (Gen.dna p) (pack 2 cs) 3).map (fun r => letter p (translateSlice p r)))[j * 3]? := by
  have h2 := Nat.div_mul_le_self cs.length 3
  have h3 : (j + 1) * 3 ≤ cs.length / 3 * 3 := Nat.mul_le_mul_right _ hj
  rw [translate_windows p cs hf hov, translate_chunks p cs hf hov]
  rw [List.getElem?_map, List.getElem?_map, List.getElem?_range hj,
      List.getElem?_range (show j * 3 < cs.length + 1 - 3 by omega)]
  rfl

/-! ### 4. examples (A=0 C=1 G=2 T=3) -/

/-- ATG -> M, TGG -> W, TAA -> stop, GCA -> A -/
example : letter .debug (Translation.toAmino (Gen.dna .debug) (Gen.amino .debug) (pack 2 [0, 3, 2])) = .ok 'M'.toNat := by
  decide +kernel
example : letter .release (Translation.toAmino (Gen.dna .release) (Gen.amino .release) (pack 2 [3, 2, 2])) = .ok 'W'.toNat := by
  decide +kernel
example : letter .debug (Translation.toAmino (Gen.dna .debug) (Gen.amino .debug) (pack 2 [3, 0, 0])) = .ok '*'.toNat := by
  decide +kernel
example : Spec.aminoOf 2 1 0 = 'A'.toNat ∧ Spec.aminoOfPacked 44 = 'M'.toNat := by decide +kernel

/-- a codon of length 2 or 4 panics -/
example : Translation.toAmino (Gen.dna .debug) (Gen.amino .debug) (pack 2 [0, 3]) = .error .panic := by decide +kernel
example : Translation.toAmino (Gen.dna .release) (Gen.amino .release) (pack 2 [0, 3, 2, 2]) = .error .panic := by
  decide +kernel

/-- "GCATGC": windows give A (GCA), H (CAT), M (ATG), C (TGC); chunks give A, C -/
example : (Iter.windows .debug (Gen.dna .debug) (pack 2 [2, 1, 0, 3, 2, 1]) 3).map
    (fun r => letter .debug (translateSlice .debug r)) = [.ok 'A'.toNat, .ok 'H'.toNat, .ok 'M'.toNat, .ok 'C'.toNat] := by
  decide +kernel
example : (Iter.chunks .release (Gen.dna .release) (pack 2 [2, 1, 0, 3, 2, 1]) 3).map
    (fun r => letter .release (translateSlice .release r)) = [.ok 'A'.toNat, .ok 'C'.toNat] := by
  decide +kernel

/-- the hypotheses of the general theorems are satisfiable: instance of `translate_windows` -/
example : (Iter.windows .debug (Gen.dna .debug) (pack 2 [0, 3, 2, 2]) 3).map
    (fun r => letter .debug (translateSlice .debug r)) =
    (List.range 2).map (fun j => .ok (Spec.aminoOf ([0, 3, 2, 2].getD j 0) ([0, 3, 2, 2].getD (j + 1) 0) ([0, 3, 2, 2].getD (j + 2) 0))) :=
  translate_windows .debug [0, 3, 2, 2] (by unfold Fits; decide) (by decide)

end C13
end BioSeq
