/-
  Model of `SeqArray<A, N, W>` (bio-seq/src/seq/array.rs) and of
  `From<Vec<usize>> for Seq<text::Dna>` (bio-seq/src/codec/text.rs).

  ```rust
  pub struct SeqArray<A, const N: usize, const W: usize> {
      pub _p: PhantomData<A>,
      pub ba: BitArray<[usize; W]>,
  }
  impl Deref for SeqArray<A, N, W> { fn deref(&self) -> &SeqSlice<A> { &self.ba[..N * A::BITS] } }
  impl From<&SeqArray<A, N, W>> for Seq<B> { slice.iter().map(Into::into).collect() }
  impl From<SeqArray<A, N, W>>  for Seq<B> { slice.iter().map(Into::into).collect() }
  impl PartialEq<SeqArray<A, K, 1>> for Kmer<A, K, S>   // like `Kmer == SeqSlice` on the deref
  ```

  Both fields are public, so *any* `W` words with *any* `N` can be put together by hand: the
  model keeps the two as plain data and `deref` carries bitvec's range check.
-/
import BioSeq.Kmer
import BioSeq.Standard
namespace BioSeq

/-- a `SeqArray<A, N, W>`: the `W` storage words and the const parameter `N` -/
structure SeqArr where
  /-- `ba.into_inner()`: the `W` words of the bit array -/
  words : List Nat
  /-- the const generic `N` (number of symbols the type claims to hold) -/
  n : Nat
  deriving DecidableEq, Repr

namespace SeqArr

/-- `Deref`: `&self.ba[..N * A::BITS]` (bitvec panics when the range exceeds the `64·W` bits) -/
def deref (c : Codec) (a : SeqArr) : Res Bits :=
  bitRange (bitsOfWords a.words) 0 (a.n * c.width)

/-- the hand-built array with `W` words holding the raw image of `bs`, zero-padded; `N = len` -/
def ofBits (W : Nat) (c : Codec) (bs : Bits) : SeqArr :=
  { words := wordsOf W bs, n := Seq.len c bs }

/-- `Seq::<A>::from(&SeqArray<A,N,W>)` / `from(SeqArray<A,N,W>)` (same codec, `Into::into` is the
    identity): decode every symbol of the deref'd slice, collect -/
def toSeq (p : Profile) (c : Codec) (a : SeqArr) : Res Bits := do
  let bs ← a.deref c
  let ss ← Seq.iterSyms p c bs
  .ok (Seq.extend c [] ss)

/-- `Seq::<B>::from(&SeqArray<A,N,W>)` / `from(SeqArray<A,N,W>)` across codecs -/
def convert (p : Profile) (src dst : Codec) (table : List (Nat × Nat)) (a : SeqArr) : Res Bits := do
  let bs ← a.deref src
  Standard.convert p src dst table bs

/-- `Kmer<A,K,S> == SeqArray<A,K,1>`: `Kmer == SeqSlice` on the deref'd slice -/
def eqKmer (p : Profile) (c : Codec) (K : Nat) (st : Storage) (v : Nat) (a : SeqArr) : Res Bool := do
  let bs ← a.deref c
  Kmer.eqSlice p c K st v bs

end SeqArr

namespace Seq

/-- `From<Vec<usize>> for Seq<text::Dna>`: the words become the bit vector, whole
    (`BitVec::from_vec`), 8 symbols of 8 bits per word -/
def ofVecWords (ws : List Nat) : Bits := bitsOfWords (ws.map (· % 2^64))

end Seq
end BioSeq
