/-
  Codec model.  A symbol of a codec is represented by its canonical code
  (`to_bits()`, i.e. the enum discriminant / the byte of `text::Dna`).
  The function fields are instantiated from tables that are *extracted from the
  compiled crate on every run* (see `BioSeq/Generated/Tables.lean`).
-/
import BioSeq.Bits
namespace BioSeq

/-- build profile: `debug_assertions` + overflow checks on / off. -/
inductive Profile | debug | release
  deriving DecidableEq, Repr

/-- observable failure kinds (payload kept only where a property speaks about it). -/
inductive Err
  | unrecognisedBase (b : Nat)
  | mismatchedLength
  | sequenceTooLong
  | panic
  deriving DecidableEq, Repr

abbrev Res := Except Err

instance {α} [DecidableEq α] : DecidableEq (Res α)
  | .ok a, .ok b => if h : a = b then isTrue (by rw [h]) else isFalse (by intro h'; injection h'; contradiction)
  | .error a, .error b => if h : a = b then isTrue (by rw [h]) else isFalse (by intro h'; injection h'; contradiction)
  | .ok _, .error _ => isFalse (by intro h; cases h)
  | .error _, .ok _ => isFalse (by intro h; cases h)

/-- the tables of one codec *as compiled in one build profile*; a codec is a
    `Profile → Codec` (see `Generated/Tables.lean`). -/
structure Codec where
  name : String
  /-- `Codec::BITS` -/
  width : Nat
  /-- `items()` as canonical codes, in order -/
  items : List Nat
  /-- `try_from_bits(b).map(to_bits)` -/
  tryFromBits : Nat → Option Nat
  /-- `unsafe_from_bits(b).to_bits()`; `none` = panic -/
  unsafeFromBits : Nat → Option Nat
  /-- `try_from_ascii(c).map(to_bits)` -/
  tryFromAscii : Nat → Option Nat
  /-- `unsafe_from_ascii(c).to_bits()`; `none` = panic -/
  unsafeFromAscii : Nat → Option Nat
  /-- `to_char()` of the symbol with this canonical code, as a code point -/
  toChar : Nat → Nat
  /-- symbol-level `ComplementMut::comp` on canonical codes (`none` = panic or not complementable) -/
  comp : Nat → Option Nat
  /-- symbol-level `MaskableMut::mask` / `unmask` -/
  mask : Nat → Option Nat
  unmask : Nat → Option Nat

/-- table lookup used to turn extracted 256-entry graphs into functions. -/
def lookup (t : List (Option Nat)) (b : Nat) : Option Nat := (t.getD b none)

def lookupD (t : List Nat) (b : Nat) : Nat := t.getD b 0

def optToRes {α} : Option α → Res α
  | some a => .ok a
  | none => .error .panic

/-! ### `usize` arithmetic as compiled: overflow panics in debug, wraps in release -/

def W64 : Nat := 2^64

def umul (p : Profile) (a b : Nat) : Res Nat :=
  if a * b < W64 then .ok (a * b)
  else match p with
    | .debug => .error .panic
    | .release => .ok (a * b % W64)

def uadd (p : Profile) (a b : Nat) : Res Nat :=
  if a + b < W64 then .ok (a + b)
  else match p with
    | .debug => .error .panic
    | .release => .ok ((a + b) % W64)

theorem umul_ok (p : Profile) (a b : Nat) (h : a * b < W64) : umul p a b = .ok (a * b) := by
  simp [umul, h]

theorem uadd_ok (p : Profile) (a b : Nat) (h : a + b < W64) : uadd p a b = .ok (a + b) := by
  simp [uadd, h]

end BioSeq
