/-
  Model of the static literal pool used by the correspondence runs
  (`lit ID` tokens): filled in by the C16 machinery.
-/
import BioSeq.Seq
namespace BioSeq
namespace Misc

def lit (_name : String) (_id : Nat) : Option Bits := none

end Misc
end BioSeq
