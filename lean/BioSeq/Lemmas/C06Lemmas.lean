/-
  Helper lemmas for C06 (edits of an owned sequence refine list edits):
  each edit on a *packed* bit string, and the plain-list frame facts.
  (Helper lemmas only; the property theorems are in Props/C06.lean.)
-/
import BioSeq.Lemmas.SeqLemmas
namespace BioSeq
namespace C06L
open BioSeq.Seq

/-! ### resolved `RangeBounds` (the mathematical values `bit_range` computes) -/

/-- `start_bound()` resolved: `Included n ↦ n`, `Excluded n ↦ n+1`, `Unbounded ↦ 0` -/
def startOf : Bound → Nat
  | .incl a => a
  | .excl a => a + 1
  | .unb => 0

/-- `end_bound()` resolved: `Included n ↦ n+1`, `Excluded n ↦ n`, `Unbounded ↦ len` -/
def endOf (len : Nat) : Bound → Nat
  | .incl b => b + 1
  | .excl b => b
  | .unb => len

/-- `remove` once both `n + 1` of `bit_range` are known not to overflow -/
theorem remove_resolved (p : Profile) (c : Codec) (bs : Bits) (sb eb : Bound)
    (hs : startOf sb < W64) (he : endOf (len c bs) eb < W64) :
    remove p c bs sb eb =
      (if p = .debug ∧ ¬ (startOf sb ≤ endOf (len c bs) eb ∧ endOf (len c bs) eb ≤ len c bs) then .error .panic
       else (umul p (startOf sb) c.width).bind fun sbit =>
            (umul p (endOf (len c bs) eb) c.width).bind fun ebit =>
              if sbit ≤ ebit ∧ ebit ≤ bs.length then .ok (bs.take sbit ++ bs.drop ebit) else .error .panic) := by
  cases sb <;> cases eb <;> simp only [startOf, endOf] at hs he ⊢ <;>
    simp only [remove, bind, pure, Except.pure, Except.bind] <;>
    (try rw [uadd_ok p _ 1 hs]) <;> (try rw [uadd_ok p _ 1 he]) <;> rfl

theorem le_mul_width (n w : Nat) (hw : 1 ≤ w) : n ≤ n * w := Nat.le_mul_of_pos_right n hw

/-- in-bounds `remove` on a packed sequence -/
theorem remove_pack (p : Profile) (c : Codec) (hw : 1 ≤ c.width) (cs : List Nat) (sb eb : Bound)
    (h1 : startOf sb ≤ endOf cs.length eb) (h2 : endOf cs.length eb ≤ cs.length)
    (hov : endOf cs.length eb * c.width < W64) :
    remove p c (pack c.width cs) sb eb =
      .ok (pack c.width (cs.take (startOf sb) ++ cs.drop (endOf cs.length eb))) := by
  have hl := len_pack c hw cs
  have he : endOf cs.length eb < W64 := Nat.lt_of_le_of_lt (le_mul_width _ _ hw) hov
  have hs : startOf sb < W64 := Nat.lt_of_le_of_lt h1 he
  have hovs : startOf sb * c.width < W64 := Nat.lt_of_le_of_lt (Nat.mul_le_mul_right _ h1) hov
  rw [remove_resolved p c _ sb eb hs (by rw [hl]; exact he), hl]
  have hc : ¬ (p = .debug ∧ ¬ (startOf sb ≤ endOf cs.length eb ∧ endOf cs.length eb ≤ cs.length)) := by
    intro ⟨_, h⟩; exact h ⟨h1, h2⟩
  rw [if_neg hc, umul_ok p _ _ hovs, umul_ok p _ _ hov]
  simp only [Except.bind]
  have hb : startOf sb * c.width ≤ endOf cs.length eb * c.width ∧
      endOf cs.length eb * c.width ≤ (pack c.width cs).length := by
    refine ⟨Nat.mul_le_mul_right _ h1, ?_⟩
    rw [pack_length, Nat.mul_comm]; exact Nat.mul_le_mul_left _ h2
  rw [if_pos hb, Nat.mul_comm (startOf sb), Nat.mul_comm (endOf cs.length eb), take_pack, drop_pack, pack_append]

/-- out-of-bounds `remove` on an aligned sequence panics in both profiles -/
theorem remove_oob (p : Profile) (c : Codec) (hw : 1 ≤ c.width) (bs : Bits) (hal : c.width ∣ bs.length)
    (sb eb : Bound) (h : ¬ (startOf sb ≤ endOf (len c bs) eb ∧ endOf (len c bs) eb ≤ len c bs))
    (hovs : startOf sb * c.width < W64) (hove : endOf (len c bs) eb * c.width < W64) :
    remove p c bs sb eb = .error .panic := by
  have hs : startOf sb < W64 := Nat.lt_of_le_of_lt (le_mul_width _ _ hw) hovs
  have he : endOf (len c bs) eb < W64 := Nat.lt_of_le_of_lt (le_mul_width _ _ hw) hove
  rw [remove_resolved p c _ sb eb hs he]
  cases p with
  | debug => rw [if_pos ⟨rfl, h⟩]
  | release =>
    have hc : ¬ (Profile.release = .debug ∧
        ¬ (startOf sb ≤ endOf (len c bs) eb ∧ endOf (len c bs) eb ≤ len c bs)) := by
      intro ⟨h', _⟩; cases h'
    rw [if_neg hc, umul_ok _ _ _ hovs, umul_ok _ _ _ hove]
    simp only [Except.bind]
    have e : len c bs * c.width = bs.length := by unfold len; exact Nat.div_mul_cancel hal
    have hb : ¬ (startOf sb * c.width ≤ endOf (len c bs) eb * c.width ∧
        endOf (len c bs) eb * c.width ≤ bs.length) := by
      intro ⟨a, b⟩
      apply h
      refine ⟨Nat.le_of_mul_le_mul_right a (by omega), ?_⟩
      rw [← e] at b; exact Nat.le_of_mul_le_mul_right b (by omega)
    rw [if_neg hb]

/-- in-bounds `insert` on packed sequences -/
theorem insert_pack (p : Profile) (c : Codec) (hw : 1 ≤ c.width) (cs ts : List Nat) (i : Nat)
    (hi : i ≤ cs.length) (hov : i * c.width < W64) :
    insert p c (pack c.width cs) i (pack c.width ts) =
      .ok (pack c.width (cs.take i ++ ts ++ cs.drop i)) := by
  have hl := len_pack c hw cs
  have hk : c.width * i ≤ (pack c.width cs).length := by
    rw [pack_length]; exact Nat.mul_le_mul_left _ hi
  simp only [Seq.insert, hl, hi, if_true, umul_ok p i c.width hov, bind, Except.bind]
  rw [Nat.mul_comm i, bitRange_ok _ 0 _ (Nat.zero_le _) hk, bitRange_ok _ _ _ hk (Nat.le_refl _)]
  simp only [List.drop_zero, List.take_length, take_pack, drop_pack, pack_append]

/-- `insert` past the end panics (whatever the argument) -/
theorem insert_oob (p : Profile) (c : Codec) (bs : Bits) (i : Nat) (t : Bits) (hi : len c bs < i) :
    insert p c bs i t = .error .panic := by
  simp [Seq.insert, Nat.not_le.mpr hi]

/-- `truncate` on a packed sequence -/
theorem truncate_pack (p : Profile) (c : Codec) (cs : List Nat) (n : Nat) (hov : n * c.width < W64) :
    truncate p c (pack c.width cs) n = .ok (pack c.width (cs.take n)) := by
  simp only [truncate, umul_ok p n c.width hov, bind, Except.bind]
  rw [Nat.mul_comm, take_pack]

/-- `push` stores the low `width` bits of the byte -/
theorem push_pack_mod (c : Codec) (hw : c.width ≤ 8) (cs : List Nat) (s : Nat) :
    push c (pack c.width cs) s = pack c.width (cs ++ [s % 2 ^ c.width]) := by
  rw [push_pack c hw]
  simp only [pack_append, pack_cons, pack_nil, toBitsLE_mod]

/-! ### plain-list frame facts -/

theorem getElem?_insert_lt {α} (l t : List α) (i j : Nat) (hi : i ≤ l.length) (hj : j < i) :
    (l.take i ++ t ++ l.drop i)[j]? = l[j]? := by
  rw [List.append_assoc, List.getElem?_append_left (by rw [List.length_take]; omega),
    List.getElem?_take, if_pos hj]

theorem getElem?_insert_mid {α} (l t : List α) (i k : Nat) (hi : i ≤ l.length) (hk : k < t.length) :
    (l.take i ++ t ++ l.drop i)[i + k]? = t[k]? := by
  have hl : (l.take i).length = i := by rw [List.length_take]; omega
  rw [List.append_assoc, List.getElem?_append_right (by omega), hl,
    List.getElem?_append_left (by omega)]
  congr 1; omega

theorem getElem?_insert_ge {α} (l t : List α) (i j : Nat) (hi : i ≤ l.length) (hj : i ≤ j) :
    (l.take i ++ t ++ l.drop i)[j + t.length]? = l[j]? := by
  have hl : (l.take i).length = i := by rw [List.length_take]; omega
  rw [List.getElem?_append_right (by rw [List.length_append]; omega), List.length_append, hl,
    List.getElem?_drop]
  congr 1; omega

theorem getElem?_remove_lt {α} (l : List α) (s e j : Nat) (he : e ≤ l.length) (hse : s ≤ e) (hj : j < s) :
    (l.take s ++ l.drop e)[j]? = l[j]? := by
  rw [List.getElem?_append_left (by rw [List.length_take]; omega), List.getElem?_take, if_pos hj]

theorem getElem?_remove_ge {α} (l : List α) (s e j : Nat) (he : e ≤ l.length) (hse : s ≤ e) (hj : s ≤ j) :
    (l.take s ++ l.drop e)[j]? = l[j + (e - s)]? := by
  have hl : (l.take s).length = s := by rw [List.length_take]; omega
  rw [List.getElem?_append_right (by omega), hl, List.getElem?_drop]
  congr 1; omega

end C06L
end BioSeq
