/-
  Helper definitions and lemmas for C17 (the property theorems are in Props/C17.lean):
  the explicit form of what `Derive.parseVariants` produces, first-matching-arm lookup on
  arm lists with distinct patterns, the ceiling-log search `Derive.clog2`, and linear
  `zip`-against-`range` walks.
-/
import BioSeq.Derive
namespace BioSeq
namespace C17
open Derive
open Gen (EnumDecl VariantDecl)

/-! ### what a declaration says -/

/-- the discriminant of a variant (`0` if missing; well-formed declarations have one) -/
def discOf (v : VariantDecl) : Nat := v.disc.getD 0

/-- all bit patterns of the declaration: per variant its discriminant, then its `#[alt]`s -/
def patterns (vs : List VariantDecl) : List Nat := vs.flatMap fun v => discOf v :: v.alts

/-- the display bytes, in declaration order -/
def displays (vs : List VariantDecl) : List Nat := vs.map charRepr

/-- the largest discriminant -/
def maxDisc (vs : List VariantDecl) : Nat := (vs.map discOf).foldr max 0

def bitArms (vs : List VariantDecl) : List (Nat × Nat) :=
  vs.flatMap fun v => (discOf v, discOf v) :: v.alts.map fun a => (a, discOf v)

def charArms (vs : List VariantDecl) : List (Nat × Nat) := vs.map fun v => (charRepr v, discOf v)

def toChars (vs : List VariantDecl) : List (Nat × Nat) := vs.map fun v => (discOf v, charRepr v)

def parsedOf (vs : List VariantDecl) : Parsed :=
  { idents := vs.map (·.ident)
    bitArms := bitArms vs
    charArms := charArms vs
    toChars := toChars vs
    discs := vs.map discOf
    maxDisc := maxDisc vs }

/-- every variant carries an integer discriminant that fits `u8` -/
def GoodDiscs (vs : List VariantDecl) : Prop := ∀ v ∈ vs, ∃ x, v.disc = some x ∧ x ≤ 255

theorem parseVariants_ok (vs : List VariantDecl) (h : GoodDiscs vs) :
    parseVariants vs = .ok (parsedOf vs) := by
  induction vs with
  | nil => rfl
  | cons v vs ih =>
    obtain ⟨x, hx, hle⟩ := h v (by simp)
    have ih' := ih (fun u hu => h u (by simp [hu]))
    have hd : discOf v = x := by simp [discOf, hx]
    rw [parseVariants]
    simp only [hx, ih', show ¬ x > 255 by omega, if_false]
    simp [parsedOf, bitArms, charArms, toChars, maxDisc, hd]

theorem parseVariants_missing (pre : List VariantDecl) (v : VariantDecl) (post : List VariantDecl)
    (hpre : GoodDiscs pre) (hv : v.disc = none) :
    parseVariants (pre ++ v :: post) = .error (.missingDiscriminant v.ident) := by
  induction pre with
  | nil => rw [List.nil_append, parseVariants]; simp only [hv]
  | cons u us ih =>
    obtain ⟨x, hx, hle⟩ := hpre u (by simp)
    have ih' := ih (fun w hw => hpre w (by simp [hw]))
    rw [List.cons_append, parseVariants]
    simp only [hx, ih', show ¬ x > 255 by omega, if_false]

theorem parseVariants_overflow (pre : List VariantDecl) (v : VariantDecl) (post : List VariantDecl)
    (hpre : GoodDiscs pre) (x : Nat) (hv : v.disc = some x) (hx : 255 < x) :
    parseVariants (pre ++ v :: post) = .error .panic := by
  induction pre with
  | nil => rw [List.nil_append, parseVariants]; simp only [hv, show x > 255 from hx, if_true]
  | cons u us ih =>
    obtain ⟨y, hy, hle⟩ := hpre u (by simp)
    have ih' := ih (fun w hw => hpre w (by simp [hw]))
    rw [List.cons_append, parseVariants]
    simp only [hy, ih', show ¬ y > 255 by omega, if_false]

/-! ### arms -/

theorem bitArms_keys (vs : List VariantDecl) : (bitArms vs).map (·.1) = patterns vs := by
  induction vs with
  | nil => rfl
  | cons v vs ih =>
    simp only [bitArms, patterns, List.flatMap_cons, List.map_append, List.map_cons, List.map_map] at ih ⊢
    rw [ih]
    congr 2
    induction v.alts with
    | nil => rfl
    | cons a as iha => simpa using iha

theorem charArms_keys (vs : List VariantDecl) : (charArms vs).map (·.1) = displays vs := by
  simp [charArms, displays, List.map_map]

theorem toChars_keys (vs : List VariantDecl) : (toChars vs).map (·.1) = vs.map discOf := by
  simp [toChars, List.map_map]

theorem mem_bitArms {vs : List VariantDecl} {b x : Nat} :
    (b, x) ∈ bitArms vs ↔ ∃ v ∈ vs, x = discOf v ∧ (b = discOf v ∨ b ∈ v.alts) := by
  simp only [bitArms, List.mem_flatMap, List.mem_cons, List.mem_map, Prod.mk.injEq]
  constructor
  · rintro ⟨v, hv, h | ⟨a, ha, rfl, rfl⟩⟩
    · exact ⟨v, hv, h.2, Or.inl h.1⟩
    · exact ⟨v, hv, rfl, Or.inr ha⟩
  · rintro ⟨v, hv, rfl, h | h⟩
    · exact ⟨v, hv, Or.inl ⟨h, rfl⟩⟩
    · exact ⟨v, hv, Or.inr ⟨b, h, rfl, rfl⟩⟩

theorem mem_charArms {vs : List VariantDecl} {b x : Nat} :
    (b, x) ∈ charArms vs ↔ ∃ v ∈ vs, x = discOf v ∧ b = charRepr v := by
  simp only [charArms, List.mem_map, Prod.mk.injEq]
  constructor
  · rintro ⟨v, hv, rfl, rfl⟩; exact ⟨v, hv, rfl, rfl⟩
  · rintro ⟨v, hv, rfl, rfl⟩; exact ⟨v, hv, rfl, rfl⟩

theorem mem_toChars {vs : List VariantDecl} {v : VariantDecl} (hv : v ∈ vs) :
    (discOf v, charRepr v) ∈ toChars vs := by
  simp only [toChars, List.mem_map]
  exact ⟨v, hv, rfl⟩

theorem discs_sublist_patterns (vs : List VariantDecl) : (vs.map discOf).Sublist (patterns vs) := by
  induction vs with
  | nil => exact List.Sublist.slnil
  | cons v vs ih =>
    simp only [patterns, List.flatMap_cons, List.map_cons, List.cons_append] at ih ⊢
    exact List.Sublist.cons_cons _ (ih.trans (List.sublist_append_right _ _))

theorem discOf_mem_patterns {vs : List VariantDecl} {v : VariantDecl} (hv : v ∈ vs) :
    discOf v ∈ patterns vs := by
  simp only [patterns, List.mem_flatMap]
  exact ⟨v, hv, by simp⟩

theorem alt_mem_patterns {vs : List VariantDecl} {v : VariantDecl} (hv : v ∈ vs) {a : Nat} (ha : a ∈ v.alts) :
    a ∈ patterns vs := by
  simp only [patterns, List.mem_flatMap]
  exact ⟨v, hv, by simp [ha]⟩

theorem charRepr_lt (v : VariantDecl) : charRepr v < 256 := by
  unfold charRepr
  cases v.display with
  | none => exact Nat.mod_lt _ (by decide)
  | some c => exact Nat.mod_lt _ (by decide)

/-! ### first matching arm -/

theorem firstArm_mem {arms : List (Nat × Nat)} {x y : Nat} (h : firstArm arms x = some y) : (x, y) ∈ arms := by
  unfold firstArm at h
  cases hf : arms.find? (fun a => a.1 == x) with
  | none => simp [hf] at h
  | some a =>
    rw [hf] at h
    have h1 := List.find?_some hf
    have h2 := List.mem_of_find?_eq_some hf
    obtain ⟨a1, a2⟩ := a
    simp only [beq_iff_eq] at h1
    simp only [Option.map_some, Option.some.injEq] at h
    subst h1; subst h
    exact h2

theorem firstArm_of_nodup {arms : List (Nat × Nat)} (hn : (arms.map (·.1)).Nodup) {x y : Nat}
    (hm : (x, y) ∈ arms) : firstArm arms x = some y := by
  induction arms with
  | nil => cases hm
  | cons a as ih =>
    simp only [List.map_cons, List.nodup_cons] at hn
    unfold firstArm
    simp only [List.find?_cons]
    rcases List.mem_cons.mp hm with rfl | hm'
    · simp
    · have hne : (a.1 == x) = false := by
        apply beq_false_of_ne
        intro e
        apply hn.1
        rw [e]
        exact List.mem_map.mpr ⟨(x, y), hm', rfl⟩
      rw [hne]
      exact ih hn.2 hm'

/-- with distinct patterns the generated `match` is exactly the relation listed by its arms -/
theorem firstArm_iff {arms : List (Nat × Nat)} (hn : (arms.map (·.1)).Nodup) (x y : Nat) :
    firstArm arms x = some y ↔ (x, y) ∈ arms :=
  ⟨firstArm_mem, firstArm_of_nodup hn⟩

/-! ### the largest discriminant -/

theorem le_maxDisc {vs : List VariantDecl} {v : VariantDecl} (hv : v ∈ vs) : discOf v ≤ maxDisc vs := by
  induction vs with
  | nil => cases hv
  | cons u us ih =>
    simp only [maxDisc, List.map_cons, List.foldr_cons] at ih ⊢
    rcases List.mem_cons.mp hv with rfl | h
    · exact Nat.le_max_left _ _
    · exact Nat.le_trans (ih h) (Nat.le_max_right _ _)

theorem maxDisc_le (vs : List VariantDecl) (n : Nat) (h : ∀ v ∈ vs, discOf v ≤ n) : maxDisc vs ≤ n := by
  induction vs with
  | nil => exact Nat.zero_le _
  | cons u us ih =>
    simp only [maxDisc, List.map_cons, List.foldr_cons] at ih ⊢
    exact Nat.max_le.mpr ⟨h u (by simp), ih (fun v hv => h v (by simp [hv]))⟩

/-- the maximum is attained (by some variant) when there is a variant -/
theorem maxDisc_attained (vs : List VariantDecl) (h : vs ≠ []) : ∃ v ∈ vs, discOf v = maxDisc vs := by
  induction vs with
  | nil => exact absurd rfl h
  | cons u us ih =>
    simp only [maxDisc, List.map_cons, List.foldr_cons] at ih ⊢
    cases us with
    | nil => exact ⟨u, by simp, by simp⟩
    | cons w ws =>
      obtain ⟨v, hv, he⟩ := ih (by simp)
      by_cases hc : discOf u ≤ List.foldr max 0 (List.map discOf (w :: ws))
      · exact ⟨v, by simp [hv], by rw [he]; exact (Nat.max_eq_right hc).symm⟩
      · exact ⟨u, by simp, (Nat.max_eq_left (by omega)).symm⟩

theorem GoodDiscs.discOf_le {vs : List VariantDecl} (h : GoodDiscs vs) {v : VariantDecl} (hv : v ∈ vs) :
    discOf v ≤ 255 := by
  obtain ⟨x, hx, hle⟩ := h v hv
  simp [discOf, hx, hle]

theorem maxDisc_pos_of_two (vs : List VariantDecl) (hn : (vs.map discOf).Nodup) (hl : 2 ≤ vs.length) :
    1 ≤ maxDisc vs := by
  match vs, hl with
  | a :: b :: rest, _ =>
    have ha : discOf a ≤ maxDisc (a :: b :: rest) := le_maxDisc (by simp)
    have hb : discOf b ≤ maxDisc (a :: b :: rest) := le_maxDisc (by simp)
    simp only [List.map_cons, List.nodup_cons, List.mem_cons, not_or] at hn
    have := hn.1.1
    omega

/-! ### `clog2` -/

theorem clog2Go_spec (n fuel k : Nat) (hub : n ≤ 2 ^ (k + fuel)) (hlow : k = 0 ∨ 2 ^ (k - 1) < n) :
    n ≤ 2 ^ (clog2Go n fuel k) ∧ (clog2Go n fuel k = 0 ∨ 2 ^ (clog2Go n fuel k - 1) < n) := by
  induction fuel generalizing k with
  | zero => exact ⟨by simpa [clog2Go] using hub, by simpa [clog2Go] using hlow⟩
  | succ f ih =>
    unfold clog2Go
    by_cases h : n ≤ 2 ^ k
    · rw [if_pos h]; exact ⟨h, hlow⟩
    · rw [if_neg h]
      apply ih (k + 1)
      · rw [show k + 1 + f = k + (f + 1) by omega]; exact hub
      · right; simp only [Nat.add_sub_cancel]; omega

/-! ### linear walks -/

theorem zip_range_mem {α} (d : α) (l : List α) (n i : Nat) (hn : l.length = n) (h : i < n) :
    (i, l.getD i d) ∈ (List.range n).zip l := by
  subst hn
  rw [List.mem_iff_getElem]
  refine ⟨i, by simpa using h, ?_⟩
  simp [List.getD, h]

/-! ### evaluating a list of arms once

The kernel evaluator does not share the value of a subterm between uses; matching on the
numbers first hands the continuation a list of literals. -/

def forceNat {α} (n : Nat) (k : Nat → α) : α :=
  match n with
  | 0 => k 0
  | m + 1 => k (m + 1)

def forceArms {α} : List (Nat × Nat) → (List (Nat × Nat) → α) → α
  | [], k => k []
  | (a, b) :: rest, k => forceNat a fun a1 => forceNat b fun b1 => forceArms rest fun rest1 => k ((a1, b1) :: rest1)

theorem forceNat_eq {α} (n : Nat) (k : Nat → α) : forceNat n k = k n := by
  cases n <;> rfl

theorem forceArms_eq {α} (l : List (Nat × Nat)) (k : List (Nat × Nat) → α) : forceArms l k = k l := by
  induction l generalizing k with
  | nil => rfl
  | cons ab rest ih =>
    obtain ⟨a, b⟩ := ab
    simp only [forceArms, forceNat_eq, ih]

end C17
end BioSeq
