/-
  Glue lemmas on lists for Props/Composed.lean.
  (Helper lemmas only; the property theorems are in Props/Composed.lean.)
-/
import BioSeq.Props.C08
import BioSeq.Props.C09
import BioSeq.Props.C10
import BioSeq.Props.C12
import BioSeq.Props.C13
import BioSeq.Props.C19
namespace BioSeq
namespace ComposedL

/-- keeping the `ok` values of a list of `ok`s -/
theorem filterMap_some_comp {α β} (l : List α) (g : α → β) :
    l.filterMap ((fun r : Res β => match r with
      | .ok v => some v
      | .error _ => none) ∘ fun i => (.ok (g i) : Res β)) = l.map g := by
  induction l with
  | nil => rfl
  | cons x xs ih => simp [List.filterMap_cons, ih]

/-- the `i`-th width-`K` window of a reversed list is the reverse of the mirrored window -/
theorem window_reverse {α} (l : List α) (K i : Nat) (h : i + K ≤ l.length) :
    (l.reverse.take (i + K)).drop i = ((l.take (l.length - K - i + K)).drop (l.length - K - i)).reverse := by
  rw [take_drop_window, take_drop_window, List.drop_reverse, List.take_reverse, List.length_take]
  congr 1
  have e1 : min (l.length - i) l.length - K = l.length - K - i := by omega
  rw [e1]
  rw [List.drop_take]
  have e2 : l.length - i - (l.length - K - i) = K := by omega
  rw [e2]

/-- a list indexed from the far end is the reversed list -/
theorem map_range_mirror {β} (m : Nat) (g : Nat → β) :
    (List.range m).map (fun i => g (m - 1 - i)) = ((List.range m).map g).reverse := by
  apply List.ext_getElem
  · simp
  · intro i h1 h2
    simp only [List.length_map, List.length_range] at h1
    simp only [List.getElem_map, List.getElem_range, List.getElem_reverse, List.length_map,
      List.length_range]

end ComposedL
end BioSeq
