/-
  Helper lemmas for C09 (k-mer operations agree with the operation on the symbol list).
  Bit-level padding facts, base-`2^w` digits, the `REV_2BIT` table fact, xor with an
  all-ones mask.  (Helper lemmas only; the property theorems are in Props/C09.lean.)
-/
import BioSeq.Kmer
import BioSeq.Lemmas.SeqLemmas
namespace BioSeq
namespace C09L
open BioSeq.Seq BioSeq.Kmer

/-! ### zero padding of little-endian views -/

theorem toBitsLE_zero (n : Nat) : toBitsLE n 0 = List.replicate n false := by
  induction n with
  | zero => rfl
  | succ n ih => simp [toBitsLE, ih, List.replicate_succ]

theorem ofBitsLE_replicate_false (n : Nat) : ofBitsLE (List.replicate n false) = 0 := by
  induction n with
  | zero => rfl
  | succ n ih => simp [List.replicate_succ, ofBitsLE, ih]

theorem ofBitsLE_append_zeros (bs : Bits) (n : Nat) :
    ofBitsLE (bs ++ List.replicate n false) = ofBitsLE bs := by
  rw [ofBitsLE_append, ofBitsLE_replicate_false]; simp

theorem toBitsLE_add (a b v : Nat) : toBitsLE (a + b) v = toBitsLE a v ++ toBitsLE b (v / 2 ^ a) := by
  induction a generalizing v with
  | zero => simp [toBitsLE]
  | succ a ih =>
    have e : a + 1 + b = (a + b) + 1 := by omega
    rw [e]
    simp only [toBitsLE, List.cons_append]
    rw [ih (v / 2)]
    have : v / 2 / 2 ^ a = v / 2 ^ (a + 1) := by
      rw [Nat.div_div_eq_div_mul, Nat.pow_succ, Nat.mul_comm]
    rw [this]

/-- a value below `2^a` viewed on `a + b` bits is its `a`-bit view followed by zeros -/
theorem toBitsLE_of_lt (a b v : Nat) (h : v < 2 ^ a) :
    toBitsLE (a + b) v = toBitsLE a v ++ List.replicate b false := by
  rw [toBitsLE_add, Nat.div_eq_of_lt h, toBitsLE_zero]

/-- the wide view of the value of a short bit string is that string followed by zeros -/
theorem toBitsLE_ofBitsLE_pad (n : Nat) (bs : Bits) (h : bs.length ≤ n) :
    toBitsLE n (ofBitsLE bs) = bs ++ List.replicate (n - bs.length) false := by
  have e : n = bs.length + (n - bs.length) := by omega
  conv => lhs; rw [e]
  rw [toBitsLE_of_lt _ _ _ (ofBitsLE_lt bs), toBitsLE_ofBitsLE]

theorem loadLE_ok (m : Nat) (bs : Bits) (h1 : 1 ≤ bs.length) (h2 : bs.length ≤ m) :
    loadLE m bs = .ok (ofBitsLE bs) := by
  simp [loadLE, h1, h2]

theorem fromBitslice_ok (st : Storage) (bs : Bits) (h1 : 1 ≤ bs.length) (h2 : bs.length ≤ st.bits) :
    fromBitslice st bs = .ok (ofBitsLE bs) := loadLE_ok _ _ h1 h2

/-! ### base-`2^w` digits (adapted from spikes/lean/RevBlocks.lean) -/

theorem digits_length (w n x : Nat) : (digits w n x).length = n := by
  induction n generalizing x <;> simp [digits, *]

theorem ofDigits_digits (w n x : Nat) (h : x < 2 ^ (w * n)) : ofDigits w (digits w n x) = x := by
  induction n generalizing x with
  | zero => simp [digits, ofDigits] at *; omega
  | succ n ih =>
    have h2 : x / 2 ^ w < 2 ^ (w * n) := by
      rw [Nat.mul_succ, Nat.pow_add] at h
      exact Nat.div_lt_of_lt_mul (by rw [Nat.mul_comm]; exact h)
    simp only [digits, ofDigits, ih _ h2]
    exact Nat.mod_add_div x (2 ^ w)

theorem digits_lt (w n x : Nat) : Fits w (digits w n x) := by
  induction n generalizing x with
  | zero => intro d hd; simp [digits] at hd
  | succ n ih =>
    intro d hd
    simp only [digits, List.mem_cons] at hd
    rcases hd with rfl | hd
    · exact Nat.mod_lt _ (Nat.two_pow_pos w)
    · exact ih _ d hd

theorem digits_ofDigits (w : Nat) (ds : List Nat) (h : Fits w ds) :
    digits w ds.length (ofDigits w ds) = ds := by
  induction ds with
  | nil => rfl
  | cons d ds ih =>
    have hd : d < 2 ^ w := h d (by simp)
    have ih' := ih (fun x hx => h x (by simp [hx]))
    simp only [List.length_cons, digits, ofDigits]
    have h1 : (d + 2 ^ w * ofDigits w ds) % 2 ^ w = d := by
      rw [Nat.add_mul_mod_self_left, Nat.mod_eq_of_lt hd]
    have h2 : (d + 2 ^ w * ofDigits w ds) / 2 ^ w = ofDigits w ds := by
      rw [Nat.add_mul_div_left _ _ (Nat.two_pow_pos w), Nat.div_eq_of_lt hd, Nat.zero_add]
    rw [h1, h2, ih']

theorem ofDigits_lt (w : Nat) (ds : List Nat) (h : Fits w ds) : ofDigits w ds < 2 ^ (w * ds.length) := by
  induction ds with
  | nil => simp [ofDigits]
  | cons d ds ih =>
    have hd : d < 2 ^ w := h d (by simp)
    have ih' := ih (fun x hx => h x (by simp [hx]))
    simp only [List.length_cons, ofDigits, Nat.mul_succ, Nat.pow_add]
    have : 2 ^ w * (ofDigits w ds + 1) ≤ 2 ^ w * 2 ^ (w * ds.length) := Nat.mul_le_mul_left _ ih'
    rw [Nat.mul_add, Nat.mul_one] at this
    rw [Nat.mul_comm (2 ^ (w * ds.length))]
    omega

theorem ofDigits_append (w : Nat) (a b : List Nat) :
    ofDigits w (a ++ b) = ofDigits w a + 2 ^ (w * a.length) * ofDigits w b := by
  induction a with
  | nil => simp [ofDigits]
  | cons x a ih =>
    simp only [List.cons_append, ofDigits, ih, List.length_cons, Nat.mul_succ, Nat.pow_add]
    rw [Nat.mul_add, ← Nat.mul_assoc, Nat.mul_comm (2 ^ w) (2 ^ (w * a.length))]
    omega

theorem ofDigits_replicate_zero (w n : Nat) : ofDigits w (List.replicate n 0) = 0 := by
  induction n with
  | zero => rfl
  | succ n ih => simp [List.replicate_succ, ofDigits, ih]

theorem fits_replicate_zero (w n : Nat) : Fits w (List.replicate n 0) := by
  intro c hc
  rw [List.mem_replicate] at hc
  rw [hc.2]; exact Nat.two_pow_pos w

/-- the value of a packing of in-range codes, as base-`2^w` digits -/
theorem ofBitsLE_pack (w : Nat) (cs : List Nat) (h : Fits w cs) :
    ofBitsLE (pack w cs) = ofDigits w cs := by
  induction cs with
  | nil => rfl
  | cons c cs ih =>
    have hc : c < 2 ^ w := h c (by simp)
    have ih' := ih (fun x hx => h x (by simp [hx]))
    rw [pack_cons, ofBitsLE_append, length_toBitsLE, ofBitsLE_toBitsLE w c hc, ih']
    rfl

/-- digits of width 2 grouped by bytes -/
theorem digits_group (m x : Nat) :
    digits 2 (4 * m) x = (digits 8 m x).flatMap (digits 2 4) := by
  induction m generalizing x with
  | zero => rfl
  | succ m ih =>
    have e : 4 * (m + 1) = (4 * m) + 1 + 1 + 1 + 1 := by omega
    rw [e]
    simp only [digits, List.flatMap_cons, List.cons_append, List.nil_append]
    have h1 : x % 2 ^ 8 % 2 ^ 2 = x % 2 ^ 2 := by omega
    have h2 : x % 2 ^ 8 / 2 ^ 2 % 2 ^ 2 = x / 2 ^ 2 % 2 ^ 2 := by omega
    have h3 : x % 2 ^ 8 / 2 ^ 2 / 2 ^ 2 % 2 ^ 2 = x / 2 ^ 2 / 2 ^ 2 % 2 ^ 2 := by omega
    have h4 : x % 2 ^ 8 / 2 ^ 2 / 2 ^ 2 / 2 ^ 2 % 2 ^ 2 = x / 2 ^ 2 / 2 ^ 2 / 2 ^ 2 % 2 ^ 2 := by omega
    have h5 : x / 2 ^ 2 / 2 ^ 2 / 2 ^ 2 / 2 ^ 2 = x / 2 ^ 8 := by omega
    rw [h1, h2, h3, h4, h5, ih]
    simp [digits]

/-! ### the `REV_2BIT` table reverses the four base-4 digits of a byte -/

def rev2Fails : List Nat :=
  (List.range 256).filter fun b => digits 2 4 (rev2 b) != (digits 2 4 b).reverse || !(rev2 b < 256)

theorem rev2_ok : rev2Fails = [] := by decide +kernel

theorem rev2_spec (b : Nat) (h : b < 256) :
    digits 2 4 (rev2 b) = (digits 2 4 b).reverse ∧ rev2 b < 256 := by
  have hm : b ∈ List.range 256 := List.mem_range.mpr h
  have : b ∉ rev2Fails := by rw [rev2_ok]; simp
  simp only [rev2Fails, List.mem_filter, hm, true_and, Bool.or_eq_true, bne_iff_ne, ne_eq,
    Bool.not_eq_true', decide_eq_false_iff_not, not_or, Decidable.not_not] at this
  simpa using this

theorem flatMap_reverse_reverse {α β} (l : List α) (f : α → List β) :
    l.reverse.flatMap (fun b => (f b).reverse) = (l.flatMap f).reverse := by
  induction l with
  | nil => rfl
  | cons x xs ih => simp [List.flatMap_append, List.flatMap_cons, ih]

theorem flatMap_congr_mem {α β} (l : List α) (f g : α → List β) (h : ∀ x ∈ l, f x = g x) :
    l.flatMap f = l.flatMap g := by
  induction l with
  | nil => rfl
  | cons x xs ih =>
    simp only [List.flatMap_cons]
    rw [h x (by simp), ih (fun y hy => h y (by simp [hy]))]

theorem revBlocks2_lt (x : Nat) : revBlocks2 x < 2 ^ 64 := by
  unfold revBlocks2
  have hf : Fits 8 ((digits 8 8 x).reverse.map rev2) := by
    intro d hd
    simp only [List.mem_map, List.mem_reverse] at hd
    obtain ⟨b, hb, rfl⟩ := hd
    exact (rev2_spec b (digits_lt 8 8 x b hb)).2
  have := ofDigits_lt 8 _ hf
  simpa [digits_length] using this

/-- `swap_bytes` + per-byte table = reversal of all 32 base-4 digits of the word -/
theorem revBlocks2_eq (x : Nat) : revBlocks2 x = ofDigits 2 (digits 2 32 x).reverse := by
  have hlt := revBlocks2_lt x
  have hf : Fits 8 ((digits 8 8 x).reverse.map rev2) := by
    intro d hd
    simp only [List.mem_map, List.mem_reverse] at hd
    obtain ⟨b, hb, rfl⟩ := hd
    exact (rev2_spec b (digits_lt 8 8 x b hb)).2
  have hl : ((digits 8 8 x).reverse.map rev2).length = 8 := by simp [digits_length]
  have h1 : digits 8 8 (revBlocks2 x) = (digits 8 8 x).reverse.map rev2 := by
    have := digits_ofDigits 8 _ hf
    rw [hl] at this
    exact this
  have h2 : digits 2 32 (revBlocks2 x) = (digits 2 32 x).reverse := by
    rw [show (32 : Nat) = 4 * 8 from rfl, digits_group, digits_group, h1, List.flatMap_map,
      ← flatMap_reverse_reverse]
    apply flatMap_congr_mem
    intro b hb
    exact (rev2_spec b (digits_lt 8 8 x b (List.mem_reverse.mp hb))).1
  rw [← h2]
  exact (ofDigits_digits 2 32 _ hlt).symm

/-! ### xor with an all-ones mask -/

theorem xor_mask (m v : Nat) (h : v < 2 ^ m) : v ^^^ (2 ^ m - 1) = 2 ^ m - 1 - v := by
  apply Nat.eq_of_testBit_eq
  intro i
  have e : 2 ^ m - 1 - v = 2 ^ m - (v + 1) := by omega
  rw [e, Nat.testBit_xor, Nat.testBit_two_pow_sub_one, Nat.testBit_two_pow_sub_succ h]
  by_cases hi : i < m
  · simp [hi]
  · have : v < 2 ^ i := Nat.lt_of_lt_of_le h (Nat.pow_le_pow_right (by omega) (by omega))
    simp [hi, Nat.testBit_lt_two_pow this]

/-- complementing every digit = subtracting from the all-ones value -/
theorem ofDigits_map_compl (w : Nat) (ds : List Nat) (h : Fits w ds) :
    ofDigits w (ds.map (fun x => 2 ^ w - 1 - x)) = 2 ^ (w * ds.length) - 1 - ofDigits w ds := by
  induction ds with
  | nil => simp [ofDigits]
  | cons d ds ih =>
    have hd : d < 2 ^ w := h d (by simp)
    have hf : Fits w ds := fun x hx => h x (by simp [hx])
    have hlt := ofDigits_lt w ds hf
    simp only [List.map_cons, ofDigits, ih hf, List.length_cons, Nat.mul_succ, Nat.pow_add]
    have h1 : 2 ^ w * (ofDigits w ds + 1) ≤ 2 ^ w * 2 ^ (w * ds.length) := Nat.mul_le_mul_left _ hlt
    have h2 : 2 ^ w * (2 ^ (w * ds.length) - 1 - ofDigits w ds)
        = 2 ^ w * 2 ^ (w * ds.length) - 2 ^ w * (ofDigits w ds + 1) := by
      rw [Nat.sub_sub, Nat.mul_sub, Nat.add_comm]
    rw [h2, Nat.mul_comm (2 ^ (w * ds.length)) (2 ^ w)]
    rw [Nat.mul_add, Nat.mul_one] at h1 ⊢
    omega

theorem fits_map_compl (w : Nat) (ds : List Nat) : Fits w (ds.map (fun x => 2 ^ w - 1 - x)) := by
  intro c hc
  simp only [List.mem_map] at hc
  obtain ⟨a, _, rfl⟩ := hc
  have := Nat.two_pow_pos w
  omega

/-! ### the sequence-level reversal on a packing (adapted from spikes/lean/Rev.lean) -/

theorem reverse_pack (w : Nat) (cs : List Nat) :
    (pack w cs).reverse = (cs.reverse.map (fun c => (toBitsLE w c).reverse)).flatMap id := by
  unfold pack
  induction cs with
  | nil => rfl
  | cons c cs ih => simp [List.flatMap_cons, List.reverse_append, ih, List.flatMap_append]

theorem seq_rev_pack (c : Codec) (hw : 1 ≤ c.width) (cs : List Nat) :
    Seq.rev c (pack c.width cs) = pack c.width cs.reverse := by
  unfold Seq.rev
  simp only [pack_length, Nat.mul_mod_right, List.take_zero, List.drop_zero, List.nil_append]
  rw [Nat.mul_div_cancel_left _ (by omega : 0 < c.width), reverse_pack]
  have hl : cs.length = (cs.reverse.map (fun x => (toBitsLE c.width x).reverse)).length := by simp
  rw [hl, mapChunks_flatMap]
  · rw [List.flatMap_map]; unfold pack; congr 1; funext x; simp
  · intro x hx; simp at hx; obtain ⟨a, _, rfl⟩ := hx; simp

/-- a per-chunk loop (`chunks_exact_mut`) whose step acts as `g` on every code of a packing -/
theorem mapChunksM_pack (w : Nat) (f : Bits → Res Bits) (g : Nat → Nat) (cs : List Nat)
    (hf : ∀ x ∈ cs, f (toBitsLE w x) = .ok (toBitsLE w (g x))) :
    mapChunksM w f cs.length (pack w cs) = .ok (pack w (cs.map g)) := by
  induction cs with
  | nil => rfl
  | cons x xs ih =>
    simp only [List.length_cons, mapChunksM, pack_cons, List.map_cons]
    rw [List.take_left' (length_toBitsLE w x), List.drop_left' (length_toBitsLE w x), hf x (by simp),
      ih (fun y hy => hf y (by simp [hy]))]
    rfl

end C09L
end BioSeq
