/-
  Helper lemmas for the static-array model (`BioSeq/Array.lean`), the `Vec<usize>` constructor
  of `Seq<text::Dna>` and the derived comparison operators (`BioSeq/Order.lean`).
  (Helper lemmas only; the property theorems are in Props/C19Array.lean, Props/C04Words.lean
  and Props/C10Order.lean.)
-/
import BioSeq.Array
import BioSeq.Order
import BioSeq.Lemmas.PackLemmas
import BioSeq.Lemmas.KmerLemmas
namespace BioSeq
namespace ArrL
open BioSeq.Seq

/-! ### `mapM` in the `Res` monad -/

theorem mapM_congr_res {α β} (f g : α → Res β) (l : List α) (h : ∀ x ∈ l, f x = g x) :
    l.mapM f = l.mapM g := by
  induction l with
  | nil => rfl
  | cons x xs ih =>
    rw [List.mapM_cons, List.mapM_cons, h x (by simp), ih (fun y hy => h y (by simp [hy]))]

theorem mapM_map_res {α β γ} (g : α → β) (f : β → Res γ) (l : List α) :
    (l.map g).mapM f = l.mapM (fun x => f (g x)) := by
  induction l with
  | nil => rfl
  | cons x xs ih => rw [List.map_cons, List.mapM_cons, List.mapM_cons, ih]

theorem mapM_ok_length {α β} (f : α → Res β) (l : List α) (r : List β) (h : l.mapM f = .ok r) :
    r.length = l.length := by
  induction l generalizing r with
  | nil => rw [List.mapM_nil] at h; cases h; rfl
  | cons x xs ih =>
    rw [List.mapM_cons] at h
    cases hx : f x with
    | error e => rw [hx] at h; cases h
    | ok y =>
      cases hxs : xs.mapM f with
      | error e => rw [hx, hxs] at h; cases h
      | ok ys =>
        rw [hx, hxs] at h
        cases h
        simp [ih ys hxs]

/-! ### decoding arbitrary (possibly non-canonical) aligned content -/

/-- `A::unsafe_from_bits` on every stored code, in order, stopping at the first panic: what
    `iter()` yields on content that need not be canonical -/
def decodeAll (c : Codec) (cs : List Nat) : Res (List Nat) :=
  cs.mapM (fun x => optToRes (c.unsafeFromBits x))

/-- `nth` on a packing of arbitrary in-range codes: decode the stored code -/
theorem nth_pack_fits (p : Profile) (c : Codec) (hw1 : 1 ≤ c.width) (hw8 : c.width ≤ 8) (cs : List Nat)
    (hf : Fits c.width cs) (i : Nat) (hi : i < cs.length) (hov : (i + 1) * c.width < W64) :
    nth p c (pack c.width cs) i = optToRes (c.unsafeFromBits cs[i]) := by
  simp only [nth, index_single_pack p c cs i hi hov, bind, Except.bind, toU8]
  rw [loadLE_toBitsLE 8 c.width cs[i] hw1 hw8 (hf _ (List.getElem_mem hi))]

/-- `iter()` on a packing of arbitrary in-range codes -/
theorem iterSyms_pack_fits (p : Profile) (c : Codec) (hw1 : 1 ≤ c.width) (hw8 : c.width ≤ 8) (cs : List Nat)
    (hf : Fits c.width cs) (hov : cs.length * c.width < W64) :
    iterSyms p c (pack c.width cs) = decodeAll c cs := by
  unfold iterSyms decodeAll
  rw [len_pack c hw1]
  have h : ∀ i ∈ List.range cs.length,
      nth p c (pack c.width cs) i = optToRes (c.unsafeFromBits (cs.getD i default)) := by
    intro i hi
    have hi' : i < cs.length := List.mem_range.mp hi
    have : (i + 1) * c.width < W64 :=
      Nat.lt_of_le_of_lt (Nat.mul_le_mul_right _ (by omega)) hov
    rw [nth_pack_fits p c hw1 hw8 cs hf i hi' this]
    simp [List.getD, hi']
  rw [mapM_congr_res _ _ _ h,
    ← mapM_map_res (fun i => cs.getD i default) (fun x => optToRes (c.unsafeFromBits x)),
    map_getElem_range cs]

/-- on canonical codes decoding is the identity -/
theorem decodeAll_canon (c : Codec) (wf : CodecWF c) (cs : List Nat) (hc : Canon c cs) :
    decodeAll c cs = .ok cs := by
  unfold decodeAll
  rw [mapM_ok_of_forall (g := id)]
  · simp
  · intro x hx; simp [wf.item_unsafe x (hc x hx), optToRes]

/-- `collect()` from the empty sequence packs the symbols -/
theorem extend_nil (c : Codec) (hw8 : c.width ≤ 8) (ss : List Nat) :
    extend c [] ss = pack c.width ss := by
  have := extend_pack c hw8 [] ss
  simpa using this

/-! ### words <-> bits -/

theorem bitsOfWords_map_mod (ws : List Nat) : bitsOfWords (ws.map (· % 2 ^ 64)) = bitsOfWords ws := by
  induction ws with
  | nil => rfl
  | cons x xs ih => rw [List.map_cons, bitsOfWords_cons, bitsOfWords_cons, ih, toBitsLE_mod]

theorem wordsOf_bitsOfWords (ws : List Nat) (h : ∀ x ∈ ws, x < 2 ^ 64) :
    wordsOf ws.length (bitsOfWords ws) = ws := by
  induction ws with
  | nil => rfl
  | cons x xs ih =>
    simp only [List.length_cons, wordsOf, bitsOfWords_cons]
    rw [List.take_left' (length_toBitsLE 64 x), List.drop_left' (length_toBitsLE 64 x),
      ofBitsLE_toBitsLE 64 x (h x (by simp)), ih (fun y hy => h y (by simp [hy]))]

/-- a word is eight 8-bit symbols, least significant first -/
theorem bitsOfWords_eq_pack8 (ws : List Nat) :
    bitsOfWords ws = pack 8 (ws.flatMap (digitsLE 8 8)) := by
  induction ws with
  | nil => rfl
  | cons x xs ih =>
    rw [bitsOfWords_cons, List.flatMap_cons, pack_append, ← ih, pack_digitsLE]

theorem getElem?_flatMap_const {α β} (k : Nat) (hk : 0 < k) (f : α → List β) (l : List α)
    (h : ∀ x ∈ l, (f x).length = k) (i : Nat) :
    (l.flatMap f)[i]? = (l[i / k]?).bind (fun x => (f x)[i % k]?) := by
  induction l generalizing i with
  | nil => simp
  | cons x xs ih =>
    rw [List.flatMap_cons]
    by_cases hi : i < k
    · rw [List.getElem?_append_left (by rw [h x (by simp)]; exact hi), Nat.div_eq_of_lt hi,
        Nat.mod_eq_of_lt hi]
      simp
    · obtain ⟨j, rfl⟩ : ∃ j, i = j + k := ⟨i - k, by omega⟩
      rw [List.getElem?_append_right (by rw [h x (by simp)]; omega), h x (by simp),
        ih (fun y hy => h y (by simp [hy])), Nat.add_sub_cancel, Nat.add_div_right _ hk,
        Nat.add_mod_right]
      simp

theorem digitsLE_getElem? (w K x j : Nat) (hj : j < K) :
    (digitsLE w K x)[j]? = some (x / 2 ^ (w * j) % 2 ^ w) := by
  induction K generalizing x j with
  | zero => omega
  | succ K ih =>
    cases j with
    | zero => simp [digitsLE]
    | succ j =>
      simp only [digitsLE, List.getElem?_cons_succ]
      rw [ih _ _ (by omega), Nat.div_div_eq_div_mul, Nat.mul_succ, Nat.pow_add, Nat.mul_comm]

/-! ### symbol windows of a packing -/

/-- the window `[w·i, w·i + w)` of a packing holds code `i` -/
theorem window_pack (w : Nat) (cs : List Nat) (i : Nat) (hi : i < cs.length) :
    ((pack w cs).drop (w * i)).take w = toBitsLE w cs[i] := by
  rw [List.take_drop, ← Nat.mul_succ, take_pack, drop_pack, take_drop_single cs i hi]
  simp

/-- two packings of fitting codes with the same symbol windows are packings of the same codes -/
theorem pack_ext_windows (w : Nat) (as bs : List Nat) (hl : as.length = bs.length)
    (ha : Fits w as) (hb : Fits w bs)
    (h : ∀ i, i < as.length →
      ((pack w as).drop (w * i)).take w = ((pack w bs).drop (w * i)).take w) : as = bs := by
  apply List.ext_getElem hl
  intro i h1 h2
  have := h i h1
  rw [window_pack w as i h1, window_pack w bs i h2] at this
  have e := congrArg ofBitsLE this
  rwa [ofBitsLE_toBitsLE w _ (ha _ (List.getElem_mem h1)),
    ofBitsLE_toBitsLE w _ (hb _ (List.getElem_mem h2))] at e

/-! ### `Seq.cmp` as a non-strict order -/

theorem cmp_ne_gt_trans (a b c : Bits) (h1 : Seq.cmp a b ≠ .gt) (h2 : Seq.cmp b c ≠ .gt) :
    Seq.cmp a c ≠ .gt := by
  unfold Seq.cmp at *
  have e1 := cmpBits_eq_iff a.reverse b.reverse
  have e2 := cmpBits_eq_iff b.reverse c.reverse
  cases h1' : cmpBits a.reverse b.reverse with
  | gt => exact absurd h1' h1
  | eq => rw [e1.mp h1']; exact h2
  | lt =>
    cases h2' : cmpBits b.reverse c.reverse with
    | gt => exact absurd h2' h2
    | eq => rw [← e2.mp h2', h1']; simp
    | lt => rw [cmpBits_trans _ _ _ h1' h2']; simp

end ArrL
end BioSeq
