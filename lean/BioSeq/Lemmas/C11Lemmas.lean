/-
  Helper lemmas for C11 (iterators): generic facts about the fuel-bounded `collect`,
  and the "from state i" generalisations of the iterator specifications that the
  inductions need.  Property theorems are in Props/C11.lean.
-/
import BioSeq.Lemmas.SeqLemmas
import BioSeq.Iter
namespace BioSeq
namespace C11L
open BioSeq.Seq BioSeq.Iter

/-! ### generic `collect` -/

theorem collect_zero {σ α} (next : σ → Option (α × σ)) (s : σ) : collect next 0 s = [] := rfl

theorem collect_none {σ α} (next : σ → Option (α × σ)) (f : Nat) (s : σ) (h : next s = none) :
    collect next f s = [] := by
  cases f with
  | zero => rfl
  | succ f => simp only [collect, h]

theorem collect_some {σ α} (next : σ → Option (α × σ)) (f : Nat) (s s' : σ) (x : α)
    (h : next s = some (x, s')) : collect next (f + 1) s = x :: collect next f s' := by
  simp only [collect, h]

theorem collect_length_le {σ α} (next : σ → Option (α × σ)) (f : Nat) (s : σ) :
    (collect next f s).length ≤ f := by
  induction f generalizing s with
  | zero => simp [collect]
  | succ f ih =>
    cases h : next s with
    | none => simp [collect_none next _ s h]
    | some xs =>
      obtain ⟨x, s'⟩ := xs
      rw [collect_some next f s s' x h]
      have := ih s'
      simp only [List.length_cons]; omega

/-- if `collect` produced fewer items than its fuel, the step function has returned `none`:
    more fuel changes nothing -/
theorem collect_stable {σ α} (next : σ → Option (α × σ)) (f k : Nat) (s : σ)
    (h : (collect next f s).length < f) : collect next (f + k) s = collect next f s := by
  induction f generalizing s with
  | zero => simp at h
  | succ f ih =>
    cases hn : next s with
    | none => rw [collect_none next _ s hn, collect_none next _ s hn]
    | some xs =>
      obtain ⟨x, s'⟩ := xs
      have e : f + 1 + k = (f + k) + 1 := by omega
      rw [e, collect_some next (f + k) s s' x hn, collect_some next f s s' x hn]
      rw [collect_some next f s s' x hn] at h
      simp only [List.length_cons] at h
      rw [ih s' (by omega)]

/-! ### symbol iterators from an arbitrary position -/

theorem seqIterNext_pack (p : Profile) (c : Codec) (wf : CodecWF c) (cs : List Nat) (hc : Canon c cs)
    (hov : cs.length * c.width < W64) (i : Nat) :
    seqIterNext p c (pack c.width cs) i =
      if h : i < cs.length then some (.ok cs[i], i + 1) else none := by
  unfold seqIterNext
  rw [len_pack c wf.width_pos]
  by_cases h : i < cs.length
  · have hov' : (i + 1) * c.width < W64 := Nat.lt_of_le_of_lt (Nat.mul_le_mul_right _ (by omega)) hov
    have : ¬ (i ≥ cs.length) := by omega
    simp only [this, if_false, h, dite_true, nth_pack p c wf cs hc i h hov']
  · have : i ≥ cs.length := by omega
    simp only [this, if_true, h, dite_false]

theorem iter_from (p : Profile) (c : Codec) (wf : CodecWF c) (cs : List Nat) (hc : Canon c cs)
    (hov : cs.length * c.width < W64) (fuel i : Nat) (hf : cs.length ≤ fuel + i) :
    collect (seqIterNext p c (pack c.width cs)) fuel i = (cs.drop i).map .ok := by
  induction fuel generalizing i with
  | zero =>
    have : cs.drop i = [] := List.drop_eq_nil_of_le (by omega)
    simp [collect, this]
  | succ f ih =>
    by_cases h : i < cs.length
    · have hn := seqIterNext_pack p c wf cs hc hov i
      simp only [h, dite_true] at hn
      rw [collect_some _ f i (i + 1) _ hn, ih (i + 1) (by omega)]
      rw [List.drop_eq_getElem_cons h, List.map_cons]
    · have hn := seqIterNext_pack p c wf cs hc hov i
      simp only [h, dite_false] at hn
      have : cs.drop i = [] := List.drop_eq_nil_of_le (by omega)
      rw [collect_none _ _ i hn, this]
      simp

theorem revIterNext_pack (p : Profile) (c : Codec) (wf : CodecWF c) (cs : List Nat) (hc : Canon c cs)
    (hov : cs.length * c.width < W64) (i : Nat) (hi : i < cs.length) :
    revIterNext p c (pack c.width cs) (i + 1) = some (.ok cs[i], i) := by
  have hov' : (i + 1) * c.width < W64 := Nat.lt_of_le_of_lt (Nat.mul_le_mul_right _ (by omega)) hov
  simp [revIterNext, nth_pack p c wf cs hc i hi hov']

theorem revIter_from (p : Profile) (c : Codec) (wf : CodecWF c) (cs : List Nat) (hc : Canon c cs)
    (hov : cs.length * c.width < W64) (fuel i : Nat) (hi : i ≤ cs.length) (hf : i ≤ fuel) :
    collect (revIterNext p c (pack c.width cs)) fuel i = (cs.take i).reverse.map .ok := by
  induction fuel generalizing i with
  | zero =>
    have : i = 0 := by omega
    subst this
    simp [collect]
  | succ f ih =>
    cases i with
    | zero =>
      rw [collect_none _ _ 0 (by simp [revIterNext])]
      simp
    | succ j =>
      have hj : j < cs.length := by omega
      rw [collect_some _ f (j + 1) j _ (revIterNext_pack p c wf cs hc hov j hj), ih j (by omega) (by omega)]
      rw [List.take_succ_eq_append_getElem hj]
      simp only [List.reverse_append, List.reverse_singleton, List.singleton_append, List.map_cons]

/-! ### windows / chunks from an arbitrary position -/

theorem chunksNext_none (p : Profile) (c : Codec) (bs : Bits) (s : Chunks)
    (h : s.index + s.width > len c bs) : chunksNext p c bs s = none := by
  simp [chunksNext, h]

theorem chunksNext_pack (p : Profile) (c : Codec) (hw : 1 ≤ c.width) (cs : List Nat)
    (hov : cs.length * c.width < W64) (s : Chunks) (h : s.index + s.width ≤ cs.length) :
    chunksNext p c (pack c.width cs) s =
      some (.ok (pack c.width ((cs.take (s.index + s.width)).drop s.index)),
            ⟨s.width, s.skip, s.index + s.skip⟩) := by
  unfold chunksNext
  rw [len_pack c hw]
  have h' : ¬ (s.index + s.width > cs.length) := by omega
  have hov' : (s.index + s.width) * c.width < W64 :=
    Nat.lt_of_le_of_lt (Nat.mul_le_mul_right _ h) hov
  simp only [h', if_false]
  rw [index_range_pack p c cs s.index (s.index + s.width) (by omega) h hov']

/-- windows from index `i` on; `fuel` only has to cover the remaining windows -/
theorem windows_from (p : Profile) (c : Codec) (hw : 1 ≤ c.width) (cs : List Nat)
    (hov : cs.length * c.width < W64) (w fuel i : Nat) (hf : cs.length + 1 - w - i ≤ fuel) :
    collect (chunksNext p c (pack c.width cs)) fuel ⟨w, 1, i⟩ =
      (List.range' i (cs.length + 1 - w - i)).map
        (fun j => .ok (pack c.width ((cs.take (j + w)).drop j))) := by
  induction fuel generalizing i with
  | zero =>
    have : cs.length + 1 - w - i = 0 := by omega
    simp [collect, this]
  | succ f ih =>
    by_cases h : i + w > cs.length
    · have : cs.length + 1 - w - i = 0 := by omega
      rw [collect_none _ _ _ (chunksNext_none p c _ ⟨w, 1, i⟩ (by rw [len_pack c hw]; exact h)), this]
      simp
    · have hn := chunksNext_pack p c hw cs hov ⟨w, 1, i⟩ (by show i + w ≤ cs.length; omega)
      rw [collect_some _ f _ _ _ hn, ih (i + 1) (by omega)]
      have e : cs.length + 1 - w - i = (cs.length + 1 - w - (i + 1)) + 1 := by omega
      rw [e, List.range'_succ]
      simp

/-- chunks from the `j`-th chunk on -/
theorem chunks_from (p : Profile) (c : Codec) (hw : 1 ≤ c.width) (cs : List Nat)
    (hov : cs.length * c.width < W64) (w fuel j : Nat) (hw1 : 1 ≤ w) (hf : cs.length / w - j ≤ fuel) :
    collect (chunksNext p c (pack c.width cs)) fuel ⟨w, w, j * w⟩ =
      (List.range' j (cs.length / w - j)).map
        (fun k => .ok (pack c.width ((cs.take (k * w + w)).drop (k * w)))) := by
  induction fuel generalizing j with
  | zero =>
    have : cs.length / w - j = 0 := by omega
    simp [collect, this]
  | succ f ih =>
    by_cases h : j * w + w > cs.length
    · have hj : cs.length / w ≤ j := by
        apply Nat.le_of_lt_succ
        rw [Nat.div_lt_iff_lt_mul (by omega)]
        rw [Nat.succ_mul]; omega
      have : cs.length / w - j = 0 := by omega
      rw [collect_none _ _ _ (chunksNext_none p c _ ⟨w, w, j * w⟩ (by rw [len_pack c hw]; exact h)), this]
      simp
    · have hj : j < cs.length / w := by
        rw [Nat.lt_div_iff_mul_lt (by omega)]
        have : (j + 1) * w ≤ cs.length := by rw [Nat.succ_mul]; omega
        rw [Nat.succ_mul] at this
        omega
      have hn := chunksNext_pack p c hw cs hov ⟨w, w, j * w⟩ (by show j * w + w ≤ cs.length; omega)
      have e1 : j * w + w = (j + 1) * w := by rw [Nat.succ_mul]
      rw [collect_some _ f _ _ _ hn]
      simp only [e1]
      rw [ih (j + 1) (by omega)]
      have e : cs.length / w - j = (cs.length / w - (j + 1)) + 1 := by omega
      rw [e, List.range'_succ]
      simp [Nat.succ_mul]

/-- consecutive width-`w` slices from the start concatenate to a prefix -/
theorem flatten_slices {α} (l : List α) (w m : Nat) :
    ((List.range m).map (fun j => (l.take (j * w + w)).drop (j * w))).flatten = l.take (m * w) := by
  induction m with
  | zero => simp
  | succ m ih =>
    rw [List.range_succ, List.map_append, List.flatten_append, ih]
    simp only [List.map_cons, List.map_nil, List.flatten_cons, List.flatten_nil, List.append_nil]
    have e : (l.take (m * w + w)).drop (m * w) = (l.drop (m * w)).take w := by
      rw [List.drop_take]; congr 1; omega
    rw [e, Nat.succ_mul, List.take_add]

theorem pack_flatten (w : Nat) (ls : List (List Nat)) :
    pack w ls.flatten = (ls.map (pack w)).flatten := by
  induction ls with
  | nil => rfl
  | cons l ls ih => simp [pack_append, ih]

end C11L
end BioSeq
