/-
  Helper lemmas for C12 (bitwise `&` / `|` of sequences): how the bit-slice operation
  `bitop` (bitvec `&=` / `|=`: result has the length of the LEFT operand, the right operand
  is zero-extended or truncated) acts on little-endian chunks and on packings.
  Helper lemmas only; the property theorems are in Props/C12.lean.
-/
import BioSeq.Lemmas.SeqLemmas
namespace BioSeq
open BioSeq.Seq

/-- the result always has the length of the left operand -/
theorem bitop_length (f : Bool → Bool → Bool) (a b : Bits) : (bitop f a b).length = a.length := by
  induction a generalizing b with
  | nil => rfl
  | cons x xs ih => cases b <;> simp [bitop, ih]

/-- an exhausted right operand reads as zeros -/
theorem bitop_nil_right (f : Bool → Bool → Bool) (a : Bits) : bitop f a [] = a.map (f · false) := by
  induction a with
  | nil => rfl
  | cons x xs ih => simp [bitop, ih]

/-- surplus bits of the right operand are ignored -/
theorem bitop_append_right (f : Bool → Bool → Bool) (a b extra : Bits) (h : a.length = b.length) :
    bitop f a (b ++ extra) = bitop f a b := by
  induction a generalizing b with
  | nil => rfl
  | cons x xs ih =>
    cases b with
    | nil => simp at h
    | cons y ys => simp only [List.cons_append, bitop]; rw [ih ys (by simpa using h)]

/-- `bitop` works chunk by chunk -/
theorem bitop_append (f : Bool → Bool → Bool) (a1 a2 b1 b2 : Bits) (h : a1.length = b1.length) :
    bitop f (a1 ++ a2) (b1 ++ b2) = bitop f a1 b1 ++ bitop f a2 b2 := by
  induction a1 generalizing b1 with
  | nil =>
    cases b1 with
    | nil => rfl
    | cons y ys => simp at h
  | cons x xs ih =>
    cases b1 with
    | nil => simp at h
    | cons y ys =>
      simp only [List.cons_append, bitop]
      rw [ih ys (by simpa using h)]

theorem bitop_append_nil (f : Bool → Bool → Bool) (a1 a2 b1 : Bits) (h : a1.length = b1.length) :
    bitop f (a1 ++ a2) b1 = bitop f a1 b1 ++ bitop f a2 [] := by
  have := bitop_append f a1 a2 b1 [] h
  simpa using this

/-- bitwise AND of two `w`-bit little-endian chunks is the chunk of the numeric `&&&` -/
theorem bitop_and_toBitsLE (w a b : Nat) :
    bitop (· && ·) (toBitsLE w a) (toBitsLE w b) = toBitsLE w (a &&& b) := by
  induction w generalizing a b with
  | zero => rfl
  | succ w ih =>
    simp only [toBitsLE, bitop]
    rw [ih, Nat.and_div_two]
    congr 1
    cases ha : (a % 2 == 1) <;> cases hb : (b % 2 == 1) <;> simp at ha hb <;> simp [ha, hb]

/-- bitwise OR of two `w`-bit little-endian chunks is the chunk of the numeric `|||` -/
theorem bitop_or_toBitsLE (w a b : Nat) :
    bitop (· || ·) (toBitsLE w a) (toBitsLE w b) = toBitsLE w (a ||| b) := by
  induction w generalizing a b with
  | zero => rfl
  | succ w ih =>
    simp only [toBitsLE, bitop]
    rw [ih, Nat.or_div_two]
    congr 1
    cases ha : (a % 2 == 1) <;> cases hb : (b % 2 == 1) <;> simp at ha hb <;> simp [ha, hb]

/-- a chunk against an exhausted right operand: AND clears it, OR keeps it -/
theorem bitop_and_toBitsLE_nil (w a : Nat) : bitop (· && ·) (toBitsLE w a) [] = toBitsLE w 0 := by
  induction w generalizing a with
  | zero => rfl
  | succ w ih => simp [toBitsLE, bitop, ih]

theorem bitop_or_toBitsLE_nil (w a : Nat) : bitop (· || ·) (toBitsLE w a) [] = toBitsLE w a := by
  induction w generalizing a with
  | zero => rfl
  | succ w ih => simp [toBitsLE, bitop, ih]

/-- generic packing lemma: if `f` on two chunks is the chunk of `g`, `bitop f` on two packings
    of equally many codes is the packing of the position-wise `g` -/
theorem bitop_pack (f : Bool → Bool → Bool) (g : Nat → Nat → Nat) (w : Nat)
    (hfg : ∀ a b, bitop f (toBitsLE w a) (toBitsLE w b) = toBitsLE w (g a b))
    (as bs : List Nat) (h : as.length = bs.length) :
    bitop f (pack w as) (pack w bs) = pack w (List.zipWith g as bs) := by
  induction as generalizing bs with
  | nil =>
    cases bs with
    | nil => rfl
    | cons y ys => simp at h
  | cons x xs ih =>
    cases bs with
    | nil => simp at h
    | cons y ys =>
      simp only [pack_cons, List.zipWith_cons_cons]
      rw [bitop_append f _ _ _ _ (by simp), hfg, ih ys (by simpa using h)]

/-- left operand longer: the surplus symbols meet an exhausted right operand -/
theorem bitop_pack_left_longer (f : Bool → Bool → Bool) (g : Nat → Nat → Nat) (g0 : Nat → Nat) (w : Nat)
    (hfg : ∀ a b, bitop f (toBitsLE w a) (toBitsLE w b) = toBitsLE w (g a b))
    (hf0 : ∀ a, bitop f (toBitsLE w a) [] = toBitsLE w (g0 a))
    (as extra bs : List Nat) (h : as.length = bs.length) :
    bitop f (pack w (as ++ extra)) (pack w bs) = pack w (List.zipWith g as bs ++ extra.map g0) := by
  rw [pack_append, pack_append, bitop_append_nil f _ _ _ (by simp [h]), bitop_pack f g w hfg as bs h]
  congr 1
  induction extra with
  | nil => rfl
  | cons e es ih =>
    simp only [pack_cons, List.map_cons]
    rw [bitop_nil_right, List.map_append, ← bitop_nil_right, ← bitop_nil_right, hf0, ih]

/-- left operand shorter: the surplus symbols of the right operand are ignored -/
theorem bitop_pack_left_shorter (f : Bool → Bool → Bool) (g : Nat → Nat → Nat) (w : Nat)
    (hfg : ∀ a b, bitop f (toBitsLE w a) (toBitsLE w b) = toBitsLE w (g a b))
    (as bs extra : List Nat) (h : as.length = bs.length) :
    bitop f (pack w as) (pack w (bs ++ extra)) = pack w (List.zipWith g as bs) := by
  rw [pack_append, bitop_append_right f _ _ _ (by simp [h]), bitop_pack f g w hfg as bs h]

/-- the position-wise AND / OR of in-range codes is in range -/
theorem fits_zipWith_and (w : Nat) (as bs : List Nat) (hb : Fits w bs) :
    Fits w (List.zipWith (· &&& ·) as bs) := by
  induction as generalizing bs with
  | nil => intro c hc; simp at hc
  | cons x xs ih =>
    cases bs with
    | nil => intro c hc; simp at hc
    | cons y ys =>
      intro c hc
      simp only [List.zipWith_cons_cons, List.mem_cons] at hc
      rcases hc with rfl | hc
      · exact Nat.and_lt_two_pow x (hb y (by simp))
      · exact ih ys (fun z hz => hb z (by simp [hz])) c hc

theorem fits_zipWith_or (w : Nat) (as bs : List Nat) (ha : Fits w as) (hb : Fits w bs) :
    Fits w (List.zipWith (· ||| ·) as bs) := by
  induction as generalizing bs with
  | nil => intro c hc; simp at hc
  | cons x xs ih =>
    cases bs with
    | nil => intro c hc; simp at hc
    | cons y ys =>
      intro c hc
      simp only [List.zipWith_cons_cons, List.mem_cons] at hc
      rcases hc with rfl | hc
      · exact Nat.or_lt_two_pow (ha x (by simp)) (hb y (by simp))
      · exact ih ys (fun z hz => ha z (by simp [hz])) (fun z hz => hb z (by simp [hz])) c hc

/-- packings of in-range codes are equal only if the codes are -/
theorem pack_inj (w : Nat) (hw : 1 ≤ w) (as bs : List Nat) (ha : Fits w as) (hb : Fits w bs)
    (h : pack w as = pack w bs) : as = bs := by
  rw [← syms_pack w hw as ha, ← syms_pack w hw bs hb, h]

end BioSeq
