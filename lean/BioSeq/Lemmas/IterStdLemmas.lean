/-
  Helper lemmas for C11Std: unfolding equations of the std default methods of `BioSeq/IterStd.lean`,
  fuel irrelevance under a decreasing measure, and the "from any state" forms of the
  specifications.  The property theorems are in Props/C11Std.lean.
-/
import BioSeq.IterStd
import BioSeq.Lemmas.C11Lemmas
namespace BioSeq
namespace IterStdL
open BioSeq.Iter BioSeq.C11L

variable {σ α β : Type}

/-! ### unfolding equations (no hypotheses on `next`) -/

section equations
variable (next : σ → Option (α × σ))

theorem advance_zero (s : σ) : advance next 0 s = s := rfl

theorem advance_none {s : σ} (h : next s = none) (n : Nat) : advance next n s = s := by
  cases n with
  | zero => rfl
  | succ n => simp only [advance, h]

theorem advance_some {s s' : σ} {x : α} (h : next s = some (x, s')) (n : Nat) :
    advance next (n + 1) s = advance next n s' := by
  simp only [advance, h]

theorem advanceBy_none {s : σ} (h : next s = none) (n : Nat) :
    advanceBy next (n + 1) s = (false, s) := by
  simp only [advanceBy, h]

theorem advanceBy_some {s s' : σ} {x : α} (h : next s = some (x, s')) (n : Nat) :
    advanceBy next (n + 1) s = advanceBy next n s' := by
  simp only [advanceBy, h]

theorem nthD_none {s : σ} (h : next s = none) (n : Nat) : nthD next n s = (none, s) := by
  cases n with
  | zero => simp only [nthD, h]
  | succ n => simp only [nthD, h]

theorem nthD_zero_some {s s' : σ} {x : α} (h : next s = some (x, s')) :
    nthD next 0 s = (some x, s') := by
  simp only [nthD, h]

theorem nthD_succ_some {s s' : σ} {x : α} (h : next s = some (x, s')) (n : Nat) :
    nthD next (n + 1) s = nthD next n s' := by
  simp only [nthD, h]

theorem foldD_zero (f : β → α → β) (init : β) (s : σ) : foldD next 0 f init s = init := rfl

theorem foldD_none {s : σ} (h : next s = none) (fuel : Nat) (f : β → α → β) (init : β) :
    foldD next fuel f init s = init := by
  cases fuel with
  | zero => rfl
  | succ n => simp only [foldD, h]

theorem foldD_some {s s' : σ} {x : α} (h : next s = some (x, s')) (fuel : Nat) (f : β → α → β)
    (init : β) : foldD next (fuel + 1) f init s = foldD next fuel f (f init x) s' := by
  simp only [foldD, h]

/-- the state component of `advance_by` is `advance` -/
theorem advanceBy_state (n : Nat) (s : σ) : (advanceBy next n s).2 = advance next n s := by
  induction n generalizing s with
  | zero => rfl
  | succ n ih =>
    cases h : next s with
    | none => rw [advanceBy_none next h, advance_none next h]
    | some xs =>
      obtain ⟨x, s'⟩ := xs
      rw [advanceBy_some next h, advance_some next h, ih]

/-- `advance` composes: `m` calls and then `n` calls are `m + n` calls -/
theorem advance_add (m n : Nat) (s : σ) :
    advance next n (advance next m s) = advance next (m + n) s := by
  induction m generalizing s with
  | zero => simp only [Nat.zero_add, advance_zero]
  | succ m ih =>
    cases h : next s with
    | none => rw [advance_none next h, advance_none next h, advance_none next h]
    | some xs =>
      obtain ⟨x, s'⟩ := xs
      have e : m + 1 + n = (m + n) + 1 := by omega
      rw [advance_some next h, e, advance_some next h, ih]

/-- `nth(n)` is `n` calls of `next` followed by one more -/
theorem nthD_eq_advance (n : Nat) (s : σ) : nthD next n s = nthD next 0 (advance next n s) := by
  induction n generalizing s with
  | zero => rfl
  | succ n ih =>
    cases h : next s with
    | none => rw [nthD_none next h, advance_none next h, nthD_none next h]
    | some xs =>
      obtain ⟨x, s'⟩ := xs
      rw [nthD_succ_some next h, advance_some next h, ih]

/-- std's literal definition of `nth` (`advance_by(n).ok()?; next()`) is `nthD` -/
theorem nthStd_eq_nthD (n : Nat) (s : σ) : nthStd next n s = nthD next n s := by
  induction n generalizing s with
  | zero =>
    unfold nthStd
    simp only [advanceBy]
    cases h : next s with
    | none => rw [nthD_none next h]
    | some xs => obtain ⟨x, s'⟩ := xs; rw [nthD_zero_some next h]
  | succ n ih =>
    cases h : next s with
    | none =>
      unfold nthStd
      rw [advanceBy_none next h, nthD_none next h]
    | some xs =>
      obtain ⟨x, s'⟩ := xs
      have := ih s'
      unfold nthStd at this ⊢
      rw [advanceBy_some next h, nthD_succ_some next h, this]

/-- a `none` state is a fixpoint of everything -/
theorem stuck_of_none {s : σ} (h : next s = none) (n : Nat) :
    advance next n s = s ∧ next (advance next n s) = none := by
  rw [advance_none next h]; exact ⟨rfl, h⟩

theorem toList_none (μ : σ → Nat) {s : σ} (h : next s = none) : toList next μ s = [] :=
  collect_none next _ s h

theorem toList_eq_nil_iff (μ : σ → Nat) (s : σ) : toList next μ s = [] ↔ next s = none := by
  constructor
  · intro h
    cases hn : next s with
    | none => rfl
    | some xs =>
      obtain ⟨x, s'⟩ := xs
      unfold toList at h
      rw [collect_some next _ s s' x hn] at h
      exact absurd h (List.cons_ne_nil _ _)
  · exact toList_none next μ

end equations

/-! ### pure list facts -/

theorem foldl_count (l : List α) (n : Nat) : l.foldl (fun c _ => c + 1) n = n + l.length := by
  induction l generalizing n with
  | nil => rfl
  | cons x xs ih => rw [List.foldl_cons, ih, List.length_cons]; omega

theorem foldl_last (l : List α) (a : Option α) :
    l.foldl (fun _ x => some x) a = (l.getLast?).or a := by
  induction l generalizing a with
  | nil => simp
  | cons x xs ih =>
    rw [List.foldl_cons, ih, List.getLast?_cons]
    cases xs.getLast? <;> simp

/-! ### fuel irrelevance and the cursor view, under `Fused` -/

section fused
variable {next : σ → Option (α × σ)} {μ : σ → Nat} {Inv : σ → Prop}

/-- constructor: the `stuck` field is automatic -/
theorem Fused.of_decr
    (inv : ∀ s x s', Inv s → next s = some (x, s') → Inv s')
    (decr : ∀ s x s', Inv s → next s = some (x, s') → μ s' < μ s) : Fused next μ Inv :=
  ⟨inv, decr, fun _ h n => stuck_of_none next h n⟩

theorem none_of_measure_zero (h : Fused next μ Inv) {s : σ} (hs : Inv s) (h0 : μ s = 0) :
    next s = none := by
  cases hn : next s with
  | none => rfl
  | some xs =>
    obtain ⟨x, s'⟩ := xs
    have := h.decr s x s' hs hn
    omega

/-- any two fuels `≥ μ s` give the same list -/
theorem collect_fuel (h : Fused next μ Inv) (f1 f2 : Nat) (s : σ) (hs : Inv s)
    (h1 : μ s ≤ f1) (h2 : μ s ≤ f2) : collect next f1 s = collect next f2 s := by
  induction f1 generalizing f2 s with
  | zero =>
    have hn := none_of_measure_zero h hs (by omega)
    rw [collect_none next _ s hn, collect_none next _ s hn]
  | succ f1 ih =>
    cases hn : next s with
    | none => rw [collect_none next _ s hn, collect_none next _ s hn]
    | some xs =>
      obtain ⟨x, s'⟩ := xs
      have hd := h.decr s x s' hs hn
      cases f2 with
      | zero => omega
      | succ f2 =>
        rw [collect_some next f1 s s' x hn, collect_some next f2 s s' x hn,
          ih f2 s' (h.inv s x s' hs hn) (by omega) (by omega)]

theorem collect_eq_toList (h : Fused next μ Inv) {s : σ} (hs : Inv s) {fuel : Nat}
    (hf : μ s ≤ fuel) : collect next fuel s = toList next μ s :=
  collect_fuel h fuel (μ s + 1) s hs hf (by omega)

theorem toList_some (h : Fused next μ Inv) {s s' : σ} {x : α} (hs : Inv s)
    (hn : next s = some (x, s')) : toList next μ s = x :: toList next μ s' := by
  have hd := h.decr s x s' hs hn
  unfold toList
  rw [collect_some next (μ s) s s' x hn,
    collect_fuel h (μ s) (μ s' + 1) s' (h.inv s x s' hs hn) (by omega) (by omega)]

theorem toList_length_le (μ : σ → Nat) (s : σ) : (toList next μ s).length ≤ μ s + 1 :=
  collect_length_le next _ s

/-- the list has at most `μ s` items -/
theorem toList_length_le_measure (h : Fused next μ Inv) {s : σ} (hs : Inv s) :
    (toList next μ s).length ≤ μ s := by
  rw [← collect_eq_toList h hs (Nat.le_refl _)]
  exact collect_length_le next _ s

/-- `advance`: the remaining list is `drop`; invariant and measure bound are kept -/
theorem advance_spec (h : Fused next μ Inv) (m : Nat) (s : σ) (hs : Inv s) :
    toList next μ (advance next m s) = (toList next μ s).drop m ∧
      Inv (advance next m s) ∧ μ (advance next m s) ≤ μ s := by
  induction m generalizing s with
  | zero => exact ⟨rfl, hs, Nat.le_refl _⟩
  | succ m ih =>
    cases hn : next s with
    | none =>
      rw [advance_none next hn, toList_none next μ hn]
      exact ⟨by simp, hs, Nat.le_refl _⟩
    | some xs =>
      obtain ⟨x, s'⟩ := xs
      have hd := h.decr s x s' hs hn
      obtain ⟨i1, i2, i3⟩ := ih s' (h.inv s x s' hs hn)
      rw [advance_some next hn, toList_some h hs hn, List.drop_succ_cons]
      exact ⟨i1, i2, by omega⟩

/-- `advance_by(n)` succeeds iff `n` items remain -/
theorem advanceBy_ok (h : Fused next μ Inv) (n : Nat) (s : σ) (hs : Inv s) :
    (advanceBy next n s).1 = decide (n ≤ (toList next μ s).length) := by
  induction n generalizing s with
  | zero => simp [advanceBy]
  | succ n ih =>
    cases hn : next s with
    | none =>
      rw [advanceBy_none next hn, toList_none next μ hn]
      simp
    | some xs =>
      obtain ⟨x, s'⟩ := xs
      rw [advanceBy_some next hn, toList_some h hs hn, ih s' (h.inv s x s' hs hn)]
      simp

/-- `nth` from any state: the item, the remaining list, invariant, measure -/
theorem nthD_full (h : Fused next μ Inv) (n : Nat) (s : σ) (hs : Inv s) :
    (nthD next n s).1 = (toList next μ s)[n]? ∧
      toList next μ (nthD next n s).2 = (toList next μ s).drop (n + 1) ∧
      Inv (nthD next n s).2 ∧ μ (nthD next n s).2 ≤ μ s ∧
      ((nthD next n s).1 ≠ none → μ (nthD next n s).2 < μ s) := by
  induction n generalizing s with
  | zero =>
    cases hn : next s with
    | none =>
      rw [nthD_none next hn, toList_none next μ hn]
      exact ⟨rfl, List.drop_nil.symm, hs, Nat.le_refl _,
        fun hc => absurd rfl hc⟩
    | some xs =>
      obtain ⟨x, s'⟩ := xs
      have hd := h.decr s x s' hs hn
      rw [nthD_zero_some next hn, toList_some h hs hn]
      exact ⟨rfl, rfl, h.inv s x s' hs hn, Nat.le_of_lt hd, fun _ => hd⟩
  | succ n ih =>
    cases hn : next s with
    | none =>
      rw [nthD_none next hn, toList_none next μ hn]
      exact ⟨rfl, List.drop_nil.symm, hs, Nat.le_refl _,
        fun hc => absurd rfl hc⟩
    | some xs =>
      obtain ⟨x, s'⟩ := xs
      have hd := h.decr s x s' hs hn
      obtain ⟨i1, i2, i3, i4, i5⟩ := ih s' (h.inv s x s' hs hn)
      rw [nthD_succ_some next hn, toList_some h hs hn]
      refine ⟨?_, ?_, i3, by omega, fun hc => by have := i5 hc; omega⟩
      · rw [i1]; rfl
      · rw [i2]; rfl

theorem foldD_from (h : Fused next μ Inv) (fuel : Nat) (f : β → α → β) (init : β) (s : σ)
    (hs : Inv s) (hf : μ s ≤ fuel) :
    foldD next fuel f init s = (toList next μ s).foldl f init := by
  induction fuel generalizing init s with
  | zero =>
    have hn := none_of_measure_zero h hs (by omega)
    rw [foldD_none next hn, toList_none next μ hn]; rfl
  | succ fuel ih =>
    cases hn : next s with
    | none => rw [foldD_none next hn, toList_none next μ hn]; rfl
    | some xs =>
      obtain ⟨x, s'⟩ := xs
      have hd := h.decr s x s' hs hn
      rw [foldD_some next hn, toList_some h hs hn, List.foldl_cons,
        ih (f init x) s' (h.inv s x s' hs hn) (by omega)]

/-! ### adapters -/

theorem skipNext_zero (s : σ) :
    skipNext next (0, s) = (next s).map (fun r => (r.1, (0, r.2))) := by
  simp only [skipNext, Nat.lt_irrefl, gt_iff_lt, if_false]
  cases next s with
  | none => rfl
  | some xs => obtain ⟨x, s'⟩ := xs; rfl

/-- once the `n` items are skipped, `Skip` is the inner iterator -/
theorem collect_skip_zero (fuel : Nat) (s : σ) :
    collect (skipNext next) fuel (0, s) = collect next fuel s := by
  induction fuel generalizing s with
  | zero => rfl
  | succ fuel ih =>
    cases hn : next s with
    | none =>
      have : skipNext next (0, s) = none := by rw [skipNext_zero, hn]; rfl
      rw [collect_none _ _ _ this, collect_none _ _ _ hn]
    | some xs =>
      obtain ⟨x, s'⟩ := xs
      have : skipNext next (0, s) = some (x, (0, s')) := by rw [skipNext_zero, hn]; rfl
      rw [collect_some _ fuel _ _ _ this, collect_some _ fuel _ _ _ hn, ih]

theorem skip_from (h : Fused next μ Inv) (fuel n : Nat) (s : σ) (hs : Inv s) (hf : μ s ≤ fuel) :
    skipCollect next fuel n s = (toList next μ s).drop n := by
  unfold skipCollect
  cases n with
  | zero => rw [collect_skip_zero, collect_eq_toList h hs hf]; rfl
  | succ n =>
    obtain ⟨i1, i2, i3, i4, i5⟩ := nthD_full h (n + 1) s hs
    cases fuel with
    | zero =>
      have hn := none_of_measure_zero h hs (by omega)
      rw [toList_none next μ hn]; simp [collect]
    | succ fuel =>
      cases hr : nthD next (n + 1) s with
      | mk o s' =>
        rw [hr] at i1 i2 i3 i4 i5
        cases o with
        | none =>
          have hk : skipNext next (n + 1, s) = none := by
            simp only [skipNext, gt_iff_lt, Nat.zero_lt_succ, if_true, hr]
          have hlen : (toList next μ s).length ≤ n + 1 := by
            have := i1.symm
            simpa using this
          rw [collect_none _ _ _ hk, List.drop_eq_nil_of_le hlen]
        | some x =>
          have hk : skipNext next (n + 1, s) = some (x, (0, s')) := by
            simp only [skipNext, gt_iff_lt, Nat.zero_lt_succ, if_true, hr]
          have hlt := i5 (by simp)
          simp only at i1 i2 i3 hlt
          rw [collect_some _ fuel _ _ _ hk, collect_skip_zero,
            collect_eq_toList h i3 (by omega), i2]
          obtain ⟨hb, hx⟩ := List.getElem?_eq_some_iff.mp i1.symm
          rw [List.drop_eq_getElem_cons hb, hx]

theorem take_from (h : Fused next μ Inv) (fuel n : Nat) (s : σ) (hs : Inv s) (hf : μ s ≤ fuel) :
    takeCollect next fuel n s = (toList next μ s).take n := by
  unfold takeCollect
  induction fuel generalizing n s with
  | zero =>
    have hn := none_of_measure_zero h hs (by omega)
    rw [toList_none next μ hn]; simp [collect]
  | succ fuel ih =>
    cases n with
    | zero =>
      have hk : takeNext next (0, s) = none := by simp [takeNext]
      rw [collect_none _ _ _ hk]; simp
    | succ n =>
      cases hn : next s with
      | none =>
        have hk : takeNext next (n + 1, s) = none := by simp [takeNext, hn]
        rw [collect_none _ _ _ hk, toList_none next μ hn]; simp
      | some xs =>
        obtain ⟨x, s'⟩ := xs
        have hd := h.decr s x s' hs hn
        have hk : takeNext next (n + 1, s) = some (x, (n, s')) := by simp [takeNext, hn]
        rw [collect_some _ fuel _ _ _ hk, toList_some h hs hn, List.take_succ_cons,
          ih n s' (h.inv s x s' hs hn) (by omega)]

/-- `StepBy` after its first item: every `k`-th item, starting `k - 1` items ahead -/
theorem stepBy_rest (h : Fused next μ Inv) (k : Nat) (hk : 1 ≤ k) (fuel : Nat) (s : σ) (hs : Inv s)
    (hf : μ s ≤ fuel) (j : Nat) :
    (collect (stepByNext next k) fuel (false, s))[j]? = (toList next μ s)[j * k + (k - 1)]? := by
  induction fuel generalizing s j with
  | zero =>
    have hn := none_of_measure_zero h hs (by omega)
    rw [toList_none next μ hn]; simp [collect]
  | succ fuel ih =>
    obtain ⟨i1, i2, i3, i4, i5⟩ := nthD_full h (k - 1) s hs
    cases hr : nthD next (k - 1) s with
    | mk o s' =>
      rw [hr] at i1 i2 i3 i4 i5
      cases o with
      | none =>
        have hkk : stepByNext next k (false, s) = none := by
          simp only [stepByNext, Bool.false_eq_true, if_false, hr]
        have hlen : (toList next μ s).length ≤ k - 1 := by
          have := i1.symm
          simpa using this
        rw [collect_none _ _ _ hkk]
        have : (toList next μ s).length ≤ j * k + (k - 1) := by omega
        simp [List.getElem?_eq_none this]
      | some x =>
        have hkk : stepByNext next k (false, s) = some (x, (false, s')) := by
          simp only [stepByNext, Bool.false_eq_true, if_false, hr]
        have hlt := i5 (by simp)
        simp only at i1 i2 i3 hlt
        rw [collect_some _ fuel _ _ _ hkk]
        cases j with
        | zero => simp only [List.getElem?_cons_zero, Nat.zero_mul, Nat.zero_add]; exact i1
        | succ j =>
          rw [List.getElem?_cons_succ, ih s' i3 (by omega) j, i2, List.getElem?_drop]
          congr 1
          rw [Nat.succ_mul]; omega

theorem stepBy_from (h : Fused next μ Inv) (k : Nat) (hk : 1 ≤ k) (fuel : Nat) (s : σ) (hs : Inv s)
    (hf : μ s ≤ fuel) (j : Nat) :
    (stepByCollect next fuel k s)[j]? = (toList next μ s)[j * k]? := by
  unfold stepByCollect
  cases fuel with
  | zero =>
    have hn := none_of_measure_zero h hs (by omega)
    rw [toList_none next μ hn]; simp [collect]
  | succ fuel =>
    cases hn : next s with
    | none =>
      have hkk : stepByNext next k (true, s) = none := by
        simp only [stepByNext, if_true, nthD_none next hn]
      rw [collect_none _ _ _ hkk, toList_none next μ hn]; simp
    | some xs =>
      obtain ⟨x, s'⟩ := xs
      have hd := h.decr s x s' hs hn
      have hkk : stepByNext next k (true, s) = some (x, (false, s')) := by
        simp only [stepByNext, if_true, nthD_zero_some next hn]
      rw [collect_some _ fuel _ _ _ hkk, toList_some h hs hn]
      cases j with
      | zero => simp
      | succ j =>
        rw [List.getElem?_cons_succ, stepBy_rest h k hk fuel s' (h.inv s x s' hs hn) (by omega) j]
        have e : (j + 1) * k = (j * k + (k - 1)) + 1 := by rw [Nat.succ_mul]; omega
        rw [e, List.getElem?_cons_succ]

/-- a list whose `j`-th entry is the `j * k`-th entry of `l` has `⌈|l| / k⌉` entries -/
theorem length_of_stride (r l : List α) (k : Nat) (hk : 1 ≤ k) (hj : ∀ j, r[j]? = l[j * k]?) :
    r.length = (l.length + k - 1) / k := by
  have h1 : l.length ≤ r.length * k := by
    have := hj r.length
    rw [List.getElem?_eq_none (Nat.le_refl _)] at this
    exact List.getElem?_eq_none_iff.mp this.symm
  have h2 : r.length = 0 ∨ ∃ n, r.length = n + 1 ∧ n * k < l.length := by
    cases hr : r.length with
    | zero => exact Or.inl rfl
    | succ n =>
      right
      have := hj n
      have hlt : n < r.length := by omega
      rw [List.getElem?_eq_getElem hlt] at this
      obtain ⟨hb, _⟩ := List.getElem?_eq_some_iff.mp this.symm
      exact ⟨n, rfl, hb⟩
  apply Nat.le_antisymm
  · rw [Nat.le_div_iff_mul_le (by omega)]
    rcases h2 with h2 | ⟨n, h2, h3⟩
    · rw [h2]; omega
    · rw [h2, Nat.succ_mul]; omega
  · apply Nat.le_of_lt_succ
    rw [Nat.div_lt_iff_lt_mul (by omega), Nat.succ_mul]
    omega

/-- a `some` step of `Skip` moves the inner iterator to an `Inv` state of smaller measure -/
theorem skipNext_some (h : Fused next μ Inv) {n : Nat} {s : σ} (hs : Inv s) {x : α} {q : Nat × σ}
    (hq : skipNext next (n, s) = some (x, q)) : Inv q.2 ∧ μ q.2 < μ s := by
  simp only [skipNext] at hq
  by_cases hn0 : n > 0
  · simp only [hn0, if_true] at hq
    obtain ⟨_, _, i3, _, i5⟩ := nthD_full h n s hs
    cases hr : nthD next n s with
    | mk o s' =>
      rw [hr] at hq i3 i5
      cases o with
      | none => simp at hq
      | some y =>
        simp only [Option.some.injEq, Prod.mk.injEq] at hq
        obtain ⟨_, rfl⟩ := hq
        exact ⟨i3, i5 (by simp)⟩
  · simp only [hn0, if_false] at hq
    cases hn : next s with
    | none => simp [hn] at hq
    | some ys =>
      obtain ⟨y, s'⟩ := ys
      simp only [hn, Option.some.injEq, Prod.mk.injEq] at hq
      obtain ⟨_, rfl⟩ := hq
      exact ⟨h.inv s y s' hs hn, h.decr s y s' hs hn⟩

theorem takeNext_some (h : Fused next μ Inv) {n : Nat} {s : σ} (hs : Inv s) {x : α} {q : Nat × σ}
    (hq : takeNext next (n, s) = some (x, q)) : Inv q.2 ∧ μ q.2 < μ s := by
  by_cases hn0 : n = 0
  · simp [takeNext, hn0] at hq
  · cases hn : next s with
    | none => simp [takeNext, hn0, hn] at hq
    | some ys =>
      obtain ⟨y, s'⟩ := ys
      simp only [takeNext, ne_eq, hn0, not_false_eq_true, if_true, hn, Option.some.injEq,
        Prod.mk.injEq] at hq
      obtain ⟨_, rfl⟩ := hq
      exact ⟨h.inv s y s' hs hn, h.decr s y s' hs hn⟩

theorem stepByNext_some (h : Fused next μ Inv) (k : Nat) {b : Bool} {s : σ} (hs : Inv s) {x : α}
    {q : Bool × σ} (hq : stepByNext next k (b, s) = some (x, q)) : Inv q.2 ∧ μ q.2 < μ s := by
  simp only [stepByNext] at hq
  obtain ⟨_, _, i3, _, i5⟩ := nthD_full h (if b = true then 0 else k - 1) s hs
  cases hr : nthD next (if b = true then 0 else k - 1) s with
  | mk o s' =>
    rw [hr] at hq i3 i5
    cases o with
    | none => simp at hq
    | some y =>
      simp only [Option.some.injEq, Prod.mk.injEq] at hq
      obtain ⟨_, rfl⟩ := hq
      exact ⟨i3, i5 (by simp)⟩

end fused

/-! ### the list specification of `step_by` -/

theorem everyNthAux_getElem? (k : Nat) (hk : 1 ≤ k) (c : Nat) (l : List α) (j : Nat) :
    (everyNthAux k c l)[j]? = l[c + j * k]? := by
  induction l generalizing c j with
  | nil => simp [everyNthAux]
  | cons x xs ih =>
    cases c with
    | zero =>
      simp only [everyNthAux]
      cases j with
      | zero => simp
      | succ j =>
        rw [List.getElem?_cons_succ, ih]
        have e : 0 + (j + 1) * k = (k - 1 + j * k) + 1 := by rw [Nat.succ_mul]; omega
        rw [e, List.getElem?_cons_succ]
    | succ c =>
      simp only [everyNthAux]
      rw [ih]
      have e : c + 1 + j * k = (c + j * k) + 1 := by omega
      rw [e, List.getElem?_cons_succ]

end IterStdL
end BioSeq
