/-
  Helper definitions and lemmas shared by C13 / C14 (translation).
  (Helper lemmas only; the property theorems are in Props/C13.lean and Props/C14.lean.)

  * decidable equality of translation results,
  * the three symbols of a width-3 window of a list,
  * the refinement of the bit-level `contains` / `try_to_amino` on packed 4-bit codons to
    code-level `&`-tests, and of the flat "first matching row" search over all codons to a
    nested search that filters the rows once per symbol (used only to make the kernel
    evaluation of the 16^3 model table fast; proved equal for every row list).
-/
import BioSeq.Translation
import BioSeq.Lemmas.SeqLemmas
namespace BioSeq
namespace TransL
open BioSeq.Seq

instance instDecEqExceptTErr {α} [DecidableEq α] : DecidableEq (Except Translation.TErr α)
  | .ok a, .ok b => if h : a = b then isTrue (by rw [h]) else isFalse (by intro h'; injection h'; contradiction)
  | .error a, .error b => if h : a = b then isTrue (by rw [h]) else isFalse (by intro h'; injection h'; contradiction)
  | .ok _, .error _ => isFalse (by intro h; cases h)
  | .error _, .ok _ => isFalse (by intro h; cases h)

/-- outcome of a translation in the numbering of the extracted tables:
    amino code, 1000 ambiguous, 1001 invalid codon, 1002 other error, 1003 panic -/
def enc : Except Translation.TErr Nat → Nat
  | .ok a => a
  | .error .ambiguousTranslation => 1000
  | .error .invalidCodon => 1001
  | .error .panic => 1003
  | .error _ => 1002

/-! ### windows of width three -/

theorem take_drop_triple (cs : List Nat) (i : Nat) (h : i + 3 ≤ cs.length) :
    (cs.take (i + 3)).drop i = [cs.getD i 0, cs.getD (i + 1) 0, cs.getD (i + 2) 0] := by
  rw [List.drop_take, show i + 3 - i = 3 by omega]
  rw [List.drop_eq_getElem_cons (show i < cs.length by omega),
      List.drop_eq_getElem_cons (show i + 1 < cs.length by omega),
      List.drop_eq_getElem_cons (show i + 1 + 1 < cs.length by omega)]
  have e0 : cs.getD i 0 = cs[i]'(by omega) := by simp [List.getD, show i < cs.length by omega]
  have e1 : cs.getD (i + 1) 0 = cs[i + 1]'(by omega) := by simp [List.getD, show i + 1 < cs.length by omega]
  have e2 : cs.getD (i + 2) 0 = cs[i + 1 + 1]'(by omega) := by simp [List.getD, show i + 2 < cs.length by omega]
  rw [e0, e1, e2]
  simp only [List.take_succ_cons, List.take_zero]

theorem getD_fits {w : Nat} {cs : List Nat} (h : Fits w cs) (i : Nat) (hi : i < cs.length) : cs.getD i 0 < 2 ^ w := by
  have : cs.getD i 0 = cs[i] := by simp [List.getD, hi]
  rw [this]
  exact h _ (List.getElem_mem hi)

/-! ### bit-level `&` on concatenations -/

theorem bitop_length (f : Bool → Bool → Bool) (a b : Bits) : (bitop f a b).length = a.length := by
  induction a generalizing b with
  | nil => simp [bitop]
  | cons x xs ih => cases b <;> simp [bitop, ih]

theorem bitop_append (f : Bool → Bool → Bool) (a b c d : Bits) (h : a.length = c.length) :
    bitop f (a ++ b) (c ++ d) = bitop f a c ++ bitop f b d := by
  induction a generalizing c with
  | nil =>
    cases c with
    | nil => simp [bitop]
    | cons y ys => simp at h
  | cons x xs ih =>
    cases c with
    | nil => simp at h
    | cons y ys =>
      simp only [List.cons_append, bitop]
      rw [ih ys (by simpa using h)]

/-! ### code-level view of `try_to_amino` on 4-bit codons -/

/-- a row of the table as codes: the three pattern codes and the amino code -/
abbrev Row := (Nat × Nat × Nat) × Nat

def packRow (r : Row) : Bits × Nat := (pack 4 [r.1.1, r.1.2.1, r.1.2.2], r.2)

/-- `c ⊆ r` on one-hot IUPAC codes -/
def sub (c r : Nat) : Bool := c &&& r == c

def rowMatches (c : Nat × Nat × Nat) (r : Row) : Bool :=
  sub c.1 r.1.1 && sub c.2.1 r.1.2.1 && sub c.2.2 r.1.2.2

/-- first row whose pattern contains the codon, in the numbering of `enc` -/
def codeTry (rows : List Row) (c : Nat × Nat × Nat) : Nat :=
  match rows.find? (rowMatches c) with
  | some r => r.2
  | none => 1000

theorem and4 : ∀ r < 16, ∀ c < 16,
    (bitAnd (toBitsLE 4 r) (toBitsLE 4 c) = toBitsLE 4 c) ↔ sub c r = true := by decide +kernel

theorem contains_pack3 (cd : Codec) (hw : cd.width = 4) (r0 r1 r2 c0 c1 c2 : Nat)
    (hr0 : r0 < 16) (hr1 : r1 < 16) (hr2 : r2 < 16) (hc0 : c0 < 16) (hc1 : c1 < 16) (hc2 : c2 < 16) :
    Translation.contains cd (pack 4 [r0, r1, r2]) (pack 4 [c0, c1, c2]) = rowMatches (c0, c1, c2) ((r0, r1, r2), 0) := by
  have hlen : ∀ l : List Nat, l.length = 3 → len cd (pack 4 l) = 3 := by
    intro l hl; simp [len, hw, hl]
  unfold Translation.contains
  rw [hlen _ rfl, hlen _ rfl]
  simp only [ne_eq, not_true_eq_false, if_false]
  simp only [pack_cons, pack_nil, List.append_nil, bitAnd]
  rw [bitop_append _ _ _ _ _ (by simp), bitop_append _ _ _ _ _ (by simp)]
  rw [Bool.eq_iff_iff]
  simp only [decide_eq_true_eq, rowMatches, Bool.and_eq_true]
  have h0 := and4 r0 hr0 c0 hc0
  have h1 := and4 r1 hr1 c1 hc1
  have h2 := and4 r2 hr2 c2 hc2
  simp only [bitAnd] at h0 h1 h2
  constructor
  · intro h
    obtain ⟨e0, h'⟩ := List.append_inj h (by simp [bitop_length])
    obtain ⟨e1, e2⟩ := List.append_inj h' (by simp [bitop_length])
    exact ⟨⟨h0.mp e0, h1.mp e1⟩, h2.mp e2⟩
  · rintro ⟨⟨s0, s1⟩, s2⟩
    rw [h0.mpr s0, h1.mpr s1, h2.mpr s2]

theorem find?_congr' {α} {p q : α → Bool} {l : List α} (h : ∀ x ∈ l, p x = q x) : l.find? p = l.find? q := by
  induction l with
  | nil => rfl
  | cons x xs ih =>
    simp only [List.find?_cons, h x (by simp)]
    rw [ih (fun y hy => h y (by simp [hy]))]

def RowsFit (rows : List Row) : Prop := ∀ r ∈ rows, r.1.1 < 16 ∧ r.1.2.1 < 16 ∧ r.1.2.2 < 16

/-- `try_to_amino` on a packed three-symbol codon, against packed rows, is the code-level search -/
theorem tryToAmino_codes (cd : Codec) (hw : cd.width = 4) (rows : List Row) (hrows : RowsFit rows)
    (c0 c1 c2 : Nat) (hc0 : c0 < 16) (hc1 : c1 < 16) (hc2 : c2 < 16) :
    Translation.tryToAmino cd (rows.map packRow) (pack 4 [c0, c1, c2]) =
      match rows.find? (rowMatches (c0, c1, c2)) with
      | some r => .ok r.2
      | none => .error .ambiguousTranslation := by
  unfold Translation.tryToAmino
  have hlen : len cd (pack 4 [c0, c1, c2]) = 3 := by simp [len, hw]
  rw [hlen]
  simp only [ne_eq, not_true_eq_false, if_false]
  rw [List.find?_map]
  have : rows.find? ((fun r : Bits × Nat => Translation.contains cd r.1 (pack 4 [c0, c1, c2])) ∘ packRow)
      = rows.find? (rowMatches (c0, c1, c2)) := by
    apply find?_congr'
    intro r hr
    obtain ⟨h0, h1, h2⟩ := hrows r hr
    simp only [Function.comp, packRow]
    rw [contains_pack3 cd hw _ _ _ _ _ _ h0 h1 h2 hc0 hc1 hc2]
    rfl
  rw [this]
  cases rows.find? (rowMatches (c0, c1, c2)) <;> rfl

theorem enc_tryToAmino_codes (cd : Codec) (hw : cd.width = 4) (rows : List Row) (hrows : RowsFit rows)
    (c0 c1 c2 : Nat) (hc0 : c0 < 16) (hc1 : c1 < 16) (hc2 : c2 < 16) :
    enc (Translation.tryToAmino cd (rows.map packRow) (pack 4 [c0, c1, c2])) = codeTry rows (c0, c1, c2) := by
  rw [tryToAmino_codes cd hw rows hrows c0 c1 c2 hc0 hc1 hc2]
  unfold codeTry
  cases rows.find? (rowMatches (c0, c1, c2)) <;> rfl

/-! ### all codons over a code list, and the nested search -/

def codonsOn (L : List Nat) : List (Nat × Nat × Nat) :=
  L.flatMap fun i => L.flatMap fun j => L.map fun k => (i, j, k)

def firstBy (rows : List Row) (c2 : Nat) : Nat :=
  match rows.find? (fun r => sub c2 r.1.2.2) with
  | some r => r.2
  | none => 1000

/-- the table of `codeTry` over all codons, computed by filtering the rows once per symbol -/
def modelTableOn (L : List Nat) (rows : List Row) : List Nat :=
  L.flatMap fun c0 =>
    (fun rows0 => L.flatMap fun c1 =>
      (fun rows1 => L.map fun c2 => firstBy rows1 c2) (rows0.filter fun r => sub c1 r.1.2.1))
    (rows.filter fun r => sub c0 r.1.1)

theorem firstBy_filter (rows : List Row) (c0 c1 c2 : Nat) :
    firstBy ((rows.filter fun r => sub c0 r.1.1).filter fun r => sub c1 r.1.2.1) c2 = codeTry rows (c0, c1, c2) := by
  unfold firstBy codeTry
  rw [List.find?_filter, List.find?_filter]
  have : rows.find? (fun a => decide (sub c0 a.1.1 = true ∧
        (decide (sub c1 a.1.2.1 = true ∧ sub c2 a.1.2.2 = true)) = true)) = rows.find? (rowMatches (c0, c1, c2)) := by
    apply find?_congr'
    intro r _
    simp only [rowMatches, Bool.decide_and, Bool.decide_eq_true, Bool.and_assoc]
  rw [this]

theorem flatMap_congr' {α β} {f g : α → List β} {l : List α} (h : ∀ x ∈ l, f x = g x) :
    l.flatMap f = l.flatMap g := by
  induction l with
  | nil => rfl
  | cons x xs ih =>
    simp only [List.flatMap_cons, h x (by simp)]
    rw [ih (fun y hy => h y (by simp [hy]))]

theorem modelTableOn_eq (L : List Nat) (rows : List Row) :
    modelTableOn L rows = (codonsOn L).map (codeTry rows) := by
  unfold modelTableOn codonsOn
  rw [List.map_flatMap]
  apply flatMap_congr'
  intro c0 _
  rw [List.map_flatMap]
  apply flatMap_congr'
  intro c1 _
  rw [List.map_map]
  apply List.map_congr_left
  intro c2 _
  exact firstBy_filter rows c0 c1 c2

theorem mem_codonsOn (L : List Nat) (c0 c1 c2 : Nat) (h0 : c0 ∈ L) (h1 : c1 ∈ L) (h2 : c2 ∈ L) :
    (c0, c1, c2) ∈ codonsOn L := by
  unfold codonsOn
  simp only [List.mem_flatMap, List.mem_map]
  exact ⟨c0, h0, c1, h1, c2, h2, rfl⟩

theorem codonsOn_lt (L : List Nat) (n : Nat) (hL : ∀ x ∈ L, x < n) :
    ∀ c ∈ codonsOn L, c.1 < n ∧ c.2.1 < n ∧ c.2.2 < n := by
  intro c hc
  unfold codonsOn at hc
  simp only [List.mem_flatMap, List.mem_map] at hc
  obtain ⟨i, hi, j, hj, k, hk, rfl⟩ := hc
  exact ⟨hL i hi, hL j hj, hL k hk⟩

/-- pairing a list with its image: every element sits next to its image -/
theorem mem_zip_map {α β} (l : List α) (f : α → β) (x : α) (h : x ∈ l) : (x, f x) ∈ l.zip (l.map f) := by
  have : l.zip (l.map f) = l.map (fun a => (a, f a)) := by
    have := List.zip_map' (f := id) (g := f) (l := l)
    simpa using this
  rw [this]
  exact List.mem_map.mpr ⟨x, h, rfl⟩

/-! ### products of filtered lists -/

/-- all triples with components drawn from three lists, first component slowest -/
def matched (m0 m1 m2 : List Nat) : List (Nat × Nat × Nat) :=
  m0.flatMap fun d0 => m1.flatMap fun d1 => m2.map fun d2 => (d0, d1, d2)

theorem mem_matched (m0 m1 m2 : List Nat) (d : Nat × Nat × Nat) :
    d ∈ matched m0 m1 m2 ↔ d.1 ∈ m0 ∧ d.2.1 ∈ m1 ∧ d.2.2 ∈ m2 := by
  obtain ⟨d0, d1, d2⟩ := d
  simp only [matched, List.mem_flatMap, List.mem_map, Prod.mk.injEq]
  constructor
  · rintro ⟨a, ha, b, hb, c, hc, rfl, rfl, rfl⟩; exact ⟨ha, hb, hc⟩
  · rintro ⟨ha, hb, hc⟩; exact ⟨d0, ha, d1, hb, d2, hc, rfl, rfl, rfl⟩

theorem flatMap_filter_eq {α β} (q : α → Bool) (f : α → List β) (L : List α) :
    (L.filter q).flatMap f = L.flatMap (fun a => if q a then f a else []) := by
  induction L with
  | nil => rfl
  | cons a L ih =>
    cases h : q a <;> simp [h, ih]

/-- the product of three filtered lists is the filtered product (same order) -/
theorem matched_filter (L : List Nat) (q0 q1 q2 : Nat → Bool) :
    matched (L.filter q0) (L.filter q1) (L.filter q2) =
      (matched L L L).filter (fun d => q0 d.1 && q1 d.2.1 && q2 d.2.2) := by
  unfold matched
  rw [flatMap_filter_eq, List.filter_flatMap]
  apply flatMap_congr'
  intro d0 _
  rw [List.filter_flatMap]
  cases h0 : q0 d0
  · simp [List.filter_map, Function.comp_def, h0]
  · simp only [if_true]
    rw [flatMap_filter_eq]
    apply flatMap_congr'
    intro d1 _
    cases h1 : q1 d1
    · simp [List.filter_map, Function.comp_def, h1]
    · simp [List.filter_map, Function.comp_def, h0, h1]

/-- two filters of one list are equal iff the predicates agree on its elements -/
theorem filter_eq_filter_iff {α} (l : List α) (p q : α → Bool) :
    l.filter p = l.filter q ↔ ∀ a ∈ l, p a = q a := by
  constructor
  · intro h a ha
    have h1 : a ∈ l.filter p ↔ a ∈ l.filter q := by rw [h]
    simp only [List.mem_filter, ha, true_and] at h1
    cases hp : p a <;> cases hq : q a <;> simp_all
  · exact List.filter_congr

end TransL
end BioSeq
