/-
  Helper lemmas for C07 (reverse / complement / reverse-complement of sequences):
  how the chunk loops `mapChunks` (pure) and `mapChunksM` (may panic) act on a packing,
  and that they preserve the bit length.  Helper lemmas only; the property theorems are
  in Props/C07.lean.
-/
import BioSeq.Lemmas.SeqLemmas
namespace BioSeq
open BioSeq.Seq

/-- reversing all bits of a packing = the chunks in opposite order, each chunk bit-reversed -/
theorem reverse_pack (w : Nat) (cs : List Nat) :
    (pack w cs).reverse = (cs.reverse.map (fun c => (toBitsLE w c).reverse)).flatMap id := by
  unfold pack
  induction cs with
  | nil => rfl
  | cons c cs ih => simp [List.flatMap_cons, List.reverse_append, ih, List.flatMap_append]

/-- ... and reversing each chunk back leaves the symbols intact, in opposite order
    (adapted from spikes/lean/Rev.lean) -/
theorem mapChunks_reverse_pack (w : Nat) (cs : List Nat) :
    mapChunks w List.reverse cs.length (pack w cs).reverse = pack w cs.reverse := by
  rw [reverse_pack]
  have hl : cs.length = (cs.reverse.map (fun c => (toBitsLE w c).reverse)).length := by simp
  rw [hl, mapChunks_flatMap]
  · rw [List.flatMap_map]; unfold pack; congr 1; funext c; simp
  · intro x hx; simp at hx; obtain ⟨a, _, rfl⟩ := hx; simp

/-- a length-preserving chunk function yields `w * n` bits when `n` whole chunks are present -/
theorem mapChunks_length (w : Nat) (f : Bits → Bits) (hf : ∀ x, (f x).length = x.length)
    (n : Nat) (bs : Bits) (h : w * n ≤ bs.length) : (mapChunks w f n bs).length = w * n := by
  induction n generalizing bs with
  | zero => simp [mapChunks]
  | succ n ih =>
    rw [Nat.mul_succ] at h
    simp only [mapChunks, List.length_append, hf, List.length_take]
    rw [ih (bs.drop w) (by rw [List.length_drop]; omega), Nat.mul_succ]
    omega

/-- the monadic chunk loop never changes the bit length (any input, aligned or not) -/
theorem mapChunksM_length (w : Nat) (f : Bits → Res Bits)
    (hf : ∀ x y, f x = .ok y → y.length = x.length)
    (n : Nat) (bs r : Bits) (h : mapChunksM w f n bs = .ok r) : r.length = bs.length := by
  induction n generalizing bs r with
  | zero => simp only [mapChunksM] at h; injection h with h; rw [h]
  | succ n ih =>
    simp only [mapChunksM, bind, Except.bind] at h
    cases hc : f (bs.take w) with
    | error e => rw [hc] at h; cases h
    | ok ch =>
      rw [hc] at h
      cases hr : mapChunksM w f n (bs.drop w) with
      | error e => rw [hr] at h; cases h
      | ok rest =>
        rw [hr] at h
        injection h with h
        rw [← h, List.length_append, hf _ _ hc, ih _ _ hr, List.length_take, List.length_drop]
        omega

/-- the monadic chunk loop on a packing: if each chunk step turns the chunk of `x` into the
    chunk of `g x`, the loop turns the packing of `cs` into the packing of `cs.map g` -/
theorem mapChunksM_pack (w : Nat) (f : Bits → Res Bits) (g : Nat → Nat) (cs : List Nat)
    (h : ∀ x ∈ cs, f (toBitsLE w x) = .ok (toBitsLE w (g x))) :
    mapChunksM w f cs.length (pack w cs) = .ok (pack w (cs.map g)) := by
  induction cs with
  | nil => rfl
  | cons c cs ih =>
    simp only [List.length_cons, mapChunksM, pack_cons, List.map_cons]
    rw [List.take_left' (length_toBitsLE w c), List.drop_left' (length_toBitsLE w c)]
    rw [h c (by simp), ih (fun y hy => h y (by simp [hy]))]
    rfl

/-- the monadic chunk loop panics as soon as one chunk step panics -/
theorem mapChunksM_pack_error (w : Nat) (f : Bits → Res Bits) (cs : List Nat) (e : Err)
    (h : ∀ x ∈ cs, ∃ y, f (toBitsLE w x) = .ok y ∨ f (toBitsLE w x) = .error e)
    (x : Nat) (hx : x ∈ cs) (hxe : f (toBitsLE w x) = .error e) :
    mapChunksM w f cs.length (pack w cs) = .error e := by
  induction cs with
  | nil => simp at hx
  | cons c cs ih =>
    simp only [List.length_cons, mapChunksM, pack_cons]
    rw [List.take_left' (length_toBitsLE w c), List.drop_left' (length_toBitsLE w c)]
    rcases List.mem_cons.mp hx with rfl | hx'
    · rw [hxe]; rfl
    · have ih' := ih (fun y hy => h y (by simp [hy])) hx'
      rw [ih']
      obtain ⟨y, hy | hy⟩ := h c (by simp)
      · rw [hy]; rfl
      · rw [hy]; rfl

/-- one step of the per-chunk loops on the chunk of a listed symbol -/
theorem chunkOp_item (p : Profile) (c : Codec) (wf : CodecWF c) (op : Nat → Option Nat) (s t : Nat)
    (hs : s ∈ c.items) (ht : op s = some t) :
    chunkOp p c op (toBitsLE c.width s) = .ok (toBitsLE c.width t) := by
  unfold chunkOp
  rw [loadLE_toBitsLE 8 c.width s wf.width_pos wf.width_le (wf.item_lt s hs)]
  simp [bind, Except.bind, wf.item_unsafe s hs, optToRes, ht]

theorem chunkOp_item_none (p : Profile) (c : Codec) (wf : CodecWF c) (op : Nat → Option Nat) (s : Nat)
    (hs : s ∈ c.items) (ht : op s = none) :
    chunkOp p c op (toBitsLE c.width s) = .error .panic := by
  unfold chunkOp
  rw [loadLE_toBitsLE 8 c.width s wf.width_pos wf.width_le (wf.item_lt s hs)]
  simp [bind, Except.bind, wf.item_unsafe s hs, optToRes, ht]

/-- a chunk step stores back exactly as many bits as it loaded -/
theorem chunkOp_length (p : Profile) (c : Codec) (op : Nat → Option Nat) (x y : Bits)
    (h : chunkOp p c op x = .ok y) : y.length = x.length := by
  unfold chunkOp at h
  simp only [bind, Except.bind] at h
  cases h1 : loadLE 8 x with
  | error e => simp only [h1] at h; cases h
  | ok v =>
    simp only [h1] at h
    cases h2 : optToRes (c.unsafeFromBits v) with
    | error e => simp only [h2] at h; cases h
    | ok s =>
      simp only [h2] at h
      cases h3 : optToRes (op s) with
      | error e => simp only [h3] at h; cases h
      | ok s' =>
        simp only [h3] at h
        injection h with h
        rw [← h, length_toBitsLE]

end BioSeq
