/-
  Helper lemmas for C15: association lists updated by "insert or overwrite" steps
  (the shape shared by `Translation.invStep` and the step of `Translation.dedupLast`).
  (Helper lemmas only; the property theorems are in Props/C15.lean.)
-/
import BioSeq.Translation
namespace BioSeq
namespace C15L

/-- induction from the right end of a list -/
theorem snoc_induction {α} {P : List α → Prop} (nil : P [])
    (snoc : ∀ l a, P l → P (l ++ [a])) : ∀ l, P l := by
  have h : ∀ l : List α, P l.reverse := by
    intro l
    induction l with
    | nil => exact nil
    | cons a l ih => rw [List.reverse_cons]; exact snoc _ _ ih
  intro l
  have := h l.reverse
  rwa [List.reverse_reverse] at this

/-- one `HashMap`-style step on an association list with key projection `key`: if the key `k`
    is present, every entry with that key is rewritten by `upd`, otherwise `new` is appended -/
def upsert {α κ} [BEq κ] (key : α → κ) (k : κ) (upd : α → α) (new : α) (acc : List α) : List α :=
  if acc.any (fun x => key x == k) then acc.map (fun x => if key x == k then upd x else x)
  else acc ++ [new]

theorem find_key_spec {α κ} [BEq κ] [LawfulBEq κ] (key : α → κ) (q : κ) (l : List α) (x : α)
    (h : l.find? (fun y => key y == q) = some x) : key x = q := by
  have := List.find?_some h
  simpa using this

theorem find_upsert {α κ} [BEq κ] [LawfulBEq κ] (key : α → κ) (k : κ) (upd : α → α) (new : α)
    (hupd : ∀ x, key (upd x) = key x) (hnew : key new = k) (acc : List α) (q : κ) :
    (upsert key k upd new acc).find? (fun x => key x == q) =
      if q == k then
        (match acc.find? (fun x => key x == k) with
         | some x => some (upd x)
         | none => some new)
      else acc.find? (fun x => key x == q) := by
  unfold upsert
  by_cases hany : acc.any (fun x => key x == k) = true
  · rw [if_pos hany, List.find?_map]
    have hcomp : ((fun x => key x == q) ∘ fun x => if key x == k then upd x else x)
        = (fun x => key x == q) := by
      funext x
      simp only [Function.comp]
      split
      · rw [hupd]
      · rfl
    rw [hcomp]
    by_cases hq : q = k
    · subst hq
      rw [if_pos (beq_self_eq_true q)]
      cases hf : acc.find? (fun x => key x == q) with
      | none =>
        exfalso
        rw [List.any_eq_true] at hany
        obtain ⟨x, hx, hk⟩ := hany
        have := (List.find?_eq_none.mp hf) x hx
        exact this hk
      | some x =>
        have hx := find_key_spec key q acc x hf
        simp [hx]
    · rw [if_neg (by simpa using hq)]
      cases hf : acc.find? (fun x => key x == q) with
      | none => rfl
      | some x =>
        have hx := find_key_spec key q acc x hf
        have : ¬ key x = k := by rw [hx]; exact hq
        simp [this]
  · rw [if_neg hany, List.find?_append]
    by_cases hq : q = k
    · subst hq
      rw [if_pos (beq_self_eq_true q)]
      have hnone : acc.find? (fun x => key x == q) = none := by
        rw [List.find?_eq_none]
        intro x hx hk
        exact hany (List.any_eq_true.mpr ⟨x, hx, hk⟩)
      rw [hnone]
      simp [hnew]
    · rw [if_neg (by simpa using hq)]
      have : ([new].find? (fun x => key x == q)) = none := by
        simp [hnew]; exact fun h => hq h.symm
      rw [this]
      simp

theorem keys_upsert {α κ} [BEq κ] [LawfulBEq κ] (key : α → κ) (k : κ) (upd : α → α) (new : α)
    (hupd : ∀ x, key (upd x) = key x) (hnew : key new = k) (acc : List α) :
    (k ∈ acc.map key ∧ (upsert key k upd new acc).map key = acc.map key) ∨
    (¬ k ∈ acc.map key ∧ (upsert key k upd new acc).map key = acc.map key ++ [k]) := by
  unfold upsert
  by_cases hany : acc.any (fun x => key x == k) = true
  · have hmem : k ∈ acc.map key := by
      rw [List.any_eq_true] at hany
      obtain ⟨x, hx, hk⟩ := hany
      exact List.mem_map.mpr ⟨x, hx, by simpa using hk⟩
    refine Or.inl ⟨hmem, ?_⟩
    rw [if_pos hany, List.map_map]
    apply List.map_congr_left
    intro x _
    simp only [Function.comp]
    split
    · exact hupd x
    · rfl
  · have hmem : ¬ k ∈ acc.map key := by
      intro h
      obtain ⟨x, hx, hk⟩ := List.mem_map.mp h
      exact hany (List.any_eq_true.mpr ⟨x, hx, by simp [hk]⟩)
    refine Or.inr ⟨hmem, ?_⟩
    rw [if_neg hany, List.map_append, List.map_singleton, hnew]

theorem nodup_keys_upsert {α κ} [BEq κ] [LawfulBEq κ] (key : α → κ) (k : κ) (upd : α → α) (new : α)
    (hupd : ∀ x, key (upd x) = key x) (hnew : key new = k) (acc : List α)
    (h : (acc.map key).Nodup) : ((upsert key k upd new acc).map key).Nodup := by
  rcases keys_upsert key k upd new hupd hnew acc with ⟨_, e⟩ | ⟨hk, e⟩
  · rw [e]; exact h
  · rw [e, List.nodup_append]
    refine ⟨h, by simp, ?_⟩
    intro a ha b hb
    simp only [List.mem_singleton] at hb
    subst hb
    intro hab
    subst hab
    exact hk ha

/-- in a list with distinct keys, lookup by key finds exactly the members -/
theorem find_key_of_mem {α κ} [BEq κ] [LawfulBEq κ] (key : α → κ) (t : List α)
    (hnd : (t.map key).Nodup) (e : α) (he : e ∈ t) :
    t.find? (fun x => key x == key e) = some e := by
  induction t with
  | nil => cases he
  | cons x xs ih =>
    rw [List.map_cons, List.nodup_cons] at hnd
    by_cases hx : key x = key e
    · have : e = x := by
        rcases List.mem_cons.mp he with h | h
        · exact h
        · exfalso
          apply hnd.1
          rw [hx]
          exact List.mem_map.mpr ⟨e, h, rfl⟩
      subst this
      simp
    · have hne : e ≠ x := fun h => hx (by rw [h])
      have hmem : e ∈ xs := by
        rcases List.mem_cons.mp he with h | h
        · exact absurd h hne
        · exact h
      rw [List.find?_cons]
      have : (key x == key e) = false := by simpa using hx
      rw [this]
      exact ih hnd.2 hmem

theorem find_key_none {α κ} [BEq κ] [LawfulBEq κ] (key : α → κ) (t : List α) (k : κ)
    (h : ¬ k ∈ t.map key) : t.find? (fun x => key x == k) = none := by
  rw [List.find?_eq_none]
  intro x hx hk
  apply h
  exact List.mem_map.mpr ⟨x, hx, by simpa using hk⟩

theorem eq_singleton_of_nodup {α} (l : List α) (e : α) (hnd : l.Nodup) (hall : ∀ x ∈ l, x = e)
    (he : e ∈ l) : l = [e] := by
  cases l with
  | nil => cases he
  | cons x xs =>
    have hx : x = e := hall x (by simp)
    subst hx
    cases xs with
    | nil => rfl
    | cons y ys =>
      have hy : y = x := hall y (by simp)
      subst hy
      rw [List.nodup_cons] at hnd
      exact absurd (by simp) hnd.1

theorem two_le_length_of_mem_ne {α} (l : List α) (x y : α) (hx : x ∈ l) (hy : y ∈ l) (hne : x ≠ y) :
    2 ≤ l.length := by
  cases l with
  | nil => cases hx
  | cons a as =>
    cases as with
    | nil =>
      simp only [List.mem_singleton] at hx hy
      exact absurd (hx.trans hy.symm) hne
    | cons b bs => simp

theorem nodup_of_nodup_map {α β} (f : α → β) (l : List α) (h : (l.map f).Nodup) : l.Nodup := by
  induction l with
  | nil => exact List.nodup_nil
  | cons x xs ih =>
    rw [List.map_cons, List.nodup_cons] at h
    rw [List.nodup_cons]
    exact ⟨fun hx => h.1 (List.mem_map.mpr ⟨x, hx, rfl⟩), ih h.2⟩

/-- decidable equality of translation results (for the `decide` examples) -/
instance {α} [DecidableEq α] : DecidableEq (Except Translation.TErr α)
  | .ok a, .ok b => if h : a = b then isTrue (by rw [h]) else isFalse (by intro h'; injection h'; contradiction)
  | .error a, .error b => if h : a = b then isTrue (by rw [h]) else isFalse (by intro h'; injection h'; contradiction)
  | .ok _, .error _ => isFalse (by intro h; cases h)
  | .error _, .ok _ => isFalse (by intro h; cases h)

end C15L
end BioSeq
