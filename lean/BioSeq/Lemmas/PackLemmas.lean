/-
  Helper lemmas shared by C04 (little-endian packing layout) and C10 (colexicographic order):
  base-`2^w` digit lists, their little-endian value, the link to `pack`/`ofBitsLE`/`toBitsLE`,
  the raw word image, and the bit-list comparison `Seq.cmpBits`.
  (Helper lemmas only; the property theorems are in Props/C04.lean and Props/C10.lean.)
-/
import BioSeq.Lemmas.SeqLemmas
import BioSeq.Kmer
namespace BioSeq
open BioSeq.Seq

/-! ### base-`2^w` digits, little-endian -/

/-- little-endian value of a list of base-`2^w` digits: `Σ dᵢ · 2^(i·w)` -/
def ofDigitsLE (w : Nat) : List Nat → Nat
  | [] => 0
  | d :: ds => d + 2 ^ w * ofDigitsLE w ds

/-- the `K` low base-`2^w` digits of `x`, least significant first -/
def digitsLE (w : Nat) : Nat → Nat → List Nat
  | 0, _ => []
  | K+1, x => (x % 2 ^ w) :: digitsLE w K (x / 2 ^ w)

theorem ofDigitsLE_eq_kmer (w : Nat) (ds : List Nat) : ofDigitsLE w ds = Kmer.ofDigits w ds := by
  induction ds with
  | nil => rfl
  | cons d ds ih => simp [ofDigitsLE, Kmer.ofDigits, ih]

theorem digitsLE_eq_kmer (w K x : Nat) : digitsLE w K x = Kmer.digits w K x := by
  induction K generalizing x with
  | zero => rfl
  | succ K ih => simp [digitsLE, Kmer.digits, ih]

@[simp] theorem digitsLE_length (w K x : Nat) : (digitsLE w K x).length = K := by
  induction K generalizing x with
  | zero => rfl
  | succ K ih => simp [digitsLE, ih]

theorem digitsLE_fits (w K x : Nat) : Fits w (digitsLE w K x) := by
  induction K generalizing x with
  | zero => intro c hc; simp [digitsLE] at hc
  | succ K ih =>
    intro c hc
    simp only [digitsLE, List.mem_cons] at hc
    rcases hc with rfl | hc
    · exact Nat.mod_lt _ (Nat.two_pow_pos w)
    · exact ih _ c hc

theorem ofDigitsLE_digitsLE (w K x : Nat) (h : x < 2 ^ (K * w)) : ofDigitsLE w (digitsLE w K x) = x := by
  induction K generalizing x with
  | zero => simp at h; simp [digitsLE, ofDigitsLE, h]
  | succ K ih =>
    have h2 : x / 2 ^ w < 2 ^ (K * w) := by
      apply Nat.div_lt_of_lt_mul
      rw [← Nat.pow_add, Nat.add_comm, ← Nat.succ_mul]; exact h
    simp only [digitsLE, ofDigitsLE, ih _ h2]
    exact Nat.mod_add_div x (2 ^ w)

theorem digitsLE_ofDigitsLE (w : Nat) (ds : List Nat) (h : Fits w ds) :
    digitsLE w ds.length (ofDigitsLE w ds) = ds := by
  induction ds with
  | nil => rfl
  | cons d ds ih =>
    have hd : d < 2 ^ w := h d (by simp)
    have ih' := ih (fun x hx => h x (by simp [hx]))
    simp only [List.length_cons, digitsLE, ofDigitsLE]
    rw [Nat.add_mul_mod_self_left, Nat.mod_eq_of_lt hd]
    rw [Nat.add_mul_div_left _ _ (Nat.two_pow_pos w), Nat.div_eq_of_lt hd, Nat.zero_add, ih']

theorem ofDigitsLE_lt (w : Nat) (ds : List Nat) (h : Fits w ds) : ofDigitsLE w ds < 2 ^ (w * ds.length) := by
  induction ds with
  | nil => simp [ofDigitsLE]
  | cons d ds ih =>
    have hd := h d (by simp)
    have ih' := ih (fun x hx => h x (by simp [hx]))
    simp only [ofDigitsLE, List.length_cons, Nat.mul_succ, Nat.pow_add]
    have : 2 ^ w * ofDigitsLE w ds + 2 ^ w ≤ 2 ^ w * 2 ^ (w * ds.length) := by
      have := Nat.mul_le_mul_left (2 ^ w) (Nat.succ_le_of_lt ih')
      rw [Nat.mul_succ] at this; exact this
    rw [Nat.mul_comm (2 ^ (w * ds.length))]
    omega

theorem ofDigitsLE_inj (w : Nat) (as bs : List Nat) (hl : as.length = bs.length)
    (ha : Fits w as) (hb : Fits w bs) (h : ofDigitsLE w as = ofDigitsLE w bs) : as = bs := by
  have e1 := digitsLE_ofDigitsLE w as ha
  have e2 := digitsLE_ofDigitsLE w bs hb
  rw [← e1, ← e2, hl, h]

/-- the value as an explicit sum `Σ_{i<n} cᵢ · 2^(i·w)` -/
def digitSum (w : Nat) (cs : List Nat) : Nat :=
  ((List.range cs.length).map (fun i => cs.getD i 0 * 2 ^ (i * w))).sum

theorem sum_map_mul_left (l : List Nat) (f : Nat → Nat) (k : Nat) :
    (l.map (fun i => k * f i)).sum = k * (l.map f).sum := by
  induction l with
  | nil => simp
  | cons x xs ih => simp only [List.map_cons, List.sum_cons, ih, Nat.mul_add]

theorem ofDigitsLE_eq_digitSum (w : Nat) (cs : List Nat) : ofDigitsLE w cs = digitSum w cs := by
  induction cs with
  | nil => rfl
  | cons c cs ih =>
    unfold digitSum at *
    simp only [List.length_cons, List.range_succ_eq_map, List.map_cons, List.map_map, List.sum_cons,
      ofDigitsLE, ih]
    have e : ((fun i => (c :: cs).getD i 0 * 2 ^ (i * w)) ∘ Nat.succ)
        = fun i => 2 ^ w * (cs.getD i 0 * 2 ^ (i * w)) := by
      funext i
      simp only [Function.comp, List.getD_cons_succ, Nat.succ_mul, Nat.pow_add]
      rw [Nat.mul_comm (2 ^ (i * w)) (2 ^ w), ← Nat.mul_assoc, Nat.mul_comm _ (2 ^ w), Nat.mul_assoc]
    rw [e, sum_map_mul_left]
    simp

/-! ### packing = little-endian digits -/

theorem ofBitsLE_pack (w : Nat) (cs : List Nat) (h : Fits w cs) : ofBitsLE (pack w cs) = ofDigitsLE w cs := by
  induction cs with
  | nil => rfl
  | cons c cs ih =>
    have hc : c < 2 ^ w := h c (by simp)
    have ih' := ih (fun x hx => h x (by simp [hx]))
    rw [pack_cons, ofBitsLE_append, length_toBitsLE, ofBitsLE_toBitsLE w c hc, ih']
    rfl

theorem toBitsLE_add (a b n : Nat) : toBitsLE (a + b) n = toBitsLE a n ++ toBitsLE b (n / 2 ^ a) := by
  induction a generalizing n with
  | zero => simp [toBitsLE]
  | succ a ih =>
    have e : a + 1 + b = (a + b) + 1 := by omega
    rw [e]
    simp only [toBitsLE, List.cons_append, ih]
    rw [Nat.div_div_eq_div_mul, Nat.pow_succ, Nat.mul_comm 2]

theorem toBitsLE_zero (k : Nat) : toBitsLE k 0 = List.replicate k false := by
  induction k with
  | zero => rfl
  | succ k ih => simp [toBitsLE, ih, List.replicate_succ]

/-- storing a short bit string in a wider little-endian view zero-pads it -/
theorem toBitsLE_ofBitsLE_pad (n : Nat) (bs : Bits) (h : bs.length ≤ n) :
    toBitsLE n (ofBitsLE bs) = bs ++ List.replicate (n - bs.length) false := by
  have e : n = bs.length + (n - bs.length) := by omega
  conv => lhs; rw [e]
  rw [toBitsLE_add, toBitsLE_ofBitsLE, Nat.div_eq_of_lt (ofBitsLE_lt bs), toBitsLE_zero]

/-- the `K*w` low bits of an integer are the packing of its `K` low base-`2^w` digits -/
theorem pack_digitsLE (w K x : Nat) : pack w (digitsLE w K x) = toBitsLE (K * w) x := by
  induction K generalizing x with
  | zero => simp [digitsLE, toBitsLE]
  | succ K ih =>
    simp only [digitsLE, pack_cons, ih, toBitsLE_mod]
    rw [Nat.succ_mul, Nat.add_comm, toBitsLE_add]

/-! ### the `Display for Kmer` chunk loop on a packing of canonical codes -/

theorem displayChunks_pack (p : Profile) (c : Codec) (wf : CodecWF c) (cs : List Nat) (hc : Canon c cs) :
    Kmer.displayChunks p c cs.length (pack c.width cs) = .ok (cs.map c.toChar) := by
  induction cs with
  | nil => rfl
  | cons x cs ih =>
    have hx : x ∈ c.items := hc x (by simp)
    have ih' := ih (fun y hy => hc y (by simp [hy]))
    simp only [List.length_cons, Kmer.displayChunks, pack_cons]
    rw [List.take_left' (length_toBitsLE _ _), List.drop_left' (length_toBitsLE _ _)]
    rw [loadLE_toBitsLE 8 c.width x wf.width_pos wf.width_le (wf.item_lt _ hx)]
    simp only [bind, Except.bind, wf.item_unsafe _ hx, optToRes, ih']
    rfl

/-! ### raw word image -/

@[simp] theorem wordsOf_length (n : Nat) (bs : Bits) : (wordsOf n bs).length = n := by
  induction n generalizing bs with
  | zero => rfl
  | succ n ih => simp [wordsOf, ih]

@[simp] theorem bitsOfWords_length (ws : List Nat) : (bitsOfWords ws).length = 64 * ws.length := by
  induction ws with
  | nil => rfl
  | cons x xs ih =>
    simp only [bitsOfWords, List.flatMap_cons, List.length_append, length_toBitsLE, List.length_cons] at *
    rw [ih]; omega

theorem bitsOfWords_cons (x : Nat) (xs : List Nat) : bitsOfWords (x :: xs) = toBitsLE 64 x ++ bitsOfWords xs := by
  simp [bitsOfWords]

/-- word `j` of the image is the value of the `j`-th 64-bit window -/
theorem wordsOf_getElem? (n : Nat) (bs : Bits) (j : Nat) :
    (wordsOf n bs)[j]? = if j < n then some (ofBitsLE ((bs.drop (64 * j)).take 64)) else none := by
  induction n generalizing bs j with
  | zero => simp [wordsOf]
  | succ n ih =>
    cases j with
    | zero => simp [wordsOf]
    | succ j =>
      simp only [wordsOf, List.getElem?_cons_succ, ih, List.drop_drop, Nat.add_lt_add_iff_right]
      have : 64 + 64 * j = 64 * (j + 1) := by omega
      rw [this]

/-- the image, read back as bits, is the content followed by zero padding up to the word boundary -/
theorem bitsOfWords_wordsOf (n : Nat) (bs : Bits) (h : bs.length ≤ 64 * n) :
    bitsOfWords (wordsOf n bs) = bs ++ List.replicate (64 * n - bs.length) false := by
  induction n generalizing bs with
  | zero =>
    have : bs = [] := List.eq_nil_of_length_eq_zero (by omega)
    subst this; rfl
  | succ n ih =>
    simp only [wordsOf, bitsOfWords_cons]
    have hd : (bs.drop 64).length ≤ 64 * n := by rw [List.length_drop]; omega
    rw [ih _ hd, toBitsLE_ofBitsLE_pad 64 (bs.take 64) (by rw [List.length_take]; omega)]
    by_cases hl : 64 ≤ bs.length
    · have e1 : 64 - (bs.take 64).length = 0 := by rw [List.length_take]; omega
      have e2 : 64 * n - (bs.drop 64).length = 64 * (n + 1) - bs.length := by rw [List.length_drop]; omega
      rw [e1, e2, List.replicate_zero, List.append_nil, ← List.append_assoc, List.take_append_drop]
    · have e1 : bs.take 64 = bs := List.take_of_length_le (by omega)
      have e2 : bs.drop 64 = [] := List.drop_of_length_le (by omega)
      rw [e1, e2, List.length_nil, List.nil_append, List.append_assoc, List.replicate_append_replicate]
      congr 2
      omega

/-! ### `Seq.cmpBits` -/

/-- comparison of two bits, `false < true` -/
def cmpBit (a b : Bool) : Ordering := if a = b then .eq else if a = false then .lt else .gt

theorem cmpBits_cons (a b : Bool) (as bs : Bits) :
    cmpBits (a :: as) (b :: bs) = (cmpBit a b).then (cmpBits as bs) := by
  cases a <;> cases b <;> simp [cmpBits, cmpBit, Ordering.then]

/-- appending one more (least significant) bit to equal-length strings -/
theorem cmpBits_snoc (as bs : Bits) (x y : Bool) (hl : as.length = bs.length) :
    cmpBits (as ++ [x]) (bs ++ [y]) = (cmpBits as bs).then (cmpBit x y) := by
  induction as generalizing bs with
  | nil =>
    cases bs with
    | nil => cases x <;> cases y <;> simp [cmpBits, cmpBit, Ordering.then]
    | cons _ _ => simp at hl
  | cons a as ih =>
    cases bs with
    | nil => simp at hl
    | cons b bs =>
      simp only [List.cons_append, cmpBits_cons, ih bs (by simpa using hl)]
      cases cmpBit a b <;> rfl

theorem cmpBits_eq_iff (a b : Bits) : cmpBits a b = .eq ↔ a = b := by
  induction a generalizing b with
  | nil => cases b <;> simp [cmpBits]
  | cons x a ih =>
    cases b with
    | nil => simp [cmpBits]
    | cons y b =>
      rw [cmpBits_cons]
      cases x <;> cases y <;> simp [cmpBit, Ordering.then, ih]

theorem cmpBits_swap (a b : Bits) : cmpBits b a = (cmpBits a b).swap := by
  induction a generalizing b with
  | nil => cases b <;> simp [cmpBits, Ordering.swap]
  | cons x a ih =>
    cases b with
    | nil => simp [cmpBits, Ordering.swap]
    | cons y b =>
      rw [cmpBits_cons, cmpBits_cons, ih b]
      cases x <;> cases y <;> simp [cmpBit, Ordering.then, Ordering.swap]

theorem cmpBits_trans (a b c : Bits) (h1 : cmpBits a b = .lt) (h2 : cmpBits b c = .lt) : cmpBits a c = .lt := by
  induction a generalizing b c with
  | nil =>
    cases b with
    | nil => simp [cmpBits] at h1
    | cons y b =>
      cases c with
      | nil => simp [cmpBits] at h2
      | cons z c => simp [cmpBits]
  | cons x a ih =>
    cases b with
    | nil => simp [cmpBits] at h1
    | cons y b =>
      cases c with
      | nil => simp [cmpBits] at h2
      | cons z c =>
        rw [cmpBits_cons] at h1 h2 ⊢
        cases x <;> cases y <;> cases z <;>
          simp [cmpBit, Ordering.then] at h1 h2 ⊢ <;> exact ih _ _ h1 h2

/-- `compare` on `bit + 2·rest` is the lexicographic combination (rest first) -/
theorem compare_bit_add (x y : Bool) (A B : Nat) :
    compare ((if x then 1 else 0) + 2 * A) ((if y then 1 else 0) + 2 * B)
      = (compare A B).then (cmpBit x y) := by
  rcases Nat.lt_trichotomy A B with h | h | h
  · have h' : compare A B = .lt := Nat.compare_eq_lt.mpr h
    rw [h']
    simp only [Ordering.then]
    apply Nat.compare_eq_lt.mpr
    cases x <;> cases y <;> simp <;> omega
  · subst h
    have h' : compare A A = .eq := Nat.compare_eq_eq.mpr rfl
    rw [h']
    simp only [Ordering.then]
    cases x <;> cases y <;> simp [cmpBit, Nat.compare_eq_lt, Nat.compare_eq_gt]
  · have h' : compare A B = .gt := Nat.compare_eq_gt.mpr h
    rw [h']
    simp only [Ordering.then]
    apply Nat.compare_eq_gt.mpr
    cases x <;> cases y <;> simp <;> omega

/-- on equal-length bit strings `Seq.cmp` is the numeric order of the little-endian values -/
theorem cmp_eq_compare_ofBitsLE (a b : Bits) (hl : a.length = b.length) :
    Seq.cmp a b = compare (ofBitsLE a) (ofBitsLE b) := by
  induction a generalizing b with
  | nil =>
    cases b with
    | nil => rfl
    | cons _ _ => simp at hl
  | cons x a ih =>
    cases b with
    | nil => simp at hl
    | cons y b =>
      have hl' : a.length = b.length := by simpa using hl
      have ih' := ih b hl'
      unfold Seq.cmp at ih' ⊢
      simp only [List.reverse_cons, ofBitsLE]
      rw [cmpBits_snoc _ _ _ _ (by simpa using hl'), ih', compare_bit_add]

end BioSeq
