/-
  Helper lemmas relating the bit-level sequence model to lists of symbol codes.
  (Helper lemmas only; the property theorems are in Props/.)
-/
import BioSeq.Seq
namespace BioSeq
open Seq

/-- every code of the list fits in `w` bits -/
def Fits (w : Nat) (cs : List Nat) : Prop := ∀ c ∈ cs, c < 2 ^ w

theorem Fits.take {w cs} (h : Fits w cs) (n : Nat) : Fits w (cs.take n) :=
  fun c hc => h c (List.mem_of_mem_take hc)
theorem Fits.drop {w cs} (h : Fits w cs) (n : Nat) : Fits w (cs.drop n) :=
  fun c hc => h c (List.mem_of_mem_drop hc)
theorem Fits.append {w a b} (ha : Fits w a) (hb : Fits w b) : Fits w (a ++ b) := by
  intro c hc; rcases List.mem_append.mp hc with h | h
  · exact ha c h
  · exact hb c h
theorem Fits.reverse {w cs} (h : Fits w cs) : Fits w cs.reverse :=
  fun c hc => h c (List.mem_reverse.mp hc)
theorem fits_syms (w : Nat) (hw : 1 ≤ w) (bs : Bits) (h : w ∣ bs.length) : Fits w (syms w bs) :=
  syms_lt w hw bs h

theorem bitRange_ok (bs : Bits) (s e : Nat) (h1 : s ≤ e) (h2 : e ≤ bs.length) :
    bitRange bs s e = .ok ((bs.take e).drop s) := by
  simp [bitRange, h1, h2]

theorem bitRange_pack (w : Nat) (cs : List Nat) (a b : Nat) (hab : a ≤ b) (hb : b ≤ cs.length) :
    bitRange (pack w cs) (w * a) (w * b) = .ok (pack w ((cs.take b).drop a)) := by
  rw [bitRange_ok _ _ _ (Nat.mul_le_mul_left w hab) (by rw [pack_length]; exact Nat.mul_le_mul_left w hb)]
  rw [take_pack, drop_pack]

theorem len_pack (c : Codec) (hw : 1 ≤ c.width) (cs : List Nat) : len c (pack c.width cs) = cs.length := by
  simp [len, Nat.mul_div_cancel_left _ (by omega : 0 < c.width)]

/-- `&s[a..b]` on a packed sequence selects the codes `a..b` -/
theorem index_range_pack (p : Profile) (c : Codec) (cs : List Nat) (a b : Nat)
    (hab : a ≤ b) (hb : b ≤ cs.length) (hov : b * c.width < W64) :
    index p c (pack c.width cs) .range a b = .ok (pack c.width ((cs.take b).drop a)) := by
  have ha : a * c.width < W64 := Nat.lt_of_le_of_lt (Nat.mul_le_mul_right _ hab) hov
  simp only [index, umul_ok p a c.width ha, umul_ok p b c.width hov, bind, Except.bind]
  rw [Nat.mul_comm a, Nat.mul_comm b]
  exact bitRange_pack c.width cs a b hab hb

theorem take_drop_single {α} (l : List α) (i : Nat) (h : i < l.length) :
    (l.take (i + 1)).drop i = [l[i]] := by
  induction l generalizing i with
  | nil => simp at h
  | cons x xs ih =>
    cases i with
    | zero => simp
    | succ i =>
      simp only [List.take_succ_cons, List.drop_succ_cons, List.getElem_cons_succ]
      exact ih i (by simpa using h)

/-- `&s[i]` -/
theorem index_single_pack (p : Profile) (c : Codec) (cs : List Nat) (i : Nat)
    (hi : i < cs.length) (hov : (i + 1) * c.width < W64) :
    index p c (pack c.width cs) .single i 0 = .ok (toBitsLE c.width cs[i]) := by
  have h1 : i * c.width < W64 := by
    have : i * c.width ≤ (i + 1) * c.width := Nat.mul_le_mul_right _ (by omega)
    omega
  have h2 : i * c.width + c.width < W64 := by rw [Nat.succ_mul] at hov; exact hov
  simp only [index, umul_ok p i c.width h1, uadd_ok p _ _ h2, bind, Except.bind]
  have e : i * c.width + c.width = c.width * (i + 1) := by rw [Nat.mul_succ, Nat.mul_comm]
  rw [e, Nat.mul_comm i]
  rw [bitRange_pack c.width cs i (i + 1) (by omega) (by omega)]
  rw [take_drop_single cs i hi]
  simp

/-- a codec whose widths and canonical codes are sane (decidable; proved for every extracted codec) -/
structure CodecWF (c : Codec) : Prop where
  width_pos : 1 ≤ c.width
  width_le : c.width ≤ 8
  /-- everything the ASCII parser produces is a listed symbol -/
  ascii_item : ∀ b s, c.tryFromAscii b = some s → s ∈ c.items
  item_lt : ∀ s ∈ c.items, s < 2 ^ c.width
  /-- decoding a canonical code never panics and gives that symbol -/
  item_unsafe : ∀ s ∈ c.items, c.unsafeFromBits s = some s
  /-- a symbol's display character parses back to it -/
  item_char : ∀ s ∈ c.items, c.tryFromAscii (c.toChar s) = some s

/-- all chunks are canonical codes of listed symbols -/
def Canon (c : Codec) (cs : List Nat) : Prop := ∀ x ∈ cs, x ∈ c.items

theorem Canon.fits {c : Codec} (wf : CodecWF c) {cs} (h : Canon c cs) : Fits c.width cs :=
  fun x hx => wf.item_lt x (h x hx)

theorem loadLE_toBitsLE (m w x : Nat) (hw : 1 ≤ w) (hm : w ≤ m) (hx : x < 2 ^ w) :
    loadLE m (toBitsLE w x) = .ok x := by
  simp [loadLE, hw, hm, ofBitsLE_toBitsLE w x hx]

/-- `nth` on a packed canonical sequence -/
theorem nth_pack (p : Profile) (c : Codec) (wf : CodecWF c) (cs : List Nat) (hc : Canon c cs) (i : Nat)
    (hi : i < cs.length) (hov : (i + 1) * c.width < W64) :
    nth p c (pack c.width cs) i = .ok cs[i] := by
  have hmem : cs[i] ∈ c.items := hc _ (List.getElem_mem hi)
  simp only [nth, index_single_pack p c cs i hi hov, bind, Except.bind, toU8]
  rw [loadLE_toBitsLE 8 c.width cs[i] wf.width_pos wf.width_le (wf.item_lt _ hmem)]
  simp [wf.item_unsafe _ hmem, optToRes]

theorem mapM_ok_of_forall {α β} (f : α → Res β) (g : α → β) (l : List α) (h : ∀ x ∈ l, f x = .ok (g x)) :
    l.mapM f = .ok (l.map g) := by
  induction l with
  | nil => rfl
  | cons x xs ih =>
    rw [List.mapM_cons, h x (by simp), ih (fun y hy => h y (by simp [hy]))]
    rfl

theorem map_getElem_range {α} [Inhabited α] (l : List α) :
    (List.range l.length).map (fun i => l.getD i default) = l := by
  apply List.ext_getElem
  · simp
  · intro i h1 h2
    simp at h1
    simp [List.getD, h1]

/-- `iter()` of a packed canonical sequence yields exactly its codes -/
theorem iterSyms_pack (p : Profile) (c : Codec) (wf : CodecWF c) (cs : List Nat) (hc : Canon c cs)
    (hov : cs.length * c.width < W64) :
    iterSyms p c (pack c.width cs) = .ok cs := by
  unfold iterSyms
  rw [len_pack c wf.width_pos]
  have h : ∀ i ∈ List.range cs.length, nth p c (pack c.width cs) i = .ok (cs.getD i 0) := by
    intro i hi
    have hi' : i < cs.length := List.mem_range.mp hi
    have : (i + 1) * c.width < W64 :=
      Nat.lt_of_le_of_lt (Nat.mul_le_mul_right _ (by omega)) hov
    rw [nth_pack p c wf cs hc i hi' this]
    simp [List.getD, hi']
  rw [mapM_ok_of_forall _ _ _ h]
  congr 1
  exact map_getElem_range cs

/-- `push` appends one code -/
theorem push_pack (c : Codec) (hw : c.width ≤ 8) (cs : List Nat) (s : Nat) :
    push c (pack c.width cs) s = pack c.width (cs ++ [s]) := by
  simp [push, pack_append, take_toBitsLE 8 c.width s hw]

theorem extend_pack (c : Codec) (hw : c.width ≤ 8) (cs ss : List Nat) :
    extend c (pack c.width cs) ss = pack c.width (cs ++ ss) := by
  induction ss generalizing cs with
  | nil => simp [extend]
  | cons s ss ih =>
    simp only [extend, List.foldl_cons] at *
    rw [push_pack c hw, ih]
    simp

end BioSeq
