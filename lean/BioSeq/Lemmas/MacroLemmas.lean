/-
  Generic lemmas about the literal macros (`Macros.macroSeq`) against a per-character table: used by
  `Props/C16.lean` (both macros) and `Props/C12Literals.lean` (the `iupac!` table only, so that a defect of the
  `dna!` encoder is not an obligation of C12).  Kept in namespace `C16` (names unchanged).
-/
import BioSeq.Macros
import BioSeq.Props.C01
namespace BioSeq
namespace C16
open Macros

/-- the macro's per-character table agrees with the runtime parser of codec `c`:
    every byte the runtime parser accepts is ASCII and maps to one base with exactly the
    bits `push` would append; every table entry is one base of `width` bits -/
def tableOk (c : Codec) (t : CharTable) : Bool :=
  (List.range 256).all (fun cp => match c.tryFromAscii cp with
    | none => true
    | some code => decide (cp < 128) && charEntry t cp == some (1, toBitsLE c.width code))
  && t.all (fun e => match e with
    | none => true
    | some (k, b) => k == 1 && b.length == c.width)
  && decide (t.length = 128)

def tableFailures (c : Codec) (t : CharTable) : List Nat :=
  (List.range 256).filter (fun cp => match c.tryFromAscii cp with
    | none => false
    | some code => !(decide (cp < 128) && charEntry t cp == some (1, toBitsLE c.width code)))

structure TableWF (c : Codec) (t : CharTable) : Prop where
  accepts : ∀ cp code, c.tryFromAscii cp = some code → cp < 128 ∧ charEntry t cp = some (1, toBitsLE c.width code)
  entries : ∀ cp k b, charEntry t cp = some (k, b) → k = 1 ∧ b.length = c.width
  ascii : ∀ cp, cp ≥ 128 → charEntry t cp = none

theorem lookup_ge_none (t : List (Option Nat)) (b : Nat) (h : t.length ≤ b) : lookup t b = none := by
  simp [lookup, List.getD_eq_getElem?_getD, List.getElem?_eq_none h]

theorem tableWF_of_ok (c : Codec) (t : CharTable) (tab : List (Option Nat)) (htab : c.tryFromAscii = lookup tab)
    (hlen : tab.length = 256) (h : tableOk c t = true) : TableWF c t := by
  simp only [tableOk, Bool.and_eq_true, List.all_eq_true, List.mem_range, decide_eq_true_eq] at h
  obtain ⟨⟨h1, h2⟩, h3⟩ := h
  refine ⟨?_, ?_, ?_⟩
  · intro cp code hc
    have hlt : cp < 256 := by
      apply Classical.byContradiction
      intro hge
      rw [htab, lookup_ge_none tab cp (by omega)] at hc
      cases hc
    have := h1 cp hlt
    rw [hc] at this
    simpa using this
  · intro cp k b he
    unfold charEntry at he
    rw [List.getD_eq_getElem?_getD] at he
    cases hq : t[cp]? with
    | none => simp [hq] at he
    | some e =>
      simp [hq] at he
      subst he
      have := h2 _ (List.mem_of_getElem? hq)
      simpa using this
  · intro cp hge
    unfold charEntry
    rw [List.getD_eq_getElem?_getD, List.getElem?_eq_none (by omega)]
    rfl

/-- the loop on a string the runtime parser accepts appends exactly the runtime packing -/
theorem seqLoop_valid (c : Codec) (t : CharTable) (tw : TableWF c t) (cps : List Nat)
    (hv : ∀ cp ∈ cps, (c.tryFromAscii cp).isSome) (pos n : Nat) (acc : Bits) :
    seqLoop t pos cps (n, acc) = .ok (n + cps.length, acc ++ pack c.width (C01.symbolsOf c cps)) := by
  induction cps generalizing pos n acc with
  | nil => simp [seqLoop, C01.symbolsOf]
  | cons cp rest ih =>
    have h := hv cp (by simp)
    obtain ⟨code, hc⟩ := Option.isSome_iff_exists.mp h
    obtain ⟨_, he⟩ := tw.accepts cp code hc
    simp only [seqLoop, he]
    rw [ih (fun x hx => hv x (by simp [hx]))]
    simp only [C01.symbolsOf, List.filterMap_cons, hc, pack_cons, List.length_cons, List.append_assoc]
    congr 2
    omega

/-- **literal = runtime parse**: for every string the runtime parser accepts (any length,
    the empty literal included) the macro yields the same number of symbols and the same bits;
    equal length/symbols/hash/display then follow from C02 (all depend on the bits only) -/
theorem macro_eq_runtime (c : Codec) (wf : CodecWF c) (t : CharTable) (tw : TableWF c t) (cps : List Nat)
    (v : Bits) (h : Seq.parseBytes c cps = .ok v) :
    macroSeq t c.width cps = .ok (cps.length, v) := by
  have hall : ∀ b ∈ cps, (c.tryFromAscii b).isSome := (C01.parse_ok_iff c wf cps).mp ⟨v, h⟩
  have hascii : cps.any (fun c => decide (c ≥ 128)) = false := by
    rw [List.any_eq_false]
    intro cp hcp
    obtain ⟨code, hc⟩ := Option.isSome_iff_exists.mp (hall cp hcp)
    have := (tw.accepts cp code hc).1
    simp; omega
  obtain ⟨hlen, hs, _⟩ := C01.parse_ok_symbols c wf cps v h
  have hv : v = pack c.width (C01.symbolsOf c cps) := by
    rw [C01.parse_spec c wf] at h
    cases hf : cps.find? (C01.bad c) with
    | some b => rw [hf] at h; cases h
    | none => rw [hf] at h; injection h with h; exact h.symm
  simp only [macroSeq, hascii, Bool.false_eq_true, if_false]
  rw [seqLoop_valid c t tw cps hall 0 0 []]
  simp only [Nat.zero_add, List.nil_append]
  rw [← hv]
  congr 2
  apply List.take_of_length_le
  have : v.length = cps.length * c.width := by
    have e : Seq.len c v * c.width = v.length := by
      unfold Seq.len
      apply Nat.div_mul_cancel
      rw [hv, pack_length]; exact Nat.dvd_mul_right _ _
    rw [← e, hlen]
  omega

end C16
end BioSeq
