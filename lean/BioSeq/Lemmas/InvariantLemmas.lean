/-
  Helper lemmas for Props/Invariants.lean: one preservation lemma per constructor of the safe
  API, stated on the *packed* form of the invariant
      `Good c bs := ∃ cs, Canon c cs ∧ bs = pack c.width cs`
  (equivalent to `C03.Aligned c bs ∧ Canon c (syms c.width bs)` for a well-formed codec:
  `good_iff`).  The lemmas reuse the packed-form squares of C01 / C06 / C07 / C08 / C12 / C20
  (`parse_spec`, `push_pack`, `extend_pack`, `take_pack`, `drop_pack`, `rev_pack`, `comp_spec`,
  `mask_spec`, `bitAnd_pack`, `fromRaw_some`, `deref_pack`, `toSeq_spec`).
  (Helper lemmas only; the property theorems are in Props/Invariants.lean.)
-/
import BioSeq.Props.C01
import BioSeq.Props.C03
import BioSeq.Props.C04
import BioSeq.Props.C06
import BioSeq.Props.C07
import BioSeq.Props.C08
import BioSeq.Props.C12
import BioSeq.Props.C20
namespace BioSeq
namespace InvL
open BioSeq.Seq
open BioSeq.C03 (Aligned aligned_pack eq_pack)
open BioSeq.C06L (startOf endOf)

/-! ### the invariant, packed form -/

/-- the bit string is the packing of a list of canonical codes of listed symbols -/
def Good (c : Codec) (bs : Bits) : Prop := ∃ cs, Canon c cs ∧ bs = pack c.width cs

theorem good_iff (c : Codec) (wf : CodecWF c) (bs : Bits) :
    Good c bs ↔ Aligned c bs ∧ Canon c (syms c.width bs) := by
  constructor
  · rintro ⟨cs, hc, rfl⟩
    refine ⟨aligned_pack c cs, ?_⟩
    rw [syms_pack c.width wf.width_pos cs (hc.fits wf)]
    exact hc
  · rintro ⟨hal, hc⟩
    exact ⟨_, hc, eq_pack c wf.width_pos bs hal⟩

theorem good_pack (c : Codec) (cs : List Nat) (hc : Canon c cs) : Good c (pack c.width cs) := ⟨cs, hc, rfl⟩

theorem canon_nil (c : Codec) : Canon c [] := fun _ h => by simp at h
theorem Canon.take {c : Codec} {cs : List Nat} (h : Canon c cs) (n : Nat) : Canon c (cs.take n) :=
  fun x hx => h x (List.mem_of_mem_take hx)
theorem Canon.drop {c : Codec} {cs : List Nat} (h : Canon c cs) (n : Nat) : Canon c (cs.drop n) :=
  fun x hx => h x (List.mem_of_mem_drop hx)
theorem Canon.append {c : Codec} {a b : List Nat} (ha : Canon c a) (hb : Canon c b) : Canon c (a ++ b) := by
  intro x hx
  rcases List.mem_append.mp hx with h | h
  · exact ha x h
  · exact hb x h
theorem canon_single {c : Codec} {s : Nat} (h : s ∈ c.items) : Canon c [s] := by
  intro x hx
  simp only [List.mem_singleton] at hx
  subst hx; exact h

theorem canon_zipWith (c : Codec) (f : Nat → Nat → Nat)
    (hf : ∀ a ∈ c.items, ∀ b ∈ c.items, f a b ∈ c.items) (as bs : List Nat)
    (ha : Canon c as) (hb : Canon c bs) : Canon c (List.zipWith f as bs) := by
  induction as generalizing bs with
  | nil => intro x hx; simp at hx
  | cons a as ih =>
    cases bs with
    | nil => intro x hx; simp at hx
    | cons b bs =>
      intro x hx
      simp only [List.zipWith_cons_cons, List.mem_cons] at hx
      rcases hx with rfl | hx
      · exact hf a (ha a (by simp)) b (hb b (by simp))
      · exact ih bs (fun y hy => ha y (by simp [hy])) (fun y hy => hb y (by simp [hy])) x hx

/-! ### `usize` arithmetic: a successful product/sum is the exact one unless the release build wrapped -/

/-- a side condition that only the release build needs (in a debug build the overflow panics,
    so a successful call already implies it) -/
def NoWrap (p : Profile) (P : Prop) : Prop := p = .release → P

theorem NoWrap.debug {P : Prop} : NoWrap .debug P := fun h => by cases h
theorem NoWrap.intro {p : Profile} {P : Prop} (h : P) : NoWrap p P := fun _ => h
theorem NoWrap.imp {p : Profile} {P Q : Prop} (h : NoWrap p P) (f : P → Q) : NoWrap p Q := fun hp => f (h hp)

theorem umul_inv {p : Profile} {a b v : Nat} (h : umul p a b = .ok v) (g : NoWrap p (a * b < W64)) :
    v = a * b ∧ a * b < W64 := by
  unfold umul at h
  by_cases hlt : a * b < W64
  · rw [if_pos hlt] at h
    injection h with h
    exact ⟨h.symm, hlt⟩
  · cases p with
    | debug => rw [if_neg hlt] at h; cases h
    | release => exact absurd (g rfl) hlt

theorem uadd_inv {p : Profile} {a b v : Nat} (h : uadd p a b = .ok v) (g : NoWrap p (a + b < W64)) :
    v = a + b ∧ a + b < W64 := by
  unfold uadd at h
  by_cases hlt : a + b < W64
  · rw [if_pos hlt] at h
    injection h with h
    exact ⟨h.symm, hlt⟩
  · cases p with
    | debug => rw [if_neg hlt] at h; cases h
    | release => exact absurd (g rfl) hlt

theorem bind_ok {α β} {x : Res α} {f : α → Res β} {r : β} (h : (x >>= f) = .ok r) :
    ∃ v, x = .ok v ∧ f v = .ok r := by
  cases x with
  | error e => simp [bind, Except.bind] at h
  | ok v => exact ⟨v, rfl, h⟩

theorem bitRange_inv {bs r : Bits} {s e : Nat} (h : bitRange bs s e = .ok r) :
    r = (bs.take e).drop s ∧ s ≤ e ∧ e ≤ bs.length := by
  unfold bitRange at h
  by_cases hc : s ≤ e ∧ e ≤ bs.length
  · rw [if_pos hc] at h
    injection h with h
    exact ⟨h.symm, hc.1, hc.2⟩
  · rw [if_neg hc] at h; cases h

theorem lt_of_mul_lt (n w : Nat) (hw : 1 ≤ w) (h : n * w < W64) : n < W64 :=
  Nat.lt_of_le_of_lt (Nat.le_mul_of_pos_right n hw) h

/-! ### constructors: empty, parsers, collectors -/

theorem good_nil (c : Codec) : Good c [] := ⟨[], canon_nil c, rfl⟩

theorem good_parse (c : Codec) (wf : CodecWF c) (bytes : List Nat) (s : Bits)
    (h : parseBytes c bytes = .ok s) : Good c s := by
  rw [C01.parse_spec c wf] at h
  cases hf : bytes.find? (C01.bad c) with
  | some b => rw [hf] at h; cases h
  | none =>
    rw [hf] at h
    injection h with h
    exact ⟨_, C01.symbolsOf_canon c wf bytes, h.symm⟩

theorem good_trim (c : Codec) (wf : CodecWF c) (v : List Nat) (s : Bits)
    (h : Seq.trim c v = .ok s) : Good c s := by
  unfold Seq.trim at h
  exact good_parse c wf _ s h

theorem good_extend (c : Codec) (wf : CodecWF c) (bs : Bits) (hb : Good c bs) (ss : List Nat)
    (hs : Canon c ss) : Good c (Seq.extend c bs ss) := by
  obtain ⟨cs, (hc : Canon c cs), rfl⟩ := hb
  rw [extend_pack c wf.width_le]
  exact ⟨_, Canon.append hc hs, rfl⟩

theorem good_collect (c : Codec) (wf : CodecWF c) (ss : List Nat) (hs : Canon c ss) :
    Good c (Seq.extend c [] ss) :=
  good_extend c wf [] (good_nil c) ss hs

theorem good_push (c : Codec) (wf : CodecWF c) (bs : Bits) (hb : Good c bs) (s : Nat)
    (hs : s ∈ c.items) : Good c (Seq.push c bs s) := by
  obtain ⟨cs, (hc : Canon c cs), rfl⟩ := hb
  rw [push_pack c wf.width_le]
  exact ⟨_, Canon.append hc (canon_single hs), rfl⟩

/-! ### windows: `take` / `drop` at symbol boundaries -/

theorem good_take (c : Codec) (bs : Bits) (hb : Good c bs) (y : Nat) : Good c (bs.take (y * c.width)) := by
  obtain ⟨cs, (hc : Canon c cs), rfl⟩ := hb
  rw [Nat.mul_comm, take_pack]
  exact ⟨_, Canon.take hc y, rfl⟩

theorem good_drop (c : Codec) (bs : Bits) (hb : Good c bs) (x : Nat) : Good c (bs.drop (x * c.width)) := by
  obtain ⟨cs, (hc : Canon c cs), rfl⟩ := hb
  rw [Nat.mul_comm, drop_pack]
  exact ⟨_, Canon.drop hc x, rfl⟩

theorem good_window (c : Codec) (bs : Bits) (hb : Good c bs) (x y : Nat) :
    Good c ((bs.take (y * c.width)).drop (x * c.width)) :=
  good_drop c _ (good_take c bs hb y) x

theorem good_append (c : Codec) (a b : Bits) (ha : Good c a) (hb : Good c b) : Good c (a ++ b) := by
  obtain ⟨as, (hac : Canon c as), rfl⟩ := ha
  obtain ⟨bs, (hbc : Canon c bs), rfl⟩ := hb
  rw [← pack_append]
  exact ⟨_, Canon.append hac hbc, rfl⟩

theorem good_length (c : Codec) (bs : Bits) (hb : Good c bs) : bs.length = len c bs * c.width := by
  obtain ⟨cs, _, rfl⟩ := hb
  unfold len
  rw [pack_length, Nat.mul_comm]
  by_cases hw : c.width = 0
  · simp [hw]
  · rw [Nat.mul_div_cancel _ (by omega)]

/-! ### slicing: the seven `Index` forms -/

/-- the no-overflow guard of each range form: every `usize` product `index * BITS` (and the
    `b + 1` of the inclusive forms) the form computes is exact -/
def IdxGuard (c : Codec) : RangeForm → Nat → Nat → Prop
  | .range, a, b => a * c.width < W64 ∧ b * c.width < W64
  | .rangeTo, _, b => b * c.width < W64
  | .rangeToIncl, _, b => (b + 1) * c.width < W64
  | .rangeIncl, a, b => a * c.width < W64 ∧ (b + 1) * c.width < W64
  | .rangeFrom, a, _ => a * c.width < W64
  | .full, _, _ => True
  | .single, a, _ => (a + 1) * c.width < W64

instance (c : Codec) (f : RangeForm) (a b : Nat) : Decidable (IdxGuard c f a b) := by
  cases f <;> unfold IdxGuard <;> exact inferInstance

theorem good_index (p : Profile) (c : Codec) (hw : 1 ≤ c.width) (bs : Bits) (hb : Good c bs)
    (f : RangeForm) (a b : Nat) (g : NoWrap p (IdxGuard c f a b)) (r : Bits)
    (h : index p c bs f a b = .ok r) : Good c r := by
  cases f with
  | range =>
    simp only [index] at h
    obtain ⟨s, hs, h⟩ := bind_ok h
    obtain ⟨e, he, h⟩ := bind_ok h
    obtain ⟨rfl, _⟩ := umul_inv hs (g.imp (·.1))
    obtain ⟨rfl, _⟩ := umul_inv he (g.imp (·.2))
    rw [(bitRange_inv h).1]
    exact good_window c bs hb a b
  | rangeTo =>
    simp only [index] at h
    obtain ⟨e, he, h⟩ := bind_ok h
    obtain ⟨rfl, _⟩ := umul_inv he g
    rw [(bitRange_inv h).1, List.drop_zero]
    exact good_take c bs hb b
  | rangeToIncl =>
    simp only [index] at h
    obtain ⟨b1, hb1, h⟩ := bind_ok h
    obtain ⟨e, he, h⟩ := bind_ok h
    obtain ⟨rfl, _⟩ := uadd_inv hb1 (g.imp (lt_of_mul_lt _ _ hw))
    obtain ⟨rfl, _⟩ := umul_inv he g
    rw [(bitRange_inv h).1, List.drop_zero]
    exact good_take c bs hb (b + 1)
  | rangeIncl =>
    simp only [index] at h
    obtain ⟨s, hs, h⟩ := bind_ok h
    obtain ⟨b1, hb1, h⟩ := bind_ok h
    obtain ⟨e, he, h⟩ := bind_ok h
    obtain ⟨rfl, _⟩ := umul_inv hs (g.imp (·.1))
    obtain ⟨rfl, _⟩ := uadd_inv hb1 (g.imp (fun x => lt_of_mul_lt _ _ hw x.2))
    obtain ⟨rfl, _⟩ := umul_inv he (g.imp (·.2))
    rw [(bitRange_inv h).1]
    exact good_window c bs hb a (b + 1)
  | rangeFrom =>
    simp only [index] at h
    obtain ⟨s, hs, h⟩ := bind_ok h
    obtain ⟨rfl, _⟩ := umul_inv hs g
    rw [(bitRange_inv h).1, List.take_length]
    exact good_drop c bs hb a
  | full =>
    simp only [index] at h
    injection h with h
    rw [← h]; exact hb
  | single =>
    simp only [index] at h
    obtain ⟨s, hs, h⟩ := bind_ok h
    obtain ⟨e, he, h⟩ := bind_ok h
    have g1 : NoWrap p (a * c.width < W64) := g.imp (fun x => by
      have : a * c.width ≤ (a + 1) * c.width := Nat.mul_le_mul_right _ (by omega)
      simp only [IdxGuard] at x; omega)
    obtain ⟨rfl, _⟩ := umul_inv hs g1
    obtain ⟨rfl, _⟩ := uadd_inv he (g.imp (fun x => by simp only [IdxGuard, Nat.succ_mul] at x; exact x))
    rw [(bitRange_inv h).1, ← Nat.succ_mul]
    exact good_window c bs hb a (a + 1)

/-! ### edits -/

theorem good_insert (p : Profile) (c : Codec) (bs t : Bits) (hb : Good c bs) (ht : Good c t)
    (i : Nat) (g : NoWrap p (i * c.width < W64)) (r : Bits)
    (h : Seq.insert p c bs i t = .ok r) : Good c r := by
  unfold Seq.insert at h
  by_cases hi : i ≤ len c bs
  · rw [if_pos hi] at h
    obtain ⟨k, hk, h1⟩ := bind_ok h
    obtain ⟨rfl, _⟩ := umul_inv hk g
    obtain ⟨pre, hpre, h2⟩ := bind_ok h1
    obtain ⟨post, hpost, h3⟩ := bind_ok h2
    injection h3 with h3
    rw [← h3, (bitRange_inv hpre).1, (bitRange_inv hpost).1, List.drop_zero, List.take_length]
    exact good_append c _ _ (good_append c _ _ (good_take c bs hb i) ht) (good_drop c bs hb i)
  · rw [if_neg hi] at h; cases h

/-- `bit_range`: the start bound as computed (`Excluded(n)` adds one in `usize`) -/
def startM (p : Profile) : Bound → Res Nat
  | .incl n => pure n
  | .excl n => uadd p n 1
  | .unb => pure 0

/-- `bit_range`: the end bound as computed -/
def endM (p : Profile) (l : Nat) : Bound → Res Nat
  | .incl n => uadd p n 1
  | .excl n => pure n
  | .unb => pure l

/-- `remove` after the bounds are resolved: the two `debug_assert!`s, the bit offsets, `drain` -/
def removeCore (p : Profile) (c : Codec) (bs : Bits) (s e : Nat) : Res Bits :=
  if p = .debug ∧ ¬ (s ≤ e ∧ e ≤ len c bs) then .error .panic else do
  let sbit ← umul p s c.width
  let ebit ← umul p e c.width
  if sbit ≤ ebit ∧ ebit ≤ bs.length then .ok (bs.take sbit ++ bs.drop ebit) else .error .panic

theorem remove_eq (p : Profile) (c : Codec) (bs : Bits) (sb eb : Bound) :
    remove p c bs sb eb =
      (startM p sb >>= fun s => endM p (len c bs) eb >>= fun e => removeCore p c bs s e) := by
  cases sb <;> cases eb <;> rfl

/-- the resolved bounds of a successful `remove` -/
theorem remove_inv (p : Profile) (c : Codec) (hw : 1 ≤ c.width) (bs : Bits) (sb eb : Bound)
    (g : NoWrap p (startOf sb * c.width < W64 ∧ endOf (len c bs) eb * c.width < W64)) (r : Bits)
    (h : remove p c bs sb eb = .ok r) :
    r = bs.take (startOf sb * c.width) ++ bs.drop (endOf (len c bs) eb * c.width) := by
  rw [remove_eq] at h
  obtain ⟨s, hs, h1⟩ := bind_ok h
  obtain ⟨e, he, h2⟩ := bind_ok h1
  have es : s = startOf sb := by
    cases sb with
    | incl n => simp only [startM, pure, Except.pure] at hs; injection hs with hs; exact hs.symm
    | excl n => exact (uadd_inv hs (g.imp (fun x => lt_of_mul_lt _ _ hw x.1))).1
    | unb => simp only [startM, pure, Except.pure] at hs; injection hs with hs; exact hs.symm
  have ee : e = endOf (len c bs) eb := by
    cases eb with
    | incl n => exact (uadd_inv he (g.imp (fun x => lt_of_mul_lt _ _ hw x.2))).1
    | excl n => simp only [endM, pure, Except.pure] at he; injection he with he; exact he.symm
    | unb => simp only [endM, pure, Except.pure] at he; injection he with he; exact he.symm
  subst es ee
  unfold removeCore at h2
  split at h2
  · cases h2
  · obtain ⟨sbit, hsb, h3⟩ := bind_ok h2
    obtain ⟨rfl, _⟩ := umul_inv hsb (g.imp (·.1))
    obtain ⟨ebit, heb, h4⟩ := bind_ok h3
    obtain ⟨rfl, _⟩ := umul_inv heb (g.imp (·.2))
    split at h4
    · injection h4 with h4; exact h4.symm
    · cases h4

theorem good_remove (p : Profile) (c : Codec) (hw : 1 ≤ c.width) (bs : Bits) (hb : Good c bs)
    (sb eb : Bound)
    (g : NoWrap p (startOf sb * c.width < W64 ∧ endOf (len c bs) eb * c.width < W64)) (r : Bits)
    (h : remove p c bs sb eb = .ok r) : Good c r := by
  rw [remove_inv p c hw bs sb eb g r h]
  exact good_append c _ _ (good_take c bs hb _) (good_drop c bs hb _)

theorem good_truncate (p : Profile) (c : Codec) (bs : Bits) (hb : Good c bs) (n : Nat)
    (g : NoWrap p (n * c.width < W64)) (r : Bits) (h : truncate p c bs n = .ok r) : Good c r := by
  unfold truncate at h
  obtain ⟨k, hk, h⟩ := bind_ok h
  obtain ⟨rfl, _⟩ := umul_inv hk g
  injection h with h
  rw [← h]
  exact good_take c bs hb n

/-! ### reverse, complement, masking -/

theorem good_rev (c : Codec) (hw : 1 ≤ c.width) (bs : Bits) (hb : Good c bs) : Good c (Seq.rev c bs) := by
  obtain ⟨cs, (hc : Canon c cs), rfl⟩ := hb
  rw [C07.rev_pack c hw]
  exact ⟨_, C07.canon_reverse hc, rfl⟩

/-- the shared per-chunk loop with a symbol operation closed on `items()` -/
theorem good_seqOp (p : Profile) (c : Codec) (wf : CodecWF c) (op : Nat → Option Nat)
    (ow : C20.OpWF c op) (bs : Bits) (hb : Good c bs) :
    ∃ r, C20.seqOp p c op bs = .ok r ∧ Good c r := by
  obtain ⟨cs, (hc : Canon c cs), rfl⟩ := hb
  exact ⟨_, C20.seqOp_spec p c wf op ow cs hc, _, C20.canon_map_op c op ow cs hc, rfl⟩

theorem good_comp (p : Profile) (c : Codec) (wf : CodecWF c) (cw : C07.CompWF c) (bs : Bits)
    (hb : Good c bs) (r : Bits) (h : Seq.comp p c bs = .ok r) : Good c r := by
  obtain ⟨r', h1, h2⟩ := good_seqOp p c wf c.comp cw bs hb
  rw [← C20.comp_eq, h] at h1
  injection h1 with h1
  rw [h1]; exact h2

theorem good_mask (p : Profile) (c : Codec) (wf : CodecWF c) (mw : C20.MaskWF c) (bs : Bits)
    (hb : Good c bs) (r : Bits) (h : Seq.mask p c bs = .ok r) : Good c r := by
  obtain ⟨r', h1, h2⟩ := good_seqOp p c wf c.mask mw.1 bs hb
  rw [← C20.mask_eq, h] at h1
  injection h1 with h1
  rw [h1]; exact h2

theorem good_unmask (p : Profile) (c : Codec) (wf : CodecWF c) (mw : C20.MaskWF c) (bs : Bits)
    (hb : Good c bs) (r : Bits) (h : Seq.unmask p c bs = .ok r) : Good c r := by
  obtain ⟨r', h1, h2⟩ := good_seqOp p c wf c.unmask mw.2 bs hb
  rw [← C20.unmask_eq, h] at h1
  injection h1 with h1
  rw [h1]; exact h2

theorem good_revcomp (p : Profile) (c : Codec) (wf : CodecWF c) (cw : C07.CompWF c) (bs : Bits)
    (hb : Good c bs) (r : Bits) (h : Seq.revcomp p c bs = .ok r) : Good c r := by
  unfold Seq.revcomp at h
  cases hc : Seq.comp p c bs with
  | error e => rw [hc] at h; cases h
  | ok q =>
    rw [hc] at h
    simp only [Except.map] at h
    injection h with h
    rw [← h]
    exact good_rev c wf.width_pos q (good_comp p c wf cw bs hb q hc)

/-! ### bitwise `&` / `|` on a codec closed under the bit operations -/

/-- the listed symbols are closed under `&&&` and `|||` of their codes -/
def BitClosed (c : Codec) : Prop :=
  ∀ a ∈ c.items, ∀ b ∈ c.items, (a &&& b) ∈ c.items ∧ (a ||| b) ∈ c.items

/-- Boolean form of `BitClosed` (one linear walk per pair; evaluated by the kernel) -/
def bitClosedB (c : Codec) : Bool :=
  c.items.all fun a => c.items.all fun b => c.items.contains (a &&& b) && c.items.contains (a ||| b)

theorem bitClosedB_iff (c : Codec) : bitClosedB c = true ↔ BitClosed c := by
  simp only [bitClosedB, BitClosed, List.all_eq_true, Bool.and_eq_true, List.contains_eq_mem,
    decide_eq_true_eq]

instance (c : Codec) : Decidable (BitClosed c) := decidable_of_iff _ (bitClosedB_iff c)

/-- every code of the codec's width is a listed symbol (dna, iupac, masked iupac, 1-bit) -/
def FullCodec (c : Codec) : Prop := ∀ s, s < 2 ^ c.width → s ∈ c.items

/-- a codec using every code of its width is closed under the bit operations -/
theorem bitClosed_of_full (c : Codec) (wf : CodecWF c) (hf : FullCodec c) : BitClosed c := by
  intro a ha b hb
  exact ⟨hf _ (Nat.and_lt_two_pow a (wf.item_lt b hb)),
    hf _ (Nat.or_lt_two_pow (wf.item_lt a ha) (wf.item_lt b hb))⟩

theorem eq_len_of_pack (w : Nat) (hw : 1 ≤ w) (as bs : List Nat)
    (h : (pack w as).length = (pack w bs).length) : as.length = bs.length := by
  rw [pack_length, pack_length] at h
  exact Nat.eq_of_mul_eq_mul_left (by omega) h

theorem good_bitAnd (c : Codec) (hw : 1 ≤ c.width) (bc : BitClosed c) (a b : Bits) (ha : Good c a)
    (hb : Good c b) (hl : a.length = b.length) : Good c (Seq.bitAnd a b) := by
  obtain ⟨as, (hac : Canon c as), rfl⟩ := ha
  obtain ⟨bs, (hbc : Canon c bs), rfl⟩ := hb
  rw [C12.bitAnd_pack c.width as bs (eq_len_of_pack c.width hw as bs hl)]
  exact ⟨_, canon_zipWith c _ (fun x hx y hy => (bc x hx y hy).1) as bs hac hbc, rfl⟩

theorem good_bitOr (c : Codec) (hw : 1 ≤ c.width) (bc : BitClosed c) (a b : Bits) (ha : Good c a)
    (hb : Good c b) (hl : a.length = b.length) : Good c (Seq.bitOr a b) := by
  obtain ⟨as, (hac : Canon c as), rfl⟩ := ha
  obtain ⟨bs, (hbc : Canon c bs), rfl⟩ := hb
  rw [C12.bitOr_pack c.width as bs (eq_len_of_pack c.width hw as bs hl)]
  exact ⟨_, canon_zipWith c _ (fun x hx y hy => (bc x hx y hy).2) as bs hac hbc, rfl⟩

/-- `&` when the left operand is not longer: the result is the position-wise `&&&` of the left
    operand with the equally long prefix of the right one -/
theorem good_bitAnd_le (c : Codec) (hw : 1 ≤ c.width) (bc : BitClosed c) (a b : Bits) (ha : Good c a)
    (hb : Good c b) (hl : a.length ≤ b.length) : Good c (Seq.bitAnd a b) := by
  obtain ⟨as, (hac : Canon c as), rfl⟩ := ha
  obtain ⟨bs, (hbc : Canon c bs), rfl⟩ := hb
  rw [pack_length, pack_length] at hl
  have hl' : as.length ≤ bs.length := Nat.le_of_mul_le_mul_left hl (by omega)
  have e : pack c.width bs = pack c.width (bs.take as.length ++ bs.drop as.length) := by
    rw [List.take_append_drop]
  rw [e, C12.bitAnd_pack_left_shorter c.width as _ _ (by rw [List.length_take]; omega)]
  exact ⟨_, canon_zipWith c _ (fun x hx y hy => (bc x hx y hy).1) as _ hac (Canon.take hbc _), rfl⟩

/-- `|` for operands of any two lengths: surplus symbols of a longer left operand are kept,
    those of a longer right operand are dropped -/
theorem good_bitOr_any (c : Codec) (bc : BitClosed c) (a b : Bits) (ha : Good c a)
    (hb : Good c b) : Good c (Seq.bitOr a b) := by
  obtain ⟨as, (hac : Canon c as), rfl⟩ := ha
  obtain ⟨bs, (hbc : Canon c bs), rfl⟩ := hb
  by_cases hl : as.length ≤ bs.length
  · have e : pack c.width bs = pack c.width (bs.take as.length ++ bs.drop as.length) := by
      rw [List.take_append_drop]
    rw [e, C12.bitOr_pack_left_shorter c.width as _ _ (by rw [List.length_take]; omega)]
    exact ⟨_, canon_zipWith c _ (fun x hx y hy => (bc x hx y hy).2) as _ hac (Canon.take hbc _), rfl⟩
  · have e : pack c.width as = pack c.width (as.take bs.length ++ as.drop bs.length) := by
      rw [List.take_append_drop]
    rw [e, C12.bitOr_pack_left_longer c.width _ _ bs (by rw [List.length_take]; omega)]
    exact ⟨_, Canon.append
      (canon_zipWith c _ (fun x hx y hy => (bc x hx y hy).2) _ bs (Canon.take hac _) hbc)
      (Canon.drop hac _), rfl⟩

/-! ### the raw round trip `from_raw(n, into_raw())`, `n ≤ len` -/

theorem fromRaw_intoRaw_take (c : Codec) (hw : 1 ≤ c.width) (bs : Bits) (hal : Aligned c bs) (n : Nat)
    (hn : n ≤ len c bs) (r : Bits) (h : Seq.fromRaw c n (Seq.intoRaw bs) = some r) :
    r = bs.take (n * c.width) := by
  obtain ⟨hr, _⟩ := C04.fromRaw_some c hw n _ r h
  have e : len c bs * c.width = bs.length := by unfold len; exact Nat.div_mul_cancel hal
  have hle : n * c.width ≤ bs.length := by rw [← e]; exact Nat.mul_le_mul_right _ hn
  rw [hr]
  conv => rhs; rw [← C04.intoRaw_layout bs]
  rw [List.take_take, Nat.min_eq_left hle]

theorem good_raw (c : Codec) (wf : CodecWF c) (bs : Bits) (hb : Good c bs) (n : Nat)
    (hn : n ≤ len c bs) (r : Bits) (h : Seq.fromRaw c n (Seq.intoRaw bs) = some r) : Good c r := by
  rw [fromRaw_intoRaw_take c wf.width_pos bs (((good_iff c wf bs).mp hb).1) n hn r h]
  exact good_take c bs hb n

/-! ### k-mers: a successful `try_from` holds exactly the slice's bits -/

theorem tryFrom_inv (p : Profile) (c : Codec) (hw : 1 ≤ c.width) (K : Nat) (cs : List Nat) (v : Nat)
    (g : NoWrap p (K * c.width < W64))
    (h : Kmer.tryFrom p c K .usize (pack c.width cs) = .ok v) :
    cs.length = K ∧ K * c.width ≤ 64 ∧ v = ofBitsLE (pack c.width cs) := by
  unfold Kmer.tryFrom at h
  rw [len_pack c hw] at h
  by_cases hl : cs.length = K
  · rw [if_pos hl] at h
    obtain ⟨s, hs, h⟩ := bind_ok h
    simp only [index] at hs
    obtain ⟨s0, hs0, hs⟩ := bind_ok hs
    obtain ⟨e, he, hs⟩ := bind_ok hs
    obtain ⟨rfl, _⟩ := umul_inv hs0 (NoWrap.intro (by simp [W64]))
    obtain ⟨rfl, _⟩ := umul_inv he g
    have hs' := (bitRange_inv hs).1
    rw [Nat.zero_mul, List.drop_zero] at hs'
    have hfull : (pack c.width cs).take (K * c.width) = pack c.width cs := by
      apply List.take_of_length_le
      rw [pack_length, hl, Nat.mul_comm]; exact Nat.le_refl _
    rw [hfull] at hs'
    subst hs'
    unfold Kmer.unsafeFrom at h
    split at h
    · cases h
    · unfold Kmer.fromBitslice loadLE at h
      split at h
      · rename_i hlen
        injection h with h
        refine ⟨hl, ?_, h.symm⟩
        have := hlen.2
        rw [pack_length, hl, Nat.mul_comm] at this
        exact this
      · cases h
  · rw [if_neg hl] at h; cases h

theorem good_kmerDeref (p : Profile) (c : Codec) (hw : 1 ≤ c.width) (bs : Bits) (hb : Good c bs)
    (K v : Nat) (g : NoWrap p (K * c.width < W64))
    (h : Kmer.tryFrom p c K .usize bs = .ok v) : Kmer.deref c K v = bs := by
  obtain ⟨cs, _, rfl⟩ := hb
  obtain ⟨hl, hst, rfl⟩ := tryFrom_inv p c hw K cs v g h
  exact deref_pack c K cs hl hst

theorem good_kmerToSeq (p : Profile) (c : Codec) (wf : CodecWF c) (bs : Bits) (hb : Good c bs)
    (K v : Nat) (g : NoWrap p (K * c.width < W64))
    (h : Kmer.tryFrom p c K .usize bs = .ok v) : Kmer.toSeq p c K v = .ok bs := by
  obtain ⟨cs, (hc : Canon c cs), rfl⟩ := hb
  obtain ⟨hl, hst, rfl⟩ := tryFrom_inv p c wf.width_pos K cs v g h
  exact C08.toSeq_spec p c wf K hst cs hc hl

end InvL
end BioSeq
