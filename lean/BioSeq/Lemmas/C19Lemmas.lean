/-
  Helper lemmas for C19: `findIdx?`/`drop`/`take` versus `dropWhile` (position / rposition
  of the first / last element satisfying a predicate), and spans delimited by them.
  (Helper lemmas only; the property theorems are in Props/C19.lean.)
-/
import BioSeq.Seq
namespace BioSeq
namespace C19L

/-- dropping up to the `position` of the first element satisfying `ok` (everything when
    there is none) = dropping while `ok` fails -/
theorem drop_findIdx {α} (ok : α → Bool) (v : List α) :
    v.drop ((v.findIdx? ok).getD v.length) = v.dropWhile (fun b => !ok b) := by
  induction v with
  | nil => rfl
  | cons x xs ih =>
    rw [List.findIdx?_cons, List.dropWhile_cons]
    by_cases hx : ok x = true
    · simp [hx]
    · have hx' : ok x = false := by simpa using hx
      simp only [hx', Bool.false_eq_true, if_false, Bool.not_false, if_true]
      cases h : xs.findIdx? ok with
      | none =>
        rw [h] at ih
        simpa using ih
      | some i =>
        rw [h] at ih
        simpa using ih

/-- keeping up to (and including) the `rposition` of the last element satisfying `ok`
    (nothing when there is none) = dropping from the right while `ok` fails -/
theorem take_rfindIdx {α} (ok : α → Bool) (l : List α) :
    l.take (match l.reverse.findIdx? ok with
      | some j => l.length - j
      | none => 0) = (l.reverse.dropWhile (fun b => !ok b)).reverse := by
  have h := drop_findIdx ok l.reverse
  cases hf : l.reverse.findIdx? ok with
  | none =>
    rw [hf] at h
    simp only [Option.getD_none, List.drop_length] at h
    rw [← h]
    simp
  | some j =>
    rw [hf] at h
    simp only [Option.getD_some] at h
    rw [← h, List.reverse_drop]
    simp

theorem mem_takeWhile {α} (p : α → Bool) (l : List α) : ∀ x ∈ l.takeWhile p, p x = true := by
  induction l with
  | nil => intro x hx; cases hx
  | cons a as ih =>
    intro x hx
    rw [List.takeWhile_cons] at hx
    by_cases ha : p a = true
    · rw [if_pos ha] at hx
      rcases List.mem_cons.mp hx with h | h
      · rw [h]; exact ha
      · exact ih x h
    · rw [if_neg ha] at hx; cases hx

theorem dropWhile_all {α} (p : α → Bool) (l : List α) (h : ∀ x ∈ l, p x = true) : l.dropWhile p = [] := by
  have := List.dropWhile_append_of_pos (p := p) (l₁ := l) (l₂ := []) h
  simpa using this

theorem head_dropWhile {α} (p : α → Bool) (l : List α) (x : α) (h : (l.dropWhile p).head? = some x) :
    p x = false := by
  have := List.head?_dropWhile_not p l
  rw [h] at this
  exact this

/-- the span obtained by stripping, from both ends, the elements satisfying `p` -/
def strip {α} (p : α → Bool) (v : List α) : List α := ((v.dropWhile p).reverse.dropWhile p).reverse

/-- existence: the stripped span sits between a prefix and a suffix of `p`-elements, and is
    empty or begins and ends with a non-`p` element -/
theorem strip_decomp {α} (p : α → Bool) (v : List α) :
    ∃ pre post, v = pre ++ strip p v ++ post ∧ (∀ x ∈ pre, p x = true) ∧ (∀ x ∈ post, p x = true) ∧
      (∀ x, (strip p v).head? = some x → p x = false) ∧
      (∀ x, (strip p v).getLast? = some x → p x = false) := by
  have hd : (v.dropWhile p) = strip p v ++ ((v.dropWhile p).reverse.takeWhile p).reverse := by
    have := List.takeWhile_append_dropWhile (p := p) (l := (v.dropWhile p).reverse)
    have h2 := congrArg List.reverse this
    rw [List.reverse_append, List.reverse_reverse] at h2
    exact h2.symm
  refine ⟨v.takeWhile p, ((v.dropWhile p).reverse.takeWhile p).reverse, ?_, mem_takeWhile p v, ?_, ?_, ?_⟩
  · rw [List.append_assoc, ← hd, List.takeWhile_append_dropWhile]
  · intro x hx
    exact mem_takeWhile p _ x (List.mem_reverse.mp hx)
  · intro x hx
    apply head_dropWhile p v x
    rw [hd]
    cases hs : strip p v with
    | nil => rw [hs] at hx; cases hx
    | cons y ys => rw [hs] at hx; simpa using hx
  · intro x hx
    apply head_dropWhile p (v.dropWhile p).reverse x
    rw [← hx, strip, List.getLast?_reverse]

/-- uniqueness: any such decomposition has the stripped span in the middle -/
theorem strip_unique {α} (p : α → Bool) (pre core post : List α)
    (hpre : ∀ x ∈ pre, p x = true) (hpost : ∀ x ∈ post, p x = true)
    (hhead : ∀ x, core.head? = some x → p x = false)
    (hlast : ∀ x, core.getLast? = some x → p x = false) :
    strip p (pre ++ core ++ post) = core := by
  unfold strip
  rw [List.append_assoc, List.dropWhile_append_of_pos hpre]
  cases core with
  | nil =>
    rw [List.nil_append, dropWhile_all p post hpost]
    rfl
  | cons y ys =>
    have hy : ¬ p y = true := by simp [hhead y rfl]
    rw [List.cons_append, List.dropWhile_cons_of_neg hy, ← List.cons_append, List.reverse_append,
      List.dropWhile_append_of_pos (fun x hx => hpost x (List.mem_reverse.mp hx))]
    cases hr : (y :: ys).reverse with
    | nil => simp at hr
    | cons z zs =>
      have hz : ¬ p z = true := by
        have : (y :: ys).getLast? = some z := by
          rw [← List.head?_reverse, hr]; rfl
        simp [hlast z this]
      rw [List.dropWhile_cons_of_neg hz, ← hr, List.reverse_reverse]

end C19L
end BioSeq
