/-
  Helper lemmas about the k-mer model on packed symbol lists (used by Props/C02, Props/C08).
  (Helper lemmas only; the property theorems are in Props/.)
-/
import BioSeq.Kmer
import BioSeq.Iter
import BioSeq.Lemmas.SeqLemmas
namespace BioSeq
open BioSeq.Seq

theorem Storage.bits_lt_W64 (st : Storage) : st.bits < W64 := by
  cases st <;> simp [Storage.bits, W64]

/-- the stored integer of a packed symbol list is below `2^(w*n)` -/
theorem ofBitsLE_pack_lt (w : Nat) (cs : List Nat) : ofBitsLE (pack w cs) < 2 ^ (w * cs.length) := by
  have := ofBitsLE_lt (pack w cs)
  rwa [pack_length] at this

/-- `from_bitslice` of a non-empty slice that fits the storage word loads its value -/
theorem fromBitslice_ok (st : Storage) (bs : Bits) (h1 : 1 ≤ bs.length) (h2 : bs.length ≤ st.bits) :
    Kmer.fromBitslice st bs = .ok (ofBitsLE bs) := by
  simp [Kmer.fromBitslice, loadLE, h1, h2]

theorem fromBitslice_pack (st : Storage) (w : Nat) (cs : List Nat)
    (h1 : 1 ≤ w * cs.length) (h2 : w * cs.length ≤ st.bits) :
    Kmer.fromBitslice st (pack w cs) = .ok (ofBitsLE (pack w cs)) :=
  fromBitslice_ok st _ (by rw [pack_length]; exact h1) (by rw [pack_length]; exact h2)

/-- the live bits of the word loaded from `bs` are `bs` again -/
theorem bits_ofBitsLE (c : Codec) (K : Nat) (st : Storage) (bs : Bits)
    (hl : bs.length = K * c.width) (hst : K * c.width ≤ st.bits) :
    Kmer.bits c K st (ofBitsLE bs) = bs := by
  unfold Kmer.bits Kmer.toBitarray
  rw [take_toBitsLE _ _ _ hst, ← hl]
  exact toBitsLE_ofBitsLE bs

theorem bits_pack (c : Codec) (K : Nat) (st : Storage) (cs : List Nat)
    (hK : cs.length = K) (hst : K * c.width ≤ st.bits) :
    Kmer.bits c K st (ofBitsLE (pack c.width cs)) = pack c.width cs :=
  bits_ofBitsLE c K st _ (by rw [pack_length, hK, Nat.mul_comm]) hst

theorem deref_pack (c : Codec) (K : Nat) (cs : List Nat)
    (hK : cs.length = K) (hst : K * c.width ≤ 64) :
    Kmer.deref c K (ofBitsLE (pack c.width cs)) = pack c.width cs :=
  bits_pack c K .usize cs hK hst

/-- packing then loading is injective on in-range code lists of equal length -/
theorem ofBitsLE_pack_inj (w : Nat) (hw : 1 ≤ w) (cs ds : List Nat) (hc : Fits w cs) (hd : Fits w ds)
    (hl : cs.length = ds.length) (h : ofBitsLE (pack w cs) = ofBitsLE (pack w ds)) : cs = ds := by
  have e := ofBitsLE_inj (pack w cs) (pack w ds) (by simp [hl]) h
  rw [← syms_pack w hw cs hc, ← syms_pack w hw ds hd, e]

/-- `unsafe_from` on a slice of exactly `K` symbols -/
theorem unsafeFrom_ok (p : Profile) (c : Codec) (K : Nat) (st : Storage) (bs : Bits)
    (hlen : len c bs = K) (h1 : 1 ≤ bs.length) (h2 : bs.length ≤ st.bits) :
    Kmer.unsafeFrom p c K st bs = .ok (ofBitsLE bs) := by
  simp [Kmer.unsafeFrom, hlen, fromBitslice_ok st bs h1 h2]

theorem unsafeFrom_pack (p : Profile) (c : Codec) (hw : 1 ≤ c.width) (K : Nat) (st : Storage) (cs : List Nat)
    (hK : cs.length = K) (hK1 : 1 ≤ K) (hst : K * c.width ≤ st.bits) :
    Kmer.unsafeFrom p c K st (pack c.width cs) = .ok (ofBitsLE (pack c.width cs)) := by
  apply unsafeFrom_ok
  · rw [len_pack c hw, hK]
  · rw [pack_length, hK]; exact Nat.mul_pos (by omega) (by omega)
  · rw [pack_length, hK, Nat.mul_comm]; exact hst

/-- the `Display` loop of a k-mer over a packed canonical list -/
theorem displayChunks_pack (p : Profile) (c : Codec) (wf : CodecWF c) (cs : List Nat) (hc : Canon c cs) :
    Kmer.displayChunks p c cs.length (pack c.width cs) = .ok (cs.map c.toChar) := by
  induction cs with
  | nil => rfl
  | cons x xs ih =>
    have hx : x ∈ c.items := hc x (by simp)
    have ih' := ih (fun y hy => hc y (by simp [hy]))
    simp only [List.length_cons, Kmer.displayChunks, pack_cons]
    rw [List.take_left' (length_toBitsLE c.width x), List.drop_left' (length_toBitsLE c.width x)]
    rw [loadLE_toBitsLE 8 c.width x wf.width_pos wf.width_le (wf.item_lt x hx)]
    simp [bind, Except.bind, wf.item_unsafe x hx, optToRes, ih']

/-- `take`/`drop` window as a `drop`/`take` window -/
theorem take_drop_window {α} (l : List α) (i k : Nat) : (l.take (i + k)).drop i = (l.drop i).take k := by
  rw [List.drop_take]; congr 1; omega

end BioSeq
