/-
  Every comparison entry point of owned sequences (bio-seq/src/seq.rs).

  ```rust
  impl<A: Codec> PartialOrd for Seq<A> { fn partial_cmp(&self, o: &Self) -> Option<Ordering> { /* body */ } }
  impl<A: Codec> Ord        for Seq<A> { fn cmp(&self, o: &Self) -> Ordering { /* same body */ } }
  ```

  The two impls have identical bodies (`Seq.cmp`: compare the bits from the last to the first, a
  proper prefix-from-the-end being smaller).  `<`, `<=`, `>`, `>=` are std's default methods of
  `PartialOrd` (on `partial_cmp`); `max`, `min` are std's default methods of `Ord` (on `cmp`).
-/
import BioSeq.Seq
namespace BioSeq
namespace Seq

/-- `PartialOrd::partial_cmp` -/
def partialCmp (a b : Bits) : Option Ordering := some (cmp a b)

/-- `PartialOrd::lt`: `partial_cmp == Some(Less)` -/
def lt (a b : Bits) : Bool :=
  match partialCmp a b with
  | some .lt => true
  | _ => false

/-- `PartialOrd::le`: `matches!(partial_cmp, Some(Less | Equal))` -/
def le (a b : Bits) : Bool :=
  match partialCmp a b with
  | some .lt => true
  | some .eq => true
  | _ => false

/-- `PartialOrd::gt`: `partial_cmp == Some(Greater)` -/
def gt (a b : Bits) : Bool :=
  match partialCmp a b with
  | some .gt => true
  | _ => false

/-- `PartialOrd::ge`: `matches!(partial_cmp, Some(Greater | Equal))` -/
def ge (a b : Bits) : Bool :=
  match partialCmp a b with
  | some .gt => true
  | some .eq => true
  | _ => false

/-- `Ord::max` (`max_by(self, other, Ord::cmp)`): the second argument unless the first is greater -/
def max (a b : Bits) : Bits := if cmp a b = .gt then a else b

/-- `Ord::min` (`min_by(self, other, Ord::cmp)`): the first argument unless it is greater -/
def min (a b : Bits) : Bits := if cmp a b = .gt then b else a

end Seq
end BioSeq
