/-
  Model of translation.rs / translation/standard.rs and of the IUPAC `contains`
  (codec/iupac.rs).  Amino symbols are canonical codes of the extracted amino codec.
-/
import BioSeq.Seq
namespace BioSeq
namespace Translation

/-- `contains` on `Seq<Iupac>` / `SeqArray` / `SeqSlice`: equal length and `(self & rhs) == rhs` -/
def contains (c : Codec) (self rhs : Bits) : Bool :=
  if Seq.len c rhs ≠ Seq.len c self then false else decide (Seq.bitAnd self rhs = rhs)

inductive TErr
  | ambiguousCodon | ambiguousTranslation | invalidCodon | invalidAmino | panic
  deriving DecidableEq, Repr

/-- `Standard::to_amino`: `assert!(len == 3)`, load the 6 bits, `Amino::unsafe_from_bits` -/
def toAmino (dna amino : Codec) (codon : Bits) : Except TErr Nat :=
  if Seq.len dna codon ≠ 3 then .error .panic else
  match Seq.toU8 codon with
  | .error _ => .error .panic
  | .ok v => match amino.unsafeFromBits v with
    | some a => .ok a
    | none => .error .panic

/-- `Standard::try_to_amino`: length check, first row whose pattern contains the codon -/
def tryToAmino (iupac : Codec) (rows : List (Bits × Nat)) (codon : Bits) : Except TErr Nat :=
  if Seq.len iupac codon ≠ 3 then .error .invalidCodon else
  match rows.find? (fun r => contains iupac r.1 codon) with
  | some r => .ok r.2
  | none => .error .ambiguousTranslation

/-- the inverse map of `initialise_amino_to_iupac` / `CodonTable::from_map`: visiting the
    entries in order, a second codon for the same amino replaces the entry by `none` -/
def invStep (inv : List (Nat × Option Bits)) (e : Bits × Nat) : List (Nat × Option Bits) :=
  if inv.any (·.1 == e.2) then inv.map (fun x => if x.1 == e.2 then (x.1, none) else x)
  else inv ++ [(e.2, some e.1)]

def inverse (entries : List (Bits × Nat)) : List (Nat × Option Bits) := entries.foldl invStep []

/-- `Standard::try_to_codon`: `Some(Some c)` -> codon; `None | Some(None)` -> AmbiguousCodon -/
def stdTryToCodon (rows : List (Bits × Nat)) (amino : Nat) : Except TErr Bits :=
  match (inverse rows).find? (·.1 == amino) with
  | some (_, some codon) => .ok codon
  | _ => .error .ambiguousCodon

/-- `CodonTable::from_map(entries)` for entries with distinct keys (a `HashMap`), in iteration order -/
structure CodonTable where
  table : List (Bits × Nat)
  inv : List (Nat × Option Bits)

/-- building the `HashMap` from a list of pairs: a later pair with an equal key overwrites the value -/
def dedupLast (entries : List (Bits × Nat)) : List (Bits × Nat) :=
  entries.foldl (fun acc e => if acc.any (·.1 == e.1) then acc.map (fun x => if x.1 == e.1 then (x.1, e.2) else x) else acc ++ [e]) []

def fromMap (entries : List (Bits × Nat)) : CodonTable :=
  let t := dedupLast entries
  { table := t, inv := inverse t }

/-- `CodonTable::try_to_amino`: map lookup by content -/
def CodonTable.tryToAmino (t : CodonTable) (codon : Bits) : Except TErr Nat :=
  match t.table.find? (·.1 == codon) with
  | some e => .ok e.2
  | none => .error .invalidCodon

/-- `CodonTable::try_to_codon` -/
def CodonTable.tryToCodon (t : CodonTable) (amino : Nat) : Except TErr Bits :=
  match t.inv.find? (·.1 == amino) with
  | some (_, some codon) => .ok codon
  | some (_, none) => .error .ambiguousCodon
  | none => .error .invalidAmino

end Translation
end BioSeq
