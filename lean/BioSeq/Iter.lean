/-
  Model of seq/iterators.rs: `SeqIter`, `RevIter`, `SeqChunks` (windows/chunks), `chain`.
  Iterators are step functions on their index; `collect` runs them with fuel.
-/
import BioSeq.Seq
namespace BioSeq
namespace Iter

/-- generic fuel-bounded collect of a step function -/
def collect {σ α} (next : σ → Option (α × σ)) : Nat → σ → List α
  | 0, _ => []
  | f+1, s => match next s with
    | none => []
    | some (x, s') => x :: collect next f s'

/-- `SeqIter::next` -/
def seqIterNext (p : Profile) (c : Codec) (bs : Bits) (idx : Nat) : Option (Res Nat × Nat) :=
  if idx ≥ Seq.len c bs then none else some (Seq.nth p c bs idx, idx + 1)

/-- `RevIter::next` -/
def revIterNext (p : Profile) (c : Codec) (bs : Bits) (idx : Nat) : Option (Res Nat × Nat) :=
  if idx = 0 then none else some (Seq.nth p c bs (idx - 1), idx - 1)

structure Chunks where
  width : Nat
  skip : Nat
  index : Nat

/-- `SeqChunks::next`, both bounds tests as in the source; yields `&slice[i..i+width]` -/
def chunksNext (p : Profile) (c : Codec) (bs : Bits) (s : Chunks) : Option (Res Bits × Chunks) :=
  if s.index + s.width > Seq.len c bs then none
  else
    let i := s.index
    let s' := { s with index := s.index + s.skip }
    if i + s.width > Seq.len c bs then none
    else some (Seq.index p c bs .range i (i + s.width), s')

def iter (p : Profile) (c : Codec) (bs : Bits) : List (Res Nat) :=
  collect (seqIterNext p c bs) (Seq.len c bs + 1) 0

def revIter (p : Profile) (c : Codec) (bs : Bits) : List (Res Nat) :=
  collect (revIterNext p c bs) (Seq.len c bs + 1) (Seq.len c bs)

def windows (p : Profile) (c : Codec) (bs : Bits) (w : Nat) : List (Res Bits) :=
  collect (chunksNext p c bs) (Seq.len c bs + 1) ⟨w, 1, 0⟩

def chunks (p : Profile) (c : Codec) (bs : Bits) (w : Nat) : List (Res Bits) :=
  collect (chunksNext p c bs) (Seq.len c bs + 1) ⟨w, w, 0⟩

/-- `a.chain(b)` -/
def chain (p : Profile) (c : Codec) (a b : Bits) : List (Res Nat) := iter p c a ++ iter p c b

end Iter
end BioSeq
