/-
  Model driver (Tie 2, model side): interprets the line protocol of
  harness/src/ast.rs over the *same definitions the theorems are about* and
  prints one canonical output line per input line.
    usage: driver debug|release < ops.txt
-/
import BioSeq.Seq
import BioSeq.Kmer
import BioSeq.Iter
import BioSeq.IterStd
import BioSeq.Array
import BioSeq.Order
import BioSeq.Misc
import BioSeq.Standard
import BioSeq.Serde
import BioSeq.Macros
import BioSeq.Derive
import BioSeq.Generated.Tables

open BioSeq

inductive Un | rev | comp | revcomp | mask | unmask
  deriving DecidableEq

inductive RemForm
  | range | rangeIncl | rangeTo | rangeToIncl | rangeFrom | full
  | bounds (s e : Char)

mutual
inductive V
  | parse (entry : String) (bytes : List Nat)
  | own (s : S)
  | into (s : S)
  | trim (bytes : List Nat)
  | inPlace (u : Un) (v : V)
  | toOwned (u : Un) (v : V)
  | toSlice (u : Un) (s : S)
  | and (a b : S)
  | or (a b : S)
  | andSV (a : S) (b : V)
  | orSV (a : S) (b : V)
  | bitAnd (a b : V)
  | bitOr (a b : V)
  | push (v : V) (i : Nat)
  | ext (v : V) (bytes : List Nat)
  | extKind (kind : String) (v : V) (bytes : List Nat)
  | append (v : V) (s : S)
  | prepend (v : V) (s : S)
  | insert (v : V) (i : Nat) (s : S)
  | remove (v : V) (f : RemForm) (a b : Nat)
  | trunc (v : V) (n : Nat)
  | clear (v : V)
  | fromRaw (n : Nat) (v : V)
  | fromWords (n : Nat) (ws : List Nat)
  | ofKmer (k : Nat) (s : S)
  | cloneOf (v : V)
  | fromBits (off : Nat) (v : V)
  | vecWords (ws : List Nat)
  | fromArr (byval : Bool) (s : S)
inductive S
  | val (v : V)
  | sl (f : Seq.RangeForm) (a b : Nat) (s : S)
  | kd (k : Nat) (s : S)
  | lit (id : Nat)
  | arr (s : S)
end

/-- lengths for which the harness instantiates hand-built `SeqArray`s -/
def arrLens : List Nat := [1, 2, 3, 4, 5, 8, 10, 11, 12, 13, 15, 16, 17, 21, 31, 32, 33, 48, 63, 64, 65, 96, 128]

inductive Fail
  | bio (e : Err)
  | badOp (msg : String)
  | unsup
  | noneVal

abbrev R := Except Fail

def liftRes {α} : Res α → R α
  | .ok a => .ok a
  | .error e => .error (.bio e)

def failStr : Fail → String
  | .bio (.unrecognisedBase b) => s!"err:base:{b}"
  | .bio .mismatchedLength => "err:mismatch"
  | .bio .sequenceTooLong => "err:toolong"
  | .bio .panic => "panic"
  | .badOp m => s!"bad-op {m}"
  | .unsup => "unsupported"
  | .noneVal => "none"

/-! ### token helpers -/

abbrev P := StateT (List String) (Except String)

def next : P String := do
  match (← get) with
  | [] => throw "eol"
  | t :: ts => set ts; pure t

def num : P Nat := do
  let t ← next
  match t.toNat? with
  | some n => pure n
  | none => throw s!"bad number {t}"

def hexDigit (c : Char) : Option Nat :=
  if '0' ≤ c ∧ c ≤ '9' then some (c.toNat - '0'.toNat)
  else if 'a' ≤ c ∧ c ≤ 'f' then some (c.toNat - 'a'.toNat + 10)
  else none

partial def unhexGo : List Char → Option (List Nat)
  | [] => some []
  | a :: b :: rest => do
    let x ← hexDigit a; let y ← hexDigit b
    let r ← unhexGo rest
    pure ((16 * x + y) :: r)
  | _ => none

def unhex (t : String) : Option (List Nat) :=
  if t = "-" then some [] else unhexGo t.toList

def hexBytes : P (List Nat) := do
  let t ← next
  match unhex t with
  | some b => pure b
  | none => throw "bad hex"

def hexChar (n : Nat) : Char := if n < 10 then Char.ofNat (48 + n) else Char.ofNat (87 + n)

def hex2 (n : Nat) : String := String.ofList [hexChar (n / 16 % 16), hexChar (n % 16)]

def hexOf (bs : List Nat) : String :=
  if bs.isEmpty then "-" else String.join (bs.map hex2)

def form (t : String) : P Seq.RangeForm :=
  match t with
  | "r" => pure .range | "rt" => pure .rangeTo | "rti" => pure .rangeToIncl
  | "ri" => pure .rangeIncl | "rf" => pure .rangeFrom | "full" => pure .full | "one" => pure .single
  | _ => throw s!"bad form {t}"

def remForm (t : String) : P RemForm :=
  match t with
  | "r" => pure .range | "ri" => pure .rangeIncl | "rt" => pure .rangeTo | "rti" => pure .rangeToIncl
  | "rf" => pure .rangeFrom | "full" => pure .full
  | _ => match t.toList with
    | ['b', x, y] => if (x = 'i' ∨ x = 'e' ∨ x = 'u') ∧ (y = 'i' ∨ y = 'e' ∨ y = 'u') then pure (.bounds x y) else throw "bad bound"
    | _ => throw s!"bad remform {t}"

def unOf (t : String) : Option Un :=
  match t with
  | "rev" => some .rev | "comp" => some .comp | "revcomp" => some .revcomp
  | "mask" => some .mask | "unmask" => some .unmask | _ => none

mutual
partial def parseVKw (k : String) : P V := do
  match k with
  | "p" => let e ← next; let b ← hexBytes; pure (.parse e b)
  | "own" => pure (.own (← parseS))
  | "into" => pure (.into (← parseS))
  | "trim" => pure (.trim (← hexBytes))
  | "rev" | "comp" | "revcomp" | "mask" | "unmask" =>
    match unOf k with
    | some u => pure (.inPlace u (← parseV))
    | none => throw "un"
  | "torev" | "tocomp" | "torevcomp" | "tomask" | "tounmask" =>
    match unOf (k.drop 2).toString with
    | some u => pure (.toOwned u (← parseV))
    | none => throw "un"
  | "storev" | "stocomp" | "storevcomp" =>
    match unOf (k.drop 3).toString with
    | some u => pure (.toSlice u (← parseS))
    | none => throw "un"
  | "and" => let a ← parseS; let b ← parseS; pure (.and a b)
  | "or" => let a ← parseS; let b ← parseS; pure (.or a b)
  | "andsv" => let a ← parseS; let b ← parseV; pure (.andSV a b)
  | "orsv" => let a ← parseS; let b ← parseV; pure (.orSV a b)
  | "bitand" => let a ← parseV; let b ← parseV; pure (.bitAnd a b)
  | "bitor" => let a ← parseV; let b ← parseV; pure (.bitOr a b)
  | "push" => let i ← num; let v ← parseV; pure (.push v i)
  | "ext" => let h ← hexBytes; let v ← parseV; pure (.ext v h)
  | "extk" => let kind ← next; let h ← hexBytes; let v ← parseV; pure (.extKind kind v h)
  | "append" => let v ← parseV; let s ← parseS; pure (.append v s)
  | "prepend" => let v ← parseV; let s ← parseS; pure (.prepend v s)
  | "insert" => let i ← num; let v ← parseV; let s ← parseS; pure (.insert v i s)
  | "remove" =>
    let f ← next; let a ← num; let b ← num
    let v ← parseV
    pure (.remove v (← remForm f) a b)
  | "trunc" => let n ← num; let v ← parseV; pure (.trunc v n)
  | "clear" => pure (.clear (← parseV))
  | "fromraw" => let n ← num; let v ← parseV; pure (.fromRaw n v)
  | "fromwords" =>
    let n ← num; let cnt ← num
    let mut ws := []
    for _ in [0:cnt] do
      ws := ws ++ [← num]
    pure (.fromWords n ws)
  | "fromarr" =>
    let kd ← next
    if kd ≠ "ref" ∧ kd ≠ "val" then throw "fromarr kind"
    let s ← parseS
    pure (.fromArr (kd == "val") s)
  | "vecwords" =>
    let cnt ← num
    let mut ws := []
    for _ in [0:cnt] do
      ws := ws ++ [← num]
    pure (.vecWords ws)
  | "ofkmer" => let k ← num; let s ← parseS; pure (.ofKmer k s)
  | "clone" => pure (.cloneOf (← parseV))
  | "frombits" => let off ← num; let v ← parseV; pure (.fromBits off v)
  | _ => throw s!"bad value keyword {k}"
partial def parseV : P V := do
  let k ← next
  parseVKw k
partial def parseS : P S := do
  let k ← next
  match k with
  | "sl" => let f ← form (← next); let a ← num; let b ← num; let s ← parseS; pure (.sl f a b s)
  | "kd" => let kk ← num; let s ← parseS; pure (.kd kk s)
  | "lit" => pure (.lit (← num))
  | "arr" => pure (.arr (← parseS))
  | _ => pure (.val (← parseVKw k))
end

/-! ### evaluation over the model -/

structure Ctx where
  p : Profile
  c : Codec
  name : String
  symbols : List Nat := []

def item (c : Codec) (i : Nat) : Nat := c.items.getD (i % c.items.length) 0

def symsOfAscii (c : Codec) (bytes : List Nat) : R (List Nat) :=
  bytes.mapM fun b => match c.tryFromAscii b with
    | some s => .ok s
    | none => .error (.badOp "invalid symbol")

def validUtf8 (bytes : List Nat) : Bool :=
  (String.fromUTF8? (ByteArray.mk (bytes.map (·.toUInt8)).toArray)).isSome

def hasComp (c : Codec) : Bool := c.items.any fun s => (c.comp s).isSome
def hasMask (c : Codec) : Bool := c.items.any fun s => (c.mask s).isSome

def applyUn (x : Ctx) (u : Un) (bs : Bits) : R Bits :=
  match u with
  | .rev => .ok (Seq.rev x.c bs)
  | .comp => if hasComp x.c then liftRes (Seq.comp x.p x.c bs) else .error .unsup
  | .revcomp => if hasComp x.c then liftRes (Seq.revcomp x.p x.c bs) else .error .unsup
  | .mask => if hasMask x.c then liftRes (Seq.mask x.p x.c bs) else .error .unsup
  | .unmask => if hasMask x.c then liftRes (Seq.unmask x.p x.c bs) else .error .unsup

def boundOf (k : Char) (n : Nat) : Seq.Bound :=
  if k = 'i' then .incl n else if k = 'e' then .excl n else .unb

def remBounds (f : RemForm) (a b : Nat) : Seq.Bound × Seq.Bound :=
  match f with
  | .range => (.incl a, .excl b)
  | .rangeIncl => (.incl a, .incl b)
  | .rangeTo => (.unb, .excl b)
  | .rangeToIncl => (.unb, .incl b)
  | .rangeFrom => (.incl a, .unb)
  | .full => (.unb, .unb)
  | .bounds s e => (boundOf s a, boundOf e b)

mutual
partial def evalV (x : Ctx) : V → R Bits
  | .parse entry bytes =>
    let strict := liftRes (Seq.parseBytes x.c bytes)
    let viaSyms := do let ss ← symsOfAscii x.c bytes; pure (Seq.extend x.c [] ss)
    match entry with
    | "str" | "string" | "refstring" | "fromstr" | "parse" | "fromstrtrait" | "tryfromtrait" =>
      if validUtf8 bytes then strict else .error (.badOp "not utf8")
    | "bytes" | "vec" => strict
    | "collect" | "fromvec" | "extend" | "collectf" | "collectn" => viaSyms
    | _ => .error (.badOp "entry")
  | .own s => evalS x s
  | .into s => do
    -- `From<&SeqSlice<A>> for Seq<A>`: iterate, convert (identity), collect
    let bs ← evalS x s
    let ss ← liftRes (Seq.iterSyms x.p x.c bs)
    pure (Seq.extend x.c [] ss)
  | .trim bytes => liftRes (Seq.trim x.c bytes)
  | .cloneOf v => evalV x v
  | .fromBits _ v => evalV x v
  | .inPlace u v => do let bs ← evalV x v; applyUn x u bs
  | .toOwned u v => do let bs ← evalV x v; applyUn x u bs
  | .toSlice u s => do
    let bs ← evalS x s
    match u with
    | .mask | .unmask => .error .unsup
    | _ => applyUn x u bs
  | .and a b => do let l ← evalS x a; let r ← evalS x b; pure (Seq.bitAnd l r)
  | .or a b => do let l ← evalS x a; let r ← evalS x b; pure (Seq.bitOr l r)
  | .andSV a b => do let r ← evalV x b; let l ← evalS x a; pure (Seq.bitAnd l r)
  | .orSV a b => do let r ← evalV x b; let l ← evalS x a; pure (Seq.bitOr l r)
  | .bitAnd a b => do let l ← evalV x a; let r ← evalV x b; pure (Seq.bitAnd l r)
  | .bitOr a b => do let l ← evalV x a; let r ← evalV x b; pure (Seq.bitOr l r)
  | .push v i => do let bs ← evalV x v; pure (Seq.push x.c bs (item x.c i))
  | .ext v bytes => do
    let bs ← evalV x v
    let ss ← symsOfAscii x.c bytes
    pure (Seq.extend x.c bs ss)
  | .extKind kind v bytes => do
    -- every iterator kind feeds `extend` the same symbols; only size hints differ
    let bs ← evalV x v
    let ss ← symsOfAscii x.c bytes
    if ["filter", "takewhile", "fromfn", "trait", "iterpeek"].contains kind then pure (Seq.extend x.c bs ss)
    -- a partly consumed symbol iterator of another sequence: what is left of it
    else if kind = "iterskip" ∨ kind = "iternext" then pure (Seq.extend x.c bs (ss.drop 1))
    else if kind = "reviterskip" then pure (Seq.extend x.c bs (ss.reverse.drop 1))
    else .error (.badOp "ext kind")
  | .append v s => do let bs ← evalV x v; let o ← evalS x s; pure (Seq.append bs o)
  | .prepend v s => do let bs ← evalV x v; let o ← evalS x s; pure (Seq.prepend bs o)
  | .insert v i s => do
    let bs ← evalV x v; let o ← evalS x s
    liftRes (Seq.insert x.p x.c bs i o)
  | .remove v f a b => do
    let bs ← evalV x v
    let (sb, eb) := remBounds f a b
    liftRes (Seq.remove x.p x.c bs sb eb)
  | .trunc v n => do let bs ← evalV x v; liftRes (Seq.truncate x.p x.c bs n)
  | .clear v => do let _ ← evalV x v; pure []
  | .fromRaw n v => do
    let bs ← evalV x v
    match Seq.fromRaw x.c n (Seq.intoRaw bs) with
    | some r => pure r
    | none => .error .noneVal
  | .fromWords n ws =>
    match Seq.fromRaw x.c n ws with
    | some r => pure r
    | none => .error .noneVal
  | .fromArr _ s => do
    -- `From<&SeqArray>` / `From<SeqArray>` for `Seq`: iterate the array's symbols, convert (identity), collect
    let bs ← evalS x s
    if ¬ arrLens.contains (Seq.len x.c bs) then .error .unsup else
    liftRes (SeqArr.toSeq x.p x.c (SeqArr.ofBits ((bs.length + 63) / 64) x.c bs))
  | .vecWords ws =>
    -- `From<Vec<usize>> for Seq<text::Dna>`: the words' bits, whole
    if x.name = "text" then pure (Seq.ofVecWords ws) else .error .unsup
  | .ofKmer k s => do
    let bs ← evalS x s
    if k = 0 ∨ k > 64 then .error .unsup else
    let v ← liftRes (Kmer.tryFrom x.p x.c k .usize bs)
    liftRes (Kmer.toSeq x.p x.c k v)
partial def evalS (x : Ctx) : S → R Bits
  | .val v => evalV x v
  | .sl f a b s => do
    let bs ← evalS x s
    liftRes (Seq.index x.p x.c bs f a b)
  | .kd k s => do
    let bs ← evalS x s
    if k = 0 ∨ k > 64 then .error .unsup else
    let v ← liftRes (Kmer.tryFrom x.p x.c k .usize bs)
    pure (Kmer.deref x.c k v)
  | .arr s => do
    -- a hand-built `SeqArray<A, N, W>` derefs to the first `N * BITS` bits of its words: the same content
    let bs ← evalS x s
    if arrLens.contains (Seq.len x.c bs) then liftRes ((SeqArr.ofBits ((bs.length + 63) / 64) x.c bs).deref x.c) else .error .unsup
  | .lit id =>
    match Misc.lit x.name id with
    | some bs => pure bs
    | none => .error .unsup
end

/-! ### canonical output -/

def content (c : Codec) (bs : Bits) : String :=
  let ss := syms c.width bs
  if ss.isEmpty then "-" else String.join (ss.map hex2)

def utf8Hex (cps : List Nat) : String :=
  let s := String.ofList (cps.map Char.ofNat)
  hexOf (s.toUTF8.toList.map (·.toNat))

def displayHex (x : Ctx) (bs : Bits) : String :=
  match Seq.display x.p x.c bs with
  | .ok cps => utf8Hex cps
  | .error _ => "panic"

def showS (x : Ctx) (bs : Bits) : String :=
  s!"{Seq.len x.c bs} {content x.c bs} {displayHex x bs}"

def hashStr (evs : List Seq.HashEv) : String :=
  if evs.isEmpty then "-" else
  String.join (evs.map fun e => match e with
    | .u8 0 => "0" | .u8 1 => "1" | .u8 n => s!"[{n}]"
    | .usize n => s!"|{n}|")

def codesStr (cs : List Nat) : String := if cs.isEmpty then "-" else String.join (cs.map hex2)

def slicesStr (c : Codec) (ss : List Bits) : String :=
  if ss.isEmpty then "-" else
  ";".intercalate (ss.map fun s => s!"{Seq.len c s}:{content c s}")

def seqRes {α} (xs : List (Res α)) : Res (List α) := xs.mapM id

/-- one `adapt` request on an iterator given by its step function: every item that the real code computes is computed
    (an item that panics makes the whole request panic), the answer is taken from the std-default definitions -/
def stdAdapt {σ α : Type} (next : σ → Option (Res α × σ)) (fuel : Nat) (s0 : σ) (ad : String) (arg : Nat) :
    Res (Sum (List α) Nat) :=
  let items (l : List (Res α)) : Res (Sum (List α) Nat) := (seqRes l).map Sum.inl
  let opt (o : Option (Res α)) : Res (Sum (List α) Nat) := items o.toList
  -- consuming methods visit every remaining item: any panic among them is the request's outcome
  let consume (s : σ) (k : Unit → Res (Sum (List α) Nat)) : Res (Sum (List α) Nat) := do
    let _ ← seqRes (Iter.collect next fuel s)
    k ()
  -- by-reference `nth(n)` visits the items it skips
  let visited (n : Nat) (s : σ) (k : Unit → Res (Sum (List α) Nat)) : Res (Sum (List α) Nat) := do
    let _ ← seqRes (Iter.takeCollect next fuel (n + 1) s)
    k ()
  match ad with
  | "nth" => visited arg s0 fun _ => opt (Iter.nthD next arg s0).1
  | "skip" => items (Iter.skipCollect next fuel arg s0)
  | "stepby" => consume s0 fun _ => items (Iter.stepByCollect next fuel (max arg 1) s0)
  | "last" => consume s0 fun _ => opt (Iter.lastD next fuel s0)
  | "take" => items (Iter.takeCollect next fuel arg s0)
  | "nthnext" => visited arg s0 fun _ => items (Iter.collect next fuel (Iter.nthD next arg s0).2)
  | "count" => consume s0 fun _ => .ok (.inr (Iter.countD next fuel s0))
  | "hint" => consume s0 fun _ => .ok (.inr 1)
  | "lastafter" => consume s0 fun _ => opt (Iter.lastD next fuel (Iter.advance next arg s0))
  | "countafter" => consume s0 fun _ => .ok (.inr (Iter.countD next fuel (Iter.advance next arg s0)))
  | "foldafter" => consume s0 fun _ => items (Iter.foldD next fuel (fun acc x => acc ++ [x]) [] (Iter.advance next arg s0))
  | "nthhuge" => consume s0 fun _ =>
      let s1 := Iter.advance next arg s0
      let r := Iter.nthD next (2^64 - 1) s1
      items (r.1.toList ++ Iter.collect next fuel r.2)
  | "nthcount" => consume s0 fun _ => .ok (.inr (Iter.countD next fuel (Iter.nthD next arg s0).2))
  | "nthlast" => consume s0 fun _ => opt (Iter.lastD next fuel (Iter.nthD next arg s0).2)
  | "nthhint" => consume s0 fun _ => .ok (.inr 1)
  -- optional capabilities, when a tree provides them: `rev()` yields the remaining items backwards, `len()` their number
  | "rev" => items (Iter.collect next fuel (Iter.advance next arg s0)).reverse
  | "len" => consume s0 fun _ => .ok (.inr (Iter.countD next fuel (Iter.advance next arg s0)))
  | _ => .ok (.inl [])

def ordStr : Ordering → String
  | .lt => "lt" | .eq => "eq" | .gt => "gt"

def boolStr (b : Bool) : String := if b then "true" else "false"

def natsStr (ns : List Nat) : String := if ns.isEmpty then "-" else ",".intercalate (ns.map toString)

def storageOf (t : String) : Option Storage :=
  match t with
  | "usize" => some .usize | "u64" => some .u64 | "u128" => some .u128 | _ => none

def isOrd (name : String) : Bool := Gen.ordCodecNames.contains name

def lift {α} (m : Except String α) : R α :=
  match m with
  | .ok a => .ok a
  | .error e => .error (.badOp e)

abbrev Q := StateT (List String) R

def qlift {α} (m : P α) : Q α := fun st =>
  match m st with
  | .ok (a, st') => .ok (a, st')
  | .error e => .error (.badOp e)

def qres {α} (m : Res α) : Q α := fun st =>
  match m with
  | .ok a => .ok (a, st)
  | .error e => .error (.bio e)

def qr {α} (m : R α) : Q α := fun st =>
  match m with
  | .ok a => .ok (a, st)
  | .error e => .error e

def kmerQuery (x : Ctx) : Q String := do
  let op ← qlift next
  let k ← qlift num
  let stTok ← qlift next
  let some st := storageOf stTok | throw (.badOp "storage")
  let usizeOnly := ["tryseq", "deref", "toseq", "int", "fromint", "rev", "revmut", "eqstr", "eqseq", "iterhash"]
  let dnaOnly := ["comp", "revcomp", "compmut", "revcompmut", "canon"]
  let ordOnly := ["cmp", "minmax", "minafter", "minnth"]
  let c := x.c
  let fits (sb : Nat) : Bool := 1 ≤ k ∧ k * c.width ≤ sb
  if usizeOnly.contains op then
    if st ≠ .usize then throw .unsup
    if k = 0 ∨ k > 64 then throw .unsup
    if ¬ fits 64 then throw .unsup
    match op with
    | "tryseq" => do
      let v ← qlift parseV; let bs ← qr (evalV x v)
      let r ← qres (Kmer.tryFrom x.p c k .usize bs)
      pure (toString r)
    | "deref" => do
      let v ← qlift num
      pure s!"{showS x (Kmer.deref c k v)} true"
    | "toseq" => do
      let v ← qlift num
      let bs ← qres (Kmer.toSeq x.p c k v)
      pure (showS x bs)
    | "int" => do let v ← qlift num; pure (toString (v % 2^64))
    | "fromint" => do let v ← qlift num; pure (toString (v % 2^64))
    | "rev" | "revmut" => do
      let v ← qlift num
      let r ← qres (Kmer.rev c k (v % 2^64))
      pure (toString r)
    | "eqstr" => do
      let v ← qlift num
      let h ← qlift hexBytes
      if ¬ validUtf8 h then throw (.badOp "utf8")
      let d ← qres (Kmer.display x.p c k .usize (v % 2^64))
      pure (boolStr (utf8Hex d == hexOf h))
    | "eqseq" => do
      let v ← qlift num
      let sv ← qlift parseV; let bs ← qr (evalV x sv)
      let r ← qres (Kmer.eqSlice x.p c k .usize (v % 2^64) bs)
      pure (boolStr r)
    | "iterhash" => do
      let s ← qlift parseS; let bs ← qr (evalS x s)
      let ks ← qres (seqRes (Kmer.kmers x.p c k bs))
      let ws ← qres (seqRes (Iter.windows x.p c bs k))
      let out := (ks.zip ws).map fun (kv, w) => boolStr (Kmer.hashEvents c k .usize kv == Seq.hashEvents c w)
      pure (if out.isEmpty then "-" else ",".intercalate out)
    | _ => throw (.badOp "kmer op")
  else if dnaOnly.contains op then
    if x.name ≠ "dna" ∨ st ≠ .usize then throw .unsup
    if k = 0 ∨ k > 64 then throw .unsup
    if ¬ fits 64 then throw .unsup
    let v ← qlift num
    let v := v % 2^64
    match op with
    | "comp" | "compmut" => pure (toString (Kmer.complement c k v))
    | "revcomp" | "revcompmut" => do
      let r ← qres (Kmer.revcomp c k v); pure (toString r)
    | _ => do
      let rc ← qres (Kmer.revcomp c k v)
      let rcrc ← qres (Kmer.revcomp c k rc)
      pure s!"{min v rc} {min rc rcrc}"
  else if ordOnly.contains op then
    if ¬ isOrd x.name then throw .unsup
    match op with
    | "cmp" => do
      if k = 0 ∨ k > (if st = .u128 then 128 else 64) then throw .unsup
      if ¬ fits st.bits then throw .unsup
      let a ← qlift num; let b ← qlift num
      let a := a % 2^st.bits; let b := b % 2^st.bits
      pure s!"{ordStr (compare a b)} {boolStr (a < b)} {boolStr (a ≤ b)} true"
    | "minnth" => do
      let n ← qlift num
      let s ← qlift parseS; let bs ← qr (evalS x s)
      if st ≠ .usize then throw .unsup
      if k = 0 ∨ k > 64 then throw .unsup
      if ¬ fits 64 then throw .unsup
      let ks ← qres (seqRes (Kmer.kmers x.p c k bs))
      let f := match ks[n]? with | some m => toString m | none => "none"
      let rest := ks.drop (n + 1)
      let mn := match rest.min? with | some m => toString m | none => "none"
      let mx := match rest.max? with | some m => toString m | none => "none"
      pure s!"{f} {mn} {mx} {rest.length}"
    | "minafter" => do
      let n ← qlift num
      let s ← qlift parseS; let bs ← qr (evalS x s)
      if st ≠ .usize then throw .unsup
      if k = 0 ∨ k > 64 then throw .unsup
      if ¬ fits 64 then throw .unsup
      let ks ← qres (seqRes (Kmer.kmers x.p c k bs))
      let rest := ks.drop n
      let mn := match rest.min? with | some m => toString m | none => "none"
      let mx := match rest.max? with | some m => toString m | none => "none"
      pure s!"{mn} {mx} {rest.length}"
    | _ => do
      let s ← qlift parseS; let bs ← qr (evalS x s)
      if st ≠ .usize then throw .unsup
      if k = 0 ∨ k > 64 then throw .unsup
      if ¬ fits 64 then throw .unsup
      let ks ← qres (seqRes (Kmer.kmers x.p c k bs))
      let mn := match ks.min? with | some m => toString m | none => "none"
      let mx := match ks.max? with | some m => toString m | none => "none"
      let sorted := (ks.toArray.qsort (· < ·)).toList
      pure s!"{mn} {mx} {natsStr sorted}"
  else if op = "cmpint" then do
    -- k-mers decoded from two integers (`From<usize>` for usize and u64 storage, `From<u64>`) order like the integers
    let a ← qlift num; let b ← qlift num
    if st ≠ .usize then throw .unsup
    if k = 0 ∨ k > 64 then throw .unsup
    if ¬ fits 64 then throw .unsup
    let a := a % 2^64; let b := b % 2^64
    pure s!"{boolStr (a == b)} {boolStr (a < b)} {boolStr (a == b)} {boolStr (a < b)} {boolStr (a < b)} true"
  else if op = "fromint64" then do
    let v ← qlift num
    if k = 0 ∨ k > 64 then throw .unsup
    pure s!"{v % 2^64} {v % 2^64}"
  else do
    if k = 0 ∨ k > (if st = .u128 then 128 else 64) then throw .unsup
    if ¬ fits st.bits then throw .unsup
    let md := 2^st.bits
    match op with
    | "try" => do
      let s ← qlift parseS; let bs ← qr (evalS x s)
      let r ← qres (Kmer.tryFrom x.p c k st bs); pure (toString r)
    | "unsafefrom" => do
      let s ← qlift parseS; let bs ← qr (evalS x s)
      let r ← qres (Kmer.unsafeFrom x.p c k st bs); pure (toString r)
    | "fromstr" => do
      let h ← qlift hexBytes
      if ¬ validUtf8 h then throw (.badOp "utf8")
      let r ← qres (Kmer.fromStr x.p c k st h); pure (toString r)
    | "show" => do
      let v ← qlift num
      let d ← qres (Kmer.display x.p c k st (v % md)); pure (utf8Hex d)
    | "len" => do let _ ← qlift num; pure s!"{k} false"
    | "rotl" => do
      let v ← qlift num; let n ← qlift num
      let r ← qres (Kmer.rotatedLeft c k st (v % md) (n % 2^32)); pure (toString r)
    | "rotr" => do
      let v ← qlift num; let n ← qlift num
      let r ← qres (Kmer.rotatedRight c k st (v % md) (n % 2^32)); pure (toString r)
    | "pushl" => do
      let v ← qlift num; let i ← qlift num
      let r ← qres (Kmer.pushl c k st (v % md) (item c i)); pure (toString r)
    | "pushr" => do
      let v ← qlift num; let i ← qlift num
      let r ← qres (Kmer.pushr c k st (v % md) (item c i)); pure (toString r)
    | "hash" => do
      let v ← qlift num
      pure (hashStr (Kmer.hashEvents c k st (v % md)))
    | "hasheq" => do
      let v ← qlift num
      let s ← qlift parseS; let bs ← qr (evalS x s)
      let r ← qres (Kmer.eqSlice x.p c k st (v % md) bs)
      if r then pure s!"eq:true hash:{boolStr (Kmer.hashEvents c k st (v % md) == Seq.hashEvents c bs)}" else pure "eq:false"
    | "eqk" => do
      let a ← qlift num; let b ← qlift num
      pure s!"{boolStr (a % md == b % md)} {boolStr (a % md != b % md)}"
    | "eq" => do
      let pr ← qlift next
      let v ← qlift num
      let s ← qlift parseS; let bs ← qr (evalS x s)
      if ¬ ["slice", "refslice", "arr", "refarr", "rslice", "rrefslice", "rseq"].contains pr then throw (.badOp "pairing")
      if (pr = "arr" ∨ pr = "refarr") ∧ (Seq.len c bs ≠ k ∨ k * c.width > 64) then throw (.badOp "arr length")
      let r ← qres (if pr = "arr" ∨ pr = "refarr" then SeqArr.eqKmer x.p c k st (v % md) (SeqArr.ofBits 1 c bs)
                    else Kmer.eqSlice x.p c k st (v % md) bs)
      pure (boolStr r)
    | "serde" => do
      let v ← qlift num
      let v := v % md
      -- the storage integer round-trips unchanged; display must be computable
      let _ ← qres (Kmer.display x.p c k st v)
      pure s!"{v} {v} true true"
    | _ => throw (.badOp s!"kmer op {op}")

def eqPairings : List String :=
  ["seq_slice", "seq_refslice", "refseq_seq", "seq_refseq", "seq_seq", "slice_slice", "refslice_slice",
   "refslice_refslice", "slice_seq", "refslice_seq", "ne_slice_slice"]

def query (x : Ctx) (q : String) : Q String := do
  let c := x.c
  match q with
  | "show" => do let s ← qlift parseS; let bs ← qr (evalS x s); pure (showS x bs)
  | "raw" => do
    let v ← qlift parseV; let bs ← qr (evalV x v)
    pure s!"true {natsStr (Seq.intoRaw bs)}"
  | "hash" => do let s ← qlift parseS; let bs ← qr (evalS x s); pure (hashStr (Seq.hashEvents c bs))
  | "hashv" => do let v ← qlift parseV; let bs ← qr (evalV x v); pure (hashStr (Seq.hashEvents c bs))
  | "usize" => do
    let s ← qlift parseS; let bs ← qr (evalS x s)
    let r ← qres (Seq.toUsize bs); pure (toString r)
  | "owned" => do
    let i ← qlift num
    let v ← qlift parseV; let bs ← qr (evalV x v)
    let n := Seq.len c bs
    let g ← qres (Seq.get x.p c bs i)
    let gs := match g with | some s => hex2 s | none => "none"
    let nth ← if i < n then do let s ← qres (Seq.nth x.p c bs i); pure (hex2 s) else pure "-"
    let f ← qres (seqRes (Iter.iter x.p c bs))
    let b ← qres (seqRes (Iter.revIter x.p c bs))
    let w := i % 3 + 1
    let ws ← qres (seqRes (Iter.windows x.p c bs w))
    let cs ← qres (seqRes (Iter.chunks x.p c bs w))
    let d := displayHex x bs
    if d = "panic" then pure "panic" else
    let idx ← if i ≤ n then do
        let a ← qres (Seq.index x.p c bs .range (i / 2) i)
        let b' ← qres (Seq.index x.p c bs .rangeFrom (i / 2) 0)
        let c' ← qres (Seq.index x.p c bs .rangeTo 0 i)
        pure s!"{content c a} {content c b'} {content c c'} {content c bs}"
      else pure "- - - -"
    pure s!"{n} {boolStr (n == 0)} {gs} {gs} {nth} {codesStr f} {codesStr f} {codesStr b} {d} {content c bs} {content c bs} {slicesStr c ws} {slicesStr c cs} true {idx}"
  | "showv" => do
    let v ← qlift parseV; let bs ← qr (evalV x v)
    let d := displayHex x bs
    if d = "panic" then pure "panic" else pure s!"{showS x bs} {d} {d} {d} {d}"
  | "usizev" => do
    let v ← qlift parseV; let bs ← qr (evalV x v)
    let r ← qres (Seq.ownedToUsize bs); pure (toString r)
  | "u8" => do
    let s ← qlift parseS; let bs ← qr (evalS x s)
    let r ← qres (Seq.toU8 bs); pure (toString r)
  | "nth" => do
    let i ← qlift num
    let s ← qlift parseS; let bs ← qr (evalS x s)
    let r ← qres (Seq.nth x.p c bs i); pure (hex2 r)
  | "get" => do
    let i ← qlift num
    let s ← qlift parseS; let bs ← qr (evalS x s)
    let r ← qres (Seq.get x.p c bs i)
    pure (match r with | some v => hex2 v | none => "none")
  | "len" => do
    let s ← qlift parseS; let bs ← qr (evalS x s)
    pure s!"{Seq.len c bs} {boolStr (Seq.len c bs == 0)}"
  | "eq" => do
    let pr ← qlift next
    let a ← qlift parseS; let b ← qlift parseS
    if ¬ eqPairings.contains pr then throw (.badOp "pairing")
    -- evaluation order of the harness: owned sides first
    let ownedL := pr.startsWith "seq_" ∨ pr.startsWith "refseq_"
    let ownedR := pr.endsWith "_seq" ∨ pr.endsWith "_refseq"
    let (l, r) ← if ownedL then do
        let l ← qr (evalS x a); let r ← qr (evalS x b); pure (l, r)
      else if ownedR then do
        let r ← qr (evalS x b); let l ← qr (evalS x a); pure (l, r)
      else do
        let l ← qr (evalS x a); let r ← qr (evalS x b); pure (l, r)
    pure (boolStr (l == r))
  | "eqstr" => do
    let h ← qlift hexBytes
    if ¬ validUtf8 h then throw (.badOp "utf8")
    let s ← qlift parseS; let bs ← qr (evalS x s)
    let r ← qres (Seq.eqStr x.p c bs h); pure (boolStr r)
  | "cmp" => do
    let a ← qlift parseV; let l ← qr (evalV x a)
    let b ← qlift parseV; let r ← qr (evalV x b)
    if ¬ isOrd x.name then throw .unsup
    -- Ord::cmp, PartialOrd::partial_cmp, <, <=, >, >=, Ord::max (second argument unless the first is greater), Ord::min
    let pc := match Seq.partialCmp l r with | some o => ordStr o | none => "none"
    pure s!"{ordStr (Seq.cmp l r)} {pc} {boolStr (Seq.lt l r)} {boolStr (Seq.le l r)} {boolStr (Seq.gt l r)} {boolStr (Seq.ge l r)} {content c (Seq.max l r)} {content c (Seq.min l r)}"
  | "serde" => do
    let v ← qlift parseV; let bs ← qr (evalV x v)
    let r := Serde.ser bs
    let ok := match Serde.de r with | .ok b => b == bs | .error _ => false
    pure s!"{showS x bs} {boolStr ok} {boolStr ok} {r.order} {r.headWidth} {r.headIndex} {r.bits} {natsStr r.data}"
  | "eqfresh" => do
    let v ← qlift parseV; let bs ← qr (evalV x v)
    let ss ← qres (Seq.iterSyms x.p c bs)
    let fresh := Seq.extend c [] ss
    let e := boolStr (bs == fresh)
    let cmp := if isOrd x.name then boolStr (Seq.cmp bs fresh == .eq && Seq.cmp fresh bs == .eq) else "na"
    pure s!"{e} {e} {e} {boolStr (Seq.hashEvents c bs == Seq.hashEvents c fresh)} {cmp} {e} {boolStr (content c bs == content c fresh)}"
  | "eqwin" => do
    let pr ← qlift next
    let a1 ← qlift num; let b1 ← qlift num; let a2 ← qlift num; let b2 ← qlift num
    let v ← qlift parseV; let bs ← qr (evalV x v)
    if ¬ ["slice_slice", "refslice_slice", "refslice_refslice", "ne"].contains pr then throw (.badOp "pairing")
    let l ← qres (Seq.index x.p c bs .range a1 b1)
    let r ← qres (Seq.index x.p c bs .range a2 b2)
    let e := l == r
    pure s!"{boolStr e} {if e then boolStr (Seq.hashEvents c l == Seq.hashEvents c r) else "-"}"
  | "hasheq" => do
    let a ← qlift parseS; let b ← qlift parseS
    let l ← qr (evalS x a); let r ← qr (evalS x b)
    if l == r then pure s!"eq:true hash:{boolStr (Seq.hashEvents c l == Seq.hashEvents c r)}" else pure "eq:false"
  | "serdert" => do
    let v ← qlift parseV; let bs ← qr (evalV x v)
    let ok := match Serde.de (Serde.ser bs) with | .ok b => b == bs | .error _ => false
    pure s!"{showS x bs} {boolStr ok} {boolStr ok}"
  | "adapt" => do
    -- the std default `Iterator` methods, driven through the model's own `next` functions (BioSeq/IterStd.lean;
    -- Props/C11Std.lean proves they act on the collected list like a cursor)
    let kind ← qlift next
    let w ← qlift num
    let ad ← qlift next
    let arg ← qlift num
    let s ← qlift parseS; let bs ← qr (evalS x s)
    if ad = "collectseq" then
      let fuel := Seq.len c bs + 1
      let f ← qres (seqRes (Iter.collect (Iter.seqIterNext x.p c bs) fuel (Iter.advance (Iter.seqIterNext x.p c bs) arg 0)))
      let b ← qres (seqRes (Iter.collect (Iter.revIterNext x.p c bs) fuel (Iter.advance (Iter.revIterNext x.p c bs) arg (Seq.len c bs))))
      return s!"{showS x (Seq.extend c [] f)} | {showS x (Seq.extend c [] b)}"
    match kind with
    | "windows" => do
      let r ← qres (stdAdapt (Iter.chunksNext x.p c bs) (Seq.len c bs + 1) ⟨w, 1, 0⟩ ad arg)
      pure (match r with | .inl r => slicesStr c r | .inr n => toString n)
    | "chunks" => do
      let r ← qres (stdAdapt (Iter.chunksNext x.p c bs) (Seq.len c bs + 1) ⟨w, w, 0⟩ ad arg)
      pure (match r with | .inl r => slicesStr c r | .inr n => toString n)
    | "iter" => do
      let r ← qres (stdAdapt (Iter.seqIterNext x.p c bs) (Seq.len c bs + 1) 0 ad arg)
      pure (match r with | .inl r => codesStr r | .inr n => toString n)
    | "reviter" => do
      let r ← qres (stdAdapt (Iter.revIterNext x.p c bs) (Seq.len c bs + 1) (Seq.len c bs) ad arg)
      pure (match r with | .inl r => codesStr r | .inr n => toString n)
    | "kmers" => do
      if w = 0 ∨ w > 64 then throw .unsup
      if w * c.width > 64 then throw .unsup
      let r ← qres (stdAdapt (Kmer.iterNext x.p c w bs (Seq.len c bs)) (Seq.len c bs + 1) 0 ad arg)
      pure (match r with | .inl r => natsStr r | .inr n => toString n)
    | _ => throw (.badOp "adapt kind")
  | "mapget" => do
    let n ← qlift num
    let mut keys : List Bits := []
    for _ in [0:n] do
      let v ← qlift parseV
      let bs ← qr (evalV x v)
      keys := keys ++ [bs]
    let s ← qlift parseS; let q ← qr (evalS x s)
    -- inserting an equal key overwrites the value: the last equal key wins
    let hits := (keys.zipIdx.filter fun (k, _) => k == q).map (·.2)
    pure (match hits.getLast? with | some i => toString i | none => "none")
  | "iter" | "intoiter" => do
    let s ← qlift parseS; let bs ← qr (evalS x s)
    let r ← qres (seqRes (Iter.iter x.p c bs)); pure (codesStr r)
  | "intoiterv" => do
    let v ← qlift parseV; let bs ← qr (evalV x v)
    let r ← qres (seqRes (Iter.iter x.p c bs)); pure (codesStr r)
  | "reviter" => do
    let s ← qlift parseS; let bs ← qr (evalS x s)
    let r ← qres (seqRes (Iter.revIter x.p c bs)); pure (codesStr r)
  | "windows" => do
    let w ← qlift num
    let s ← qlift parseS; let bs ← qr (evalS x s)
    let r ← qres (seqRes (Iter.windows x.p c bs w)); pure (slicesStr c r)
  | "chunks" | "chunksvec" => do
    let w ← qlift num
    let s ← qlift parseS; let bs ← qr (evalS x s)
    let r ← qres (seqRes (Iter.chunks x.p c bs w)); pure (slicesStr c r)
  | "chain" => do
    let a ← qlift parseS; let b ← qlift parseS
    let l ← qr (evalS x a); let r ← qr (evalS x b)
    let out ← qres (seqRes (Iter.chain x.p c l r)); pure (codesStr out)
  | "kmers" => do
    let k ← qlift num
    let s ← qlift parseS; let bs ← qr (evalS x s)
    if k = 0 ∨ k > 64 then throw .unsup
    if k * c.width > 64 then throw .unsup
    let r ← qres (seqRes (Kmer.kmers x.p c k bs)); pure (natsStr r)
  | "kmer" => kmerQuery x
  | "sym" => do
    let b ← qlift num
    let b := b % 256
    let o (v : Option Nat) : String := match v with | some s => hex2 s | none => "none"
    -- `unsafe_*` tables: none = panic
    let u (v : Option Nat) : String := match v with | some s => hex2 s | none => "panic"
    let un (has : Bool) (f : Nat → Option Nat) : String :=
      if has ∧ x.symbols.contains b then u (f b) else "none"
    -- copying symbol-level forms = the in-place forms (lib.rs: to_owned then mutate)
    let isSym := x.symbols.contains b
    let h (v : Option Nat) : String := match v with | some s => hex2 s | none => "panic"
    let forms :=
      if ¬ isSym then "-"
      else if x.name = "miupac" then s!"{h (c.mask b)}{h (c.unmask b)}"
      else if x.name = "dna" ∨ x.name = "mdna" then h (c.comp b)
      -- `From<Iupac> for u8`, `From<Amino> for u8`, `From<text::Dna> for u8` are the symbol's code; `Display for Amino` its character
      else if x.name = "iupac" then s!"{h (c.comp b)}{hex2 b}"
      else if x.name = "amino" then s!"{hex2 b}{utf8Hex [c.toChar b]}"
      else if x.name = "text" then hex2 b
      else "-"
    -- the same functions called on the concrete codec type
    let conc := if isSym then s!"{hex2 (c.toChar b)} {hex2 b} {o (c.tryFromBits b)} {o (c.tryFromAscii b)} {String.join (c.items.map hex2)}" else "-"
    pure s!"{c.width} {o (c.tryFromBits b)} {u (c.unsafeFromBits b)} {o (c.tryFromAscii b)} {u (c.unsafeFromAscii b)} {c.toChar b} {un (hasComp c) c.comp} {un (hasMask c) c.mask} {un (hasMask c) c.unmask} {forms} {conc}"
  | "items" => pure (String.join (c.items.map hex2))
  | _ => throw (.badOp s!"unknown query {q}")

def terrStr : Translation.TErr → String
  | .ambiguousCodon => "terr:ambiguouscodon"
  | .ambiguousTranslation => "terr:ambiguoustranslation"
  | .invalidCodon => "terr:invalidcodon"
  | .invalidAmino => "terr:invalidamino"
  | .panic => "panic"

def codonTableQuery (x : Ctx) (amino : Codec) (keysAreValues : Bool := false) : Q String := do
  let n ← qlift num
  let mut entries : List (Bits × Nat) := []
  for _ in [0:n] do
    let codon ← if keysAreValues then do
        let v ← qlift parseV
        qr (evalV x v)
      else do
        let h ← qlift hexBytes
        qres (Seq.parseBytes x.c h)
    let i ← qlift num
    entries := entries ++ [(codon, item amino i)]
  let nq ← qlift num
  let t := Translation.fromMap entries
  let mut outs : List String := []
  -- queries are parsed first, then evaluated (a failing slice expression fails the whole line)
  let mut qs : List (Sum S Nat) := []
  for _ in [0:nq] do
    let k ← qlift next
    if k = "c" then
      let s ← qlift parseS
      qs := qs ++ [.inl s]
    else if k = "a" then
      let i ← qlift num
      qs := qs ++ [.inr i]
    else throw (.badOp "codontable query")
  for q in qs do
    match q with
    | .inl s =>
      let bs ← qr (evalS x s)
      outs := outs ++ [match t.tryToAmino bs with | .ok a => hex2 a | .error e => terrStr e]
    | .inr i =>
      outs := outs ++ [match t.tryToCodon (item amino i) with
        | .ok c => s!"codon:{content x.c c}" | .error e => terrStr e]
  pure (if outs.isEmpty then "-" else ";".intercalate outs)

/-- literal token of a declaration: kind letter + decimal value; non-integer kinds have no value -/
def litTok (t : String) : Option (Option Nat) :=
  match t.toList with
  | k :: rest =>
    let v := (String.ofList rest).toNat?
    if k = 'd' ∨ k = 'b' ∨ k = 'x' ∨ k = 'u' ∨ k = 'y' then v.map some
    else if k = 'f' ∨ k = 't' ∨ k = 'n' then some none
    else none
  | [] => none

def parseDecl : Q Gen.EnumDecl := do
  let bitsTok ← qlift next
  let bits ← if bitsTok = "-" then pure none else match bitsTok.toNat? with
    | some b => pure (some b)
    | none => throw (.badOp "bits")
  let n ← qlift num
  let mut vs : List Gen.VariantDecl := []
  for _ in [0:n] do
    let ident ← qlift next
    let discTok ← qlift next
    let disc ← if discTok = "-" then pure none else match litTok discTok with
      | some d => pure d
      | none => throw (.badOp "lit")
    let dispTok ← qlift next
    let display ← if dispTok = "-" then pure none else match dispTok.toNat? with
      | some c => pure (some c)
      | none => throw (.badOp "display")
    let nalts ← qlift num
    let mut alts : List Nat := []
    for _ in [0:nalts] do
      let a ← qlift next
      if a = "|" then continue   -- separator between several #[alt(..)] attributes
      match litTok a with
      | some (some v) => alts := alts ++ [v]
      | _ => throw (.badOp "lit")
    vs := vs ++ [{ ident := ident, disc := disc, display := display, alts := alts }]
  pure { name := "E", bits := bits, variants := vs }

def deriveQuery : Q String := do
  let d ← parseDecl
  match Derive.derive "E" d with
  | .error .panic => pure "derivepanic"
  | .error _ => pure "deriveerr"
  | .ok c =>
    let tab (f : Nat → Option Nat) : String :=
      String.join ((List.range 256).map fun b => match f b with | some s => hex2 s | none => "--")
    let chars := ",".intercalate (c.items.map fun s => s!"{hex2 s}:{hex2 (c.toChar s)}")
    pure s!"w={c.width} items={String.join (c.items.map hex2)} tfb={tab c.tryFromBits} tfa={tab c.tryFromAscii} chars={chars}"

/-- codec-specific queries (harness/src/misc.rs `special`) -/
def special (x : Ctx) (q : String) : Option (Q String) :=
  let p := x.p
  match x.name, q with
  | "iupac", "contains" => some do
    let kind ← qlift next
    let a ← qlift parseS; let b ← qlift parseS
    if kind ≠ "seq" ∧ kind ≠ "slice" ∧ kind ≠ "arr" then throw (.badOp "contains kind")
    let l ← qr (evalS x a); let r ← qr (evalS x b)
    if kind = "arr" ∧ ¬ arrLens.contains (Seq.len x.c l) then throw .unsup
    pure (boolStr (Translation.contains x.c l r))
  | "dna", "conv" => some do
    let target ← qlift next
    let s ← qlift parseS
    let some dstp := (if target = "iupac" then some Gen.iupac else if target = "text" then some Gen.text else none)
      | throw (.badOp "conv target")
    let bs ← qr (evalS x s)
    let r ← qres (Standard.convert p x.c (dstp p) (Standard.convTable p target) bs)
    pure (showS { x with c := dstp p, name := target } r)
  | "dna", "convarr" => some do
    let target ← qlift next
    let _kind ← qlift next
    let s ← qlift parseS
    let bs ← qr (evalS x s)
    if ¬ arrLens.contains (Seq.len x.c bs) then throw .unsup
    let some dstp := (if target = "iupac" then some Gen.iupac else if target = "text" then some Gen.text else none)
      | throw (.badOp "conv target")
    let r ← qres (SeqArr.convert p x.c (dstp p) (Standard.convTable p target) (SeqArr.ofBits ((bs.length + 63) / 64) x.c bs))
    pure (showS { x with c := dstp p, name := target } r)
  | "dna", "toamino" => some do
    let s ← qlift parseS; let bs ← qr (evalS x s)
    match Translation.toAmino x.c (Gen.amino p) bs with
    | .ok a => pure (hex2 a)
    | .error _ => throw (.bio .panic)
  | "dna", "translate" => some do
    let s ← qlift parseS; let bs ← qr (evalS x s)
    let amino := Gen.amino p
    let tr (ws : List (Res Bits)) : Q Bits := do
      let mut acc : Bits := []
      for w in ws do
        let wb ← qres w
        match Translation.toAmino x.c amino wb with
        | .ok a => acc := Seq.push amino acc a
        | .error _ => throw (.bio .panic)
      pure acc
    let w ← tr (Iter.windows p x.c bs 3)
    let c ← tr (Iter.chunks p x.c bs 3)
    pure s!"{content amino w} {content amino c}"
  | "iupac", "trytoamino" => some do
    let s ← qlift parseS; let bs ← qr (evalS x s)
    pure (match Translation.tryToAmino x.c (Standard.rows p) bs with
      | .ok a => hex2 a | .error e => terrStr e)
  | "amino", "trytocodon" => some do
    let i ← qlift num
    pure (match Translation.stdTryToCodon (Standard.rows p) (item x.c i) with
      | .ok c => s!"codon:{content (Gen.iupac p) c}" | .error e => terrStr e)
  | "amino", "tocodon" => some do
    let _ ← qlift num
    pure "terr:ambiguouscodon"
  | "dna", "macro" | "iupac", "macro" => some do
    let h ← qlift hexBytes
    let some str := String.fromUTF8? (ByteArray.mk (h.map (·.toUInt8)).toArray) | throw (.badOp "utf8")
    let cps := str.toList.map Char.toNat
    let t := if x.name = "dna" then Macros.dnaTable p else Macros.iupacTable p
    if cps.any (fun c => decide (c ≥ 128)) then pure "macroerr nonascii" else
    match Macros.seqLoop t 0 cps (0, []) with
    | .ok (n, bits) => pure s!"{n} {if bits.isEmpty then "-" else String.ofList (bits.map fun b => if b then '1' else '0')}"
    | .error _ => pure "macroerr invalid"
  | "dna", "macroshow" | "iupac", "macroshow" => some do
    let h ← qlift hexBytes
    let some str := String.fromUTF8? (ByteArray.mk (h.map (·.toUInt8)).toArray) | throw (.badOp "utf8")
    let cps := str.toList.map Char.toNat
    let t := if x.name = "dna" then Macros.dnaTable p else Macros.iupacTable p
    match Macros.macroSeq t x.c.width cps with
    | .ok (_, bits) => pure s!"{showS x bits} {hashStr (Seq.hashEvents x.c bits)}"
    | .error _ => pure "macroerr"
  | "dna", "macrokmer" => some do
    let stTok ← qlift next
    let some st := storageOf stTok | throw (.badOp "storage")
    let h ← qlift hexBytes
    let some str := String.fromUTF8? (ByteArray.mk (h.map (·.toUInt8)).toArray) | throw (.badOp "utf8")
    let cps := str.toList.map Char.toNat
    match Macros.macroKmer p x.c (Macros.dnaTable p) st cps with
    | .ok r => do
      let v ← qres r
      let d ← qres (Kmer.display p x.c cps.length st v)
      pure s!"{v} {utf8Hex d} {hashStr (Kmer.hashEvents x.c cps.length st v)}"
    | .error _ => pure "macroerr"
  | _, "derive" => some deriveQuery
  | "dna", "codontable" => some (codonTableQuery x (Gen.amino p))
  | "iupac", "codontable" => some (codonTableQuery x (Gen.amino p))
  | "dna", "codontablev" => some (codonTableQuery x (Gen.amino p) true)
  | "iupac", "codontablev" => some (codonTableQuery x (Gen.amino p) true)
  | _, _ => none

def evalLine (p : Profile) (line : String) : String :=
  let toks := (line.splitOn " ").filter (· ≠ "")
  match toks with
  | codec :: q :: rest =>
    match Gen.codecByName codec with
    | none => "bad-op codec"
    | some cp =>
      let x : Ctx := { p := p, c := cp p, name := codec, symbols := Gen.symbolsOf codec p }
      let qq := match special x q with | some m => m | none => query x q
      match qq.run rest with
      | .ok (s, _) => s!"ok {s}"
      | .error f => failStr f
  | _ => "bad-op empty"

partial def loop (p : Profile) (h : IO.FS.Stream) (out : IO.FS.Stream) : IO Unit := do
  let line ← h.getLine
  if line.isEmpty then return ()
  let l := line.trimAscii.toString
  if l.isEmpty ∨ l.startsWith "#" then out.putStrLn "skip"
  else out.putStrLn (evalLine p l)
  loop p h out

def main (args : List String) : IO UInt32 := do
  let p ← match args with
    | ["debug"] => pure Profile.debug
    | ["release"] => pure Profile.release
    | _ => do IO.eprintln "usage: driver debug|release"; return 2
  loop p (← IO.getStdin) (← IO.getStdout)
  return 0
