import BioSeq.Bits
import BioSeq.Codec
import BioSeq.Seq
import BioSeq.Kmer
import BioSeq.Iter
