#!/bin/sh
# Offline setup: build the harness (dev+release) against /repo's working tree, extract,
# regenerate the Lean tables, build the whole Lean project (model, theorems, driver).
set -e
cd "$(dirname "$0")"
mkdir -p .work
export CARGO_NET_OFFLINE=true
cp -n /repo/Cargo.lock harness/Cargo.lock 2>/dev/null || true
(cd harness && cargo build --offline --target-dir ../.work/target) &
(cd harness && cargo build --release --offline --target-dir ../.work/target) &
wait
.work/target/debug/harness extract > .work/extract.debug.json
.work/target/release/harness extract > .work/extract.release.json
python3 tools/gen_lean.py
(cd lean && lake build BioSeq driver)
echo setup-ok
