#!/bin/sh
# Self-validation helper (not used by the registered checks): build a scratch "lane" =
# a private git worktree of /repo plus a private copy of /verif whose harness and tools
# point at that worktree, so that seeded / systematic mutants can be evaluated in parallel
# without touching /repo.   usage: lane.sh <dir>        (e.g. /tmp/lane_1)
#                                  lane.sh --refresh <dir>   (re-copy /verif into an existing lane)
#                                  lane.sh --remove <dir>
set -e
if [ "$1" = "--remove" ]; then
  D=$2
  git -C /repo worktree remove --force "$D/repo" 2>/dev/null || true
  rm -rf "$D"
  exit 0
fi
REFRESH=0
if [ "$1" = "--refresh" ]; then REFRESH=1; shift; fi
D=$1
ROOT="$(cd "$(dirname "$0")/.." && pwd)"
mkdir -p "$D"
if [ $REFRESH = 0 ]; then git -C /repo worktree add --detach "$D/repo" HEAD -q; else git -C "$D/repo" checkout -q -- .; fi
mkdir -p "$D/verif"
rsync -a --ignore-missing-args --exclude .git --exclude replays --exclude seeded --exclude spikes --exclude '.work/prog*' "$ROOT/" "$D/verif/" || [ $? = 24 ]
# the scratch copy must read the scratch worktree
sed -i "s#/repo/#$D/repo/#g; s#\"/repo\"#\"$D/repo\"#g" "$D/verif/harness/Cargo.toml" "$D/verif/harness/src/"*.rs "$D/verif/tools/check.py" "$D/verif/tools/programs.py"
rm -f "$D/verif/.work/harness.stamp"
echo "lane ready: $D"
