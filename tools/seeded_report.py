#!/usr/bin/env python3
"""summarise seeded/*/meta.json into seeded/RESULTS.md and harvest the revealing op lines into corpus/"""
import json, os, re, glob
ROOT = os.path.dirname(os.path.dirname(os.path.abspath(__file__)))
rows = []
corpus = {}
HIST = json.load(open(os.path.join(ROOT, "seeded", "HISTORY.json"))) if os.path.exists(os.path.join(ROOT, "seeded", "HISTORY.json")) else {}
for d in sorted(glob.glob(os.path.join(ROOT, "seeded", "C*"))):
    mp = os.path.join(d, "meta.json")
    if not os.path.exists(mp):
        continue
    m = json.load(open(mp))
    sid = os.path.basename(d)
    what = m["what_it_needs_to_manifest"].replace("\n", " ")
    what = re.sub(r"\s+", " ", what)[:330]
    det = ", ".join(m.get("detected_by_quick_checks", [])) or "— (missed)"
    sample = ""
    for sv in m.get("sample_violation", []):
        try:
            j = json.loads(sv.strip())
            if j.get("op_line") and not re.search(r" (hash|hashv) | kmer hash ", " " + j["op_line"] + " "):
                corpus.setdefault(m["breaks_property"], set()).add(j["op_line"])
            if j.get("op_line"):
                sample = f"`{j['op_line'][:110]}` ({j.get('profile')}): impl `{str(j.get('impl_actual'))[:40]}` vs model `{str(j.get('model_actual'))[:40]}`"
            elif j.get("witness"):
                sample = "table witness: " + "; ".join(j["witness"][:2])[:200]
            elif j.get("program_case"):
                pc = j["program_case"]
                sample = f"program layer ({pc.get('kind')}): {str(pc.get('literal') or pc.get('declaration'))[:120]}"
        except Exception:
            pass
    rows.append((sid, m["breaks_property"], det, what, sample, HIST.get(sid, "")))
out = ["# Seeded changes and which checks catch them", "",
       "Each change was produced by an independent sub-agent that saw only the property text and a scratch worktree, was re-confirmed",
       "(existing suite passes with it; its demonstration fails with it and passes without), applied to `/repo`, run against the quick",
       "checks with `tools/eval_mutant.py`, and undone. `history` notes checks that were strengthened after an initial miss.", "",
       "| id | property | caught by (quick) | what the change is / needs | first replay | history |", "|---|---|---|---|---|---|"]
for r in rows:
    out.append("| " + " | ".join(x.replace("|", "\\|") for x in r) + " |")
caught = sum(1 for r in rows if "missed" not in r[2])
own = sum(1 for r in rows if r[1] in r[2])
out += ["", f"{caught} of {len(rows)} seeded changes are caught by a registered quick check; {own} of them by the quick check of the very property they were aimed at "
        "(the others are violations of a neighbouring property and are caught there; see the history column).", ""]
open(os.path.join(ROOT, "seeded", "RESULTS.md"), "w").write("\n".join(out))
os.makedirs(os.path.join(ROOT, "corpus"), exist_ok=True)
for prop, lines in corpus.items():
    p = os.path.join(ROOT, "corpus", f"{prop}.ops")
    old = set(l.strip() for l in open(p)) if os.path.exists(p) else set()
    allv = sorted((old | lines) - {""})
    open(p, "w").write("# minimised op lines that revealed seeded changes or past disagreements; run first on every check\n" + "\n".join(l for l in allv if not l.startswith("#")) + "\n")
print(f"{caught}/{len(rows)} caught; corpus files: {sorted(corpus)}")
