"""Generators of protocol lines (one self-contained operation per line).
All randomness comes from one PRNG seeded by VERIF_SEED."""
import json, os, random

CODECS = ["dna", "iupac", "amino", "text", "mdna", "miupac", "deg"]


def hx(bs):
    return "-" if len(bs) == 0 else "".join(f"{b:02x}" for b in bs)


class G:
    def __init__(self, seed, work):
        self.r = random.Random(seed)
        ex = json.load(open(os.path.join(work, "extract.debug.json")))
        self.info = {c["name"]: c for c in ex["codecs"]}
        self.alpha = {n: [b for b in range(256) if not isinstance(c["try_from_ascii"][b], str)] for n, c in self.info.items()}
        self.width = {n: c["bits"] for n, c in self.info.items()}

    def text(self, codec, n):
        a = self.alpha[codec]
        return [self.r.choice(a) for _ in range(n)]


ENTRIES_TEXT = ["str", "string", "refstring", "fromstr"]
ENTRIES_BYTES = ["bytes", "vec"]
ENTRIES_SYMS = ["collect", "fromvec", "extend"]


def boundary_lengths(w, words=3, delta=2):
    out = {0, 1, 2, 3}
    for j in range(1, words + 1):
        base = (64 * j) // w
        for d in range(-delta, delta + 1):
            if base + d >= 0:
                out.add(base + d)
    return sorted(out)


def bad_bytes(g, codec, utf8_only):
    """bytes the codec refuses: lower case, digits, whitespace, neighbours of valid letters, high bytes"""
    a = set(g.alpha[codec])
    cands = [b for b in list(b"acgtnxN-.*?! 0\n\tUXZ@[`{~") + [x + 1 for x in a] + [x - 1 for x in a] + [x ^ 0x20 for x in a] if 0 <= b < 128 and b not in a]
    if not utf8_only:
        cands += [0x80, 0xff, 0xc3, 0xa9]
    return cands


def gen_C01(g, tier):
    r = g.r
    lines = []
    reps = 1 if tier == "quick" else 6
    for c in CODECS:
        w = g.width[c]
        Ls = boundary_lengths(w, 3 if tier == "quick" else 5)
        for n in Ls:
            for _ in range(reps):
                t = g.text(c, n)
                entries = ENTRIES_TEXT + ENTRIES_BYTES + ENTRIES_SYMS if tier != "quick" else [r.choice(ENTRIES_TEXT), r.choice(ENTRIES_BYTES), r.choice(ENTRIES_SYMS)]
                for e in entries:
                    lines.append(f"{c} show p {e} {hx(t)}")
                if n > 0:
                    i = r.randrange(n)
                    lines.append(f"{c} nth {i} p {r.choice(ENTRIES_BYTES)} {hx(t)}")
                    lines.append(f"{c} len p {r.choice(ENTRIES_TEXT)} {hx(t)}")
                # malformed: one refused byte at the start / end / random position, sometimes two
                for pos in ({0, n, r.randrange(n + 1)} if n else {0}):
                    for utf8_only in (True, False):
                        bb = r.choice(bad_bytes(g, c, utf8_only))
                        t2 = t[:pos] + [bb] + t[pos:]
                        if r.random() < 0.3:
                            q = r.randrange(len(t2) + 1)
                            t2 = t2[:q] + [r.choice(bad_bytes(g, c, utf8_only))] + t2[q:]
                        e = r.choice(ENTRIES_TEXT) if utf8_only else r.choice(ENTRIES_BYTES)
                        lines.append(f"{c} show p {e} {hx(t2)}")
        # multi-byte UTF-8 through the &str entry points
        t = g.text(c, 5)
        for e in ENTRIES_TEXT:
            lines.append(f"{c} show p {e} {hx(t[:2] + [0xc3, 0xa9] + t[2:])}")
        # long random texts
        for _ in range(3 if tier == "quick" else 40):
            n = r.randrange(100, 1000)
            t = g.text(c, n)
            lines.append(f"{c} show p {r.choice(ENTRIES_TEXT + ENTRIES_BYTES + ENTRIES_SYMS)} {hx(t)}")
            pos = r.randrange(n)
            lines.append(f"{c} show p vec {hx(t[:pos] + [r.choice(bad_bytes(g, c, False))] + t[pos:])}")
        # every single byte as a one-character text
        for b in range(256):
            lines.append(f"{c} show p bytes {b:02x}")
    return lines


FORMS = ["r", "rt", "rti", "ri", "rf", "full", "one"]


def form_args(form, a, b):
    """protocol (A, B) arguments selecting symbols a..b (half-open) with this form, or None if the form cannot express it"""
    if form == "r":
        return (a, b)
    if form == "rt":
        return (0, b) if a == 0 else None
    if form == "rti":
        return (0, b - 1) if a == 0 and b >= 1 else None
    if form == "ri":
        return (a, b - 1) if b >= 1 and b - 1 >= 0 else None
    if form == "rf":
        return None  # depends on the parent's length; handled by the caller
    if form == "full":
        return None
    if form == "one":
        return (a, 0) if b == a + 1 else None
    return None


def slice_expr(g, base, n, depth):
    """wrap `base` (a slice expression of length n) in `depth` in-bounds re-slicings; returns (expr, length)"""
    r = g.r
    e, ln = base, n
    for _ in range(depth):
        a = r.randrange(ln + 1)
        b = r.randrange(a, ln + 1)
        forms = [f for f in FORMS if form_args(f, a, b) is not None]
        if b == ln:
            forms.append("rf")
        if a == 0 and b == ln:
            forms.append("full")
        f = r.choice(forms)
        if f == "rf":
            A, B = a, 0
        elif f == "full":
            A, B = 0, 0
        else:
            A, B = form_args(f, a, b)
        e = f"sl {f} {A} {B} {e}"
        ln = b - a
    return e, ln


def gen_C03(g, tier):
    import math
    r = g.r
    lines = []
    big = [1 << 63, 1 << 62, (1 << 63) + (1 << 62), (1 << 64) - 1, (1 << 64) - 2]
    for c in CODECS:
        w = g.width[c]
        ns = [64 // w + 3, 128 // w + 2] if tier == "quick" else [64 // w + 3, 128 // w + 2, 192 // w + 1, 5]
        for n in ns:
            t = g.text(c, n)
            base = f"p str {hx(t)}"
            starts = range(0, min(n, 64 // math.gcd(w, 64) + 1) + 1)
            for a in starts:
                bs_ = sorted({a, a + 1, a + 2, (a + n) // 2, n - 1, n} & set(range(a, n + 1)))
                for b in bs_:
                    for f in FORMS:
                        if f == "rf":
                            if b != n:
                                continue
                            A, B = a, 0
                        elif f == "full":
                            if not (a == 0 and b == n):
                                continue
                            A, B = 0, 0
                        else:
                            ab = form_args(f, a, b)
                            if ab is None:
                                continue
                            A, B = ab
                        lines.append(f"{c} show sl {f} {A} {B} {base}")
                # symbol access through a slice starting at a
                if a < n:
                    for i in sorted({0, (n - a) // 2, n - a - 1}):
                        lines.append(f"{c} nth {i} sl rf {a} 0 {base}")
                        lines.append(f"{c} get {i} sl rf {a} 0 {base}")
                    for i in (n - a, n - a + 1):
                        lines.append(f"{c} nth {i} sl rf {a} 0 {base}")
                        lines.append(f"{c} get {i} sl rf {a} 0 {base}")
                        lines.append(f"{c} show sl one {i} 0 sl rf {a} 0 {base}")
            # out of bounds just past the end, reversed bounds
            for (A, B) in [(0, n + 1), (0, n + 2), (n, n + 1), (n + 1, n + 1), (n + 1, n + 2), (2, 1), (n, n - 1), (n + 1, 0)]:
                for f in ("r", "ri", "rt", "rti", "rf", "one"):
                    lines.append(f"{c} show sl {f} {A} {B} {base}")
            # nested re-slicing, depth 1..3, then read every position
            for _ in range(8 if tier == "quick" else 120):
                d = r.randrange(1, 4)
                e, ln = slice_expr(g, base, n, d)
                lines.append(f"{c} show {e}")
                lines.append(f"{c} len {e}")
                if ln > 0:
                    i = r.randrange(ln)
                    lines.append(f"{c} nth {i} {e}")
                lines.append(f"{c} get {ln} {e}")
                lines.append(f"{c} nth {ln} {e}")
                # one step out of bounds at the innermost level
                lines.append(f"{c} show sl r 0 {ln + 1} {e}")
            # indices whose bit offset overflows usize (debug panics; release wraps: known finding)
            for v in big:
                lines.append(f"{c} nth {v} {base}")
                lines.append(f"{c} get {v} {base}")
                lines.append(f"{c} show sl r {v} {v} {base}")
                lines.append(f"{c} show sl ri 0 {v} {base}")
        # slices of owned copies, static k-mer derefs
        t = g.text(c, 9)
        lines.append(f"{c} show sl r 1 3 own sl r 2 8 p str {hx(t)}")
    return lines


def gen_C05(g, tier):
    lines = []
    for c in CODECS:
        for b in range(256):
            lines.append(f"{c} sym {b}")
    return lines


def generate(prop, seed, tier, work):
    g = G(seed, work)
    fn = globals().get("gen_" + prop)
    if fn is None:
        return []
    return fn(g, tier)
