"""Generators of protocol lines (one self-contained operation per line).
All randomness comes from one PRNG seeded by VERIF_SEED."""
import json, os, random

CODECS = ["dna", "iupac", "amino", "text", "mdna", "miupac", "deg"]


def hx(bs):
    return "-" if len(bs) == 0 else "".join(f"{b:02x}" for b in bs)


class G:
    def __init__(self, seed, work):
        self.r = random.Random(seed)
        ex = json.load(open(os.path.join(work, "extract.debug.json")))
        self.info = {c["name"]: c for c in ex["codecs"]}
        self.alpha = {n: [b for b in range(256) if not isinstance(c["try_from_ascii"][b], str)] for n, c in self.info.items()}
        self.width = {n: c["bits"] for n, c in self.info.items()}

    def text(self, codec, n):
        a = self.alpha[codec]
        return [self.r.choice(a) for _ in range(n)]


def gen_C05(g, tier):
    lines = []
    for c in CODECS:
        for b in range(256):
            lines.append(f"{c} sym {b}")
    return lines


def generate(prop, seed, tier, work):
    g = G(seed, work)
    fn = globals().get("gen_" + prop)
    if fn is None:
        return []
    return fn(g, tier)
